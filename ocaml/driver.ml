(* Trivial read/print loop around the extracted Coq model.
   Line format:  <cmd> <tok> <tok> ...   tok = x<hex> (bytes) | -?[0-9]+ (int) | symbol
   Output: one line per input line, produced entirely by Model.dispatch. *)
open Model

let rec pos_of_int n =
  if n = 1 then XH
  else if n land 1 = 0 then XO (pos_of_int (n lsr 1))
  else XI (pos_of_int (n lsr 1))

let z_of_int n = if n = 0 then Z0 else if n > 0 then Zpos (pos_of_int n) else Zneg (pos_of_int (-n))

let rec int_of_pos = function XH -> 1 | XO p -> 2 * int_of_pos p | XI p -> 2 * int_of_pos p + 1
let int_of_z = function Z0 -> 0 | Zpos p -> int_of_pos p | Zneg p -> - (int_of_pos p)

let byte_tab = Array.init 256 z_of_int

let hexval c = match c with
  | '0'..'9' -> Char.code c - 48
  | 'a'..'f' -> Char.code c - 87
  | 'A'..'F' -> Char.code c - 55
  | _ -> failwith "bad hex"

let bytes_of_hex s off =
  let n = (String.length s - off) / 2 in
  let rec go i acc = if i < 0 then acc
    else go (i - 1) (byte_tab.(hexval s.[off + 2*i] * 16 + hexval s.[off + 2*i + 1]) :: acc) in
  go (n - 1) []

let chars_of_string s =
  let rec go i acc = if i < 0 then acc else go (i - 1) (byte_tab.(Char.code s.[i]) :: acc) in
  go (String.length s - 1) []

let is_int s =
  let n = String.length s in
  n > 0 && (let st = if s.[0] = '-' then 1 else 0 in
            n > st && n - st <= 18 &&
            (let ok = ref true in for i = st to n - 1 do
               (match s.[i] with '0'..'9' -> () | _ -> ok := false) done; !ok))

let tok_of_string s =
  if String.length s >= 1 && s.[0] = 'x' &&
     (let ok = ref (String.length s mod 2 = 1) in
      String.iteri (fun i c -> if i > 0 then match c with '0'..'9'|'a'..'f'|'A'..'F' -> () | _ -> ok := false) s; !ok)
  then TBytes (bytes_of_hex s 1)
  else if is_int s then TInt (z_of_int (int_of_string s))
  else TSym (chars_of_string s)

let () =
  let buf = Buffer.create 65536 in
  (try
    while true do
      let line = input_line stdin in
      let toks = List.filter (fun s -> s <> "") (String.split_on_char ' ' line) in
      (match toks with
       | [] -> print_newline ()
       | cmd :: args ->
         let out = dispatch (chars_of_string cmd) (List.map tok_of_string args) in
         Buffer.clear buf;
         List.iter (fun z -> Buffer.add_char buf (Char.chr ((int_of_z z) land 255))) out;
         print_string (Buffer.contents buf); print_newline ())
    done
  with End_of_file -> ());
  flush stdout
