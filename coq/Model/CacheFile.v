(* Model of GetCache / Dump (ipfix/memcache.go, netflow/v9/memcache.go) over the PARSED cache file.
   `doc` is everything json.Unmarshal into memCacheDisk can produce: the shard slice of any length
   (nil = []), nil shard pointers, nil maps, any keys and template records, any ShardNo; None =
   the file is absent, unreadable or not valid JSON for that type. *)
From VF Require Import Base.Prelude Model.Flow Model.Cache.

Definition doc := option (ccache * Z).

Definition shard_ok (s : shard) : bool := match s with Some (Some _) => true | _ => false end.
Definition cache_ok (c : ccache) : bool := (Nat.eqb (length c) 32) && forallb shard_ok c.

(* GetCache: the loaded cache is used only if ShardNo matches and the structure is complete;
   otherwise a fresh empty cache *)
Definition get_cache (d : doc) : ccache :=
  match d with
  | Some (c, n) => if (n =? shard_no) && cache_ok c then c else empty_ccache
  | None => empty_ccache
  end.

(* Dump writes memCacheDisk{m, shardNo} *)
Definition dump_doc (c : ccache) : doc := Some (c, shard_no).
