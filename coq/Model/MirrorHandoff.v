(* Model of the hand-off of a received datagram from the workers to the mirror goroutine (vflow/ipfix.go, vflow/sflow.go:
   `mirror.body = pool.Get(); mirror.body = append(mirror.body[:0], msg.body...); select { case mCh <- mirror: default: }`
   and mirrorIPFIX / mirrorSFlow: `msg = <-ch; copy(packet[...], msg.body); pool.Put(msg.body[:size]); Send`).
   A buffer's content is abstracted to WHICH datagram's octets it holds; `emitted` records, for every packet the mirror
   goroutine sends, the datagram it was queued for and the datagram whose octets the buffer held when it was copied out. *)
From VF Require Import Base.Prelude.

Definition bufid := nat.
Inductive mown := MFree | MWorker (w : nat) | MQueued | MMirror.
Inductive mwst := MWIdle | MWHave (m : bufid) (i : nat).
Inductive mmst := MMIdle | MMHave (m : bufid) (i : nat).

Record hst := { howner : bufid -> mown; hheap : bufid -> nat; hws : list mwst; hq : list (bufid * nat); hm : mmst;
                emitted : list (nat * nat) }.

Definition hset {A} (f : bufid -> A) (b : bufid) (x : A) : bufid -> A := fun b' => if Nat.eqb b' b then x else f b'.
Fixpoint hupd {A} (l : list A) (i : nat) (x : A) : list A :=
  match l, i with [], _ => [] | _ :: t, O => x :: t | a :: t, S k => a :: hupd t k x end.

Inductive hstep : hst -> hst -> Prop :=
(* worker w, datagram i: take a buffer from the pool (or a new one) and copy the datagram into it *)
| HGet s w m i : nth_error (hws s) w = Some MWIdle -> howner s m = MFree ->
    hstep s {| howner := hset (howner s) m (MWorker w); hheap := hset (hheap s) m i; hws := hupd (hws s) w (MWHave m i);
               hq := hq s; hm := hm s; emitted := emitted s |}
(* the mirror queue has room: the buffer now belongs to the queue; the worker must not touch it again *)
| HSend s w m i : nth_error (hws s) w = Some (MWHave m i) ->
    hstep s {| howner := hset (howner s) m MQueued; hheap := hheap s; hws := hupd (hws s) w MWIdle;
               hq := hq s ++ [(m, i)]; hm := hm s; emitted := emitted s |}
(* the queue is full: the copy is dropped *)
| HDrop s w m i : nth_error (hws s) w = Some (MWHave m i) ->
    hstep s {| howner := hset (howner s) m MFree; hheap := hheap s; hws := hupd (hws s) w MWIdle;
               hq := hq s; hm := hm s; emitted := emitted s |}
(* mirror goroutine: msg = <-ch *)
| HRecv s m i rest : hm s = MMIdle -> hq s = (m, i) :: rest ->
    hstep s {| howner := hset (howner s) m MMirror; hheap := hheap s; hws := hws s; hq := rest; hm := MMHave m i; emitted := emitted s |}
(* mirror goroutine: copy the payload into the packet, return the buffer to the pool, send *)
| HEmit s m i : hm s = MMHave m i ->
    hstep s {| howner := hset (howner s) m MFree; hheap := hheap s; hws := hws s; hq := hq s; hm := MMIdle;
               emitted := emitted s ++ [(i, hheap s m)] |}.

Inductive hreach (s0 : hst) : hst -> Prop :=
| HR0 : hreach s0 s0
| HRS x y : hreach s0 x -> hstep x y -> hreach s0 y.

Definition hinit (n : nat) : hst :=
  {| howner := fun _ => MFree; hheap := fun _ => O; hws := repeat MWIdle n; hq := []; hm := MMIdle; emitted := [] |}.
