(* The discipline the pipeline model (Model/Pipeline.v) assumes of a worker loop, as a decidable predicate over the
   sequence of its shared-state statements in source order (regenerated from the Go source into Gen/Workers.v):
   - the receive buffer is returned to the pool exactly once per iteration on every path, and never while the message
     decoded from it is still to be encoded: either at the top of the loop (before the next receive) or right before
     every `continue` after the receive and at the very end; always re-sliced to the full size (Put:full);
   - the copy for the mirror goroutine goes into a buffer freshly taken from the pool (MirrorGet; MirrorCopy; MirrorSend)
     before decoding starts;
   - one Decode, then one Count, before Marshal; what is queued for the producer is a fresh copy (Publish:copy). *)
From VF Require Import Base.Prelude.
Local Open Scope string_scope.
Local Open Scope list_scope.

Definition is (a b : string) : bool := String.eqb a b.
Definition is_put (e : string) : bool := is e "Put:full" || is e "Put:other".

Fixpoint split_recv (l : list string) (pre : list string) : option (list string * list string) :=
  match l with
  | [] => None
  | e :: t => if is e "Recv" then Some (rev pre, t) else split_recv t (e :: pre)
  end.

Fixpoint count_of (x : string) (l : list string) : nat :=
  match l with [] => O | e :: t => (if is e x then 1 else 0) + count_of x t end.

(* every Put:full in l is followed by Continue or is the last event; no other kind of Put *)
Fixpoint puts_exit_only (l : list string) : bool :=
  match l with
  | [] => true
  | e :: t => (if is e "Put:other" then false
               else if is e "Put:full" then match t with [] => true | n :: _ => is n "Continue" end else true) && puts_exit_only t
  end.
(* every Continue in l is immediately preceded by Put:full *)
Fixpoint continues_after_put (prev : string) (l : list string) : bool :=
  match l with
  | [] => true
  | e :: t => (if is e "Continue" then is prev "Put:full" else true) && continues_after_put e t
  end.

Fixpoint index_of (x : string) (l : list string) (i : nat) : option nat :=
  match l with [] => None | e :: t => if is e x then Some i else index_of x t (S i) end.
Definition before (a b : string) (l : list string) : bool :=
  match index_of a l 0, index_of b l 0 with
  | Some i, Some j => Nat.ltb i j
  | _, None => true          (* b does not occur *)
  | None, Some _ => false
  end.

Definition mirror_ok (post : list string) : bool :=
  match count_of "MirrorSend" post, count_of "MirrorGet" post, count_of "MirrorCopy" post, count_of "MirrorCopy:other" post with
  | O, O, O, O => true
  | 1, 1, 1, O => before "MirrorGet" "MirrorCopy" post && before "MirrorCopy" "MirrorSend" post && before "MirrorSend" "Decode" post
  | _, _, _, _ => false
  end%nat.

Definition worker_ok (evs : list string) : bool :=
  match split_recv evs [] with
  | None => false
  | Some (pre, post) =>
    let top_style := match pre with [p] => is p "Put:full" | _ => false end && Nat.eqb (count_of "Put:full" post + count_of "Put:other" post) 0 in
    let exit_style := match pre with [] => true | _ => false end && puts_exit_only post && continues_after_put "Recv" post
                      && match rev post with l :: _ => is l "Put:full" | [] => false end in
    (top_style || exit_style)
    && Nat.eqb (count_of "Recv" post) 0
    && Nat.eqb (count_of "Decode" post) 1 && Nat.eqb (count_of "Count" post) 1
    && before "Decode" "Count" post && before "Count" "Marshal" post && before "Marshal" "Publish:copy" post
    && Nat.eqb (count_of "Publish:other" post) 0 && Nat.leb (count_of "Publish:copy" post) 1
    && mirror_ok post
  end.

(* ---------- the receive loops (Gen/Receive.v) ---------- *)
(* the loop the accounting model assumes: take a buffer, read one datagram into it, on a read ERROR (and on nothing else: not on
   a particular length) go round again, otherwise count the datagram and queue exactly its N octets with its source address.
   Setting the read deadline may stand anywhere before the read. *)
Fixpoint strs_eqb (a b : list string) : bool :=
  match a, b with
  | [], [] => true
  | x :: a', y :: b' => String.eqb x y && strs_eqb a' b'
  | _, _ => false
  end.
Definition receive_ok (evs : list string) : bool :=
  let core := filter (fun e => negb (String.eqb e "Deadline")) evs in
  strs_eqb core ["Get"; "Read"; "Skip:E != nil"; "Count"; "Send:A,B[:N]"].
