(* Model of vflow/options.go flagSet(): the configuration sources are applied by executing the stage
   list (regenerated from the source into Gen/Options.v).  Values are opaque octet strings; a
   setting is identified by its Options field name. *)
From VF Require Import Base.Prelude.

Inductive reg_default :=
| DCurrent                    (* flag.XVar(&opts.F, name, opts.F, ...): keeps the current oval *)
| DField (g : string)         (* ... default taken from ANOTHER field: overwrites F at registration *)
| DConst (text : string).     (* ... a constant: overwrites F at registration *)

Inductive stage :=
| StEnv                                        (* opts.getEnv() *)
| StFile                                       (* opts.loadCfg() *)
| StReg (field flag : string) (d : reg_default)  (* flag.{Int,String,Bool}Var(&opts.field, flag, d, ...) *)
| StRegOther (flag : string)                   (* a flag that is not bound to a plain Options field *)
| StParse                                      (* flag.Parse() *)
| StOpaque (text : string).

Definition oval := bytes.

Record sources := {
  src_default : string -> oval;          (* NewOptions() *)
  src_env : string -> option oval;       (* VFLOW_<KEY> for the field, when set and non-empty *)
  src_file : string -> option oval;      (* the field's yaml key in the configuration file *)
  src_cli : string -> option oval        (* -<flag> on the command line, by flag name *)
}.

Record ostate := { fields : string -> oval; regs : list (string * string) }.   (* regs: (flag, field) *)

Definition set_field (st : ostate) (f : string) (v : oval) : ostate :=
  {| fields := fun g => if String.eqb g f then v else fields st g; regs := regs st |}.

Definition overlay (base : string -> oval) (o : string -> option oval) : string -> oval :=
  fun f => match o f with Some v => v | None => base f end.

Definition run_stage (s : sources) (st : ostate) (x : stage) : ostate :=
  match x with
  | StEnv => {| fields := overlay (fields st) (src_env s); regs := regs st |}
  | StFile => {| fields := overlay (fields st) (src_file s); regs := regs st |}
  | StReg f flag d =>
      let st' := match d with
                 | DCurrent => st
                 | DField g => set_field st f (fields st g)
                 | DConst t => set_field st f (s2l t)
                 end in
      {| fields := fields st'; regs := regs st' ++ [(flag, f)] |}
  | StRegOther _ => st
  | StParse =>
      fold_left (fun acc r => match src_cli s (fst r) with Some v => set_field acc (snd r) v | None => acc end) (regs st) st
  | StOpaque _ => st
  end.

Definition eval (stages : list stage) (s : sources) : string -> oval :=
  fields (fold_left (run_stage s) stages {| fields := src_default s; regs := [] |}).

(* the documented order: command line, else configuration file, else environment, else built-in default *)
Definition priority (s : sources) (field flag : string) : oval :=
  match src_cli s flag with
  | Some v => v
  | None => match src_file s field with
            | Some v => v
            | None => match src_env s field with Some v => v | None => src_default s field end
            end
  end.

(* ---- the shape of a stage list that implements the documented order ---- *)
Definition is_reg_other (x : stage) : bool := match x with StRegOther _ => true | _ => false end.
Definition is_plain_reg (x : stage) : bool :=
  match x with StReg _ _ DCurrent => true | StRegOther _ => true | _ => false end.

Fixpoint split_at (p : stage -> bool) (l : list stage) : list stage * list stage :=
  match l with
  | [] => ([], [])
  | x :: t => if p x then ([], l) else let '(a, b) := split_at p t in (x :: a, b)
  end.

Definition reg_pairs (l : list stage) : list (string * string) :=
  flat_map (fun x => match x with StReg f flag _ => [(flag, f)] | _ => [] end) l.

Fixpoint nodup_str (l : list string) : bool :=
  match l with [] => true | x :: t => negb (existsb (String.eqb x) t) && nodup_str t end.

(* pre (other flags) ; getEnv ; (other flags) ; loadCfg ; registrations with current-oval defaults ; Parse *)
Definition stages_ok (l : list stage) : bool :=
  let '(pre, r1) := split_at (fun x => match x with StEnv => true | _ => false end) l in
  match r1 with
  | StEnv :: r2 =>
      let '(mid, r3) := split_at (fun x => match x with StFile => true | _ => false end) r2 in
      match r3 with
      | StFile :: r4 =>
          let '(rs, r5) := split_at (fun x => match x with StParse => true | _ => false end) r4 in
          match r5 with
          | [StParse] =>
              forallb is_reg_other pre && forallb is_reg_other mid && forallb is_plain_reg rs
              && nodup_str (map fst (reg_pairs rs)) && nodup_str (map snd (reg_pairs rs))
          | _ => false
          end
      | _ => false
      end
  | _ => false
  end.
