(* Model of producer/rawSocket.go inputMsg: the send loop with its retry / redial logic over a
   connection whose behaviour is given by a FAULT ORACLE (one entry per write attempt).
   The assumption built into the oracle type: a write that returns an error delivered nothing of that
   message, and a write that returns nil either delivered the whole line or (peer already gone) lost it. *)
From VF Require Import Base.Prelude.

Inductive wres :=
| WDelivered                 (* Write returned nil and the sink receives the line *)
| WLost                      (* Write returned nil but the peer had closed: the line is lost *)
| WBrokenPipe (dial_ok : bool)   (* error ending in "broken pipe": redial, which succeeds or not *)
| WOtherErr.                 (* any other error (e.g. connection reset by peer): no redial *)

Definition line (m : bytes) : bytes := m ++ [10].

(* the retry loop for one message: `for i := 0; ; i++` with `if i >= MaxRetry break`.
   Returns what reached the sink, the number of errors counted, and the unconsumed oracle. *)
Fixpoint send_one (fuel : nat) (i max_retry : Z) (m : bytes) (o : list wres) : list bytes * Z * list wres :=
  match o with
  | [] => ([line m], 0, [])                      (* no more faults scheduled: delivered *)
  | WDelivered :: o' => ([line m], 0, o')
  | WLost :: o' => ([], 0, o')
  | r :: o' =>                                    (* an error: *ec++ ; maybe redial; retry unless i >= MaxRetry *)
      if max_retry <=? i then ([], 1, o')
      else match fuel with
           | O => ([], 1, o')
           | S k => let '(d, e, o2) := send_one k (i + 1) max_retry m o' in (d, e + 1, o2)
           end
  end.

Fixpoint send_all (max_retry : Z) (ms : list bytes) (o : list wres) : list bytes * Z :=
  match ms with
  | [] => ([], 0)
  | m :: rest =>
      let '(d, e, o') := send_one (S (Z.to_nat (Z.max 0 max_retry))) 0 max_retry m o in
      let '(d2, e2) := send_all max_retry rest o' in
      (d ++ d2, e + e2)
  end.

(* what the sink receives overall *)
Definition stream (max_retry : Z) (ms : list bytes) (o : list wres) : bytes := concat (fst (send_all max_retry ms o)).
