(* Model of reader/reader.go (8 operations + Len + ReadCount), hand-written,
   statement for statement.  Tie: operation-sequence correspondence (check C19). *)
From VF Require Import Base.Prelude.

Record reader := { data : bytes; count : Z }.
Definition new_reader (b : bytes) : reader := {| data := b; count := 0 |}.
Definition rlen (r : reader) : Z := len (data r).

(* func (r *Reader) advance(num int) *)
Definition advance (n : Z) (r : reader) : reader :=
  {| data := skipn (Z.to_nat n) (data r); count := count r + n |}.

(* UintN: `if len(r.data) < N { return 0, errReader }; d := BigEndian.UintN(r.data); r.advance(N)` *)
Definition uintN (n : Z) (r : reader) : outcome (Z * reader) :=
  if rlen r <? n then Err EShort
  else Ok (be (firstn (Z.to_nat n) (data r)), advance n r).
Definition uint8 := uintN 1.
Definition uint16 := uintN 2.
Definition uint32 := uintN 4.
Definition uint64 := uintN 8.

(* Read(n): `if n < 0 || len(r.data) < n { return []byte{}, errReader }; d := r.data[:n]; r.advance(n)`.
   (The `n < 0` disjunct is the repair recorded in known_findings.json; without it Go panics in
   `r.data[:n]`, which this model would have to render as Panic.) *)
Definition read (n : Z) (r : reader) : outcome (bytes * reader) :=
  if (n <? 0) || (rlen r <? n) then Err EShort
  else Ok (firstn (Z.to_nat n) (data r), advance n r).

(* Peek(n): same guard, no advance *)
Definition peek (n : Z) (r : reader) : outcome bytes :=
  if (n <? 0) || (rlen r <? n) then Err EShort
  else Ok (firstn (Z.to_nat n) (data r)).

(* PeekUint16: Peek(2) then BigEndian.Uint16 *)
Definition peek_uint16 (r : reader) : outcome Z :=
  b <- peek 2 r ;; Ok (be b).

(* ---- the operation alphabet used by the C19 theorems and correspondence ---- *)
Inductive rop := OU8 | OU16 | OU32 | OU64 | ORead (n : Z) | OPeek (n : Z) | OPeekU16 | OLen | OCount.

Inductive rres := RVal (v : Z) | RBytes (b : bytes) | RFail.

Definition step (r : reader) (o : rop) : reader * rres :=
  let of_uint (x : outcome (Z * reader)) :=
    match x with Ok (v, r') => (r', RVal v) | _ => (r, RFail) end in
  match o with
  | OU8 => of_uint (uint8 r) | OU16 => of_uint (uint16 r)
  | OU32 => of_uint (uint32 r) | OU64 => of_uint (uint64 r)
  | ORead n => match read n r with Ok (b, r') => (r', RBytes b) | _ => (r, RFail) end
  | OPeek n => match peek n r with Ok b => (r, RBytes b) | _ => (r, RFail) end
  | OPeekU16 => match peek_uint16 r with Ok v => (r, RVal v) | _ => (r, RFail) end
  | OLen => (r, RVal (rlen r))
  | OCount => (r, RVal (count r))
  end.

Fixpoint run (r : reader) (ops : list rop) : reader * list (rres * Z * Z) :=
  match ops with
  | [] => (r, [])
  | o :: t => let '(r1, res) := step r o in
              let '(r2, out) := run r1 t in
              (r2, (res, rlen r1, count r1) :: out)
  end.
