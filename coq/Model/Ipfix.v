(* Model of ipfix/decoder.go (Decode, decodeSet, template parsing, decodeData), statement by
   statement, over any template cache and any information model. *)
From VF Require Import Base.Prelude Model.Reader Model.Layout Model.JsonPieces Model.Flow.

Section Ipfix.
  Context {C : Type}.
  Variable ops : cache_ops C.
  Variable im : infomodel.
  Variable header_layout : layout.     (* MessageHeader.unmarshal, regenerated *)

  (* TemplateFieldSpecifier.unmarshal *)
  Definition read_fspec (r : reader) : outcome (fspec * reader) :=
    x <- uint16 r ;; y <- uint16 (snd x) ;;
    let eid := fst x in let l := fst y in
    if 32768 <=? eid then      (* ElementID >= 0x8000: enterprise bit *)
      z <- uint32 (snd y) ;;
      Ok ({| f_id := eid mod 32768; f_len := l; f_pen := fst z |}, snd z)
    else Ok ({| f_id := eid; f_len := l; f_pen := 0 |}, snd y).

  (* for i := n; i > 0; i-- { tf.unmarshal; append } *)
  Fixpoint read_fspecs (fuel : nat) (n : Z) (r : reader) (acc : list fspec) : outcome (list fspec * reader) :=
    if n <=? 0 then Ok (acc, r)
    else match fuel with
         | O => Hang
         | S k => x <- read_fspec r ;; read_fspecs k (n - 1) (snd x) (acc ++ [fst x])
         end.

  Definition fuel_of (r : reader) : nat := S (length (data r)).

  (* TemplateRecord.unmarshal *)
  Definition read_template (r : reader) : outcome (template * reader) :=
    x <- uint16 r ;; y <- uint16 (snd x) ;;
    fs <- read_fspecs (fuel_of (snd y)) (fst y) (snd y) [] ;;
    Ok ({| t_id := fst x; t_fcount := fst y; t_fields := fst fs; t_scount := 0; t_scope := [] |}, snd fs).

  (* TemplateRecord.unmarshalOpts: FieldCount - ScopeFieldCount is uint16 arithmetic *)
  Definition read_opts_template (r : reader) : outcome (template * reader) :=
    x <- uint16 r ;; y <- uint16 (snd x) ;; z <- uint16 (snd y) ;;
    sc <- read_fspecs (fuel_of (snd z)) (fst z) (snd z) [] ;;
    fs <- read_fspecs (fuel_of (snd sc)) ((fst y - fst z) mod 65536) (snd sc) [] ;;
    Ok ({| t_id := fst x; t_fcount := fst y; t_fields := fst fs; t_scount := fst z; t_scope := fst sc |}, snd fs).

  (* getDataLength *)
  Definition data_length (spec_len ty : Z) (r : reader) : outcome (Z * reader) :=
    if ((ty =? T_String) || (ty =? T_OctetArray)) && (spec_len =? 65535) then
      x <- uint8 r ;;
      if fst x =? 255 then uint16 (snd x) else Ok (fst x, snd x)
    else Ok (spec_len, r).

  (* one pass over a specifier list in decodeData.  None = nonfatalError (element not in the model);
     Err = plain error (fatal for the message) *)
  Fixpoint decode_fields (specs : list fspec) (r : reader) (acc : record) : outcome (option record * reader) :=
    match specs with
    | [] => Ok (Some acc, r)
    | s :: rest =>
      match im (f_pen s) (f_id s) with
      | None => Ok (None, r)
      | Some (fid, ty) =>
        l <- data_length (f_len s) ty r ;;
        b <- read (fst l) (snd l) ;;
        v <- interpret ty (fst b) ;;
        decode_fields rest (snd b) (acc ++ [{| d_id := fid; d_pen := f_pen s; d_val := v |}])
      end
    end.

  (* decodeData: scope fields first; `len(fields) == 0` is a plain error *)
  Definition decode_data (t : template) (r : reader) : outcome (option record * reader) :=
    x <- decode_fields (t_scope t) r [] ;;
    match fst x with
    | None => Ok (None, snd x)
    | Some sc =>
      y <- decode_fields (t_fields t) (snd x) sc ;;
      match fst y with
      | None => Ok (None, snd y)
      | Some [] => Err EFatal
      | Some fs => Ok (Some fs, snd y)
      end
    end.

  (* what a set hands back: fatal (message dropped) or reader, data sets so far, "a non-fatal error occurred" *)
  Inductive sres := SFatal | SCont (r : reader) (ds : list record) (nonfatal : bool).

  (* the record loop of decodeSet; `err == nil` on entry *)
  Fixpoint set_loop (fuel : nat) (sid L start : Z) (tr : template) (addr : bytes)
           (c : C) (r : reader) (ds : list record) : outcome (C * sres) :=
    let used := (count r - start) mod 65536 in
    if (used <? L) && (4 <? rlen r) && (4 <? (L - used) mod 65536) then
      match fuel with
      | O => Hang
      | S k =>
        if (sid =? 2) || (sid =? 3) then
          match peek_uint16 r with
          | Ok 0 => Ok (c, SCont r ds false)                       (* only padding left *)
          | _ =>
            t <- catch (if sid =? 2 then read_template r else read_opts_template r) ;;
            match t with
            | None => Ok (c, SFatal)
            | Some (tr', r') =>
              c' <- c_insert ops c (t_id tr') addr tr' ;;
              set_loop k sid L start tr addr c' r' ds
            end
          end
        else if (4 <=? sid) && (sid <=? 255) then Ok (c, SCont r ds false)   (* reserved: skip *)
        else if sid =? 0 then Ok (c, SFatal)
        else
          d <- catch (decode_data tr r) ;;
          match d with
          | None => Ok (c, SFatal)
          | Some (None, r') => Ok (c, SCont r' ds true)
          | Some (Some fs, r') =>
            if count r' =? count r then Ok (c, SCont r' ds true)   (* a record of zero octets cannot be delimited *)
            else set_loop k sid L start tr addr c r' (ds ++ [fs])
          end
      end
    else Ok (c, SCont r ds false).

  (* decodeSet *)
  Definition decode_set (addr : bytes) (c : C) (r : reader) (ds : list record) : outcome (C * sres) :=
    let start := count r in
    h <- catch (x <- uint16 r ;; y <- uint16 (snd x) ;; Ok (fst x, fst y, snd y)) ;;
    match h with
    | None => Ok (c, SFatal)
    | Some (sid, L, r1) =>
      if L <? 4 then Ok (c, SFatal)
      else
        lk <- (if 255 <? sid then c_retrieve ops c sid addr else Ok (Some empty_template)) ;;
        body <- match lk with
                | None => Ok (c, SCont r1 ds true)                 (* unknown template id: nonfatal *)
                | Some tr => set_loop (fuel_of r1) sid L start tr addr c r1 ds
                end ;;
        match snd body with
        | SFatal => Ok body
        | SCont r2 ds2 nf =>
          let leftover := (L - (count r2 - start) mod 65536) mod 65536 in
          if 0 <? leftover then
            s <- catch (read leftover r2) ;;
            match s with
            | None => Ok (fst body, SFatal)
            | Some (_, r3) => Ok (fst body, SCont r3 ds2 nf)
            end
          else Ok body
        end
    end.

  Record ipfix_msg := { i_agent : bytes; i_header : list (string * Z); i_sets : list record }.

  (* the loop `for d.reader.Len() > 4` of Decode *)
  Fixpoint sets_loop (fuel : nat) (addr : bytes) (c : C) (r : reader) (ds : list record) (nf : Z)
    : outcome (C * option (list record * Z)) :=
    if 4 <? rlen r then
      match fuel with
      | O => Hang
      | S k =>
        s <- decode_set addr c r ds ;;
        match snd s with
        | SFatal => Ok (fst s, None)
        | SCont r' ds' e => sets_loop k addr (fst s) r' ds' (if e then nf + 1 else nf)
        end
      end
    else Ok (c, Some (ds, nf)).

  Definition named_fields (L : layout) (vs : list Z) : list (string * Z) := combine (map fst L) vs.

  (* Decode *)
  Definition ipfix_decode (c : C) (addr p : bytes) : outcome (C * dresult ipfix_msg) :=
    h <- catch (read_layout header_layout (new_reader p)) ;;
    match h with
    | None => Ok (c, DFail)
    | Some (hv, r) =>
      let hd := named_fields header_layout hv in
      if negb (field_get "Version" hd =? 10) then Ok (c, DFail)
      else
        s <- sets_loop (fuel_of r) addr c r [] 0 ;;
        match snd s with
        | None => Ok (fst s, DFail)
        | Some (ds, nf) => Ok (fst s, DMsg {| i_agent := addr; i_header := hd; i_sets := ds |} nf)
        end
    end.
End Ipfix.
