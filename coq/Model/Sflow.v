(* Model of sflow/{decoder,flow_sample,flow_counter}.go over Go's bytes.Reader semantics.
   The decoded datagram is represented directly as the JSON tree encoding/json emits for it
   (exported fields in declaration order, map keys sorted, []byte as base64, net.IP as text). *)
From VF Require Import Base.Prelude Base.IPText Base.Json Model.Layout Model.JsonPieces Model.Packet.
Local Open Scope string_scope.
Local Open Scope list_scope.
Local Open Scope Z_scope.

(* ---- bytes.Reader ---- *)
Record sreader := { sd : bytes; sp : Z }.
Definition srem (r : sreader) : Z := len (sd r) - sp r.

(* binary.Read(r, BigEndian, &v) = io.ReadFull of n octets; n = 0 reads nothing and succeeds *)
Definition sread_full (n : Z) (r : sreader) : outcome (bytes * sreader) :=
  if n =? 0 then Ok ([], r)
  else if srem r <? n then Err EShort
  else Ok (firstn (Z.to_nat n) (skipn (Z.to_nat (sp r)) (sd r)), {| sd := sd r; sp := sp r + n |}).

Definition sread_u (n : Z) (r : sreader) : outcome (Z * sreader) :=
  x <- sread_full n r ;; Ok (be (fst x), snd x).

(* r.Read(buf) with len(buf) = n: EOF error only when nothing is left (even for n = 0);
   otherwise a SHORT read succeeds and the rest of buf stays zero *)
Definition sread_buf (n : Z) (r : sreader) : outcome (bytes * sreader) :=
  if srem r <=? 0 then Err EShort
  else let k := Z.min n (srem r) in
       let got := firstn (Z.to_nat k) (skipn (Z.to_nat (sp r)) (sd r)) in
       Ok (got ++ repeat 0 (Z.to_nat (n - k)), {| sd := sd r; sp := sp r + k |}).

(* r.Seek(off, io.SeekCurrent) with the error ignored: a negative position leaves the reader where it is *)
Definition sseek (off : Z) (r : sreader) : sreader :=
  if sp r + off <? 0 then r else {| sd := sd r; sp := sp r + off |}.

(* a linear layout read through binary.Read; "" = r.Seek(w, 1) *)
Fixpoint sread_layout (L : layout) (r : sreader) : outcome (list (string * Z) * sreader) :=
  match L with
  | [] => Ok ([], r)
  | (name, w) :: t =>
      if String.eqb name "" then sread_layout t (sseek w r)
      else x <- sread_u w r ;;
           y <- sread_layout t (snd x) ;;
           Ok ((name, fst x) :: fst y, snd y)
  end.

Definition obj_of (fs : list (string * Z)) : list (string * jv) := map (fun x => (fst x, JNum (snd x))) fs.

Section Sflow.
  (* the straight-line field sequences, regenerated from the Go source (Gen/Layouts.v) *)
  Variables (flow_sample_l counter_sample_l ext_switch_l generic_l ethernet_l tokenring_l vg_l vlan_l processor_l : layout).
  (* the structs' integer fields in declaration order (what encoding/json prints), regenerated too *)
  Variables (flow_sample_f counter_sample_f ext_switch_f generic_f ethernet_f tokenring_f vg_f vlan_f processor_f : list string).

  (* the value a struct field holds after the reads of a layout: the LAST assignment, 0 if never assigned *)
  Fixpoint last_assigned (name : string) (fs : list (string * Z)) (cur : Z) : Z :=
    match fs with
    | [] => cur
    | (n, v) :: t => last_assigned name t (if String.eqb n name then v else cur)
    end.
  Definition struct_of (fields : list string) (reads : list (string * Z)) : list (string * Z) :=
    map (fun f => (f, last_assigned f reads 0)) fields.

  (* SampledHeader.unmarshal + packet.Decoder *)
  Definition decode_sampled_header (r : sreader) : outcome (jv * sreader) :=
    p <- sread_u 4 r ;; fl <- sread_u 4 (snd p) ;; st <- sread_u 4 (snd fl) ;; hl <- sread_u 4 (snd st) ;;
    if 1500 <? fst hl then Err EInvalid
    else
      let pad := (4 - fst hl mod 4) mod 4 in
      b <- sread_buf (fst hl + pad) (snd hl) ;;
      pk <- packet_decode (firstn (Z.to_nat (fst hl)) (fst b)) (fst p) ;;
      Ok (pk, snd b).

  (* ExtRouterData.unmarshal: buff = l-8 octets (address type + address), NextHop = buff[4:] *)
  Definition decode_ext_router (l : Z) (r : sreader) : outcome (jv * sreader) :=
    if negb ((l =? 16) || (l =? 28)) then Err EInvalid
    else
      b <- sread_full (l - 8) r ;; sm <- sread_u 4 (snd b) ;; dm <- sread_u 4 (snd sm) ;;
      Ok (JObj [("NextHop", JStr (ip_string (skipn 4 (fst b)))); ("SrcMask", JNum (fst sm)); ("DstMask", JNum (fst dm))], snd dm).

  Definition set_member (k : string) (v : jv) (m : list (string * jv)) : list (string * jv) :=
    (k, v) :: filter (fun x => negb (String.eqb k (fst x))) m.

  (* flow records: format 1 raw header, 1001 extended switch, 1002 extended router; others skipped by length *)
  Fixpoint flow_records (fuel : nat) (n : Z) (r : sreader) (m : list (string * jv)) : outcome (list (string * jv) * sreader) :=
    if n <=? 0 then Ok (m, r)
    else match fuel with
    | O => Hang
    | S k =>
      f <- sread_u 4 r ;; l <- sread_u 4 (snd f) ;;
      let r2 := snd l in
      if fst f =? 1 then x <- decode_sampled_header r2 ;; flow_records k (n - 1) (snd x) (set_member "RawHeader" (fst x) m)
      else if fst f =? 1001 then
        x <- sread_layout ext_switch_l r2 ;;
        flow_records k (n - 1) (snd x) (set_member "ExtSwitch" (JObj (obj_of (struct_of ext_switch_f (fst x)))) m)
      else if fst f =? 1002 then x <- decode_ext_router (fst l) r2 ;; flow_records k (n - 1) (snd x) (set_member "ExtRouter" (fst x) m)
      else flow_records k (n - 1) (sseek (fst l) r2) m
    end.

  Definition counter_layout (f : Z) : option (string * layout * list string) :=
    if f =? 1 then Some ("GenInt", generic_l, generic_f) else if f =? 2 then Some ("EthInt", ethernet_l, ethernet_f)
    else if f =? 3 then Some ("TRInt", tokenring_l, tokenring_f) else if f =? 4 then Some ("VGInt", vg_l, vg_f)
    else if f =? 5 then Some ("Vlan", vlan_l, vlan_f) else if f =? 1001 then Some ("Proc", processor_l, processor_f) else None.

  Fixpoint counter_records (fuel : nat) (n : Z) (r : sreader) (m : list (string * jv)) : outcome (list (string * jv) * sreader) :=
    if n <=? 0 then Ok (m, r)
    else match fuel with
    | O => Hang
    | S k =>
      f <- sread_u 4 r ;; l <- sread_u 4 (snd f) ;;
      match counter_layout (fst f) with
      | Some (key, L, F) => x <- sread_layout L (snd l) ;; counter_records k (n - 1) (snd x) (set_member key (JObj (obj_of (struct_of F (fst x)))) m)
      | None => counter_records k (n - 1) (sseek (fst l) (snd l)) m
      end
    end.

  (* encoding/json writes map keys sorted *)
  Fixpoint insert_sorted (kv : string * jv) (l : list (string * jv)) : list (string * jv) :=
    match l with
    | [] => [kv]
    | h :: t => if String.leb (fst kv) (fst h) then kv :: l else h :: insert_sorted kv t
    end.
  Definition sort_members (l : list (string * jv)) : list (string * jv) := fold_right insert_sorted [] l.

  Definition sfuel (r : sreader) : nat := S (length (sd r)).

  (* decodeFlowSample: FlowSample struct order: SequenceNo, SourceID, SamplingRate, SamplePool, Drops, Input,
     Output, RecordsNo, Records *)
  Definition decode_flow_sample (r : sreader) : outcome (jv * sreader) :=
    h <- sread_layout flow_sample_l r ;;
    let hd := struct_of flow_sample_f (fst h) in
    rs <- flow_records (sfuel r) (field_get "RecordsNo" hd) (snd h) [] ;;
    Ok (JObj (obj_of hd ++ [("Records", JObj (sort_members (fst rs)))]), snd rs).

  (* decodeFlowCounter: CounterSample struct order: SequenceNo, SourceIDType, SourceIDIdx, RecordsNo, Records *)
  Definition decode_counter_sample (r : sreader) : outcome (jv * sreader) :=
    h <- sread_layout counter_sample_l r ;;
    let hd := struct_of counter_sample_f (fst h) in
    rs <- counter_records (sfuel r) (field_get "RecordsNo" hd) (snd h) [] ;;
    Ok (JObj (obj_of hd ++ [("Records", JObj (sort_members (fst rs)))]), snd rs).

  (* the result of SFDecode: nil+error | datagram+error (discarded by the worker) | datagram *)
  Inductive sfres := SFErr | SFPartial | SFOk (samples counters : list jv).

  (* the sample loop of SFDecode; filter = opts.SFlowTypeFilter *)
  Fixpoint samples_loop (fuel : nat) (filter : list Z) (n : Z) (r : sreader) (ss cs : list jv) : outcome sfres :=
    if n <=? 0 then Ok (SFOk ss cs)
    else match fuel with
    | O => Hang
    | S k =>
      (* getSampleInfo: type, then length; a non-standard enterprise keeps its full type value *)
      match catch (t <- sread_u 4 r ;; l <- sread_u 4 (snd t) ;; Ok (fst t, fst l, snd l)) with
      | Ok None => Ok SFErr
      | Ok (Some (ty, l, r2)) =>
        let fmt := if ty / 4096 =? 0 then ty mod 4096 else ty in
        if existsb (Z.eqb fmt) filter then samples_loop k filter (n - 1) (sseek l r2) ss cs
        else if fmt =? 1 then
          match catch (decode_flow_sample r2) with
          | Ok None => Ok SFPartial
          | Ok (Some (s, r3)) => samples_loop k filter (n - 1) r3 (ss ++ [s]) cs
          | Err e => Err e | Panic => Panic | Hang => Hang
          end
        else if fmt =? 2 then
          match catch (decode_counter_sample r2) with
          | Ok None => Ok SFPartial
          | Ok (Some (s, r3)) => samples_loop k filter (n - 1) r3 ss (cs ++ [s])
          | Err e => Err e | Panic => Panic | Hang => Hang
          end
        else samples_loop k filter (n - 1) (sseek l r2) ss cs
      | Err e => Err e | Panic => Panic | Hang => Hang
      end
    end.

  (* SFDecode.  Datagram JSON (struct order): Version, IPVersion, AgentSubID, SequenceNo, SysUpTime,
     SamplesNo, Samples, Counters, IPAddress, ColTime (ColTime is the collection time; printed as 0) *)
  (* first component: SFDecode returned without error (the datagram "decodes successfully");
     second: the document the worker publishes, if any *)
  Definition sf_decode (filter : list Z) (p : bytes) : outcome (bool * option jv) :=
    let r0 := {| sd := p; sp := 0 |} in
    match catch (v <- sread_u 4 r0 ;;
                 if negb (fst v =? 5) then Err EInvalid else
                 iv <- sread_u 4 (snd v) ;;
                 ip <- sread_buf (if fst iv =? 2 then 16 else 4) (snd iv) ;;
                 sub <- sread_u 4 (snd ip) ;; sq <- sread_u 4 (snd sub) ;; up <- sread_u 4 (snd sq) ;; n <- sread_u 4 (snd up) ;;
                 Ok (fst v, fst iv, fst ip, fst sub, fst sq, fst up, fst n, snd n)) with
    | Ok None => Ok (false, None)
    | Ok (Some (v, iv, ip, sub, sq, up, n, r)) =>
      res <- samples_loop (sfuel r) filter n r [] [] ;;
      match res with
      | SFErr | SFPartial => Ok (false, None)
      | SFOk ss cs =>
        (* the worker publishes only when there is at least one sample or counter *)
        match ss, cs with
        | [], [] => Ok (true, None)
        | _, _ => Ok (true, Some (JObj [("Version", JNum v); ("IPVersion", JNum iv); ("AgentSubID", JNum sub); ("SequenceNo", JNum sq);
                                  ("SysUpTime", JNum up); ("SamplesNo", JNum n); ("Samples", JArr ss); ("Counters", JArr cs);
                                  ("IPAddress", JStr (ip_string ip)); ("ColTime", JNum 0)]))
        end
      end
    | Err e => Err e | Panic => Panic | Hang => Hang
    end.
End Sflow.
