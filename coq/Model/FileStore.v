(* What writing the cache file leaves on disk: ioutil.WriteFile / os.Create replace the file; an os.OpenFile without
   O_TRUNC overwrites in place and keeps the tail of a longer older file. *)
From VF Require Import Base.Prelude.

Definition write_file (truncates : bool) (old new : bytes) : bytes :=
  if truncates then new else new ++ skipn (length new) old.

(* What GetCache gets to parse: the whole file, or (a limited reader, a fixed buffer, one Read) at most [limit] octets of it *)
Definition read_file (limit : option nat) (file : bytes) : bytes :=
  match limit with None => file | Some n => firstn n file end.
