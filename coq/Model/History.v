(* Histories: a finite sequence of (exporter address, payload) datagrams processed in order, each
   against the cache state left by its predecessors (vflow's single shared template cache). *)
From VF Require Import Base.Prelude Model.Reader Model.Layout Model.Flow.

Section History.
  Context {C M : Type}.
  Variable decode : C -> bytes -> bytes -> outcome (C * dresult M).

  Fixpoint run_history (c : C) (h : list (bytes * bytes)) : outcome (C * list (dresult M)) :=
    match h with
    | [] => Ok (c, [])
    | (a, p) :: rest =>
        x <- decode c a p ;;
        y <- run_history (fst x) rest ;;
        Ok (fst y, snd x :: snd y)
    end.
End History.
