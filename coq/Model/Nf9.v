(* Model of netflow/v9/decoder.go, statement by statement, over any template cache and any
   information model.  Differences from IPFIX that matter: set ids 0/1 are templates, 2..255 are
   reserved; options templates carry scope/option LENGTHS in octets; no enterprise numbers; no
   variable-length fields; the set arithmetic is in `int` (no uint16 wrap); decodeData reads the
   field before it looks the element up. *)
From VF Require Import Base.Prelude Model.Reader Model.Layout Model.JsonPieces Model.Flow.

Section Nf9.
  Context {C : Type}.
  Variable ops : cache_ops C.
  Variable im : infomodel.
  Variable header_layout : layout.

  Definition fuel_of (r : reader) : nat := S (length (data r)).

  Definition read_fspec9 (r : reader) : outcome (fspec * reader) :=
    x <- uint16 r ;; y <- uint16 (snd x) ;;
    Ok ({| f_id := fst x; f_len := fst y; f_pen := 0 |}, snd y).

  Fixpoint read_fspecs9 (fuel : nat) (n : Z) (r : reader) (acc : list fspec) : outcome (list fspec * reader) :=
    if n <=? 0 then Ok (acc, r)
    else match fuel with
         | O => Hang
         | S k => x <- read_fspec9 r ;; read_fspecs9 k (n - 1) (snd x) (acc ++ [fst x])
         end.

  Definition read_template9 (r : reader) : outcome (template * reader) :=
    x <- uint16 r ;; y <- uint16 (snd x) ;;
    fs <- read_fspecs9 (fuel_of (snd y)) (fst y) (snd y) [] ;;
    Ok ({| t_id := fst x; t_fcount := fst y; t_fields := fst fs; t_scount := 0; t_scope := [] |}, snd fs).

  (* unmarshalOpts: TemplateID, OptionScopeLen, OptionLen; counts are the lengths / 4 *)
  Definition read_opts_template9 (r : reader) : outcome (template * reader) :=
    x <- uint16 r ;; y <- uint16 (snd x) ;; z <- uint16 (snd y) ;;
    sc <- read_fspecs9 (fuel_of (snd z)) (fst y / 4) (snd z) [] ;;
    fs <- read_fspecs9 (fuel_of (snd sc)) (fst z / 4) (snd sc) [] ;;
    Ok ({| t_id := fst x; t_fcount := 0; t_fields := fst fs; t_scount := 0; t_scope := fst sc |}, snd fs).

  Fixpoint decode_fields9 (specs : list fspec) (r : reader) (acc : record) : outcome (option record * reader) :=
    match specs with
    | [] => Ok (Some acc, r)
    | s :: rest =>
      b <- read (f_len s) r ;;
      match im 0 (f_id s) with
      | None => Ok (None, snd b)
      | Some (fid, ty) =>
        v <- interpret ty (fst b) ;;
        decode_fields9 rest (snd b) (acc ++ [{| d_id := fid; d_pen := 0; d_val := v |}])
      end
    end.

  Definition decode_data9 (t : template) (r : reader) : outcome (option record * reader) :=
    x <- decode_fields9 (t_scope t) r [] ;;
    match fst x with
    | None => Ok (None, snd x)
    | Some sc => decode_fields9 (t_fields t) (snd x) sc
    end.

  Inductive sres := SFatal | SCont (r : reader) (ds : list record) (nonfatal : bool).

  (* the record loop of decodeSet.  Every error ends the loop and is returned after the skip; a
     plain error (short read) is fatal for the message, a nonfatalError is collected. *)
  Fixpoint set_loop9 (fuel : nat) (sid L start : Z) (tr : template) (addr : bytes)
           (c : C) (r : reader) (ds : list record) : outcome (C * sres) :=
    if (4 <? L - (count r - start)) && (4 <? rlen r) then
      match fuel with
      | O => Hang
      | S k =>
        if (sid =? 0) || (sid =? 1) then
          t <- catch (if sid =? 0 then read_template9 r else read_opts_template9 r) ;;
          match t with
          | None => Ok (c, SFatal)
          | Some (tr', r') =>
            c' <- c_insert ops c (t_id tr') addr tr' ;;
            set_loop9 k sid L start tr addr c' r' ds
          end
        else if (2 <=? sid) && (sid <=? 255) then Ok (c, SCont r ds false)   (* reserved *)
        else
          d <- catch (decode_data9 tr r) ;;
          match d with
          | None => Ok (c, SFatal)
          | Some (None, r') => Ok (c, SCont r' ds true)
          | Some (Some fs, r') =>
            if count r' =? count r then Ok (c, SCont r' ds true)   (* zero-octet record *)
            else set_loop9 k sid L start tr addr c r' (ds ++ [fs])
          end
      end
    else Ok (c, SCont r ds false).

  Definition decode_set9 (addr : bytes) (c : C) (r : reader) (ds : list record) : outcome (C * sres) :=
    let start := count r in
    h <- catch (x <- uint16 r ;; y <- uint16 (snd x) ;; Ok (fst x, fst y, snd y)) ;;
    match h with
    | None => Ok (c, SFatal)
    | Some (sid, L, r1) =>
      if L <? 4 then Ok (c, SFatal)
      else
        lk <- (if 255 <? sid then c_retrieve ops c sid addr else Ok (Some empty_template)) ;;
        body <- match lk with
                | None => Ok (c, SCont r1 ds true)
                | Some tr => set_loop9 (fuel_of r1) sid L start tr addr c r1 ds
                end ;;
        match snd body with
        | SFatal => Ok body     (* the skip may still run in Go, but the message is dropped either way *)
        | SCont r2 ds2 nf =>
          let leftover := L - (count r2 - start) in
          if 0 <? leftover then
            s <- catch (read leftover r2) ;;
            match s with
            | None => Ok (fst body, SFatal)
            | Some (_, r3) => Ok (fst body, SCont r3 ds2 nf)
            end
          else Ok body
        end
    end.

  Record nf9_msg := { n9_agent : bytes; n9_header : list (string * Z); n9_sets : list record }.

  Fixpoint sets_loop9 (fuel : nat) (addr : bytes) (c : C) (r : reader) (ds : list record) (nf : Z)
    : outcome (C * option (list record * Z)) :=
    if 4 <? rlen r then
      match fuel with
      | O => Hang
      | S k =>
        s <- decode_set9 addr c r ds ;;
        match snd s with
        | SFatal => Ok (fst s, None)
        | SCont r' ds' e => sets_loop9 k addr (fst s) r' ds' (if e then nf + 1 else nf)
        end
      end
    else Ok (c, Some (ds, nf)).

  Definition nf9_decode (c : C) (addr p : bytes) : outcome (C * dresult nf9_msg) :=
    h <- catch (read_layout header_layout (new_reader p)) ;;
    match h with
    | None => Ok (c, DFail)
    | Some (hv, r) =>
      let hd := combine (map fst header_layout) hv in
      if negb (field_get "Version" hd =? 9) then Ok (c, DFail)
      else
        s <- sets_loop9 (fuel_of r) addr c r [] 0 ;;
        match snd s with
        | None => Ok (fst s, DFail)
        | Some (ds, nf) => Ok (fst s, DMsg {| n9_agent := addr; n9_header := hd; n9_sets := ds |} nf)
        end
    end.
End Nf9.
