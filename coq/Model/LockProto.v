(* Lock protocol of the template cache: threads run straight-line programs of lock / unlock / map
   access events over the 32 shards, interleaved under Go's RWMutex rules (a write lock excludes
   everybody, a read lock excludes writers; not re-entrant).  The event skeletons of the real
   functions are regenerated into Gen/Locks.v; here: event types, the instantiation of a skeleton at
   a shard, and the boolean protocol checker. *)
From VF Require Import Base.Prelude.
From Coq Require Import Arith.

Inductive ev := Lock (s : nat) | Unlock (s : nat) | RLock (s : nat) | RUnlock (s : nat) | MRead (s : nat) | MWrite (s : nat).

(* events as the translator emits them: on "the key's shard", over all shards, or on all maps at once *)
Inductive pev :=
| PLock | PUnlock | PRLock | PRUnlock | PRead | PWrite
| PAll (body : list pev)        (* for _, shard := range m { body } *)
| PReadAll.                     (* json.Marshal of the whole cache: reads every shard's map *)

Definition nshards : nat := 32.

Definition inst_simple (s : nat) (p : pev) : list ev :=
  match p with
  | PLock => [Lock s] | PUnlock => [Unlock s] | PRLock => [RLock s] | PRUnlock => [RUnlock s]
  | PRead => [MRead s] | PWrite => [MWrite s]
  | PAll _ => []                 (* a nested range over the cache does not occur *)
  | PReadAll => map MRead (seq 0 nshards)
  end.
Definition inst1 (s : nat) (p : pev) : list ev :=
  match p with
  | PAll body => flat_map (fun s' => flat_map (inst_simple s') body) (seq 0 nshards)
  | _ => inst_simple s p
  end.
Definition inst (s : nat) (prog : list pev) : list ev := flat_map (inst1 s) prog.

(* what a thread holds *)
Record held := { hw : list nat; hr : list nat }.
Definition no_locks : held := {| hw := []; hr := [] |}.
Definition inb (s : nat) (l : list nat) : bool := existsb (Nat.eqb s) l.
Definition rm (s : nat) (l : list nat) : list nat := filter (fun x => negb (Nat.eqb s x)) l.
Definition anyb (h : held) (s : nat) : bool := inb s (hw h) || inb s (hr h).

(* the protocol checker: every map access inside the matching lock region of its shard, writes under
   the write lock, no nested acquisition, unlock only what is held.  Returns the held set at the end. *)
Fixpoint run_wb (h : held) (p : list ev) : option held :=
  match p with
  | [] => Some h
  | Lock s :: q => if negb (anyb h s) then run_wb {| hw := s :: hw h; hr := hr h |} q else None
  | RLock s :: q => if negb (anyb h s) then run_wb {| hw := hw h; hr := s :: hr h |} q else None
  | Unlock s :: q => if inb s (hw h) then run_wb {| hw := rm s (hw h); hr := hr h |} q else None
  | RUnlock s :: q => if inb s (hr h) then run_wb {| hw := hw h; hr := rm s (hr h) |} q else None
  | MRead s :: q => if anyb h s then run_wb h q else None
  | MWrite s :: q => if inb s (hw h) then run_wb h q else None
  end.
Definition wb (h : held) (p : list ev) : bool := match run_wb h p with Some _ => true | None => false end.

(* an operation that starts and ends holding nothing: such operations compose *)
Definition balanced (p : list ev) : bool :=
  match run_wb no_locks p with Some {| hw := []; hr := [] |} => true | _ => false end.
