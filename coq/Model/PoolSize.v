(* The receive-buffer pool as far as buffer LENGTHS go: the receive loop reads a datagram into whatever slice Get returns
   (a pooled one, or a new one made by New), so a datagram is received whole only if that slice has the full size. *)
From VF Require Import Base.Prelude.

Inductive pool_op := PNew | PPut (l : Z) | PGet.
(* the pool's content: the lengths of the slices in it; Get of an empty pool calls New *)
Definition pool_step (size : Z) (p : list Z) (o : pool_op) : list Z * option Z :=
  match o with
  | PNew => (p, Some size)
  | PPut l => (l :: p, None)
  | PGet => match p with [] => ([], Some size) | l :: t => (t, Some l) end
  end.
Fixpoint pool_run (size : Z) (p : list Z) (ops : list pool_op) : list (option Z) :=
  match ops with [] => [] | o :: t => let '(p', out) := pool_step size p o in out :: pool_run size p' t end.
