(* Model of packet/{packet,ethernet,network,transport,icmp}.go: the L2/L3/L4 breakdown of a sampled
   header.  Result = the JSON tree encoding/json emits for *packet.Packet (exported fields, in
   declaration order).  Err = any decode error (the caller drops the whole datagram). *)
From VF Require Import Base.Prelude Base.IPText Base.Json.

Definition nthz (l : bytes) (i : nat) : Z := nth i l 0.
Definition be16_at (l : bytes) (i : nat) : Z := nthz l i * 256 + nthz l (S i).

(* fmt.Sprintf("%0.2x:...") of six octets *)
Definition mac_text (l : bytes) : bytes := mac_string (firstn 6 l).

(* decodeIEEE802: EtherType always; MACs only when the EtherType is not 0x8100 *)
Definition ieee802 (b : bytes) : (bytes * bytes * Z) :=
  let et := be16_at b 12 in
  if et =? 33024 then ([], [], et) else (mac_text (skipn 6 b), mac_text b, et).   (* SrcMAC, DstMAC, EtherType *)

Definition datalink_json (src dst : bytes) (vlan et : Z) : jv :=
  JObj [("SrcMAC", JStr src); ("DstMAC", JStr dst); ("Vlan", JNum vlan); ("EtherType", JNum et)]%string.

(* decodeEthernet; returns L2 and the remaining data *)
Definition decode_ethernet (d : bytes) : outcome (jv * Z * bytes) :=
  if len d <? 14 then Err EShort
  else
    let '(src, dst, et) := ieee802 d in
    if et =? 33024 then
      if len d <? 18 then Err EShort      (* 802.1Q tag needs 18 octets *)
      else
        let vlan := be16_at d 14 in
        (* p.data[12],p.data[13] = p.data[16],p.data[17]; p.data = append(p.data[:14], p.data[18:]...) *)
        let d' := firstn 12 d ++ [nthz d 16; nthz d 17] ++ skipn 18 d in
        let '(src', dst', et') := ieee802 d' in
        Ok (datalink_json src' dst' vlan et', et', skipn 14 d')
    else Ok (datalink_json src dst 0 et, et, skipn 14 d).

(* the transport header follows the IP options: IHL counts 32-bit words; an IHL below 5 is taken as 5 *)
Definition ipv4_hlen (d : bytes) : Z := Z.max 20 ((nthz d 0 mod 16) * 4).
Definition decode_ipv4 (d : bytes) : outcome (jv * Z * bytes) :=
  if len d <? 20 then Err EShort
  else if len d <? ipv4_hlen d then Err EShort
  else
    Ok (JObj [("Version", JNum (nthz d 0 / 16)); ("TOS", JNum (nthz d 1)); ("TotalLen", JNum (be16_at d 2));
              ("ID", JNum (be16_at d 4)); ("Flags", JNum (nthz d 6 / 32));
              ("FragOff", JNum ((nthz d 6 mod 32) * 256 + nthz d 7));
              ("TTL", JNum (nthz d 8)); ("Protocol", JNum (nthz d 9)); ("Checksum", JNum (be16_at d 10));
              ("Src", JStr (ip_string (firstn 4 (skipn 12 d)))); ("Dst", JStr (ip_string (firstn 4 (skipn 16 d))))]%string,
        nthz d 9, skipn (Z.to_nat (ipv4_hlen d)) d).

Definition decode_ipv6 (d : bytes) : outcome (jv * Z * bytes) :=
  if len d <? 40 then Err EShort
  else
    Ok (JObj [("Version", JNum (nthz d 0 / 16));
              ("TrafficClass", JNum ((nthz d 0 mod 16) * 16 + nthz d 1 / 16));
              ("FlowLabel", JNum ((nthz d 1 mod 16) * 65536 + nthz d 2 * 256 + nthz d 3));
              ("PayloadLen", JNum (be16_at d 4)); ("NextHeader", JNum (nthz d 6)); ("HopLimit", JNum (nthz d 7));
              ("Src", JStr (ip_string (firstn 16 (skipn 8 d)))); ("Dst", JStr (ip_string (firstn 16 (skipn 24 d))))]%string,
        nthz d 6, skipn 40 d).

(* decodeNextLayer *)
Definition decode_l4 (proto : Z) (d : bytes) : outcome jv :=
  if (proto =? 1) || (proto =? 58) then
    if len d <? 5 then Err EShort
    else Ok (JObj [("Type", JNum (nthz d 0)); ("Code", JNum (nthz d 1)); ("RestHeader", JStr (base64 (skipn 4 d)))]%string)
  else if proto =? 6 then
    if len d <? 20 then Err EShort
    else Ok (JObj [("SrcPort", JNum (be16_at d 0)); ("DstPort", JNum (be16_at d 2)); ("DataOffset", JNum (nthz d 12 / 16));
                   ("Reserved", JNum 0); ("Flags", JNum ((nthz d 12 * 256 + nthz d 13) mod 512))]%string)
  else if proto =? 17 then
    if len d <? 8 then Err EShort
    else Ok (JObj [("SrcPort", JNum (be16_at d 0)); ("DstPort", JNum (be16_at d 2))]%string)
  else Err EInvalid.

Definition empty_l2 : jv := datalink_json [] [] 0 0.

(* Packet.Decoder(data, protocol) *)
Definition packet_decode (d : bytes) (protocol : Z) : outcome jv :=
  let l3l4 (l2 : jv) (kind : Z) (d : bytes) :=
    x <- (if kind =? 4 then decode_ipv4 d else decode_ipv6 d) ;;
    let '(l3, proto, rest) := x in
    l4 <- decode_l4 proto rest ;;
    Ok (JObj [("L2", l2); ("L3", l3); ("L4", l4)]%string) in
  if protocol =? 1 then
    x <- decode_ethernet d ;;
    let '(l2, et, rest) := x in
    if et =? 2048 then l3l4 l2 4 rest
    else if et =? 34525 then l3l4 l2 6 rest
    else Err EInvalid
  else if protocol =? 11 then l3l4 empty_l2 4 d
  else if protocol =? 12 then l3l4 empty_l2 6 d
  else Err EInvalid.
