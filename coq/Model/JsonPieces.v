(* Straight-line JSON encoders as ordered pieces (regenerated into Gen/JsonPieces.v). *)
From VF Require Import Base.Prelude Base.IPText.

Inductive piece :=
| PLit (s : string)        (* b.WriteString("...") / b.WriteByte('.') *)
| PNum (f : string)        (* b.WriteString(strconv.FormatInt(int64(x.f), 10)) *)
| PIP4 (f : string)        (* binary.BigEndian.PutUint32(ip, x.f); b.WriteString(ip.String()) *)
| PStr (f : string)        (* b.WriteString(x.f)   (a string field written verbatim) *)
| POpaque (s : string).    (* anything the translator does not recognise *)

Fixpoint field_get (name : string) (fs : list (string * Z)) : Z :=
  match fs with
  | [] => 0                                  (* a struct field that was never assigned is zero *)
  | (n, v) :: t => if String.eqb name n then v else field_get name t
  end.

(* nums: the numeric struct fields by name; strs: the string fields by name *)
Definition eval_piece (nums : list (string * Z)) (strs : list (string * bytes)) (p : piece) : bytes :=
  match p with
  | PLit s => s2l s
  | PNum f => show_Z (field_get f nums)
  | PIP4 f => dotted (enc 4 (field_get f nums))
  | PStr f => match find (fun x => String.eqb f (fst x)) strs with Some x => snd x | None => [] end
  | POpaque _ => s2l "<?>"
  end.

Definition eval_pieces nums strs (ps : list piece) : bytes := flat_map (eval_piece nums strs) ps.
