(* Shared by the IPFIX and NetFlow v9 models: typed values (one constructor per dynamic Go type
   ipfix.Interpret can return), ipfix/interpret.go, templates, decoded records, cache interface. *)
From VF Require Import Base.Prelude Model.Reader.

Inductive value :=
| VBool (b : bool)
| VU8 (z : Z) | VU16 (z : Z) | VU32 (z : Z) | VU64 (z : Z)
| VI8 (z : Z) | VI16 (z : Z) | VI32 (z : Z) | VI64 (z : Z)
| VF32 (bits : Z) | VF64 (bits : Z)
| VMac (l : bytes)       (* net.HardwareAddr *)
| VStr (l : bytes)       (* string *)
| VIP (l : bytes)        (* net.IP, raw length kept: String() depends on it *)
| VBytes (l : bytes).    (* []byte *)

(* FieldType constants (ipfix/rfc5102_model.go iota block; Gen/InfoModel.v type_consts) *)
Definition T_Unknown := 0. Definition T_Uint8 := 1. Definition T_Uint16 := 2. Definition T_Uint32 := 3.
Definition T_Uint64 := 4. Definition T_Int8 := 5. Definition T_Int16 := 6. Definition T_Int32 := 7.
Definition T_Int64 := 8. Definition T_Float32 := 9. Definition T_Float64 := 10. Definition T_Boolean := 11.
Definition T_MacAddress := 12. Definition T_OctetArray := 13. Definition T_String := 14.
Definition T_DateTimeSeconds := 15. Definition T_DateTimeMilliseconds := 16.
Definition T_DateTimeMicroseconds := 17. Definition T_DateTimeNanoseconds := 18.
Definition T_Ipv4Address := 19. Definition T_Ipv6Address := 20.

(* func (t FieldType) minLen() int *)
Definition min_len (t : Z) : Z :=
  if (t =? 11) then 1
  else if (t =? 1) || (t =? 5) then 1
  else if (t =? 2) || (t =? 6) then 2
  else if (t =? 3) || (t =? 7) || (t =? 9) then 4
  else if (t =? 15) then 4
  else if (t =? 4) || (t =? 8) || (t =? 10) then 8
  else if (t =? 16) || (t =? 17) || (t =? 18) then 8
  else if (t =? 12) then 6
  else if (t =? 19) then 4
  else if (t =? 20) then 16
  else 0.

(* checked primitives: b[0] and binary.BigEndian.UintN(b) panic when b is too short *)
Definition idx0 (b : bytes) : outcome Z := match b with x :: _ => Ok x | [] => Panic end.
Definition be_n (n : Z) (b : bytes) : outcome Z :=
  if len b <? n then Panic else Ok (be (firstn (Z.to_nat n) b)).

(* func Interpret(b *[]byte, t FieldType) interface{} *)
Definition interpret (t : Z) (b : bytes) : outcome value :=
  if len b <? min_len t then Ok (VBytes b)
  else if t =? 11 then x <- idx0 b ;; Ok (VBool (x =? 1))
  else if t =? 1 then x <- idx0 b ;; Ok (VU8 x)
  else if t =? 2 then x <- be_n 2 b ;; Ok (VU16 x)
  else if t =? 3 then x <- be_n 4 b ;; Ok (VU32 x)
  else if t =? 4 then x <- be_n 8 b ;; Ok (VU64 x)
  else if t =? 5 then x <- idx0 b ;; Ok (VI8 (to_signed 8 x))
  else if t =? 6 then x <- be_n 2 b ;; Ok (VI16 (to_signed 16 x))
  else if t =? 7 then x <- be_n 4 b ;; Ok (VI32 (to_signed 32 x))
  else if t =? 8 then x <- be_n 8 b ;; Ok (VI64 (to_signed 64 x))
  else if t =? 9 then x <- be_n 4 b ;; Ok (VF32 x)
  else if t =? 10 then x <- be_n 8 b ;; Ok (VF64 x)
  else if t =? 12 then Ok (VMac b)
  else if t =? 14 then Ok (VStr b)
  else if (t =? 19) || (t =? 20) then Ok (VIP b)
  else if t =? 15 then x <- be_n 4 b ;; Ok (VU32 x)
  else if (t =? 16) || (t =? 17) || (t =? 18) then x <- be_n 8 b ;; Ok (VU64 x)
  else Ok (VBytes b).

(* The same function driven by the tables the translator regenerates from ipfix/interpret.go (Gen/Interp.v): FieldType
   NAME -> minimum length, NAME -> shape of the returned value.  Proofs/Tie.v proves `interpret` equal to it for every
   FieldType constant, so every theorem about `interpret` is a theorem about what the source says now.  A shape this
   function has no meaning for is Panic, which no theorem about the real tables can then get past. *)
Fixpoint lookup_name {A} (name : string) (l : list (string * A)) (d : A) : A :=
  match l with [] => d | (n, v) :: t => if String.eqb name n then v else lookup_name name t d end.
Definition shape_value (shape : string) (b : bytes) : outcome value :=
  if String.eqb shape "bool_eq1" then x <- idx0 b ;; Ok (VBool (x =? 1))
  else if String.eqb shape "u8" then x <- idx0 b ;; Ok (VU8 x)
  else if String.eqb shape "u16" then x <- be_n 2 b ;; Ok (VU16 x)
  else if String.eqb shape "u32" then x <- be_n 4 b ;; Ok (VU32 x)
  else if String.eqb shape "u64" then x <- be_n 8 b ;; Ok (VU64 x)
  else if String.eqb shape "i8" then x <- idx0 b ;; Ok (VI8 (to_signed 8 x))
  else if String.eqb shape "i16" then x <- be_n 2 b ;; Ok (VI16 (to_signed 16 x))
  else if String.eqb shape "i32" then x <- be_n 4 b ;; Ok (VI32 (to_signed 32 x))
  else if String.eqb shape "i64" then x <- be_n 8 b ;; Ok (VI64 (to_signed 64 x))
  else if String.eqb shape "f32" then x <- be_n 4 b ;; Ok (VF32 x)
  else if String.eqb shape "f64" then x <- be_n 8 b ;; Ok (VF64 x)
  else if String.eqb shape "mac" then Ok (VMac b)
  else if String.eqb shape "str" then Ok (VStr b)
  else if String.eqb shape "ip" then Ok (VIP b)
  else if String.eqb shape "raw" then Ok (VBytes b)
  else Panic.
Definition interpret_gen (mins : list (string * Z)) (mind : Z) (shapes : list (string * string)) (shaped : string)
           (name : string) (b : bytes) : outcome value :=
  if len b <? lookup_name name mins mind then Ok (VBytes b) else shape_value (lookup_name name shapes shaped) b.

(* ---- templates ---- *)
Record fspec := { f_id : Z; f_len : Z; f_pen : Z }.
Record template := { t_id : Z; t_fcount : Z; t_fields : list fspec; t_scount : Z; t_scope : list fspec }.
Definition empty_template : template :=
  {| t_id := 0; t_fcount := 0; t_fields := []; t_scount := 0; t_scope := [] |}.

(* DecodedField: ID, EnterpriseNo, Value *)
Record dfield := { d_id : Z; d_pen : Z; d_val : value }.
Definition record := list dfield.

(* the information model as the decoders see it: (enterprise no, element id) -> (FieldID, Type) *)
Definition infomodel := Z -> Z -> option (Z * Z).

(* what the decoders need from a template cache; outcomes because the Go cache can panic
   (index out of range, nil shard, nil map) when it is structurally inconsistent *)
Record cache_ops (C : Type) := {
  c_retrieve : C -> Z -> bytes -> outcome (option template);
  c_insert : C -> Z -> bytes -> template -> outcome C
}.
Arguments c_retrieve {C}. Arguments c_insert {C}.

(* a decode result: the cache is updated even when the message is rejected *)
Inductive dresult (M : Type) := DFail | DMsg (m : M) (nonfatal : Z).
Arguments DFail {M}. Arguments DMsg {M}.

