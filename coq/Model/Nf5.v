(* Model of netflow/v5/decoder.go and netflow/v5/marshal.go.
   The wire layouts and the JSON piece sequences are PARAMETERS: the driver and the property
   theorems instantiate them with the tables regenerated from the Go source (Gen/Layouts.v,
   Gen/JsonPieces.v); the control flow (validate, length check, flow loop, what is published) is
   hand-modelled and tied by the correspondence check. *)
From VF Require Import Base.Prelude Base.IPText Model.Reader Model.Layout Model.JsonPieces.

Section Nf5.
  Variables (hl fl : layout) (apieces hpieces fpieces : list piece).

  (* a decoded struct: field name -> value, in wire order ("" = skipped octets, dropped) *)
  Definition named (L : layout) (vs : list Z) : list (string * Z) :=
    filter (fun x => negb (String.eqb (fst x) "")) (combine (map fst L) vs).

  Record nf5_msg := { n5_agent : bytes; n5_header : list (string * Z); n5_flows : list (list (string * Z)) }.

  (* decodeFlows: the loop `for err == nil && flowIndex < flowCount` *)
  Fixpoint decode_flows (n : nat) (r : reader) (acc : list (list (string * Z))) : list (list (string * Z)) * bool :=
    match n with
    | O => (acc, true)
    | S k => match read_layout fl r with
             | Ok (f, r') => decode_flows k r' (acc ++ [named fl f])
             | _ => (acc, false)
             end
    end.

  (* Decode(): Err = (nil, err);  Ok (m, clean) = message returned, clean=false when a (non-fatal)
     error accompanies it.  In package netflow5 `type nonfatalError error` is an interface type, so
     every error of decodeFlows is "non-fatal". *)
  Definition nf5_decode (addr : bytes) (p : bytes) : outcome (nf5_msg * bool) :=
    x <- read_layout hl (new_reader p) ;;
    let h := named hl (fst x) in let r := snd x in
    let version := field_get "Version" h in let count := field_get "Count" h in
    if negb (version =? 5) then Err EInvalid
    else if (count <? 1) || (30 <? count) then Err EInvalid
    else
      if rlen r <? count * 48 then Ok ({| n5_agent := addr; n5_header := h; n5_flows := [] |}, false)
      else let '(fs, ok) := decode_flows (Z.to_nat count) r [] in
           Ok ({| n5_agent := addr; n5_header := h; n5_flows := fs |}, ok).

  (* JSONMarshal: "{" agent header "Flows":[ {flow},{flow} ] "}" *)
  Definition nf5_marshal (m : nf5_msg) : bytes :=
    s2l "{" ++ eval_pieces [] [("AgentID"%string, ip_string (n5_agent m))] apieces
    ++ eval_pieces (n5_header m) [] hpieces
    ++ s2l """Flows"":["
    ++ intercalate (s2l ",") (map (fun f => s2l "{" ++ eval_pieces f [] fpieces ++ s2l "}") (n5_flows m))
    ++ s2l "]}".

  (* what the worker publishes for a datagram (vflow/netflow_v5.go): nothing unless Decode returned a
     message whose Flows != nil *)
  Definition nf5_publish (addr p : bytes) : outcome (option bytes) :=
    match nf5_decode addr p with
    | Ok (m, _) => match n5_flows m with [] => Ok None | _ => Ok (Some (nf5_marshal m)) end
    | Err _ => Ok None
    | Panic => Panic
    | Hang => Hang
    end.
End Nf5.
Arguments n5_agent : clear implicits.
