(* Connection-level model of producer/rawSocket.go inputMsg: the same send / retry / redial loop as Model/Producer.v,
   but a write attempt may be PARTIAL: Write put the first k octets of the line on the connection and then returned an
   error (the producer was blocked in the middle of a message when the connection died).  Each retry writes the WHOLE
   line again, from its first octet (fmt.Fprintf(rs.connection, "%s\n", msg) inside the retry loop).

   State: the connections dialled so far, newest first; for each, what a line-oriented sink makes of the octets written
   to it: the complete (newline terminated) lines and the unterminated octets after the last newline.
   Messages are taken to contain no newline octet (they are JSON texts produced by encoding/json, see C05). *)
From VF Require Import Base.Prelude Model.Producer.

Inductive att :=
| AOk                                         (* Write returned nil: the whole line is on the current connection *)
| AErr (k : nat) (broken_pipe dial_ok : bool). (* the first k octets of the message went out, then an error was returned;
                                                  on "broken pipe" the producer dials again, which succeeds or not *)

Record conn := { lines : list bytes; pend : bytes }.
Definition fresh : conn := {| lines := []; pend := [] |}.

Definition wr_line (m : bytes) (c : conn) : conn := {| lines := lines c ++ [pend c ++ line m]; pend := [] |}.
Definition wr_part (k : nat) (m : bytes) (c : conn) : conn := {| lines := lines c; pend := pend c ++ firstn k m |}.

Definition on_cur (f : conn -> conn) (cs : list conn) : list conn :=
  match cs with c :: r => f c :: r | [] => [f fresh] end.

(* the retry loop for one message: for i := 0; ; i++ { write; if err == nil break; *ec++; redial on broken pipe; if i >= MaxRetry break } *)
Fixpoint csend_one (fuel : nat) (i max_retry : Z) (m : bytes) (o : list att) (cs : list conn) : list conn * Z * list att :=
  match o with
  | [] => (on_cur (wr_line m) cs, 0, [])
  | AOk :: o' => (on_cur (wr_line m) cs, 0, o')
  | AErr k bp d :: o' =>
      let cs1 := on_cur (wr_part k m) cs in
      let cs2 := if bp && d then fresh :: cs1 else cs1 in
      if max_retry <=? i then (cs2, 1, o')
      else match fuel with
           | O => (cs2, 1, o')
           | S f => let '(c, e, o2) := csend_one f (i + 1) max_retry m o' cs2 in (c, e + 1, o2)
           end
  end.

Fixpoint csend_all (max_retry : Z) (ms : list bytes) (o : list att) (cs : list conn) : list conn * Z :=
  match ms with
  | [] => (cs, 0)
  | m :: rest =>
      let '(cs1, e, o') := csend_one (S (Z.to_nat (Z.max 0 max_retry))) 0 max_retry m o cs in
      let '(cs2, e2) := csend_all max_retry rest o' cs1 in
      (cs2, e + e2)
  end.

(* the run: one connection dialled at start-up *)
Definition crun (max_retry : Z) (ms : list bytes) (o : list att) : list conn * Z := csend_all max_retry ms o [fresh].

(* all complete lines, in the order they were written (oldest connection first) *)
Definition all_lines (cs : list conn) : list bytes := concat (map lines (rev cs)).

(* THE ASSUMPTION ABOUT THE CONNECTION (kernel TCP without deadlines): once a Write on a connection has returned an error,
   that connection is dead: every later Write on it returns an error again, having written nothing.
   [dead] = the current connection has already returned an error. *)
Fixpoint dead_ok (dead : bool) (o : list att) : bool :=
  match o with
  | [] => negb dead          (* an exhausted schedule means: every further Write succeeds *)
  | AOk :: o' => negb dead && dead_ok false o'
  | AErr k bp d :: o' => (if dead then Nat.eqb k 0 else true) && dead_ok (negb (bp && d)) o'
  end.

(* sub-lists (order preserving, duplicate free selections) *)
Inductive sublist {A} : list A -> list A -> Prop :=
| sub_nil : sublist [] []
| sub_skip : forall x l1 l2, sublist l1 l2 -> sublist l1 (x :: l2)
| sub_keep : forall x l1 l2, sublist l1 l2 -> sublist (x :: l1) (x :: l2).

(* what the sink has RECEIVED of a connection is a prefix of what was written to it: n complete lines of it *)
Fixpoint received (take : list nat) (cs : list conn) : list bytes :=
  match cs with
  | [] => []
  | c :: r => firstn (hd 0%nat take) (lines c) ++ received (tl take) r
  end.

(* ---------- what the model assumes of the source (checked against Gen/RawSocket.v, regenerated from rawSocket.go) ---------- *)
Local Open Scope string_scope.
Definition mem_str (s : string) (l : list string) : bool := existsb (String.eqb s) l.
(* methods of net.Conn that leave an error fatal (no deadline can make a Write fail on a healthy connection) *)
Definition harmless_conn_methods : list string := ["Write"; "Close"; "LocalAddr"; "RemoteAddr"; "Read"].
Definition whole_line_writers : list string := ["fmt.Fprintf"; "fmt.Fprintln"].
Definition raw_socket_ok (write_form : string) (write_in_loop msg_stable counts_errors : bool)
                         (conn_methods conn_users : list string) (redial_on retry_break : string) : bool :=
  String.eqb write_form "whole-line" && write_in_loop && msg_stable && counts_errors
  && forallb (fun m => mem_str m harmless_conn_methods) conn_methods
  && forallb (fun m => mem_str m whole_line_writers) conn_users
  && String.eqb redial_on "strings.HasSuffix(err.Error(), ""broken pipe"")"
  && String.eqb retry_break "i >= rs.config.MaxRetry".
