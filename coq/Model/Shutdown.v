(* Model of the stop sequence of one protocol (vflow/vflow.go main + <proto>.run loop + <proto>.shutdown):
   an untimed interleaving of three threads.
     main:      wait for the signal; spawn shutdown; wg.Wait(); return
     run:       for !stop { b := pool.Get(); n, err := ReadFromUDP(b); if err { continue }; count; udpCh <- msg }
     shutdown:  stop = true; sleep(1s); Dump(cacheFile); close(udpCh)
   Timing is deliberately absent: the model shows which orderings the CODE enforces and which ones it
   obtains only from timing (the send-after-close hazard). *)
From VF Require Import Base.Prelude.

Inductive mainpc := MWait | MSpawned | MReturned.
Inductive runpc := RLoop | RHasDatagram | RDone.
Inductive shutpc := S0 | S1_stopset | S2_slept | S3_dumped | S4_closed.

Record sst := { mpc : mainpc; rpc : runpc; spc : shutpc; stop : bool; dumped : bool; closed : bool;
                send_on_closed : bool }.

Definition sinit : sst := {| mpc := MWait; rpc := RLoop; spc := S0; stop := false; dumped := false; closed := false; send_on_closed := false |}.

Inductive sstep : sst -> sst -> Prop :=
| Signal s : mpc s = MWait ->
    sstep s {| mpc := MSpawned; rpc := rpc s; spc := spc s; stop := stop s; dumped := dumped s; closed := closed s; send_on_closed := send_on_closed s |}
| ShutStop s : mpc s = MSpawned -> spc s = S0 ->
    sstep s {| mpc := mpc s; rpc := rpc s; spc := S1_stopset; stop := true; dumped := dumped s; closed := closed s; send_on_closed := send_on_closed s |}
| ShutSleep s : spc s = S1_stopset ->
    sstep s {| mpc := mpc s; rpc := rpc s; spc := S2_slept; stop := stop s; dumped := dumped s; closed := closed s; send_on_closed := send_on_closed s |}
| ShutDump s : spc s = S2_slept ->
    sstep s {| mpc := mpc s; rpc := rpc s; spc := S3_dumped; stop := stop s; dumped := true; closed := closed s; send_on_closed := send_on_closed s |}
| ShutClose s : spc s = S3_dumped ->
    sstep s {| mpc := mpc s; rpc := rpc s; spc := S4_closed; stop := stop s; dumped := dumped s; closed := true; send_on_closed := send_on_closed s |}
| RunExit s : rpc s = RLoop -> stop s = true ->
    sstep s {| mpc := mpc s; rpc := RDone; spc := spc s; stop := stop s; dumped := dumped s; closed := closed s; send_on_closed := send_on_closed s |}
| RunRead s : rpc s = RLoop -> stop s = false ->       (* a datagram arrived *)
    sstep s {| mpc := mpc s; rpc := RHasDatagram; spc := spc s; stop := stop s; dumped := dumped s; closed := closed s; send_on_closed := send_on_closed s |}
| RunSend s : rpc s = RHasDatagram ->                  (* udpCh <- msg : panics if the channel is closed *)
    sstep s {| mpc := mpc s; rpc := RLoop; spc := spc s; stop := stop s; dumped := dumped s; closed := closed s;
               send_on_closed := send_on_closed s || closed s |}
| MainReturn s : mpc s = MSpawned -> rpc s = RDone -> spc s = S4_closed ->
    sstep s {| mpc := MReturned; rpc := rpc s; spc := spc s; stop := stop s; dumped := dumped s; closed := closed s; send_on_closed := send_on_closed s |}.

Inductive sreach : sst -> Prop :=
| SR0 : sreach sinit
| SRS x y : sreach x -> sstep x y -> sreach y.
