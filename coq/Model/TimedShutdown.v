(* Timed model of the stop sequence of one pipeline (vflow/<proto>.go run + shutdown), refining Model/Shutdown.v
   with the two durations the code relies on:
     D  the read deadline of the receive loop   (conn.SetReadDeadline(time.Now().Add(D)))
     G  the sleep of shutdown() between `stop = true` and close(udpCh)
   Time is a number of nanoseconds.  Assumptions written into the step relation:
     - the local steps of the receive loop (testing the flag, sending to a channel that is not full) take no
       time compared with D and G; a ReadFromUDP returns a datagram only strictly before its deadline and
       returns the timeout error at the deadline;
     - time.Sleep(G) returns no earlier than G after it was called (the dump that may follow only adds to it). *)
From VF Require Import Base.Prelude.

Inductive trun := TCheck | TReading (since : Z) | THas | TDone.
Record tst := { tnow : Z; stop_at : option Z; trpc : trun; tclosed : bool; tviol : bool }.
Definition tinit : tst := {| tnow := 0; stop_at := None; trpc := TCheck; tclosed := false; tviol := false |}.

Section Timed.
  Variables D G : Z.

  Inductive tstep : tst -> tst -> Prop :=
  | TTick s t : tnow s <= t -> trpc s <> TCheck -> trpc s <> THas -> (forall st, trpc s = TReading st -> t <= st + D) ->
      tstep s {| tnow := t; stop_at := stop_at s; trpc := trpc s; tclosed := tclosed s; tviol := tviol s |}
  | TCheckGo s : trpc s = TCheck -> stop_at s = None ->                 (* for !i.stop { ... ReadFromUDP *)
      tstep s {| tnow := tnow s; stop_at := stop_at s; trpc := TReading (tnow s); tclosed := tclosed s; tviol := tviol s |}
  | TCheckExit s t0 : trpc s = TCheck -> stop_at s = Some t0 ->
      tstep s {| tnow := tnow s; stop_at := stop_at s; trpc := TDone; tclosed := tclosed s; tviol := tviol s |}
  | TReadData s st : trpc s = TReading st -> tnow s < st + D ->
      tstep s {| tnow := tnow s; stop_at := stop_at s; trpc := THas; tclosed := tclosed s; tviol := tviol s |}
  | TReadTimeout s st : trpc s = TReading st -> st + D <= tnow s ->    (* err != nil: continue *)
      tstep s {| tnow := tnow s; stop_at := stop_at s; trpc := TCheck; tclosed := tclosed s; tviol := tviol s |}
  | TSend s : trpc s = THas ->                                          (* udpCh <- msg : panics if the channel is closed *)
      tstep s {| tnow := tnow s; stop_at := stop_at s; trpc := TCheck; tclosed := tclosed s; tviol := tviol s || tclosed s |}
  | TStop s : stop_at s = None ->                                       (* shutdown(): i.stop = true *)
      tstep s {| tnow := tnow s; stop_at := Some (tnow s); trpc := trpc s; tclosed := tclosed s; tviol := tviol s |}
  | TClose s t0 : stop_at s = Some t0 -> t0 + G <= tnow s ->            (* time.Sleep(G); [Dump;] close(udpCh) *)
      tstep s {| tnow := tnow s; stop_at := stop_at s; trpc := trpc s; tclosed := true; tviol := tviol s |}.

  Inductive treach : tst -> Prop :=
  | TR0 : treach tinit
  | TRS x y : treach x -> tstep x y -> treach y.
End Timed.
