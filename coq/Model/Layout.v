(* Straight-line wire layouts: a list of (field name, width in octets) read in order through the
   reader.  Headers, the v5 flow record and the sFlow counter records are all `read_layout` of such
   a list (the lists themselves are regenerated from the Go sources into Gen/Layouts.v). *)
From VF Require Import Base.Prelude Model.Reader.

Definition layout := list (string * Z).

Fixpoint read_layout (L : layout) (r : reader) : outcome (list Z * reader) :=
  match L with
  | [] => Ok ([], r)
  | (_, w) :: t =>
      x <- uintN w r ;;
      y <- read_layout t (snd x) ;;
      Ok (fst x :: fst y, snd y)
  end.

Definition layout_size (L : layout) : Z := fold_right (fun x acc => snd x + acc) 0 L.

Fixpoint enc_layout (L : layout) (vs : list Z) : bytes :=
  match L, vs with
  | (_, w) :: t, v :: vt => enc (Z.to_nat w) v ++ enc_layout t vt
  | _, _ => []
  end.
