(* Model of one protocol pipeline of vflow/{ipfix,netflow_v9,netflow_v5,sflow}.go: the receive loop,
   N workers, the buffer pool, the bounded queues — as an interleaving semantics with one transition
   per statement that touches shared state.  What the decoder and encoder do with a datagram is a
   parameter (`process`), instantiated per protocol by the sequential models (Ipfix/Nf9/Nf5/Sflow
   + marshal).  A receive buffer's content is abstracted to WHICH datagram's octets it holds. *)
From VF Require Import Base.Prelude.

Section Pipeline.
  Variable C : Type.                 (* template cache *)
  Variable P : Type.                 (* published payload *)
  (* sequential processing of datagram number i in cache state c: new cache, what is published (if anything),
     whether it counts as decoded *)
  Variable process : C -> nat -> C * option P * bool.

  Definition bufid := nat.
  Inductive own := Unused | InPool | Queued | Held.

  Inductive wstate :=
  | WPut (b : bufid)              (* at the top of the loop: about to return msg.body to the pool *)
  | WRecv                         (* blocked on the receive queue; references no buffer *)
  | WProc (b : bufid) (i : nat).  (* holds the message for datagram i in buffer b: decode, count, encode, enqueue *)

  Record pst := {
    owner : bufid -> own;
    heap : bufid -> nat;               (* index of the datagram whose octets the buffer holds *)
    udpq : list (bufid * nat);         (* the receive channel: (buffer, datagram index), FIFO *)
    ws : list wstate;
    mq : list (nat * P);               (* the producer queue; the index is a ghost *)
    recvd : nat;                       (* datagrams taken off the socket so far *)
    udp_count : nat; dec_count : nat;
    done : list nat;                   (* ghost: datagrams fully processed *)
    cache : C
  }.

  Definition set_own (o : bufid -> own) (b : bufid) (x : own) : bufid -> own := fun b' => if Nat.eqb b' b then x else o b'.
  Definition set_heap (h : bufid -> nat) (b : bufid) (i : nat) : bufid -> nat := fun b' => if Nat.eqb b' b then i else h b'.
  Fixpoint upd {A} (l : list A) (i : nat) (x : A) : list A :=
    match l, i with [], _ => [] | _ :: t, O => x :: t | a :: t, S k => a :: upd t k x end.

  Inductive step : pst -> pst -> Prop :=
  (* receive loop: b := pool.Get() (a pooled buffer or a freshly made one); read datagram #recvd into it; count; enqueue *)
  | SRecv s b : (owner s b = InPool \/ owner s b = Unused) ->
      step s {| owner := set_own (owner s) b Queued; heap := set_heap (heap s) b (recvd s);
                udpq := udpq s ++ [(b, recvd s)]; ws := ws s; mq := mq s; recvd := S (recvd s);
                udp_count := S (udp_count s); dec_count := dec_count s; done := done s; cache := cache s |}
  (* worker w: pool.Put(msg.body) *)
  | SPut s w b : nth_error (ws s) w = Some (WPut b) ->
      step s {| owner := set_own (owner s) b InPool; heap := heap s; udpq := udpq s; ws := upd (ws s) w WRecv; mq := mq s;
                recvd := recvd s; udp_count := udp_count s; dec_count := dec_count s; done := done s; cache := cache s |}
  (* worker w: msg = <-udpCh *)
  | SGet s w b i rest : nth_error (ws s) w = Some WRecv -> udpq s = (b, i) :: rest ->
      step s {| owner := set_own (owner s) b Held; heap := heap s; udpq := rest; ws := upd (ws s) w (WProc b i); mq := mq s;
                recvd := recvd s; udp_count := udp_count s; dec_count := dec_count s; done := done s; cache := cache s |}
  (* worker w: decode what the buffer holds NOW, count, encode, copy, enqueue; back to the top of the loop *)
  | SProc s w b i c' out dec : nth_error (ws s) w = Some (WProc b i) ->
      process (cache s) (heap s b) = (c', out, dec) ->
      step s {| owner := owner s; heap := heap s; udpq := udpq s; ws := upd (ws s) w (WPut b);
                mq := match out with Some p => mq s ++ [(i, p)] | None => mq s end;
                recvd := recvd s; udp_count := udp_count s; dec_count := if dec then S (dec_count s) else dec_count s;
                done := done s ++ [i]; cache := c' |}.

  Inductive reachable (s0 : pst) : pst -> Prop :=
  | R0 : reachable s0 s0
  | RS x y : reachable s0 x -> step x y -> reachable s0 y.

  (* initial state: n workers, each holding its own buffer from the pool (msg = {body: pool.Get()}) *)
  Definition init (n : nat) (c : C) : pst :=
    {| owner := fun b => if Nat.ltb b n then Held else Unused; heap := fun _ => O; udpq := [];
       ws := map WPut (seq 0 n); mq := []; recvd := 0; udp_count := 0; dec_count := 0; done := []; cache := c |}.
End Pipeline.
Arguments owner {C P}. Arguments heap {C P}. Arguments udpq {C P}. Arguments ws {C P}. Arguments mq {C P}.
Arguments recvd {C P}. Arguments udp_count {C P}. Arguments dec_count {C P}. Arguments done {C P}. Arguments cache {C P}.
Arguments Build_pst {C P}.
