(* ipfix/memcache.go and netflow/v9/memcache.go (identical but for the receiver kind):
   32 shards selected by FNV-1-32 of key = addr || be16 id; per shard a map[string]Data keyed by the
   hex text of the full key (hex encoding is injective, so the model keys by the key octets). *)
From VF Require Import Base.Prelude Model.Reader Model.Flow.

Definition shard_no : Z := 32.

(* hash/fnv New32: FNV-1, hash = (hash * 16777619) xor byte, 32-bit *)
Fixpoint fnv1_32_acc (l : bytes) (h : Z) : Z :=
  match l with [] => h | b :: t => fnv1_32_acc t (Z.lxor ((h * 16777619) mod 4294967296) b) end.
Definition fnv1_32 (l : bytes) : Z := fnv1_32_acc l 2166136261.

Definition cache_key (id : Z) (addr : bytes) : bytes := addr ++ enc 2 id.

(* a shard: nil pointer | pointer to {Templates: nil map | map} *)
Definition tmap := list (bytes * template).
Definition shard := option (option tmap).
Definition ccache := list shard.

Fixpoint tmap_get (k : bytes) (m : tmap) : option template :=
  match m with [] => None | (k', t) :: r => if list_eqb k k' then Some t else tmap_get k r end.
Fixpoint tmap_set (k : bytes) (t : template) (m : tmap) : tmap :=
  match m with
  | [] => [(k, t)]
  | (k', t') :: r => if list_eqb k k' then (k, t) :: r else (k', t') :: tmap_set k t r
  end.

Fixpoint list_set {A} (n : nat) (x : A) (l : list A) : list A :=
  match l, n with
  | [], _ => []
  | _ :: t, O => x :: t
  | y :: t, S k => y :: list_set k x t
  end.

(* getShard: m[uint(hSum32) % uint(shardNo)] — index out of range panics *)
Definition get_shard (c : ccache) (id : Z) (addr : bytes) : outcome (nat * shard * bytes) :=
  let key := cache_key id addr in
  let i := Z.to_nat (fnv1_32 key mod shard_no) in
  match nth_error c i with
  | None => Panic
  | Some s => Ok (i, s, key)
  end.

(* retrieve: shard.RLock() on a nil *TemplatesShard panics; reading a nil map is fine *)
Definition cc_retrieve (c : ccache) (id : Z) (addr : bytes) : outcome (option template) :=
  x <- get_shard c id addr ;;
  let '(i, s, key) := x in
  match s with
  | None => Panic
  | Some None => Ok None
  | Some (Some m) => Ok (tmap_get key m)
  end.

(* insert: writing to a nil map panics *)
Definition cc_insert (c : ccache) (id : Z) (addr : bytes) (t : template) : outcome ccache :=
  x <- get_shard c id addr ;;
  let '(i, s, key) := x in
  match s with
  | None => Panic
  | Some None => Panic
  | Some (Some m) => Ok (list_set i (Some (Some (tmap_set key t m))) c)
  end.

Definition cc_ops : cache_ops ccache := {| c_retrieve := cc_retrieve; c_insert := cc_insert |}.

Definition empty_ccache : ccache := repeat (Some (Some [])) 32.

Definition wf_shard (s : shard) : Prop := exists m, s = Some (Some m).
Definition wf_cache (c : ccache) : Prop := length c = 32%nat /\ Forall wf_shard c.

(* ---- the abstract specification: a map keyed by the full (exporter address, template id) ---- *)
Definition amap := list ((bytes * Z) * template).
Fixpoint amap_get (a : bytes) (id : Z) (m : amap) : option template :=
  match m with
  | [] => None
  | ((a', id'), t) :: r => if list_eqb a a' && (id =? id') then Some t else amap_get a id r
  end.
(* template ids are uint16 in the Go code; the abstract map normalises them the same way the key
   encoding (PutUint16) does *)
Definition am_ops : cache_ops amap :=
  {| c_retrieve := fun m id a => Ok (amap_get a (id mod 65536) m);
     c_insert := fun m id a t => Ok (((a, id mod 65536), t) :: m) |}.
