(* The mirror DISPATCHER (vflow/ipfix_unix.go mirrorIPFIXDispatcher, vflow/sflow_unix.go mirrorSFlowDispatcher): the goroutine between
   the workers' mirror queue and the mirror workers.  Every message goes to one of two queues by the family of its exporter's
   address (net.IP.To4 != nil), the mirror workers read the queue of the TARGET's family.  To4 is total: an address of 4 octets,
   of 16 octets, of any other length is classified, never indexed into. *)
From VF Require Import Base.Prelude Model.Mirror.

Definition is4 (a : bytes) : bool := match to4 a with Some _ => true | None => false end.

Section Dispatch.
  Context {M : Type} (addr_of : M -> bytes).
  Definition dispatch (msgs : list M) : list M * list M :=
    (filter (fun m => is4 (addr_of m)) msgs, filter (fun m => negb (is4 (addr_of m))) msgs).
  (* the queue the mirror workers read *)
  Definition served (dst : bytes) (q : list M * list M) : list M := if is4 dst then fst q else snd q.
End Dispatch.
