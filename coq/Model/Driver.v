(* Command dispatcher for the extracted model: one input line (already tokenised by the OCaml
   driver) -> one output line.  All canonical printing is done here, in Coq, so that the OCaml
   side is a trivial read/print loop. *)
From VF Require Import Base.Prelude Model.Reader Model.InfoModelDefs.
From VF Require Import Base.IPText Model.Layout Model.JsonPieces Model.Nf5 Model.Flow Model.Cache Model.Ipfix Model.Nf9 Model.MarshalFlow Base.Json Model.Packet Model.Sflow Model.CacheFile Model.Options Model.Mirror Model.Producer.
From VF Require Gen.InfoModel Gen.Layouts Gen.JsonPieces Gen.Options.

Inductive tok := TBytes (b : bytes) | TInt (z : Z) | TSym (s : bytes).

Definition sym_is (t : tok) (s : string) : bool :=
  match t with TSym l => list_eqb l (s2l s) | _ => false end.

Definition sp : bytes := [32].
Definition show_bytes (b : bytes) : bytes := 120 :: show_hex b.   (* x<hex> *)

(* ---------- reader (C19) ---------- *)
(* ops: u8 u16 u32 u64 len cnt pu16, `r <int>`, `p <int>` *)
Fixpoint parse_rops (ts : list tok) : list rop :=
  match ts with
  | [] => []
  | t :: rest =>
    if sym_is t "u8" then OU8 :: parse_rops rest
    else if sym_is t "u16" then OU16 :: parse_rops rest
    else if sym_is t "u32" then OU32 :: parse_rops rest
    else if sym_is t "u64" then OU64 :: parse_rops rest
    else if sym_is t "len" then OLen :: parse_rops rest
    else if sym_is t "cnt" then OCount :: parse_rops rest
    else if sym_is t "pu16" then OPeekU16 :: parse_rops rest
    else if sym_is t "r" then
      match rest with TInt n :: rest' => ORead n :: parse_rops rest' | _ => [] end
    else if sym_is t "p" then
      match rest with TInt n :: rest' => OPeek n :: parse_rops rest' | _ => [] end
    else parse_rops rest
  end.

Definition show_rres (x : rres * Z * Z) : bytes :=
  let '(res, l, c) := x in
  (match res with
   | RVal v => show_Z v
   | RBytes b => show_bytes b
   | RFail => s2l "E"
   end) ++ s2l "/" ++ show_Z l ++ s2l "/" ++ show_Z c.

Definition cmd_reader (args : list tok) : bytes :=
  match args with
  | TBytes b :: ops =>
      intercalate sp (map show_rres (snd (run (new_reader b) (parse_rops ops))))
  | _ => s2l "BADARGS"
  end.

(* ---------- information model (C20) ---------- *)
Definition show_entry (x : (Z * Z) * entry) : bytes :=
  let '((pen, id), (fid, name, ty)) := x in
  show_Z pen ++ s2l ":" ++ show_Z id ++ s2l ":" ++ show_Z fid ++ s2l ":" ++ s2l name ++ s2l ":" ++ show_Z ty.
Definition show_model (m : model) : bytes := intercalate (s2l ";") (map show_entry m).

Definition cmd_infomodel (args : list tok) : bytes :=
  match args with
  | t :: _ =>
    if sym_is t "builtin" then
      show_model (builtin_model Gen.InfoModel.type_consts Gen.InfoModel.field_types Gen.InfoModel.builtin)
    else if sym_is t "shipped" then
      show_model (load_ext Gen.InfoModel.field_types Gen.InfoModel.shipped)
    else s2l "BADARGS"
  | _ => s2l "BADARGS"
  end.

(* ---------- NetFlow v5 (C08) ---------- *)
Definition show_named (fs : list (string * Z)) : bytes :=
  intercalate (s2l ",") (map (fun x => s2l (fst x) ++ s2l "=" ++ show_Z (snd x)) fs).

Definition g_nf5_decode := nf5_decode Gen.Layouts.nf5_header_layout Gen.Layouts.nf5_flow_layout.
Definition g_nf5_marshal := nf5_marshal Gen.JsonPieces.nf5_agent_pieces Gen.JsonPieces.nf5_header_pieces Gen.JsonPieces.nf5_flow_pieces.

(* nf5 <addr> <payload>  ->  ERR | PANIC | HANG | OK clean=<b> H:<fields> F:<n> <flow>|<flow> J:<json or -> *)
Definition cmd_nf5 (args : list tok) : bytes :=
  match args with
  | TBytes addr :: TBytes p :: _ =>
    match g_nf5_decode addr p with
    | Err _ => s2l "ERR"
    | Panic => s2l "PANIC"
    | Hang => s2l "HANG"
    | Ok (m, clean) =>
        s2l "OK clean=" ++ (if clean then s2l "1" else s2l "0") ++ s2l " H:" ++ show_named (n5_header m)
        ++ s2l " F:" ++ show_Z (len (n5_flows m)) ++ sp ++ intercalate (s2l "|") (map show_named (n5_flows m))
        ++ s2l " J:" ++ (match n5_flows m with [] => s2l "-" | _ => g_nf5_marshal m end)
    end
  | _ => s2l "BADARGS"
  end.

(* ---------- IPFIX / NetFlow v9 (C01..C06, C09) ---------- *)
(* enterprise elements installed by BOTH sides for the correspondence runs (the harness adds exactly
   these to ipfix.InfoModel; a deployment gets enterprise elements through ipfix.elements) *)
Definition test_ext_elements : model :=
  [((9, 1), (1, "extString", 14)); ((9, 2), (2, "extU32", 3)); ((9, 3), (3, "extBool", 11));
   ((9, 4), (4, "extOctets", 13)); ((29305, 0), (0, "extZero", 2)); ((29305, 7), (7, "extF64", 10));
   ((4294967295, 32767), (32767, "extMax", 20));
   ((9, 5), (5, "extI8", 5)); ((9, 6), (6, "extI16", 6)); ((9, 7), (7, "extI32", 7)); ((9, 8), (8, "extI64", 8)); ((9, 9), (9, "extF32", 9));
   ((0, 30001), (30001, "ext0I8", 5)); ((0, 30002), (30002, "ext0I16", 6)); ((0, 30003), (30003, "ext0I32", 7));
   ((0, 30004), (30004, "ext0I64", 8)); ((0, 30005), (30005, "ext0F32", 9))]%string.

Definition driver_model : model :=
  builtin_model Gen.InfoModel.type_consts Gen.InfoModel.field_types Gen.InfoModel.builtin ++ test_ext_elements.

Definition driver_im : infomodel :=
  fun pen id => match lookup driver_model (pen, id) with Some (fid, _, ty) => Some (fid, ty) | None => None end.

Definition show_value (v : value) : bytes :=
  match v with
  | VBool b => s2l "b:" ++ (if b then s2l "1" else s2l "0")
  | VU8 z => s2l "u8:" ++ show_Z z | VU16 z => s2l "u16:" ++ show_Z z
  | VU32 z => s2l "u32:" ++ show_Z z | VU64 z => s2l "u64:" ++ show_Z z
  | VI8 z => s2l "i8:" ++ show_Z z | VI16 z => s2l "i16:" ++ show_Z z
  | VI32 z => s2l "i32:" ++ show_Z z | VI64 z => s2l "i64:" ++ show_Z z
  | VF32 z => s2l "f32:" ++ show_Z z | VF64 z => s2l "f64:" ++ show_Z z
  | VMac l => s2l "mac:" ++ show_bytes l | VStr l => s2l "s:" ++ show_bytes l
  | VIP l => s2l "ip:" ++ show_bytes l | VBytes l => s2l "raw:" ++ show_bytes l
  end.
Definition show_dfield (f : dfield) : bytes :=
  show_Z (d_id f) ++ s2l "/" ++ show_Z (d_pen f) ++ s2l "/" ++ show_value (d_val f).
Definition show_sets (ds : list record) : bytes :=
  intercalate (s2l ";") (map (fun r => intercalate (s2l ",") (map show_dfield r)) ds).

Definition g_ipfix_decode {C} (ops : cache_ops C) := ipfix_decode ops driver_im Gen.Layouts.ipfix_header_layout.
Definition g_ipfix_marshal (m : ipfix_msg) : bytes :=
  flow_marshal true Gen.JsonPieces.ipfix_agent_pieces Gen.JsonPieces.ipfix_header_pieces
               (i_agent m) (i_header m) (i_sets m).

(* one datagram: FAIL | MSG nf=<k> H:<hdr> N:<#sets> S:<sets> J:x<hex json> | J:- (nothing published) *)
Definition show_ipfix_result (wj : bool) (d : dresult ipfix_msg) : bytes :=
  match d with
  | DFail => s2l "FAIL"
  | DMsg m nf =>
      s2l "MSG nf=" ++ show_Z nf ++ s2l " H:" ++ show_named (i_header m)
      ++ s2l " N:" ++ show_Z (len (i_sets m)) ++ s2l " S:" ++ show_sets (i_sets m)
      ++ (if wj then s2l " J:" ++ (match i_sets m with [] => s2l "-" | _ => show_bytes (g_ipfix_marshal m) end) else [])
  end.

(* a history: <addr> <payload> <addr> <payload> ... decoded in order from the empty cache *)
Fixpoint run_ipfix_history {C} (wj : bool) (ops : cache_ops C) (c : C) (args : list tok) : list bytes :=
  match args with
  | TBytes addr :: TBytes p :: rest =>
      match g_ipfix_decode ops c addr p with
      | Ok (c', d) => show_ipfix_result wj d :: run_ipfix_history wj ops c' rest
      | Err _ => [s2l "ERR?"]
      | Panic => [s2l "PANIC"]
      | Hang => [s2l "HANG"]
      end
  | _ => []
  end.

Definition hist_sep : bytes := s2l " ## ".
Definition cmd_ipfixh (args : list tok) : bytes :=
  intercalate hist_sep (run_ipfix_history true cc_ops empty_ccache args).
(* the same history against the ABSTRACT cache keyed by the full (address, id) *)
Definition cmd_ipfixh_abs (args : list tok) : bytes :=
  intercalate hist_sep (run_ipfix_history true am_ops [] args).

Definition g_nf9_decode {C} (ops : cache_ops C) := nf9_decode ops driver_im Gen.Layouts.nf9_header_layout.
Definition g_nf9_marshal (m : nf9_msg) : bytes :=
  flow_marshal false Gen.JsonPieces.nf9_agent_pieces Gen.JsonPieces.nf9_header_pieces
               (n9_agent m) (n9_header m) (n9_sets m).
Definition show_nf9_result (wj : bool) (d : dresult nf9_msg) : bytes :=
  match d with
  | DFail => s2l "FAIL"
  | DMsg m nf =>
      s2l "MSG nf=" ++ show_Z nf ++ s2l " H:" ++ show_named (n9_header m)
      ++ s2l " N:" ++ show_Z (len (n9_sets m)) ++ s2l " S:" ++ show_sets (n9_sets m)
      ++ (if wj then s2l " J:" ++ (match n9_sets m with [] => s2l "-" | _ => show_bytes (g_nf9_marshal m) end) else [])
  end.
Fixpoint run_nf9_history {C} (wj : bool) (ops : cache_ops C) (c : C) (args : list tok) : list bytes :=
  match args with
  | TBytes addr :: TBytes p :: rest =>
      match g_nf9_decode ops c addr p with
      | Ok (c', d) => show_nf9_result wj d :: run_nf9_history wj ops c' rest
      | Err _ => [s2l "ERR?"]
      | Panic => [s2l "PANIC"]
      | Hang => [s2l "HANG"]
      end
  | _ => []
  end.
Definition cmd_nf9h (args : list tok) : bytes := intercalate hist_sep (run_nf9_history true cc_ops empty_ccache args).
Definition cmd_nf9h_abs (args : list tok) : bytes := intercalate hist_sep (run_nf9_history true am_ops [] args).

(* ---------- sFlow (C07, C18, C01, C02) ---------- *)
Definition g_sf_decode :=
  sf_decode Gen.Layouts.sf_flow_sample_layout Gen.Layouts.sf_counter_sample_layout Gen.Layouts.sf_ext_switch_layout
            Gen.Layouts.sf_generic_layout Gen.Layouts.sf_ethernet_layout Gen.Layouts.sf_tokenring_layout
            Gen.Layouts.sf_vg_layout Gen.Layouts.sf_vlan_layout Gen.Layouts.sf_processor_layout
            Gen.Layouts.sf_flow_sample_fields Gen.Layouts.sf_counter_sample_fields Gen.Layouts.sf_ext_switch_fields
            Gen.Layouts.sf_generic_fields Gen.Layouts.sf_ethernet_fields Gen.Layouts.sf_tokenring_fields
            Gen.Layouts.sf_vg_fields Gen.Layouts.sf_vlan_fields Gen.Layouts.sf_processor_fields.

(* sflow <filter type>... <payload>  ->  NONE (nothing published) | the published JSON document (ColTime 0) *)
Fixpoint sflow_args (args : list tok) (filter : list Z) : bytes :=
  match args with
  | TInt z :: rest => sflow_args rest (filter ++ [z])
  | TBytes p :: _ =>
      match g_sf_decode filter p with
      | Ok (_, None) => s2l "NONE"
      | Ok (_, Some j) => render j
      | Err _ => s2l "ERR?"
      | Panic => s2l "PANIC"
      | Hang => s2l "HANG"
      end
  | _ => s2l "BADARGS"
  end.
Definition cmd_sflow (args : list tok) : bytes := sflow_args args [].

(* ---------- cache file (C11) ---------- *)
Fixpoint lex_leb (a b : bytes) : bool :=
  match a, b with
  | [], _ => true
  | _, [] => false
  | x :: a', y :: b' => if x <? y then true else if y <? x then false else lex_leb a' b'
  end.
Fixpoint ins_sorted (x : bytes * bytes) (l : list (bytes * bytes)) : list (bytes * bytes) :=
  match l with
  | [] => [x]
  | h :: t => if lex_leb (fst x) (fst h) then x :: l else h :: ins_sorted x t
  end.
(* sorted "hexkey:tid:nfields:nscope" of everything the cache holds *)
Definition cache_digest (c : ccache) : bytes :=
  let items := flat_map (fun s => match s with
                                  | Some (Some m) => map (fun kt => (show_hex (fst kt),
                                       show_hex (fst kt) ++ s2l ":" ++ show_Z (t_id (snd kt)) ++ s2l ":" ++ show_Z (len (t_fields (snd kt)))
                                       ++ s2l ":" ++ show_Z (len (t_scope (snd kt))))) m
                                  | _ => [] end) c in
  intercalate (s2l ",") (map snd (fold_right ins_sorted [] items)).

(* a template in the case files: tid fcount scount nscope nfields, then the specifiers (id len pen) *)
Fixpoint parse_specs (n : nat) (l : bytes) : list fspec * bytes :=
  match n with
  | O => ([], l)
  | S k => let '(r, rest) := parse_specs k (skipn 8 l) in
           ({| f_id := be (firstn 2 l); f_len := be (firstn 2 (skipn 2 l)); f_pen := be (firstn 4 (skipn 4 l)) |} :: r, rest)
  end.
Definition parse_tpl (l : bytes) : template :=
  let w i := be (firstn 2 (skipn i l)) in
  let '(sc, rest) := parse_specs (Z.to_nat (w 6%nat)) (skipn 10 l) in
  let '(fs, _) := parse_specs (Z.to_nat (w 8%nat)) rest in
  {| t_id := w 0%nat; t_fcount := w 2%nat; t_fields := fs; t_scount := w 4%nat; t_scope := sc |}.

Fixpoint parse_entries (ts : list tok) (acc : tmap) : tmap * list tok :=
  match ts with
  | TBytes k :: TBytes t :: rest => parse_entries rest (acc ++ [(k, parse_tpl t)])
  | TSym _ :: rest => (acc, rest)          (* E *)
  | _ => (acc, ts)
  end.
Fixpoint parse_shards (fuel : nat) (ts : list tok) : ccache * list tok :=
  match fuel with
  | O => ([], ts)
  | S k =>
    match ts with
    | t :: rest =>
      if sym_is t "N" then let '(c, r) := parse_shards k rest in (None :: c, r)
      else if sym_is t "M" then let '(c, r) := parse_shards k rest in (Some None :: c, r)
      else if sym_is t "S" then
        let '(m, r1) := parse_entries rest [] in
        let '(c, r) := parse_shards k r1 in (Some (Some m) :: c, r)
      else ([], ts)
    | [] => ([], [])
    end
  end.

Fixpoint split_at_sym (s : string) (ts : list tok) : list tok * list tok :=
  match ts with
  | [] => ([], [])
  | t :: rest => if sym_is t s then ([], rest) else let '(a, b) := split_at_sym s rest in (t :: a, b)
  end.

Definition run_hist (proto : tok) (c : ccache) (h : list tok) : bytes :=
  if sym_is proto "ipfix" then intercalate hist_sep (run_ipfix_history false cc_ops c h)
  else intercalate hist_sep (run_nf9_history false cc_ops c h).

(* the cache after a history (for the save/load round trip) *)
Fixpoint cache_after_ipfix (c : ccache) (args : list tok) : ccache :=
  match args with
  | TBytes addr :: TBytes p :: rest =>
      match g_ipfix_decode cc_ops c addr p with Ok (c', _) => cache_after_ipfix c' rest | _ => c end
  | _ => c
  end.
Fixpoint cache_after_nf9 (c : ccache) (args : list tok) : ccache :=
  match args with
  | TBytes addr :: TBytes p :: rest =>
      match g_nf9_decode cc_ops c addr p with Ok (c', _) => cache_after_nf9 c' rest | _ => c end
  | _ => c
  end.

(* cachedoc <proto> <file> D <doc> H <history> *)
Definition cmd_cachedoc (args : list tok) : bytes :=
  match args with
  | proto :: _ :: rest =>
    let '(_, r1) := split_at_sym "D" rest in
    let '(dtoks, hist) := split_at_sym "H" r1 in
    let d : doc := match dtoks with
                   | TInt n :: shards => Some (fst (parse_shards (length shards) shards), n)
                   | _ => None
                   end in
    let c := get_cache d in
    s2l "T:" ++ cache_digest c ++ s2l " | " ++ run_hist proto c hist
  | _ => s2l "BADARGS"
  end.

(* cachert <proto> FULL|PREFIXES S <setup> H <history> *)
Definition cmd_cachert (args : list tok) : bytes :=
  match args with
  | proto :: mode :: rest =>
    let '(_, r1) := split_at_sym "S" rest in
    let '(setup, hist) := split_at_sym "H" r1 in
    if sym_is mode "OVER" then
      (* S <big setup> M <small setup> H <history>: the file written last is the small cache *)
      let '(_, rm) := split_at_sym "M" rest in
      let '(small, h2) := split_at_sym "H" rm in
      let c0 := if sym_is proto "ipfix" then cache_after_ipfix empty_ccache small else cache_after_nf9 empty_ccache small in
      let c := get_cache (dump_doc c0) in
      s2l "T:" ++ cache_digest c ++ s2l " | " ++ run_hist proto c h2
    else if sym_is mode "GEN2" then
      (* S <setup> M <modifications> H <history>: save, restart, modify (re-announcements), save again, restart *)
      let '(_, rm) := split_at_sym "M" rest in
      let '(mods, h2) := split_at_sym "H" rm in
      let '(setup1, _) := split_at_sym "M" r1 in
      let c0 := if sym_is proto "ipfix" then cache_after_ipfix empty_ccache setup1 else cache_after_nf9 empty_ccache setup1 in
      let c1 := get_cache (dump_doc c0) in
      let c2 := if sym_is proto "ipfix" then cache_after_ipfix c1 mods else cache_after_nf9 c1 mods in
      let c := get_cache (dump_doc c2) in
      s2l "T:" ++ cache_digest c ++ s2l " | " ++ run_hist proto c h2
    else if sym_is mode "FULL" then
      let c0 := if sym_is proto "ipfix" then cache_after_ipfix empty_ccache setup else cache_after_nf9 empty_ccache setup in
      let c := get_cache (dump_doc c0) in
      s2l "T:" ++ cache_digest c ++ s2l " | " ++ run_hist proto c hist
    else s2l "PREFIXES allfresh=1"    (* every proper prefix is unparsable: get_cache None = the fresh cache *)
  | _ => s2l "BADARGS"
  end.

(* ---------- options (C17) ---------- *)
(* options D <field> <x val>... E <field> <x val>... F <field> <x val>... C <flag> <x val>...
   -> <field>=<x val>;... for every registered field, in registration order *)
Fixpoint str_of (l : bytes) : string :=
  match l with [] => EmptyString | c :: t => String (ascii_of_N (Z.to_N c)) (str_of t) end.
Fixpoint parse_kv (ts : list tok) : list (string * bytes) :=
  match ts with
  | TSym k :: TBytes v :: rest => (str_of k, v) :: parse_kv rest
  | _ => []
  end.
Definition kv_get (l : list (string * bytes)) (k : string) : option bytes :=
  match find (fun x => String.eqb k (fst x)) l with Some x => Some (snd x) | None => None end.
Definition cmd_options (args : list tok) : bytes :=
  let '(_, r0) := split_at_sym "D" args in
  let '(d, r1) := split_at_sym "E" r0 in
  let '(e, r2) := split_at_sym "F" r1 in
  let '(f, c) := split_at_sym "C" r2 in
  let dl := parse_kv d in
  let s := {| src_default := fun k => match kv_get dl k with Some v => v | None => [] end;
              src_env := kv_get (parse_kv e); src_file := kv_get (parse_kv f); src_cli := kv_get (parse_kv c) |} in
  let final := eval Gen.Options.stages s in
  intercalate (s2l ";") (map (fun p => s2l (snd p) ++ s2l "=" ++ show_bytes (final (snd p))) (reg_pairs Gen.Options.stages)).

(* ---------- worker pipelines (C12, C13) ---------- *)
(* what the worker of each protocol does with ONE datagram, sequentially: (cache', published payload?, counted as decoded?) *)
Definition worker_ipfix (c : ccache) (addr p : bytes) : ccache * option bytes * bool :=
  match g_ipfix_decode cc_ops c addr p with
  | Ok (c', DMsg m _) => (c', match i_sets m with [] => None | _ => Some (g_ipfix_marshal m) end, true)
  | Ok (c', DFail) => (c', None, false)
  | _ => (c, None, false)
  end.
Definition worker_nf9 (c : ccache) (addr p : bytes) : ccache * option bytes * bool :=
  match g_nf9_decode cc_ops c addr p with
  | Ok (c', DMsg m _) => (c', match n9_sets m with [] => None | _ => Some (g_nf9_marshal m) end, true)
  | Ok (c', DFail) => (c', None, false)
  | _ => (c, None, false)
  end.
Definition worker_nf5 (addr p : bytes) : option bytes * bool :=
  match g_nf5_decode addr p with
  | Ok (m, _) => (match n5_flows m with [] => None | _ => Some (g_nf5_marshal m) end, true)
  | _ => (None, false)
  end.
(* sFlow: counted as decoded when SFDecode returns without error *)
Definition worker_sflow (filter : list Z) (p : bytes) : option bytes * bool :=
  match g_sf_decode filter p with
  | Ok (ok, Some j) => (Some (render j), ok)
  | Ok (ok, None) => (None, ok)
  | _ => (None, false)
  end.

Definition show_pub (x : option bytes * bool) : bytes :=
  (match fst x with Some b => show_bytes b | None => s2l "-" end) ++ (if snd x then s2l "/D1" else s2l "/D0").

Fixpoint pipe_flow (ipfix : bool) (c : ccache) (args : list tok) : list bytes :=
  match args with
  | TBytes a :: TBytes p :: rest =>
      let '(c', pub, dec) := if ipfix then worker_ipfix c a p else worker_nf9 c a p in
      show_pub (pub, dec) :: pipe_flow ipfix c' rest
  | _ => []
  end.
Fixpoint pipe_stateless (f : bytes -> bytes -> option bytes * bool) (args : list tok) : list bytes :=
  match args with
  | TBytes a :: TBytes p :: rest => show_pub (f a p) :: pipe_stateless f rest
  | _ => []
  end.
Fixpoint ints_of (ts : list tok) : list Z := match ts with TInt z :: r => z :: ints_of r | _ => [] end.

(* pipe <proto> F <filter ints> P <pre pairs> G <datagram pairs>
   -> per datagram of G, in order: x<published payload> or -, then /D1 (counted as decoded) or /D0 *)
Definition cmd_pipe (args : list tok) : bytes :=
  match args with
  | proto :: rest =>
    let '(_, r0) := split_at_sym "F" rest in
    let '(fl, r1) := split_at_sym "P" r0 in
    let '(pre, g) := split_at_sym "G" r1 in
    intercalate sp
      (if sym_is proto "ipfix" then pipe_flow true (cache_after_ipfix empty_ccache pre) g
       else if sym_is proto "nf9" then pipe_flow false (cache_after_nf9 empty_ccache pre) g
       else if sym_is proto "nf5" then pipe_stateless worker_nf5 g
       else pipe_stateless (fun _ p => worker_sflow (ints_of fl) p) g)
  | _ => s2l "BADARGS"
  end.

(* ---------- mirror (C16) ---------- *)
(* mirror <ipfix|sflow> <max> <dst> <port> (<src> <payload>)*  ->  per datagram x<packet> | ERR | PANIC *)
Fixpoint mirror_seq (max sport : Z) (dst : bytes) (port : Z) (args : list tok) : list bytes :=
  match args with
  | TBytes src :: TBytes p :: rest =>
      (match mirror_packet max sport src dst port p with
       | Ok pk => show_bytes pk | Err _ => s2l "ERR" | Panic => s2l "PANIC" | Hang => s2l "HANG" end)
      :: mirror_seq max sport dst port rest
  | _ => []
  end.
Definition cmd_mirror (args : list tok) : bytes :=
  match args with
  | proto :: TInt max :: TBytes dst :: TInt port :: rest =>
      intercalate sp (mirror_seq max (if sym_is proto "ipfix" then ipfix_mirror_sport else sflow_mirror_sport) dst port rest)
  | _ => s2l "BADARGS"
  end.

(* ---------- producer (C14) ---------- *)
(* producer <proto> <retry> <gap> F ... M <msg>...  -> the lines the sink receives when nothing fails *)
Fixpoint bytes_of_toks (ts : list tok) : list bytes := match ts with TBytes b :: r => b :: bytes_of_toks r | _ :: r => bytes_of_toks r | [] => [] end.
Definition cmd_producer (args : list tok) : bytes :=
  let '(_, ms) := split_at_sym "M" args in
  s2l "LINES " ++ intercalate sp (map show_bytes (fst (send_all 2 (bytes_of_toks ms) []))).

Definition dispatch (cmd : bytes) (args : list tok) : bytes :=
  if list_eqb cmd (s2l "reader") then cmd_reader args
  else if list_eqb cmd (s2l "infomodel") then cmd_infomodel args
  else if list_eqb cmd (s2l "nf5") then cmd_nf5 args
  else if list_eqb cmd (s2l "ipfixh") then cmd_ipfixh args
  else if list_eqb cmd (s2l "ipfixh-abs") then cmd_ipfixh_abs args
  else if list_eqb cmd (s2l "nf9h") then cmd_nf9h args
  else if list_eqb cmd (s2l "sflow") then cmd_sflow args
  else if list_eqb cmd (s2l "cachedoc") then cmd_cachedoc args
  else if list_eqb cmd (s2l "cachert") then cmd_cachert args
  else if list_eqb cmd (s2l "cachebytes") then s2l "SKIP"
  else if list_eqb cmd (s2l "options") then cmd_options args
  else if list_eqb cmd (s2l "pipe") then cmd_pipe args
  else if list_eqb cmd (s2l "mirror") then cmd_mirror args
  else if list_eqb cmd (s2l "producer") then cmd_producer args
  else if list_eqb cmd (s2l "pstall") then s2l "SKIP"
  else if list_eqb cmd (s2l "nf9h-abs") then cmd_nf9h_abs args
  else s2l "UNKNOWN-COMMAND".
