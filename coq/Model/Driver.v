(* Command dispatcher for the extracted model: one input line (already tokenised by the OCaml
   driver) -> one output line.  All canonical printing is done here, in Coq, so that the OCaml
   side is a trivial read/print loop. *)
From VF Require Import Base.Prelude Model.Reader Model.InfoModelDefs.
From VF Require Import Base.IPText Model.Layout Model.JsonPieces Model.Nf5.
From VF Require Gen.InfoModel Gen.Layouts Gen.JsonPieces.

Inductive tok := TBytes (b : bytes) | TInt (z : Z) | TSym (s : bytes).

Definition sym_is (t : tok) (s : string) : bool :=
  match t with TSym l => list_eqb l (s2l s) | _ => false end.

Definition sp : bytes := [32].
Definition show_bytes (b : bytes) : bytes := 120 :: show_hex b.   (* x<hex> *)

(* ---------- reader (C19) ---------- *)
(* ops: u8 u16 u32 u64 len cnt pu16, `r <int>`, `p <int>` *)
Fixpoint parse_rops (ts : list tok) : list rop :=
  match ts with
  | [] => []
  | t :: rest =>
    if sym_is t "u8" then OU8 :: parse_rops rest
    else if sym_is t "u16" then OU16 :: parse_rops rest
    else if sym_is t "u32" then OU32 :: parse_rops rest
    else if sym_is t "u64" then OU64 :: parse_rops rest
    else if sym_is t "len" then OLen :: parse_rops rest
    else if sym_is t "cnt" then OCount :: parse_rops rest
    else if sym_is t "pu16" then OPeekU16 :: parse_rops rest
    else if sym_is t "r" then
      match rest with TInt n :: rest' => ORead n :: parse_rops rest' | _ => [] end
    else if sym_is t "p" then
      match rest with TInt n :: rest' => OPeek n :: parse_rops rest' | _ => [] end
    else parse_rops rest
  end.

Definition show_rres (x : rres * Z * Z) : bytes :=
  let '(res, l, c) := x in
  (match res with
   | RVal v => show_Z v
   | RBytes b => show_bytes b
   | RFail => s2l "E"
   end) ++ s2l "/" ++ show_Z l ++ s2l "/" ++ show_Z c.

Definition cmd_reader (args : list tok) : bytes :=
  match args with
  | TBytes b :: ops =>
      intercalate sp (map show_rres (snd (run (new_reader b) (parse_rops ops))))
  | _ => s2l "BADARGS"
  end.

(* ---------- information model (C20) ---------- *)
Definition show_entry (x : (Z * Z) * entry) : bytes :=
  let '((pen, id), (fid, name, ty)) := x in
  show_Z pen ++ s2l ":" ++ show_Z id ++ s2l ":" ++ show_Z fid ++ s2l ":" ++ s2l name ++ s2l ":" ++ show_Z ty.
Definition show_model (m : model) : bytes := intercalate (s2l ";") (map show_entry m).

Definition cmd_infomodel (args : list tok) : bytes :=
  match args with
  | t :: _ =>
    if sym_is t "builtin" then
      show_model (builtin_model Gen.InfoModel.type_consts Gen.InfoModel.field_types Gen.InfoModel.builtin)
    else if sym_is t "shipped" then
      show_model (load_ext Gen.InfoModel.field_types Gen.InfoModel.shipped)
    else s2l "BADARGS"
  | _ => s2l "BADARGS"
  end.

(* ---------- NetFlow v5 (C08) ---------- *)
Definition show_named (fs : list (string * Z)) : bytes :=
  intercalate (s2l ",") (map (fun x => s2l (fst x) ++ s2l "=" ++ show_Z (snd x)) fs).

Definition g_nf5_decode := nf5_decode Gen.Layouts.nf5_header_layout Gen.Layouts.nf5_flow_layout.
Definition g_nf5_marshal := nf5_marshal Gen.JsonPieces.nf5_agent_pieces Gen.JsonPieces.nf5_header_pieces Gen.JsonPieces.nf5_flow_pieces.

(* nf5 <addr> <payload>  ->  ERR | PANIC | HANG | OK clean=<b> H:<fields> F:<n> <flow>|<flow> J:<json or -> *)
Definition cmd_nf5 (args : list tok) : bytes :=
  match args with
  | TBytes addr :: TBytes p :: _ =>
    match g_nf5_decode addr p with
    | Err _ => s2l "ERR"
    | Panic => s2l "PANIC"
    | Hang => s2l "HANG"
    | Ok (m, clean) =>
        s2l "OK clean=" ++ (if clean then s2l "1" else s2l "0") ++ s2l " H:" ++ show_named (n5_header m)
        ++ s2l " F:" ++ show_Z (len (n5_flows m)) ++ sp ++ intercalate (s2l "|") (map show_named (n5_flows m))
        ++ s2l " J:" ++ (match n5_flows m with [] => s2l "-" | _ => g_nf5_marshal m end)
    end
  | _ => s2l "BADARGS"
  end.

Definition dispatch (cmd : bytes) (args : list tok) : bytes :=
  if list_eqb cmd (s2l "reader") then cmd_reader args
  else if list_eqb cmd (s2l "infomodel") then cmd_infomodel args
  else if list_eqb cmd (s2l "nf5") then cmd_nf5 args
  else s2l "UNKNOWN-COMMAND".
