(* Model of ipfix/marshal.go and netflow/v9/marshal.go (JSONMarshal, encodeDataSet, writeValue). *)
From VF Require Import Base.Prelude Base.IPText Base.Utf8 Base.Json Model.JsonPieces Model.Flow.

(* writeString: Base.Json.json_string (range over the runes; quote, backslash and control characters escaped) *)

(* strconv.FormatFloat(f, 'E', -1, bits) is not modelled: the model emits a placeholder naming the
   IEEE bit pattern, which the checker replaces by Go's own formatting of those bits.  Non-finite
   values (exponent all ones) are written quoted. *)
Definition float_tok (width bits : Z) : bytes :=
  let nonfinite := if width =? 32 then (bits / 8388608) mod 256 =? 255 else (bits / 4503599627370496) mod 2048 =? 2047 in
  let t := s2l "@F" ++ show_Z width ++ s2l ":" ++ show_Z bits ++ s2l "@" in
  if nonfinite then 34 :: t ++ [34] else t.

Definition quoted (b : bytes) : bytes := 34 :: b ++ [34].

(* writeValue: the type switch *)
Definition write_value (v : value) : bytes :=
  match v with
  | VBool b => if b then s2l "true" else s2l "false"
  | VU8 z | VU16 z | VU32 z | VU64 z | VI8 z | VI16 z | VI32 z | VI64 z => show_Z z
  | VF32 bits => float_tok 32 bits
  | VF64 bits => float_tok 64 bits
  | VStr s => json_string s
  | VIP a => quoted (ip_string a)
  | VMac a => quoted (mac_string a)
  | VBytes b => quoted (s2l "0x" ++ show_hex b)
  end.

(* encodeDataSet; with_pen = the IPFIX variant that writes the E member (enterprise no) when non-zero *)
Definition encode_field (with_pen : bool) (f : dfield) : bytes :=
  s2l "{""I"":" ++ show_Z (d_id f) ++ s2l ",""V"":" ++ write_value (d_val f)
  ++ (if with_pen && negb (d_pen f =? 0) then s2l ",""E"":" ++ show_Z (d_pen f) else [])
  ++ s2l "}".
Definition encode_record (with_pen : bool) (r : record) : bytes :=
  s2l "[" ++ intercalate (s2l ",") (map (encode_field with_pen) r) ++ s2l "]".
Definition encode_datasets (with_pen : bool) (ds : list record) : bytes :=
  s2l """DataSets"":[" ++ intercalate (s2l ",") (map (encode_record with_pen) ds) ++ s2l "]".

Definition flow_marshal (with_pen : bool) (apieces hpieces : list piece)
           (agent : bytes) (header : list (string * Z)) (ds : list record) : bytes :=
  s2l "{" ++ eval_pieces [] [("AgentID"%string, ip_string agent)] apieces
  ++ eval_pieces header [] hpieces
  ++ encode_datasets with_pen ds ++ s2l "}".
