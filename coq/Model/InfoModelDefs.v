(* Types of the generated information-model tables (Gen/InfoModel.v, Pinned/InfoModel.v) and the
   model of how vflow turns them into its run-time InfoModel map. *)
From VF Require Import Base.Prelude.

(* how the Type field of a built-in entry is written in the Go source:
   FieldTypes["name"]  or a FieldType constant *)
Inductive type_expr := ByName (n : string) | ByConst (c : string).

Definition entry := (Z * string * Z)%type.          (* FieldID, Name, Type *)
Definition model := list ((Z * Z) * entry).          (* key = (enterprise no, element id) *)

Fixpoint assoc_str (k : string) (l : list (string * Z)) : option Z :=
  match l with
  | [] => None
  | (k', v) :: t => if String.eqb k k' then Some v else assoc_str k t
  end.

(* Go: m[k] on a missing key yields the zero value *)
Definition go_map_get (k : string) (l : list (string * Z)) : Z :=
  match assoc_str k l with Some v => v | None => 0 end.

Section Tables.
  Variable type_consts field_types : list (string * Z).

  Definition resolve_type (te : type_expr) : Z :=
    match te with
    | ByName n => go_map_get n field_types       (* FieldTypes["n"] *)
    | ByConst c => go_map_get c type_consts
    end.

  (* the built-in map literal as evaluated by Go *)
  Definition builtin_model (b : list (Z * Z * (Z * string * type_expr))) : model :=
    map (fun x => let '(pen, id, (fid, name, te)) := x in ((pen, id), (fid, name, resolve_type te))) b.

  (* LoadExtElements: entries with fewer than two properties are dropped;
     FieldID := element id, Name := prop[0], Type := FieldTypes[prop[1]] *)
  Definition load_ext (s : list (Z * Z * list string)) : model :=
    flat_map (fun x => let '(pen, id, props) := x in
                match props with
                | n :: t :: _ => [((pen, id), (id, n, go_map_get t field_types))]
                | _ => []
                end) s.
End Tables.

Definition key_eqb (a b : Z * Z) : bool := (fst a =? fst b) && (snd a =? snd b).

Fixpoint lookup (m : model) (k : Z * Z) : option entry :=
  match m with
  | [] => None
  | (k', e) :: t => if key_eqb k k' then Some e else lookup t k
  end.

(* names a type may carry: the decoder's FieldTypes plus the three RFC 6313 structured types that
   both tables deliberately map to Unknown (passed through as raw octets) *)
Definition structured_types : list string := ["basicList"; "subTemplateList"; "subTemplateMultiList"]%string.

Definition str_in (s : string) (l : list string) : bool := existsb (String.eqb s) l.
