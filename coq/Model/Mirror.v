(* Model of vflow/ipfix_unix.go mirrorIPFIX / vflow/sflow_unix.go mirrorSFlow (IPv4 target) with
   mirror/{ipv4,udp}.go: the packet handed to the raw socket for one received datagram. *)
From VF Require Import Base.Prelude Base.IPText.

(* net.IP.To4(): 4-byte form of an IPv4 address given in 4-byte or IPv4-mapped 16-byte form *)
Definition to4 (a : bytes) : option bytes :=
  if Nat.eqb (length a) 4 then Some a
  else if Nat.eqb (length a) 16 && is_v4mapped a then Some (skipn 12 a)
  else None.

(* mirror.UDP{55117, port, 0, 0} in mirrorIPFIX, SrcPort: 55118 in mirrorSFlow *)
Definition ipfix_mirror_sport : Z := 55117.
Definition sflow_mirror_sport : Z := 55118.

(* NewIPv4HeaderTpl(UDPProto).Marshal(), SetAddrs, SetLen(pLen+8); UDP{55117, port}.Marshal(), SetLen(pLen) *)
Definition ip_header (src4 dst4 : bytes) (plen : Z) : bytes :=
  [69; 0] ++ enc 2 (20 + (plen + 8)) ++ [0; 0; 0; 0; 64; 17; 0; 0] ++ src4 ++ dst4.
Definition udp_header (sport port plen : Z) : bytes :=
  enc 2 sport ++ enc 2 port ++ enc 2 (8 + plen) ++ [0; 0].

(* max = the configured maximum UDP size (the pool's buffer size); the packet buffer has room for the
   headers on top of it, so every payload of up to max octets fits *)
Definition mirror_packet (max sport : Z) (src dst : bytes) (port : Z) (payload : bytes) : outcome bytes :=
  match to4 src, to4 dst with
  | Some s, Some d =>
      if max <? len payload then Panic      (* a pooled buffer never holds more than max octets *)
      else Ok (ip_header s d (len payload) ++ udp_header sport port (len payload) ++ payload)
  | _, _ => Err EInvalid
  end.

(* reading the fields back *)
Definition pk_total_len (p : bytes) : Z := be (firstn 2 (skipn 2 p)).
Definition pk_src (p : bytes) : bytes := firstn 4 (skipn 12 p).
Definition pk_dst (p : bytes) : bytes := firstn 4 (skipn 16 p).
Definition pk_proto (p : bytes) : Z := nth 9 p 0.
Definition pk_sport (p : bytes) : Z := be (firstn 2 (skipn 20 p)).
Definition pk_dport (p : bytes) : Z := be (firstn 2 (skipn 22 p)).
Definition pk_udp_len (p : bytes) : Z := be (firstn 2 (skipn 24 p)).
Definition pk_payload (p : bytes) : bytes := skipn 28 p.
