(* Templates fetched from a peer collector (ipfix/memcache_rpc.go): when a data set's template is unknown the decoder posts a
   request (template id, exporter address); the RPC loop asks a peer, whose server answers with what ITS cache holds under
   exactly that (id, address) (IRPC.Get = retrieve), and the answer is inserted into the local cache under the REQUESTING
   (id, address).  The transport (net/rpc, gob) is trusted to deliver the record the server answered with; that each answer is
   decoded into a fresh record is an obligation over the regenerated Gen/Rpc.v, and the correspondence run fetches over a real
   localhost connection and compares with the peer's own lookup. *)
From VF Require Import Base.Prelude Model.Flow Model.Cache.

Definition peer_fetch (local peer : ccache) (id : Z) (addr : bytes) : outcome ccache :=
  match cc_retrieve peer id addr with
  | Ok (Some t) => cc_insert local id addr t
  | Ok None => Ok local                      (* errNotAvail: nothing is inserted *)
  | Err e => Err e | Panic => Panic | Hang => Hang
  end.

(* what net/rpc's gob decoder does with an answer: fields and slice elements that are zero are NOT transmitted and keep what the
   destination held; decoding into a zero record therefore yields the answer, decoding into a used one a mixture.  The abstract
   record here: a list of optional fields, None = zero value *)
Definition gob_decode_into {A} (dst answer : list (option A)) : list (option A) :=
  map (fun p => match snd p with Some v => Some v | None => fst p end) (combine dst answer).
