(* Specification side for sFlow: the structure layouts written from the sFlow version 5 specification
   (sflow.org/sflow_version_5.txt: struct flow_sample, counters_sample, extended_switch, if_counters,
   ethernet_counters, tokenring_counters, vg_counters, vlan_counters, processor), NOT from the Go code.
   An item is (member name as the JSON document calls it, width); "" = octets carried but not decoded. *)
From VF Require Import Base.Prelude Model.Layout.
Local Open Scope string_scope.

(* struct flow_sample: sequence_number, source_id (type octet + 24-bit index), sampling_rate, sample_pool,
   drops, input, output, then the record count *)
Definition flow_sample : layout :=
  [("SequenceNo", 4); ("SourceID", 1); ("", 3); ("SamplingRate", 4); ("SamplePool", 4); ("Drops", 4);
   ("Input", 4); ("Output", 4); ("RecordsNo", 4)].

(* struct counters_sample: sequence_number, source_id (type octet, 24-bit index), record count *)
Definition counter_sample : layout :=
  [("SequenceNo", 4); ("SourceIDType", 1); ("SourceIDIdx", 3); ("RecordsNo", 4)].

(* struct extended_switch: src_vlan, src_priority, dst_vlan, dst_priority *)
Definition ext_switch : layout := [("SrcVlan", 4); ("SrcPriority", 4); ("DstVlan", 4); ("DstPriority", 4)].

(* struct if_counters *)
Definition generic : layout :=
  [("Index", 4); ("Type", 4); ("Speed", 8); ("Direction", 4); ("Status", 4); ("InOctets", 8);
   ("InUnicastPackets", 4); ("InMulticastPackets", 4); ("InBroadcastPackets", 4); ("InDiscards", 4);
   ("InErrors", 4); ("InUnknownProtocols", 4); ("OutOctets", 8); ("OutUnicastPackets", 4);
   ("OutMulticastPackets", 4); ("OutBroadcastPackets", 4); ("OutDiscards", 4); ("OutErrors", 4);
   ("PromiscuousMode", 4)].

(* struct ethernet_counters *)
Definition ethernet : layout :=
  map (fun n => (n, 4)) ["AlignmentErrors"; "FCSErrors"; "SingleCollisionFrames"; "MultipleCollisionFrames";
    "SQETestErrors"; "DeferredTransmissions"; "LateCollisions"; "ExcessiveCollisions";
    "InternalMACTransmitErrors"; "CarrierSenseErrors"; "FrameTooLongs"; "InternalMACReceiveErrors"; "SymbolErrors"].

(* struct tokenring_counters *)
Definition tokenring : layout :=
  map (fun n => (n, 4)) ["LineErrors"; "BurstErrors"; "ACErrors"; "AbortTransErrors"; "InternalErrors";
    "LostFrameErrors"; "ReceiveCongestions"; "FrameCopiedErrors"; "TokenErrors"; "SoftErrors"; "HardErrors";
    "SignalLoss"; "TransmitBeacons"; "Recoverys"; "LobeWires"; "Removes"; "Singles"; "FreqErrors"].

(* struct vg_counters *)
Definition vg : layout :=
  [("InHighPriorityFrames", 4); ("InHighPriorityOctets", 8); ("InNormPriorityFrames", 4); ("InNormPriorityOctets", 8);
   ("InIPMErrors", 4); ("InOversizeFrameErrors", 4); ("InDataErrors", 4); ("InNullAddressedFrames", 4);
   ("OutHighPriorityFrames", 4); ("OutHighPriorityOctets", 8); ("TransitionIntoTrainings", 4);
   ("HCInHighPriorityOctets", 8); ("HCInNormPriorityOctets", 8); ("HCOutHighPriorityOctets", 8)].

(* struct vlan_counters *)
Definition vlan : layout :=
  [("ID", 4); ("Octets", 8); ("UnicastPackets", 4); ("MulticastPackets", 4); ("BroadcastPackets", 4); ("Discards", 4)].

(* struct processor *)
Definition processor : layout := [("CPU5s", 4); ("CPU1m", 4); ("CPU5m", 4); ("TotalMemory", 8); ("FreeMemory", 8)].

(* the members of the decoded structure, in the order the document lists them *)
Definition members (L : layout) : list string := filter (fun n => negb (String.eqb n "")) (map fst L).
