(* Specification side of C05: the JSON grammar of RFC 8259 as a relation between a text (octets, UTF-8) and the
   value it denotes.  Only the compact forms are listed (no insignificant whitespace, no exponent/fraction form
   for integers, of the two-character escapes only backslash-quote and backslash-backslash): every text derivable here is a JSON text of the
   RFC, and the value it is related to is the value the RFC assigns to it.
   Strings denote their sequence of Unicode code points; integers denote themselves; a floating-point token
   (written by strconv.FormatFloat, which is not modelled) denotes itself as an opaque number token. *)
From VF Require Import Base.Prelude Base.Utf8.

Inductive jval :=
| VNull | VTrue | VFalse
| VInt (z : Z)
| VFloatTok (t : bytes)
| VString (cps : list Z)
| VArray (l : list jval)
| VObject (l : list (list Z * jval)).

(* ---- numbers: int = zero / ( digit1-9 *DIGIT ), with optional minus ---- *)
Definition is_digit (c : Z) : Prop := 48 <= c <= 57.
Fixpoint dval (l : bytes) (acc : Z) : Z :=
  match l with [] => acc | c :: t => dval t (10 * acc + (c - 48)) end.
Inductive Gnat : bytes -> Z -> Prop :=
| Gnat_zero : Gnat [48] 0
| Gnat_pos c t : 49 <= c <= 57 -> Forall is_digit t -> Gnat (c :: t) (dval (c :: t) 0).
Inductive Gint : bytes -> Z -> Prop :=
| Gint_pos s v : Gnat s v -> Gint s v
| Gint_neg s v : Gnat s v -> Gint (45 :: s) (- v).

(* ---- strings: char = unescaped / escaped quote / escaped backslash / \uXXXX ;  unescaped = %x20-21 / %x23-5B / %x5D-10FFFF, UTF-8 ---- *)
Definition hexval (c : Z) : option Z :=
  if (48 <=? c) && (c <=? 57) then Some (c - 48)
  else if (97 <=? c) && (c <=? 102) then Some (c - 87)
  else if (65 <=? c) && (c <=? 70) then Some (c - 55)
  else None.
Inductive Gchars : bytes -> list Z -> Prop :=
| GC_nil : Gchars [] []
| GC_plain r t cs : is_scalar r = true -> 32 <= r -> r <> 34 -> r <> 92 -> Gchars t cs -> Gchars (utf8_enc r ++ t) (r :: cs)
| GC_esc r t cs : r = 34 \/ r = 92 -> Gchars t cs -> Gchars (92 :: r :: t) (r :: cs)
| GC_u h1 h2 h3 h4 v1 v2 v3 v4 t cs :
    hexval h1 = Some v1 -> hexval h2 = Some v2 -> hexval h3 = Some v3 -> hexval h4 = Some v4 ->
    is_scalar (v1 * 4096 + v2 * 256 + v3 * 16 + v4) = true ->       (* not half of a surrogate pair *)
    Gchars t cs -> Gchars (92 :: 117 :: h1 :: h2 :: h3 :: h4 :: t) ((v1 * 4096 + v2 * 256 + v3 * 16 + v4) :: cs).
Definition Gstring (s : bytes) (cps : list Z) : Prop := exists t, s = 34 :: t ++ [34] /\ Gchars t cps.

(* ---- what strconv.FormatFloat(f, 'E', -1, bits) writes for a finite f: [-]d[.ddd]E(+|-)dd.  The model of the
        encoders emits a placeholder naming the IEEE bit pattern instead (@F32:<bits>@); the correspondence check
        substitutes Go's own formatting of those bits and parses it.  TRUSTED: FormatFloat's output is a JSON
        number. ---- *)
Definition float_token (t : bytes) : Prop :=
  exists w b, t = s2l "@F" ++ show_Z w ++ s2l ":" ++ show_Z b ++ s2l "@".

(* ---- values ---- *)
Inductive Gjson : bytes -> jval -> Prop :=
| G_null : Gjson (s2l "null") VNull
| G_true : Gjson (s2l "true") VTrue
| G_false : Gjson (s2l "false") VFalse
| G_int s z : Gint s z -> Gjson s (VInt z)
| G_float t : float_token t -> Gjson t (VFloatTok t)
| G_str s cps : Gstring s cps -> Gjson s (VString cps)
| G_arr ss vs : Forall2 Gjson ss vs -> Gjson ([91] ++ intercalate [44] ss ++ [93]) (VArray vs)
| G_obj ms kvs :
    Forall2 (fun m kv => exists ks vs, m = ks ++ [58] ++ vs /\ Gstring ks (fst kv) /\ Gjson vs (snd kv)) ms kvs ->
    Gjson ([123] ++ intercalate [44] ms ++ [125]) (VObject kvs).
