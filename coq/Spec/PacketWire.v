(* Specification side for the sampled packet header breakdown (C07): how Ethernet II (optionally 802.1Q tagged),
   IPv4 (RFC 791, with options), IPv6 (RFC 8200), TCP (RFC 9293), UDP (RFC 768) and ICMP (RFC 792 / 4443) headers are
   laid out on the wire given their fields, and the document members the property demands for them. *)
From VF Require Import Base.Prelude Base.IPText Base.Json.
Local Open Scope string_scope.
Local Open Scope list_scope.
Local Open Scope Z_scope.

Record eth_hdr := { eth_dst : bytes; eth_src : bytes; eth_vlan : option Z; eth_type : Z }.
Definition enc_eth (h : eth_hdr) : bytes :=
  eth_dst h ++ eth_src h ++ (match eth_vlan h with Some v => enc 2 33024 ++ enc 2 v | None => [] end) ++ enc 2 (eth_type h).
Definition eth_ok (h : eth_hdr) : Prop :=
  length (eth_dst h) = 6%nat /\ length (eth_src h) = 6%nat /\ 0 <= eth_type h < 65536 /\ eth_type h <> 33024 /\
  match eth_vlan h with Some v => 0 <= v < 65536 | None => True end.
Definition eth_json (h : eth_hdr) : jv :=
  JObj [("SrcMAC", JStr (mac_string (eth_src h))); ("DstMAC", JStr (mac_string (eth_dst h)));
        ("Vlan", JNum (match eth_vlan h with Some v => v | None => 0 end)); ("EtherType", JNum (eth_type h))].

Record ip4_hdr := { i4_ihl : Z; i4_tos : Z; i4_totlen : Z; i4_id : Z; i4_flags : Z; i4_fragoff : Z; i4_ttl : Z; i4_proto : Z;
                    i4_csum : Z; i4_src : bytes; i4_dst : bytes; i4_options : bytes }.
Definition enc_ip4 (h : ip4_hdr) : bytes :=
  [64 + i4_ihl h; i4_tos h] ++ enc 2 (i4_totlen h) ++ enc 2 (i4_id h)
  ++ [i4_flags h * 32 + i4_fragoff h / 256; i4_fragoff h mod 256; i4_ttl h; i4_proto h] ++ enc 2 (i4_csum h)
  ++ i4_src h ++ i4_dst h ++ i4_options h.
Definition ip4_ok (h : ip4_hdr) : Prop :=
  5 <= i4_ihl h < 16 /\ len (i4_options h) = 4 * (i4_ihl h - 5) /\ 0 <= i4_tos h < 256 /\ 0 <= i4_totlen h < 65536 /\
  0 <= i4_id h < 65536 /\ 0 <= i4_flags h < 8 /\ 0 <= i4_fragoff h < 8192 /\ 0 <= i4_ttl h < 256 /\ 0 <= i4_proto h < 256 /\
  0 <= i4_csum h < 65536 /\ length (i4_src h) = 4%nat /\ length (i4_dst h) = 4%nat.
Definition ip4_json (h : ip4_hdr) : jv :=
  JObj [("Version", JNum 4); ("TOS", JNum (i4_tos h)); ("TotalLen", JNum (i4_totlen h)); ("ID", JNum (i4_id h));
        ("Flags", JNum (i4_flags h)); ("FragOff", JNum (i4_fragoff h)); ("TTL", JNum (i4_ttl h)); ("Protocol", JNum (i4_proto h));
        ("Checksum", JNum (i4_csum h)); ("Src", JStr (ip_string (i4_src h))); ("Dst", JStr (ip_string (i4_dst h)))].

Record ip6_hdr := { i6_tc : Z; i6_flow : Z; i6_plen : Z; i6_next : Z; i6_hop : Z; i6_src : bytes; i6_dst : bytes }.
Definition enc_ip6 (h : ip6_hdr) : bytes :=
  [96 + i6_tc h / 16; (i6_tc h mod 16) * 16 + i6_flow h / 65536; (i6_flow h / 256) mod 256; i6_flow h mod 256]
  ++ enc 2 (i6_plen h) ++ [i6_next h; i6_hop h] ++ i6_src h ++ i6_dst h.
Definition ip6_ok (h : ip6_hdr) : Prop :=
  0 <= i6_tc h < 256 /\ 0 <= i6_flow h < 1048576 /\ 0 <= i6_plen h < 65536 /\ 0 <= i6_next h < 256 /\ 0 <= i6_hop h < 256 /\
  length (i6_src h) = 16%nat /\ length (i6_dst h) = 16%nat.
Definition ip6_json (h : ip6_hdr) : jv :=
  JObj [("Version", JNum 6); ("TrafficClass", JNum (i6_tc h)); ("FlowLabel", JNum (i6_flow h)); ("PayloadLen", JNum (i6_plen h));
        ("NextHeader", JNum (i6_next h)); ("HopLimit", JNum (i6_hop h));
        ("Src", JStr (ip_string (i6_src h))); ("Dst", JStr (ip_string (i6_dst h)))].

(* transport headers; the three reserved bits of TCP are zero (RFC 9293) *)
Inductive l4_hdr :=
| L4tcp (sport dport seq ack off flags win csum urg : Z)
| L4udp (sport dport ulen csum : Z)
| L4icmp (ty code csum : Z) (rest : bytes).     (* rest: everything sampled after the four fixed octets, at least one octet *)
Definition enc_l4 (h : l4_hdr) : bytes :=
  match h with
  | L4tcp sp dp sq ak off fl win cs ur =>
      enc 2 sp ++ enc 2 dp ++ enc 4 sq ++ enc 4 ak ++ [off * 16 + fl / 256; fl mod 256] ++ enc 2 win ++ enc 2 cs ++ enc 2 ur
  | L4udp sp dp ul cs => enc 2 sp ++ enc 2 dp ++ enc 2 ul ++ enc 2 cs
  | L4icmp ty code cs rest => [ty; code] ++ enc 2 cs ++ rest
  end.
Definition l4_ok (h : l4_hdr) : Prop :=
  match h with
  | L4tcp sp dp sq ak off fl win cs ur =>
      0 <= sp < 65536 /\ 0 <= dp < 65536 /\ 0 <= sq < 2 ^ 32 /\ 0 <= ak < 2 ^ 32 /\ 0 <= off < 16 /\ 0 <= fl < 512 /\
      0 <= win < 65536 /\ 0 <= cs < 65536 /\ 0 <= ur < 65536
  | L4udp sp dp ul cs => 0 <= sp < 65536 /\ 0 <= dp < 65536 /\ 0 <= ul < 65536 /\ 0 <= cs < 65536
  | L4icmp ty code cs rest => 0 <= ty < 256 /\ 0 <= code < 256 /\ 0 <= cs < 65536 /\ rest <> []
  end.
(* IP protocol numbers: TCP 6, UDP 17, ICMP 1 (over IPv4) / 58 (over IPv6) *)
Definition l4_proto_ok (proto : Z) (h : l4_hdr) : Prop :=
  match h with L4tcp _ _ _ _ _ _ _ _ _ => proto = 6 | L4udp _ _ _ _ => proto = 17 | L4icmp _ _ _ _ => proto = 1 \/ proto = 58 end.
Definition l4_json (h : l4_hdr) (trailing : bytes) : jv :=
  match h with
  | L4tcp sp dp _ _ off fl _ _ _ =>
      JObj [("SrcPort", JNum sp); ("DstPort", JNum dp); ("DataOffset", JNum off); ("Reserved", JNum 0); ("Flags", JNum fl)]
  | L4udp sp dp _ _ => JObj [("SrcPort", JNum sp); ("DstPort", JNum dp)]
  | L4icmp ty code _ rest => JObj [("Type", JNum ty); ("Code", JNum code); ("RestHeader", JStr (base64 (rest ++ trailing)))]
  end.
