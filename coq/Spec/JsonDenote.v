(* Specification side of C05: the JSON value a decoded message must be published as. *)
From VF Require Import Base.Prelude Base.IPText Base.Utf8 Spec.JsonGrammar Model.JsonPieces Model.Flow Model.MarshalFlow.

Definition key (s : string) : list Z := s2l s.      (* an ASCII member name, as code points *)

(* id numbers and integer values exact; addresses in Go's canonical text form; text as the runes of the octets;
   octet arrays as 0x-hex; a finite float as the number token of its bit pattern, a non-finite one as a string *)
Definition val_json (v : value) : jval :=
  match v with
  | VBool b => if b then VTrue else VFalse
  | VU8 z | VU16 z | VU32 z | VU64 z | VI8 z | VI16 z | VI32 z | VI64 z => VInt z
  | VF32 bits => let t := s2l "@F" ++ show_Z 32 ++ s2l ":" ++ show_Z bits ++ s2l "@" in
                 if (bits / 8388608) mod 256 =? 255 then VString t else VFloatTok t
  | VF64 bits => let t := s2l "@F" ++ show_Z 64 ++ s2l ":" ++ show_Z bits ++ s2l "@" in
                 if (bits / 4503599627370496) mod 2048 =? 2047 then VString t else VFloatTok t
  | VStr s => VString (go_runes s)
  | VIP a => VString (ip_string a)
  | VMac a => VString (mac_string a)
  | VBytes b => VString (s2l "0x" ++ show_hex b)
  end.

Definition field_json (with_pen : bool) (f : dfield) : jval :=
  VObject ([(key "I", VInt (d_id f)); (key "V", val_json (d_val f))]
           ++ (if with_pen && negb (d_pen f =? 0) then [(key "E", VInt (d_pen f))] else [])).

Definition datasets_json (with_pen : bool) (ds : list record) : jval :=
  VArray (map (fun r => VArray (map (field_json with_pen) r)) ds).

Definition header_json (names : list string) (header : list (string * Z)) : jval :=
  VObject (map (fun n => (key n, VInt (field_get n header))) names).

Definition flow_json (with_pen : bool) (names : list string) (agent : bytes) (header : list (string * Z)) (ds : list record) : jval :=
  VObject [(key "AgentID", VString (ip_string agent)); (key "Header", header_json names header);
           (key "DataSets", datasets_json with_pen ds)].

(* all octets are octets *)
Definition wf_value (v : value) : Prop :=
  match v with VStr s | VIP s | VMac s | VBytes s => wf_bytes s | _ => True end.
Definition wf_record (r : record) : Prop := Forall (fun f => wf_value (d_val f)) r.

(* NetFlow v5: header members, and per flow three dotted-quad addresses followed by seventeen integers *)
Definition nf5_header_names : list string :=
  ["Version"; "Count"; "SysUpTimeMSecs"; "UNIXSecs"; "UNIXNSecs"; "SeqNum"; "EngType"; "EngID"; "SmpInt"]%string.
Definition nf5_ip_names : list string := ["SrcAddr"; "DstAddr"; "NextHop"]%string.
Definition nf5_num_names : list string :=
  ["Input"; "Output"; "PktCount"; "L3Octets"; "StartTime"; "EndTime"; "SrcPort"; "DstPort"; "Padding1"; "TCPFlags";
   "ProtType"; "Tos"; "SrcAsNum"; "DstAsNum"; "SrcMask"; "DstMask"; "Padding2"]%string.
Definition nf5_flow_json (f : list (string * Z)) : jval :=
  VObject (map (fun n => (key n, VString (dotted (enc 4 (field_get n f))))) nf5_ip_names
           ++ map (fun n => (key n, VInt (field_get n f))) nf5_num_names).
Definition nf5_json (agent : bytes) (header : list (string * Z)) (flows : list (list (string * Z))) : jval :=
  VObject [(key "AgentID", VString (ip_string agent)); (key "Header", header_json nf5_header_names header);
           (key "Flows", VArray (map nf5_flow_json flows))].
