(* Specification side for IPFIX (RFC 7011) and NetFlow v9 (RFC 3954) data records: how a record is laid
   out on the wire given its template, and which decoded fields the property demands for it. *)
From VF Require Import Base.Prelude Model.Reader Model.Flow.

(* one field of a data record: its template field specifier, its content octets, and — for a variable
   length field — whether the 3-octet length prefix form is used (RFC 7011 section 7) *)
Record wfield := { w_spec : fspec; w_content : bytes; w_long : bool }.

Section Spec.
  Variable im : infomodel.

  (* RFC 7011 7: a field is variable-length when its template length is 65535 (only string and octetArray
     elements are treated so by the collector) *)
  Definition is_var (s : fspec) : bool :=
    match im (f_pen s) (f_id s) with
    | Some (_, ty) => ((ty =? T_String) || (ty =? T_OctetArray)) && (f_len s =? 65535)
    | None => false
    end.

  Definition enc_wfield (w : wfield) : bytes :=
    let c := w_content w in
    if is_var (w_spec w) then (if w_long w then 255 :: enc 2 (len c) ++ c else len c :: c) else c.

  Definition wfield_ok (w : wfield) : Prop :=
    (exists fid ty, im (f_pen (w_spec w)) (f_id (w_spec w)) = Some (fid, ty)) /\
    (if is_var (w_spec w)
     then (w_long w = false -> len (w_content w) < 255) /\ len (w_content w) < 65536
     else len (w_content w) = f_len (w_spec w)).

  (* the decoded field the property demands: element id, enterprise number, and the content interpreted by
     the element's abstract data type (raw octets when shorter than the type) *)
  Definition expected_field (w : wfield) : dfield :=
    match im (f_pen (w_spec w)) (f_id (w_spec w)) with
    | Some (fid, ty) =>
        {| d_id := fid; d_pen := f_pen (w_spec w);
           d_val := match interpret ty (w_content w) with Ok v => v | _ => VBytes (w_content w) end |}
    | None => {| d_id := 0; d_pen := 0; d_val := VBytes [] |}
    end.

  Definition enc_record (ws : list wfield) : bytes := flat_map enc_wfield ws.
  Definition expected_record (ws : list wfield) : record := map expected_field ws.
End Spec.
