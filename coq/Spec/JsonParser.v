(* A JSON parser for the compact forms of Spec/JsonGrammar.v, executable in Coq.  Proofs/JsonParserProofs.v shows that
   it accepts every text of the grammar and returns the value the grammar relates it to; since a function returns one
   value, the grammar is unambiguous: the value a published payload denotes is unique ("parsing it yields ..."). *)
From VF Require Import Base.Prelude Base.Utf8 Spec.JsonGrammar.

Definition digitb (c : Z) : bool := (48 <=? c) && (c <=? 57).

(* the maximal run of digits *)
Fixpoint take_digits (s : bytes) : bytes * bytes :=
  match s with
  | c :: t => if digitb c then let '(d, r) := take_digits t in (c :: d, r) else ([], s)
  | [] => ([], [])
  end.

(* int = zero / ( digit1-9 *DIGIT ) *)
Definition parse_nat (s : bytes) : option (Z * bytes) :=
  match s with
  | c :: t => if c =? 48 then Some (0, t)
              else if (49 <=? c) && (c <=? 57) then let '(d, r) := take_digits t in Some (dval (c :: d) 0, r)
              else None
  | [] => None
  end.
Definition parse_int (s : bytes) : option (Z * bytes) :=
  match s with
  | c :: t => if c =? 45 then match parse_nat t with Some (v, r) => Some (- v, r) | None => None end else parse_nat s
  | [] => None
  end.

(* the characters of a string up to and including the closing quote *)
Fixpoint parse_chars (fuel : nat) (s : bytes) : option (list Z * bytes) :=
  match fuel with
  | O => None
  | S k =>
    match s with
    | [] => None
    | c :: r =>
      if c =? 34 then Some ([], r)
      else if c =? 92 then
        match r with
        | [] => None
        | e :: r2 =>
          if (e =? 34) || (e =? 92) then match parse_chars k r2 with Some (cs, r') => Some (e :: cs, r') | None => None end
          else if e =? 117 then
            match r2 with
            | h1 :: h2 :: h3 :: h4 :: r3 =>
              match hexval h1, hexval h2, hexval h3, hexval h4 with
              | Some v1, Some v2, Some v3, Some v4 =>
                let v := v1 * 4096 + v2 * 256 + v3 * 16 + v4 in
                if is_scalar v then match parse_chars k r3 with Some (cs, r') => Some (v :: cs, r') | None => None end else None
              | _, _, _, _ => None
              end
            | _ => None
            end
          else None
        end
      else
        let '(r0, n) := decode_rune s in
        if (32 <=? r0) && is_scalar r0 && list_eqb (utf8_enc r0) (firstn n s)
        then match parse_chars k (skipn n s) with Some (cs, r') => Some (r0 :: cs, r') | None => None end
        else None
    end
  end.

(* up to (excluding) the first occurrence of c *)
Fixpoint scan_until (c : Z) (s : bytes) : option (bytes * bytes) :=
  match s with
  | [] => None
  | x :: t => if x =? c then Some ([], t) else match scan_until c t with Some (p, r) => Some (x :: p, r) | None => None end
  end.

Definition starts_with (lit s : bytes) : bool := list_eqb (firstn (length lit) s) lit.

(* the elements of a non-empty array after the opening bracket, given the parser for one value *)
Fixpoint parse_elems (pv : bytes -> option (jval * bytes)) (n : nat) (t : bytes) (acc : list jval) : option (jval * bytes) :=
  match n with
  | O => None
  | S n' => match pv t with
            | Some (v, d :: t') => if d =? 44 then parse_elems pv n' t' (acc ++ [v])
                                   else if d =? 93 then Some (VArray (acc ++ [v]), t') else None
            | _ => None
            end
  end.

(* the members of a non-empty object after the opening brace *)
Fixpoint parse_members (pv : bytes -> option (jval * bytes)) (n : nat) (t : bytes) (acc : list (list Z * jval)) : option (jval * bytes) :=
  match n with
  | O => None
  | S n' =>
    match t with
    | q :: t1 =>
      if q =? 34 then
        match parse_chars (S (length t1)) t1 with
        | Some (key, col :: t2) =>
          if col =? 58 then
            match pv t2 with
            | Some (v, d :: t') => if d =? 44 then parse_members pv n' t' (acc ++ [(key, v)])
                                   else if d =? 125 then Some (VObject (acc ++ [(key, v)]), t') else None
            | _ => None
            end
          else None
        | _ => None
        end
      else None
    | [] => None
    end
  end.

Definition parse_float (r : bytes) : option (jval * bytes) :=
  match r with
  | f :: r1 => if f =? 70 then
                 match scan_until 58 r1 with
                 | Some (a, r2) => match scan_until 64 r2 with
                                   | Some (b, r3) => Some (VFloatTok (64 :: 70 :: a ++ 58 :: b ++ [64]), r3)
                                   | None => None end
                 | None => None end
               else None
  | [] => None
  end.

Fixpoint parse_value (fuel : nat) (s : bytes) {struct fuel} : option (jval * bytes) :=
  match fuel with
  | O => None
  | S k =>
    match s with
    | [] => None
    | c :: r =>
      if c =? 110 then (if starts_with (s2l "null") s then Some (VNull, skipn 4 s) else None)
      else if c =? 116 then (if starts_with (s2l "true") s then Some (VTrue, skipn 4 s) else None)
      else if c =? 102 then (if starts_with (s2l "false") s then Some (VFalse, skipn 5 s) else None)
      else if c =? 34 then match parse_chars (S (length r)) r with Some (cs, r') => Some (VString cs, r') | None => None end
      else if c =? 64 then parse_float r
      else if c =? 91 then
        match r with
        | [] => None
        | c1 :: r1 => if c1 =? 93 then Some (VArray [], r1) else parse_elems (parse_value k) (S (length r)) r []
        end
      else if c =? 123 then
        match r with
        | [] => None
        | c1 :: r1 => if c1 =? 125 then Some (VObject [], r1) else parse_members (parse_value k) (S (length r)) r []
        end
      else match parse_int s with Some (z, r') => Some (VInt z, r') | None => None end
    end
  end.

(* a whole document *)
Definition parse_json (s : bytes) : option jval :=
  match parse_value (S (length s)) s with Some (v, []) => Some v | _ => None end.
