(* Specification side for NetFlow v5, written from Cisco's "NetFlow Export Datagram Format"
   (version 5 header and flow record tables), NOT from the Go code. *)
From VF Require Import Base.Prelude Model.Layout.

(* Table B-3: version 5 header format, 24 octets *)
Definition header_format : layout :=
  [("version", 2); ("count", 2); ("sys_uptime", 4); ("unix_secs", 4); ("unix_nsecs", 4);
   ("flow_sequence", 4); ("engine_type", 1); ("engine_id", 1); ("sampling_interval", 2)]%string.

(* Table B-4: version 5 flow record format, 48 octets *)
Definition record_format : layout :=
  [("srcaddr", 4); ("dstaddr", 4); ("nexthop", 4); ("input", 2); ("output", 2); ("dPkts", 4);
   ("dOctets", 4); ("first", 4); ("last", 4); ("srcport", 2); ("dstport", 2); ("pad1", 1);
   ("tcp_flags", 1); ("prot", 1); ("tos", 1); ("src_as", 2); ("dst_as", 2); ("src_mask", 1);
   ("dst_mask", 1); ("pad2", 2)]%string.

Definition encode (h : list Z) (flows : list (list Z)) : bytes :=
  enc_layout header_format h ++ flat_map (enc_layout record_format) flows.
