(* Specification side for C07, above the structure layouts of Spec/SflowWire.v: how flow records, flow samples,
   counter samples and the datagram are laid out (sFlow version 5: every record and sample is tag, length, body;
   opaque data is padded to a multiple of four octets), and the document the property demands for them. *)
From VF Require Import Base.Prelude Base.IPText Base.Json Model.Layout Model.JsonPieces Model.Sflow Spec.SflowWire
  Proofs.SflowLayouts Proofs.SflowFidelity.
Local Open Scope string_scope.
Local Open Scope list_scope.
Local Open Scope Z_scope.

Definition xdr_pad (n : Z) : Z := (4 - n mod 4) mod 4.

(* ---- flow records ---- *)
Inductive frec :=
| FRaw (proto frame_len stripped : Z) (hdr : bytes) (pk : jv)    (* sampled header; pk = its L2/L3/L4 breakdown (Spec/PacketWire.v) *)
| FSwitch (vals : list Z)                                        (* extended_switch: the four members *)
| FRouter (v6 : bool) (nexthop : bytes) (smask dmask : Z)        (* extended_router: next hop, masks *)
| FUnknown (fmt : Z) (body : bytes).                             (* any other format: to be skipped *)

Definition enc_frec (f : frec) : bytes :=
  match f with
  | FRaw p fl st hdr _ =>
      enc 4 1 ++ enc 4 (16 + len hdr + xdr_pad (len hdr)) ++ enc 4 p ++ enc 4 fl ++ enc 4 st ++ enc 4 (len hdr)
      ++ hdr ++ repeat 0 (Z.to_nat (xdr_pad (len hdr)))
  | FSwitch vals => enc 4 1001 ++ enc 4 16 ++ enc_layout ext_switch vals
  | FRouter v6 nh sm dm => enc 4 1002 ++ enc 4 (if v6 then 28 else 16) ++ enc 4 (if v6 then 2 else 1) ++ nh ++ enc 4 sm ++ enc 4 dm
  | FUnknown fmt body => enc 4 fmt ++ enc 4 (len body) ++ body
  end.

Definition frec_wf (f : frec) : Prop :=
  match f with
  | FRaw p fl st hdr pk =>
      0 <= p < 2 ^ 32 /\ 0 <= fl < 2 ^ 32 /\ 0 <= st < 2 ^ 32 /\ 0 < len hdr <= 1500 /\ Model.Packet.packet_decode hdr p = Ok pk
  | FSwitch vals => fits_s ext_switch vals
  | FRouter v6 nh sm dm => len nh = (if v6 then 16 else 4) /\ 0 <= sm < 2 ^ 32 /\ 0 <= dm < 2 ^ 32
  | FUnknown fmt body => 0 <= fmt < 2 ^ 32 /\ fmt <> 1 /\ fmt <> 1001 /\ fmt <> 1002 /\ len body < 2 ^ 32
  end.

(* what the sample's Records map must hold after this record *)
Definition frec_effect (f : frec) (m : list (string * jv)) : list (string * jv) :=
  match f with
  | FRaw _ _ _ _ pk => set_member "RawHeader" pk m
  | FSwitch vals => set_member "ExtSwitch" (JObj (obj_of (named_s ext_switch vals))) m
  | FRouter _ nh sm dm => set_member "ExtRouter" (JObj [("NextHop", JStr (ip_string nh)); ("SrcMask", JNum sm); ("DstMask", JNum dm)]) m
  | FUnknown _ _ => m
  end.

(* ---- samples ---- *)
Inductive ssample :=
| SFlowS (vs : list Z) (recs : list frec)         (* flow_sample: header members, records *)
| SCounterS (vs : list Z) (recs : list crec)      (* counters_sample *)
| SOtherS (ty : Z) (body : bytes).                (* any other sample type, incl. other enterprises: to be skipped *)

Definition sample_body (s : ssample) : bytes :=
  match s with
  | SFlowS vs recs => enc_layout flow_sample vs ++ flat_map enc_frec recs
  | SCounterS vs recs => enc_layout counter_sample vs ++ flat_map enc_crec recs
  | SOtherS _ body => body
  end.
Definition sample_type (s : ssample) : Z := match s with SFlowS _ _ => 1 | SCounterS _ _ => 2 | SOtherS ty _ => ty end.
Definition enc_sample (s : ssample) : bytes := enc 4 (sample_type s) ++ enc 4 (len (sample_body s)) ++ sample_body s.

Definition sample_wf (s : ssample) : Prop :=
  match s with
  | SFlowS vs recs => fits_s flow_sample vs /\ field_get "RecordsNo" (named_s flow_sample vs) = len recs /\ Forall frec_wf recs /\
                      len (sample_body s) < 2 ^ 32
  | SCounterS vs recs => fits_s counter_sample vs /\ field_get "RecordsNo" (named_s counter_sample vs) = len recs /\ Forall crec_wf recs /\
                         len (sample_body s) < 2 ^ 32
  | SOtherS ty body => 0 <= ty < 2 ^ 32 /\ (if ty / 4096 =? 0 then ty mod 4096 else ty) <> 1 /\ (if ty / 4096 =? 0 then ty mod 4096 else ty) <> 2 /\
                       len body < 2 ^ 32
  end.

Definition flow_sample_json (vs : list Z) (recs : list frec) : jv :=
  JObj (obj_of (named_s flow_sample vs) ++ [("Records", JObj (sort_members (fold_left (fun acc f => frec_effect f acc) recs [])))]).
Definition counter_sample_json (vs : list Z) (recs : list crec) : jv :=
  JObj (obj_of (named_s counter_sample vs) ++ [("Records", JObj (sort_members (fold_left (fun acc c => crec_effect c acc) recs [])))]).

Fixpoint expected_samples (l : list ssample) : list jv :=
  match l with [] => [] | SFlowS vs recs :: t => flow_sample_json vs recs :: expected_samples t | _ :: t => expected_samples t end.
Fixpoint expected_counters (l : list ssample) : list jv :=
  match l with [] => [] | SCounterS vs recs :: t => counter_sample_json vs recs :: expected_counters t | _ :: t => expected_counters t end.

(* ---- the datagram ---- *)
Record sf_dgram := { sf_v6 : bool; sf_agent : bytes; sf_sub : Z; sf_seq : Z; sf_uptime : Z; sf_samples : list ssample }.
Definition enc_dgram (d : sf_dgram) : bytes :=
  enc 4 5 ++ enc 4 (if sf_v6 d then 2 else 1) ++ sf_agent d ++ enc 4 (sf_sub d) ++ enc 4 (sf_seq d) ++ enc 4 (sf_uptime d)
  ++ enc 4 (len (sf_samples d)) ++ flat_map enc_sample (sf_samples d).
Definition dgram_wf (d : sf_dgram) : Prop :=
  len (sf_agent d) = (if sf_v6 d then 16 else 4) /\ 0 <= sf_sub d < 2 ^ 32 /\ 0 <= sf_seq d < 2 ^ 32 /\ 0 <= sf_uptime d < 2 ^ 32 /\
  len (sf_samples d) < 2 ^ 32 /\ Forall sample_wf (sf_samples d).
Definition dgram_json (d : sf_dgram) : jv :=
  JObj [("Version", JNum 5); ("IPVersion", JNum (if sf_v6 d then 2 else 1)); ("AgentSubID", JNum (sf_sub d)); ("SequenceNo", JNum (sf_seq d));
        ("SysUpTime", JNum (sf_uptime d)); ("SamplesNo", JNum (len (sf_samples d))); ("Samples", JArr (expected_samples (sf_samples d)));
        ("Counters", JArr (expected_counters (sf_samples d))); ("IPAddress", JStr (ip_string (sf_agent d))); ("ColTime", JNum 0)].
