(* Base vocabulary shared by every model file: byte lists, lengths, big-endian,
   the outcome monad (Ok / Err / Panic / Hang) and text helpers used by the
   canonical printers.  Stdlib only. *)
From Coq Require Export String Ascii.
From Coq Require Export List ZArith Lia Bool.
Export ListNotations.
Open Scope Z_scope.
Ltac Zify.zify_post_hook ::= Z.div_mod_to_equations.

Definition len {A} (l : list A) : Z := Z.of_nat (length l).
Definition bytes := list Z.
Definition is_byte (b : Z) : Prop := 0 <= b < 256.
Definition wf_bytes (l : bytes) : Prop := Forall is_byte l.

(* big-endian value of a byte list *)
Fixpoint be_acc (l : bytes) (acc : Z) : Z :=
  match l with [] => acc | b :: t => be_acc t (acc * 256 + b) end.
Definition be (l : bytes) : Z := be_acc l 0.

(* big-endian encoding of v on n octets *)
Fixpoint enc (n : nat) (v : Z) : bytes :=
  match n with O => [] | S k => enc k (v / 256) ++ [v mod 256] end.

(* two's complement view of an n-bit unsigned value *)
Definition to_signed (bits : Z) (v : Z) : Z :=
  if v <? 2 ^ (bits - 1) then v else v - 2 ^ bits.

(* ---- outcomes: what a Go call can do ---- *)
Inductive err : Set :=
| EShort        (* a read past the end of the buffer / unexpected EOF *)
| EFatal        (* any other error that aborts the whole message *)
| ENonfatal     (* collected error, decoding continues *)
| EInvalid.     (* header validation failed *)

Inductive outcome (A : Type) : Type :=
| Ok (a : A)
| Err (e : err)
| Panic
| Hang.
Arguments Ok {A} a. Arguments Err {A} e. Arguments Panic {A}. Arguments Hang {A}.

Definition bind {A B} (o : outcome A) (f : A -> outcome B) : outcome B :=
  match o with Ok a => f a | Err e => Err e | Panic => Panic | Hang => Hang end.
Notation "x <- o ;; k" := (bind o (fun x => k)) (at level 61, o at next level, right associativity).

(* turn an error into a value (the Go code inspects err and goes on) *)
Definition catch {A} (o : outcome A) : outcome (option A) :=
  match o with Ok a => Ok (Some a) | Err _ => Ok None | Panic => Panic | Hang => Hang end.

Definition safe {A} (o : outcome A) : Prop := o <> Panic /\ o <> Hang.

(* ---- text helpers (canonical printers print list-of-char-codes) ---- *)
Fixpoint s2l (s : string) : bytes :=
  match s with EmptyString => [] | String c t => Z.of_N (N_of_ascii c) :: s2l t end.

Fixpoint uint_chars (d : Decimal.uint) : bytes :=
  match d with
  | Decimal.Nil => []
  | Decimal.D0 d => 48 :: uint_chars d | Decimal.D1 d => 49 :: uint_chars d
  | Decimal.D2 d => 50 :: uint_chars d | Decimal.D3 d => 51 :: uint_chars d
  | Decimal.D4 d => 52 :: uint_chars d | Decimal.D5 d => 53 :: uint_chars d
  | Decimal.D6 d => 54 :: uint_chars d | Decimal.D7 d => 55 :: uint_chars d
  | Decimal.D8 d => 56 :: uint_chars d | Decimal.D9 d => 57 :: uint_chars d
  end.
Definition show_N (n : N) : bytes := uint_chars (N.to_uint n).
(* strconv.FormatInt(v, 10) / FormatUint *)
Definition show_Z (z : Z) : bytes :=
  match z with
  | Z0 => [48]
  | Zpos p => show_N (Npos p)
  | Zneg p => 45 :: show_N (Npos p)
  end.

Definition hex_digit (d : Z) : Z := if d <? 10 then 48 + d else 87 + d.   (* lower case *)
Definition hex_byte (b : Z) : bytes := [hex_digit (b / 16); hex_digit (b mod 16)].
Definition show_hex (l : bytes) : bytes := flat_map hex_byte l.

Fixpoint intercalate {A} (sep : list A) (ls : list (list A)) : list A :=
  match ls with
  | [] => []
  | [x] => x
  | x :: t => x ++ sep ++ intercalate sep t
  end.

Fixpoint list_eqb (a b : bytes) : bool :=
  match a, b with
  | [], [] => true
  | x :: a', y :: b' => (x =? y) && list_eqb a' b'
  | _, _ => false
  end.
