(* net.IP.String() and net.HardwareAddr.String() as Go 1.23 computes them (modelled; sampled by the
   correspondence runs of C05/C08). *)
From VF Require Import Base.Prelude.

Definition dotted (l : bytes) : bytes := intercalate [46] (map show_Z l).

(* lower-case hex without leading zeros of a 16-bit group *)
Definition hex16 (v : Z) : bytes :=
  let d3 := v / 4096 in let d2 := (v / 256) mod 16 in let d1 := (v / 16) mod 16 in let d0 := v mod 16 in
  if 0 <? d3 then [hex_digit d3; hex_digit d2; hex_digit d1; hex_digit d0]
  else if 0 <? d2 then [hex_digit d2; hex_digit d1; hex_digit d0]
  else if 0 <? d1 then [hex_digit d1; hex_digit d0]
  else [hex_digit d0].

Fixpoint groups16 (l : bytes) : list Z :=
  match l with a :: b :: t => (a * 256 + b) :: groups16 t | _ => [] end.

(* number of leading zero groups *)
Fixpoint zero_run (g : list Z) : nat :=
  match g with 0 :: t => S (zero_run t) | _ => O end.

(* netip's scan: for i = 0..7, run starting at i; keep the first strictly longest of length >= 2.
   Returns (start, length); length 0 = none. *)
Fixpoint best_run (g : list Z) (i : nat) (best : nat * nat) : nat * nat :=
  match g with
  | [] => best
  | _ :: t =>
      let l := zero_run g in
      let best' := if (2 <=? l)%nat && (snd best <? l)%nat then (i, l) else best in
      best_run t (S i) best'
  end.

Fixpoint show_groups (g : list Z) (i : nat) (zs zl : nat) : bytes :=
  match g with
  | [] => []
  | v :: t =>
      (if (0 <? zl)%nat && (zs <=? i)%nat && (i <? zs + zl)%nat then
         (if (i =? zs)%nat then [58; 58] else [])
       else (if (0 <? i)%nat && negb ((0 <? zl)%nat && (i =? zs + zl)%nat) then [58] else []) ++ hex16 v)
      ++ show_groups t (S i) zs zl
  end.

Definition ip6_string (l : bytes) : bytes :=
  let g := groups16 l in
  let '(zs, zl) := best_run g 0 (0%nat, 0%nat) in
  show_groups g 0 zs zl.

Definition is_v4mapped (l : bytes) : bool :=
  list_eqb (firstn 12 l) [0; 0; 0; 0; 0; 0; 0; 0; 0; 0; 255; 255].

Definition ip_string (l : bytes) : bytes :=
  match length l with
  | 0%nat => s2l "<nil>"
  | 4%nat => dotted l
  | 16%nat => if is_v4mapped l then dotted (skipn 12 l) else ip6_string l
  | _ => 63 :: show_hex l
  end.

(* net.HardwareAddr.String(): "" for empty, else xx:xx:... *)
Definition mac_string (l : bytes) : bytes := intercalate [58] (map hex_byte l).
