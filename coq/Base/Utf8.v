(* Go's UTF-8 decoding as `for _, r := range s` performs it (utf8.DecodeRuneInString: invalid or
   short sequences yield U+FFFD and consume one octet) and utf8.AppendRune. *)
From VF Require Import Base.Prelude.

Definition is_cont (b : Z) : bool := (128 <=? b) && (b <=? 191).

Definition decode_rune (s : bytes) : Z * nat :=
  match s with
  | [] => (65533, 1%nat)
  | b0 :: t =>
    if b0 <? 128 then (b0, 1%nat)
    else if (b0 <? 194) || (244 <? b0) then (65533, 1%nat)
    else
      let lo := if b0 =? 224 then 160 else if b0 =? 240 then 144 else 128 in
      let hi := if b0 =? 237 then 159 else if b0 =? 244 then 143 else 191 in
      match t with
      | [] => (65533, 1%nat)
      | b1 :: t1 =>
        if negb ((lo <=? b1) && (b1 <=? hi)) then (65533, 1%nat)
        else if b0 <? 224 then ((b0 - 192) * 64 + (b1 - 128), 2%nat)
        else match t1 with
             | [] => (65533, 1%nat)
             | b2 :: t2 =>
               if negb (is_cont b2) then (65533, 1%nat)
               else if b0 <? 240 then ((b0 - 224) * 4096 + (b1 - 128) * 64 + (b2 - 128), 3%nat)
               else match t2 with
                    | [] => (65533, 1%nat)
                    | b3 :: _ =>
                      if negb (is_cont b3) then (65533, 1%nat)
                      else ((b0 - 240) * 262144 + (b1 - 128) * 4096 + (b2 - 128) * 64 + (b3 - 128), 4%nat)
                    end
             end
      end
  end.

Fixpoint go_runes_fuel (fuel : nat) (s : bytes) : list Z :=
  match fuel, s with
  | S k, _ :: _ => let '(r, n) := decode_rune s in r :: go_runes_fuel k (skipn n s)
  | _, _ => []
  end.
Definition go_runes (s : bytes) : list Z := go_runes_fuel (length s) s.

(* utf8.AppendRune for a valid scalar value (others become U+FFFD) *)
Definition utf8_enc (r : Z) : bytes :=
  if r <? 0 then [239; 191; 189]
  else if r <? 128 then [r]
  else if r <? 2048 then [192 + r / 64; 128 + r mod 64]
  else if (55296 <=? r) && (r <=? 57343) then [239; 191; 189]
  else if r <? 65536 then [224 + r / 4096; 128 + (r / 64) mod 64; 128 + r mod 64]
  else if r <? 1114112 then [240 + r / 262144; 128 + (r / 4096) mod 64; 128 + (r / 64) mod 64; 128 + r mod 64]
  else [239; 191; 189].

(* a Unicode scalar value *)
Definition is_scalar (r : Z) : bool := (0 <=? r) && (r <? 1114112) && negb ((55296 <=? r) && (r <=? 57343)).
