(* JSON values and the compact printer.  (The RFC 8259 grammar relation and the proof that the
   printer's output belongs to it are in Proofs/JsonProofs.v.) *)
From VF Require Import Base.Prelude Base.Utf8.

Inductive jv :=
| JNull
| JBool (b : bool)
| JNum (z : Z)                       (* an integer, printed in decimal *)
| JTok (t : bytes)                   (* a number token produced by a trusted formatter (floats) *)
| JStr (s : bytes)                   (* a string given by its octets; printed with Go's escaping of its runes *)
| JArr (l : list jv)
| JObj (l : list (string * jv)).     (* members in print order *)

(* encoding/base64 StdEncoding *)
Definition b64_char (v : Z) : Z :=
  if v <? 26 then 65 + v else if v <? 52 then 97 + (v - 26) else if v <? 62 then 48 + (v - 52)
  else if v =? 62 then 43 else 47.
Fixpoint base64 (l : bytes) : bytes :=
  match l with
  | a :: b :: c :: t =>
      [b64_char (a / 4); b64_char ((a mod 4) * 16 + b / 16); b64_char ((b mod 16) * 4 + c / 64); b64_char (c mod 64)] ++ base64 t
  | [a; b] => [b64_char (a / 4); b64_char ((a mod 4) * 16 + b / 16); b64_char ((b mod 16) * 4); 61]
  | [a] => [b64_char (a / 4); b64_char ((a mod 4) * 16); 61; 61]
  | [] => []
  end.

(* string escaping as the hand-written encoders of ipfix/netflow9 do it (writeString) *)
Definition esc_rune (r : Z) : bytes :=
  if (r =? 34) || (r =? 92) then [92; r]
  else if r <? 32 then s2l "\u00" ++ [hex_digit (r / 16); hex_digit (r mod 16)]
  else utf8_enc r.
Definition json_string (s : bytes) : bytes := 34 :: flat_map esc_rune (go_runes s) ++ [34].

Fixpoint render (j : jv) : bytes :=
  match j with
  | JNull => s2l "null"
  | JBool b => if b then s2l "true" else s2l "false"
  | JNum z => show_Z z
  | JTok t => t
  | JStr s => json_string s
  | JArr l => s2l "[" ++ intercalate (s2l ",") (map render l) ++ s2l "]"
  | JObj l => s2l "{" ++ intercalate (s2l ",") (map (fun kv => json_string (s2l (fst kv)) ++ s2l ":" ++ render (snd kv)) l) ++ s2l "}"
  end.
