(* Extraction of the executable model for the correspondence checks.
   Directives in force: those of ExtrOcamlBasic only (bool, option, unit, list, prod, sumbool,
   sumor as OCaml types; andb/orb/negb/fst/snd inlined).  Z, positive, N, nat, string, ascii stay
   the Coq inductives. *)
From Coq Require Import extraction.Extraction extraction.ExtrOcamlBasic.
From VF Require Import Base.Prelude Model.Driver.
Extraction Language OCaml.
Extraction "model.ml" dispatch TBytes TInt TSym.
