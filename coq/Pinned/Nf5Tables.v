(* The tables of netflow/v5 the proofs were written against (hand-frozen).  Proofs/Tie.v proves
   that the regenerated Gen tables are equal to these on every run. *)
From VF Require Import Base.Prelude Model.Layout Model.JsonPieces.
Local Open Scope string_scope.

Definition nf5_header_layout : layout :=
  [("Version", 2); ("Count", 2); ("SysUpTimeMSecs", 4); ("UNIXSecs", 4); ("UNIXNSecs", 4);
   ("SeqNum", 4); ("EngType", 1); ("EngID", 1); ("SmpInt", 2)].

Definition nf5_flow_layout : layout :=
  [("SrcAddr", 4); ("DstAddr", 4); ("NextHop", 4); ("Input", 2); ("Output", 2); ("PktCount", 4);
   ("L3Octets", 4); ("StartTime", 4); ("EndTime", 4); ("SrcPort", 2); ("DstPort", 2);
   ("Padding1", 1); ("TCPFlags", 1); ("ProtType", 1); ("Tos", 1); ("SrcAsNum", 2); ("DstAsNum", 2);
   ("SrcMask", 1); ("DstMask", 1); ("Padding2", 2)].

Definition nf5_agent_pieces : list piece := [PLit """AgentID"":"""; PStr "AgentID"; PLit ""","].

Definition num_member (first : bool) (k : string) : list piece :=
  [PLit ((if first then "" else ",") ++ """" ++ k ++ """:"); PNum k].

Definition nf5_header_pieces : list piece :=
  [PLit """Header"":{""Version"":"; PNum "Version"] ++
  flat_map (num_member false) ["Count"; "SysUpTimeMSecs"; "UNIXSecs"; "UNIXNSecs"; "SeqNum"; "EngType"; "EngID"; "SmpInt"]
  ++ [PLit "},"].

Definition nf5_flow_pieces : list piece :=
  [PLit """SrcAddr"":"""; PIP4 "SrcAddr"; PLit """,""DstAddr"":"""; PIP4 "DstAddr";
   PLit """,""NextHop"":"""; PIP4 "NextHop"; PLit """,""Input"":"; PNum "Input"] ++
  flat_map (num_member false) ["Output"; "PktCount"; "L3Octets"; "StartTime"; "EndTime"; "SrcPort"; "DstPort";
     "Padding1"; "TCPFlags"; "ProtType"; "Tos"; "SrcAsNum"; "DstAsNum"; "SrcMask"; "DstMask"; "Padding2"].
