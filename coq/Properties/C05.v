(* C05 — Every published message is valid JSON that faithfully carries the decode (theorems added as proved). *)
From VF Require Import Base.Prelude Model.Flow Model.MarshalFlow.
