(* C05 — Every published message is valid JSON that faithfully carries the decode.
   Specification side: Spec/JsonGrammar.v (the RFC 8259 grammar as a relation text ~ value, compact forms) and
   Spec/JsonDenote.v (the value a decoded message must be published as: exporter address in canonical text form,
   header members, per record the fields with id, value and - IPFIX, when non-zero - enterprise number; integers
   exact, text as the runes of the octets, octet arrays as 0x-hex, non-finite floats as strings).
   The theorems say: the octets JSONMarshal writes ARE a JSON text of that grammar and denote exactly that value,
   for every datagram (all octets), every information model, cache and header content - whatever the element
   types and field contents (quotes, backslashes, control characters, invalid UTF-8, NaN/Inf, booleans, extremes).
   Floating-point number tokens are written by strconv.FormatFloat, which is not modelled: they appear as opaque
   tokens (float_token; trusted to be JSON numbers, and parsed by an independent parser in the correspondence). *)
From VF Require Import Base.Prelude Base.IPText Base.Utf8 Base.Json Spec.JsonGrammar Spec.JsonDenote
  Model.Reader Model.Layout Model.JsonPieces Model.Flow Model.MarshalFlow Model.Ipfix Model.Nf5
  Spec.JsonParser Proofs.JsonProofs Proofs.MarshalProofs Proofs.WfDecode Proofs.WfDecode9 Proofs.SflowJson Proofs.JsonParserProofs.
From VF Require Model.Nf9 Model.Sflow Gen.JsonPieces Gen.Layouts.

(* IPFIX: what is decoded from ANY datagram of octets is published as a JSON text denoting it *)
Theorem C05_ipfix_published_json : forall (C : Type) (ops : cache_ops C) im c a p c1 m nf,
  wf_bytes p -> wf_bytes a ->
  ipfix_decode ops im Gen.Layouts.ipfix_header_layout c a p = Ok (c1, DMsg m nf) ->
  Gjson (flow_marshal true Gen.JsonPieces.ipfix_agent_pieces Gen.JsonPieces.ipfix_header_pieces (i_agent m) (i_header m) (i_sets m))
        (flow_json true ipfix_names a (i_header m) (i_sets m)).
Proof.
  intros C ops im c a p c1 m nf Hp Ha E. destruct (ipfix_decode_wf ops im _ c a p c1 m nf Hp E) as [-> Hd].
  apply ipfix_marshal_ok; assumption.
Qed.
Print Assumptions C05_ipfix_published_json.

Theorem C05_nf9_published_json : forall (C : Type) (ops : cache_ops C) im c a p c1 m nf,
  wf_bytes p -> wf_bytes a ->
  Nf9.nf9_decode ops im Gen.Layouts.nf9_header_layout c a p = Ok (c1, DMsg m nf) ->
  Gjson (flow_marshal false Gen.JsonPieces.nf9_agent_pieces Gen.JsonPieces.nf9_header_pieces (Nf9.n9_agent m) (Nf9.n9_header m) (Nf9.n9_sets m))
        (flow_json false nf9_names a (Nf9.n9_header m) (Nf9.n9_sets m)).
Proof.
  intros C ops im c a p c1 m nf Hp Ha E. destruct (nf9_decode_wf ops im _ c a p c1 m nf Hp E) as [-> Hd].
  apply nf9_marshal_ok; assumption.
Qed.
Print Assumptions C05_nf9_published_json.

(* NetFlow v5: any decoded message (header, flows) *)
Theorem C05_nf5_published_json : forall m, wf_bytes (n5_agent m) ->
  Gjson (nf5_marshal Gen.JsonPieces.nf5_agent_pieces Gen.JsonPieces.nf5_header_pieces Gen.JsonPieces.nf5_flow_pieces m)
        (nf5_json (n5_agent m) (n5_header m) (n5_flows m)).
Proof. exact nf5_marshal_ok. Qed.
Print Assumptions C05_nf5_published_json.

(* sFlow is encoded with encoding/json (trusted, not hand-written); its model is the generic printer over the tree
   SFDecode builds.  Whatever the datagram's octets, that tree is printable and its text denotes it. *)
Theorem C05_sflow_published_json : forall filter p ok j, wf_bytes p ->
  Sflow.sf_decode Gen.Layouts.sf_flow_sample_layout Gen.Layouts.sf_counter_sample_layout Gen.Layouts.sf_ext_switch_layout
            Gen.Layouts.sf_generic_layout Gen.Layouts.sf_ethernet_layout Gen.Layouts.sf_tokenring_layout
            Gen.Layouts.sf_vg_layout Gen.Layouts.sf_vlan_layout Gen.Layouts.sf_processor_layout
            Gen.Layouts.sf_flow_sample_fields Gen.Layouts.sf_counter_sample_fields Gen.Layouts.sf_ext_switch_fields
            Gen.Layouts.sf_generic_fields Gen.Layouts.sf_ethernet_fields Gen.Layouts.sf_tokenring_fields
            Gen.Layouts.sf_vg_fields Gen.Layouts.sf_vlan_fields Gen.Layouts.sf_processor_fields filter p = Ok (ok, Some j) ->
  Gjson (render j) (denote j).
Proof. intros filter p ok j Hp E. apply render_valid. eapply sf_decode_wf; eassumption. Qed.
Print Assumptions C05_sflow_published_json.

Theorem C05_generic_printer_json : forall j, wf_jv j -> Gjson (render j) (denote j).
Proof. exact render_valid. Qed.
Print Assumptions C05_generic_printer_json.

(* the ingredients, each for every input: numbers exact, text correctly escaped, addresses plain *)
Theorem C05_numbers_exact : forall z, Gint (show_Z z) z.
Proof. exact show_Z_int. Qed.
Print Assumptions C05_numbers_exact.

Theorem C05_text_escaped : forall s, wf_bytes s -> Gstring (json_string s) (go_runes s).
Proof. exact json_string_ok. Qed.
Print Assumptions C05_text_escaped.

Theorem C05_value_json : forall v, wf_value v -> Gjson (write_value v) (val_json v).
Proof. exact write_value_ok. Qed.
Print Assumptions C05_value_json.

Theorem C05_address_text_plain : forall a, wf_bytes a -> Gstring (MarshalFlow.quoted (ip_string a)) (ip_string a).
Proof. intros a H. exact (Gstring_plain _ (plain_ip a H)). Qed.
Print Assumptions C05_address_text_plain.

(* "Parsing it yields ...": the grammar is unambiguous - a text is related to at most one value - because an executable
   parser (Spec/JsonParser.v) accepts every text of the grammar and returns the related value.  So the published IPFIX /
   NetFlow v9 payload PARSES BACK to exactly the demanded document. *)
Theorem C05_grammar_unambiguous : forall t v v', Gjson t v -> Gjson t v' -> v = v'.
Proof. exact gjson_unambiguous. Qed.
Print Assumptions C05_grammar_unambiguous.

Theorem C05_parser_accepts_the_grammar : forall t v, Gjson t v -> parse_json t = Some v.
Proof. exact parse_json_complete. Qed.
Print Assumptions C05_parser_accepts_the_grammar.

Theorem C05_ipfix_payload_parses_back : forall (C : Type) (ops : cache_ops C) im c a p c1 m nf,
  wf_bytes p -> wf_bytes a ->
  ipfix_decode ops im Gen.Layouts.ipfix_header_layout c a p = Ok (c1, DMsg m nf) ->
  parse_json (flow_marshal true Gen.JsonPieces.ipfix_agent_pieces Gen.JsonPieces.ipfix_header_pieces (i_agent m) (i_header m) (i_sets m))
  = Some (flow_json true ipfix_names a (i_header m) (i_sets m)).
Proof. intros C ops im c a p c1 m nf Hp Ha E. apply parse_json_complete. exact (C05_ipfix_published_json C ops im c a p c1 m nf Hp Ha E). Qed.
Print Assumptions C05_ipfix_payload_parses_back.

Theorem C05_nf9_payload_parses_back : forall (C : Type) (ops : cache_ops C) im c a p c1 m nf,
  wf_bytes p -> wf_bytes a ->
  Nf9.nf9_decode ops im Gen.Layouts.nf9_header_layout c a p = Ok (c1, DMsg m nf) ->
  parse_json (flow_marshal false Gen.JsonPieces.nf9_agent_pieces Gen.JsonPieces.nf9_header_pieces (Nf9.n9_agent m) (Nf9.n9_header m) (Nf9.n9_sets m))
  = Some (flow_json false nf9_names a (Nf9.n9_header m) (Nf9.n9_sets m)).
Proof. intros C ops im c a p c1 m nf Hp Ha E. apply parse_json_complete. exact (C05_nf9_published_json C ops im c a p c1 m nf Hp Ha E). Qed.
Print Assumptions C05_nf9_payload_parses_back.

(* ---- non-vacuity / sanity (tests, not theorems): hostile content comes out escaped ---- *)
Example C05_hostile_string :
  json_string [34; 92; 10; 255; 195; 169; 65]       (* quote, backslash, LF, an invalid octet, e-acute, A *)
  = s2l """\""\\\u000a" ++ [239; 191; 189; 195; 169; 65; 34].
Proof. vm_compute. reflexivity. Qed.
Example C05_field_instance :
  encode_field true {| d_id := 82; d_pen := 9; d_val := VStr [34; 7] |} = s2l "{""I"":82,""V"":""\""\u0007"",""E"":9}".
Proof. vm_compute. reflexivity. Qed.
Example C05_nonfinite_float_is_a_string :
  val_json (VF32 2143289344) = VString (s2l "@F32:2143289344@") /\ val_json (VF32 1065353216) = VFloatTok (s2l "@F32:1065353216@").
Proof. vm_compute. split; reflexivity. Qed.

Example C05_parse_instance :
  parse_json (encode_field true {| d_id := 82; d_pen := 9; d_val := VStr [34; 7] |})
  = Some (VObject [(s2l "I", VInt 82); (s2l "V", VString [34; 7]); (s2l "E", VInt 9)]).
Proof. vm_compute. reflexivity. Qed.
