(* C01 — No datagram, however malformed, can crash the collector (theorems added as proved). *)
From VF Require Import Base.Prelude Model.Reader Model.Flow.
