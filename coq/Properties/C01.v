(* C01 — No datagram, however malformed, can crash the collector.
   `Ok` below means: the model's checked primitives never reached Panic (slice/index out of range,
   nil map/shard) and the explicit fuel never ran out (Hang); both are outcomes of the model's own
   monad, so "= Ok _" IS the no-crash statement.  All payloads, all exporter addresses, all
   information models, all header layouts, every history, every well-formed cache. *)
From VF Require Import Base.Prelude Model.Reader Model.Layout Model.JsonPieces Model.Flow Model.Cache
  Model.Ipfix Model.Nf9 Model.Nf5 Model.History
  Proofs.FlowSafety Proofs.CacheProofs Proofs.IpfixHistory Proofs.Nf9History Proofs.Nf5Proofs Proofs.Tie.
From VF Require Gen.Layouts.

Theorem C01_ipfix_history_never_crashes : forall im hl h c, wf_cache c ->
  exists c' ds, run_history (ipfix_decode cc_ops im hl) c h = Ok (c', ds) /\ wf_cache c' /\ length ds = length h.
Proof.
  intros im hl h c H. destruct (IpfixHistory.history_safe im hl h c H) as (c' & ds & E & Hw & Hl & _).
  exists c', ds. auto.
Qed.
Print Assumptions C01_ipfix_history_never_crashes.

Theorem C01_nf9_history_never_crashes : forall im hl h c, wf_cache c ->
  exists c' ds, run_history (nf9_decode cc_ops im hl) c h = Ok (c', ds) /\ wf_cache c' /\ length ds = length h.
Proof.
  intros im hl h c H. destruct (Nf9History.history_safe im hl h c H) as (c' & ds & E & Hw & Hl & _).
  exists c', ds. auto.
Qed.
Print Assumptions C01_nf9_history_never_crashes.

(* NetFlow v5 keeps no state: every single datagram *)
Theorem C01_nf5_never_crashes : forall addr p,
  safe (Nf5.nf5_decode Gen.Layouts.nf5_header_layout Gen.Layouts.nf5_flow_layout addr p).
Proof. intros addr p. rewrite tie_nf5_header_layout, tie_nf5_flow_layout. apply nf5_total. Qed.
Print Assumptions C01_nf5_never_crashes.

(* the cache every run starts from is well-formed, so every reachable cache is *)
Theorem C01_initial_cache_wf : wf_cache empty_ccache.
Proof. exact empty_wf. Qed.
Print Assumptions C01_initial_cache_wf.

(* the only fixed-width accesses outside the reader (Interpret's b[0] / BigEndian.UintN) are covered by the minLen guard *)
Theorem C01_interpret_never_panics : forall t b, exists v, interpret t b = Ok v.
Proof. exact interpret_ok. Qed.
Print Assumptions C01_interpret_never_panics.

(* `interpret` above is the hand-written model of ipfix.Interpret; it equals, for every FieldType constant and every octet
   string, the interpretation driven by the tables regenerated from the CURRENT ipfix/interpret.go (minimum length and
   returned value per type): a changed minimum length, a type dropped from a case list or a changed conversion breaks this *)
From VF Require Proofs.TieInterp Gen.InfoModel.
Theorem C01_interpret_is_the_source : forall name v, In (name, v) Gen.InfoModel.type_consts ->
  forall b, interpret v b = TieInterp.interpret_src name b.
Proof. exact TieInterp.tie_interpret. Qed.
Print Assumptions C01_interpret_is_the_source.

(* sFlow: SFDecode + the packet breakdown of sampled headers, on ANY datagram of octets and any type filter: Ok, i.e. no
   checked primitive is violated and no loop outruns its fuel (every loop iteration consumes a tag/length pair of 8 octets
   and every length read from the wire is unsigned) *)
From VF Require Proofs.SflowSafety.
Theorem C01_sflow_never_crashes : forall filter p, wf_bytes p ->
  exists ok o, SflowSafety.sf_decode_src filter p = Ok (ok, o).
Proof. intros filter p H. destruct (SflowSafety.sf_decode_src_safe filter p H) as (ok & o & E & _). eauto. Qed.
Print Assumptions C01_sflow_never_crashes.
