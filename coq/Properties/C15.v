(* C15 — SIGTERM stops the collector cleanly and templates survive the restart.
   What the CODE enforces in every interleaving of main / receive loop / shutdown (untimed model), the
   survival of templates through the dump (with C10: the dump is a race-free snapshot; C11: the file
   loads back to the same cache), and — stated, not hidden — the hazard the code leaves to timing. *)
From VF Require Import Base.Prelude Model.Shutdown Model.Flow Model.Cache Model.CacheFile
  Model.TimedShutdown Proofs.CacheProofs Proofs.CacheFileProofs Proofs.ShutdownProofs Proofs.TimedShutdownProofs.
From VF Require Gen.Timing.

(* the dump happens after the stop flag is set and before the receive channel is closed; main returns
   only after the receive loop has ended and the dump and close have happened *)
Theorem C15_shutdown_order : forall s, sreach s ->
  (dumped s = true -> stop s = true) /\ (closed s = true -> dumped s = true) /\
  (mpc s = MReturned -> rpc s = RDone /\ closed s = true /\ dumped s = true).
Proof. exact dump_after_stop_before_close. Qed.
Print Assumptions C15_shutdown_order.

(* every template the cache holds when it is dumped is retrievable from the cache the restarted collector loads *)
Theorem C15_templates_survive : forall c id a t, wf_cache c -> cc_retrieve c id a = Ok (Some t) ->
  cc_retrieve (get_cache (dump_doc c)) id a = Ok (Some t).
Proof. exact templates_survive. Qed.
Print Assumptions C15_templates_survive.

(* a template acknowledged before the signal is still present (under its key) at the dump: later
   announcements only add or supersede *)
Theorem C15_presence_monotone : forall m a id t a' id' t', amap_get a id m = Some t ->
  exists t'', amap_get a id (((a', id'), t') :: m) = Some t''.
Proof. exact presence_monotone. Qed.
Print Assumptions C15_presence_monotone.

(* the hazard: without timing assumptions a send on the closed receive channel (a panic) is reachable; the
   code avoids it only because shutdown sleeps 1 s >= the 1 s read deadline and the queue is not full *)
Theorem C15_send_after_close_hazard : exists s, sreach s /\ send_on_closed s = true.
Proof. exact send_after_close_reachable. Qed.
Print Assumptions C15_send_after_close_hazard.

(* ... and WITH the two durations the code uses, the hazard is excluded: the read deadline D and the grace sleep G of
   every pipeline are regenerated from vflow/<proto>.go (Gen/Timing.v); the timed model is safe exactly when D <= G *)
Theorem C15_timed_no_send_after_close : forall D G, 0 < G -> D <= G -> forall s, treach D G s -> tviol s = false.
Proof. exact timed_safe. Qed.
Print Assumptions C15_timed_no_send_after_close.

Theorem C15_longer_deadline_panics : forall D G, 0 <= G -> G < D -> exists s, treach D G s /\ tviol s = true.
Proof. exact timed_hazard. Qed.
Print Assumptions C15_longer_deadline_panics.

Theorem C15_deadlines_within_grace : forall p D G, In (p, D, G) Gen.Timing.timing -> 0 < G /\ D <= G.
Proof.
  assert (H : forallb (fun x => (0 <? snd x) && (snd (fst x) <=? snd x)) Gen.Timing.timing = true) by (vm_compute; reflexivity).
  intros p D G Hin. rewrite forallb_forall in H. specialize (H _ Hin). cbn [fst snd] in H. lia.
Qed.
Print Assumptions C15_deadlines_within_grace.

(* the step order the shutdown models assume is the program order of shutdown(): stop, sleep, [dump,] close; the pipelines that
   have a template cache (IPFIX, NetFlow v9) DO dump it, by a direct, synchronous call of Dump in shutdown() itself (a dump
   handed to a helper, a goroutine or a timeout is not this step) *)
Theorem C15_shutdown_program_order : forall p o, In (p, o) Gen.Timing.shutdown_order ->
  (if (String.eqb p "ipfix" || String.eqb p "nf9")%bool then o = ["stop"; "sleep"; "dump"; "close"]%string
   else o = ["stop"; "sleep"; "close"]%string).
Proof.
  intros p o Hin. unfold Gen.Timing.shutdown_order in Hin. cbn [In] in Hin.
  repeat (destruct Hin as [Hin|Hin]; [injection Hin as <- <-; vm_compute; reflexivity|]). contradiction.
Qed.
Print Assumptions C15_shutdown_program_order.

(* the saved file IS the document: Dump writes the file with a call that replaces an existing file (regenerated from the
   source, Gen/FileWrite.v); written in place instead, a shorter document would be followed by the stale tail of the older one *)
From VF Require Model.FileStore Proofs.FileStoreProofs Gen.FileWrite.
Theorem C15_dump_replaces_the_file : forall p how t, In (p, how, t) Gen.FileWrite.dump_write -> t = true.
Proof.
  intros p how t Hin. unfold Gen.FileWrite.dump_write in Hin. cbn [In] in Hin.
  repeat (destruct Hin as [Hin|Hin]; [injection Hin as _ _ <-; reflexivity|]). contradiction.
Qed.
Print Assumptions C15_dump_replaces_the_file.

(* ... and the loaded document IS the file: GetCache hands json.Unmarshal the whole file whatever its size (regenerated from the
   source, Gen/FileWrite.v); read through a limit, a fixed buffer or a single Read, a large cache would come back as a prefix,
   i.e. as a file left by a crash while saving: rejected, and every template in it forgotten *)
Theorem C15_load_reads_the_whole_file : forall p how w, In (p, how, w) Gen.FileWrite.load_read -> w = true.
Proof.
  intros p how w Hin. unfold Gen.FileWrite.load_read in Hin. cbn [In] in Hin.
  repeat (destruct Hin as [Hin|Hin]; [injection Hin as _ _ <-; reflexivity|]). contradiction.
Qed.
Print Assumptions C15_load_reads_the_whole_file.

Theorem C15_whole_read_is_the_file : forall file, FileStore.read_file None file = file.
Proof. exact FileStoreProofs.read_whole. Qed.
Print Assumptions C15_whole_read_is_the_file.

Theorem C15_limited_read_is_a_crash_prefix : forall n file, (n < length file)%nat ->
  exists rest, rest <> [] /\ file = FileStore.read_file (Some n) file ++ rest /\ length (FileStore.read_file (Some n) file) = n.
Proof. exact FileStoreProofs.read_limited_is_a_proper_prefix. Qed.
Print Assumptions C15_limited_read_is_a_crash_prefix.

Theorem C15_replacing_write_leaves_the_document : forall old new, FileStore.write_file true old new = new.
Proof. exact FileStoreProofs.write_truncating. Qed.
Print Assumptions C15_replacing_write_leaves_the_document.

Theorem C15_in_place_write_keeps_a_stale_tail : forall old new, (length new < length old)%nat ->
  exists junk, junk <> [] /\ FileStore.write_file false old new = new ++ junk.
Proof. exact FileStoreProofs.write_in_place_keeps_tail. Qed.
Print Assumptions C15_in_place_write_keeps_a_stale_tail.

(* the dump itself returns: read as a lock protocol (Gen/Locks.v, regenerated from the source), Dump of either cache is a balanced
   operation that never acquires a lock it already holds (sync.RWMutex is not re-entrant: a second RLock of the same shard by the
   same goroutine waits for ever once a writer has queued up in between, and shutdown() would never return) *)
From VF Require Model.LockProto Gen.Locks.
Theorem C15_dump_is_a_balanced_lock_operation :
  forallb (fun s => LockProto.balanced (LockProto.inst s Gen.Locks.ipfix_dump) && LockProto.balanced (LockProto.inst s Gen.Locks.nf9_dump))
          (seq 0 LockProto.nshards) = true.
Proof. vm_compute. reflexivity. Qed.
Print Assumptions C15_dump_is_a_balanced_lock_operation.
