(* C14 — The producer delivers every message once, unmodified and in order (raw socket producer).
   Kafka / NSQ / NATS producers hand the message unchanged to their client libraries; they need
   brokers that cannot run in this sandbox and are modelled only up to that hand-over. *)
From VF Require Import Base.Prelude Model.Producer Proofs.ProducerProofs.

(* no faults: the sink receives every message exactly once, byte for byte, newline terminated, in the
   order handed over — whatever octets the messages contain (any '%', any length), any retry limit *)
Theorem C14_no_fault_exact : forall mr ms, stream mr ms [] = concat (map line ms) /\ snd (send_all mr ms []) = 0.
Proof. exact no_fault_exact. Qed.
Print Assumptions C14_no_fault_exact.

(* any fault schedule: what the sink receives is the lines of a sub-list of the messages: in order,
   duplicate free, each line intact *)
Theorem C14_faulty_subsequence : forall mr ms o,
  exists keep, length keep = length ms /\ fst (send_all mr ms o) = map line (select keep ms).
Proof. exact faulty_subsequence. Qed.
Print Assumptions C14_faulty_subsequence.

(* the gap is bounded by the faults: at most one message lost per scheduled fault event *)
Theorem C14_gap_bound : forall mr ms o, (length ms - length (fst (send_all mr ms o)) <= length o)%nat.
Proof. exact gap_bound. Qed.
Print Assumptions C14_gap_bound.

(* ---------- connection level: partial writes (the producer blocked in the middle of a message) ---------- *)
From VF Require Model.ProducerConn Proofs.ProducerConnProofs Gen.RawSocket.
Import Model.ProducerConn.

(* the send loop of rawSocket.go is the one modelled (regenerated from the source on every run, Gen/RawSocket.v): every
   attempt writes the message received from the channel plus one newline from its first octet, inside the retry loop; the
   message is not changed between attempts; no deadline is ever set on the connection (so an error from Write means the
   connection is dead); failed attempts are counted; redial on "broken pipe"; attempts end when i >= MaxRetry *)
Theorem C14_send_loop_is_the_modelled_one :
  raw_socket_ok Gen.RawSocket.write_form Gen.RawSocket.write_in_loop Gen.RawSocket.msg_stable Gen.RawSocket.counts_errors
                Gen.RawSocket.conn_methods Gen.RawSocket.conn_users Gen.RawSocket.redial_on Gen.RawSocket.retry_break = true.
Proof. vm_compute. reflexivity. Qed.
Print Assumptions C14_send_loop_is_the_modelled_one.

(* any schedule of complete and PARTIAL write failures under which a failed connection stays failed: the complete lines
   written, over all connections in order, are the lines of a sub-list of the messages (in order, none twice, each intact);
   what is left unterminated at the end of a connection is the beginning of a handed-over message, never more *)
Theorem C14_partial_writes_never_corrupt : forall mr ms o,
  dead_ok false o = true ->
  exists keep, length keep = length ms /\
    all_lines (fst (crun mr ms o)) = map line (select keep ms) /\
    Forall (fun c => exists m k, (pend c = [] \/ In m ms) /\ pend c = firstn k m) (fst (crun mr ms o)).
Proof. exact ProducerConnProofs.written_framing. Qed.
Print Assumptions C14_partial_writes_never_corrupt.

(* ... and whatever prefix of each connection's lines the sink has received: in order, duplicate free, uncorrupted *)
Theorem C14_received_is_a_subsequence : forall mr ms o take,
  dead_ok false o = true -> sublist (received take (rev (fst (crun mr ms o)))) (map line ms).
Proof. exact ProducerConnProofs.received_subsequence. Qed.
Print Assumptions C14_received_is_a_subsequence.

(* ... with a bounded gap: every message that was not written in full is accounted for by a scheduled fault *)
Theorem C14_partial_writes_gap_bound : forall mr ms o,
  (length ms <= length (all_lines (fst (crun mr ms o))) + length o)%nat.
Proof. exact ProducerConnProofs.crun_gap_bound. Qed.
Print Assumptions C14_partial_writes_gap_bound.

(* why no deadline may be set: an error that leaves the connection writable puts the retry behind the octets already sent *)
Theorem C14_writable_after_error_corrupts :
  dead_ok false [AErr 2 false false; AOk] = false /\
  all_lines (fst ProducerConnProofs.hazard_run) = [[65; 66; 65; 66; 67; 10]] /\ ~ In [65; 66; 65; 66; 67; 10] (map line [[65; 66; 67]]).
Proof. exact ProducerConnProofs.writable_after_error_corrupts. Qed.
Print Assumptions C14_writable_after_error_corrupts.

(* the discipline predicate is not vacuous: it rejects a loop that sets a write deadline, one that sends a consumed buffer *)
Local Open Scope string_scope.
Example C14_discipline_rejects :
  raw_socket_ok "whole-line" true true true ["SetWriteDeadline"] ["fmt.Fprintf"] "strings.HasSuffix(err.Error(), ""broken pipe"")" "i >= rs.config.MaxRetry" = false /\
  raw_socket_ok "bufs.WriteTo(rs.connection)" true true true [] [] "strings.HasSuffix(err.Error(), ""broken pipe"")" "i >= rs.config.MaxRetry" = false.
Proof. vm_compute. split; reflexivity. Qed.
