(* C14 — The producer delivers every message once, unmodified and in order (raw socket producer).
   Kafka / NSQ / NATS producers hand the message unchanged to their client libraries; they need
   brokers that cannot run in this sandbox and are modelled only up to that hand-over. *)
From VF Require Import Base.Prelude Model.Producer Proofs.ProducerProofs.

(* no faults: the sink receives every message exactly once, byte for byte, newline terminated, in the
   order handed over — whatever octets the messages contain (any '%', any length), any retry limit *)
Theorem C14_no_fault_exact : forall mr ms, stream mr ms [] = concat (map line ms) /\ snd (send_all mr ms []) = 0.
Proof. exact no_fault_exact. Qed.
Print Assumptions C14_no_fault_exact.

(* any fault schedule: what the sink receives is the lines of a sub-list of the messages: in order,
   duplicate free, each line intact *)
Theorem C14_faulty_subsequence : forall mr ms o,
  exists keep, length keep = length ms /\ fst (send_all mr ms o) = map line (select keep ms).
Proof. exact faulty_subsequence. Qed.
Print Assumptions C14_faulty_subsequence.

(* the gap is bounded by the faults: at most one message lost per scheduled fault event *)
Theorem C14_gap_bound : forall mr ms o, (length ms - length (fst (send_all mr ms o)) <= length o)%nat.
Proof. exact gap_bound. Qed.
Print Assumptions C14_gap_bound.
