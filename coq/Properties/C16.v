(* C16 — Mirrored datagrams reach the third-party collector unchanged. *)
From VF Require Import Base.Prelude Model.Mirror Proofs.MirrorProofs.

(* for every payload of up to the configured maximum (itself up to the largest UDP payload), every IPv4
   exporter address in 4-byte or IPv4-mapped 16-byte form, every IPv4 target and port: the emitted
   packet has the exporter as IP source, the configured destination and port, protocol UDP, consistent
   IP and UDP length fields, and the payload byte for byte *)
Theorem C16_mirror_packet : forall max sport src dst port payload s d,
  to4 src = Some s -> to4 dst = Some d -> len payload <= max -> max <= 65507 -> 0 <= port < 65536 -> 0 <= sport < 65536 ->
  exists p, mirror_packet max sport src dst port payload = Ok p /\
    pk_src p = s /\ pk_dst p = d /\ pk_proto p = 17 /\ pk_sport p = sport /\ pk_dport p = port /\
    pk_total_len p = 28 + len payload /\ pk_udp_len p = 8 + len payload /\ pk_payload p = payload /\
    len p = 28 + len payload.
Proof. exact mirror_ok. Qed.
Print Assumptions C16_mirror_packet.

(* in particular it never panics for such inputs (the result is Ok) *)
Theorem C16_never_panics : forall max sport src dst port payload s d,
  to4 src = Some s -> to4 dst = Some d -> len payload <= max -> max <= 65507 -> 0 <= port < 65536 -> 0 <= sport < 65536 ->
  mirror_packet max sport src dst port payload <> Panic.
Proof.
  intros max sport src dst port payload s d H1 H2 H3 H4 H5 H6.
  destruct (mirror_ok max sport src dst port payload s d H1 H2 H3 H4 H5 H6) as (p & -> & _). discriminate.
Qed.
Print Assumptions C16_never_panics.

(* the worker's side: the copy a worker queues for the mirror goroutine.  For any number of workers and any interleaving of
   workers and mirror goroutine, every packet emitted for datagram i was copied out of a buffer that held datagram i: a
   buffer has exactly one owner (free / a worker / the queue / the mirror goroutine) at any time. *)
From VF Require Model.MirrorHandoff Proofs.MirrorHandoffProofs.
Theorem C16_worker_handoff_faithful : forall n s, MirrorHandoff.hreach (MirrorHandoff.hinit n) s ->
  Forall (fun e => snd e = fst e) (MirrorHandoff.emitted s).
Proof. exact MirrorHandoffProofs.mirror_handoff_faithful. Qed.
Print Assumptions C16_worker_handoff_faithful.
