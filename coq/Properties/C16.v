(* C16 — Mirrored datagrams reach the third-party collector unchanged. *)
From VF Require Import Base.Prelude Model.Mirror Proofs.MirrorProofs.

(* for every payload of up to the configured maximum (itself up to the largest UDP payload), every IPv4
   exporter address in 4-byte or IPv4-mapped 16-byte form, every IPv4 target and port: the emitted
   packet has the exporter as IP source, the configured destination and port, protocol UDP, consistent
   IP and UDP length fields, and the payload byte for byte *)
Theorem C16_mirror_packet : forall max sport src dst port payload s d,
  to4 src = Some s -> to4 dst = Some d -> len payload <= max -> max <= 65507 -> 0 <= port < 65536 -> 0 <= sport < 65536 ->
  exists p, mirror_packet max sport src dst port payload = Ok p /\
    pk_src p = s /\ pk_dst p = d /\ pk_proto p = 17 /\ pk_sport p = sport /\ pk_dport p = port /\
    pk_total_len p = 28 + len payload /\ pk_udp_len p = 8 + len payload /\ pk_payload p = payload /\
    len p = 28 + len payload.
Proof. exact mirror_ok. Qed.
Print Assumptions C16_mirror_packet.

(* in particular it never panics for such inputs (the result is Ok) *)
Theorem C16_never_panics : forall max sport src dst port payload s d,
  to4 src = Some s -> to4 dst = Some d -> len payload <= max -> max <= 65507 -> 0 <= port < 65536 -> 0 <= sport < 65536 ->
  mirror_packet max sport src dst port payload <> Panic.
Proof.
  intros max sport src dst port payload s d H1 H2 H3 H4 H5 H6.
  destruct (mirror_ok max sport src dst port payload s d H1 H2 H3 H4 H5 H6) as (p & -> & _). discriminate.
Qed.
Print Assumptions C16_never_panics.

(* the worker's side: the copy a worker queues for the mirror goroutine.  For any number of workers and any interleaving of
   workers and mirror goroutine, every packet emitted for datagram i was copied out of a buffer that held datagram i: a
   buffer has exactly one owner (free / a worker / the queue / the mirror goroutine) at any time. *)
From VF Require Model.MirrorHandoff Proofs.MirrorHandoffProofs.
Theorem C16_worker_handoff_faithful : forall n s, MirrorHandoff.hreach (MirrorHandoff.hinit n) s ->
  Forall (fun e => snd e = fst e) (MirrorHandoff.emitted s).
Proof. exact MirrorHandoffProofs.mirror_handoff_faithful. Qed.
Print Assumptions C16_worker_handoff_faithful.

(* the DISPATCHER between the workers' mirror queue and the mirror workers (regenerated from the source on every run, Gen/Dispatch.v):
   its endless loop takes a message and sends it to one of two queues by the family of the exporter's address, To4() != nil, and
   the mirror workers are started on the queue of the target's family; nothing else happens in either loop (no index into the
   address, no computed worker number, no drop) *)
From VF Require Model.MirrorDispatch Proofs.MirrorDispatchProofs Gen.Dispatch.
Theorem C16_dispatcher_is_the_modelled_one : forall p st lp, In (p, st, lp) Gen.Dispatch.dispatchers ->
  st = ["if dst.To4() != nil then Q4 else Q6"]%string /\ lp = ["recv"; "if msg.raddr.IP.To4() != nil then Q4 else Q6"]%string.
Proof.
  intros p st lp Hin. unfold Gen.Dispatch.dispatchers in Hin. cbn [In] in Hin.
  repeat (destruct Hin as [Hin|Hin]; [injection Hin as _ <- <-; split; reflexivity|]). contradiction.
Qed.
Print Assumptions C16_dispatcher_is_the_modelled_one.

(* that dispatcher loses and duplicates nothing, keeps the arrival order within a family, and is TOTAL: exporter addresses of 4 octets
   (an AF_INET listener), IPv4-mapped ones of 16 octets, and addresses of any other length are classified, never indexed into *)
Theorem C16_dispatch_loses_nothing : forall (M : Type) (addr_of : M -> bytes) (msgs : list M),
  (length (fst (MirrorDispatch.dispatch addr_of msgs)) + length (snd (MirrorDispatch.dispatch addr_of msgs)) = length msgs)%nat.
Proof. exact @MirrorDispatchProofs.dispatch_lengths. Qed.
Print Assumptions C16_dispatch_loses_nothing.

Theorem C16_served_queue_is_the_family_in_arrival_order : forall (M : Type) (addr_of : M -> bytes) dst (msgs : list M),
  MirrorDispatch.served dst (MirrorDispatch.dispatch addr_of msgs) =
  filter (fun m => Bool.eqb (MirrorDispatch.is4 (addr_of m)) (MirrorDispatch.is4 dst)) msgs.
Proof. exact @MirrorDispatchProofs.served_is_the_family_in_order. Qed.
Print Assumptions C16_served_queue_is_the_family_in_arrival_order.

Theorem C16_both_forms_of_an_ipv4_exporter_are_ipv4 : forall a, length a = 4%nat ->
  MirrorDispatch.is4 a = true /\ MirrorDispatch.is4 (repeat 0 10 ++ [255; 255] ++ a) = true.
Proof. intros a H. split; [apply MirrorDispatchProofs.is4_four|apply MirrorDispatchProofs.is4_mapped]; exact H. Qed.
Print Assumptions C16_both_forms_of_an_ipv4_exporter_are_ipv4.
