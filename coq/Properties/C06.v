(* C06 — NetFlow v9 records are decoded exactly as their templates describe.
   The specification side (the w* types of Proofs/IpfixFidelity.v, reused, and the encoders of
   Proofs/Nf9Fidelity.v) lays an export packet out as RFC 3954 describes: header, template flowsets (id 0),
   options-template flowsets (id 1, scope and option LENGTHS in octets), data flowsets whose records consist of
   one content string per template field (scope fields first), 0..3 padding octets.  The theorem is the round trip
   through the decoder model, for ANY information model, header layout contents, exporter address and cache
   state. *)
From VF Require Import Base.Prelude Model.Reader Model.Layout Model.JsonPieces Model.Flow Model.Cache Model.Nf9
  Spec.FlowWire Proofs.LayoutProofs Proofs.IpfixFidelity Proofs.Nf9Fidelity.
From VF Require Gen.Layouts.

(* Every well-formed packet decodes to the wire header fields and exactly one entry per data record, in wire
   order, each listing the record's fields in template order (scope first) with the field type id and the value
   interpreted by the field type's data type (raw octets when shorter: that is `interpret`); the templates it
   announces are in force afterwards.  Well-formedness (sets_ok9) includes the implementation's padding rule
   (tail_ok9: the last record of a flowset plus the padding exceeds 4 octets) - see
   C06_refuted_last_short_record for what happens otherwise. *)
Theorem C06_nf9_fidelity_partial : forall (im : infomodel) (a : bytes) (m : amap) hvals sets,
  fits Gen.Layouts.nf9_header_layout hvals ->
  field_get "Version" (named9 Gen.Layouts.nf9_header_layout hvals) = 9 ->
  sets_ok9 im a m sets ->
  nf9_decode am_ops im Gen.Layouts.nf9_header_layout m a
     (enc_layout Gen.Layouts.nf9_header_layout hvals ++ flat_map enc_set9 sets)
  = Ok (final_map9 a m sets,
        DMsg {| n9_agent := a; n9_header := named9 Gen.Layouts.nf9_header_layout hvals;
                n9_sets := expected_sets9 im sets |} 0).
Proof. intros im a m hvals sets. apply nf9_fidelity. Qed.
Print Assumptions C06_nf9_fidelity_partial.

(* one record, any template or options template, any contents: field type id and typed value per field, in
   template order, scope fields first *)
Theorem C06_record_fidelity : forall (im : infomodel) tr ws rest c,
  rec_matches tr ws -> Forall (wfield9_ok im) ws ->
  decode_data9 im tr {| data := enc_record9 ws ++ rest; count := c |}
  = Ok (Some (expected_record9 im ws), {| data := rest; count := c + len (enc_record9 ws) |}).
Proof. intros im. apply decode_data9_fidelity. Qed.
Print Assumptions C06_record_fidelity.

(* a template / options-template record is parsed to exactly the announced field specifiers *)
Theorem C06_template_fidelity : forall t rest c, wtemplate9_ok t ->
  (if wt_opts t then read_opts_template9 else read_template9) {| data := enc_wtemplate9 t ++ rest; count := c |}
  = Ok (template_of9 t, {| data := rest; count := c + len (enc_wtemplate9 t) |}).
Proof. exact read_wtemplate9_fidelity. Qed.
Print Assumptions C06_template_fidelity.

(* The full statement (without tail_ok9) is FALSE of the code: a data flowset of three 4-octet records, no
   padding, yields two records.  Evaluated in the kernel; replayed on the implementation it is the recorded
   finding 'last-record-le4' (known_findings.json). *)
Definition le4_im : infomodel := fun pen id => if (pen =? 0) && (id =? 8) then Some (8, T_Ipv4Address) else None.
Definition le4_tpl : wtemplate := {| wt_opts := false; wt_id := 256; wt_scope := []; wt_fields := [{| ws_id := 8; ws_len := 4; ws_ent := None |}] |}.
Definition le4_rec (x : Z) : list wfield := [{| w_spec := to_fspec {| ws_id := 8; ws_len := 4; ws_ent := None |}; w_content := [10; 0; 0; x]; w_long := false |}].
Definition le4_sets : list wset := [WTpl false [le4_tpl] []; WData 256 [le4_rec 1; le4_rec 2; le4_rec 3] []].

Theorem C06_refuted_last_short_record :
  exists im hvals sets,
    length (expected_sets9 im sets) = 3%nat /\
    match nf9_decode am_ops im Gen.Layouts.nf9_header_layout [] [192; 0; 2; 1]
            (enc_layout Gen.Layouts.nf9_header_layout hvals ++ flat_map enc_set9 sets) with
    | Ok (_, DMsg msg _) => length (n9_sets msg) = 2%nat
    | _ => False
    end.
Proof. exists le4_im, [9; 2; 1000; 2000; 7; 0], le4_sets. vm_compute. split; reflexivity. Qed.
Print Assumptions C06_refuted_last_short_record.

(* non-vacuity: an options template with a scope field and two option fields, two flowsets, padding *)
Definition ex_im : infomodel := fun pen id =>
  if (pen =? 0) && (id =? 8) then Some (8, T_Ipv4Address) else if (pen =? 0) && (id =? 82) then Some (82, T_String)
  else if (pen =? 0) && (id =? 1) then Some (1, T_Uint64) else None.
Definition ex_tpl1 : wtemplate := {| wt_opts := true; wt_id := 300; wt_scope := [{| ws_id := 8; ws_len := 4; ws_ent := None |}];
                                     wt_fields := [{| ws_id := 82; ws_len := 4; ws_ent := None |}; {| ws_id := 1; ws_len := 2; ws_ent := None |}] |}.
Definition ex_rec (x : Z) : list wfield :=
  [{| w_spec := to_fspec {| ws_id := 8; ws_len := 4; ws_ent := None |}; w_content := [10; 0; 1; x]; w_long := false |};
   {| w_spec := to_fspec {| ws_id := 82; ws_len := 4; ws_ent := None |}; w_content := [101; 116; 104; 48]; w_long := false |};
   {| w_spec := to_fspec {| ws_id := 1; ws_len := 2; ws_ent := None |}; w_content := [3; 232]; w_long := false |}].
Example C06_instance : sets_ok9 ex_im [10; 0; 0; 1] [] [WTpl true [ex_tpl1] [0; 0]; WData 300 [ex_rec 1; ex_rec 2] [0; 0; 0]; WData 300 [ex_rec 3] []].
Proof.
  assert (Hm : forall x, Forall (rec_matches (template_of9 ex_tpl1)) [ex_rec x]).
  { intros x. constructor; [|constructor]. exists (firstn 1 (ex_rec x)), (skipn 1 (ex_rec x)). repeat split; try reflexivity. discriminate. }
  assert (Hf : forall x, Forall (wfield9_ok ex_im) (ex_rec x)).
  { intros x. repeat constructor; cbn; try (eexists; eexists; reflexivity). }
  cbn [sets_ok9]. repeat split.
  - repeat constructor; cbn; try lia; try discriminate; try (intros; discriminate).
  - repeat constructor.
  - discriminate.
  - cbn; lia.
  - exists (template_of9 ex_tpl1). split; [lia|]. split; [vm_compute; reflexivity|].
    constructor; [apply (Forall_inv (Hm 1))|apply Hm].
  - constructor; [apply Hf|constructor; [apply Hf|constructor]].
  - repeat constructor; vm_compute; reflexivity.
  - discriminate.
  - cbn; lia.
  - vm_compute. intros H; discriminate H.
  - exists (template_of9 ex_tpl1). split; [lia|]. split; [vm_compute; reflexivity|]. apply Hm.
  - constructor; [apply Hf|constructor].
  - repeat constructor; vm_compute; reflexivity.
  - discriminate.
  - cbn; lia.
  - vm_compute. intros H; discriminate H.
Qed.

(* `interpret` above is the hand-written model of ipfix.Interpret; it equals, for every FieldType constant and every octet
   string, the interpretation driven by the tables regenerated from the CURRENT ipfix/interpret.go (minimum length and
   returned value per type): a changed minimum length, a type dropped from a case list or a changed conversion breaks this *)
From VF Require Proofs.TieInterp Gen.InfoModel.
Theorem C06_interpret_is_the_source : forall name v, In (name, v) Gen.InfoModel.type_consts ->
  forall b, interpret v b = TieInterp.interpret_src name b.
Proof. exact TieInterp.tie_interpret. Qed.
Print Assumptions C06_interpret_is_the_source.
