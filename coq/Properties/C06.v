(* C06 — NetFlow v9 records are decoded exactly as their templates describe (theorems added as proved). *)
From VF Require Import Base.Prelude Model.Reader Model.Flow Model.Nf9.
