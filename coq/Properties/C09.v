(* C09 — An undecodable set never corrupts its neighbours; truncation never fabricates (theorems added as proved). *)
From VF Require Import Base.Prelude Model.Flow.
