(* C09 — An undecodable set never corrupts its neighbours; truncation never fabricates.
   First half: a well-formed message (the specification side of C03 / C06) with ANY number of undecodable sets
   inserted at ANY positions - reserved set id, template id unknown for this exporter at that point, data set
   whose template uses an element missing from the information model; any body octets - decodes to the same
   header, the same records in the same order and the same template cache as the message without them, and each
   such set is passed over by exactly its declared length whatever follows it.
   Second half: for ANY datagram at all (no well-formedness), cut at ANY octet: if the truncated datagram still
   yields a message, the complete datagram is either rejected as a whole or yields the same header and a record
   list of which the truncated one is a prefix.  For any template cache implementation, information model and
   header layout. *)
From VF Require Import Base.Prelude Model.Reader Model.Layout Model.JsonPieces Model.Flow Model.Cache Model.Ipfix Model.Nf9
  Spec.FlowWire Proofs.LayoutProofs Proofs.IpfixFidelity Proofs.Nf9Fidelity Proofs.SkipSets Proofs.SkipSets9
  Proofs.Truncation Proofs.Truncation9.
From VF Require Gen.Layouts.

(* `_partial`: well-formedness of the surrounding message is that of C03/C06 (sets_ok), which includes the
   implementation's padding rule tail_ok; data sets ending in a record of <= 4 octets are the recorded finding
   of C03/C06 and are not covered here. *)
Theorem C09_ipfix_skip_undecodable_partial : forall (im : infomodel) (a : bytes) (m : amap) hvals xs,
  fits Gen.Layouts.ipfix_header_layout hvals ->
  field_get "Version" (named_fields Gen.Layouts.ipfix_header_layout hvals) = 10 ->
  xsets_ok im a m xs ->
  exists nf,
    ipfix_decode am_ops im Gen.Layouts.ipfix_header_layout m a
      (enc_layout Gen.Layouts.ipfix_header_layout hvals ++ flat_map (enc_xset im) xs)
    = Ok (final_map a m (goods xs),
          DMsg {| i_agent := a; i_header := named_fields Gen.Layouts.ipfix_header_layout hvals;
                  i_sets := expected_sets im (goods xs) |} nf)
    /\ ipfix_decode am_ops im Gen.Layouts.ipfix_header_layout m a
      (enc_layout Gen.Layouts.ipfix_header_layout hvals ++ flat_map (enc_set im) (goods xs))
    = Ok (final_map a m (goods xs),
          DMsg {| i_agent := a; i_header := named_fields Gen.Layouts.ipfix_header_layout hvals;
                  i_sets := expected_sets im (goods xs) |} 0).
Proof. intros im a m hvals xs. apply ipfix_skip_undecodable. Qed.
Print Assumptions C09_ipfix_skip_undecodable_partial.

Theorem C09_nf9_skip_undecodable_partial : forall (im : infomodel) (a : bytes) (m : amap) hvals xs,
  fits Gen.Layouts.nf9_header_layout hvals ->
  field_get "Version" (named9 Gen.Layouts.nf9_header_layout hvals) = 9 ->
  xsets_ok9 im a m xs ->
  exists nf,
    nf9_decode am_ops im Gen.Layouts.nf9_header_layout m a
      (enc_layout Gen.Layouts.nf9_header_layout hvals ++ flat_map enc_xset9 xs)
    = Ok (final_map9 a m (goods9 xs),
          DMsg {| n9_agent := a; n9_header := named9 Gen.Layouts.nf9_header_layout hvals;
                  n9_sets := expected_sets9 im (goods9 xs) |} nf)
    /\ nf9_decode am_ops im Gen.Layouts.nf9_header_layout m a
      (enc_layout Gen.Layouts.nf9_header_layout hvals ++ flat_map enc_set9 (goods9 xs))
    = Ok (final_map9 a m (goods9 xs),
          DMsg {| n9_agent := a; n9_header := named9 Gen.Layouts.nf9_header_layout hvals;
                  n9_sets := expected_sets9 im (goods9 xs) |} 0).
Proof. intros im a m hvals xs. apply nf9_skip_undecodable. Qed.
Print Assumptions C09_nf9_skip_undecodable_partial.

(* skipped by its declared length: whatever octets follow, whatever was decoded before, the cache untouched *)
Theorem C09_ipfix_undecodable_set_skipped : forall (im : infomodel) (a : bytes) (m : amap) sid body rest cnt ds,
  bad_ok im a m sid body ->
  exists e, decode_set am_ops im a m {| data := enc_bad sid body ++ rest; count := cnt |} ds
            = Ok (m, Ipfix.SCont {| data := rest; count := cnt + len (enc_bad sid body) |} ds e).
Proof. exact bad_set_skipped. Qed.
Print Assumptions C09_ipfix_undecodable_set_skipped.

Theorem C09_nf9_undecodable_set_skipped : forall (im : infomodel) (a : bytes) (m : amap) sid body rest cnt ds,
  bad_ok9 im a m sid body ->
  exists e, decode_set9 am_ops im a m {| data := enc_bad9 sid body ++ rest; count := cnt |} ds
            = Ok (m, Nf9.SCont {| data := rest; count := cnt + len (enc_bad9 sid body) |} ds e).
Proof. exact bad_set9_skipped. Qed.
Print Assumptions C09_nf9_undecodable_set_skipped.

(* truncation: any cache implementation, any datagram p, any cut n *)
Theorem C09_ipfix_truncation_prefix : forall (C : Type) (ops : cache_ops C) im hl (c : C) (a p : bytes) (n : nat) c1 m1 nf1 res,
  ipfix_decode ops im hl c a (firstn n p) = Ok (c1, DMsg m1 nf1) ->
  ipfix_decode ops im hl c a p = Ok res ->
  snd res = DFail \/
  exists m2 nf2, snd res = DMsg m2 nf2 /\ i_agent m2 = i_agent m1 /\ i_header m2 = i_header m1 /\ is_prefix (i_sets m1) (i_sets m2).
Proof. intros C ops im hl. apply ipfix_truncation_prefix. Qed.
Print Assumptions C09_ipfix_truncation_prefix.

Theorem C09_nf9_truncation_prefix : forall (C : Type) (ops : cache_ops C) im hl (c : C) (a p : bytes) (n : nat) c1 m1 nf1 res,
  nf9_decode ops im hl c a (firstn n p) = Ok (c1, DMsg m1 nf1) ->
  nf9_decode ops im hl c a p = Ok res ->
  snd res = DFail \/
  exists m2 nf2, snd res = DMsg m2 nf2 /\ n9_agent m2 = n9_agent m1 /\ n9_header m2 = n9_header m1 /\ is_prefix (n9_sets m1) (n9_sets m2).
Proof. intros C ops im hl. apply nf9_truncation_prefix. Qed.
Print Assumptions C09_nf9_truncation_prefix.

(* ---- non-vacuity ---- *)
Definition ex_im : infomodel := fun pen id =>
  if (pen =? 0) && (id =? 8) then Some (8, T_Ipv4Address) else if (pen =? 0) && (id =? 1) then Some (1, T_Uint64) else None.
Definition ex_tpl : wtemplate := {| wt_opts := false; wt_id := 256; wt_scope := [];
  wt_fields := [{| ws_id := 8; ws_len := 4; ws_ent := None |}; {| ws_id := 1; ws_len := 8; ws_ent := None |}] |}.
(* a template over an element the model lacks (id 999), announced so that data for it is undecodable *)
Definition ex_tpl_missing : wtemplate := {| wt_opts := false; wt_id := 300; wt_scope := [];
  wt_fields := [{| ws_id := 8; ws_len := 4; ws_ent := None |}; {| ws_id := 999; ws_len := 4; ws_ent := None |}] |}.
Definition ex_rec (x : Z) : list wfield :=
  [{| w_spec := to_fspec {| ws_id := 8; ws_len := 4; ws_ent := None |}; w_content := [10; 0; 0; x]; w_long := false |};
   {| w_spec := to_fspec {| ws_id := 1; ws_len := 8; ws_ent := None |}; w_content := [0; 0; 0; 0; 0; 0; 3; x]; w_long := false |}].
Definition ex_done : list wfield :=
  [{| w_spec := to_fspec {| ws_id := 8; ws_len := 4; ws_ent := None |}; w_content := [10; 9; 9; 9]; w_long := false |}].
Definition ex_xs : list xset :=
  [XBad 5000 [1; 2; 3; 4; 5; 6; 7; 8];                                    (* unknown template *)
   XGood (WTpl false [ex_tpl; ex_tpl_missing] []);
   XBad 100 [9; 9; 9; 9; 9];                                              (* reserved id *)
   XGood (WData 256 [ex_rec 1; ex_rec 2] []);
   XBad 300 (enc_record ex_im ex_done ++ [7; 7; 7; 7; 7; 7; 7; 7]);       (* element missing from the model *)
   XGood (WData 256 [ex_rec 3] [0; 0]);
   XBad 4 []].
Example C09_skip_instance : xsets_ok ex_im [10; 0; 0; 1] [] ex_xs.
Proof.
  assert (Hm : forall x, rec_matches (template_of ex_tpl) (ex_rec x)).
  { intros x. exists [], (ex_rec x). repeat split; try reflexivity. discriminate. }
  assert (Hf : forall x, Forall (wfield_ok ex_im) (ex_rec x)).
  { intros x. repeat constructor; cbn; try (eexists; eexists; reflexivity). }
  cbn [xsets_ok ex_xs]. split; [|split; [|split; [|split; [|split; [|split; [|split]]]]]]; try exact I.
  - split; [cbn; lia|]. right; left. split; [lia|reflexivity].
  - cbn [sets_ok]. repeat split; try discriminate; try (cbn; lia); repeat constructor; cbn; try lia; try discriminate; intros; discriminate.
  - split; [cbn; lia|]. left; lia.
  - cbn [sets_ok]. split; [|split; [|split; [|split; [|split; [|split; [|split]]]]]]; try exact I.
    + exists (template_of ex_tpl). split; [lia|]. split; [vm_compute; reflexivity|]. repeat constructor; apply Hm.
    + repeat constructor; cbn; try (eexists; eexists; reflexivity).
    + repeat constructor; vm_compute; reflexivity.
    + discriminate.
    + cbn; lia.
    + vm_compute. intros H; discriminate H.
    + cbn; lia.
  - split; [vm_compute; reflexivity|]. right; right. split; [lia|].
    exists (template_of ex_tpl_missing), ex_done, [7; 7; 7; 7; 7; 7; 7; 7]. split; [vm_compute; reflexivity|]. split; [|reflexivity].
    split; [repeat constructor; cbn; try (eexists; eexists; reflexivity)|].
    right. exists [], ex_done, (to_fspec {| ws_id := 999; ws_len := 4; ws_ent := None |}), []. repeat split; reflexivity.
  - cbn [sets_ok]. split; [|split; [|split; [|split; [|split; [|split; [|split]]]]]]; try exact I.
    + exists (template_of ex_tpl). split; [lia|]. split; [vm_compute; reflexivity|]. repeat constructor; apply Hm.
    + repeat constructor; cbn; try (eexists; eexists; reflexivity).
    + repeat constructor; vm_compute; reflexivity.
    + discriminate.
    + cbn; lia.
    + vm_compute. intros H; discriminate H.
    + cbn; lia.
  - split; [cbn; lia|]. left; lia.
Qed.

(* the truncation theorem's premise is met by a strict truncation that still yields records: cutting the message
   of C09_skip_instance after its first data set gives 2 of the 3 records *)
Definition ex_msg : bytes := enc_layout Gen.Layouts.ipfix_header_layout [10; 200; 1; 2; 3] ++ flat_map (enc_xset ex_im) ex_xs.
Example C09_truncation_instance :
  match ipfix_decode am_ops ex_im Gen.Layouts.ipfix_header_layout [] [10; 0; 0; 1] (firstn 110 ex_msg),
        ipfix_decode am_ops ex_im Gen.Layouts.ipfix_header_layout [] [10; 0; 0; 1] ex_msg with
  | Ok (_, DMsg m1 _), Ok (_, DMsg m2 _) => length (i_sets m1) = 2%nat /\ length (i_sets m2) = 3%nat /\ firstn 2 (i_sets m2) = i_sets m1
  | _, _ => False
  end.
Proof. vm_compute. repeat split. Qed.
