(* C12 — A published message depends only on its own datagram.
   Over ALL schedules (every reachable state of the interleaving semantics of receive loop, any number
   of workers, pool and queues) and for any per-datagram processing function (each protocol's
   sequential decode + encode): every message in the producer queue is exactly what processing ONE
   received datagram — the one the message was dequeued for — produces, in some cache state. *)
From VF Require Import Base.Prelude Model.Pipeline Proofs.PipelineProofs.

Theorem C12_published_is_own : forall (C P : Type) (process : C -> nat -> C * option P * bool) n c s,
  reachable C P process (init C P n c) s ->
  forall i p, In (i, p) (mq s) -> (i < recvd s)%nat /\ exists c', snd (fst (process c' i)) = Some p.
Proof.
  intros C P process n c s Hr i p Hin.
  destruct (reachable_inv C P process n c s Hr) as [_ (_ & _ & Hlt & _ & Hincl & _ & Hpub)].
  split; [|eapply Hpub; exact Hin].
  apply Hlt. unfold live. apply in_or_app; right; apply in_or_app; right. apply Hincl.
  apply in_map_iff. exists (i, p). split; [reflexivity|exact Hin].
Qed.
Print Assumptions C12_published_is_own.

(* the mechanism: receive buffers are owned by exactly one party at a time, and a buffer queued for or
   held by a worker still holds the datagram it was filled with *)
Theorem C12_buffer_ownership : forall (C P : Type) (process : C -> nat -> C * option P * bool) n c s,
  reachable C P process (init C P n c) s -> Own C P s.
Proof. intros C P process n c s Hr. exact (proj1 (reachable_inv C P process n c s Hr)). Qed.
Print Assumptions C12_buffer_ownership.

(* buffer LENGTHS: the receive loop reads into whatever slice the pool hands out.  Every Put in the pipelines re-slices to
   the pool's full size and every New makes a slice of that size (regenerated from the source, Gen/Pools.v); then every slice
   handed out has the full size, whatever the order of operations - a datagram is never truncated by a recycled buffer *)
From VF Require Model.PoolSize Proofs.PoolSizeProofs Gen.Pools.
Theorem C12_pool_slices_are_put_back_full_size : forall f p o ok, In (f, p, o, ok) Gen.Pools.pool_uses -> ok = true.
Proof.
  assert (H : forallb (fun x => snd x) Gen.Pools.pool_uses = true) by (vm_compute; reflexivity).
  intros f p o ok Hin. rewrite forallb_forall in H. exact (H _ Hin).
Qed.
Print Assumptions C12_pool_slices_are_put_back_full_size.

Theorem C12_pool_hands_out_full_size : forall size ops p,
  Forall (fun l => l = size) p -> Forall (fun o => match o with PoolSize.PPut l => l = size | _ => True end) ops ->
  Forall (fun out => match out with Some l => l = size | None => True end) (PoolSize.pool_run size p ops).
Proof. exact PoolSizeProofs.pool_hands_out_full_size. Qed.
Print Assumptions C12_pool_hands_out_full_size.

(* the worker loops themselves: the sequence of shared-state statements of each of the four loops, REGENERATED from the Go
   source (Gen/Workers.v), satisfies the discipline the pipeline model assumes (Model/WorkerDiscipline.v): the receive buffer is
   returned exactly once per iteration, full-size, never while the decoded message is still to be encoded; the mirror copy goes
   into a fresh buffer before decoding; one Decode, then one Count, before Marshal; what is queued is a fresh copy *)
From VF Require Model.WorkerDiscipline Gen.Workers.
Theorem C12_workers_follow_the_buffer_discipline : forall p evs, In (p, evs) Gen.Workers.workers -> WorkerDiscipline.worker_ok evs = true.
Proof.
  assert (H : forallb (fun x => WorkerDiscipline.worker_ok (snd x)) Gen.Workers.workers = true) by (vm_compute; reflexivity).
  intros p evs Hin. rewrite forallb_forall in H. exact (H _ Hin).
Qed.
Print Assumptions C12_workers_follow_the_buffer_discipline.

(* the discipline is not vacuous: returning the buffer before the message is encoded, returning a short slice, or queueing the
   encode buffer itself are all rejected *)
Example C12_discipline_rejects :
  WorkerDiscipline.worker_ok ["Put:full"; "Recv"; "Decode"; "Put:full"; "Count"; "Marshal"; "Continue"; "Publish:copy"]%string = false /\
  WorkerDiscipline.worker_ok ["Recv"; "Decode"; "Put:full"; "Continue"; "Count"; "Put:other"; "Continue"; "Marshal"; "Put:full"; "Continue"; "Publish:copy"; "Put:full"]%string = false /\
  WorkerDiscipline.worker_ok ["Put:full"; "Recv"; "Decode"; "Continue"; "Count"; "Marshal"; "Continue"; "Publish:other"]%string = false.
Proof. vm_compute. repeat split. Qed.
