(* C11 — Template cache survives restart; any cache file content is safe to load. *)
From VF Require Import Base.Prelude Model.Flow Model.Cache Model.CacheFile Model.Ipfix Model.Nf9 Model.History
  Proofs.CacheProofs Proofs.CacheFileProofs Proofs.IpfixHistory Proofs.Nf9History.

(* whatever the file contains (every parsed document, or no document at all), the loaded cache is well-formed ... *)
Theorem C11_load_safe : forall d, wf_cache (get_cache d).
Proof. exact load_safe. Qed.
Print Assumptions C11_load_safe.

(* ... so every history decoded with it neither panics nor hangs (with C01) *)
Theorem C11_loaded_cache_usable_ipfix : forall d im hl h,
  exists c' ds, run_history (ipfix_decode cc_ops im hl) (get_cache d) h = Ok (c', ds) /\ wf_cache c'.
Proof.
  intros d im hl h. destruct (IpfixHistory.history_safe im hl h (get_cache d) (load_safe d)) as (c' & ds & E & Hw & _).
  eauto.
Qed.
Print Assumptions C11_loaded_cache_usable_ipfix.

Theorem C11_loaded_cache_usable_nf9 : forall d im hl h,
  exists c' ds, run_history (nf9_decode cc_ops im hl) (get_cache d) h = Ok (c', ds) /\ wf_cache c'.
Proof.
  intros d im hl h. destruct (Nf9History.history_safe im hl h (get_cache d) (load_safe d)) as (c' & ds & E & Hw & _).
  eauto.
Qed.
Print Assumptions C11_loaded_cache_usable_nf9.

(* it contains only templates that are in the file *)
Theorem C11_load_only_saved : forall d id a t, cc_retrieve (get_cache d) id a = Ok (Some t) ->
  exists c n, d = Some (c, n) /\ cc_retrieve c id a = Ok (Some t).
Proof. exact load_only_saved. Qed.
Print Assumptions C11_load_only_saved.

(* saving a (reachable, hence well-formed) cache and loading it back gives the same cache, hence the same decode of
   every exporter's data *)
Theorem C11_roundtrip : forall c, wf_cache c -> get_cache (dump_doc c) = c.
Proof. exact roundtrip. Qed.
Print Assumptions C11_roundtrip.

Theorem C11_roundtrip_decodes_alike : forall c im hl h, wf_cache c ->
  run_history (ipfix_decode cc_ops im hl) (get_cache (dump_doc c)) h = run_history (ipfix_decode cc_ops im hl) c h
  /\ run_history (nf9_decode cc_ops im hl) (get_cache (dump_doc c)) h = run_history (nf9_decode cc_ops im hl) c h.
Proof. intros c im hl h H. rewrite (roundtrip c H). split; reflexivity. Qed.
Print Assumptions C11_roundtrip_decodes_alike.

(* a file that does not parse (absent, empty, a crash prefix) loads as the fresh cache *)
Theorem C11_unparsable_is_fresh : get_cache None = empty_ccache.
Proof. exact unparsable_is_fresh. Qed.
Print Assumptions C11_unparsable_is_fresh.

(* the saved file IS the document: Dump writes the file with a call that replaces an existing file (regenerated from the
   source, Gen/FileWrite.v); written in place instead, a shorter document would be followed by the stale tail of the older one *)
From VF Require Model.FileStore Proofs.FileStoreProofs Gen.FileWrite.
Theorem C11_dump_replaces_the_file : forall p how t, In (p, how, t) Gen.FileWrite.dump_write -> t = true.
Proof.
  intros p how t Hin. unfold Gen.FileWrite.dump_write in Hin. cbn [In] in Hin.
  repeat (destruct Hin as [Hin|Hin]; [injection Hin as _ _ <-; reflexivity|]). contradiction.
Qed.
Print Assumptions C11_dump_replaces_the_file.

(* ... and the loaded document IS the file: GetCache hands json.Unmarshal the whole file whatever its size (regenerated from the
   source, Gen/FileWrite.v); read through a limit, a fixed buffer or a single Read, a large cache would come back as a prefix,
   i.e. as a file left by a crash while saving: rejected, and every template in it forgotten *)
Theorem C11_load_reads_the_whole_file : forall p how w, In (p, how, w) Gen.FileWrite.load_read -> w = true.
Proof.
  intros p how w Hin. unfold Gen.FileWrite.load_read in Hin. cbn [In] in Hin.
  repeat (destruct Hin as [Hin|Hin]; [injection Hin as _ _ <-; reflexivity|]). contradiction.
Qed.
Print Assumptions C11_load_reads_the_whole_file.

Theorem C11_whole_read_is_the_file : forall file, FileStore.read_file None file = file.
Proof. exact FileStoreProofs.read_whole. Qed.
Print Assumptions C11_whole_read_is_the_file.

Theorem C11_limited_read_is_a_crash_prefix : forall n file, (n < length file)%nat ->
  exists rest, rest <> [] /\ file = FileStore.read_file (Some n) file ++ rest /\ length (FileStore.read_file (Some n) file) = n.
Proof. exact FileStoreProofs.read_limited_is_a_proper_prefix. Qed.
Print Assumptions C11_limited_read_is_a_crash_prefix.

Theorem C11_replacing_write_leaves_the_document : forall old new, FileStore.write_file true old new = new.
Proof. exact FileStoreProofs.write_truncating. Qed.
Print Assumptions C11_replacing_write_leaves_the_document.

Theorem C11_in_place_write_keeps_a_stale_tail : forall old new, (length new < length old)%nat ->
  exists junk, junk <> [] /\ FileStore.write_file false old new = new ++ junk.
Proof. exact FileStoreProofs.write_in_place_keeps_tail. Qed.
Print Assumptions C11_in_place_write_keeps_a_stale_tail.
