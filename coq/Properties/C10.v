(* C10 — Concurrent decoding, dumping and peer lookups keep the template cache sound.
   The lock / map-access skeleton of every cache function is REGENERATED from the Go source
   (Gen/Locks.v); the kernel checks that every function, instantiated at each of the 32 shards, is a
   balanced lock-protocol-respecting operation; the generic theorem then covers any number of threads
   running any sequences of these operations under any schedule. *)
From VF Require Import Base.Prelude Model.LockProto Proofs.LockProofs.
From VF Require Gen.Locks.

(* every cache function at every shard *)
Definition all_ops : list (list ev) :=
  flat_map (fun f => map (fun s => inst s (snd f)) (seq 0 nshards)) Gen.Locks.cache_functions.

Theorem C10_functions_respect_protocol : forallb balanced all_ops = true.
Proof. vm_compute. reflexivity. Qed.
Print Assumptions C10_functions_respect_protocol.

Lemma ops_balanced (threads : list (list (list ev))) :
  Forall (Forall (fun op => In op all_ops)) threads -> forallb (forallb balanced) threads = true.
Proof.
  intros H. apply forallb_forall. intros ops Hops. apply forallb_forall. intros op Hop.
  pose proof (proj1 (Forall_forall _ _) H ops Hops) as H1. pose proof (proj1 (Forall_forall _ _) H1 op Hop) as H2.
  exact (proj1 (forallb_forall _ _) C10_functions_respect_protocol op H2).
Qed.

(* any number of workers / dumpers / RPC servers, each performing any sequence of cache operations on
   any shards, under every interleaving: no reachable state has two threads about to access the same
   shard's map with one of them writing *)
Theorem C10_race_free : forall (threads : list (list (list ev))) g,
  Forall (Forall (fun op => In op all_ops)) threads ->
  reachable (init (map (@concat ev) threads)) g -> ~ race g.
Proof. intros threads g H. apply balanced_threads_race_free. apply ops_balanced. exact H. Qed.
Print Assumptions C10_race_free.

(* a shard consists of its map and its mutex and of nothing else: the protocol above is then the whole story of the shared state
   (regenerated from the struct declarations; a lock-free lookaside or any other field would be state the model does not know) *)
Theorem C10_shard_state_is_map_and_mutex :
  forall f fields, In (f, fields) Gen.Locks.shard_fields -> fields = ["Templates"; "sync.RWMutex"]%string.
Proof.
  intros f fields Hin. unfold Gen.Locks.shard_fields in Hin. cbn [In] in Hin.
  repeat (destruct Hin as [Hin|Hin]; [injection Hin as _ <-; reflexivity|]). contradiction.
Qed.
Print Assumptions C10_shard_state_is_map_and_mutex.

(* BEYOND race freedom.  While a thread holds the read lock of a shard, no step of another thread changes that shard ... *)
From VF Require Proofs.SnapshotProofs.
Import Proofs.SnapshotProofs.
Theorem C10_read_locked_shard_is_stable : forall g m i g' m' j s,
  Inv g -> mstep (g, m) i (g', m') -> i <> j -> holds_r g j s -> m' s = m s.
Proof. exact read_locked_shard_is_stable. Qed.
Print Assumptions C10_read_locked_shard_is_stable.

(* ... so over any stretch of an execution during which a thread holds a shard's read lock (and does not write the shard
   itself) the shard is at the end what it was at the beginning: Dump, which the regenerated skeleton shows holding the read
   locks of ALL shards around the marshalling of all maps, writes every shard as it was at one single moment (a consistent
   snapshot of complete templates), and a lookup sees the map as it is while it holds the lock: with every insert that
   completed before the lookup began *)
Theorem C10_snapshot_consistent : forall j s x y, Inv (fst x) -> segment j s x y -> Inv (fst y) /\ snd y s = snd x s.
Proof. exact snapshot_consistent. Qed.
Print Assumptions C10_snapshot_consistent.

(* the Dump of both caches does have that shape in the source: all read locks, then the read of everything, then the unlocks *)
Theorem C10_dump_reads_under_all_read_locks :
  Gen.Locks.ipfix_dump = [PAll [PRLock]; PReadAll; PAll [PRUnlock]] /\ Gen.Locks.nf9_dump = [PAll [PRLock]; PReadAll; PAll [PRUnlock]].
Proof. split; reflexivity. Qed.
Print Assumptions C10_dump_reads_under_all_read_locks.

(* the generic theorem on its own: any programs accepted by the checker *)
Theorem C10_checker_sound : forall g0 g, Inv g0 -> reachable g0 g -> ~ race g.
Proof. exact race_free. Qed.
Print Assumptions C10_checker_sound.

(* non-vacuity: the checker rejects an unlocked dump and an insert under a read lock *)
Example C10_checker_rejects :
  balanced (inst 3 [PReadAll]) = false /\ balanced (inst 3 [PRLock; PWrite; PRUnlock]) = false
  /\ balanced (inst 3 [PLock; PWrite; PUnlock]) = true /\ length all_ops = 256%nat.
Proof. vm_compute. repeat split. Qed.

(* peer lookups over the wire: the server answers with its own look-up of exactly the requested key, and the client has every answer
   decoded into a record made FRESH in that call (regenerated from ipfix/memcache_rpc.go on every run, Gen/Rpc.v): an answer never
   lives in storage that a later answer is decoded into - the templates a peer fetch puts into the cache are not written to again
   outside the shard lock, and no answer is a mixture of two definitions (the model of the fetch and its theorems are C04's) *)
From VF Require Gen.Rpc.
Theorem C10_peer_answers_are_fresh_records :
  In ("client_reply", "fresh")%string Gen.Rpc.rpc_facts /\ In ("server_get", "*resp = r.mCache.retrieve(req.ID, req.IP)")%string Gen.Rpc.rpc_facts.
Proof. unfold Gen.Rpc.rpc_facts. cbn [In]. split; auto 10. Qed.
Print Assumptions C10_peer_answers_are_fresh_records.
