(* C18 (theorems added as proved). *)
From VF Require Import Base.Prelude Model.Sflow.
