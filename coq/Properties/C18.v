(* C18 — The sFlow type filter removes exactly the listed sample types.
   Stated on the sample loop of SFDecode instantiated with the field sequences REGENERATED from the Go
   source; holds for every layout instantiation (the proof is parametric in them). *)
From VF Require Import Base.Prelude Base.Json Model.Layout Model.Sflow Proofs.SflowFilter.
From VF Require Gen.Layouts.
Module G := VF.Gen.Layouts.

Notation g_loop := (samples_loop G.sf_flow_sample_layout G.sf_counter_sample_layout G.sf_ext_switch_layout G.sf_generic_layout
  G.sf_ethernet_layout G.sf_tokenring_layout G.sf_vg_layout G.sf_vlan_layout G.sf_processor_layout
  G.sf_flow_sample_fields G.sf_counter_sample_fields G.sf_ext_switch_fields G.sf_generic_fields G.sf_ethernet_fields
  G.sf_tokenring_fields G.sf_vg_fields G.sf_vlan_fields G.sf_processor_fields).
Notation g_wd := (well_delimited G.sf_flow_sample_layout G.sf_counter_sample_layout G.sf_ext_switch_layout G.sf_generic_layout
  G.sf_ethernet_layout G.sf_tokenring_layout G.sf_vg_layout G.sf_vlan_layout G.sf_processor_layout
  G.sf_flow_sample_fields G.sf_counter_sample_fields G.sf_ext_switch_fields G.sf_generic_fields G.sf_ethernet_fields
  G.sf_tokenring_fields G.sf_vg_fields G.sf_vlan_fields G.sf_processor_fields).

(* for every filter list, every number of samples and every datagram position whose samples are well
   delimited: with the filter, the flow samples are exactly those decoded without it — or none, if type
   1 is listed — and likewise the counter samples for type 2; listing any other type changes nothing *)
Theorem C18_filter_exact : forall (f : list Z) fuel n r S C,
  g_loop fuel [] n r [] [] = Ok (SFOk S C) -> g_wd fuel n r ->
  g_loop fuel f n r [] [] = Ok (SFOk (if listed 1 f then [] else S) (if listed 2 f then [] else C)).
Proof. intros f. apply filter_exact. Qed.
Print Assumptions C18_filter_exact.

Corollary C18_unlisted_types_untouched : forall (f : list Z) fuel n r S C,
  listed 1 f = false -> listed 2 f = false ->
  g_loop fuel [] n r [] [] = Ok (SFOk S C) -> g_wd fuel n r ->
  g_loop fuel f n r [] [] = Ok (SFOk S C).
Proof. intros f fuel n r S C L1 L2 H Hw. rewrite (C18_filter_exact f fuel n r S C H Hw), L1, L2. reflexivity. Qed.
Print Assumptions C18_unlisted_types_untouched.

(* a LISTED sample is not looked into: once its type and declared length have been read, the loop goes on at the position the
   declared length gives (Seek), with the samples collected so far unchanged - whatever the body holds, decodable or not, and also
   when the same datagram without the filter would be rejected because of that body *)
Theorem C18_listed_sample_is_skipped_by_its_declared_length : forall (f : list Z) fuel n r ss cs ty l r2,
  0 < n ->
  catch (t <- sread_u 4 r ;; l <- sread_u 4 (snd t) ;; Ok (fst t, fst l, snd l)) = Ok (Some (ty, l, r2)) ->
  listed (if ty / 4096 =? 0 then ty mod 4096 else ty) f = true ->
  g_loop (S fuel) f n r ss cs = g_loop fuel f (n - 1) (sseek l r2) ss cs.
Proof.
  intros f fuel n r ss cs ty l r2 Hn Hh Hl. cbn [samples_loop].
  destruct (n <=? 0) eqn:E; [apply Z.leb_le in E; lia|].
  rewrite Hh. unfold listed in Hl. rewrite Hl. reflexivity.
Qed.
Print Assumptions C18_listed_sample_is_skipped_by_its_declared_length.
