(* C20 — Built-in and shipped IPFIX information models agree (finite; decided exhaustively). *)
From VF Require Import Base.Prelude Model.InfoModelDefs Proofs.InfoModelProofs.

(* same elements, identical names and types, through both load paths *)
Theorem C20_models_agree : forall pen id, lookup g_builtin (pen, id) = lookup g_shipped (pen, id).
Proof. exact models_agree. Qed.
Print Assumptions C20_models_agree.

Theorem C20_tables_equal : g_builtin = g_shipped.
Proof. exact tables_equal. Qed.
Print Assumptions C20_tables_equal.

(* every entry is keyed by its own element id *)
Theorem C20_self_keyed : Forall self_keyed_P g_builtin /\ Forall self_keyed_P g_shipped.
Proof. exact self_keyed. Qed.
Print Assumptions C20_self_keyed.

(* every entry has a recognised type *)
Theorem C20_types_recognised : Forall builtin_type_ok G.builtin /\ Forall shipped_type_ok G.shipped.
Proof. exact types_recognised. Qed.
Print Assumptions C20_types_recognised.

(* no duplicate keys: the association lists are the Go maps *)
Theorem C20_keys_unique : keys_increasing None g_builtin = true /\ keys_increasing None g_shipped = true.
Proof. exact keys_sorted. Qed.
Print Assumptions C20_keys_unique.

(* the generated tables are the registry snapshot the decoder theorems were validated against *)
Theorem C20_snapshot :
  G.builtin = P.builtin /\ G.shipped = P.shipped /\ G.field_types = P.field_types /\ G.type_consts = P.type_consts.
Proof. exact snapshot. Qed.
Print Assumptions C20_snapshot.
