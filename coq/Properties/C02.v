(* C02 — Decoding work and memory are bounded by the datagram's size.
   Termination: every loop of the models runs on explicit fuel S(length payload) and the theorems
   show that this fuel never runs out (the result is Ok, never Hang), i.e. at most length+1
   iterations of every loop.  Records: at most one record per octet of the datagram.
   (Allocation is measured on the implementation against a linear bound; it is not a theorem.) *)
From VF Require Import Base.Prelude Model.Reader Model.Layout Model.JsonPieces Model.Flow Model.Cache
  Model.Ipfix Model.Nf9 Model.Nf5 Model.History
  Proofs.FlowSafety Proofs.FlowSafety9 Proofs.CacheProofs Proofs.IpfixHistory Proofs.Nf9History Proofs.Nf5Proofs Proofs.Tie.
From VF Require Gen.Layouts.

Theorem C02_ipfix_bounded : forall im hl h c, wf_cache c ->
  exists c' ds, run_history (ipfix_decode cc_ops im hl) c h = Ok (c', ds) /\
    Forall (IpfixHistory.bounded) (combine h ds).
Proof.
  intros im hl h c H. destruct (IpfixHistory.history_safe im hl h c H) as (c' & ds & E & _ & _ & Hb).
  exists c', ds. auto.
Qed.
Print Assumptions C02_ipfix_bounded.

Theorem C02_nf9_bounded : forall im hl h c, wf_cache c ->
  exists c' ds, run_history (nf9_decode cc_ops im hl) c h = Ok (c', ds) /\
    Forall (Nf9History.bounded) (combine h ds).
Proof.
  intros im hl h c H. destruct (Nf9History.history_safe im hl h c H) as (c' & ds & E & _ & _ & Hb).
  exists c', ds. auto.
Qed.
Print Assumptions C02_nf9_bounded.

(* one datagram, any cache invariant, any cache implementation whose operations are total on it *)
Theorem C02_ipfix_datagram : forall (C : Type) (ops : cache_ops C) im hl addr (Inv : C -> Prop),
  (forall c id, Inv c -> exists o, c_retrieve ops c id addr = Ok o) ->
  (forall c id t, Inv c -> exists c', c_insert ops c id addr t = Ok c' /\ Inv c') ->
  forall c p, Inv c ->
  exists c' d, ipfix_decode ops im hl c addr p = Ok (c', d) /\ Inv c' /\
    match d with DMsg m _ => len (i_sets m) <= len p | DFail => True end.
Proof. intros C ops im hl addr Inv. exact (ipfix_decode_safe ops im hl addr Inv). Qed.
Print Assumptions C02_ipfix_datagram.

Theorem C02_nf5_bounded : forall addr p m c,
  Nf5.nf5_decode Gen.Layouts.nf5_header_layout Gen.Layouts.nf5_flow_layout addr p = Ok (m, c) ->
  48 * len (n5_flows m) <= len p /\ len (n5_flows m) <= 30.
Proof. intros addr p. rewrite tie_nf5_header_layout, tie_nf5_flow_layout. apply nf5_total. Qed.
Print Assumptions C02_nf5_bounded.

(* sFlow: the published document holds at most one sample or counter block per 8 octets of the datagram (and SFDecode
   terminates: the Ok outcome excludes running out of fuel, which is one unit per octet) *)
From VF Require Proofs.SflowSafety Proofs.ReaderProofs.
Theorem C02_sflow_bounded : forall filter p, wf_bytes p ->
  exists ok o, SflowSafety.sf_decode_src filter p = Ok (ok, o) /\
    match o with Some j => SflowSafety.doc_samples j <= len p / 8 | None => True end.
Proof. exact SflowSafety.sf_decode_src_safe. Qed.
Print Assumptions C02_sflow_bounded.
