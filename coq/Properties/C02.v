(* C02 — Decoding work and memory are bounded by the datagram's size (theorems added as proved). *)
From VF Require Import Base.Prelude Model.Flow.
