(* C08 — NetFlow v5 flows are decoded field-for-field.
   Statements are about the decoder instantiated with the tables REGENERATED from the Go source
   (Gen/Layouts.v); the wire format on the spec side (Spec/Nf5Wire.v) is written from Cisco's
   documented format. *)
From VF Require Import Base.Prelude Model.Reader Model.Layout Model.JsonPieces Model.Nf5 Spec.Nf5Wire
  Proofs.LayoutProofs Proofs.Nf5Proofs Proofs.Tie.
From VF Require Gen.Layouts.
Module G := VF.Gen.Layouts.

Notation g_decode := (Nf5.nf5_decode G.nf5_header_layout G.nf5_flow_layout).

(* For every header announcing 1..30 flows and carrying that many 48-octet records (any field
   values, any trailing octets): the header fields and exactly that many flows, in wire order,
   every field equal to its big-endian wire value, under the Go struct's field names. *)
Theorem C08_roundtrip : forall addr h fl trailing,
  fits header_format h -> Forall (fits record_format) fl ->
  nth 0 h 0 = 5 -> nth 1 h 0 = len fl -> 1 <= len fl <= 30 ->
  g_decode addr (encode h fl ++ trailing)
  = Ok ({| n5_agent := addr;
           n5_header := named G.nf5_header_layout h;
           n5_flows := map (named G.nf5_flow_layout) fl |}, true).
Proof. rewrite tie_nf5_header_layout, tie_nf5_flow_layout. exact nf5_roundtrip. Qed.
Print Assumptions C08_roundtrip.

(* another version, a count outside 1..30, or too few octets: no flows *)
Theorem C08_rejects : forall addr p,
  match read_layout G.nf5_header_layout (new_reader p) with
  | Ok (h, r) =>
      let version := field_get "Version" (named G.nf5_header_layout h) in
      let count := field_get "Count" (named G.nf5_header_layout h) in
      version <> 5 \/ count < 1 \/ 30 < count \/ rlen r < 48 * count
  | _ => True
  end ->
  match g_decode addr p with
  | Ok (m, _) => n5_flows m = []
  | Err _ => True
  | Panic | Hang => False
  end.
Proof. rewrite tie_nf5_header_layout, tie_nf5_flow_layout. exact nf5_rejects. Qed.
Print Assumptions C08_rejects.

(* the field sequence the decoder reads is the documented one (widths and order) *)
Theorem C08_layout_is_documented_format :
  map snd G.nf5_header_layout = map snd header_format /\ map snd G.nf5_flow_layout = map snd record_format.
Proof. rewrite tie_nf5_header_layout, tie_nf5_flow_layout. split; reflexivity. Qed.
Print Assumptions C08_layout_is_documented_format.

(* every datagram: no panic, no hang, at most 30 flows, 48 received octets per flow *)
Theorem C08_total : forall addr p,
  safe (g_decode addr p) /\
  (forall m c, g_decode addr p = Ok (m, c) -> 48 * len (n5_flows m) <= len p /\ len (n5_flows m) <= 30).
Proof. rewrite tie_nf5_header_layout, tie_nf5_flow_layout. exact nf5_total. Qed.
Print Assumptions C08_total.
