(* C13 — Each received datagram is accounted for and published at most once.
   Over ALL schedules of the pipeline model: the received counter equals the number of datagrams taken
   off the socket; every datagram is in at most one place (queued, being processed, done); at most one
   message per datagram, and only for received datagrams; decoded counter never exceeds processed. *)
From VF Require Import Base.Prelude Model.Pipeline Proofs.PipelineProofs.

Theorem C13_accounting : forall (C P : Type) (process : C -> nat -> C * option P * bool) n c s,
  reachable C P process (init C P n c) s ->
  udp_count s = recvd s /\
  NoDup (live C P s) /\ (forall i, In i (live C P s) -> (i < recvd s)%nat) /\
  NoDup (map fst (mq s)) /\ incl (map fst (mq s)) (done s) /\
  (dec_count s <= length (done s))%nat.
Proof.
  intros C P process n c s Hr.
  destruct (reachable_inv C P process n c s Hr) as [_ (H1 & H2 & H3 & H4 & H5 & H6 & _)]. repeat split; assumption.
Qed.
Print Assumptions C13_accounting.

(* non-vacuity: a concrete schedule in which the worker's buffer is recycled for the next datagram *)
Example C13_schedule :
  let process := fun (c : nat) (i : nat) => (c, Some (i * 10)%nat, true) in
  exists s, reachable nat nat process (init nat nat 1 0%nat) s /\ map snd (mq s) = [0%nat] /\ udp_count s = 1%nat /\ dec_count s = 1%nat.
Proof.
  cbn zeta. eexists. split.
  - eapply RS; [eapply RS; [eapply RS; [eapply RS; [apply R0|] |] |] |].
    + eapply (SPut _ _ _ _ 0%nat 0%nat). reflexivity.
    + eapply (SRecv _ _ _ _ 0%nat). left. reflexivity.
    + eapply (SGet _ _ _ _ 0%nat 0%nat 0%nat []); reflexivity.
    + eapply (SProc _ _ _ _ 0%nat 0%nat 0%nat); reflexivity.
  - cbn. repeat split.
Qed.

(* every worker loop counts a datagram exactly once, after Decode and before encoding, and publishes at most once per iteration
   (sequence of shared-state statements regenerated from the source, Gen/Workers.v) *)
From VF Require Model.WorkerDiscipline Gen.Workers.
Theorem C13_workers_count_and_publish_once : forall p evs, In (p, evs) Gen.Workers.workers -> WorkerDiscipline.worker_ok evs = true.
Proof.
  assert (H : forallb (fun x => WorkerDiscipline.worker_ok (snd x)) Gen.Workers.workers = true) by (vm_compute; reflexivity).
  intros p evs Hin. rewrite forallb_forall in H. exact (H _ Hin).
Qed.
Print Assumptions C13_workers_count_and_publish_once.

(* the RECEIVE loops of run(), regenerated from the source (Gen/Receive.v): take a buffer, read one datagram into it, go round again
   on a read ERROR and on nothing else (not on a length of 0), otherwise count it and queue exactly its octets with its source *)
From VF Require Gen.Receive.
Theorem C13_receive_loops_count_every_datagram : forall p evs, In (p, evs) Gen.Receive.receive_loops -> WorkerDiscipline.receive_ok evs = true.
Proof.
  intros p evs Hin. unfold Gen.Receive.receive_loops in Hin. cbn [In] in Hin.
  repeat (destruct Hin as [Hin|Hin]; [injection Hin as _ <-; vm_compute; reflexivity|]). contradiction.
Qed.
Print Assumptions C13_receive_loops_count_every_datagram.

Example C13_receive_discipline_rejects :
  WorkerDiscipline.receive_ok ["Get"; "Deadline"; "Read"; "Skip:E != nil || N == 0"; "Count"; "Send:A,B[:N]"]%string = false /\
  WorkerDiscipline.receive_ok ["Get"; "Deadline"; "Read"; "Skip:E != nil"; "Send:A,B[:N]"; "Count"]%string = false.
Proof. vm_compute. split; reflexivity. Qed.
