(* C13 (theorems added as proved). *)
From VF Require Import Base.Prelude.
