(* C04 — Data is decoded only with the same exporter's latest template.
   The specification is the map keyed by the full (exporter address, template id): a lookup sees
   the latest insertion under exactly that key and nothing else (C04_latest, C04_frame).  The
   decoders run against the real sharded, hash-indexed cache are indistinguishable from the same
   decoders run against that map, on every history (C04_*_refines); and an exporter's outputs do
   not depend on any other exporter's datagrams (C04_*_isolation). *)
From VF Require Import Base.Prelude Model.Reader Model.Layout Model.JsonPieces Model.Flow Model.Cache
  Model.Ipfix Model.Nf9 Model.History Proofs.CacheProofs Proofs.FlowRel Proofs.IpfixHistory Proofs.Nf9History.

Theorem C04_latest : forall a id t m, amap_get a id (((a, id), t) :: m) = Some t.
Proof. exact amap_latest. Qed.
Print Assumptions C04_latest.

Theorem C04_frame : forall a id a' id' t m, (a, id) <> (a', id') ->
  amap_get a id (((a', id'), t) :: m) = amap_get a id m.
Proof. exact amap_frame. Qed.
Print Assumptions C04_frame.

(* the concrete cache: insertion then lookup, any two keys *)
Theorem C04_cache_refines_map : forall c m id a t, refines c m ->
  exists c', cc_insert c id a t = Ok c' /\ refines c' (((a, id mod 65536), t) :: m).
Proof. exact refines_insert. Qed.
Print Assumptions C04_cache_refines_map.

Theorem C04_ipfix_refines : forall im hl h,
  match run_history (ipfix_decode cc_ops im hl) empty_ccache h, run_history (ipfix_decode am_ops im hl) [] h with
  | Ok (_, ds), Ok (_, ds') => ds = ds'
  | _, _ => False
  end.
Proof.
  intros im hl h. pose proof (IpfixHistory.history_refines im hl h empty_ccache [] refines_empty) as H.
  destruct (run_history (ipfix_decode cc_ops im hl) empty_ccache h) as [[c ds]| | |],
           (run_history (ipfix_decode am_ops im hl) [] h) as [[m ds']| | |]; try contradiction. apply H.
Qed.
Print Assumptions C04_ipfix_refines.

Theorem C04_nf9_refines : forall im hl h,
  match run_history (nf9_decode cc_ops im hl) empty_ccache h, run_history (nf9_decode am_ops im hl) [] h with
  | Ok (_, ds), Ok (_, ds') => ds = ds'
  | _, _ => False
  end.
Proof.
  intros im hl h. pose proof (Nf9History.history_refines im hl h empty_ccache [] refines_empty) as H.
  destruct (run_history (nf9_decode cc_ops im hl) empty_ccache h) as [[c ds]| | |],
           (run_history (nf9_decode am_ops im hl) [] h) as [[m ds']| | |]; try contradiction. apply H.
Qed.
Print Assumptions C04_nf9_refines.

(* exporter a's outputs within any history = its outputs when its datagrams are decoded alone *)
Theorem C04_ipfix_isolation : forall im hl a h,
  match run_history (ipfix_decode am_ops im hl) [] h, run_history (ipfix_decode am_ops im hl) [] (IpfixHistory.only a h) with
  | Ok (_, ds), Ok (_, ds') => IpfixHistory.outs_for a h ds = ds'
  | _, _ => False
  end.
Proof.
  intros im hl a h. pose proof (IpfixHistory.exporter_isolation im hl a h [] [] (fun _ => eq_refl)) as H.
  destruct (run_history (ipfix_decode am_ops im hl) [] h) as [[c ds]| | |],
           (run_history (ipfix_decode am_ops im hl) [] (IpfixHistory.only a h)) as [[m ds']| | |]; try contradiction. apply H.
Qed.
Print Assumptions C04_ipfix_isolation.

Theorem C04_nf9_isolation : forall im hl a h,
  match run_history (nf9_decode am_ops im hl) [] h, run_history (nf9_decode am_ops im hl) [] (Nf9History.only a h) with
  | Ok (_, ds), Ok (_, ds') => Nf9History.outs_for a h ds = ds'
  | _, _ => False
  end.
Proof.
  intros im hl a h. pose proof (Nf9History.exporter_isolation im hl a h [] [] (fun _ => eq_refl)) as H.
  destruct (run_history (nf9_decode am_ops im hl) [] h) as [[c ds]| | |],
           (run_history (nf9_decode am_ops im hl) [] (Nf9History.only a h)) as [[m ds']| | |]; try contradiction. apply H.
Qed.
Print Assumptions C04_nf9_isolation.

(* data whose template this exporter has not announced yields no records and is reported *)
Theorem C04_ipfix_unknown_template : forall im a m r ds sid L r1,
  uint16 r = Ok (sid, r1) -> (exists r2, uint16 r1 = Ok (L, r2)) -> 255 < sid ->
  amap_get a (sid mod 65536) m = None ->
  match Ipfix.decode_set am_ops im a m r ds with
  | Ok (m', Ipfix.SCont _ ds' nf) => m' = m /\ ds' = ds /\ nf = true
  | Ok (m', Ipfix.SFatal) => m' = m
  | _ => False
  end.
Proof. exact IpfixHistory.unknown_template_no_records. Qed.
Print Assumptions C04_ipfix_unknown_template.

Theorem C04_nf9_unknown_template : forall im a m r ds sid L r1,
  uint16 r = Ok (sid, r1) -> (exists r2, uint16 r1 = Ok (L, r2)) -> 255 < sid ->
  amap_get a (sid mod 65536) m = None ->
  match Nf9.decode_set9 am_ops im a m r ds with
  | Ok (m', Nf9.SCont _ ds' nf) => m' = m /\ ds' = ds /\ nf = true
  | Ok (m', Nf9.SFatal) => m' = m
  | _ => False
  end.
Proof. exact Nf9History.unknown_template_no_records. Qed.
Print Assumptions C04_nf9_unknown_template.

(* non-vacuity: the concrete cache really distinguishes two exporters and really returns the latest template *)
Example C04_instance :
  let t1 := {| t_id := 256; t_fcount := 1; t_fields := [{| f_id := 8; f_len := 4; f_pen := 0 |}]; t_scount := 0; t_scope := [] |} in
  let t2 := {| t_id := 256; t_fcount := 1; t_fields := [{| f_id := 12; f_len := 4; f_pen := 0 |}]; t_scount := 0; t_scope := [] |} in
  match cc_insert empty_ccache 256 [10; 0; 0; 1] t1 with
  | Ok c1 => match cc_insert c1 256 [10; 0; 0; 2] t2 with
             | Ok c2 => cc_retrieve c2 256 [10; 0; 0; 1] = Ok (Some t1) /\ cc_retrieve c2 256 [10; 0; 0; 2] = Ok (Some t2)
                        /\ cc_retrieve c2 257 [10; 0; 0; 1] = Ok None
             | _ => False end
  | _ => False end.
Proof. vm_compute. repeat split. Qed.

(* the key the cache files a template under is what Model/Cache.v transcribes: getShard of both caches, statement by
   statement, REGENERATED from the source (Gen/CacheKey.v).  key = address || big-endian 16-bit id (injective: cache_key_inj
   above), shard = FNV-1-32(key) mod shardNo, map key = hex(key).  Any edit of getShard that changes what it computes breaks this equality. *)
From VF Require Gen.CacheKey.
(* what getShard RETURNS, read symbolically from its statements (helpers of the file inlined, the two ways of appending a
   big-endian 16-bit id recognised, anything else left as an opaque `?...` term): exactly the transcribed shard and map key *)
Definition get_shard_transcribed : list string :=
  ["m[Mod(FNV1_32(Concat(addr,BE16(id))),shardNo)]"; "Hex(Concat(addr,BE16(id)))"]%string.
Theorem C04_get_shard_is_the_transcribed_one : forall p l, In (p, l) Gen.CacheKey.get_shard_sem -> l = get_shard_transcribed.
Proof.
  intros p l Hin. unfold Gen.CacheKey.get_shard_sem in Hin. cbn [In] in Hin.
  repeat (destruct Hin as [Hin|Hin]; [injection Hin as _ <-; reflexivity|]). contradiction.
Qed.
Print Assumptions C04_get_shard_is_the_transcribed_one.

(* templates fetched from PEER collectors (ipfix/memcache_rpc.go; the anchor "templates fetched from peers are inserted under the
   requesting (id, address)"): the local cache after a fetch is the local map with the peer's entry for exactly the requested
   (address, id) put in front, or unchanged when the peer has none; so a look-up of the requested key gives the template that
   exporter announced to the peer, and every other key (other exporters, other ids) decodes as before *)
From VF Require Model.PeerFetch Proofs.PeerFetchProofs Gen.Rpc.
Theorem C04_peer_fetch_refines : forall local peer ml mp id a, refines local ml -> refines peer mp ->
  exists local', PeerFetch.peer_fetch local peer id a = Ok local' /\
    refines local' (match amap_get a (id mod 65536) mp with Some t => ((a, id mod 65536), t) :: ml | None => ml end).
Proof. exact PeerFetchProofs.peer_fetch_refines. Qed.
Print Assumptions C04_peer_fetch_refines.

Theorem C04_peer_fetch_installs_the_peers_template : forall local peer ml mp id a t, refines local ml -> refines peer mp ->
  amap_get a (id mod 65536) mp = Some t ->
  exists local', PeerFetch.peer_fetch local peer id a = Ok local' /\ cc_retrieve local' id a = Ok (Some t).
Proof. exact PeerFetchProofs.peer_fetch_installs_the_peers_template. Qed.
Print Assumptions C04_peer_fetch_installs_the_peers_template.

Theorem C04_peer_fetch_frame : forall local peer ml mp id a id' a', refines local ml -> refines peer mp ->
  (a', id' mod 65536) <> (a, id mod 65536) ->
  exists local', PeerFetch.peer_fetch local peer id a = Ok local' /\ cc_retrieve local' id' a' = cc_retrieve local id' a'.
Proof. exact PeerFetchProofs.peer_fetch_frame. Qed.
Print Assumptions C04_peer_fetch_frame.

(* the code IS that fetch (regenerated from the source on every run, Gen/Rpc.v): the server answers with its own look-up of exactly
   the requested (id, address); the client has every answer decoded into a record made fresh in that call; the loop inserts the
   answer to a request under that request's (id, address) *)
Theorem C04_peer_fetch_is_the_modelled_one : Gen.Rpc.rpc_facts =
  [("server_get", "*resp = r.mCache.retrieve(req.ID, req.IP)"); ("client_call", "IRPC.Get(req)"); ("client_reply", "fresh");
   ("loop_fetch", "tr = Get(req)"); ("loop_insert", "insert(req.ID, req.IP, *tr)")]%string.
Proof. reflexivity. Qed.
Print Assumptions C04_peer_fetch_is_the_modelled_one.

(* why "fresh" matters: net/rpc's gob decoder does not transmit zero fields and leaves them as the destination had them; into a
   fresh record that is the answer, into one that still holds an earlier answer it is a mixture of two exporters' templates *)
Theorem C04_gob_into_fresh_is_the_answer : forall (A : Type) (answer : list (option A)),
  PeerFetch.gob_decode_into (repeat None (length answer)) answer = answer.
Proof. exact @PeerFetchProofs.gob_into_fresh. Qed.
Print Assumptions C04_gob_into_fresh_is_the_answer.

Theorem C04_gob_into_used_is_a_mixture : forall (A : Type) (v : A), PeerFetch.gob_decode_into [Some v] [None] <> [None].
Proof. exact @PeerFetchProofs.gob_into_used_differs. Qed.
Print Assumptions C04_gob_into_used_is_a_mixture.
