(* C04 — Data is decoded only with the same exporter's latest template (theorems added as proved). *)
From VF Require Import Base.Prelude Model.Flow Model.Cache.
