(* C07 — sFlow samples and counters are decoded field-for-field.
   (1) the field sequences the Go decoder reads and the member order of its structures, REGENERATED from
       the source, are those of the sFlow v5 specification (a swapped, dropped, duplicated or widened
       field breaks one of these equalities);
   (2) any structure read through such a sequence yields exactly its wire values, at any position;
   (3) a counter sample's records — any number and order of the six supported kinds and of unsupported
       ones — decode to exactly the wire values, unsupported ones being skipped by their declared length.
   (4) the breakdown of a sampled header - Ethernet II with or without an 802.1Q tag, IPv4 with any options, IPv6, then
       TCP, UDP or ICMP - returns exactly the header fields (Spec/PacketWire.v);
   (5) flow records (sampled header with XDR padding, extended switch, extended router, unsupported ones skipped), flow
       samples, counter samples, any sequence of samples incl. unsupported types, and the whole datagram (IPv4 or IPv6
       agent) decode to exactly the demanded document (Spec/SflowDatagram.v), for the layouts REGENERATED from the Go source. *)
From VF Require Import Base.Prelude Base.IPText Base.Json Model.Layout Model.JsonPieces Model.Packet Model.Sflow Spec.SflowWire Spec.PacketWire Spec.SflowDatagram
  Proofs.SflowLayouts Proofs.SflowFidelity Proofs.PacketFidelity Proofs.SflowView Proofs.SflowDatagramFidelity.
From VF Require Gen.Layouts.
Module G := VF.Gen.Layouts.

Theorem C07_layouts_are_the_specified_ones :
  (G.sf_flow_sample_layout = flow_sample /\ G.sf_flow_sample_fields = members flow_sample) /\
  (G.sf_counter_sample_layout = counter_sample /\ G.sf_counter_sample_fields = members counter_sample) /\
  (G.sf_ext_switch_layout = ext_switch /\ G.sf_ext_switch_fields = members ext_switch) /\
  (G.sf_generic_layout = generic /\ G.sf_generic_fields = members generic) /\
  (G.sf_ethernet_layout = ethernet /\ G.sf_ethernet_fields = members ethernet) /\
  (G.sf_tokenring_layout = tokenring /\ G.sf_tokenring_fields = members tokenring) /\
  (G.sf_vg_layout = vg /\ G.sf_vg_fields = members vg) /\
  (G.sf_vlan_layout = vlan /\ G.sf_vlan_fields = members vlan) /\
  (G.sf_processor_layout = processor /\ G.sf_processor_fields = members processor).
Proof.
  repeat split; first [apply tie_flow_sample | apply tie_counter_sample | apply tie_ext_switch | apply tie_generic
                      | apply tie_ethernet | apply tie_tokenring | apply tie_vg | apply tie_vlan | apply tie_processor].
Qed.
Print Assumptions C07_layouts_are_the_specified_ones.

Theorem C07_structure_fidelity : forall L vs pre post, fits_s L vs ->
  sread_layout L {| sd := pre ++ enc_layout L vs ++ post; sp := len pre |}
  = Ok (named_s L vs, {| sd := pre ++ enc_layout L vs ++ post; sp := len pre + layout_size L |}).
Proof. exact sread_layout_at. Qed.
Print Assumptions C07_structure_fidelity.

Theorem C07_counter_records_fidelity : forall recs pre post m fuel,
  Forall crec_wf recs -> (length recs < fuel)%nat ->
  counter_records generic ethernet tokenring vg vlan processor
     (members generic) (members ethernet) (members tokenring) (members vg) (members vlan) (members processor)
     fuel (len recs) {| sd := pre ++ flat_map enc_crec recs ++ post; sp := len pre |} m
  = Ok (fold_left (fun acc c => crec_effect c acc) recs m,
        {| sd := pre ++ flat_map enc_crec recs ++ post; sp := len pre + len (flat_map enc_crec recs) |}).
Proof. exact counter_records_fidelity. Qed.
Print Assumptions C07_counter_records_fidelity.

(* non-vacuity: a VLAN counter record between an unsupported record and a processor record *)
Example C07_instance :
  let recs := [CUnknown 77 [1; 2; 3; 4]; CKnown 5 "Vlan" vlan [10; 1000000; 20; 30; 40; 50]; CKnown 1001 "Proc" processor [1; 2; 3; 4; 5]] in
  Forall crec_wf recs /\
  fst (match counter_records generic ethernet tokenring vg vlan processor
         (members generic) (members ethernet) (members tokenring) (members vg) (members vlan) (members processor)
         5 3 {| sd := [9; 9] ++ flat_map enc_crec recs ++ [7]; sp := 2 |} [] with Ok x => x | _ => ([], {| sd := []; sp := 0 |}) end)
  = [("Proc"%string, JObj [("CPU5s"%string, JNum 1); ("CPU1m"%string, JNum 2); ("CPU5m"%string, JNum 3); ("TotalMemory"%string, JNum 4); ("FreeMemory"%string, JNum 5)]);
     ("Vlan"%string, JObj [("ID"%string, JNum 10); ("Octets"%string, JNum 1000000); ("UnicastPackets"%string, JNum 20); ("MulticastPackets"%string, JNum 30);
                           ("BroadcastPackets"%string, JNum 40); ("Discards"%string, JNum 50)])].
Proof.
  cbn zeta. split.
  - repeat constructor; cbn; try lia; try reflexivity.
  - vm_compute. reflexivity.
Qed.

(* (4) sampled headers *)
Theorem C07_packet_ethernet_fidelity : forall e l3 l4 trailing,
  eth_ok e -> eth_type e = l3_ethertype l3 -> l3_ok l3 -> l4_ok l4 -> l4_proto_ok (l3_proto l3) l4 ->
  packet_decode (enc_eth e ++ enc_l3 l3 ++ enc_l4 l4 ++ trailing) 1
  = Ok (JObj [("L2"%string, eth_json e); ("L3"%string, l3_json l3); ("L4"%string, l4_json l4 trailing)]).
Proof. exact packet_decode_ethernet_fidelity. Qed.
Print Assumptions C07_packet_ethernet_fidelity.

Theorem C07_packet_ip_fidelity : forall l3 l4 trailing, l3_ok l3 -> l4_ok l4 -> l4_proto_ok (l3_proto l3) l4 ->
  packet_decode (enc_l3 l3 ++ enc_l4 l4 ++ trailing) (l3_protocol l3)
  = Ok (JObj [("L2"%string, empty_l2); ("L3"%string, l3_json l3); ("L4"%string, l4_json l4 trailing)]).
Proof. exact packet_decode_ip_fidelity. Qed.
Print Assumptions C07_packet_ip_fidelity.

(* (5) records, samples, datagram: the decoder the collector runs (layouts and member orders regenerated from the source) *)
Definition sf_decode_src :=
  sf_decode G.sf_flow_sample_layout G.sf_counter_sample_layout G.sf_ext_switch_layout G.sf_generic_layout G.sf_ethernet_layout
            G.sf_tokenring_layout G.sf_vg_layout G.sf_vlan_layout G.sf_processor_layout
            G.sf_flow_sample_fields G.sf_counter_sample_fields G.sf_ext_switch_fields G.sf_generic_fields G.sf_ethernet_fields
            G.sf_tokenring_fields G.sf_vg_fields G.sf_vlan_fields G.sf_processor_fields.

Theorem C07_datagram_fidelity : forall d, dgram_wf d ->
  sf_decode_src [] (enc_dgram d)
  = Ok (true, match expected_samples (sf_samples d), expected_counters (sf_samples d) with [], [] => None | _, _ => Some (dgram_json d) end).
Proof.
  intros d H. unfold sf_decode_src.
  rewrite (proj1 tie_flow_sample), (proj2 tie_flow_sample), (proj1 tie_counter_sample), (proj2 tie_counter_sample),
    (proj1 tie_ext_switch), (proj2 tie_ext_switch), (proj1 tie_generic), (proj2 tie_generic), (proj1 tie_ethernet), (proj2 tie_ethernet),
    (proj1 tie_tokenring), (proj2 tie_tokenring), (proj1 tie_vg), (proj2 tie_vg), (proj1 tie_vlan), (proj2 tie_vlan),
    (proj1 tie_processor), (proj2 tie_processor).
  apply sf_decode_fidelity, H.
Qed.
Print Assumptions C07_datagram_fidelity.

Theorem C07_flow_records_fidelity : forall recs r t m fuel,
  view r (flat_map enc_frec recs ++ t) -> Forall frec_wf recs -> (length recs < fuel)%nat ->
  exists r', flow_records ext_switch (members ext_switch) fuel (len recs) r m
             = Ok (fold_left (fun acc f => frec_effect f acc) recs m, r') /\ view r' t.
Proof. exact flow_records_fidelity. Qed.
Print Assumptions C07_flow_records_fidelity.

(* non-vacuity: an IPv6-agent datagram with an unsupported sample, a flow sample (802.1Q-tagged Ethernet / IPv4 with options /
   TCP sampled header of 63 octets (one pad octet), an unsupported record, an extended router record) and a counter sample *)
Definition ex_eth : eth_hdr := {| eth_dst := [1; 2; 3; 4; 5; 6]; eth_src := [10; 11; 12; 13; 14; 15]; eth_vlan := Some 100; eth_type := 2048 |}.
Definition ex_ip4 : ip4_hdr := {| i4_ihl := 6; i4_tos := 0; i4_totlen := 60; i4_id := 7; i4_flags := 2; i4_fragoff := 0; i4_ttl := 64; i4_proto := 6;
                                  i4_csum := 4660; i4_src := [10; 0; 0; 1]; i4_dst := [10; 0; 0; 2]; i4_options := [1; 1; 1; 1] |}.
Definition ex_tcp : l4_hdr := L4tcp 443 51000 1 2 5 18 1024 0 0.
Definition ex_hdr : bytes := enc_eth ex_eth ++ enc_l3 (L3v4 ex_ip4) ++ enc_l4 ex_tcp ++ [9].
Definition ex_pk : jv := JObj [("L2"%string, eth_json ex_eth); ("L3"%string, l3_json (L3v4 ex_ip4)); ("L4"%string, l4_json ex_tcp [9])].
Definition ex_dgram : sf_dgram :=
  {| sf_v6 := true; sf_agent := [32; 1; 13; 184; 0; 0; 0; 0; 0; 0; 0; 0; 0; 0; 0; 1]; sf_sub := 0; sf_seq := 77; sf_uptime := 1000;
     sf_samples := [SOtherS 4413 [1; 2; 3; 4];
                    SFlowS [5; 0; 1; 256; 1000; 0; 3; 4; 3] [FRaw 1 1500 4 ex_hdr ex_pk; FUnknown 2000 [0; 0; 0; 0]; FRouter false [192; 0; 2; 1] 24 16];
                    SCounterS [6; 0; 1; 1] [CKnown 1001 "Proc" processor [1; 2; 3; 4; 5]]] |}.
Example C07_datagram_instance : dgram_wf ex_dgram /\ expected_samples (sf_samples ex_dgram) <> [].
Proof.
  split; [|discriminate]. unfold dgram_wf, ex_dgram. cbn [sf_v6 sf_agent sf_sub sf_seq sf_uptime sf_samples].
  repeat split; try (cbn; lia).
  repeat constructor; cbn [sample_wf frec_wf crec_wf]; repeat split; try (cbn; lia); try reflexivity; try discriminate;
    try (repeat constructor; cbn; lia).
Qed.
