(* C07 — sFlow samples and counters are decoded field-for-field.
   (1) the field sequences the Go decoder reads and the member order of its structures, REGENERATED from
       the source, are those of the sFlow v5 specification (a swapped, dropped, duplicated or widened
       field breaks one of these equalities);
   (2) any structure read through such a sequence yields exactly its wire values, at any position;
   (3) a counter sample's records — any number and order of the six supported kinds and of unsupported
       ones — decode to exactly the wire values, unsupported ones being skipped by their declared length.
   The flow-sample records (sampled packet header breakdown, extended switch / router) and the
   datagram-level composition are tied by the correspondence run against a specification-built
   generator; they are not yet theorems (label: partial). *)
From VF Require Import Base.Prelude Base.Json Model.Layout Model.JsonPieces Model.Sflow Spec.SflowWire
  Proofs.SflowLayouts Proofs.SflowFidelity.
From VF Require Gen.Layouts.
Module G := VF.Gen.Layouts.

Theorem C07_layouts_are_the_specified_ones :
  (G.sf_flow_sample_layout = flow_sample /\ G.sf_flow_sample_fields = members flow_sample) /\
  (G.sf_counter_sample_layout = counter_sample /\ G.sf_counter_sample_fields = members counter_sample) /\
  (G.sf_ext_switch_layout = ext_switch /\ G.sf_ext_switch_fields = members ext_switch) /\
  (G.sf_generic_layout = generic /\ G.sf_generic_fields = members generic) /\
  (G.sf_ethernet_layout = ethernet /\ G.sf_ethernet_fields = members ethernet) /\
  (G.sf_tokenring_layout = tokenring /\ G.sf_tokenring_fields = members tokenring) /\
  (G.sf_vg_layout = vg /\ G.sf_vg_fields = members vg) /\
  (G.sf_vlan_layout = vlan /\ G.sf_vlan_fields = members vlan) /\
  (G.sf_processor_layout = processor /\ G.sf_processor_fields = members processor).
Proof.
  repeat split; first [apply tie_flow_sample | apply tie_counter_sample | apply tie_ext_switch | apply tie_generic
                      | apply tie_ethernet | apply tie_tokenring | apply tie_vg | apply tie_vlan | apply tie_processor].
Qed.
Print Assumptions C07_layouts_are_the_specified_ones.

Theorem C07_structure_fidelity : forall L vs pre post, fits_s L vs ->
  sread_layout L {| sd := pre ++ enc_layout L vs ++ post; sp := len pre |}
  = Ok (named_s L vs, {| sd := pre ++ enc_layout L vs ++ post; sp := len pre + layout_size L |}).
Proof. exact sread_layout_at. Qed.
Print Assumptions C07_structure_fidelity.

Theorem C07_counter_records_fidelity : forall recs pre post m fuel,
  Forall crec_wf recs -> (length recs < fuel)%nat ->
  counter_records generic ethernet tokenring vg vlan processor
     (members generic) (members ethernet) (members tokenring) (members vg) (members vlan) (members processor)
     fuel (len recs) {| sd := pre ++ flat_map enc_crec recs ++ post; sp := len pre |} m
  = Ok (fold_left (fun acc c => crec_effect c acc) recs m,
        {| sd := pre ++ flat_map enc_crec recs ++ post; sp := len pre + len (flat_map enc_crec recs) |}).
Proof. exact counter_records_fidelity. Qed.
Print Assumptions C07_counter_records_fidelity.

(* non-vacuity: a VLAN counter record between an unsupported record and a processor record *)
Example C07_instance :
  let recs := [CUnknown 77 [1; 2; 3; 4]; CKnown 5 "Vlan" vlan [10; 1000000; 20; 30; 40; 50]; CKnown 1001 "Proc" processor [1; 2; 3; 4; 5]] in
  Forall crec_wf recs /\
  fst (match counter_records generic ethernet tokenring vg vlan processor
         (members generic) (members ethernet) (members tokenring) (members vg) (members vlan) (members processor)
         5 3 {| sd := [9; 9] ++ flat_map enc_crec recs ++ [7]; sp := 2 |} [] with Ok x => x | _ => ([], {| sd := []; sp := 0 |}) end)
  = [("Proc"%string, JObj [("CPU5s"%string, JNum 1); ("CPU1m"%string, JNum 2); ("CPU5m"%string, JNum 3); ("TotalMemory"%string, JNum 4); ("FreeMemory"%string, JNum 5)]);
     ("Vlan"%string, JObj [("ID"%string, JNum 10); ("Octets"%string, JNum 1000000); ("UnicastPackets"%string, JNum 20); ("MulticastPackets"%string, JNum 30);
                           ("BroadcastPackets"%string, JNum 40); ("Discards"%string, JNum 50)])].
Proof.
  cbn zeta. split.
  - repeat constructor; cbn; try lia; try reflexivity.
  - vm_compute. reflexivity.
Qed.
