(* C19 — The byte reader never reads outside its buffer and accounts exactly.
   Only statements, closed by `exact`, each followed by Print Assumptions. *)
From VF Require Import Base.Prelude Model.Reader Proofs.ReaderProofs.

(* Every operation, from every position in every buffer, either returns exactly the next n octets of
   the ORIGINAL buffer (integers big-endian) and advances by n, or fails and leaves the reader
   unchanged; peeks never advance; all n : Z (negative included). *)
Theorem C19_step_spec : forall (b : bytes) (r : reader) (o : rop), cursor b r ->
  step_ok b r o (fst (step r o)) (snd (step r o)) /\ cursor b (fst (step r o)).
Proof. exact step_spec. Qed.
Print Assumptions C19_step_spec.

(* consumed + remaining = buffer length after every finite operation sequence, and the remaining
   data is exactly the unread suffix *)
Theorem C19_accounting : forall (b : bytes) (ops : list rop),
  let r := fst (run (new_reader b) ops) in
  count r + rlen r = len b /\ data r = skipn (Z.to_nat (count r)) b.
Proof. exact accounting. Qed.
Print Assumptions C19_accounting.

(* ... and at every intermediate observation of (Len, ReadCount) *)
Theorem C19_observations : forall (b : bytes) (ops : list rop),
  Forall (fun x => let '(_, l, c) := x in c + l = len b) (snd (run (new_reader b) ops)).
Proof. intros b ops. exact (run_observations b ops _ (cursor_new b)). Qed.
Print Assumptions C19_observations.

Theorem C19_peeks_never_advance : forall r n,
  fst (step r (OPeek n)) = r /\ fst (step r OPeekU16) = r.
Proof. exact peeks_never_advance. Qed.
Print Assumptions C19_peeks_never_advance.

Theorem C19_fail_keeps_position : forall r o, snd (step r o) = RFail -> fst (step r o) = r.
Proof. exact fail_keeps_position. Qed.
Print Assumptions C19_fail_keeps_position.

(* no operation panics or hangs, whatever the length argument *)
Theorem C19_total : forall n r,
  safe (read n r) /\ safe (peek n r) /\ safe (uintN n r) /\ safe (peek_uint16 r).
Proof. exact reader_total. Qed.
Print Assumptions C19_total.
