(* C03 — IPFIX data records are decoded exactly as their templates describe (under construction:
   theorems are added below as they are proved). *)
From VF Require Import Base.Prelude Model.Reader Model.Flow Model.Ipfix.
