(* C03 — IPFIX data records are decoded exactly as their templates describe.
   The specification side (Spec/FlowWire.v and the w* types of Proofs/IpfixFidelity.v) lays a message
   out as RFC 7011 describes: header, template sets (plain and options templates, enterprise bit and
   number), data sets whose records consist of one content string per template field (scope fields
   first; a variable-length field carries a 1- or 3-octet length prefix), 0..3 padding octets.  The
   theorem is the round trip through the decoder model, for ANY information model, header layout,
   exporter address and cache state. *)
From VF Require Import Base.Prelude Model.Reader Model.Layout Model.JsonPieces Model.Flow Model.Cache Model.Ipfix
  Spec.FlowWire Proofs.LayoutProofs Proofs.IpfixFidelity.
From VF Require Gen.Layouts.

(* Every well-formed message decodes to the wire header fields and exactly one entry per data record, in wire
   order, each listing the record's fields in template order (scope first) with element id, enterprise number
   and the value interpreted by the element's type; the templates it announces are in force afterwards.
   Well-formedness (sets_ok) includes the implementation's padding rule (tail_ok: the last record of a set plus
   the padding exceeds 4 octets) - see C03_refuted_last_short_record for what happens otherwise. *)
Theorem C03_ipfix_fidelity_partial : forall (im : infomodel) (a : bytes) (m : amap) hvals sets,
  fits Gen.Layouts.ipfix_header_layout hvals ->
  field_get "Version" (named_fields Gen.Layouts.ipfix_header_layout hvals) = 10 ->
  sets_ok im a m sets ->
  ipfix_decode am_ops im Gen.Layouts.ipfix_header_layout m a
     (enc_layout Gen.Layouts.ipfix_header_layout hvals ++ flat_map (enc_set im) sets)
  = Ok (final_map a m sets,
        DMsg {| i_agent := a; i_header := named_fields Gen.Layouts.ipfix_header_layout hvals;
                i_sets := expected_sets im sets |} 0).
Proof. intros im a m hvals sets. apply ipfix_fidelity. Qed.
Print Assumptions C03_ipfix_fidelity_partial.

(* one record, any template, any contents: element id, enterprise number and typed value per field, in order *)
Theorem C03_record_fidelity : forall (im : infomodel) tr ws rest c,
  rec_matches tr ws -> Forall (wfield_ok im) ws ->
  decode_data im tr {| data := enc_record im ws ++ rest; count := c |}
  = Ok (Some (expected_record im ws), {| data := rest; count := c + len (enc_record im ws) |}).
Proof. intros im. apply decode_data_fidelity. Qed.
Print Assumptions C03_record_fidelity.

(* The full statement (without tail_ok) is FALSE of the code: a data set of three 4-octet records, no padding,
   yields two records.  The witness below is evaluated in the kernel; replayed on the implementation it is the
   recorded finding 'last-record-le4' (known_findings.json). *)
Definition le4_im : infomodel := fun pen id => if (pen =? 0) && (id =? 8) then Some (8, T_Ipv4Address) else None.
Definition le4_tpl : wtemplate := {| wt_opts := false; wt_id := 256; wt_scope := []; wt_fields := [{| ws_id := 8; ws_len := 4; ws_ent := None |}] |}.
Definition le4_rec (x : Z) : list wfield := [{| w_spec := to_fspec {| ws_id := 8; ws_len := 4; ws_ent := None |}; w_content := [10; 0; 0; x]; w_long := false |}].
Definition le4_sets : list wset := [WTpl false [le4_tpl] []; WData 256 [le4_rec 1; le4_rec 2; le4_rec 3] []].

Theorem C03_refuted_last_short_record :
  exists im hvals sets,
    (* every requirement of sets_ok except the padding rule holds: three records, each matching its template *)
    length (expected_sets im sets) = 3%nat /\
    match ipfix_decode am_ops im Gen.Layouts.ipfix_header_layout [] [192; 0; 2; 1]
            (enc_layout Gen.Layouts.ipfix_header_layout hvals ++ flat_map (enc_set im) sets) with
    | Ok (_, DMsg msg _) => length (i_sets msg) = 2%nat
    | _ => False
    end.
Proof. exists le4_im, [10; 52; 1; 2; 3], le4_sets. vm_compute. split; reflexivity. Qed.
Print Assumptions C03_refuted_last_short_record.

(* non-vacuity of the positive theorem: a message with an options template (scope + enterprise element), a
   variable-length field in both prefix forms, two sets and padding satisfies sets_ok *)
Definition ex_im : infomodel := fun pen id =>
  if (pen =? 0) && (id =? 8) then Some (8, T_Ipv4Address) else if (pen =? 0) && (id =? 82) then Some (82, T_String)
  else if (pen =? 9) && (id =? 2) then Some (2, T_Uint32) else if (pen =? 0) && (id =? 1) then Some (1, T_Uint64) else None.
Definition ex_tpl1 : wtemplate := {| wt_opts := true; wt_id := 300; wt_scope := [{| ws_id := 2; ws_len := 4; ws_ent := Some 9 |}];
                                     wt_fields := [{| ws_id := 82; ws_len := 65535; ws_ent := None |}; {| ws_id := 1; ws_len := 8; ws_ent := None |}] |}.
Definition ex_rec (long : bool) : list wfield :=
  [{| w_spec := to_fspec {| ws_id := 2; ws_len := 4; ws_ent := Some 9 |}; w_content := [0; 0; 1; 2]; w_long := false |};
   {| w_spec := to_fspec {| ws_id := 82; ws_len := 65535; ws_ent := None |}; w_content := [101; 116; 104; 48]; w_long := long |};
   {| w_spec := to_fspec {| ws_id := 1; ws_len := 8; ws_ent := None |}; w_content := [0; 0; 0; 0; 0; 0; 3; 232]; w_long := false |}].
Example C03_instance : sets_ok ex_im [10; 0; 0; 1] [] [WTpl true [ex_tpl1] [0; 0]; WData 300 [ex_rec false; ex_rec true] [0; 0; 0]; WData 300 [ex_rec true] []].
Proof.
  assert (Hm : forall l, Forall (rec_matches (template_of ex_tpl1)) [ex_rec l]).
  { intros l. constructor; [|constructor]. exists (firstn 1 (ex_rec l)), (skipn 1 (ex_rec l)). repeat split; try reflexivity. discriminate. }
  assert (Hf : forall l, Forall (wfield_ok ex_im) (ex_rec l)).
  { intros l. repeat constructor; cbn; try (eexists; eexists; reflexivity); try lia; destruct l; cbn; intros; try lia; try discriminate. }
  cbn [sets_ok]. repeat split.
  - repeat constructor; cbn; try lia; try discriminate; try (intros; discriminate).
  - repeat constructor.
  - discriminate.
  - cbn; lia.
  - exists (template_of ex_tpl1). split; [lia|]. split; [vm_compute; reflexivity|].
    constructor; [apply (Forall_inv (Hm false))|apply Hm].
  - constructor; [apply Hf|constructor; [apply Hf|constructor]].
  - repeat constructor; vm_compute; reflexivity.
  - discriminate.
  - cbn; lia.
  - vm_compute. intros H; discriminate H.
  - exists (template_of ex_tpl1). split; [lia|]. split; [vm_compute; reflexivity|]. apply Hm.
  - constructor; [apply Hf|constructor].
  - repeat constructor; vm_compute; reflexivity.
  - discriminate.
  - cbn; lia.
  - vm_compute. intros H; discriminate H.
Qed.

(* `interpret` above is the hand-written model of ipfix.Interpret; it equals, for every FieldType constant and every octet
   string, the interpretation driven by the tables regenerated from the CURRENT ipfix/interpret.go (minimum length and
   returned value per type): a changed minimum length, a type dropped from a case list or a changed conversion breaks this *)
From VF Require Proofs.TieInterp Gen.InfoModel.
Theorem C03_interpret_is_the_source : forall name v, In (name, v) Gen.InfoModel.type_consts ->
  forall b, interpret v b = TieInterp.interpret_src name b.
Proof. exact TieInterp.tie_interpret. Qed.
Print Assumptions C03_interpret_is_the_source.
