(* C17 — Configuration sources are applied in the documented order.
   The stage list of flagSet() is REGENERATED from vflow/options.go (Gen/Options.v); the kernel
   checks that it has the documented shape, and the generic theorem gives, for ALL contents of the
   environment, the configuration file and the command line, and every registered setting:
   command line, else file, else environment, else built-in default. *)
From VF Require Import Base.Prelude Model.Options Proofs.OptionsProofs.
From VF Require Gen.Options.
Module G := VF.Gen.Options.

Theorem C17_stages_have_documented_shape : stages_ok G.stages = true.
Proof. vm_compute. reflexivity. Qed.
Print Assumptions C17_stages_have_documented_shape.

Theorem C17_precedence : forall (s : sources) (field flag : string),
  In (flag, field) (reg_pairs G.stages) -> eval G.stages s field = priority s field flag.
Proof. exact (precedence G.stages C17_stages_have_documented_shape). Qed.
Print Assumptions C17_precedence.

(* every integer / string / boolean setting that can be given in the file or environment (it has a
   yaml tag) is also registered as a command-line flag *)
Definition plain_kind (k : string) : bool := String.eqb k "int" || String.eqb k "string" || String.eqb k "bool".
Definition registered (field : string) : bool := existsb (fun p => String.eqb (snd p) field) (reg_pairs G.stages).
Theorem C17_every_setting_has_a_flag :
  forallb (fun x => let '(field, tag, kind) := x in
                    negb (plain_kind kind) || String.eqb tag "" || registered field) G.settings = true.
Proof. vm_compute. reflexivity. Qed.
Print Assumptions C17_every_setting_has_a_flag.

(* the generic theorem, for any stage list of the documented shape *)
Theorem C17_shape_implies_precedence : forall stages, stages_ok stages = true ->
  forall s f flag, In (flag, f) (reg_pairs stages) -> eval stages s f = priority s f flag.
Proof. exact precedence. Qed.
Print Assumptions C17_shape_implies_precedence.

(* non-vacuity: at least 46 settings are covered (more when options are added); loading the file before the environment, or registering a flag
   with another field's value as default, is rejected by the shape check *)
Example C17_instances :
  (46 <=? length (reg_pairs G.stages))%nat = true /\
  stages_ok [StFile; StEnv; StReg "A" "a" DCurrent; StParse] = false /\
  stages_ok [StEnv; StFile; StReg "A" "a" DCurrent; StReg "B" "b" (DField "A"); StParse] = false /\
  stages_ok [StEnv; StFile; StParse; StReg "A" "a" DCurrent] = false.
Proof. vm_compute. repeat split. Qed.
