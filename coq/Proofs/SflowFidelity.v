(* C07: a counter sample built from any number and order of supported and unsupported counter records
   decodes to exactly the wire values: every supported record's members equal its values, unsupported
   records are skipped by their declared length, whatever octets precede and follow the sample. *)
From VF Require Import Base.Prelude Base.Json Model.Layout Model.JsonPieces Model.Sflow Spec.SflowWire
  Proofs.ReaderProofs Proofs.LayoutProofs Proofs.SflowLayouts.

(* an abstract counter record *)
Inductive crec :=
| CKnown (fmt : Z) (key : string) (L : layout) (vals : list Z)     (* one of the six supported kinds *)
| CUnknown (fmt : Z) (body : bytes).                               (* any other format: to be skipped *)

Definition spec_counter_layout (f : Z) : option (string * layout) :=
  if f =? 1 then Some ("GenInt"%string, generic) else if f =? 2 then Some ("EthInt"%string, ethernet)
  else if f =? 3 then Some ("TRInt"%string, tokenring) else if f =? 4 then Some ("VGInt"%string, vg)
  else if f =? 5 then Some ("Vlan"%string, vlan) else if f =? 1001 then Some ("Proc"%string, processor) else None.

Definition crec_wf (c : crec) : Prop :=
  match c with
  | CKnown f key L vals => spec_counter_layout f = Some (key, L) /\ fits_s L vals
  | CUnknown f body => spec_counter_layout f = None /\ 0 <= f < 2 ^ 32 /\ len body < 2 ^ 32
  end.

Definition enc_crec (c : crec) : bytes :=
  match c with
  | CKnown f _ L vals => enc 4 f ++ enc 4 (layout_size L) ++ enc_layout L vals
  | CUnknown f body => enc 4 f ++ enc 4 (len body) ++ body
  end.

(* what the decoded Records map must hold after this record *)
Definition crec_effect (c : crec) (m : list (string * jv)) : list (string * jv) :=
  match c with
  | CKnown _ key L vals => set_member key (JObj (obj_of (named_s L vals))) m
  | CUnknown _ _ => m
  end.

Section Counter.
  (* the model instantiated with the SPECIFICATION's layouts (Proofs/SflowLayouts.v ties the regenerated ones to them) *)
  Notation crecs := (counter_records generic ethernet tokenring vg vlan processor
                       (members generic) (members ethernet) (members tokenring) (members vg) (members vlan) (members processor)).

  Lemma struct_of_members L vs : NoDup (map fst (named_s L vs)) ->
    struct_of (map fst (named_s L vs)) (named_s L vs) = named_s L vs.
  Proof.
    unfold struct_of. generalize (named_s L vs) as reads. intros reads Hnd.
    assert (G : forall pre post, NoDup (map fst (pre ++ post)) ->
                map (fun f => (f, last_assigned f (pre ++ post) 0)) (map fst post) = post).
    { intros pre post; revert pre. induction post as [|[n v] post IH]; intros pre Hn; [reflexivity|]. cbn [map fst]. f_equal.
      - f_equal. (* last assignment of n in pre ++ (n,v) :: post is v *)
        assert (La : forall l cur, ~ In n (map fst l) -> last_assigned n l cur = cur).
        { induction l as [|[n' v'] l IHl]; intros cur Hni; [reflexivity|]. cbn [last_assigned]. cbn in Hni.
          destruct (String.eqb n' n) eqn:E; [apply String.eqb_eq in E; subst; tauto|]. apply IHl. tauto. }
        assert (Lb : forall l1 l2 cur, last_assigned n (l1 ++ l2) cur = last_assigned n l2 (last_assigned n l1 cur)).
        { induction l1 as [|[n' v'] l1 IHl]; intros l2 cur; [reflexivity|]. cbn [app last_assigned]. apply IHl. }
        rewrite Lb. cbn [last_assigned]. rewrite String.eqb_refl. apply La.
        rewrite map_app in Hn. cbn [map fst] in Hn. apply NoDup_remove_2 in Hn. intros Hi. apply Hn. apply in_or_app; right; exact Hi.
      - specialize (IH (pre ++ [(n, v)])). rewrite <- app_assoc in IH. cbn [app] in IH. apply IH. exact Hn. }
    exact (G [] reads Hnd).
  Qed.

  Lemma members_named L : forall vs, length vs = length L -> map fst (named_s L vs) = members L.
  Proof.
    unfold named_s, members. induction L as [|[n w] L IH]; intros [|v vs] Hl; cbn in Hl; try discriminate; [reflexivity|].
    cbn [map fst combine filter]. destruct (String.eqb n "") eqn:E; cbn [negb map fst]; [|f_equal]; apply IH; lia.
  Qed.

  Lemma fits_s_length L : forall vs, fits_s L vs -> length vs = length L.
  Proof. induction L as [|[n w] L IH]; intros [|v vs] H; cbn in H; try contradiction; [reflexivity|]. cbn. f_equal. apply IH. tauto. Qed.

  Lemma len_enc_layout_s L : forall vs, fits_s L vs -> len (enc_layout L vs) = layout_size L.
  Proof.
    induction L as [|[nm w] L IH]; intros [|v vs] H; cbn in H; try contradiction; [reflexivity|].
    destruct H as (Hw & Hv & Hf). cbn [enc_layout layout_size fold_right snd]. rewrite len_app, len_enc, IH by exact Hf.
    fold (layout_size L). lia.
  Qed.

  Definition nodup_members (L : layout) : Prop := NoDup (members L).

  Fixpoint nodupb (l : list string) : bool :=
    match l with [] => true | x :: t => negb (existsb (String.eqb x) t) && nodupb t end.
  Lemma nodupb_sound l : nodupb l = true -> NoDup l.
  Proof.
    induction l as [|x l IH]; intros H; [constructor|]. cbn in H. apply andb_true_iff in H as [H1 H2].
    constructor; [|apply IH; exact H2]. intros Hin. apply negb_true_iff in H1.
    assert (existsb (String.eqb x) l = true) by (apply existsb_exists; exists x; split; [exact Hin|apply String.eqb_refl]). congruence.
  Qed.

  Lemma spec_layouts_nodup f key L : spec_counter_layout f = Some (key, L) -> nodup_members L /\ 0 <= layout_size L < 2 ^ 32 /\ 0 <= f < 2 ^ 32.
  Proof.
    unfold spec_counter_layout, nodup_members.
    destruct (f =? 1) eqn:E1; [apply Z.eqb_eq in E1; subst; intros H; inversion H; subst; split; [apply nodupb_sound; vm_compute; reflexivity|vm_compute; intuition discriminate]|].
    destruct (f =? 2) eqn:E2; [apply Z.eqb_eq in E2; subst; intros H; inversion H; subst; split; [apply nodupb_sound; vm_compute; reflexivity|vm_compute; intuition discriminate]|].
    destruct (f =? 3) eqn:E3; [apply Z.eqb_eq in E3; subst; intros H; inversion H; subst; split; [apply nodupb_sound; vm_compute; reflexivity|vm_compute; intuition discriminate]|].
    destruct (f =? 4) eqn:E4; [apply Z.eqb_eq in E4; subst; intros H; inversion H; subst; split; [apply nodupb_sound; vm_compute; reflexivity|vm_compute; intuition discriminate]|].
    destruct (f =? 5) eqn:E5; [apply Z.eqb_eq in E5; subst; intros H; inversion H; subst; split; [apply nodupb_sound; vm_compute; reflexivity|vm_compute; intuition discriminate]|].
    destruct (f =? 1001) eqn:E6; [apply Z.eqb_eq in E6; subst; intros H; inversion H; subst; split; [apply nodupb_sound; vm_compute; reflexivity|vm_compute; intuition discriminate]|].
    discriminate.
  Qed.

  Lemma counter_layout_spec f :
    counter_layout generic ethernet tokenring vg vlan processor (members generic) (members ethernet) (members tokenring) (members vg)
                   (members vlan) (members processor) f
    = match spec_counter_layout f with Some (k, L) => Some (k, L, members L) | None => None end.
  Proof. unfold counter_layout, spec_counter_layout. repeat match goal with |- context [if ?c then _ else _] => destruct c end; reflexivity. Qed.

  Theorem counter_records_fidelity : forall recs pre post m fuel,
    Forall crec_wf recs -> (length recs < fuel)%nat ->
    crecs fuel (len recs) {| sd := pre ++ flat_map enc_crec recs ++ post; sp := len pre |} m
    = Ok (fold_left (fun acc c => crec_effect c acc) recs m,
          {| sd := pre ++ flat_map enc_crec recs ++ post; sp := len pre + len (flat_map enc_crec recs) |}).
  Proof.
    induction recs as [|c recs IH]; intros pre post m fuel Hwf Hf.
    - destruct fuel; cbn; rewrite Z.add_0_r; reflexivity.
    - destruct fuel as [|k]; [cbn in Hf; lia|]. apply Forall_cons_iff in Hwf as [Hc Hwf].
      cbn [counter_records]. rewrite len_cons. pose proof (len_nonneg recs).
      destruct (1 + len recs <=? 0) eqn:E; [lia|]. cbn [flat_map fold_left].
      set (D := pre ++ (enc_crec c ++ flat_map enc_crec recs) ++ post).
      destruct c as [f key L vals|f body]; cbn [enc_crec crec_wf crec_effect] in *.
      + destruct Hc as [Hs Hfit]. destruct (spec_layouts_nodup _ _ _ Hs) as (Hnd & Hsz & Hfr).
        subst D. rewrite <- !app_assoc.
        rewrite (sread_u_at pre (enc 4 f) _ 4) by (rewrite ?len_enc; lia). cbn [bind fst snd]. rewrite be_enc by (cbn; lia).
        replace (pre ++ enc 4 f ++ enc 4 (layout_size L) ++ enc_layout L vals ++ flat_map enc_crec recs ++ post)
          with ((pre ++ enc 4 f) ++ enc 4 (layout_size L) ++ enc_layout L vals ++ flat_map enc_crec recs ++ post) by (rewrite <- app_assoc; reflexivity).
        replace (len pre + 4) with (len (pre ++ enc 4 f)) by (rewrite len_app, len_enc; lia).
        rewrite (sread_u_at (pre ++ enc 4 f) (enc 4 (layout_size L)) _ 4) by (rewrite ?len_enc; lia). cbn [bind fst snd].
        rewrite counter_layout_spec, Hs.
        replace ((pre ++ enc 4 f) ++ enc 4 (layout_size L) ++ enc_layout L vals ++ flat_map enc_crec recs ++ post)
          with (((pre ++ enc 4 f) ++ enc 4 (layout_size L)) ++ enc_layout L vals ++ (flat_map enc_crec recs ++ post)) by (rewrite <- !app_assoc; reflexivity).
        replace (len (pre ++ enc 4 f) + 4) with (len ((pre ++ enc 4 f) ++ enc 4 (layout_size L))) by (rewrite !len_app, !len_enc; lia).
        rewrite (sread_layout_at L vals _ _ Hfit). cbn [bind fst snd].
        rewrite <- (members_named L vals (fits_s_length L vals Hfit)).
        rewrite struct_of_members by (rewrite (members_named L vals (fits_s_length L vals Hfit)); exact Hnd).
        replace (1 + len recs - 1) with (len recs) by lia.
        replace (((pre ++ enc 4 f) ++ enc 4 (layout_size L)) ++ enc_layout L vals ++ flat_map enc_crec recs ++ post)
          with ((((pre ++ enc 4 f) ++ enc 4 (layout_size L)) ++ enc_layout L vals) ++ flat_map enc_crec recs ++ post) by (rewrite <- !app_assoc; reflexivity).
        replace (len ((pre ++ enc 4 f) ++ enc 4 (layout_size L)) + layout_size L)
          with (len (((pre ++ enc 4 f) ++ enc 4 (layout_size L)) ++ enc_layout L vals)) by (rewrite !len_app, !len_enc, (len_enc_layout_s L vals Hfit); lia).
        rewrite IH by (try assumption; cbn in Hf; lia).
        match goal with |- Ok (_, ?r1) = Ok (_, ?r2) => replace r1 with r2; [reflexivity|] end.
        f_equal; try (rewrite <- !app_assoc; reflexivity); rewrite ?len_app, ?len_enc, ?(len_enc_layout_s L vals Hfit); lia.
      + destruct Hc as (Hs & Hfr & Hb). pose proof (len_nonneg body).
        subst D. rewrite <- !app_assoc.
        rewrite (sread_u_at pre (enc 4 f) _ 4) by (rewrite ?len_enc; lia). cbn [bind fst snd]. rewrite be_enc by (cbn; lia).
        replace (pre ++ enc 4 f ++ enc 4 (len body) ++ body ++ flat_map enc_crec recs ++ post)
          with ((pre ++ enc 4 f) ++ enc 4 (len body) ++ body ++ flat_map enc_crec recs ++ post) by (rewrite <- app_assoc; reflexivity).
        replace (len pre + 4) with (len (pre ++ enc 4 f)) by (rewrite len_app, len_enc; lia).
        rewrite (sread_u_at (pre ++ enc 4 f) (enc 4 (len body)) _ 4) by (rewrite ?len_enc; lia). cbn [bind fst snd].
        rewrite be_enc by (cbn; lia). rewrite counter_layout_spec, Hs.
        unfold sseek; cbn [sd sp]. pose proof (len_nonneg (pre ++ enc 4 f)).
        destruct (len (pre ++ enc 4 f) + 4 + len body <? 0) eqn:E2; [lia|].
        replace (1 + len recs - 1) with (len recs) by lia.
        replace ((pre ++ enc 4 f) ++ enc 4 (len body) ++ body ++ flat_map enc_crec recs ++ post)
          with ((((pre ++ enc 4 f) ++ enc 4 (len body)) ++ body) ++ flat_map enc_crec recs ++ post) by (rewrite <- !app_assoc; reflexivity).
        replace (len (pre ++ enc 4 f) + 4 + len body) with (len (((pre ++ enc 4 f) ++ enc 4 (len body)) ++ body)) by (rewrite !len_app, !len_enc; lia).
        rewrite IH by (try assumption; cbn in Hf; lia).
        match goal with |- Ok (_, ?r1) = Ok (_, ?r2) => replace r1 with r2; [reflexivity|] end.
        f_equal; try (rewrite <- !app_assoc; reflexivity); rewrite ?len_app, ?len_enc; lia.
  Qed.
End Counter.
