(* C09, second half: truncation never fabricates.  A simulation argument: the run of the decoder on a datagram
   cut short at ANY octet is followed step by step by the run on the complete datagram.  `pre r r'` relates the
   two reader states (same consumed count, the truncated one holds a prefix of the other's unread octets); every
   reader operation that SUCCEEDS on the truncated state succeeds with the same value on the complete one
   ("short reads fail without consuming").  The only place the two runs can part is a loop guard on Len(): there
   the truncated run stops early, and either the set's skip-by-length then fails (message dropped) or it has
   emitted a prefix of the records.  No well-formedness assumption on the datagram at all. *)
From VF Require Import Base.Prelude Model.Reader Model.Layout Model.JsonPieces Model.Flow Model.Ipfix
  Proofs.ReaderProofs Proofs.LayoutProofs.

Definition pre (r r' : reader) : Prop := count r = count r' /\ exists t, data r' = data r ++ t.

Lemma pre_refl r : pre r r. Proof. split; [reflexivity|exists []; now rewrite app_nil_r]. Qed.
Lemma pre_rlen r r' : pre r r' -> rlen r <= rlen r'.
Proof. intros [_ [t E]]. unfold rlen. rewrite E, len_app. pose proof (len_nonneg t). lia. Qed.
Lemma pre_length r r' : pre r r' -> (length (data r) <= length (data r'))%nat.
Proof. intros [_ [t E]]. rewrite E, app_length. lia. Qed.

Lemma firstn_pre (n : nat) (d t : bytes) : (n <= length d)%nat -> firstn n (d ++ t) = firstn n d.
Proof. intros H. rewrite firstn_app. replace (n - length d)%nat with O by lia. cbn. now rewrite app_nil_r. Qed.
Lemma skipn_pre (n : nat) (d t : bytes) : (n <= length d)%nat -> skipn n (d ++ t) = skipn n d ++ t.
Proof. intros H. rewrite skipn_app. replace (n - length d)%nat with O by lia. reflexivity. Qed.

Lemma to_nat_le n (d : bytes) : (len d <? n) = false -> (Z.to_nat n <= length d)%nat.
Proof. unfold len. intros H. lia. Qed.

Lemma pre_advance n r r' : pre r r' -> (rlen r <? n) = false -> pre (advance n r) (advance n r').
Proof.
  intros [Hc [t E]] H. split; [cbn; lia|]. exists t. cbn [advance data]. rewrite E. apply skipn_pre, to_nat_le, H.
Qed.

Lemma uintN_pre n r r' v r1 : pre r r' -> uintN n r = Ok (v, r1) ->
  exists r1', uintN n r' = Ok (v, r1') /\ pre r1 r1'.
Proof.
  intros P H. unfold uintN in *. destruct (rlen r <? n) eqn:E; [discriminate H|]. pose proof (pre_rlen r r' P).
  replace (rlen r' <? n) with false by lia. injection H as <- <-.
  exists (advance n r'). split; [|apply pre_advance; assumption].
  destruct P as [_ [t Et]]. rewrite Et, firstn_pre by (apply to_nat_le, E). reflexivity.
Qed.

Lemma read_pre n r r' b r1 : pre r r' -> read n r = Ok (b, r1) ->
  exists r1', read n r' = Ok (b, r1') /\ pre r1 r1'.
Proof.
  intros P H. unfold read in *. destruct (n <? 0) eqn:En; [discriminate H|]. cbn [orb] in *.
  destruct (rlen r <? n) eqn:E; [discriminate H|]. pose proof (pre_rlen r r' P).
  replace (rlen r' <? n) with false by lia. injection H as <- <-.
  exists (advance n r'). split; [|apply pre_advance; assumption].
  destruct P as [_ [t Et]]. rewrite Et, firstn_pre by (apply to_nat_le, E). reflexivity.
Qed.

Lemma peek16_pre r r' : pre r r' -> 2 <= rlen r -> peek_uint16 r' = peek_uint16 r.
Proof.
  intros P H. pose proof (pre_rlen r r' P). unfold peek_uint16, peek. replace (rlen r <? 2) with false by lia.
  replace (rlen r' <? 2) with false by lia. cbn [orb Z.ltb bind]. destruct P as [_ [t Et]].
  rewrite Et, firstn_pre; [reflexivity|]. unfold rlen, len in H. lia.
Qed.

Lemma read_layout_pre L : forall r r' vs r1, pre r r' -> read_layout L r = Ok (vs, r1) ->
  exists r1', read_layout L r' = Ok (vs, r1') /\ pre r1 r1'.
Proof.
  induction L as [|[nm w] L IH]; intros r r' vs r1 P H; cbn [read_layout] in *.
  - injection H as <- <-. eexists; split; [reflexivity|exact P].
  - destruct (uintN w r) as [[v q]| | |] eqn:E1; cbn [bind fst snd] in H; try discriminate H.
    destruct (uintN_pre w r r' v q P E1) as (q' & -> & P1). cbn [bind fst snd].
    destruct (read_layout L q) as [[vs2 q2]| | |] eqn:E2; cbn [bind fst snd] in H; try discriminate H.
    destruct (IH q q' vs2 q2 P1 E2) as (q2' & -> & P2). cbn [bind fst snd].
    injection H as <- <-. eexists; split; [reflexivity|exact P2].
Qed.

Definition is_prefix {A} (a b : list A) : Prop := exists e, b = a ++ e.
Lemma is_prefix_refl {A} (a : list A) : is_prefix a a. Proof. exists []; now rewrite app_nil_r. Qed.
Lemma is_prefix_trans {A} (a b c : list A) : is_prefix a b -> is_prefix b c -> is_prefix a c.
Proof. intros [x ->] [y ->]. exists (x ++ y). now rewrite app_assoc. Qed.

Section Trunc.
  Context {C : Type}.
  Variable ops : cache_ops C.
  Variable im : infomodel.
  Variable hl : layout.

  Lemma fuel_of_pre r r' : pre r r' -> (fuel_of r <= fuel_of r')%nat.
  Proof. intros P. unfold fuel_of. pose proof (pre_length r r' P). lia. Qed.

  Lemma read_fspec_pre r r' s r1 : pre r r' -> read_fspec r = Ok (s, r1) ->
    exists r1', read_fspec r' = Ok (s, r1') /\ pre r1 r1'.
  Proof.
    intros P H. unfold read_fspec, uint16, uint32 in *.
    destruct (uintN 2 r) as [[v1 q1]| | |] eqn:E1; cbn [bind fst snd] in H; try discriminate H.
    destruct (uintN_pre 2 r r' v1 q1 P E1) as (q1' & -> & P1). cbn [bind fst snd].
    destruct (uintN 2 q1) as [[v2 q2]| | |] eqn:E2; cbn [bind fst snd] in H; try discriminate H.
    destruct (uintN_pre 2 q1 q1' v2 q2 P1 E2) as (q2' & -> & P2). cbn [bind fst snd].
    destruct (32768 <=? v1).
    - destruct (uintN 4 q2) as [[v3 q3]| | |] eqn:E3; cbn [bind fst snd] in H; try discriminate H.
      destruct (uintN_pre 4 q2 q2' v3 q3 P2 E3) as (q3' & -> & P3). cbn [bind fst snd].
      injection H as <- <-. eexists; split; [reflexivity|exact P3].
    - injection H as <- <-. eexists; split; [reflexivity|exact P2].
  Qed.

  Lemma read_fspecs_pre : forall k n r acc k' r' l r1, pre r r' -> (k <= k')%nat ->
    read_fspecs k n r acc = Ok (l, r1) -> exists r1', read_fspecs k' n r' acc = Ok (l, r1') /\ pre r1 r1'.
  Proof.
    induction k as [|k IH]; intros n r acc k' r' l r1 P Hk H; cbn [read_fspecs] in H.
    - destruct (n <=? 0) eqn:En; [|discriminate H]. injection H as <- <-.
      exists r'. split; [|exact P]. destruct k'; cbn [read_fspecs]; rewrite En; reflexivity.
    - destruct (n <=? 0) eqn:En.
      + injection H as <- <-. exists r'. split; [|exact P]. destruct k'; cbn [read_fspecs]; rewrite En; reflexivity.
      + destruct k' as [|k']; [lia|]. cbn [read_fspecs]. rewrite En.
        destruct (read_fspec r) as [[s q]| | |] eqn:E1; cbn [bind fst snd] in H; try discriminate H.
        destruct (read_fspec_pre r r' s q P E1) as (q' & -> & P1). cbn [bind fst snd].
        apply (IH _ _ _ k' q' _ _ P1 ltac:(lia) H).
  Qed.

  Lemma read_template_pre r r' t r1 : pre r r' -> read_template r = Ok (t, r1) ->
    exists r1', read_template r' = Ok (t, r1') /\ pre r1 r1'.
  Proof.
    intros P H. unfold read_template, uint16 in *.
    destruct (uintN 2 r) as [[v1 q1]| | |] eqn:E1; cbn [bind fst snd] in H; try discriminate H.
    destruct (uintN_pre 2 r r' v1 q1 P E1) as (q1' & -> & P1). cbn [bind fst snd].
    destruct (uintN 2 q1) as [[v2 q2]| | |] eqn:E2; cbn [bind fst snd] in H; try discriminate H.
    destruct (uintN_pre 2 q1 q1' v2 q2 P1 E2) as (q2' & -> & P2). cbn [bind fst snd].
    destruct (read_fspecs (fuel_of q2) v2 q2 []) as [[l q3]| | |] eqn:E3; cbn [bind fst snd] in H; try discriminate H.
    destruct (read_fspecs_pre _ _ _ _ (fuel_of q2') q2' _ _ P2 (fuel_of_pre _ _ P2) E3) as (q3' & -> & P3). cbn [bind fst snd].
    injection H as <- <-. eexists; split; [reflexivity|exact P3].
  Qed.

  Lemma read_opts_template_pre r r' t r1 : pre r r' -> read_opts_template r = Ok (t, r1) ->
    exists r1', read_opts_template r' = Ok (t, r1') /\ pre r1 r1'.
  Proof.
    intros P H. unfold read_opts_template, uint16 in *.
    destruct (uintN 2 r) as [[v1 q1]| | |] eqn:E1; cbn [bind fst snd] in H; try discriminate H.
    destruct (uintN_pre 2 r r' v1 q1 P E1) as (q1' & -> & P1). cbn [bind fst snd].
    destruct (uintN 2 q1) as [[v2 q2]| | |] eqn:E2; cbn [bind fst snd] in H; try discriminate H.
    destruct (uintN_pre 2 q1 q1' v2 q2 P1 E2) as (q2' & -> & P2). cbn [bind fst snd].
    destruct (uintN 2 q2) as [[v3 q3]| | |] eqn:E3; cbn [bind fst snd] in H; try discriminate H.
    destruct (uintN_pre 2 q2 q2' v3 q3 P2 E3) as (q3' & -> & P3). cbn [bind fst snd].
    destruct (read_fspecs (fuel_of q3) v3 q3 []) as [[l q4]| | |] eqn:E4; cbn [bind fst snd] in H; try discriminate H.
    destruct (read_fspecs_pre _ _ _ _ (fuel_of q3') q3' _ _ P3 (fuel_of_pre _ _ P3) E4) as (q4' & -> & P4). cbn [bind fst snd].
    destruct (read_fspecs (fuel_of q4) ((v2 - v3) mod 65536) q4 []) as [[l5 q5]| | |] eqn:E5; cbn [bind fst snd] in H; try discriminate H.
    destruct (read_fspecs_pre _ _ _ _ (fuel_of q4') q4' _ _ P4 (fuel_of_pre _ _ P4) E5) as (q5' & -> & P5). cbn [bind fst snd].
    injection H as <- <-. eexists; split; [reflexivity|exact P5].
  Qed.

  Lemma data_length_pre sl ty r r' v r1 : pre r r' -> data_length sl ty r = Ok (v, r1) ->
    exists r1', data_length sl ty r' = Ok (v, r1') /\ pre r1 r1'.
  Proof.
    intros P H. unfold data_length, uint8, uint16 in *.
    destruct (((ty =? T_String) || (ty =? T_OctetArray)) && (sl =? 65535)).
    - destruct (uintN 1 r) as [[v1 q1]| | |] eqn:E1; cbn [bind fst snd] in H; try discriminate H.
      destruct (uintN_pre 1 r r' v1 q1 P E1) as (q1' & -> & P1). cbn [bind fst snd].
      destruct (v1 =? 255).
      + apply (uintN_pre 2 q1 q1' v r1 P1 H).
      + injection H as <- <-. eexists; split; [reflexivity|exact P1].
    - injection H as <- <-. eexists; split; [reflexivity|exact P].
  Qed.

  Lemma decode_fields_pre : forall specs r r' acc o r1, pre r r' -> decode_fields im specs r acc = Ok (o, r1) ->
    exists r1', decode_fields im specs r' acc = Ok (o, r1') /\ pre r1 r1'.
  Proof.
    induction specs as [|s specs IH]; intros r r' acc o r1 P H; cbn [decode_fields] in *.
    - injection H as <- <-. eexists; split; [reflexivity|exact P].
    - destruct (im (f_pen s) (f_id s)) as [[fid ty]|].
      + destruct (data_length (f_len s) ty r) as [[l q1]| | |] eqn:E1; cbn [bind fst snd] in H; try discriminate H.
        destruct (data_length_pre _ _ r r' l q1 P E1) as (q1' & -> & P1). cbn [bind fst snd].
        destruct (read l q1) as [[b q2]| | |] eqn:E2; cbn [bind fst snd] in H; try discriminate H.
        destruct (read_pre l q1 q1' b q2 P1 E2) as (q2' & -> & P2). cbn [bind fst snd].
        destruct (interpret ty b) as [v| | |]; cbn [bind] in *; try discriminate H.
        apply (IH _ _ _ _ _ P2 H).
      + injection H as <- <-. eexists; split; [reflexivity|exact P].
  Qed.

  Lemma decode_data_pre t r r' o r1 : pre r r' -> decode_data im t r = Ok (o, r1) ->
    exists r1', decode_data im t r' = Ok (o, r1') /\ pre r1 r1'.
  Proof.
    intros P H. unfold decode_data in *.
    destruct (decode_fields im (t_scope t) r []) as [[o1 q1]| | |] eqn:E1; cbn [bind fst snd] in H; try discriminate H.
    destruct (decode_fields_pre _ r r' _ o1 q1 P E1) as (q1' & -> & P1). cbn [bind fst snd].
    destruct o1 as [sc|].
    - destruct (decode_fields im (t_fields t) q1 sc) as [[o2 q2]| | |] eqn:E2; cbn [bind fst snd] in H; try discriminate H.
      destruct (decode_fields_pre _ q1 q1' _ o2 q2 P1 E2) as (q2' & -> & P2). cbn [bind fst snd].
      destruct o2 as [[|f fs]|]; try discriminate H; injection H as <- <-; eexists; (split; [reflexivity|exact P2]).
    - injection H as <- <-. eexists; split; [reflexivity|exact P1].
  Qed.

  Lemma tpl_pre (b : bool) r r' t r1 : pre r r' ->
    (if b then read_template r else read_opts_template r) = Ok (t, r1) ->
    exists r1', (if b then read_template r' else read_opts_template r') = Ok (t, r1') /\ pre r1 r1'.
  Proof. destruct b; [apply read_template_pre|apply read_opts_template_pre]. Qed.

  (* the record loop: the complete run does the same, unless the truncated run stopped at the Len() guard with
     more than 4 octets of the set still declared (then the skip that follows must fail) *)
  Lemma set_loop_pre : forall k sid L start tr a c r ds k' r' c1 r1 ds1 nf, pre r r' -> (k <= k')%nat ->
    set_loop ops im k sid L start tr a c r ds = Ok (c1, SCont r1 ds1 nf) ->
    (exists r1', set_loop ops im k' sid L start tr a c r' ds = Ok (c1, SCont r1' ds1 nf) /\ pre r1 r1')
    \/ (rlen r1 <= 4 /\ 4 < (L - (count r1 - start) mod 65536) mod 65536).
  Proof.
    induction k as [|k IH]; intros sid L start tr a c r ds k' r' c1 r1 ds1 nf P Hk H;
      pose proof (pre_rlen r r' P) as Hl; pose proof (proj1 P) as Hc.
    - cbn [set_loop] in H.
      destruct (((count r - start) mod 65536 <? L) && (4 <? rlen r) && (4 <? (L - (count r - start) mod 65536) mod 65536)) eqn:Eg; [discriminate H|].
      injection H as <- <- <- <-.
      destruct (((count r' - start) mod 65536 <? L) && (4 <? rlen r') && (4 <? (L - (count r' - start) mod 65536) mod 65536)) eqn:Eg'.
      + right. rewrite <- Hc in Eg'. lia.
      + left. exists r'. split; [|exact P]. destruct k'; cbn [set_loop]; rewrite Eg'; reflexivity.
    - cbn [set_loop] in H.
      destruct (((count r - start) mod 65536 <? L) && (4 <? rlen r) && (4 <? (L - (count r - start) mod 65536) mod 65536)) eqn:Eg.
      2: { injection H as <- <- <- <-.
           destruct (((count r' - start) mod 65536 <? L) && (4 <? rlen r') && (4 <? (L - (count r' - start) mod 65536) mod 65536)) eqn:Eg'.
           + right. rewrite <- Hc in Eg'. lia.
           + left. exists r'. split; [|exact P]. destruct k'; cbn [set_loop]; rewrite Eg'; reflexivity. }
      destruct k' as [|k']; [lia|]. cbn [set_loop]. rewrite <- Hc.
      replace (((count r - start) mod 65536 <? L) && (4 <? rlen r') && (4 <? (L - (count r - start) mod 65536) mod 65536)) with true by lia.
      destruct ((sid =? 2) || (sid =? 3)).
      { rewrite (peek16_pre r r' P ltac:(lia)).
        assert (Hgo : forall X : outcome Z,
                  (t <- catch (if sid =? 2 then read_template r else read_opts_template r) ;;
                   match t with None => Ok (c, SFatal) | Some (tr', q) => c' <- c_insert ops c (t_id tr') a tr' ;; set_loop ops im k sid L start tr a c' q ds end)
                  = Ok (c1, SCont r1 ds1 nf) ->
                  (exists r1', (t <- catch (if sid =? 2 then read_template r' else read_opts_template r') ;;
                   match t with None => Ok (c, SFatal) | Some (tr', q) => c' <- c_insert ops c (t_id tr') a tr' ;; set_loop ops im k' sid L start tr a c' q ds end)
                  = Ok (c1, SCont r1' ds1 nf) /\ pre r1 r1') \/ (rlen r1 <= 4 /\ 4 < (L - (count r1 - start) mod 65536) mod 65536)).
        { intros _ H1.
          destruct (if sid =? 2 then read_template r else read_opts_template r) as [[t q]| | |] eqn:Et; cbn [catch bind] in H1; try discriminate H1.
          destruct (tpl_pre (sid =? 2) r r' t q P Et) as (q' & -> & Pq). cbn [catch bind].
          destruct (c_insert ops c (t_id t) a t) as [c2| | |]; cbn [bind] in *; try discriminate H1.
          apply (IH _ _ _ _ _ _ _ _ k' q' _ _ _ _ Pq ltac:(lia) H1). }
        destruct (peek_uint16 r) as [[|p|p]| | |]; try (apply (Hgo Hang); exact H).
        injection H as <- <- <- <-. left. exists r'. split; [reflexivity|exact P]. }
      destruct ((4 <=? sid) && (sid <=? 255)).
      { injection H as <- <- <- <-. left. exists r'. split; [reflexivity|exact P]. }
      destruct (sid =? 0); [discriminate H|].
      destruct (decode_data im tr r) as [[o q]| | |] eqn:Ed; cbn [catch bind] in H; try discriminate H.
      destruct (decode_data_pre tr r r' o q P Ed) as (q' & -> & Pq). cbn [catch bind].
      destruct o as [fs|].
      + rewrite <- (proj1 Pq). destruct (count q =? count r).
        * injection H as <- <- <- <-. left. exists q'. split; [reflexivity|exact Pq].
        * apply (IH _ _ _ _ _ _ _ _ k' q' _ _ _ _ Pq ltac:(lia) H).
      + injection H as <- <- <- <-. left. exists q'. split; [reflexivity|exact Pq].
  Qed.

  (* a set that completes on the truncated datagram completes identically on the complete one *)
  Lemma decode_set_pre a c r r' ds c1 r1 ds1 nf : pre r r' ->
    decode_set ops im a c r ds = Ok (c1, SCont r1 ds1 nf) ->
    exists r1', decode_set ops im a c r' ds = Ok (c1, SCont r1' ds1 nf) /\ pre r1 r1'.
  Proof.
    intros P H. pose proof (proj1 P) as Hc. unfold decode_set, uint16 in *. rewrite <- Hc.
    destruct (uintN 2 r) as [[sid q1]| | |] eqn:E1; cbn [catch bind fst snd] in H; try discriminate H.
    destruct (uintN_pre 2 r r' sid q1 P E1) as (q1' & -> & P1). cbn [bind fst snd].
    destruct (uintN 2 q1) as [[L q2]| | |] eqn:E2; cbn [catch bind fst snd] in H; try discriminate H.
    destruct (uintN_pre 2 q1 q1' L q2 P1 E2) as (q2' & -> & P2). cbn [catch bind fst snd].
    destruct (L <? 4); [discriminate H|].
    (* the skip by the declared length *)
    assert (Hskip : forall (c2 : C) r2 r2' ds2 e, pre r2 r2' ->
              (if 0 <? (L - (count r2 - count r) mod 65536) mod 65536
               then s <- catch (read ((L - (count r2 - count r) mod 65536) mod 65536) r2) ;;
                    match s with None => Ok (c2, SFatal) | Some (_, r3) => Ok (c2, SCont r3 ds2 e) end
               else Ok (c2, SCont r2 ds2 e)) = Ok (c1, SCont r1 ds1 nf) ->
              exists r1', (if 0 <? (L - (count r2' - count r) mod 65536) mod 65536
               then s <- catch (read ((L - (count r2' - count r) mod 65536) mod 65536) r2') ;;
                    match s with None => Ok (c2, SFatal) | Some (_, r3) => Ok (c2, SCont r3 ds2 e) end
               else Ok (c2, SCont r2' ds2 e)) = Ok (c1, SCont r1' ds1 nf) /\ pre r1 r1').
    { intros c2 r2 r2' ds2 e Pr Hs. rewrite <- (proj1 Pr).
      destruct (0 <? (L - (count r2 - count r) mod 65536) mod 65536).
      - destruct (read ((L - (count r2 - count r) mod 65536) mod 65536) r2) as [[b r3]| | |] eqn:Er; cbn [catch bind] in Hs; try discriminate Hs.
        destruct (read_pre _ r2 r2' b r3 Pr Er) as (r3' & -> & P3). cbn [catch bind].
        injection Hs as <- <- <- <-. exists r3'. split; [reflexivity|exact P3].
      - injection Hs as <- <- <- <-. exists r2'. split; [reflexivity|exact Pr]. }
    destruct (if 255 <? sid then c_retrieve ops c sid a else Ok (Some empty_template)) as [[tr|]| | |]; cbn [bind] in *; try discriminate H.
    - destruct (set_loop ops im (fuel_of q2) sid L (count r) tr a c q2 ds) as [[c2 [|r2 ds2 e]]| | |] eqn:El; cbn [bind fst snd] in H; try discriminate H.
      destruct (set_loop_pre _ _ _ _ _ _ _ _ _ (fuel_of q2') q2' _ _ _ _ P2 (fuel_of_pre _ _ P2) El) as [(r2' & -> & Pr)|[Hr4 Hleft]].
      + cbn [bind fst snd]. apply (Hskip c2 r2 r2' ds2 e Pr H).
      + (* early stop: the skip needs more than the 4 octets that are left *)
        exfalso. replace (0 <? (L - (count r2 - count r) mod 65536) mod 65536) with true in H by lia.
        rewrite (read_fail _ r2) in H by lia. cbn [catch bind] in H. discriminate H.
    - apply (Hskip c q2 q2' ds true P2 H).
  Qed.

  (* records only accumulate *)
  Lemma set_loop_acc : forall k sid L start tr a c r ds c1 r1 ds1 nf,
    set_loop ops im k sid L start tr a c r ds = Ok (c1, SCont r1 ds1 nf) -> is_prefix ds ds1.
  Proof.
    induction k as [|k IH]; intros sid L start tr a c r ds c1 r1 ds1 nf H; cbn [set_loop] in H.
    - destruct (_ && _ && _); [discriminate H|]. injection H as <- <- <- <-. apply is_prefix_refl.
    - destruct (_ && _ && _). 2: { injection H as <- <- <- <-. apply is_prefix_refl. }
      destruct ((sid =? 2) || (sid =? 3)).
      { assert (Hgo : (t <- catch (if sid =? 2 then read_template r else read_opts_template r) ;;
                   match t with None => Ok (c, SFatal) | Some (tr', q) => c' <- c_insert ops c (t_id tr') a tr' ;; set_loop ops im k sid L start tr a c' q ds end)
                  = Ok (c1, SCont r1 ds1 nf) -> is_prefix ds ds1).
        { intros H1. destruct (if sid =? 2 then read_template r else read_opts_template r) as [[t q]| | |]; cbn [catch bind] in H1; try discriminate H1.
          destruct (c_insert ops c (t_id t) a t) as [c2| | |]; cbn [bind] in H1; try discriminate H1. apply (IH _ _ _ _ _ _ _ _ _ _ _ _ H1). }
        destruct (peek_uint16 r) as [[|p|p]| | |]; try (apply Hgo; exact H).
        injection H as <- <- <- <-. apply is_prefix_refl. }
      destruct ((4 <=? sid) && (sid <=? 255)). { injection H as <- <- <- <-. apply is_prefix_refl. }
      destruct (sid =? 0); [discriminate H|].
      destruct (decode_data im tr r) as [[o q]| | |]; cbn [catch bind] in H; try discriminate H.
      destruct o as [fs|].
      + destruct (count q =? count r).
        * injection H as <- <- <- <-. apply is_prefix_refl.
        * apply IH in H. eapply is_prefix_trans; [|exact H]. exists [fs]. reflexivity.
      + injection H as <- <- <- <-. apply is_prefix_refl.
  Qed.

  Lemma decode_set_acc a c r ds c1 r1 ds1 nf :
    decode_set ops im a c r ds = Ok (c1, SCont r1 ds1 nf) -> is_prefix ds ds1.
  Proof.
    intros H. unfold decode_set in H.
    destruct (x <- uint16 r ;; y <- uint16 (snd x) ;; Ok (fst x, fst y, snd y)) as [[[sid L] q]| | |]; cbn [catch bind] in H; try discriminate H.
    destruct (L <? 4); [discriminate H|].
    assert (Hskip : forall (c2 : C) r2 ds2 e,
              (if 0 <? (L - (count r2 - count r) mod 65536) mod 65536
               then s <- catch (read ((L - (count r2 - count r) mod 65536) mod 65536) r2) ;;
                    match s with None => Ok (c2, SFatal) | Some (_, r3) => Ok (c2, SCont r3 ds2 e) end
               else Ok (c2, SCont r2 ds2 e)) = Ok (c1, SCont r1 ds1 nf) -> ds2 = ds1).
    { intros c2 r2 ds2 e Hs. destruct (0 <? _).
      - destruct (read _ r2) as [[b r3]| | |]; cbn [catch bind] in Hs; try discriminate Hs. now injection Hs as <- <- <- <-.
      - now injection Hs as <- <- <- <-. }
    destruct (if 255 <? sid then c_retrieve ops c sid a else Ok (Some empty_template)) as [[tr|]| | |]; cbn [bind] in *; try discriminate H.
    - destruct (set_loop ops im (fuel_of q) sid L (count r) tr a c q ds) as [[c2 [|r2 ds2 e]]| | |] eqn:El; cbn [bind fst snd] in H; try discriminate H.
      apply set_loop_acc in El. apply Hskip in H. now subst ds2.
    - apply Hskip in H. subst ds1. apply is_prefix_refl.
  Qed.

  Lemma sets_loop_acc : forall k a c r ds nf c1 ds1 nf1,
    sets_loop ops im k a c r ds nf = Ok (c1, Some (ds1, nf1)) -> is_prefix ds ds1.
  Proof.
    induction k as [|k IH]; intros a c r ds nf c1 ds1 nf1 H; cbn [sets_loop] in H.
    - destruct (4 <? rlen r); [discriminate H|]. injection H as <- <- <-. apply is_prefix_refl.
    - destruct (4 <? rlen r). 2: { injection H as <- <- <-. apply is_prefix_refl. }
      destruct (decode_set ops im a c r ds) as [[c2 [|r2 ds2 e]]| | |] eqn:Es; cbn [bind fst snd] in H; try discriminate H.
      apply decode_set_acc in Es. apply IH in H. eapply is_prefix_trans; eassumption.
  Qed.

  (* the loop over sets *)
  Lemma sets_loop_pre : forall k a c r ds nf k' r' c1 ds1 nf1 res, pre r r' -> (k <= k')%nat ->
    sets_loop ops im k a c r ds nf = Ok (c1, Some (ds1, nf1)) ->
    sets_loop ops im k' a c r' ds nf = Ok res ->
    snd res = None \/ exists ds2 nf2, snd res = Some (ds2, nf2) /\ is_prefix ds1 ds2.
  Proof.
    induction k as [|k IH]; intros a c r ds nf k' r' c1 ds1 nf1 res P Hk H H'; cbn [sets_loop] in H.
    - destruct (4 <? rlen r); [discriminate H|]. injection H as <- <- <-.
      destruct res as [c2 [[ds2 nf2]|]]; [right|left; reflexivity]. exists ds2, nf2. split; [reflexivity|]. eapply sets_loop_acc; exact H'.
    - destruct (4 <? rlen r) eqn:E4.
      2: { injection H as <- <- <-.
           destruct res as [c2 [[ds2 nf2]|]]; [right|left; reflexivity]. exists ds2, nf2. split; [reflexivity|]. eapply sets_loop_acc; exact H'. }
      destruct k' as [|k']; [lia|]. cbn [sets_loop] in H'. pose proof (pre_rlen r r' P). replace (4 <? rlen r') with true in H' by lia.
      destruct (decode_set ops im a c r ds) as [[c2 [|r2 ds2 e]]| | |] eqn:Es; cbn [bind fst snd] in H; try discriminate H.
      destruct (decode_set_pre a c r r' ds c2 r2 ds2 e P Es) as (r2' & Es' & P2). rewrite Es' in H'. cbn [bind fst snd] in H'.
      apply (IH _ _ _ _ _ k' r2' _ _ _ _ P2 ltac:(lia) H H').
  Qed.

  (* C09: cut the datagram at ANY octet.  If the truncated datagram still decodes to a message, the complete
     datagram is either rejected as a whole or decodes to the same header and a record list that the truncated
     one is a prefix of.  (Ok res: the complete decode is total, theorem C01.) *)
  Theorem ipfix_truncation_prefix (c : C) (a p : bytes) (n : nat) c1 m1 nf1 res :
    ipfix_decode ops im hl c a (firstn n p) = Ok (c1, DMsg m1 nf1) ->
    ipfix_decode ops im hl c a p = Ok res ->
    snd res = DFail \/ exists m2 nf2, snd res = DMsg m2 nf2 /\ i_agent m2 = i_agent m1 /\ i_header m2 = i_header m1 /\ is_prefix (i_sets m1) (i_sets m2).
  Proof.
    intros H H'. unfold ipfix_decode in *.
    assert (P : pre (new_reader (firstn n p)) (new_reader p)).
    { split; [reflexivity|]. exists (skipn n p). cbn. now rewrite firstn_skipn. }
    destruct (read_layout hl (new_reader (firstn n p))) as [[hv r]| | |] eqn:Eh; cbn [catch bind] in H; try discriminate H.
    destruct (read_layout_pre hl _ _ hv r P Eh) as (r' & Eh' & Pr). rewrite Eh' in H'. cbn [catch bind] in H'.
    destruct (negb (field_get "Version" (named_fields hl hv) =? 10)); [discriminate H|].
    destruct (sets_loop ops im (fuel_of r) a c r [] 0) as [[c2 [[ds nf]|]]| | |] eqn:Es; cbn [bind fst snd] in H; try discriminate H.
    injection H as <- <- <-.
    destruct (sets_loop ops im (fuel_of r') a c r' [] 0) as [[c3 o]| | |] eqn:Es'; cbn [bind fst snd] in H'; try discriminate H'.
    destruct (sets_loop_pre _ _ _ _ _ _ (fuel_of r') r' _ _ _ _ Pr (fuel_of_pre _ _ Pr) Es Es') as [Hn|(ds2 & nf2 & Hs & Hp)]; cbn [snd] in *.
    - subst o. injection H' as <-. left; reflexivity.
    - subst o. injection H' as <-. right. exists {| i_agent := a; i_header := named_fields hl hv; i_sets := ds2 |}, nf2. cbn. auto.
  Qed.
End Trunc.
