(* Tie obligations: the tables regenerated from /repo's CURRENT source equal the tables the proofs
   were written against.  Re-checked on every run; a source edit that reorders, drops, widens or
   swaps a field breaks exactly one of these. *)
From VF Require Import Base.Prelude Model.Layout Model.JsonPieces.
From VF Require Gen.Layouts Gen.JsonPieces Pinned.Nf5Tables.
Module GL := VF.Gen.Layouts.
Module GP := VF.Gen.JsonPieces.
Module P5 := VF.Pinned.Nf5Tables.

Lemma tie_nf5_header_layout : GL.nf5_header_layout = P5.nf5_header_layout. Proof. reflexivity. Qed.
Lemma tie_nf5_flow_layout : GL.nf5_flow_layout = P5.nf5_flow_layout. Proof. reflexivity. Qed.
Lemma tie_nf5_agent_pieces : GP.nf5_agent_pieces = P5.nf5_agent_pieces. Proof. reflexivity. Qed.
Lemma tie_nf5_header_pieces : GP.nf5_header_pieces = P5.nf5_header_pieces. Proof. vm_compute. reflexivity. Qed.
Lemma tie_nf5_flow_pieces : GP.nf5_flow_pieces = P5.nf5_flow_pieces. Proof. vm_compute. reflexivity. Qed.
