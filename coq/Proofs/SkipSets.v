(* C09, first half (IPFIX): a set that cannot be decoded is skipped by its declared length and the records of
   all other sets are emitted exactly as if it were absent.  Three kinds, as the property lists them: a reserved
   set id (4..255), a template id unknown for this exporter at that point of the message, and a data set whose
   template uses an element that is missing from the information model.  The message is a well-formed message
   (Proofs/IpfixFidelity.v) with any number of such sets inserted at any positions. *)
From VF Require Import Base.Prelude Model.Reader Model.Layout Model.JsonPieces Model.Flow Model.Cache Model.Ipfix Spec.FlowWire
  Proofs.ReaderProofs Proofs.LayoutProofs Proofs.FlowSafety Proofs.IpfixFidelity.

Section Skip.
  Variable im : infomodel.
  Variable hl : layout.

  Lemma decode_fields_app : forall s1 s2 r acc,
    decode_fields im (s1 ++ s2) r acc
    = (x <- decode_fields im s1 r acc ;;
       match fst x with None => Ok (None, snd x) | Some acc' => decode_fields im s2 (snd x) acc' end).
  Proof.
    induction s1 as [|s s1 IH]; intros s2 r acc; cbn [app decode_fields]; [reflexivity|].
    destruct (im (f_pen s) (f_id s)) as [[fid ty]|]; [|reflexivity].
    destruct (data_length (f_len s) ty r) as [[l q]| | |]; cbn [bind fst snd]; try reflexivity.
    destruct (read l q) as [[b q2]| | |]; cbn [bind fst snd]; try reflexivity.
    destruct (interpret ty b) as [v| | |]; cbn [bind]; try reflexivity. apply IH.
  Qed.

  (* the first record of the set runs into an element the information model does not have: `done` are the
     fields before it (laid out as the template says), `tail` is whatever follows *)
  Definition missing_at (tr : template) (done : list wfield) : Prop :=
    Forall (wfield_ok im) done /\
    ((exists bad post, t_scope tr = map w_spec done ++ bad :: post /\ im (f_pen bad) (f_id bad) = None)
     \/ (exists sc fs bad post, done = sc ++ fs /\ t_scope tr = map w_spec sc /\
           t_fields tr = map w_spec fs ++ bad :: post /\ im (f_pen bad) (f_id bad) = None)).

  Lemma decode_data_missing tr done tail c : missing_at tr done ->
    decode_data im tr {| data := enc_record im done ++ tail; count := c |}
    = Ok (None, {| data := tail; count := c + len (enc_record im done) |}).
  Proof.
    intros [Hok [(bad & post & Hs & Hb)|(sc & fs & bad & post & -> & Hs & Hf & Hb)]]; unfold decode_data.
    - rewrite Hs, decode_fields_app, (decode_fields_fidelity im done tail c [] Hok). cbn [bind fst snd decode_fields].
      rewrite Hb. reflexivity.
    - apply Forall_app in Hok as [Hok1 Hok2]. rewrite Hs, enc_record_app, <- app_assoc.
      rewrite (decode_fields_fidelity im sc _ c [] Hok1). cbn [bind fst snd app].
      rewrite Hf, decode_fields_app, (decode_fields_fidelity im fs tail _ _ Hok2). cbn [bind fst snd decode_fields].
      rewrite Hb. cbn [bind fst snd]. rewrite len_app. do 3 f_equal. lia.
  Qed.

  (* what makes a set undecodable for exporter a when the cache holds m *)
  Definition bad_ok (a : bytes) (m : amap) (sid : Z) (body : bytes) : Prop :=
    4 + len body < 65536 /\
    ((4 <= sid <= 255)
     \/ (255 < sid < 65536 /\ amap_get a (sid mod 65536) m = None)
     \/ (255 < sid < 65536 /\ exists tr done tail, amap_get a (sid mod 65536) m = Some tr /\
           missing_at tr done /\ body = enc_record im done ++ tail)).

  Definition enc_bad (sid : Z) (body : bytes) : bytes := enc 2 sid ++ enc 2 (4 + len body) ++ body.

  Lemma skip_tail (m : amap) L start r2 body' rest ds e :
    r2 = {| data := body' ++ rest; count := start + (L - len body') |} -> 0 <= len body' <= L -> L < 65536 ->
    (if 0 <? (L - (count r2 - start) mod 65536) mod 65536
     then s <- catch (read ((L - (count r2 - start) mod 65536) mod 65536) r2) ;;
          match s with None => Ok (m, SFatal) | Some (_, r3) => Ok (m, SCont r3 ds e) end
     else Ok (m, SCont r2 ds e))
    = Ok (m, SCont {| data := rest; count := start + L |} ds e).
  Proof.
    intros -> Hb HL. cbn [count].
    replace (start + (L - len body') - start) with (L - len body') by lia.
    rewrite (Z.mod_small (L - len body')) by lia. replace (L - (L - len body')) with (len body') by lia.
    rewrite (Z.mod_small (len body')) by lia.
    destruct (0 <? len body') eqn:Ep.
    - rewrite (read_app body' rest _ (len body') eq_refl). cbn [catch bind].
      replace (start + (L - len body') + len body') with (start + L) by lia. reflexivity.
    - assert (body' = []) by (destruct body' as [|x p]; [reflexivity|rewrite len_cons in Ep; pose proof (len_nonneg p); lia]).
      subst body'. cbn [app]. change (len (@nil Z)) with 0. replace (start + (L - 0)) with (start + L) by lia. reflexivity.
  Qed.

  Theorem bad_set_skipped (a : bytes) (m : amap) sid body rest cnt ds : bad_ok a m sid body ->
    exists e, decode_set am_ops im a m {| data := enc_bad sid body ++ rest; count := cnt |} ds
              = Ok (m, SCont {| data := rest; count := cnt + len (enc_bad sid body) |} ds e).
  Proof.
    intros [HL Hk]. pose proof (len_nonneg body) as Hb0. pose proof (len_nonneg rest) as Hr0.
    assert (Hsid : 4 <= sid < 65536) by (destruct Hk as [?|[[? _]|[? _]]]; lia).
    unfold decode_set, enc_bad, uint16. rewrite <- !app_assoc.
    rewrite (uintN_app (enc 2 sid) _ cnt 2) by (rewrite ?len_enc; lia). cbn [bind fst snd].
    rewrite (uintN_app (enc 2 (4 + len body)) _ (cnt + 2) 2) by (rewrite ?len_enc; lia).
    cbn [bind fst snd catch count]. rewrite !be_enc2 by lia.
    replace (4 + len body <? 4) with false by lia.
    replace (cnt + len (enc 2 sid ++ enc 2 (4 + len body) ++ body)) with (cnt + (4 + len body)) by (rewrite !len_app, !len_enc; lia).
    set (r1 := {| data := body ++ rest; count := cnt + 2 + 2 |}).
    assert (Hr1 : r1 = {| data := body ++ rest; count := cnt + (4 + len body - len body) |}) by (unfold r1; f_equal; lia).
    destruct Hk as [Hres|[[Hs Hunk]|[Hs (tr & done & tail & Hget & Hmiss & Hbody)]]].
    - (* reserved *)
      replace (255 <? sid) with false by lia. cbn [bind]. exists false.
      assert (Hloop : set_loop am_ops im (fuel_of r1) sid (4 + len body) cnt empty_template a m r1 ds = Ok (m, SCont r1 ds false)).
      { unfold fuel_of. cbn [set_loop]. destruct (_ && _ && _); [|reflexivity].
        replace ((sid =? 2) || (sid =? 3)) with false by lia. replace ((4 <=? sid) && (sid <=? 255)) with true by lia. reflexivity. }
      rewrite Hloop. cbn [bind snd fst]. apply (skip_tail m (4 + len body) cnt r1 body rest ds false Hr1); lia.
    - (* unknown template *)
      replace (255 <? sid) with true by lia. cbn [c_retrieve am_ops bind]. rewrite Hunk. cbn [bind snd fst]. exists true.
      apply (skip_tail m (4 + len body) cnt r1 body rest ds true Hr1); lia.
    - (* element missing from the information model *)
      replace (255 <? sid) with true by lia. cbn [c_retrieve am_ops bind]. rewrite Hget. cbn [bind].
      unfold fuel_of. cbn [set_loop]. unfold r1 at 1 2 3. cbn [count]. unfold rlen. cbn [data].
      destruct (_ && _ && _).
      + replace ((sid =? 2) || (sid =? 3)) with false by lia. replace ((4 <=? sid) && (sid <=? 255)) with false by lia.
        replace (sid =? 0) with false by lia. unfold r1. rewrite Hbody, <- app_assoc.
        rewrite (decode_data_missing tr done (tail ++ rest) _ Hmiss). cbn [catch bind snd fst]. exists true.
        rewrite Hbody, len_app in HL. pose proof (len_nonneg tail). pose proof (len_nonneg (enc_record im done)).
        rewrite len_app.
        apply (skip_tail m (4 + (len (enc_record im done) + len tail)) cnt _ tail rest ds true); [f_equal; lia|lia|lia].
      + cbn [bind snd fst]. exists false. apply (skip_tail m (4 + len body) cnt r1 body rest ds false Hr1); lia.
  Qed.

  (* ---- a well-formed message with undecodable sets inserted anywhere ---- *)
  Inductive xset := XGood (s : wset) | XBad (sid : Z) (body : bytes).
  Definition enc_xset (x : xset) : bytes :=
    match x with XGood s => enc_set im s | XBad sid body => enc_bad sid body end.
  Fixpoint goods (xs : list xset) : list wset :=
    match xs with [] => [] | XGood s :: r => s :: goods r | XBad _ _ :: r => goods r end.

  (* like sets_ok, and each inserted set is undecodable against the templates in force where it stands *)
  Fixpoint xsets_ok (a : bytes) (m : amap) (xs : list xset) : Prop :=
    match xs with
    | [] => True
    | XBad sid body :: r => bad_ok a m sid body /\ xsets_ok a m r
    | XGood s :: r => sets_ok im a m [s] /\ xsets_ok a (final_map a m [s]) r
    end.

  Lemma sets_ok_cons a m s r : sets_ok im a m (s :: r) <-> sets_ok im a m [s] /\ sets_ok im a (final_map a m [s]) r.
  Proof. destruct s; cbn [sets_ok final_map]; tauto. Qed.

  Lemma xsets_ok_goods a : forall xs m, xsets_ok a m xs -> sets_ok im a m (goods xs).
  Proof.
    induction xs as [|[s|sid body] xs IH]; intros m H; cbn [goods xsets_ok] in *; [exact I| |].
    - apply sets_ok_cons. split; [tauto|apply IH; tauto].
    - apply IH; tauto.
  Qed.

  Lemma enc_xset_len a m x r : xsets_ok a m (x :: r) -> 4 <= len (enc_xset x).
  Proof.
    destruct x as [s|sid body]; cbn [xsets_ok enc_xset].
    - intros [H _]. pose proof (enc_set_len im a m s [] H). lia.
    - intros _. unfold enc_bad. rewrite !len_app, !len_enc. pose proof (len_nonneg body). lia.
  Qed.

  Lemma xsets_fuel a : forall xs m, xsets_ok a m xs -> (length xs <= length (flat_map enc_xset xs))%nat.
  Proof.
    induction xs as [|x xs IH]; intros m H; [cbn; lia|]. pose proof (enc_xset_len a m x xs H) as H4.
    cbn [flat_map length]. rewrite app_length.
    assert (Hr : exists m', xsets_ok a m' xs) by (destruct x; cbn [xsets_ok] in H; eexists; apply H).
    destruct Hr as [m' Hr]. specialize (IH m' Hr). unfold len in H4. lia.
  Qed.

  Theorem xsets_loop (a : bytes) : forall xs m cnt ds nf fuel,
    xsets_ok a m xs -> (length xs < fuel)%nat ->
    exists nf', sets_loop am_ops im fuel a m {| data := flat_map enc_xset xs; count := cnt |} ds nf
                = Ok (final_map a m (goods xs), Some (ds ++ expected_sets im (goods xs), nf')).
  Proof.
    induction xs as [|x xs IH]; intros m cnt ds nf fuel Hok Hf.
    - exists nf. destruct fuel as [|k]; [cbn in Hf; lia|]. cbn [sets_loop flat_map]. unfold rlen; cbn. now rewrite app_nil_r.
    - destruct fuel as [|k]; [cbn in Hf; lia|]. pose proof (enc_xset_len a m x xs Hok) as Hl4.
      cbn [sets_loop flat_map]. unfold rlen; cbn [data]. rewrite len_app. pose proof (len_nonneg (flat_map enc_xset xs)) as Hn.
      destruct x as [s|sid body]; cbn [xsets_ok enc_xset goods] in *.
      + destruct Hok as [Hs Hr]. pose proof (enc_set_len im a m s [] Hs).
        replace (4 <? len (enc_set im s) + len (flat_map enc_xset xs)) with true by lia.
        destruct s as [o ts pad|sid recs pad]; cbn [sets_ok enc_set expected_sets final_map] in *.
        * destruct Hs as (H1 & H2 & _ & H4 & H5 & _).
          rewrite (tpl_set_fidelity im a m o ts pad _ cnt ds H1 H2 H4 H5). cbn [bind fst snd].
          apply IH; [exact Hr|cbn in Hf; lia].
        * destruct Hs as ((tr & Hsid & Hg & Hm) & H2 & H3 & _ & H5 & H6 & H7 & _).
          rewrite (data_set_fidelity im a m tr sid recs pad _ cnt ds Hsid Hg Hm H2 H3 H5 H6 H7). cbn [bind fst snd].
          destruct (IH m (cnt + len (enc_data_set im sid recs pad)) (ds ++ map (expected_record im) recs) nf k Hr ltac:(cbn in Hf; lia)) as [nf' E].
          exists nf'. rewrite E. now rewrite <- app_assoc.
      + destruct Hok as [Hb Hr].
        destruct (4 <? len (enc_bad sid body) + len (flat_map enc_xset xs)) eqn:E4.
        * destruct (bad_set_skipped a m sid body (flat_map enc_xset xs) cnt ds Hb) as [e ->]. cbn [bind fst snd].
          apply IH; [exact Hr|cbn in Hf; lia].
        * (* a 4-octet set at the very end is not looked at *)
          assert (flat_map enc_xset xs = []) by (destruct (flat_map enc_xset xs) as [|y l]; [reflexivity|rewrite len_cons in E4; pose proof (len_nonneg l); lia]).
          assert (xs = []).
          { destruct xs as [|y l]; [reflexivity|]. exfalso. pose proof (xsets_fuel a (y :: l) m Hr) as Hq. rewrite H in Hq. cbn in Hq. lia. }
          subst xs. cbn [goods expected_sets final_map]. exists nf. now rewrite app_nil_r.
  Qed.

  (* C09: the message with the undecodable sets and the message without them decode to the same header, the
     same records and the same template cache *)
  Theorem ipfix_skip_undecodable (a : bytes) (m : amap) hvals xs :
    fits hl hvals -> field_get "Version" (named_fields hl hvals) = 10 -> xsets_ok a m xs ->
    exists nf,
      ipfix_decode am_ops im hl m a (enc_layout hl hvals ++ flat_map enc_xset xs)
      = Ok (final_map a m (goods xs),
            DMsg {| i_agent := a; i_header := named_fields hl hvals; i_sets := expected_sets im (goods xs) |} nf)
      /\ ipfix_decode am_ops im hl m a (enc_layout hl hvals ++ flat_map (enc_set im) (goods xs))
      = Ok (final_map a m (goods xs),
            DMsg {| i_agent := a; i_header := named_fields hl hvals; i_sets := expected_sets im (goods xs) |} 0).
  Proof.
    intros Hfit Hv Hok.
    assert (Hfuel : (length xs < fuel_of {| data := flat_map enc_xset xs; count := 0 + layout_size hl |})%nat).
    { unfold fuel_of; cbn [data]. pose proof (xsets_fuel a xs m Hok). lia. }
    destruct (xsets_loop a xs m (0 + layout_size hl) [] 0 _ Hok Hfuel) as [nf E].
    exists nf. split; [|apply ipfix_fidelity; [exact Hfit|exact Hv|apply xsets_ok_goods; exact Hok]].
    unfold ipfix_decode, new_reader. rewrite (read_layout_app hl hvals _ 0 Hfit). cbn [catch bind].
    rewrite Hv. cbn [Z.eqb Pos.eqb negb]. rewrite E. cbn [bind fst snd app]. reflexivity.
  Qed.
End Skip.
