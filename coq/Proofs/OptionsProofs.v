(* C17: any stage list of the documented shape (other flags; getEnv; other flags; loadCfg;
   registrations whose default is the current field value; flag.Parse) gives every registered setting
   the value: command line, else configuration file, else environment, else built-in default —
   for ALL source contents. *)
From VF Require Import Base.Prelude Model.Options.

Lemma split_at_spec p : forall l a b, split_at p l = (a, b) ->
  l = a ++ b /\ forallb (fun x => negb (p x)) a = true /\ match b with [] => True | x :: _ => p x = true end.
Proof.
  induction l as [|x l IH]; intros a b H; cbn [split_at] in H.
  - inversion H; subst. repeat split.
  - destruct (p x) eqn:E.
    + inversion H; subst. cbn. repeat split. exact E.
    + destruct (split_at p l) as [a' b'] eqn:Es. inversion H; subst.
      destruct (IH a' b eq_refl) as (H1 & H2 & H3). subst l. cbn. rewrite E. cbn. repeat split; assumption.
Qed.

Lemma fold_left_app_stage s l1 l2 st :
  fold_left (run_stage s) (l1 ++ l2) st = fold_left (run_stage s) l2 (fold_left (run_stage s) l1 st).
Proof. apply fold_left_app. Qed.

(* stages that do not change anything *)
Lemma other_regs_noop s : forall l st, forallb is_reg_other l = true -> fold_left (run_stage s) l st = st.
Proof.
  induction l as [|x l IH]; intros st H; [reflexivity|]. cbn [forallb] in H. apply andb_true_iff in H as [Hx Hl].
  destruct x; try discriminate. cbn [fold_left run_stage]. apply IH; exact Hl.
Qed.

(* registrations with the current value as default: fields unchanged, registrations appended in order *)
Lemma plain_regs s : forall l st, forallb is_plain_reg l = true ->
  fields (fold_left (run_stage s) l st) = fields st /\ regs (fold_left (run_stage s) l st) = regs st ++ reg_pairs l.
Proof.
  induction l as [|x l IH]; intros st H; cbn [fold_left reg_pairs flat_map]; [split; [reflexivity|now rewrite app_nil_r]|].
  cbn [forallb] in H. apply andb_true_iff in H as [Hx Hl].
  destruct x as [| |f flag d|flag| |t]; try discriminate.
  - destruct d; try discriminate. cbn [run_stage].
    destruct (IH {| fields := fields st; regs := regs st ++ [(flag, f)] |} Hl) as [F R]. cbn [fields regs] in *.
    split; [exact F|]. rewrite R. cbn [app]. rewrite <- app_assoc. reflexivity.
  - cbn [run_stage]. apply IH; exact Hl.
Qed.

(* flag.Parse over the registered flags *)
Lemma parse_fold s : forall rs st f flag,
  nodup_str (map snd rs) = true -> In (flag, f) rs ->
  fields (fold_left (fun acc r => match src_cli s (fst r) with Some v => set_field acc (snd r) v | None => acc end) rs st) f
  = match src_cli s flag with Some v => v | None => fields st f end.
Proof.
  induction rs as [|[fl g] rs IH]; intros st f flag Hnd Hin; [contradiction|].
  cbn [map snd nodup_str] in Hnd. apply andb_true_iff in Hnd as [Hg Hnd].
  cbn [fold_left fst snd]. destruct Hin as [Heq|Hin].
  - inversion Heq; subst fl g; clear Heq.
    (* f does not occur again: the rest leaves it alone *)
    assert (Hrest : forall st0, fields (fold_left (fun acc r => match src_cli s (fst r) with Some v => set_field acc (snd r) v | None => acc end) rs st0) f = fields st0 f).
    { clear IH Hnd. apply negb_true_iff in Hg. revert Hg. induction rs as [|[fl' g'] rs IHr]; intros Hg st0; [reflexivity|].
      cbn [map snd existsb] in Hg. apply orb_false_iff in Hg as [Hne Hg]. cbn [fold_left fst snd].
      rewrite IHr by exact Hg. destruct (src_cli s fl'); [|reflexivity]. cbn [set_field fields]. rewrite Hne. reflexivity. }
    rewrite Hrest. destruct (src_cli s flag); [|reflexivity]. cbn [set_field fields]. rewrite String.eqb_refl. reflexivity.
  - rewrite (IH _ f flag Hnd Hin). destruct (src_cli s flag) as [v|]; [reflexivity|].
    destruct (src_cli s fl); [|reflexivity]. cbn [set_field fields].
    destruct (String.eqb f g) eqn:E; [|reflexivity].
    (* g = f would contradict NoDup, since (flag, f) is in rs *)
    apply String.eqb_eq in E. subst g. apply negb_true_iff in Hg. exfalso.
    assert (existsb (String.eqb f) (map snd rs) = true).
    { apply existsb_exists. exists f. split; [|apply String.eqb_refl]. apply in_map_iff. exists (flag, f). split; [reflexivity|exact Hin]. }
    congruence.
Qed.

Theorem precedence stages : stages_ok stages = true ->
  forall s f flag, In (flag, f) (reg_pairs stages) -> eval stages s f = priority s f flag.
Proof.
  unfold stages_ok. intros Hok s f flag Hin.
  destruct (split_at (fun x => match x with StEnv => true | _ => false end) stages) as [pre r1] eqn:E1.
  destruct (split_at_spec _ _ _ _ E1) as (L1 & P1 & _).
  destruct r1 as [|x1 r2]; [discriminate|]. destruct x1; try discriminate.
  destruct (split_at (fun x => match x with StFile => true | _ => false end) r2) as [mid r3] eqn:E2.
  destruct (split_at_spec _ _ _ _ E2) as (L2 & P2 & _).
  destruct r3 as [|x3 r4]; [discriminate|]. destruct x3; try discriminate.
  destruct (split_at (fun x => match x with StParse => true | _ => false end) r4) as [rs r5] eqn:E3.
  destruct (split_at_spec _ _ _ _ E3) as (L3 & P3 & _).
  destruct r5 as [|x5 r6]; [discriminate|]. destruct x5; try discriminate. destruct r6; [|discriminate].
  repeat (apply andb_true_iff in Hok as [Hok ?]).
  subst stages r2 r4.
  (* where the registration of f lives *)
  assert (Hno : forall l, forallb is_reg_other l = true -> reg_pairs l = []).
  { induction l as [|y l IHl]; intros Hy; [reflexivity|]. cbn [forallb] in Hy. apply andb_true_iff in Hy as [Hy1 Hy2].
    destruct y; try discriminate. cbn. apply IHl; exact Hy2. }
  assert (Happ : forall a b, reg_pairs (a ++ b) = reg_pairs a ++ reg_pairs b) by (intros; apply flat_map_app).
  assert (Hin' : In (flag, f) (reg_pairs rs)).
  { rewrite Happ, (Hno pre Hok) in Hin. cbn [app] in Hin.
    change (reg_pairs (StEnv :: mid ++ StFile :: rs ++ [StParse])) with (reg_pairs (mid ++ StFile :: rs ++ [StParse])) in Hin.
    rewrite Happ, (Hno mid H2) in Hin. cbn [app] in Hin.
    change (reg_pairs (StFile :: rs ++ [StParse])) with (reg_pairs (rs ++ [StParse])) in Hin.
    rewrite Happ in Hin. apply in_app_or in Hin as [Hin|Hin]; [exact Hin|cbn in Hin; contradiction]. }
  unfold eval. rewrite (fold_left_app_stage s pre). rewrite (other_regs_noop s pre _ Hok).
  cbn [fold_left run_stage fields regs]. rewrite (fold_left_app_stage s mid). rewrite (other_regs_noop s mid _ H2).
  cbn [fold_left run_stage fields regs]. rewrite (fold_left_app_stage s rs).
  match goal with |- context [fold_left (run_stage s) rs ?st0] => destruct (plain_regs s rs st0 H1) as [F R]; set (st1 := fold_left (run_stage s) rs st0) in * end.
  cbn [fold_left run_stage]. cbn [regs fields] in R. rewrite R. cbn [app].
  rewrite (parse_fold s (reg_pairs rs) st1 f flag H Hin'). rewrite F. cbn [fields].
  unfold priority, overlay. reflexivity.
Qed.
