(* C09, second half, for NetFlow v9: the same simulation as Proofs/Truncation.v over Model/Nf9.v. *)
From VF Require Import Base.Prelude Model.Reader Model.Layout Model.JsonPieces Model.Flow Model.Nf9
  Proofs.ReaderProofs Proofs.LayoutProofs Proofs.Truncation.

Section Trunc9.
  Context {C : Type}.
  Variable ops : cache_ops C.
  Variable im : infomodel.
  Variable hl : layout.

  Lemma fuel_of_pre r r' : pre r r' -> (fuel_of r <= fuel_of r')%nat.
  Proof. intros P. unfold fuel_of. pose proof (pre_length r r' P). lia. Qed.

  Lemma read_fspec9_pre r r' s r1 : pre r r' -> read_fspec9 r = Ok (s, r1) ->
    exists r1', read_fspec9 r' = Ok (s, r1') /\ pre r1 r1'.
  Proof.
    intros P H. unfold read_fspec9, uint16 in *.
    destruct (uintN 2 r) as [[v1 q1]| | |] eqn:E1; cbn [bind fst snd] in H; try discriminate H.
    destruct (uintN_pre 2 r r' v1 q1 P E1) as (q1' & -> & P1). cbn [bind fst snd].
    destruct (uintN 2 q1) as [[v2 q2]| | |] eqn:E2; cbn [bind fst snd] in H; try discriminate H.
    destruct (uintN_pre 2 q1 q1' v2 q2 P1 E2) as (q2' & -> & P2). cbn [bind fst snd].
    injection H as <- <-. eexists; split; [reflexivity|exact P2].
  Qed.

  Lemma read_fspecs9_pre : forall k n r acc k' r' l r1, pre r r' -> (k <= k')%nat ->
    read_fspecs9 k n r acc = Ok (l, r1) -> exists r1', read_fspecs9 k' n r' acc = Ok (l, r1') /\ pre r1 r1'.
  Proof.
    induction k as [|k IH]; intros n r acc k' r' l r1 P Hk H; cbn [read_fspecs9] in H.
    - destruct (n <=? 0) eqn:En; [|discriminate H]. injection H as <- <-.
      exists r'. split; [|exact P]. destruct k'; cbn [read_fspecs9]; rewrite En; reflexivity.
    - destruct (n <=? 0) eqn:En.
      + injection H as <- <-. exists r'. split; [|exact P]. destruct k'; cbn [read_fspecs9]; rewrite En; reflexivity.
      + destruct k' as [|k']; [lia|]. cbn [read_fspecs9]. rewrite En.
        destruct (read_fspec9 r) as [[s q]| | |] eqn:E1; cbn [bind fst snd] in H; try discriminate H.
        destruct (read_fspec9_pre r r' s q P E1) as (q' & -> & P1). cbn [bind fst snd].
        apply (IH _ _ _ k' q' _ _ P1 ltac:(lia) H).
  Qed.

  Lemma read_template9_pre r r' t r1 : pre r r' -> read_template9 r = Ok (t, r1) ->
    exists r1', read_template9 r' = Ok (t, r1') /\ pre r1 r1'.
  Proof.
    intros P H. unfold read_template9, uint16 in *.
    destruct (uintN 2 r) as [[v1 q1]| | |] eqn:E1; cbn [bind fst snd] in H; try discriminate H.
    destruct (uintN_pre 2 r r' v1 q1 P E1) as (q1' & -> & P1). cbn [bind fst snd].
    destruct (uintN 2 q1) as [[v2 q2]| | |] eqn:E2; cbn [bind fst snd] in H; try discriminate H.
    destruct (uintN_pre 2 q1 q1' v2 q2 P1 E2) as (q2' & -> & P2). cbn [bind fst snd].
    destruct (read_fspecs9 (fuel_of q2) v2 q2 []) as [[l q3]| | |] eqn:E3; cbn [bind fst snd] in H; try discriminate H.
    destruct (read_fspecs9_pre _ _ _ _ (fuel_of q2') q2' _ _ P2 (fuel_of_pre _ _ P2) E3) as (q3' & -> & P3). cbn [bind fst snd].
    injection H as <- <-. eexists; split; [reflexivity|exact P3].
  Qed.

  Lemma read_opts_template9_pre r r' t r1 : pre r r' -> read_opts_template9 r = Ok (t, r1) ->
    exists r1', read_opts_template9 r' = Ok (t, r1') /\ pre r1 r1'.
  Proof.
    intros P H. unfold read_opts_template9, uint16 in *.
    destruct (uintN 2 r) as [[v1 q1]| | |] eqn:E1; cbn [bind fst snd] in H; try discriminate H.
    destruct (uintN_pre 2 r r' v1 q1 P E1) as (q1' & -> & P1). cbn [bind fst snd].
    destruct (uintN 2 q1) as [[v2 q2]| | |] eqn:E2; cbn [bind fst snd] in H; try discriminate H.
    destruct (uintN_pre 2 q1 q1' v2 q2 P1 E2) as (q2' & -> & P2). cbn [bind fst snd].
    destruct (uintN 2 q2) as [[v3 q3]| | |] eqn:E3; cbn [bind fst snd] in H; try discriminate H.
    destruct (uintN_pre 2 q2 q2' v3 q3 P2 E3) as (q3' & -> & P3). cbn [bind fst snd].
    destruct (read_fspecs9 (fuel_of q3) (v2 / 4) q3 []) as [[l q4]| | |] eqn:E4; cbn [bind fst snd] in H; try discriminate H.
    destruct (read_fspecs9_pre _ _ _ _ (fuel_of q3') q3' _ _ P3 (fuel_of_pre _ _ P3) E4) as (q4' & -> & P4). cbn [bind fst snd].
    destruct (read_fspecs9 (fuel_of q4) (v3 / 4) q4 []) as [[l5 q5]| | |] eqn:E5; cbn [bind fst snd] in H; try discriminate H.
    destruct (read_fspecs9_pre _ _ _ _ (fuel_of q4') q4' _ _ P4 (fuel_of_pre _ _ P4) E5) as (q5' & -> & P5). cbn [bind fst snd].
    injection H as <- <-. eexists; split; [reflexivity|exact P5].
  Qed.

  Lemma decode_fields9_pre : forall specs r r' acc o r1, pre r r' -> decode_fields9 im specs r acc = Ok (o, r1) ->
    exists r1', decode_fields9 im specs r' acc = Ok (o, r1') /\ pre r1 r1'.
  Proof.
    induction specs as [|s specs IH]; intros r r' acc o r1 P H; cbn [decode_fields9] in *.
    - injection H as <- <-. eexists; split; [reflexivity|exact P].
    - destruct (read (f_len s) r) as [[b q2]| | |] eqn:E2; cbn [bind fst snd] in H; try discriminate H.
      destruct (read_pre _ r r' b q2 P E2) as (q2' & -> & P2). cbn [bind fst snd].
      destruct (im 0 (f_id s)) as [[fid ty]|].
      + destruct (interpret ty b) as [v| | |]; cbn [bind] in *; try discriminate H.
        apply (IH _ _ _ _ _ P2 H).
      + injection H as <- <-. eexists; split; [reflexivity|exact P2].
  Qed.

  Lemma decode_data9_pre t r r' o r1 : pre r r' -> decode_data9 im t r = Ok (o, r1) ->
    exists r1', decode_data9 im t r' = Ok (o, r1') /\ pre r1 r1'.
  Proof.
    intros P H. unfold decode_data9 in *.
    destruct (decode_fields9 im (t_scope t) r []) as [[o1 q1]| | |] eqn:E1; cbn [bind fst snd] in H; try discriminate H.
    destruct (decode_fields9_pre _ r r' _ o1 q1 P E1) as (q1' & -> & P1). cbn [bind fst snd].
    destruct o1 as [sc|].
    - apply (decode_fields9_pre _ q1 q1' _ _ _ P1 H).
    - injection H as <- <-. eexists; split; [reflexivity|exact P1].
  Qed.

  Lemma tpl9_pre (b : bool) r r' t r1 : pre r r' ->
    (if b then read_template9 r else read_opts_template9 r) = Ok (t, r1) ->
    exists r1', (if b then read_template9 r' else read_opts_template9 r') = Ok (t, r1') /\ pre r1 r1'.
  Proof. destruct b; [apply read_template9_pre|apply read_opts_template9_pre]. Qed.

  Lemma set_loop9_pre : forall k sid L start tr a c r ds k' r' c1 r1 ds1 nf, pre r r' -> (k <= k')%nat ->
    set_loop9 ops im k sid L start tr a c r ds = Ok (c1, SCont r1 ds1 nf) ->
    (exists r1', set_loop9 ops im k' sid L start tr a c r' ds = Ok (c1, SCont r1' ds1 nf) /\ pre r1 r1')
    \/ (rlen r1 <= 4 /\ 4 < L - (count r1 - start)).
  Proof.
    induction k as [|k IH]; intros sid L start tr a c r ds k' r' c1 r1 ds1 nf P Hk H;
      pose proof (pre_rlen r r' P) as Hl; pose proof (proj1 P) as Hc.
    - cbn [set_loop9] in H.
      destruct ((4 <? L - (count r - start)) && (4 <? rlen r)) eqn:Eg; [discriminate H|].
      injection H as <- <- <- <-.
      destruct ((4 <? L - (count r' - start)) && (4 <? rlen r')) eqn:Eg'.
      + right. rewrite <- Hc in Eg'. lia.
      + left. exists r'. split; [|exact P]. destruct k'; cbn [set_loop9]; rewrite Eg'; reflexivity.
    - cbn [set_loop9] in H.
      destruct ((4 <? L - (count r - start)) && (4 <? rlen r)) eqn:Eg.
      2: { injection H as <- <- <- <-.
           destruct ((4 <? L - (count r' - start)) && (4 <? rlen r')) eqn:Eg'.
           + right. rewrite <- Hc in Eg'. lia.
           + left. exists r'. split; [|exact P]. destruct k'; cbn [set_loop9]; rewrite Eg'; reflexivity. }
      destruct k' as [|k']; [lia|]. cbn [set_loop9]. rewrite <- Hc.
      replace ((4 <? L - (count r - start)) && (4 <? rlen r')) with true by lia.
      destruct ((sid =? 0) || (sid =? 1)).
      { destruct (if sid =? 0 then read_template9 r else read_opts_template9 r) as [[t q]| | |] eqn:Et; cbn [catch bind] in H; try discriminate H.
        destruct (tpl9_pre (sid =? 0) r r' t q P Et) as (q' & -> & Pq). cbn [catch bind].
        destruct (c_insert ops c (t_id t) a t) as [c2| | |]; cbn [bind] in *; try discriminate H.
        apply (IH _ _ _ _ _ _ _ _ k' q' _ _ _ _ Pq ltac:(lia) H). }
      destruct ((2 <=? sid) && (sid <=? 255)).
      { injection H as <- <- <- <-. left. exists r'. split; [reflexivity|exact P]. }
      destruct (decode_data9 im tr r) as [[o q]| | |] eqn:Ed; cbn [catch bind] in H; try discriminate H.
      destruct (decode_data9_pre tr r r' o q P Ed) as (q' & -> & Pq). cbn [catch bind].
      destruct o as [fs|].
      + rewrite <- (proj1 Pq). destruct (count q =? count r).
        * injection H as <- <- <- <-. left. exists q'. split; [reflexivity|exact Pq].
        * apply (IH _ _ _ _ _ _ _ _ k' q' _ _ _ _ Pq ltac:(lia) H).
      + injection H as <- <- <- <-. left. exists q'. split; [reflexivity|exact Pq].
  Qed.

  Lemma decode_set9_pre a c r r' ds c1 r1 ds1 nf : pre r r' ->
    decode_set9 ops im a c r ds = Ok (c1, SCont r1 ds1 nf) ->
    exists r1', decode_set9 ops im a c r' ds = Ok (c1, SCont r1' ds1 nf) /\ pre r1 r1'.
  Proof.
    intros P H. pose proof (proj1 P) as Hc. unfold decode_set9, uint16 in *. rewrite <- Hc.
    destruct (uintN 2 r) as [[sid q1]| | |] eqn:E1; cbn [catch bind fst snd] in H; try discriminate H.
    destruct (uintN_pre 2 r r' sid q1 P E1) as (q1' & -> & P1). cbn [bind fst snd].
    destruct (uintN 2 q1) as [[L q2]| | |] eqn:E2; cbn [catch bind fst snd] in H; try discriminate H.
    destruct (uintN_pre 2 q1 q1' L q2 P1 E2) as (q2' & -> & P2). cbn [catch bind fst snd].
    destruct (L <? 4); [discriminate H|].
    assert (Hskip : forall (c2 : C) r2 r2' ds2 e, pre r2 r2' ->
              (if 0 <? L - (count r2 - count r)
               then s <- catch (read (L - (count r2 - count r)) r2) ;;
                    match s with None => Ok (c2, SFatal) | Some (_, r3) => Ok (c2, SCont r3 ds2 e) end
               else Ok (c2, SCont r2 ds2 e)) = Ok (c1, SCont r1 ds1 nf) ->
              exists r1', (if 0 <? L - (count r2' - count r)
               then s <- catch (read (L - (count r2' - count r)) r2') ;;
                    match s with None => Ok (c2, SFatal) | Some (_, r3) => Ok (c2, SCont r3 ds2 e) end
               else Ok (c2, SCont r2' ds2 e)) = Ok (c1, SCont r1' ds1 nf) /\ pre r1 r1').
    { intros c2 r2 r2' ds2 e Pr Hs. rewrite <- (proj1 Pr).
      destruct (0 <? L - (count r2 - count r)).
      - destruct (read (L - (count r2 - count r)) r2) as [[b r3]| | |] eqn:Er; cbn [catch bind] in Hs; try discriminate Hs.
        destruct (read_pre _ r2 r2' b r3 Pr Er) as (r3' & -> & P3). cbn [catch bind].
        injection Hs as <- <- <- <-. exists r3'. split; [reflexivity|exact P3].
      - injection Hs as <- <- <- <-. exists r2'. split; [reflexivity|exact Pr]. }
    destruct (if 255 <? sid then c_retrieve ops c sid a else Ok (Some empty_template)) as [[tr|]| | |]; cbn [bind] in *; try discriminate H.
    - destruct (set_loop9 ops im (fuel_of q2) sid L (count r) tr a c q2 ds) as [[c2 [|r2 ds2 e]]| | |] eqn:El; cbn [bind fst snd] in H; try discriminate H.
      destruct (set_loop9_pre _ _ _ _ _ _ _ _ _ (fuel_of q2') q2' _ _ _ _ P2 (fuel_of_pre _ _ P2) El) as [(r2' & -> & Pr)|[Hr4 Hleft]].
      + cbn [bind fst snd]. apply (Hskip c2 r2 r2' ds2 e Pr H).
      + exfalso. replace (0 <? L - (count r2 - count r)) with true in H by lia.
        rewrite (read_fail _ r2) in H by lia. cbn [catch bind] in H. discriminate H.
    - apply (Hskip c q2 q2' ds true P2 H).
  Qed.

  Lemma set_loop9_acc : forall k sid L start tr a c r ds c1 r1 ds1 nf,
    set_loop9 ops im k sid L start tr a c r ds = Ok (c1, SCont r1 ds1 nf) -> is_prefix ds ds1.
  Proof.
    induction k as [|k IH]; intros sid L start tr a c r ds c1 r1 ds1 nf H; cbn [set_loop9] in H.
    - destruct (_ && _); [discriminate H|]. injection H as <- <- <- <-. apply is_prefix_refl.
    - destruct (_ && _). 2: { injection H as <- <- <- <-. apply is_prefix_refl. }
      destruct ((sid =? 0) || (sid =? 1)).
      { destruct (if sid =? 0 then read_template9 r else read_opts_template9 r) as [[t q]| | |]; cbn [catch bind] in H; try discriminate H.
        destruct (c_insert ops c (t_id t) a t) as [c2| | |]; cbn [bind] in H; try discriminate H. apply (IH _ _ _ _ _ _ _ _ _ _ _ _ H). }
      destruct ((2 <=? sid) && (sid <=? 255)). { injection H as <- <- <- <-. apply is_prefix_refl. }
      destruct (decode_data9 im tr r) as [[o q]| | |]; cbn [catch bind] in H; try discriminate H.
      destruct o as [fs|].
      + destruct (count q =? count r).
        * injection H as <- <- <- <-. apply is_prefix_refl.
        * apply IH in H. eapply is_prefix_trans; [|exact H]. exists [fs]. reflexivity.
      + injection H as <- <- <- <-. apply is_prefix_refl.
  Qed.

  Lemma decode_set9_acc a c r ds c1 r1 ds1 nf :
    decode_set9 ops im a c r ds = Ok (c1, SCont r1 ds1 nf) -> is_prefix ds ds1.
  Proof.
    intros H. unfold decode_set9 in H.
    destruct (x <- uint16 r ;; y <- uint16 (snd x) ;; Ok (fst x, fst y, snd y)) as [[[sid L] q]| | |]; cbn [catch bind] in H; try discriminate H.
    destruct (L <? 4); [discriminate H|].
    assert (Hskip : forall (c2 : C) r2 ds2 e,
              (if 0 <? L - (count r2 - count r)
               then s <- catch (read (L - (count r2 - count r)) r2) ;;
                    match s with None => Ok (c2, SFatal) | Some (_, r3) => Ok (c2, SCont r3 ds2 e) end
               else Ok (c2, SCont r2 ds2 e)) = Ok (c1, SCont r1 ds1 nf) -> ds2 = ds1).
    { intros c2 r2 ds2 e Hs. destruct (0 <? _).
      - destruct (read _ r2) as [[b r3]| | |]; cbn [catch bind] in Hs; try discriminate Hs. now injection Hs as <- <- <- <-.
      - now injection Hs as <- <- <- <-. }
    destruct (if 255 <? sid then c_retrieve ops c sid a else Ok (Some empty_template)) as [[tr|]| | |]; cbn [bind] in *; try discriminate H.
    - destruct (set_loop9 ops im (fuel_of q) sid L (count r) tr a c q ds) as [[c2 [|r2 ds2 e]]| | |] eqn:El; cbn [bind fst snd] in H; try discriminate H.
      apply set_loop9_acc in El. apply Hskip in H. now subst ds2.
    - apply Hskip in H. subst ds1. apply is_prefix_refl.
  Qed.

  Lemma sets_loop9_acc : forall k a c r ds nf c1 ds1 nf1,
    sets_loop9 ops im k a c r ds nf = Ok (c1, Some (ds1, nf1)) -> is_prefix ds ds1.
  Proof.
    induction k as [|k IH]; intros a c r ds nf c1 ds1 nf1 H; cbn [sets_loop9] in H.
    - destruct (4 <? rlen r); [discriminate H|]. injection H as <- <- <-. apply is_prefix_refl.
    - destruct (4 <? rlen r). 2: { injection H as <- <- <-. apply is_prefix_refl. }
      destruct (decode_set9 ops im a c r ds) as [[c2 [|r2 ds2 e]]| | |] eqn:Es; cbn [bind fst snd] in H; try discriminate H.
      apply decode_set9_acc in Es. apply IH in H. eapply is_prefix_trans; eassumption.
  Qed.

  Lemma sets_loop9_pre : forall k a c r ds nf k' r' c1 ds1 nf1 res, pre r r' -> (k <= k')%nat ->
    sets_loop9 ops im k a c r ds nf = Ok (c1, Some (ds1, nf1)) ->
    sets_loop9 ops im k' a c r' ds nf = Ok res ->
    snd res = None \/ exists ds2 nf2, snd res = Some (ds2, nf2) /\ is_prefix ds1 ds2.
  Proof.
    induction k as [|k IH]; intros a c r ds nf k' r' c1 ds1 nf1 res P Hk H H'; cbn [sets_loop9] in H.
    - destruct (4 <? rlen r); [discriminate H|]. injection H as <- <- <-.
      destruct res as [c2 [[ds2 nf2]|]]; [right|left; reflexivity]. exists ds2, nf2. split; [reflexivity|]. eapply sets_loop9_acc; exact H'.
    - destruct (4 <? rlen r) eqn:E4.
      2: { injection H as <- <- <-.
           destruct res as [c2 [[ds2 nf2]|]]; [right|left; reflexivity]. exists ds2, nf2. split; [reflexivity|]. eapply sets_loop9_acc; exact H'. }
      destruct k' as [|k']; [lia|]. cbn [sets_loop9] in H'. pose proof (pre_rlen r r' P). replace (4 <? rlen r') with true in H' by lia.
      destruct (decode_set9 ops im a c r ds) as [[c2 [|r2 ds2 e]]| | |] eqn:Es; cbn [bind fst snd] in H; try discriminate H.
      destruct (decode_set9_pre a c r r' ds c2 r2 ds2 e P Es) as (r2' & Es' & P2). rewrite Es' in H'. cbn [bind fst snd] in H'.
      apply (IH _ _ _ _ _ k' r2' _ _ _ _ P2 ltac:(lia) H H').
  Qed.

  Theorem nf9_truncation_prefix (c : C) (a p : bytes) (n : nat) c1 m1 nf1 res :
    nf9_decode ops im hl c a (firstn n p) = Ok (c1, DMsg m1 nf1) ->
    nf9_decode ops im hl c a p = Ok res ->
    snd res = DFail \/ exists m2 nf2, snd res = DMsg m2 nf2 /\ n9_agent m2 = n9_agent m1 /\ n9_header m2 = n9_header m1 /\ is_prefix (n9_sets m1) (n9_sets m2).
  Proof.
    intros H H'. unfold nf9_decode in *.
    assert (P : pre (new_reader (firstn n p)) (new_reader p)).
    { split; [reflexivity|]. exists (skipn n p). cbn. now rewrite firstn_skipn. }
    destruct (read_layout hl (new_reader (firstn n p))) as [[hv r]| | |] eqn:Eh; cbn [catch bind] in H; try discriminate H.
    destruct (read_layout_pre hl _ _ hv r P Eh) as (r' & Eh' & Pr). rewrite Eh' in H'. cbn [catch bind] in H'.
    destruct (negb (field_get "Version" (combine (map fst hl) hv) =? 9)); [discriminate H|].
    destruct (sets_loop9 ops im (fuel_of r) a c r [] 0) as [[c2 [[ds nf]|]]| | |] eqn:Es; cbn [bind fst snd] in H; try discriminate H.
    injection H as <- <- <-.
    destruct (sets_loop9 ops im (fuel_of r') a c r' [] 0) as [[c3 o]| | |] eqn:Es'; cbn [bind fst snd] in H'; try discriminate H'.
    destruct (sets_loop9_pre _ _ _ _ _ _ (fuel_of r') r' _ _ _ _ Pr (fuel_of_pre _ _ Pr) Es Es') as [Hn|(ds2 & nf2 & Hs & Hp)]; cbn [snd] in *.
    - subst o. injection H' as <-. left; reflexivity.
    - subst o. injection H' as <-. right. exists {| n9_agent := a; n9_header := combine (map fst hl) hv; n9_sets := ds2 |}, nf2. cbn. auto.
  Qed.
End Trunc9.
