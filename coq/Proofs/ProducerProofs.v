From VF Require Import Base.Prelude Model.Producer.

(* one message: it reaches the sink at most once, intact *)
Lemma send_one_shape : forall fuel i mr m o,
  let '(d, e, o') := send_one fuel i mr m o in (d = [] \/ d = [line m]) /\ 0 <= e.
Proof.
  induction fuel as [|k IH]; intros i mr m o; destruct o as [|r o']; cbn [send_one]; try (split; [auto|lia]).
  - destruct r; try (split; [auto|lia]); destruct (mr <=? i); split; auto; lia.
  - destruct r; try (split; [auto|lia]).
    + destruct (mr <=? i); [split; [auto|lia]|]. specialize (IH (i + 1) mr m o').
      destruct (send_one k (i + 1) mr m o') as [[d e] o2]. destruct IH; split; [assumption|lia].
    + destruct (mr <=? i); [split; [auto|lia]|]. specialize (IH (i + 1) mr m o').
      destruct (send_one k (i + 1) mr m o') as [[d e] o2]. destruct IH; split; [assumption|lia].
Qed.

(* in order, duplicate free, every line intact: what arrives is the lines of a sub-LIST of the
   messages, chosen by a keep-mask *)
Fixpoint select (keep : list bool) (ms : list bytes) : list bytes :=
  match keep, ms with
  | true :: k, m :: r => m :: select k r
  | false :: k, _ :: r => select k r
  | _, _ => []
  end.

Theorem faulty_subsequence mr : forall ms o,
  exists keep, length keep = length ms /\ fst (send_all mr ms o) = map line (select keep ms).
Proof.
  induction ms as [|m ms IH]; intros o; cbn [send_all]; [exists []; split; reflexivity|].
  pose proof (send_one_shape (S (Z.to_nat (Z.max 0 mr))) 0 mr m o) as Hs.
  destruct (send_one (S (Z.to_nat (Z.max 0 mr))) 0 mr m o) as [[d e] o']. destruct Hs as [Hd _].
  destruct (IH o') as (keep & Hl & Hk). destruct (send_all mr ms o') as [d2 e2]. cbn [fst] in *.
  destruct Hd as [-> | ->].
  - exists (false :: keep). split; [cbn; lia|]. cbn [app select]. exact Hk.
  - exists (true :: keep). split; [cbn; lia|]. cbn [app select map]. f_equal. exact Hk.
Qed.

(* without faults: every message, exactly once, unmodified, newline terminated, in order — for ALL octet contents *)
Lemma no_fault_lines mr : forall ms, send_all mr ms [] = (map line ms, 0).
Proof.
  induction ms as [|m ms IH]; cbn [send_all]; [reflexivity|]. cbn [send_one]. rewrite IH. reflexivity.
Qed.

Theorem no_fault_exact mr ms : stream mr ms [] = concat (map line ms) /\ snd (send_all mr ms []) = 0.
Proof. unfold stream. rewrite no_fault_lines. split; reflexivity. Qed.

(* every message that is not delivered is accounted for by at least one scheduled fault *)
Lemma send_one_consumes : forall fuel i mr m o d e o',
  send_one fuel i mr m o = (d, e, o') -> d = [] -> (length o' < length o)%nat.
Proof.
  induction fuel as [|k IH]; intros i mr m o d e o' H Hd; destruct o as [|r o0]; cbn [send_one] in H;
    try (inversion H; subst; discriminate).
  - destruct r; try (inversion H; subst; try discriminate; cbn; lia); destruct (mr <=? i); inversion H; subst; cbn; lia.
  - destruct r; try (inversion H; subst; try discriminate; cbn; lia).
    + destruct (mr <=? i); [inversion H; subst; cbn; lia|].
      destruct (send_one k (i + 1) mr m o0) as [[d1 e1] o2] eqn:E. inversion H; subst.
      pose proof (IH _ _ _ _ _ _ _ E eq_refl). cbn. lia.
    + destruct (mr <=? i); [inversion H; subst; cbn; lia|].
      destruct (send_one k (i + 1) mr m o0) as [[d1 e1] o2] eqn:E. inversion H; subst.
      pose proof (IH _ _ _ _ _ _ _ E eq_refl). cbn. lia.
Qed.

Lemma send_one_mono : forall fuel i mr m o d e o', send_one fuel i mr m o = (d, e, o') -> (length o' <= length o)%nat.
Proof.
  induction fuel as [|k IH]; intros i mr m o d e o' H; destruct o as [|r o0]; cbn [send_one] in H; try (inversion H; subst; cbn; lia).
  - destruct r; try (inversion H; subst; cbn; lia); destruct (mr <=? i); inversion H; subst; cbn; lia.
  - destruct r; try (inversion H; subst; cbn; lia).
    + destruct (mr <=? i); [inversion H; subst; cbn; lia|].
      destruct (send_one k (i + 1) mr m o0) as [[d1 e1] o2] eqn:E. inversion H; subst. pose proof (IH _ _ _ _ _ _ _ E). cbn. lia.
    + destruct (mr <=? i); [inversion H; subst; cbn; lia|].
      destruct (send_one k (i + 1) mr m o0) as [[d1 e1] o2] eqn:E. inversion H; subst. pose proof (IH _ _ _ _ _ _ _ E). cbn. lia.
Qed.

(* the gap is bounded by the number of faults: #messages lost <= #scheduled fault events *)
Theorem gap_bound mr : forall ms o, (length ms - length (fst (send_all mr ms o)) <= length o)%nat.
Proof.
  induction ms as [|m ms IH]; intros o; cbn [send_all]; [cbn; lia|].
  destruct (send_one (S (Z.to_nat (Z.max 0 mr))) 0 mr m o) as [[d e] o'] eqn:E.
  pose proof (send_one_shape (S (Z.to_nat (Z.max 0 mr))) 0 mr m o) as Hs. rewrite E in Hs. destruct Hs as [Hd _].
  specialize (IH o'). destruct (send_all mr ms o') as [d2 e2]. cbn [fst] in *. rewrite app_length.
  destruct Hd as [-> | ->].
  - pose proof (send_one_consumes _ _ _ _ _ _ _ _ E eq_refl). cbn [length]. lia.
  - pose proof (send_one_mono _ _ _ _ _ _ _ _ E). cbn [length]. lia.
Qed.

Example producer_instance :
  stream 2 [[65]; [37; 100]; [66]] [WDelivered; WLost; WOtherErr; WBrokenPipe true; WDelivered] = [65; 10; 66; 10]
  /\ snd (send_all 2 [[65]; [37; 100]; [66]] [WDelivered; WLost; WOtherErr; WBrokenPipe true; WDelivered]) = 2.
Proof. vm_compute. split; reflexivity. Qed.
