(* C20: finite reflection over the two GENERATED tables (every entry, exhaustive, by the kernel). *)
From VF Require Import Base.Prelude Model.InfoModelDefs.
From VF Require Gen.InfoModel Pinned.InfoModel.
Module G := VF.Gen.InfoModel.
Module P := VF.Pinned.InfoModel.

Definition g_builtin : model := builtin_model G.type_consts G.field_types G.builtin.
Definition g_shipped : model := load_ext G.field_types G.shipped.

(* the two load paths produce the same run-time map *)
Lemma tables_equal : g_builtin = g_shipped.
Proof. vm_compute. reflexivity. Qed.

Lemma models_agree : forall pen id, lookup g_builtin (pen, id) = lookup g_shipped (pen, id).
Proof. intros. rewrite tables_equal. reflexivity. Qed.

(* no key occurs twice (so `lookup` is the Go map) *)
Fixpoint keys_increasing (prev : option (Z * Z)) (m : model) : bool :=
  match m with
  | [] => true
  | (k, _) :: t =>
      (match prev with
       | None => true
       | Some p => (fst p <? fst k) || ((fst p =? fst k) && (snd p <? snd k))
       end) && keys_increasing (Some k) t
  end.
Lemma keys_sorted : keys_increasing None g_builtin = true /\ keys_increasing None g_shipped = true.
Proof. split; vm_compute; reflexivity. Qed.

(* generic lifting of a boolean check over a table *)
Lemma forallb_Forall {A} (f : A -> bool) (P : A -> Prop) (l : list A) :
  (forall x, f x = true -> P x) -> forallb f l = true -> Forall P l.
Proof.
  intros H. induction l as [|x l IH]; cbn [forallb]; intros E; [constructor|].
  apply andb_true_iff in E as [E1 E2]. constructor; [apply H; exact E1|apply IH; exact E2].
Qed.

Definition self_keyed_b (x : (Z * Z) * entry) : bool :=
  let '((_, id), (fid, _, _)) := x in fid =? id.
Definition self_keyed_P (x : (Z * Z) * entry) : Prop :=
  let '((_, id), (fid, _, _)) := x in fid = id.
Lemma self_keyed_sound x : self_keyed_b x = true -> self_keyed_P x.
Proof. destruct x as [[pen id] [[fid n] t]]; cbn. lia. Qed.

Lemma self_keyed : Forall self_keyed_P g_builtin /\ Forall self_keyed_P g_shipped.
Proof.
  split; apply (forallb_Forall self_keyed_b _ _ self_keyed_sound); vm_compute; reflexivity.
Qed.

(* every type name written in either table is one the decoder's FieldTypes knows, or one of the three
   RFC 6313 structured types; a built-in entry written with a constant must name a FieldType constant *)
Definition registry_types : list string := map fst G.field_types ++ structured_types.

Definition builtin_type_ok_b (x : Z * Z * (Z * string * type_expr)) : bool :=
  let '(_, _, (_, _, te)) := x in
  match te with ByName n => str_in n registry_types | ByConst c => str_in c (map fst G.type_consts) end.
Definition shipped_type_ok_b (x : Z * Z * list string) : bool :=
  let '(_, _, props) := x in
  match props with _ :: t :: _ => str_in t registry_types | _ => false end.

Definition builtin_type_ok (x : Z * Z * (Z * string * type_expr)) : Prop := builtin_type_ok_b x = true.
Definition shipped_type_ok (x : Z * Z * list string) : Prop := shipped_type_ok_b x = true.

Lemma types_recognised : Forall builtin_type_ok G.builtin /\ Forall shipped_type_ok G.shipped.
Proof.
  split.
  - apply (forallb_Forall builtin_type_ok_b _ _ (fun x H => H)). vm_compute; reflexivity.
  - apply (forallb_Forall shipped_type_ok_b _ _ (fun x H => H)). vm_compute; reflexivity.
Qed.

(* the registry snapshot the decoders are validated against *)
Lemma snapshot :
  G.builtin = P.builtin /\ G.shipped = P.shipped /\ G.field_types = P.field_types /\ G.type_consts = P.type_consts.
Proof. repeat split; vm_compute; reflexivity. Qed.

(* non-vacuity: the tables are the ~400-entry ones, and a lookup really finds something *)
Example tables_nontrivial :
  length g_builtin = 402%nat /\ lookup g_builtin (0, 8) = Some (8, "sourceIPv4Address"%string, 19)
  /\ lookup g_shipped (0, 152) = Some (152, "flowStartMilliseconds"%string, 16).
Proof. vm_compute. repeat split. Qed.
