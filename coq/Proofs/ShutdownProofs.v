From VF Require Import Base.Prelude Model.Shutdown Model.Flow Model.Cache Model.CacheFile Proofs.CacheProofs Proofs.CacheFileProofs.

(* what the code enforces, in every interleaving: the flags follow the shutdown thread's program
   order (stop is set before the dump, the dump precedes the close), the shutdown sequence starts only
   after the signal, and main returns only after the receive loop has ended and the channel is closed *)
Definition SInv (s : sst) : Prop :=
  (stop s = match spc s with S0 => false | _ => true end) /\
  (dumped s = match spc s with S3_dumped | S4_closed => true | _ => false end) /\
  (closed s = match spc s with S4_closed => true | _ => false end) /\
  (mpc s = MWait -> spc s = S0) /\
  (mpc s = MReturned -> rpc s = RDone /\ spc s = S4_closed).

Lemma sinv_init : SInv sinit.
Proof. unfold SInv, sinit; cbn. repeat split; intros; try discriminate. Qed.

Lemma sinv_step s s' : SInv s -> sstep s s' -> SInv s'.
Proof.
  intros (H1 & H2 & H3 & H4 & H5) Hs.
  destruct Hs as [s Hm|s Hm Hp|s Hp|s Hp|s Hp|s Hr Hst|s Hr Hst|s Hr|s Hm Hr Hp];
    unfold SInv; cbn [mpc rpc spc stop dumped closed send_on_closed];
    try rewrite Hp in *; try rewrite Hm in *; try rewrite Hr in *.
  all: repeat split; try assumption; try reflexivity; intros; try discriminate;
       try (match goal with H : mpc _ = MWait |- _ => specialize (H4 H); congruence end);
       try (match goal with H : mpc _ = MReturned |- _ => destruct (H5 H); congruence end);
       try (match goal with H : mpc _ = MReturned |- _ => destruct (H5 H); assumption end); auto.
Qed.

Theorem shutdown_order s : sreach s -> SInv s.
Proof. induction 1; [apply sinv_init|eapply sinv_step; eassumption]. Qed.

(* consequences in the property's words *)
Corollary dump_after_stop_before_close s : sreach s ->
  (dumped s = true -> stop s = true) /\ (closed s = true -> dumped s = true) /\
  (mpc s = MReturned -> rpc s = RDone /\ closed s = true /\ dumped s = true).
Proof.
  intros Hr. destruct (shutdown_order s Hr) as (H1 & H2 & H3 & H4 & H5). rewrite H1, H2, H3.
  repeat split; try (destruct (spc s); intros; congruence).
  - apply H5; assumption.
  - destruct (H5 H) as [_ ->]. reflexivity.
  - destruct (H5 H) as [_ ->]. reflexivity.
Qed.

(* the hazard the code leaves to timing: in the untimed model a send on the closed receive channel is
   reachable (the run loop read a datagram just before stop was set and is scheduled after close) *)
Theorem send_after_close_reachable : exists s, sreach s /\ send_on_closed s = true.
Proof.
  eexists. split.
  - eapply SRS; [eapply SRS; [eapply SRS; [eapply SRS; [eapply SRS; [eapply SRS; [eapply SRS; [apply SR0|]|]|]|]|]|]|].
    + apply RunRead; reflexivity.
    + apply Signal; reflexivity.
    + apply ShutStop; reflexivity.
    + apply ShutSleep; reflexivity.
    + apply ShutDump; reflexivity.
    + apply ShutClose; reflexivity.
    + apply RunSend; reflexivity.
  - reflexivity.
Qed.

(* templates survive: whatever the (well-formed, race-free snapshot of the) cache holds when Dump runs is
   retrievable from the cache loaded from the dumped file *)
Theorem templates_survive c id a t : wf_cache c -> cc_retrieve c id a = Ok (Some t) ->
  cc_retrieve (get_cache (dump_doc c)) id a = Ok (Some t).
Proof. intros Hw H. rewrite (roundtrip c Hw). exact H. Qed.

(* and a template, once announced, stays available (possibly superseded under the same key) until the dump *)
Theorem presence_monotone m a id t a' id' t' : amap_get a id m = Some t ->
  exists t'', amap_get a id (((a', id'), t') :: m) = Some t''.
Proof.
  intros H. cbn. destruct (list_eqb a a' && (id =? id')); eauto.
Qed.
