From VF Require Import Base.Prelude Model.Flow Model.Cache Model.CacheFile Proofs.CacheProofs.

Lemma cache_ok_wf c : cache_ok c = true -> wf_cache c.
Proof.
  unfold cache_ok. intros H. apply andb_true_iff in H as [H1 H2]. apply Nat.eqb_eq in H1.
  split; [exact H1|]. apply Forall_forall. intros s Hs.
  pose proof (proj1 (forallb_forall _ _) H2 s Hs) as Hok. destruct s as [[m|]|]; try discriminate. eexists; reflexivity.
Qed.

Lemma wf_cache_ok c : wf_cache c -> cache_ok c = true.
Proof.
  intros [H1 H2]. unfold cache_ok. rewrite H1. cbn. apply forallb_forall. intros s Hs.
  destruct (proj1 (Forall_forall _ _) H2 s Hs) as [m ->]. reflexivity.
Qed.

(* whatever the file contains, the loaded cache is well-formed (so decoding with it can not panic: C01) *)
Theorem load_safe d : wf_cache (get_cache d).
Proof.
  destruct d as [[c n]|]; cbn [get_cache]; [|apply empty_wf].
  destruct ((n =? shard_no) && cache_ok c) eqn:E; [|apply empty_wf].
  apply andb_true_iff in E as [_ E]. apply cache_ok_wf; exact E.
Qed.

(* ... and contains only templates that are in the file *)
Theorem load_only_saved d id a t : cc_retrieve (get_cache d) id a = Ok (Some t) ->
  exists c n, d = Some (c, n) /\ cc_retrieve c id a = Ok (Some t).
Proof.
  destruct d as [[c n]|]; cbn [get_cache].
  - destruct ((n =? shard_no) && cache_ok c); [intros H; eauto|].
    intros H. destruct refines_empty as [_ Hr]. rewrite Hr in H. discriminate.
  - intros H. destruct refines_empty as [_ Hr]. rewrite Hr in H. discriminate.
Qed.

(* saving and loading back yields the very same cache (given that the file parses back to what was marshalled) *)
Theorem roundtrip c : wf_cache c -> get_cache (dump_doc c) = c.
Proof. intros H. unfold dump_doc, get_cache. rewrite Z.eqb_refl, (wf_cache_ok c H). reflexivity. Qed.

(* a file that does not parse (any crash prefix, given that no proper prefix of a marshalled object parses) loads as
   the fresh empty cache *)
Theorem unparsable_is_fresh : get_cache None = empty_ccache.
Proof. reflexivity. Qed.

Example load_rejects_incomplete :
  get_cache (Some ([], 32)) = empty_ccache /\
  get_cache (Some (repeat None 32, 32)) = empty_ccache /\
  get_cache (Some (repeat (Some None) 32, 32)) = empty_ccache /\
  get_cache (Some (empty_ccache, 31)) = empty_ccache.
Proof. repeat split. Qed.
