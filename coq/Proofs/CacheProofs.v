(* The concrete sharded cache (as the Go code has it after the full-key repair) never panics on a
   well-formed cache, keeps it well-formed, and refines the abstract map keyed by (address, id). *)
From VF Require Import Base.Prelude Model.Reader Model.Flow Model.Cache Proofs.ReaderProofs Proofs.LayoutProofs.

Lemma list_eqb_refl a : list_eqb a a = true.
Proof. induction a as [|x a IH]; cbn; [reflexivity|]. rewrite Z.eqb_refl, IH. reflexivity. Qed.
Lemma list_eqb_eq a : forall b, list_eqb a b = true -> a = b.
Proof.
  induction a as [|x a IH]; intros [|y b]; cbn; try discriminate; [reflexivity|].
  intros H. apply andb_true_iff in H as [H1 H2]. apply Z.eqb_eq in H1. f_equal; [exact H1|apply IH; exact H2].
Qed.
Lemma list_eqb_neq a b : a <> b -> list_eqb a b = false.
Proof. intros H. destruct (list_eqb a b) eqn:E; [apply list_eqb_eq in E; contradiction|reflexivity]. Qed.

(* the key encoding is injective on (address, id mod 2^16) *)
Lemma enc2 v : enc 2 v = [(v / 256) mod 256; v mod 256].
Proof. reflexivity. Qed.

Lemma cache_key_inj id a id' a' :
  cache_key id a = cache_key id' a' -> a = a' /\ id mod 65536 = id' mod 65536.
Proof.
  unfold cache_key. rewrite !enc2.
  change [(id / 256) mod 256; id mod 256] with ([(id / 256) mod 256] ++ [id mod 256]).
  change [(id' / 256) mod 256; id' mod 256] with ([(id' / 256) mod 256] ++ [id' mod 256]).
  rewrite !app_assoc. intros H. apply app_inj_tail in H as [H H0]. apply app_inj_tail in H as [H H1].
  split; [exact H|].
  assert (D : forall v, v mod 65536 = ((v / 256) mod 256) * 256 + v mod 256) by (intros v; lia).
  rewrite (D id), (D id'), H0, H1. reflexivity.
Qed.

Lemma cache_key_mod id a : cache_key (id mod 65536) a = cache_key id a.
Proof.
  unfold cache_key. rewrite !enc2.
  assert (D : id mod 65536 = ((id / 256) mod 256) * 256 + id mod 256) by lia.
  rewrite D. set (A := (id / 256) mod 256). set (B := id mod 256).
  assert (HA : 0 <= A < 256) by (subst A; apply Z.mod_pos_bound; lia).
  assert (HB : 0 <= B < 256) by (subst B; apply Z.mod_pos_bound; lia).
  rewrite Z.div_add_l by lia. rewrite (Z.div_small B 256) by lia. rewrite Z.add_0_r.
  rewrite (Z.mod_small A 256) by lia.
  rewrite (Z.add_comm (A * 256) B), Z.mod_add by lia. rewrite (Z.mod_small B 256) by lia. reflexivity.
Qed.

(* ---------- no panic, invariant preserved ---------- *)
Lemma shard_index_in_range key : (Z.to_nat (fnv1_32 key mod shard_no) < 32)%nat.
Proof. unfold shard_no. pose proof (Z.mod_pos_bound (fnv1_32 key) 32 ltac:(lia)). lia. Qed.

Lemma get_shard_wf c id a : wf_cache c ->
  exists i m, get_shard c id a = Ok (i, Some (Some m), cache_key id a) /\ nth_error c i = Some (Some (Some m)).
Proof.
  intros [Hl Hf]. unfold get_shard. set (i := Z.to_nat (fnv1_32 (cache_key id a) mod shard_no)).
  assert (Hi : (i < length c)%nat) by (rewrite Hl; apply shard_index_in_range).
  destruct (nth_error c i) as [s|] eqn:E; [|apply nth_error_None in E; lia].
  pose proof (proj1 (Forall_forall _ _) Hf s (nth_error_In _ _ E)) as [m ->].
  exists i, m. split; [reflexivity|exact E].
Qed.

Lemma list_set_length {A} (x : A) : forall l n, length (list_set n x l) = length l.
Proof. induction l as [|y l IH]; intros [|n]; cbn; try reflexivity; f_equal; apply IH. Qed.

Lemma list_set_Forall {A} (P : A -> Prop) (x : A) : forall l n, Forall P l -> P x -> Forall P (list_set n x l).
Proof.
  induction l as [|y l IH]; intros [|n] Hl Hx; cbn; try constructor; try assumption;
    try (inversion Hl; subst; assumption). inversion Hl; subst. apply IH; assumption.
Qed.

Lemma nth_error_list_set_same {A} (x : A) : forall l n, (n < length l)%nat -> nth_error (list_set n x l) n = Some x.
Proof. induction l as [|y l IH]; intros [|n] H; cbn in *; try lia; [reflexivity|apply IH; lia]. Qed.
Lemma nth_error_list_set_other {A} (x : A) : forall l n k, n <> k -> nth_error (list_set n x l) k = nth_error l k.
Proof.
  induction l as [|y l IH]; intros [|n] [|k] H; cbn; try reflexivity; try congruence. apply IH; congruence.
Qed.

Theorem cc_retrieve_ok c id a : wf_cache c -> exists o, cc_retrieve c id a = Ok o.
Proof.
  intros H. destruct (get_shard_wf c id a H) as (i & m & E & _). unfold cc_retrieve. rewrite E. cbn. eexists; reflexivity.
Qed.

Theorem cc_insert_ok c id a t : wf_cache c -> exists c', cc_insert c id a t = Ok c' /\ wf_cache c'.
Proof.
  intros H. destruct (get_shard_wf c id a H) as (i & m & E & _). unfold cc_insert. rewrite E. cbn.
  eexists; split; [reflexivity|]. destruct H as [Hl Hf]. split; [rewrite list_set_length; exact Hl|].
  apply list_set_Forall; [exact Hf|eexists; reflexivity].
Qed.

Lemma empty_wf : wf_cache empty_ccache.
Proof. split; [reflexivity|]. unfold empty_ccache. apply Forall_forall. intros s Hs. apply repeat_spec in Hs. subst. eexists; reflexivity. Qed.

(* ---------- refinement: the sharded cache behaves as the map keyed by (address, id) ---------- *)
Definition refines (c : ccache) (m : amap) : Prop :=
  wf_cache c /\ forall id a, cc_retrieve c id a = Ok (amap_get a (id mod 65536) m).

Lemma tmap_get_set_same k t m : tmap_get k (tmap_set k t m) = Some t.
Proof.
  induction m as [|[k' t'] m IH]; cbn; [rewrite list_eqb_refl; reflexivity|].
  destruct (list_eqb k k') eqn:E; cbn; [rewrite list_eqb_refl; reflexivity|]. rewrite E. exact IH.
Qed.
Lemma tmap_get_set_other k k' t m : k <> k' -> tmap_get k' (tmap_set k t m) = tmap_get k' m.
Proof.
  intros Hn. induction m as [|[k2 t2] m IH]; cbn.
  - rewrite list_eqb_neq by congruence. reflexivity.
  - destruct (list_eqb k k2) eqn:E; cbn.
    + apply list_eqb_eq in E. subst k2. rewrite !list_eqb_neq by congruence. reflexivity.
    + destruct (list_eqb k' k2); [reflexivity|exact IH].
Qed.

Lemma refines_empty : refines empty_ccache [].
Proof.
  split; [apply empty_wf|]. intros id a. destruct (get_shard_wf empty_ccache id a empty_wf) as (i & m & E & En).
  unfold cc_retrieve. rewrite E. cbn. unfold empty_ccache in En. apply nth_error_In, repeat_spec in En.
  inversion En; subst. reflexivity.
Qed.

Theorem refines_insert c m id a t : refines c m ->
  exists c', cc_insert c id a t = Ok c' /\ refines c' (((a, id mod 65536), t) :: m).
Proof.
  intros [Hw Hr]. destruct (get_shard_wf c id a Hw) as (i & sm & E & En).
  destruct (cc_insert_ok c id a t Hw) as (c' & Ei & Hw'). exists c'. split; [exact Ei|]. split; [exact Hw'|].
  unfold cc_insert in Ei. rewrite E in Ei. cbn in Ei. inversion Ei; subst c'; clear Ei.
  intros id' a'. cbn [amap_get].
  assert (Hi : (i < length c)%nat) by (apply nth_error_Some; congruence).
  specialize (Hr id' a'). unfold cc_retrieve in *.
  destruct (get_shard_wf c id' a' Hw) as (i' & sm' & E' & En'). rewrite E' in Hr. cbn in Hr.
  unfold get_shard in *. cbn [bind] in *.
  set (j := Z.to_nat (fnv1_32 (cache_key id' a') mod shard_no)) in *.
  set (i0 := Z.to_nat (fnv1_32 (cache_key id a) mod shard_no)) in *.
  destruct (nth_error c i0) as [s0|] eqn:E0; [|discriminate]. inversion E; subst i s0; clear E.
  destruct (nth_error c j) as [sj|] eqn:Ej; [|discriminate]. inversion E'; subst i' sj; clear E'.
  destruct (Nat.eq_dec i0 j) as [Heq|Hne].
  - rewrite <- Heq. rewrite nth_error_list_set_same by exact Hi. cbn.
    rewrite <- Heq in Ej. rewrite E0 in Ej. inversion Ej; subst sm'.
    destruct (list_eqb a' a && (id' mod 65536 =? id mod 65536)) eqn:Ek.
    + apply andb_true_iff in Ek as [Ea Eid]. apply list_eqb_eq in Ea. apply Z.eqb_eq in Eid. subst a'.
      replace (cache_key id' a) with (cache_key id a)
        by (rewrite <- (cache_key_mod id), <- (cache_key_mod id'), Eid; reflexivity).
      rewrite tmap_get_set_same. reflexivity.
    + rewrite tmap_get_set_other; [exact Hr|].
      intros Hk. apply cache_key_inj in Hk as [Ha Hid]. subst a'.
      rewrite list_eqb_refl in Ek. cbn in Ek. apply Z.eqb_neq in Ek. congruence.
  - rewrite nth_error_list_set_other by exact Hne. rewrite Ej. cbn.
    destruct (list_eqb a' a && (id' mod 65536 =? id mod 65536)) eqn:Ek; [|exact Hr].
    apply andb_true_iff in Ek as [Ea Eid]. apply list_eqb_eq in Ea. apply Z.eqb_eq in Eid. subst a'.
    exfalso. apply Hne. subst i0 j. do 3 f_equal.
    rewrite <- (cache_key_mod id), <- (cache_key_mod id'), Eid. reflexivity.
Qed.

(* the specification side: a lookup sees the latest template inserted under exactly that key *)
Theorem amap_latest a id t m : amap_get a id (((a, id), t) :: m) = Some t.
Proof. cbn. rewrite list_eqb_refl, Z.eqb_refl. reflexivity. Qed.
Theorem amap_frame a id a' id' t m : (a, id) <> (a', id') ->
  amap_get a id (((a', id'), t) :: m) = amap_get a id m.
Proof.
  intros H. cbn. destruct (list_eqb a a' && (id =? id')) eqn:E; [|reflexivity].
  apply andb_true_iff in E as [E1 E2]. apply list_eqb_eq in E1. apply Z.eqb_eq in E2. congruence.
Qed.
