From VF Require Import Base.Prelude Model.FileStore.

Lemma write_truncating old new : write_file true old new = new.
Proof. reflexivity. Qed.

(* without truncation a shorter document saved over a longer file is followed by stale octets (JSON followed by anything but
   white space does not parse: the whole cache is then lost at the next start, C11 / C15) *)
Lemma write_in_place_keeps_tail old new : (length new < length old)%nat ->
  exists junk, junk <> [] /\ write_file false old new = new ++ junk.
Proof.
  intros H. exists (skipn (length new) old). split; [|reflexivity].
  intros E. apply (f_equal (@length Z)) in E. rewrite skipn_length in E. cbn in E. lia.
Qed.
