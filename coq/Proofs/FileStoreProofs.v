From VF Require Import Base.Prelude Model.FileStore.

Lemma write_truncating old new : write_file true old new = new.
Proof. reflexivity. Qed.

(* without truncation a shorter document saved over a longer file is followed by stale octets (JSON followed by anything but
   white space does not parse: the whole cache is then lost at the next start, C11 / C15) *)
Lemma write_in_place_keeps_tail old new : (length new < length old)%nat ->
  exists junk, junk <> [] /\ write_file false old new = new ++ junk.
Proof.
  intros H. exists (skipn (length new) old). split; [|reflexivity].
  intros E. apply (f_equal (@length Z)) in E. rewrite skipn_length in E. cbn in E. lia.
Qed.

Lemma read_whole file : read_file None file = file.
Proof. reflexivity. Qed.

(* a limit the file exceeds hands the parser a PROPER prefix of the document: exactly what a crash while saving leaves, which
   the loader (rightly, C11) answers with a fresh empty cache: every template in the file is forgotten at the restart *)
Lemma read_limited_is_a_proper_prefix n file : (n < length file)%nat ->
  exists rest, rest <> [] /\ file = read_file (Some n) file ++ rest /\ length (read_file (Some n) file) = n.
Proof.
  intros H. exists (skipn n file). cbn [read_file]. split; [|split].
  - intros E. apply (f_equal (@length Z)) in E. rewrite skipn_length in E. cbn in E. lia.
  - symmetry. apply firstn_skipn.
  - rewrite firstn_length. lia.
Qed.

(* within the limit nothing is lost *)
Lemma read_limited_small n file : (length file <= n)%nat -> read_file (Some n) file = file.
Proof. intros H. cbn [read_file]. apply firstn_all2. exact H. Qed.
