From VF Require Import Base.Prelude Model.Reader Model.Layout Model.JsonPieces Model.Nf5 Spec.Nf5Wire
  Proofs.ReaderProofs Proofs.LayoutProofs.
From VF Require Import Pinned.Nf5Tables.

Notation decode_flows := (Nf5.decode_flows nf5_flow_layout).
Notation nf5_decode := (Nf5.nf5_decode nf5_header_layout nf5_flow_layout).
Definition hnamed := named nf5_header_layout.
Definition fnamed := named nf5_flow_layout.

(* the decoder's field sequences have the widths and order of the documented format *)
Lemma header_layout_is_spec : map snd nf5_header_layout = map snd header_format.
Proof. reflexivity. Qed.
Lemma flow_layout_is_spec : map snd nf5_flow_layout = map snd record_format.
Proof. reflexivity. Qed.

Lemma fits_widths L1 : forall L2 vs, map snd L1 = map snd L2 -> fits L1 vs -> fits L2 vs.
Proof.
  induction L1 as [|[n1 w1] L1 IH]; intros [|[n2 w2] L2] vs E H; cbn in E; try discriminate; [exact H|].
  inversion E; subst. destruct vs as [|v vs]; cbn in H |- *; [exact H|].
  destruct H as (? & ? & ?). split; [assumption|split; [assumption|apply IH; assumption]].
Qed.
Lemma enc_layout_widths L1 : forall L2 vs, map snd L1 = map snd L2 -> enc_layout L1 vs = enc_layout L2 vs.
Proof.
  induction L1 as [|[n1 w1] L1 IH]; intros [|[n2 w2] L2] vs E; cbn in E; try discriminate; [reflexivity|].
  inversion E; subst. destruct vs as [|v vs]; cbn [enc_layout]; [reflexivity|]. f_equal. apply IH; assumption.
Qed.

Lemma decode_flows_app : forall fl rest c acc,
  Forall (fits record_format) fl ->
  decode_flows (length fl) {| data := flat_map (enc_layout record_format) fl ++ rest; count := c |} acc
  = (acc ++ map fnamed fl, true).
Proof.
  induction fl as [|f fl IH]; intros rest c acc Hf; cbn [Nf5.decode_flows length flat_map map].
  - now rewrite app_nil_r.
  - apply Forall_cons_iff in Hf as [Hf1 Hf2]. rewrite <- app_assoc.
    rewrite (enc_layout_widths record_format nf5_flow_layout) by reflexivity.
    rewrite read_layout_app by (apply (fits_widths record_format); [reflexivity|exact Hf1]).
    rewrite IH by exact Hf2. now rewrite <- app_assoc.
Qed.

Lemma len_flat_records fl : Forall (fits record_format) fl ->
  len (flat_map (enc_layout record_format) fl) = 48 * len fl.
Proof.
  induction fl as [|f fl IH]; intros H; cbn [flat_map]; [reflexivity|].
  apply Forall_cons_iff in H as [H1 H2]. rewrite len_app, len_enc_layout, IH, len_cons by assumption.
  change (layout_size record_format) with 48. lia.
Qed.

Lemma header_fields h : fits header_format h ->
  field_get "Version" (hnamed h) = nth 0 h 0 /\ field_get "Count" (hnamed h) = nth 1 h 0.
Proof.
  intros H.
  destruct h as [|v0 h]; [cbn in H; contradiction|].
  destruct h as [|v1 h]; [cbn in H; tauto|].
  destruct h as [|v2 h]; [cbn in H; tauto|].
  split; reflexivity.
Qed.

(* C08, positive half: header fields and exactly `count` flows, in wire order, every field its
   big-endian wire value, whatever octets trail the last record *)
Theorem nf5_roundtrip addr h fl trailing :
  fits header_format h -> Forall (fits record_format) fl ->
  nth 0 h 0 = 5 -> nth 1 h 0 = len fl -> 1 <= len fl <= 30 ->
  nf5_decode addr (encode h fl ++ trailing)
  = Ok ({| n5_agent := addr; n5_header := hnamed h; n5_flows := map fnamed fl |}, true).
Proof.
  intros Hh Hf Hv Hc Hn. unfold Nf5.nf5_decode, encode, new_reader. rewrite <- app_assoc.
  rewrite (enc_layout_widths header_format nf5_header_layout) by reflexivity.
  rewrite read_layout_app by (apply (fits_widths header_format); [reflexivity|exact Hh]).
  cbn [bind fst snd]. fold (hnamed h). destruct (header_fields h Hh) as [-> ->]. rewrite Hv, Hc.
  cbn [Z.eqb negb Pos.eqb].
  replace ((len fl <? 1) || (30 <? len fl)) with false by lia.
  unfold rlen; cbn [data]. rewrite len_app, len_flat_records by exact Hf.
  pose proof (len_nonneg trailing).
  replace (48 * len fl + len trailing <? len fl * 48) with false by lia.
  unfold len at 1. rewrite Nat2Z.id. rewrite decode_flows_app by exact Hf. reflexivity.
Qed.

(* C08, negative half: another version, a count outside 1..30, or too few octets yield no flows *)
Theorem nf5_rejects addr p :
  match read_layout nf5_header_layout (new_reader p) with
  | Ok (h, r) =>
      let version := field_get "Version" (hnamed h) in let count := field_get "Count" (hnamed h) in
      version <> 5 \/ count < 1 \/ 30 < count \/ rlen r < 48 * count
  | _ => True
  end ->
  match nf5_decode addr p with
  | Ok (m, _) => n5_flows m = []
  | Err _ => True
  | Panic | Hang => False
  end.
Proof.
  unfold Nf5.nf5_decode. destruct (read_layout nf5_header_layout (new_reader p)) as [[h r]| | |] eqn:E; cbn [bind fst snd].
  - fold (hnamed h). cbn zeta. intros H. destruct (field_get "Version" (hnamed h) =? 5) eqn:E5; cbn [negb]; [|exact I].
    destruct ((field_get "Count" (hnamed h) <? 1) || (30 <? field_get "Count" (hnamed h))) eqn:Ec; [exact I|].
    destruct (rlen r <? field_get "Count" (hnamed h) * 48) eqn:El; [reflexivity|]. lia.
  - intros _; exact I.
  - pose proof (read_layout_safe nf5_header_layout (new_reader p)) as [Hs _]. congruence.
  - pose proof (read_layout_safe nf5_header_layout (new_reader p)) as [_ Hs]. congruence.
Qed.

(* no v5 datagram panics or hangs the decoder; at most 30 flows, each paid for by 48 octets *)
Lemma decode_flows_bound : forall n r acc,
  len (fst (decode_flows n r acc)) <= len acc + Z.of_nat n.
Proof.
  induction n as [|n IH]; intros r acc; cbn [Nf5.decode_flows]; [cbn; lia|].
  destruct (read_layout nf5_flow_layout r) as [[f r']| | |]; cbn [fst]; try lia.
  specialize (IH r' (acc ++ [named nf5_flow_layout f])). rewrite len_app in IH.
  change (len [named nf5_flow_layout f]) with 1 in IH. lia.
Qed.

Theorem nf5_total addr p :
  safe (nf5_decode addr p) /\
  (forall m c, nf5_decode addr p = Ok (m, c) -> 48 * len (n5_flows m) <= len p /\ len (n5_flows m) <= 30).
Proof.
  unfold Nf5.nf5_decode. pose proof (read_layout_safe nf5_header_layout (new_reader p)) as Hs.
  destruct (read_layout nf5_header_layout (new_reader p)) as [[h r]| | |] eqn:E; cbn [bind fst snd].
  2: { split; [split; discriminate|discriminate]. }
  2,3: destruct Hs; contradiction.
  fold (hnamed h). set (cnt := field_get "Count" (hnamed h)).
  destruct (field_get "Version" (hnamed h) =? 5); cbn [negb]; [|split; [split; discriminate|discriminate]].
  destruct ((cnt <? 1) || (30 <? cnt)) eqn:Ec; [split; [split; discriminate|discriminate]|].
  destruct (rlen r <? cnt * 48) eqn:El.
  - split; [split; discriminate|]. intros m c H; inversion H; subst; cbn. pose proof (len_nonneg p).
    change (len (@nil (list (string * Z)))) with 0. lia.
  - destruct (decode_flows (Z.to_nat cnt) r []) as [fs ok] eqn:Ed.
    split; [split; discriminate|]. intros m c H; inversion H; subst; cbn [n5_flows].
    pose proof (decode_flows_bound (Z.to_nat cnt) r []) as Hb. rewrite Ed in Hb. cbn [fst] in Hb.
    change (len (@nil (list (string * Z)))) with 0 in Hb.
    apply read_layout_shrinks in E. unfold rlen at 2 in E; cbn [new_reader data] in E. lia.
Qed.

(* non-vacuity: a two-flow packet with pairwise distinct field values and trailing octets meets the
   hypotheses, and decodes to exactly those values *)
Example roundtrip_instance :
  let h := [5; 2; 1000; 1600000000; 7; 42; 1; 2; 100] in
  let f1 := [3232235777; 167772161; 2886729729; 1; 2; 10; 1500; 100; 200; 443; 51000; 0; 27; 6; 0; 65000; 65001; 24; 16; 0] in
  let f2 := [16843009; 33686018; 50529027; 3; 4; 5; 6; 7; 8; 9; 10; 11; 12; 17; 14; 15; 16; 17; 18; 19] in
  fits header_format h /\ Forall (fits record_format) [f1; f2] /\
  nf5_decode [10; 0; 0; 1] (encode h [f1; f2] ++ [1; 2; 3])
  = Ok ({| n5_agent := [10; 0; 0; 1]; n5_header := hnamed h; n5_flows := [fnamed f1; fnamed f2] |}, true).
Proof. cbn zeta. split; [|split]; [cbn; lia| repeat constructor; cbn; lia | vm_compute; reflexivity]. Qed.
