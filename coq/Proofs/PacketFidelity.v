(* C07: the L2/L3/L4 breakdown of a sampled header returns exactly the wire values (Spec/PacketWire.v). *)
From VF Require Import Base.Prelude Base.IPText Base.Json Model.Packet Spec.PacketWire
  Proofs.ReaderProofs Proofs.LayoutProofs.

Lemma enc2 v : enc 2 v = [(v / 256) mod 256; v mod 256].
Proof. reflexivity. Qed.
Lemma enc4 v : enc 4 v = [(v / 256 / 256 / 256) mod 256; (v / 256 / 256) mod 256; (v / 256) mod 256; v mod 256].
Proof. reflexivity. Qed.
Lemma be16 v : 0 <= v < 65536 -> (v / 256) mod 256 * 256 + v mod 256 = v.
Proof. lia. Qed.

Ltac six l H := destruct l as [|? [|? [|? [|? [|? [|? [|? ?]]]]]]]; try discriminate H.
Ltac four l H := destruct l as [|? [|? [|? [|? [|? ?]]]]]; try discriminate H.
Ltac sixteen l H :=
  destruct l as [|? [|? [|? [|? [|? [|? [|? [|? [|? [|? [|? [|? [|? [|? [|? [|? [|? ?]]]]]]]]]]]]]]]]]; try discriminate H.

(* ---- Ethernet II, with and without an 802.1Q tag ---- *)
Theorem decode_ethernet_fidelity h rest : eth_ok h ->
  decode_ethernet (enc_eth h ++ rest) = Ok (eth_json h, eth_type h, rest).
Proof.
  intros (Hd & Hs & Ht & Hn & Hv). unfold enc_eth, eth_json. destruct h as [dst src vlan ty]; cbn [eth_dst eth_src eth_vlan eth_type] in *.
  six dst Hd. six src Hs. destruct vlan as [v|]; cbn [enc app]; rewrite <- ?app_assoc; cbn [app]; unfold decode_ethernet; rewrite !len_cons; pose proof (len_nonneg rest).
  - match goal with |- context [?x <? 14] => replace (x <? 14) with false by lia end.
    unfold ieee802 at 1, be16_at, nthz. cbn [nth]. replace ((33024 / 256) mod 256 * 256 + 33024 mod 256) with 33024 by reflexivity.
    cbn [Z.eqb Pos.eqb].
    match goal with |- context [?x <? 18] => replace (x <? 18) with false by lia end.
    cbn [firstn skipn app nth]. unfold ieee802, be16_at, nthz. cbn [nth]. rewrite !be16 by lia.
    destruct (ty =? 33024) eqn:E; [lia|]. cbn beta iota zeta. rewrite ?E. unfold mac_text. cbn [firstn skipn]. unfold datalink_json. reflexivity.
  - match goal with |- context [?x <? 14] => replace (x <? 14) with false by lia end.
    unfold ieee802, be16_at, nthz. cbn [nth]. rewrite !be16 by lia.
    destruct (ty =? 33024) eqn:E; [lia|]. cbn beta iota zeta. rewrite ?E. unfold mac_text. cbn [firstn skipn]. unfold datalink_json. reflexivity.
Qed.

(* ---- IPv4 with options ---- *)
Theorem decode_ipv4_fidelity h rest : ip4_ok h ->
  decode_ipv4 (enc_ip4 h ++ rest) = Ok (ip4_json h, i4_proto h, rest).
Proof.
  intros (Hihl & Hopt & Htos & Htl & Hid & Hfl & Hfo & Httl & Hpr & Hcs & Hs & Hd). unfold enc_ip4, ip4_json.
  destruct h as [ihl tos tl id fl fo ttl pr cs src dst opts]; cbn [i4_ihl i4_tos i4_totlen i4_id i4_flags i4_fragoff i4_ttl i4_proto i4_csum i4_src i4_dst i4_options] in *.
  four src Hs. four dst Hd. cbn [enc app]. rewrite <- ?app_assoc. cbn [app].
  set (fixed := [64 + ihl; tos; (tl / 256) mod 256; tl mod 256; (id / 256) mod 256; id mod 256; fl * 32 + fo / 256; fo mod 256; ttl; pr; (cs / 256) mod 256; cs mod 256; z; z0; z1; z2; z3; z4; z5; z6]).
  change (decode_ipv4 (fixed ++ opts ++ rest) = Ok (JObj [("Version"%string, JNum 4); ("TOS"%string, JNum tos); ("TotalLen"%string, JNum tl); ("ID"%string, JNum id); ("Flags"%string, JNum fl);
     ("FragOff"%string, JNum fo); ("TTL"%string, JNum ttl); ("Protocol"%string, JNum pr); ("Checksum"%string, JNum cs); ("Src"%string, JStr (ip_string [z; z0; z1; z2])); ("Dst"%string, JStr (ip_string [z3; z4; z5; z6]))], pr, rest)).
  unfold decode_ipv4. rewrite !len_app. change (len fixed) with 20. pose proof (len_nonneg rest). pose proof (len_nonneg opts).
  replace (20 + (len opts + len rest) <? 20) with false by lia.
  assert (Hh : ipv4_hlen (fixed ++ opts ++ rest) = 20 + len opts).
  { unfold ipv4_hlen, nthz, fixed. cbn [app nth]. replace ((64 + ihl) mod 16) with ihl by lia. lia. }
  rewrite Hh. replace (20 + (len opts + len rest) <? 20 + len opts) with false by lia.
  replace (Z.to_nat (20 + len opts)) with (length (fixed ++ opts)) by (rewrite app_length; unfold len; cbn [length fixed]; lia).
  rewrite app_assoc, skipn_app_exact. rewrite <- app_assoc.
  unfold fixed, nthz, be16_at. cbn [app nth firstn skipn]. unfold nthz. cbn [nth].
  rewrite !be16 by lia.
  replace ((64 + ihl) / 16) with 4 by lia. replace ((fl * 32 + fo / 256) / 32) with fl by lia.
  replace ((fl * 32 + fo / 256) mod 32 * 256 + fo mod 256) with fo by lia. reflexivity.
Qed.

(* ---- IPv6 ---- *)
Theorem decode_ipv6_fidelity h rest : ip6_ok h ->
  decode_ipv6 (enc_ip6 h ++ rest) = Ok (ip6_json h, i6_next h, rest).
Proof.
  intros (Htc & Hfl & Hpl & Hnh & Hhop & Hs & Hd). unfold enc_ip6, ip6_json.
  destruct h as [tc fl pl nh hop src dst]; cbn [i6_tc i6_flow i6_plen i6_next i6_hop i6_src i6_dst] in *.
  sixteen src Hs. sixteen dst Hd. cbn [enc app]. rewrite <- ?app_assoc. cbn [app]. unfold decode_ipv6. rewrite !len_cons. pose proof (len_nonneg rest).
  match goal with |- context [?x <? 40] => replace (x <? 40) with false by lia end.
  unfold nthz, be16_at. cbn [nth firstn skipn]. unfold nthz. cbn [nth]. rewrite !be16 by lia.
  replace ((96 + tc / 16) / 16) with 6 by lia.
  replace ((96 + tc / 16) mod 16 * 16 + (tc mod 16 * 16 + fl / 65536) / 16) with tc by lia.
  replace ((tc mod 16 * 16 + fl / 65536) mod 16 * 65536 + (fl / 256) mod 256 * 256 + fl mod 256) with fl by lia.
  reflexivity.
Qed.

(* ---- TCP / UDP / ICMP ---- *)
Theorem decode_l4_fidelity proto h trailing : l4_ok h -> l4_proto_ok proto h ->
  decode_l4 proto (enc_l4 h ++ trailing) = Ok (l4_json h trailing).
Proof.
  intros Hok Hp. pose proof (len_nonneg trailing). destruct h as [sp dp sq ak off fl win cs ur|sp dp ul cs|ty code cs rest]; cbn [l4_ok l4_proto_ok enc_l4 l4_json] in *.
  - subst proto. unfold decode_l4. cbn [Z.eqb Pos.eqb orb]. cbn [enc app]. rewrite <- ?app_assoc. cbn [app]. rewrite !len_cons.
    match goal with |- context [?x <? 20] => replace (x <? 20) with false by lia end.
    unfold nthz, be16_at. cbn [nth]. unfold nthz. cbn [nth]. rewrite !be16 by lia.
    replace ((off * 16 + fl / 256) / 16) with off by lia.
    replace (((off * 16 + fl / 256) * 256 + fl mod 256) mod 512) with fl by lia. reflexivity.
  - subst proto. unfold decode_l4. cbn [Z.eqb Pos.eqb orb]. cbn [enc app]. rewrite <- ?app_assoc. cbn [app]. rewrite !len_cons.
    match goal with |- context [?x <? 8] => replace (x <? 8) with false by lia end.
    unfold nthz, be16_at. cbn [nth]. unfold nthz. cbn [nth]. rewrite !be16 by lia. reflexivity.
  - destruct Hok as (Ht & Hc & Hcs & Hne). unfold decode_l4.
    replace ((proto =? 1) || (proto =? 58)) with true by lia. cbn [enc app]. rewrite <- ?app_assoc. cbn [app]. rewrite !len_cons, len_app.
    destruct rest as [|r0 rest']; [congruence|]. rewrite len_cons. pose proof (len_nonneg rest').
    match goal with |- context [?x <? 5] => replace (x <? 5) with false by lia end.
    unfold nthz. cbn [nth skipn]. reflexivity.
Qed.

(* ---- the whole sampled header: header_protocol 1 (Ethernet), 11 (IPv4), 12 (IPv6) ---- *)
Inductive l3_hdr := L3v4 (h : ip4_hdr) | L3v6 (h : ip6_hdr).
Definition enc_l3 (h : l3_hdr) : bytes := match h with L3v4 x => enc_ip4 x | L3v6 x => enc_ip6 x end.
Definition l3_ok (h : l3_hdr) : Prop := match h with L3v4 x => ip4_ok x | L3v6 x => ip6_ok x end.
Definition l3_json (h : l3_hdr) : jv := match h with L3v4 x => ip4_json x | L3v6 x => ip6_json x end.
Definition l3_proto (h : l3_hdr) : Z := match h with L3v4 x => i4_proto x | L3v6 x => i6_next x end.
Definition l3_ethertype (h : l3_hdr) : Z := match h with L3v4 _ => 2048 | L3v6 _ => 34525 end.
Definition l3_protocol (h : l3_hdr) : Z := match h with L3v4 _ => 11 | L3v6 _ => 12 end.

Lemma l3l4_fidelity l2 l3 l4 trailing : l3_ok l3 -> l4_ok l4 -> l4_proto_ok (l3_proto l3) l4 ->
  (x <- (if (match l3 with L3v4 _ => 4 | L3v6 _ => 6 end) =? 4 then decode_ipv4 (enc_l3 l3 ++ enc_l4 l4 ++ trailing) else decode_ipv6 (enc_l3 l3 ++ enc_l4 l4 ++ trailing)) ;;
   let '(j3, proto, rest) := x in j4 <- decode_l4 proto rest ;; Ok (JObj [("L2"%string, l2); ("L3"%string, j3); ("L4"%string, j4)]))
  = Ok (JObj [("L2"%string, l2); ("L3"%string, l3_json l3); ("L4"%string, l4_json l4 trailing)]).
Proof.
  intros H3 H4 Hp. destruct l3 as [h|h]; cbn [enc_l3 l3_ok l3_json l3_proto Z.eqb Pos.eqb] in *.
  - rewrite (decode_ipv4_fidelity h _ H3). cbn [bind]. rewrite (decode_l4_fidelity _ l4 trailing H4 Hp). reflexivity.
  - rewrite (decode_ipv6_fidelity h _ H3). cbn [bind]. rewrite (decode_l4_fidelity _ l4 trailing H4 Hp). reflexivity.
Qed.

Theorem packet_decode_ethernet_fidelity e l3 l4 trailing :
  eth_ok e -> eth_type e = l3_ethertype l3 -> l3_ok l3 -> l4_ok l4 -> l4_proto_ok (l3_proto l3) l4 ->
  packet_decode (enc_eth e ++ enc_l3 l3 ++ enc_l4 l4 ++ trailing) 1
  = Ok (JObj [("L2"%string, eth_json e); ("L3"%string, l3_json l3); ("L4"%string, l4_json l4 trailing)]).
Proof.
  intros He Het H3 H4 Hp. unfold packet_decode. cbn [Z.eqb Pos.eqb]. rewrite (decode_ethernet_fidelity e _ He). cbn [bind]. rewrite Het.
  pose proof (l3l4_fidelity (eth_json e) l3 l4 trailing H3 H4 Hp) as H. destruct l3; cbn [l3_ethertype Z.eqb Pos.eqb] in *; exact H.
Qed.

Theorem packet_decode_ip_fidelity l3 l4 trailing : l3_ok l3 -> l4_ok l4 -> l4_proto_ok (l3_proto l3) l4 ->
  packet_decode (enc_l3 l3 ++ enc_l4 l4 ++ trailing) (l3_protocol l3)
  = Ok (JObj [("L2"%string, empty_l2); ("L3"%string, l3_json l3); ("L4"%string, l4_json l4 trailing)]).
Proof.
  intros H3 H4 Hp. unfold packet_decode.
  pose proof (l3l4_fidelity empty_l2 l3 l4 trailing H3 H4 Hp) as H. destruct l3; cbn [l3_protocol Z.eqb Pos.eqb] in *; exact H.
Qed.
