From VF Require Import Base.Prelude Base.IPText Model.Mirror Model.MirrorDispatch.

Section P.
  Context {M : Type} (addr_of : M -> bytes).

  (* nothing is lost and nothing is duplicated: every message is in exactly one of the two queues *)
  Lemma dispatch_lengths (msgs : list M) :
    (length (fst (dispatch addr_of msgs)) + length (snd (dispatch addr_of msgs)) = length msgs)%nat.
  Proof.
    unfold dispatch. cbn [fst snd]. induction msgs as [|m r IH]; [reflexivity|]. cbn [filter].
    destruct (is4 (addr_of m)); cbn [negb length]; lia.
  Qed.

  Lemma dispatch_in (msgs : list M) m :
    In m msgs <-> (In m (fst (dispatch addr_of msgs)) /\ is4 (addr_of m) = true) \/ (In m (snd (dispatch addr_of msgs)) /\ is4 (addr_of m) = false).
  Proof.
    unfold dispatch. cbn [fst snd]. rewrite !filter_In. split.
    - intros H. destruct (is4 (addr_of m)) eqn:E; [left|right]; cbn [negb]; tauto.
    - intros [[[H _] _]|[[H _] _]]; exact H.
  Qed.

  (* each queue keeps the arrival order: it is the arrival sequence with the other family's messages left out *)
  Lemma served_is_the_family_in_order dst (msgs : list M) :
    served dst (dispatch addr_of msgs) = filter (fun m => Bool.eqb (is4 (addr_of m)) (is4 dst)) msgs.
  Proof.
    unfold served, dispatch. destruct (is4 dst); cbn [fst snd]; apply filter_ext; intros m; destruct (is4 (addr_of m)); reflexivity.
  Qed.
End P.

(* both forms of an IPv4 exporter address are IPv4: the 4-octet one (an AF_INET listener) and the IPv4-mapped 16-octet one *)
Lemma is4_four a : length a = 4%nat -> is4 a = true.
Proof. intros H. unfold is4, to4. rewrite H. reflexivity. Qed.

Lemma is4_mapped a : length a = 4%nat -> is4 (repeat 0 10 ++ [255; 255] ++ a) = true.
Proof.
  intros H. destruct a as [|a0 [|a1 [|a2 [|a3 [|x r]]]]]; try discriminate. vm_compute. reflexivity.
Qed.

(* an address of any other length (a nil address included) is classified too: the dispatcher is total *)
Lemma is4_other a : length a <> 4%nat -> length a <> 16%nat -> is4 a = false.
Proof.
  intros H4 H16. unfold is4, to4. destruct (Nat.eqb_spec (length a) 4); [contradiction|].
  destruct (Nat.eqb_spec (length a) 16); [contradiction|]. reflexivity.
Qed.
