From VF Require Import Base.Prelude Model.Producer Model.ProducerConn Proofs.ProducerProofs.

(* ---------- sub-lists ---------- *)
Lemma sublist_refl {A} (l : list A) : sublist l l.
Proof. induction l; constructor; assumption. Qed.

Lemma sublist_nil_l {A} (l : list A) : sublist [] l.
Proof. induction l; constructor; assumption. Qed.

Lemma sublist_app {A} (a1 a2 b1 b2 : list A) : sublist a1 a2 -> sublist b1 b2 -> sublist (a1 ++ b1) (a2 ++ b2).
Proof. induction 1; intros Hb; cbn [app]; [assumption| |]; constructor; apply IHsublist; assumption. Qed.

Lemma sublist_trans {A} (l2 l3 : list A) : sublist l2 l3 -> forall l1, sublist l1 l2 -> sublist l1 l3.
Proof.
  induction 1 as [|x l2 l3 H IH|x l2 l3 H IH]; intros l1 H1; [assumption| |].
  - constructor. apply IH. assumption.
  - inversion H1; subst; constructor; apply IH; assumption.
Qed.

Lemma sublist_firstn {A} n (l : list A) : sublist (firstn n l) l.
Proof. revert n; induction l as [|x l IH]; intros [|n]; cbn [firstn]; try constructor; try apply sublist_nil_l; apply IH. Qed.

Lemma sublist_select keep : forall ms, sublist (select keep ms) ms.
Proof.
  induction keep as [|[|] keep IH]; intros [|m ms]; cbn [select]; try constructor; try apply sublist_nil_l; apply IH.
Qed.

Lemma sublist_map {A B} (f : A -> B) l1 l2 : sublist l1 l2 -> sublist (map f l1) (map f l2).
Proof. induction 1; cbn [map]; constructor; assumption. Qed.

(* ---------- the lines written ---------- *)
Lemma all_lines_cons c r : all_lines (c :: r) = all_lines r ++ lines c.
Proof. unfold all_lines. cbn [rev]. rewrite map_app, concat_app. cbn [map concat]. rewrite app_nil_r. reflexivity. Qed.

Lemma all_lines_fresh cs : all_lines (fresh :: cs) = all_lines cs.
Proof. rewrite all_lines_cons. cbn [fresh lines]. apply app_nil_r. Qed.

Lemma all_lines_part k m cs : all_lines (on_cur (wr_part k m) cs) = all_lines cs.
Proof. destruct cs as [|c r]; cbn [on_cur]; rewrite ?all_lines_cons; reflexivity. Qed.

Lemma all_lines_line m cs : cs <> [] -> all_lines (on_cur (wr_line m) cs) = all_lines cs ++ [pend (hd fresh cs) ++ line m].
Proof. destruct cs as [|c r]; [congruence|]. intros _. cbn [on_cur hd]. rewrite !all_lines_cons. cbn [wr_line lines]. apply app_assoc. Qed.

Definition pend_ok (all : list bytes) (c : conn) : Prop := exists m k, (pend c = [] \/ In m all) /\ pend c = firstn k m.
Definition cur (cs : list conn) : conn := hd fresh cs.

Lemma pend_ok_nil all c : pend c = [] -> pend_ok all c.
Proof. intros H. exists [], 0%nat. split; [left; assumption|]. rewrite H. reflexivity. Qed.

Lemma line_step all m cs dead :
  cs <> [] -> negb dead = true -> (dead = false -> pend (cur cs) = []) -> Forall (pend_ok all) cs ->
  on_cur (wr_line m) cs <> [] /\ pend (cur (on_cur (wr_line m) cs)) = [] /\ Forall (pend_ok all) (on_cur (wr_line m) cs) /\
  all_lines (on_cur (wr_line m) cs) = all_lines cs ++ [line m].
Proof.
  intros Hne Hd Hp Hf. destruct dead; [discriminate|]. specialize (Hp eq_refl).
  rewrite all_lines_line by assumption. unfold cur in *. rewrite Hp. destruct cs as [|c r]; [congruence|].
  cbn [on_cur hd wr_line pend]. repeat split; try discriminate.
  inversion Hf; subst. constructor; [apply pend_ok_nil; reflexivity|assumption].
Qed.

Definition after_err (k : nat) (bp d : bool) (m : bytes) (cs : list conn) : list conn :=
  if bp && d then fresh :: on_cur (wr_part k m) cs else on_cur (wr_part k m) cs.

Lemma err_step all k bp d m o' cs dead :
  In m all -> cs <> [] -> dead_ok dead (AErr k bp d :: o') = true -> (dead = false -> pend (cur cs) = []) -> Forall (pend_ok all) cs ->
  after_err k bp d m cs <> [] /\ dead_ok (negb (bp && d)) o' = true /\
  (negb (bp && d) = false -> pend (cur (after_err k bp d m cs)) = []) /\ Forall (pend_ok all) (after_err k bp d m cs) /\
  all_lines (after_err k bp d m cs) = all_lines cs.
Proof.
  intros Hin Hne Hd Hp Hf. cbn [dead_ok] in Hd. apply andb_true_iff in Hd. destruct Hd as [Hk Hd].
  assert (Hpart : Forall (pend_ok all) (on_cur (wr_part k m) cs)).
  { destruct cs as [|c r]; [congruence|]. cbn [on_cur]. inversion Hf; subst. constructor; [|assumption].
    destruct dead.
    - apply Nat.eqb_eq in Hk. subst k. unfold pend_ok in *. cbn [wr_part pend firstn]. rewrite app_nil_r. assumption.
    - specialize (Hp eq_refl). unfold cur in Hp. cbn [hd] in Hp. exists m, k. cbn [wr_part pend]. rewrite Hp. cbn [app].
      split; [right; assumption|reflexivity]. }
  unfold after_err. destruct (bp && d); cbn [negb].
  - repeat split; try discriminate; try assumption.
    + constructor; [apply pend_ok_nil; reflexivity|assumption].
    + rewrite all_lines_fresh. apply all_lines_part.
  - repeat split; try assumption; try discriminate.
    + destruct cs; [congruence|]. cbn [on_cur]. discriminate.
    + apply all_lines_part.
Qed.

(* one message, under the dead-connection assumption *)
Lemma csend_one_inv all : forall fuel i mr m o cs dead,
  In m all -> cs <> [] -> dead_ok dead o = true -> (dead = false -> pend (cur cs) = []) -> Forall (pend_ok all) cs ->
  exists dead', let '(cs', e, o') := csend_one fuel i mr m o cs in
    cs' <> [] /\ dead_ok dead' o' = true /\ (dead' = false -> pend (cur cs') = []) /\ Forall (pend_ok all) cs' /\
    (all_lines cs' = all_lines cs \/ all_lines cs' = all_lines cs ++ [line m]) /\ 0 <= e.
Proof.
  induction fuel as [|f IH]; intros i mr m o cs dead Hin Hne Hd Hp Hf.
  - destruct o as [|[|k bp d] o']; cbn [csend_one].
    + cbn [dead_ok] in Hd. destruct (line_step all m cs dead Hne Hd Hp Hf) as (A & B & C & D).
      exists false. repeat split; auto; lia.
    + cbn [dead_ok] in Hd. apply andb_true_iff in Hd. destruct Hd as [Hd Ho].
      destruct (line_step all m cs dead Hne Hd Hp Hf) as (A & B & C & D).
      exists false. repeat split; auto; lia.
    + destruct (err_step all k bp d m o' cs dead Hin Hne Hd Hp Hf) as (A & B & C & D & E).
      fold (after_err k bp d m cs). exists (negb (bp && d)).
      destruct (mr <=? i); repeat split; auto; lia.
  - destruct o as [|[|k bp d] o']; cbn [csend_one].
    + cbn [dead_ok] in Hd. destruct (line_step all m cs dead Hne Hd Hp Hf) as (A & B & C & D).
      exists false. repeat split; auto; lia.
    + cbn [dead_ok] in Hd. apply andb_true_iff in Hd. destruct Hd as [Hd Ho].
      destruct (line_step all m cs dead Hne Hd Hp Hf) as (A & B & C & D).
      exists false. repeat split; auto; lia.
    + destruct (err_step all k bp d m o' cs dead Hin Hne Hd Hp Hf) as (A & B & C & D & E).
      fold (after_err k bp d m cs).
      destruct (mr <=? i).
      * exists (negb (bp && d)). repeat split; auto; lia.
      * destruct (IH (i + 1) mr m o' (after_err k bp d m cs) (negb (bp && d)) Hin A B C D) as [dead' H].
        exists dead'. destruct (csend_one f (i + 1) mr m o' (after_err k bp d m cs)) as [[c e] o2].
        destruct H as (H1 & H2 & H3 & H4 & H5 & H6). rewrite E in H5. repeat split; auto; lia.
Qed.

(* every message: what was written, connection by connection, is whole lines of a sub-list of the messages, in order, each
   at most once; what is left unterminated on a connection is the beginning of a message *)
Lemma csend_all_inv all mr : forall ms o cs dead,
  incl ms all -> cs <> [] -> dead_ok dead o = true -> (dead = false -> pend (cur cs) = []) -> Forall (pend_ok all) cs ->
  exists keep, length keep = length ms /\
    all_lines (fst (csend_all mr ms o cs)) = all_lines cs ++ map line (select keep ms) /\
    Forall (pend_ok all) (fst (csend_all mr ms o cs)) /\ 0 <= snd (csend_all mr ms o cs).
Proof.
  induction ms as [|m ms IH]; intros o cs dead Hin Hne Hd Hp Hf; cbn [csend_all].
  - exists []. cbn [fst snd select map]. rewrite app_nil_r. repeat split; auto; lia.
  - assert (Hm : In m all) by (apply Hin; left; reflexivity).
    destruct (csend_one_inv all (S (Z.to_nat (Z.max 0 mr))) 0 mr m o cs dead Hm Hne Hd Hp Hf) as [dead' H1].
    destruct (csend_one (S (Z.to_nat (Z.max 0 mr))) 0 mr m o cs) as [[cs1 e] o'].
    destruct H1 as (A & B & C & D & E & F).
    assert (Hin' : incl ms all) by (intros x Hx; apply Hin; right; assumption).
    destruct (IH o' cs1 dead' Hin' A B C D) as (keep & Hl & Hk & Hpk & He).
    destruct (csend_all mr ms o' cs1) as [cs2 e2]. cbn [fst snd] in *.
    destruct E as [E | E].
    + exists (false :: keep). cbn [length select]. rewrite Hk, E. repeat split; auto; lia.
    + exists (true :: keep). cbn [length select map]. rewrite Hk, E, <- app_assoc. cbn [app]. repeat split; auto; lia.
Qed.

Theorem written_framing mr ms o :
  dead_ok false o = true ->
  exists keep, length keep = length ms /\
    all_lines (fst (crun mr ms o)) = map line (select keep ms) /\
    Forall (fun c => exists m k, (pend c = [] \/ In m ms) /\ pend c = firstn k m) (fst (crun mr ms o)).
Proof.
  intros Hd. unfold crun.
  destruct (csend_all_inv ms mr ms o [fresh] false (incl_refl _)) as (keep & Hl & Hk & Hp & _); auto; try discriminate.
  { constructor; [apply pend_ok_nil; reflexivity|constructor]. }
  exists keep. repeat split; assumption.
Qed.

(* what the sink has received: of each connection a prefix of what was written to it *)
Lemma received_sublist : forall cs take, sublist (received take cs) (concat (map lines cs)).
Proof.
  induction cs as [|c r IH]; intros take; cbn [received map concat]; [constructor|].
  apply sublist_app; [apply sublist_firstn|apply IH].
Qed.

Theorem received_subsequence mr ms o take :
  dead_ok false o = true -> sublist (received take (rev (fst (crun mr ms o)))) (map line ms).
Proof.
  intros Hd. destruct (written_framing mr ms o Hd) as (keep & _ & Hk & _).
  eapply sublist_trans; [|apply received_sublist]. fold (all_lines (fst (crun mr ms o))). rewrite Hk.
  apply sublist_map, sublist_select.
Qed.

(* without faults everything is written, once, to the one connection *)
Lemma no_fault_conn mr : forall ms c, csend_all mr ms [] [c] = ([fold_left (fun c m => wr_line m c) ms c], 0).
Proof. induction ms as [|m ms IH]; intros c; cbn [csend_all fold_left]; [reflexivity|]. cbn [csend_one on_cur]. rewrite IH. reflexivity. Qed.

(* THE HAZARD the assumption excludes: an error that leaves the connection writable (a write deadline that expires while
   the sink is merely slow) makes the retry write the whole line behind the octets already sent: a corrupted line *)
Definition hazard_run := crun 2 [[65; 66; 67]] [AErr 2 false false; AOk].
Theorem writable_after_error_corrupts :
  dead_ok false [AErr 2 false false; AOk] = false /\
  all_lines (fst hazard_run) = [[65; 66; 65; 66; 67; 10]] /\ ~ In [65; 66; 65; 66; 67; 10] (map line [[65; 66; 67]]).
Proof. repeat split; try (vm_compute; reflexivity). cbn. intros [H | []]. discriminate. Qed.

(* a non-trivial schedule that meets the assumption: blocked in the middle of the second message when the connection is
   reset; the retry fails with broken pipe and redials; the third attempt writes the whole message to the new connection *)
Example conn_instance :
  let o := [AOk; AErr 2 false false; AErr 0 true true; AOk] in
  dead_ok false o = true /\
  rev (fst (crun 2 [[65]; [66; 67; 68]; [69]] o)) =
    [ {| lines := [[65; 10]]; pend := [66; 67] |}; {| lines := [[66; 67; 68; 10]; [69; 10]]; pend := [] |} ] /\
  snd (crun 2 [[65]; [66; 67; 68]; [69]] o) = 2.
Proof. vm_compute. repeat split; reflexivity. Qed.

(* ---------- the gap is bounded by the faults: a message that is not written costs at least one scheduled fault ---------- *)
Lemma csend_one_le : forall fuel i mr m o cs cs' e o',
  csend_one fuel i mr m o cs = (cs', e, o') -> (length o' <= length o)%nat.
Proof.
  induction fuel as [|f IH]; intros i mr m o cs cs' e o' H; destruct o as [|[|k bp d] o0]; cbn [csend_one] in H;
    try (injection H as _ _ <-; cbn [length]; lia).
  - destruct (mr <=? i); injection H as _ _ <-; cbn [length]; lia.
  - destruct (mr <=? i); [injection H as _ _ <-; cbn [length]; lia|].
    destruct (csend_one f (i + 1) mr m o0 _) as [[c1 e1] o2] eqn:E. injection H as _ _ <-.
    pose proof (IH _ _ _ _ _ _ _ _ E). cbn [length]. lia.
Qed.

(* an attempt that failed has consumed its fault *)
Lemma csend_one_err_lt : forall fuel i mr m k bp d o0 cs cs' e o',
  csend_one fuel i mr m (AErr k bp d :: o0) cs = (cs', e, o') -> (length o' <= length o0)%nat.
Proof.
  intros fuel i mr m k bp d o0 cs cs' e o' H. destruct fuel as [|f]; cbn [csend_one] in H.
  - destruct (mr <=? i); injection H as _ _ <-; lia.
  - destruct (mr <=? i); [injection H as _ _ <-; lia|].
    destruct (csend_one f (i + 1) mr m o0 _) as [[c1 e1] o2] eqn:E. injection H as _ _ <-.
    exact (csend_one_le _ _ _ _ _ _ _ _ _ E).
Qed.

Lemma csend_one_nonempty : forall fuel i mr m o cs cs' e o', csend_one fuel i mr m o cs = (cs', e, o') -> cs <> [] -> cs' <> [].
Proof.
  induction fuel as [|f IH]; intros i mr m o cs cs' e o' H Hne; destruct o as [|[|k bp d] o0]; cbn [csend_one] in H;
    try (injection H as <- <- <-; destruct cs; [congruence|cbn [on_cur]; discriminate]).
  - destruct (mr <=? i); injection H as <- <- <-; destruct (bp && d); try discriminate; destruct cs; try congruence; cbn [on_cur]; discriminate.
  - destruct (mr <=? i).
    + injection H as <- <- <-; destruct (bp && d); try discriminate; destruct cs; try congruence; cbn [on_cur]; discriminate.
    + destruct (csend_one f (i + 1) mr m o0 _) as [[c1 e1] o2] eqn:E. injection H as <- <- <-.
      eapply IH; [exact E|]. destruct (bp && d); [discriminate|]. destruct cs; [congruence|]. cbn [on_cur]. discriminate.
Qed.

Lemma csend_one_lines_grow : forall fuel i mr m o cs cs' e o', csend_one fuel i mr m o cs = (cs', e, o') -> cs <> [] ->
  (length (all_lines cs) <= length (all_lines cs'))%nat.
Proof.
  induction fuel as [|f IH]; intros i mr m o cs cs' e o' H Hne; destruct o as [|[|k bp d] o0]; cbn [csend_one] in H;
    try (injection H as <- <- <-; rewrite all_lines_line by assumption; rewrite app_length; lia).
  - fold (after_err k bp d m cs) in H. destruct (mr <=? i); injection H as <- <- <-; unfold after_err; destruct (bp && d);
      rewrite ?all_lines_fresh, all_lines_part; lia.
  - fold (after_err k bp d m cs) in H. destruct (mr <=? i).
    + injection H as <- <- <-; unfold after_err; destruct (bp && d); rewrite ?all_lines_fresh, all_lines_part; lia.
    + destruct (csend_one f (i + 1) mr m o0 (after_err k bp d m cs)) as [[c1 e1] o2] eqn:E. injection H as <- <- <-.
      assert (Hne' : after_err k bp d m cs <> []).
      { unfold after_err. destruct (bp && d); [discriminate|]. destruct cs; [congruence|]. cbn [on_cur]. discriminate. }
      pose proof (IH _ _ _ _ _ _ _ _ E Hne') as Hle.
      assert (Ha : all_lines (after_err k bp d m cs) = all_lines cs).
      { unfold after_err. destruct (bp && d); rewrite ?all_lines_fresh, all_lines_part; reflexivity. }
      rewrite Ha in Hle. exact Hle.
Qed.

Theorem conn_gap_bound mr : forall ms o cs, cs <> [] ->
  (length ms + length (all_lines cs) <= length (all_lines (fst (csend_all mr ms o cs))) + length o)%nat.
Proof.
  induction ms as [|m ms IH]; intros o cs Hne; cbn [csend_all]; [cbn [fst length]; lia|].
  destruct (csend_one (S (Z.to_nat (Z.max 0 mr))) 0 mr m o cs) as [[cs1 e] o'] eqn:E.
  pose proof (csend_one_le _ _ _ _ _ _ _ _ _ E) as Hle.
  pose proof (csend_one_nonempty _ _ _ _ _ _ _ _ _ E Hne) as Hne1.
  pose proof (csend_one_lines_grow _ _ _ _ _ _ _ _ _ E Hne) as Hgrow.
  specialize (IH o' cs1 Hne1). destruct (csend_all mr ms o' cs1) as [cs2 e2]. cbn [fst] in *. cbn [length].
  destruct (Nat.eq_dec (length (all_lines cs1)) (length (all_lines cs))) as [Heq|Hneq]; [|lia].
  (* nothing was written for m: then a fault was consumed *)
  assert (Hcons : (length o' < length o)%nat).
  { destruct o as [|[|k bp d] o0].
    - cbn [csend_one] in E. injection E as <- _ _. rewrite all_lines_line in Heq by assumption. rewrite app_length in Heq. cbn in Heq. lia.
    - cbn [csend_one] in E. injection E as <- _ _. rewrite all_lines_line in Heq by assumption. rewrite app_length in Heq. cbn in Heq. lia.
    - pose proof (csend_one_err_lt _ _ _ _ _ _ _ _ _ _ _ _ E). cbn [length]. lia. }
  lia.
Qed.

Theorem crun_gap_bound mr ms o : (length ms <= length (all_lines (fst (crun mr ms o))) + length o)%nat.
Proof.
  unfold crun. pose proof (conn_gap_bound mr ms o [fresh]) as H.
  cbn [all_lines rev app map concat lines fresh length] in H. rewrite Nat.add_0_r in H. apply H. discriminate.
Qed.
