(* C05: JSONMarshal of IPFIX / NetFlow v9 / NetFlow v5 messages is a JSON text denoting the decoded message. *)
From VF Require Import Base.Prelude Base.IPText Base.Utf8 Base.Json Spec.JsonGrammar Spec.JsonDenote
  Model.JsonPieces Model.Flow Model.MarshalFlow Proofs.ReaderProofs Proofs.JsonProofs.

(* an object from (member name, member text, member value) triples *)
Definition member_text (m : string * bytes * jval) : bytes := JsonProofs.quoted (s2l (fst (fst m))) ++ [58] ++ snd (fst m).
Definition member_val (m : string * bytes * jval) : list Z * jval := (key (fst (fst m)), snd m).

Lemma obj_ok (ms : list (string * bytes * jval)) :
  Forall (fun m => Forall plain (s2l (fst (fst m))) /\ Gjson (snd (fst m)) (snd m)) ms ->
  Gjson ([123] ++ intercalate [44] (map member_text ms) ++ [125]) (VObject (map member_val ms)).
Proof.
  intros H. apply G_obj. induction H as [|[[k t] v] ms [Hk Hv] _ IH]; [constructor|].
  cbn [map]. constructor; [|exact IH].
  exists (JsonProofs.quoted (s2l k)), t. split; [reflexivity|]. split; [apply Gstring_plain, Hk|exact Hv].
Qed.

Lemma arr_ok (ts : list bytes) (vs : list jval) : Forall2 Gjson ts vs ->
  Gjson ([91] ++ intercalate [44] ts ++ [93]) (VArray vs).
Proof. apply G_arr. Qed.

(* ---- one value ---- *)
Theorem write_value_ok v : wf_value v -> Gjson (write_value v) (val_json v).
Proof.
  destruct v as [b|z|z|z|z|z|z|z|z|bits|bits|l|l|l|l]; cbn [write_value val_json wf_value]; intros H;
    try (apply G_int, show_Z_int).
  - destruct b; constructor.
  - unfold float_tok. cbn [Z.eqb Pos.eqb]. destruct ((bits / 8388608) mod 256 =? 255).
    + apply G_str. apply (Gstring_plain _ (plain_placeholder 32 bits)).
    + apply G_float. exists 32, bits. reflexivity.
  - unfold float_tok. cbn [Z.eqb Pos.eqb]. destruct ((bits / 4503599627370496) mod 2048 =? 2047).
    + apply G_str. apply (Gstring_plain _ (plain_placeholder 64 bits)).
    + apply G_float. exists 64, bits. reflexivity.
  - apply G_str, (Gstring_plain _ (plain_mac l H)).
  - apply G_str, json_string_ok, H.
  - apply G_str, (Gstring_plain _ (plain_ip l H)).
  - apply G_str. apply (Gstring_plain (s2l "0x" ++ show_hex l)). apply plain_app; [apply plain_lit; reflexivity|apply plain_show_hex, H].
Qed.

(* ---- a field, a record, the data sets ---- *)
Lemma encode_field_shape with_pen f :
  encode_field with_pen f
  = [123] ++ intercalate [44] (map member_text
        ([("I"%string, show_Z (d_id f), VInt (d_id f)); ("V"%string, write_value (d_val f), val_json (d_val f))]
         ++ (if with_pen && negb (d_pen f =? 0) then [("E"%string, show_Z (d_pen f), VInt (d_pen f))] else []))) ++ [125].
Proof.
  unfold encode_field, member_text. generalize (show_Z (d_id f)) (write_value (d_val f)) (show_Z (d_pen f)). intros a b c.
  destruct (with_pen && negb (d_pen f =? 0)); cbn [app map intercalate fst snd]; unfold JsonProofs.quoted; repeat (rewrite <- ?app_assoc; cbn); reflexivity.
Qed.

Theorem encode_field_ok with_pen f : wf_value (d_val f) -> Gjson (encode_field with_pen f) (field_json with_pen f).
Proof.
  intros H. rewrite encode_field_shape. unfold field_json.
  replace ([(key "I", VInt (d_id f)); (key "V", val_json (d_val f))] ++ (if with_pen && negb (d_pen f =? 0) then [(key "E", VInt (d_pen f))] else []))
    with (map member_val ([("I"%string, show_Z (d_id f), VInt (d_id f)); ("V"%string, write_value (d_val f), val_json (d_val f))]
         ++ (if with_pen && negb (d_pen f =? 0) then [("E"%string, show_Z (d_pen f), VInt (d_pen f))] else [])))
    by (destruct (with_pen && negb (d_pen f =? 0)); reflexivity).
  apply obj_ok. apply Forall_app. split.
  - constructor; [split; [apply plain_lit; reflexivity|apply G_int, show_Z_int]|].
    constructor; [split; [apply plain_lit; reflexivity|apply write_value_ok, H]|constructor].
  - destruct (with_pen && negb (d_pen f =? 0)); [|constructor].
    constructor; [split; [apply plain_lit; reflexivity|apply G_int, show_Z_int]|constructor].
Qed.

Theorem encode_record_ok with_pen r : wf_record r -> Gjson (encode_record with_pen r) (VArray (map (field_json with_pen) r)).
Proof.
  intros H. unfold encode_record. apply arr_ok. induction H as [|f r Hf _ IH]; [constructor|].
  cbn [map]. constructor; [apply encode_field_ok, Hf|exact IH].
Qed.

Lemma datasets_array_ok with_pen ds : Forall wf_record ds ->
  Gjson ([91] ++ intercalate [44] (map (encode_record with_pen) ds) ++ [93]) (datasets_json with_pen ds).
Proof.
  intros H. apply arr_ok. induction H as [|r ds Hr _ IH]; [constructor|].
  cbn [map]. constructor; [apply encode_record_ok, Hr|exact IH].
Qed.

(* ---- the whole message: the straight-line part of JSONMarshal is regenerated from the Go source (Gen/JsonPieces.v) ---- *)
From VF Require Gen.JsonPieces.

Definition hdr_members (names : list string) (header : list (string * Z)) : list (string * bytes * jval) :=
  map (fun n => (n, show_Z (field_get n header), VInt (field_get n header))) names.

Lemma hdr_members_ok names header : forallb (fun n => forallb plainb (s2l n)) names = true ->
  Forall (fun m => Forall plain (s2l (fst (fst m))) /\ Gjson (snd (fst m)) (snd m)) (hdr_members names header).
Proof.
  intros H. apply Forall_forall. intros m Hm. apply in_map_iff in Hm as (n & <- & Hn). cbn [fst snd].
  split; [|apply G_int, show_Z_int]. apply plain_lit. rewrite forallb_forall in H. auto.
Qed.

Lemma header_json_members names header : header_json names header = VObject (map member_val (hdr_members names header)).
Proof. unfold header_json, hdr_members. rewrite map_map. reflexivity. Qed.

Definition msg_members (with_pen : bool) (names : list string) (agent : bytes) header (ds : list record) : list (string * bytes * jval) :=
  [("AgentID"%string, JsonProofs.quoted (ip_string agent), VString (ip_string agent));
   ("Header"%string, [123] ++ intercalate [44] (map member_text (hdr_members names header)) ++ [125], header_json names header);
   ("DataSets"%string, [91] ++ intercalate [44] (map (encode_record with_pen) ds) ++ [93], datasets_json with_pen ds)].

Lemma msg_members_ok with_pen names agent header ds :
  forallb (fun n => forallb plainb (s2l n)) names = true -> wf_bytes agent -> Forall wf_record ds ->
  Gjson ([123] ++ intercalate [44] (map member_text (msg_members with_pen names agent header ds)) ++ [125])
        (flow_json with_pen names agent header ds).
Proof.
  intros Hn Ha Hd. change (flow_json with_pen names agent header ds) with (VObject (map member_val (msg_members with_pen names agent header ds))).
  apply obj_ok. unfold msg_members.
  constructor; [split; [apply plain_lit; reflexivity|apply G_str, (Gstring_plain _ (plain_ip agent Ha))]|].
  constructor; [split; [apply plain_lit; reflexivity|rewrite header_json_members; apply obj_ok, hdr_members_ok, Hn]|].
  constructor; [split; [apply plain_lit; reflexivity|apply datasets_array_ok, Hd]|constructor].
Qed.

Definition ipfix_names : list string := ["Version"; "Length"; "ExportTime"; "SequenceNo"; "DomainID"]%string.
Definition nf9_names : list string := ["Version"; "Count"; "SysUpTime"; "UNIXSecs"; "SeqNum"; "SrcID"]%string.

Lemma ipfix_marshal_shape agent header ds :
  flow_marshal true Gen.JsonPieces.ipfix_agent_pieces Gen.JsonPieces.ipfix_header_pieces agent header ds
  = [123] ++ intercalate [44] (map member_text (msg_members true ipfix_names agent header ds)) ++ [125].
Proof.
  unfold flow_marshal, encode_datasets, msg_members, hdr_members, member_text, ipfix_names,
    Gen.JsonPieces.ipfix_agent_pieces, Gen.JsonPieces.ipfix_header_pieces, eval_pieces, JsonProofs.quoted.
  change (s2l ",") with [44]. generalize (intercalate [44] (map (encode_record true) ds)). generalize (ip_string agent). intros ipa X.
  cbn [flat_map eval_piece map fst snd find String.eqb Ascii.eqb Bool.eqb intercalate].
  generalize (show_Z (field_get "Version" header)) (show_Z (field_get "Length" header)) (show_Z (field_get "ExportTime" header))
             (show_Z (field_get "SequenceNo" header)) (show_Z (field_get "DomainID" header)). intros v1 v2 v3 v4 v5.
  repeat (rewrite <- ?app_assoc; cbn). reflexivity.
Qed.

Theorem ipfix_marshal_ok agent header ds : wf_bytes agent -> Forall wf_record ds ->
  Gjson (flow_marshal true Gen.JsonPieces.ipfix_agent_pieces Gen.JsonPieces.ipfix_header_pieces agent header ds)
        (flow_json true ipfix_names agent header ds).
Proof. intros Ha Hd. rewrite ipfix_marshal_shape. apply msg_members_ok; [reflexivity|exact Ha|exact Hd]. Qed.

Lemma nf9_marshal_shape agent header ds :
  flow_marshal false Gen.JsonPieces.nf9_agent_pieces Gen.JsonPieces.nf9_header_pieces agent header ds
  = [123] ++ intercalate [44] (map member_text (msg_members false nf9_names agent header ds)) ++ [125].
Proof.
  unfold flow_marshal, encode_datasets, msg_members, hdr_members, member_text, nf9_names,
    Gen.JsonPieces.nf9_agent_pieces, Gen.JsonPieces.nf9_header_pieces, eval_pieces, JsonProofs.quoted.
  change (s2l ",") with [44]. generalize (intercalate [44] (map (encode_record false) ds)). generalize (ip_string agent). intros ipa X.
  cbn [flat_map eval_piece map fst snd find String.eqb Ascii.eqb Bool.eqb intercalate].
  generalize (show_Z (field_get "Version" header)) (show_Z (field_get "Count" header)) (show_Z (field_get "SysUpTime" header))
             (show_Z (field_get "UNIXSecs" header)) (show_Z (field_get "SeqNum" header)) (show_Z (field_get "SrcID" header)). intros v1 v2 v3 v4 v5 v6.
  repeat (rewrite <- ?app_assoc; cbn). reflexivity.
Qed.

Theorem nf9_marshal_ok agent header ds : wf_bytes agent -> Forall wf_record ds ->
  Gjson (flow_marshal false Gen.JsonPieces.nf9_agent_pieces Gen.JsonPieces.nf9_header_pieces agent header ds)
        (flow_json false nf9_names agent header ds).
Proof. intros Ha Hd. rewrite nf9_marshal_shape. apply msg_members_ok; [reflexivity|exact Ha|exact Hd]. Qed.

(* ---- NetFlow v5 ---- *)
From VF Require Import Model.Nf5.

Definition nf5_flow_members (f : list (string * Z)) : list (string * bytes * jval) :=
  map (fun n => (n, JsonProofs.quoted (dotted (enc 4 (field_get n f))), VString (dotted (enc 4 (field_get n f))))) nf5_ip_names
  ++ map (fun n => (n, show_Z (field_get n f), VInt (field_get n f))) nf5_num_names.

Ltac abstract_texts :=
  repeat match goal with
         | |- context [show_Z (field_get ?n ?f)] => generalize (show_Z (field_get n f)); intro
         | |- context [dotted (enc 4 (field_get ?n ?f))] => generalize (dotted (enc 4 (field_get n f))); intro
         end.

Lemma nf5_flow_shape f :
  s2l "{" ++ eval_pieces f [] Gen.JsonPieces.nf5_flow_pieces ++ s2l "}"
  = [123] ++ intercalate [44] (map member_text (nf5_flow_members f)) ++ [125].
Proof.
  unfold nf5_flow_members, member_text, nf5_ip_names, nf5_num_names, Gen.JsonPieces.nf5_flow_pieces, eval_pieces, JsonProofs.quoted.
  cbn [flat_map eval_piece map fst snd app intercalate]. abstract_texts.
  repeat (rewrite <- ?app_assoc; cbn). reflexivity.
Qed.

Lemma nf5_flow_ok f : Gjson (s2l "{" ++ eval_pieces f [] Gen.JsonPieces.nf5_flow_pieces ++ s2l "}") (nf5_flow_json f).
Proof.
  rewrite nf5_flow_shape.
  change (nf5_flow_json f) with (VObject (map member_val (nf5_flow_members f))).
  apply obj_ok. unfold nf5_flow_members. apply Forall_app. split; apply Forall_forall; intros m Hm; apply in_map_iff in Hm as (n & <- & Hn); cbn [fst snd].
  - split; [apply plain_lit; revert n Hn; apply Forall_forall; repeat constructor|].
    apply G_str, Gstring_plain, plain_dotted.
  - split; [apply plain_lit; revert n Hn; apply Forall_forall; repeat constructor|]. apply G_int, show_Z_int.
Qed.

Definition nf5_members (m : nf5_msg) : list (string * bytes * jval) :=
  [("AgentID"%string, JsonProofs.quoted (ip_string (n5_agent m)), VString (ip_string (n5_agent m)));
   ("Header"%string, [123] ++ intercalate [44] (map member_text (hdr_members nf5_header_names (n5_header m))) ++ [125], header_json nf5_header_names (n5_header m));
   ("Flows"%string, [91] ++ intercalate [44] (map (fun f => s2l "{" ++ eval_pieces f [] Gen.JsonPieces.nf5_flow_pieces ++ s2l "}") (n5_flows m)) ++ [93],
    VArray (map nf5_flow_json (n5_flows m)))].

Lemma nf5_marshal_shape m :
  nf5_marshal Gen.JsonPieces.nf5_agent_pieces Gen.JsonPieces.nf5_header_pieces Gen.JsonPieces.nf5_flow_pieces m
  = [123] ++ intercalate [44] (map member_text (nf5_members m)) ++ [125].
Proof.
  unfold nf5_marshal, nf5_members, hdr_members, member_text, nf5_header_names,
    Gen.JsonPieces.nf5_agent_pieces, Gen.JsonPieces.nf5_header_pieces, JsonProofs.quoted.
  change (s2l ",") with [44].
  generalize (intercalate [44] (map (fun f => s2l "{" ++ eval_pieces f [] Gen.JsonPieces.nf5_flow_pieces ++ s2l "}") (n5_flows m))).
  generalize (ip_string (n5_agent m)). intros ipa X. unfold eval_pieces.
  cbn [flat_map eval_piece map fst snd find String.eqb Ascii.eqb Bool.eqb intercalate]. abstract_texts.
  repeat (rewrite <- ?app_assoc; cbn). reflexivity.
Qed.

Theorem nf5_marshal_ok m : wf_bytes (n5_agent m) ->
  Gjson (nf5_marshal Gen.JsonPieces.nf5_agent_pieces Gen.JsonPieces.nf5_header_pieces Gen.JsonPieces.nf5_flow_pieces m)
        (nf5_json (n5_agent m) (n5_header m) (n5_flows m)).
Proof.
  intros Ha. rewrite nf5_marshal_shape.
  change (nf5_json (n5_agent m) (n5_header m) (n5_flows m)) with (VObject (map member_val (nf5_members m))).
  apply obj_ok. unfold nf5_members.
  constructor; [split; [apply plain_lit; reflexivity|apply G_str, (Gstring_plain _ (plain_ip _ Ha))]|].
  constructor; [split; [apply plain_lit; reflexivity|rewrite header_json_members; apply obj_ok, hdr_members_ok; reflexivity]|].
  constructor; [split; [apply plain_lit; reflexivity|]|constructor].
  apply arr_ok. induction (n5_flows m) as [|f l IH]; [constructor|]. cbn [map]. constructor; [apply nf5_flow_ok|exact IH].
Qed.
