(* C05 glue for NetFlow v9 (see Proofs/WfDecode.v). *)
From VF Require Import Base.Prelude Model.Reader Model.Layout Model.JsonPieces Model.Flow Model.Nf9
  Spec.JsonDenote Proofs.ReaderProofs Proofs.JsonProofs Proofs.WfDecode.

Section Wf9.
  Context {C : Type}.
  Variable ops : cache_ops C.
  Variable im : infomodel.
  Variable hl : layout.

  Lemma read_fspec9_wf r s r' : wfr r -> read_fspec9 r = Ok (s, r') -> wfr r'.
  Proof.
    intros H E. unfold read_fspec9, uint16 in E.
    destruct (uintN 2 r) as [[v1 q1]| | |] eqn:E1; cbn [bind fst snd] in E; try discriminate E. pose proof (uintN_wf _ _ _ _ H E1) as H1.
    destruct (uintN 2 q1) as [[v2 q2]| | |] eqn:E2; cbn [bind fst snd] in E; try discriminate E. pose proof (uintN_wf _ _ _ _ H1 E2) as H2.
    injection E as <- <-. exact H2.
  Qed.
  Lemma read_fspecs9_wf : forall k n r acc l r', wfr r -> read_fspecs9 k n r acc = Ok (l, r') -> wfr r'.
  Proof.
    induction k as [|k IH]; intros n r acc l r' H E; cbn [read_fspecs9] in E; destruct (n <=? 0); try discriminate E; try (injection E as <- <-; exact H).
    destruct (read_fspec9 r) as [[s q]| | |] eqn:E1; cbn [bind fst snd] in E; try discriminate E.
    exact (IH _ _ _ _ _ (read_fspec9_wf _ _ _ H E1) E).
  Qed.
  Lemma tpl9_wf (b : bool) r t r' : wfr r -> (if b then read_template9 r else read_opts_template9 r) = Ok (t, r') -> wfr r'.
  Proof.
    intros H E. destruct b; unfold read_template9, read_opts_template9, uint16 in E.
    - destruct (uintN 2 r) as [[v1 q1]| | |] eqn:E1; cbn [bind fst snd] in E; try discriminate E. pose proof (uintN_wf _ _ _ _ H E1) as H1.
      destruct (uintN 2 q1) as [[v2 q2]| | |] eqn:E2; cbn [bind fst snd] in E; try discriminate E. pose proof (uintN_wf _ _ _ _ H1 E2) as H2.
      destruct (read_fspecs9 _ _ q2 []) as [[l q3]| | |] eqn:E3; cbn [bind fst snd] in E; try discriminate E. injection E as <- <-.
      exact (read_fspecs9_wf _ _ _ _ _ _ H2 E3).
    - destruct (uintN 2 r) as [[v1 q1]| | |] eqn:E1; cbn [bind fst snd] in E; try discriminate E. pose proof (uintN_wf _ _ _ _ H E1) as H1.
      destruct (uintN 2 q1) as [[v2 q2]| | |] eqn:E2; cbn [bind fst snd] in E; try discriminate E. pose proof (uintN_wf _ _ _ _ H1 E2) as H2.
      destruct (uintN 2 q2) as [[v3 q3]| | |] eqn:E3; cbn [bind fst snd] in E; try discriminate E. pose proof (uintN_wf _ _ _ _ H2 E3) as H3.
      destruct (read_fspecs9 _ (v2 / 4) q3 []) as [[l q4]| | |] eqn:E4; cbn [bind fst snd] in E; try discriminate E. pose proof (read_fspecs9_wf _ _ _ _ _ _ H3 E4) as H4.
      destruct (read_fspecs9 _ _ q4 []) as [[l5 q5]| | |] eqn:E5; cbn [bind fst snd] in E; try discriminate E. injection E as <- <-.
      exact (read_fspecs9_wf _ _ _ _ _ _ H4 E5).
  Qed.

  Lemma decode_fields9_wf : forall specs r acc o r', wfr r -> wf_record acc -> decode_fields9 im specs r acc = Ok (o, r') ->
    wfr r' /\ match o with Some rec => wf_record rec | None => True end.
  Proof.
    induction specs as [|s specs IH]; intros r acc o r' H Ha E; cbn [decode_fields9] in E.
    - injection E as <- <-. auto.
    - destruct (read (f_len s) r) as [[b q2]| | |] eqn:E2; cbn [bind fst snd] in E; try discriminate E. destruct (read_wf _ _ _ _ H E2) as [Hb H2].
      destruct (im 0 (f_id s)) as [[fid ty]|]; [|injection E as <- <-; auto].
      destruct (interpret ty b) as [v| | |] eqn:E3; cbn [bind] in E; try discriminate E.
      eapply IH; [exact H2| |exact E]. apply Forall_app. split; [exact Ha|]. constructor; [|constructor]. cbn [d_val]. eapply interpret_wf; [exact Hb|exact E3].
  Qed.

  Lemma decode_data9_wf t r o r' : wfr r -> decode_data9 im t r = Ok (o, r') ->
    wfr r' /\ match o with Some rec => wf_record rec | None => True end.
  Proof.
    intros H E. unfold decode_data9 in E.
    destruct (decode_fields9 im (t_scope t) r []) as [[o1 q1]| | |] eqn:E1; cbn [bind fst snd] in E; try discriminate E.
    destruct (decode_fields9_wf _ _ _ _ _ H (Forall_nil _) E1) as [H1 Ho1]. destruct o1 as [sc|]; [|injection E as <- <-; auto].
    exact (decode_fields9_wf _ _ _ _ _ H1 Ho1 E).
  Qed.

  Lemma set_loop9_wf : forall k sid L start tr a c r ds c1 r1 ds1 nf, wfr r -> wfds ds ->
    set_loop9 ops im k sid L start tr a c r ds = Ok (c1, SCont r1 ds1 nf) -> wfr r1 /\ wfds ds1.
  Proof.
    induction k as [|k IH]; intros sid L start tr a c r ds c1 r1 ds1 nf H Hd E; cbn [set_loop9] in E.
    - destruct (_ && _); [discriminate E|]. injection E as <- <- <- <-. auto.
    - destruct (_ && _). 2: { injection E as <- <- <- <-. auto. }
      destruct ((sid =? 0) || (sid =? 1)).
      { destruct (if sid =? 0 then read_template9 r else read_opts_template9 r) as [[t q]| | |] eqn:Et; cbn [catch bind] in E; try discriminate E.
        destruct (c_insert ops c (t_id t) a t) as [c2| | |]; cbn [bind] in E; try discriminate E.
        exact (IH _ _ _ _ _ _ _ _ _ _ _ _ (tpl9_wf _ _ _ _ H Et) Hd E). }
      destruct ((2 <=? sid) && (sid <=? 255)). { injection E as <- <- <- <-. auto. }
      destruct (decode_data9 im tr r) as [[o q]| | |] eqn:Ed; cbn [catch bind] in E; try discriminate E.
      destruct (decode_data9_wf _ _ _ _ H Ed) as [Hq Ho]. destruct o as [fs|].
      + destruct (count q =? count r); [injection E as <- <- <- <-; auto|].
        eapply IH; [exact Hq| |exact E]. apply Forall_app. split; [exact Hd|]. constructor; [exact Ho|constructor].
      + injection E as <- <- <- <-. auto.
  Qed.

  Lemma decode_set9_wf a c r ds c1 r1 ds1 nf : wfr r -> wfds ds ->
    decode_set9 ops im a c r ds = Ok (c1, SCont r1 ds1 nf) -> wfr r1 /\ wfds ds1.
  Proof.
    intros H Hd E. unfold decode_set9, uint16 in E.
    destruct (uintN 2 r) as [[sid q1]| | |] eqn:E1; cbn [catch bind fst snd] in E; try discriminate E. pose proof (uintN_wf _ _ _ _ H E1) as H1.
    destruct (uintN 2 q1) as [[L q2]| | |] eqn:E2; cbn [catch bind fst snd] in E; try discriminate E. pose proof (uintN_wf _ _ _ _ H1 E2) as H2.
    destruct (L <? 4); [discriminate E|].
    assert (Hskip : forall (c2 : C) r2 ds2 e, wfr r2 -> wfds ds2 ->
              (if 0 <? L - (count r2 - count r)
               then s <- catch (read (L - (count r2 - count r)) r2) ;;
                    match s with None => Ok (c2, SFatal) | Some (_, r3) => Ok (c2, SCont r3 ds2 e) end
               else Ok (c2, SCont r2 ds2 e)) = Ok (c1, SCont r1 ds1 nf) -> wfr r1 /\ wfds ds1).
    { intros c2 r2 ds2 e Hr Hds Hs. destruct (0 <? _).
      - destruct (read _ r2) as [[b r3]| | |] eqn:Er; cbn [catch bind] in Hs; try discriminate Hs. injection Hs as <- <- <- <-.
        split; [exact (proj2 (read_wf _ _ _ _ Hr Er))|exact Hds].
      - injection Hs as <- <- <- <-. auto. }
    destruct (if 255 <? sid then c_retrieve ops c sid a else Ok (Some empty_template)) as [[tr|]| | |]; cbn [bind] in *; try discriminate E.
    - destruct (set_loop9 ops im (fuel_of q2) sid L (count r) tr a c q2 ds) as [[c2 [|r2 ds2 e]]| | |] eqn:El; cbn [bind fst snd] in E; try discriminate E.
      destruct (set_loop9_wf _ _ _ _ _ _ _ _ _ _ _ _ _ H2 Hd El) as [Hr2 Hd2]. exact (Hskip c2 r2 ds2 e Hr2 Hd2 E).
    - exact (Hskip c q2 ds true H2 Hd E).
  Qed.

  Lemma sets_loop9_wf : forall k a c r ds nf c1 ds1 nf1, wfr r -> wfds ds ->
    sets_loop9 ops im k a c r ds nf = Ok (c1, Some (ds1, nf1)) -> wfds ds1.
  Proof.
    induction k as [|k IH]; intros a c r ds nf c1 ds1 nf1 H Hd E; cbn [sets_loop9] in E.
    - destruct (4 <? rlen r); [discriminate E|]. injection E as <- <- <-. exact Hd.
    - destruct (4 <? rlen r). 2: { injection E as <- <- <-. exact Hd. }
      destruct (decode_set9 ops im a c r ds) as [[c2 [|r2 ds2 e]]| | |] eqn:Es; cbn [bind fst snd] in E; try discriminate E.
      destruct (decode_set9_wf _ _ _ _ _ _ _ _ H Hd Es) as [Hr2 Hd2]. exact (IH _ _ _ _ _ _ _ _ Hr2 Hd2 E).
  Qed.

  Theorem nf9_decode_wf c a p c1 m nf : wf_bytes p ->
    nf9_decode ops im hl c a p = Ok (c1, DMsg m nf) -> n9_agent m = a /\ Forall wf_record (n9_sets m).
  Proof.
    intros H E. unfold nf9_decode in E.
    destruct (read_layout hl (new_reader p)) as [[hv r]| | |] eqn:Eh; cbn [catch bind] in E; try discriminate E.
    assert (Hr : wfr r) by (eapply read_layout_wf; [|exact Eh]; exact H).
    destruct (negb _); [discriminate E|].
    destruct (sets_loop9 ops im (fuel_of r) a c r [] 0) as [[c2 [[ds n]|]]| | |] eqn:Es; cbn [bind fst snd] in E; try discriminate E.
    injection E as <- <- <-. cbn. split; [reflexivity|]. eapply sets_loop9_wf; [exact Hr|constructor|exact Es].
  Qed.
End Wf9.
