(* The send-after-close hazard of Model/Shutdown.v is excluded exactly when the read deadline does not exceed the
   grace sleep: safe if D <= G (and 0 < G), a panic is reachable if G < D. *)
From VF Require Import Base.Prelude Model.TimedShutdown.

Section Proofs.
  Variables D G : Z.

  Definition tinv (s : tst) : Prop :=
    tviol s = false /\
    (tclosed s = true -> exists t0, stop_at s = Some t0 /\ t0 + G <= tnow s) /\
    (forall st, trpc s = TReading st -> st <= tnow s /\ (forall t0, stop_at s = Some t0 -> st <= t0)) /\
    (trpc s = THas -> tclosed s = false /\ (forall t0, stop_at s = Some t0 -> tnow s < t0 + G)).

  Lemma tinv_step s s' : 0 < G -> D <= G -> tinv s -> tstep D G s s' -> tinv s'.
  Proof.
    intros HG HDG (Hv & Hc & Hr & Hh) St. destruct St as [s t Ht Hn1 Hn2 Hdl|s Hp Hs|s t0 Hp Hs|s st Hp Hlt|s st Hp Hge|s Hp|s Hs|s t0 Hs Hge];
      unfold tinv; cbn [tviol tclosed trpc stop_at tnow].
    - split; [exact Hv|]. split; [|split].
      + intros Hcl. destruct (Hc Hcl) as (t0 & E & Hle). exists t0. split; [exact E|lia].
      + intros st E. destruct (Hr st E) as [H1 H3]. split; [lia|exact H3].
      + intros E. contradiction.
    - split; [exact Hv|]. split; [exact Hc|]. split.
      + intros st E. injection E as <-. split; [lia|]. intros t0 E0. congruence.
      + intros E. discriminate E.
    - split; [exact Hv|]. split; [exact Hc|]. split; intros; discriminate.
    - split; [exact Hv|]. split; [exact Hc|]. split; [intros st' E; discriminate E|]. intros _.
      destruct (Hr st Hp) as [H1 H3].
      assert (Hbound : forall t0, stop_at s = Some t0 -> tnow s < t0 + G) by (intros t0 E0; specialize (H3 t0 E0); lia).
      split; [|exact Hbound]. destruct (tclosed s) eqn:Ecl; [|reflexivity].
      destruct (Hc eq_refl) as (t0 & E0 & Hle). specialize (Hbound t0 E0). lia.
    - split; [exact Hv|]. split; [exact Hc|]. split; intros; discriminate.
    - destruct (Hh Hp) as [Hcl _]. rewrite Hv, Hcl. split; [reflexivity|]. split; [intros E; discriminate E|]. split; intros; discriminate.
    - split; [exact Hv|]. split; [|split].
      + intros Hcl. destruct (Hc Hcl) as (t0 & E & _). congruence.
      + intros st E. destruct (Hr st E) as [H1 _]. split; [exact H1|]. intros t0 E0. injection E0 as <-. lia.
      + intros E. destruct (Hh E) as [Hcl _]. split; [exact Hcl|]. intros t0 E0. injection E0 as <-. lia.
    - split; [exact Hv|]. split; [|split].
      + intros _. exists t0. split; assumption.
      + exact Hr.
      + intros E. destruct (Hh E) as [_ Hb]. specialize (Hb t0 Hs). lia.
  Qed.

  Lemma tinv_init : tinv tinit.
  Proof. unfold tinv, tinit; cbn. repeat split; intros; discriminate. Qed.

  (* no interleaving and no timing of datagram arrivals makes the receive loop send on the closed channel *)
  Theorem timed_safe : 0 < G -> D <= G -> forall s, treach D G s -> tviol s = false.
  Proof.
    intros HG HDG s R. assert (H : tinv s) by (induction R; [apply tinv_init|eapply tinv_step; eassumption]). apply H.
  Qed.

  (* and the bound is tight: a longer read deadline makes the panic reachable (a datagram arriving after the close) *)
  Theorem timed_hazard : 0 <= G -> G < D -> exists s, treach D G s /\ tviol s = true.
  Proof.
    intros HG HGD.
    set (s1 := {| tnow := 0; stop_at := None; trpc := TReading 0; tclosed := false; tviol := false |}).
    set (s2 := {| tnow := 0; stop_at := Some 0; trpc := TReading 0; tclosed := false; tviol := false |}).
    set (s3 := {| tnow := G; stop_at := Some 0; trpc := TReading 0; tclosed := false; tviol := false |}).
    set (s4 := {| tnow := G; stop_at := Some 0; trpc := TReading 0; tclosed := true; tviol := false |}).
    set (s5 := {| tnow := G; stop_at := Some 0; trpc := THas; tclosed := true; tviol := false |}).
    set (s6 := {| tnow := G; stop_at := Some 0; trpc := TCheck; tclosed := true; tviol := true |}).
    exists s6. split; [|reflexivity].
    assert (R1 : treach D G s1) by (eapply TRS; [apply TR0|]; apply (TCheckGo D G tinit); reflexivity).
    assert (R2 : treach D G s2) by (eapply TRS; [exact R1|]; apply (TStop D G s1); reflexivity).
    assert (R3 : treach D G s3).
    { eapply TRS; [exact R2|]. apply (TTick D G s2 G); cbn; try lia; try discriminate. intros st E. injection E as <-. lia. }
    assert (R4 : treach D G s4) by (eapply TRS; [exact R3|]; apply (TClose D G s3 0); cbn; [reflexivity|lia]).
    assert (R5 : treach D G s5) by (eapply TRS; [exact R4|]; apply (TReadData D G s4 0); cbn; [reflexivity|lia]).
    eapply TRS; [exact R5|]. apply (TSend D G s5). reflexivity.
  Qed.
End Proofs.
