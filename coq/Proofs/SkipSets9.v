(* C09, first half (NetFlow v9): reserved flowset ids are 2..255; a field type missing from the information
   model is noticed after its octets have been read (decodeData reads, then looks up). *)
From VF Require Import Base.Prelude Model.Reader Model.Layout Model.JsonPieces Model.Flow Model.Cache Model.Nf9 Spec.FlowWire
  Proofs.ReaderProofs Proofs.LayoutProofs Proofs.FlowSafety Proofs.IpfixFidelity Proofs.Nf9Fidelity.

Section Skip9.
  Variable im : infomodel.
  Variable hl : layout.

  Lemma decode_fields9_app : forall s1 s2 r acc,
    decode_fields9 im (s1 ++ s2) r acc
    = (x <- decode_fields9 im s1 r acc ;;
       match fst x with None => Ok (None, snd x) | Some acc' => decode_fields9 im s2 (snd x) acc' end).
  Proof.
    induction s1 as [|s s1 IH]; intros s2 r acc; cbn [app decode_fields9]; [reflexivity|].
    destruct (read (f_len s) r) as [[b q2]| | |]; cbn [bind fst snd]; try reflexivity.
    destruct (im 0 (f_id s)) as [[fid ty]|]; [|reflexivity].
    destruct (interpret ty b) as [v| | |]; cbn [bind]; try reflexivity. apply IH.
  Qed.

  (* `done`: the fields before the one whose type is not in the model; `content`: that field's octets *)
  Definition missing_at9 (tr : template) (done : list wfield) (content : bytes) : Prop :=
    Forall (wfield9_ok im) done /\
    ((exists bad post, t_scope tr = map w_spec done ++ bad :: post /\ im 0 (f_id bad) = None /\ len content = f_len bad)
     \/ (exists sc fs bad post, done = sc ++ fs /\ t_scope tr = map w_spec sc /\
           t_fields tr = map w_spec fs ++ bad :: post /\ im 0 (f_id bad) = None /\ len content = f_len bad)).

  Lemma decode_data9_missing tr done content tail c : missing_at9 tr done content ->
    decode_data9 im tr {| data := enc_record9 done ++ content ++ tail; count := c |}
    = Ok (None, {| data := tail; count := c + len (enc_record9 done) + len content |}).
  Proof.
    intros [Hok [(bad & post & Hs & Hb & Hl)|(sc & fs & bad & post & -> & Hs & Hf & Hb & Hl)]]; unfold decode_data9.
    - rewrite Hs, decode_fields9_app, (decode_fields9_fidelity im done _ c [] Hok). cbn [bind fst snd decode_fields9].
      rewrite (read_app content tail _ (f_len bad) Hl). cbn [bind fst snd]. rewrite Hb. cbn [bind fst snd]. rewrite Hl. reflexivity.
    - apply Forall_app in Hok as [Hok1 Hok2]. rewrite Hs, enc_record9_app, <- app_assoc.
      rewrite (decode_fields9_fidelity im sc _ c [] Hok1). cbn [bind fst snd app].
      rewrite Hf, decode_fields9_app, (decode_fields9_fidelity im fs _ _ _ Hok2). cbn [bind fst snd decode_fields9].
      rewrite (read_app content tail _ (f_len bad) Hl). cbn [bind fst snd]. rewrite Hb. cbn [bind fst snd].
      rewrite len_app, Hl. do 3 f_equal. lia.
  Qed.

  Definition bad_ok9 (a : bytes) (m : amap) (sid : Z) (body : bytes) : Prop :=
    4 + len body < 65536 /\
    ((2 <= sid <= 255)
     \/ (255 < sid < 65536 /\ amap_get a (sid mod 65536) m = None)
     \/ (255 < sid < 65536 /\ exists tr done content tail, amap_get a (sid mod 65536) m = Some tr /\
           missing_at9 tr done content /\ body = enc_record9 done ++ content ++ tail)).

  Definition enc_bad9 (sid : Z) (body : bytes) : bytes := enc 2 sid ++ enc 2 (4 + len body) ++ body.

  Lemma skip_tail9 (m : amap) L start r2 body' rest ds e :
    r2 = {| data := body' ++ rest; count := start + (L - len body') |} -> 0 <= len body' <= L ->
    (if 0 <? L - (count r2 - start)
     then s <- catch (read (L - (count r2 - start)) r2) ;;
          match s with None => Ok (m, SFatal) | Some (_, r3) => Ok (m, SCont r3 ds e) end
     else Ok (m, SCont r2 ds e))
    = Ok (m, SCont {| data := rest; count := start + L |} ds e).
  Proof.
    intros -> Hb. cbn [count]. replace (L - (start + (L - len body') - start)) with (len body') by lia.
    destruct (0 <? len body') eqn:Ep.
    - rewrite (read_app body' rest _ (len body') eq_refl). cbn [catch bind].
      replace (start + (L - len body') + len body') with (start + L) by lia. reflexivity.
    - assert (body' = []) by (destruct body' as [|x p]; [reflexivity|rewrite len_cons in Ep; pose proof (len_nonneg p); lia]).
      subst body'. cbn [app]. change (len (@nil Z)) with 0. replace (start + (L - 0)) with (start + L) by lia. reflexivity.
  Qed.

  Theorem bad_set9_skipped (a : bytes) (m : amap) sid body rest cnt ds : bad_ok9 a m sid body ->
    exists e, decode_set9 am_ops im a m {| data := enc_bad9 sid body ++ rest; count := cnt |} ds
              = Ok (m, SCont {| data := rest; count := cnt + len (enc_bad9 sid body) |} ds e).
  Proof.
    intros [HL Hk]. pose proof (len_nonneg body) as Hb0. pose proof (len_nonneg rest) as Hr0.
    assert (Hsid : 2 <= sid < 65536) by (destruct Hk as [?|[[? _]|[? _]]]; lia).
    unfold decode_set9, enc_bad9, uint16. rewrite <- !app_assoc.
    rewrite (uintN_app (enc 2 sid) _ cnt 2) by (rewrite ?len_enc; lia). cbn [bind fst snd].
    rewrite (uintN_app (enc 2 (4 + len body)) _ (cnt + 2) 2) by (rewrite ?len_enc; lia).
    cbn [bind fst snd catch count]. rewrite !be_enc2 by lia.
    replace (4 + len body <? 4) with false by lia.
    replace (cnt + len (enc 2 sid ++ enc 2 (4 + len body) ++ body)) with (cnt + (4 + len body)) by (rewrite !len_app, !len_enc; lia).
    set (r1 := {| data := body ++ rest; count := cnt + 2 + 2 |}).
    assert (Hr1 : r1 = {| data := body ++ rest; count := cnt + (4 + len body - len body) |}) by (unfold r1; f_equal; lia).
    destruct Hk as [Hres|[[Hs Hunk]|[Hs (tr & done & content & tail & Hget & Hmiss & Hbody)]]].
    - replace (255 <? sid) with false by lia. cbn [bind]. exists false.
      assert (Hloop : set_loop9 am_ops im (Nf9.fuel_of r1) sid (4 + len body) cnt empty_template a m r1 ds = Ok (m, SCont r1 ds false)).
      { unfold Nf9.fuel_of. cbn [set_loop9]. destruct (_ && _); [|reflexivity].
        replace ((sid =? 0) || (sid =? 1)) with false by lia. replace ((2 <=? sid) && (sid <=? 255)) with true by lia. reflexivity. }
      rewrite Hloop. cbn [bind snd fst]. apply (skip_tail9 m (4 + len body) cnt r1 body rest ds false Hr1); lia.
    - replace (255 <? sid) with true by lia. cbn [c_retrieve am_ops bind]. rewrite Hunk. cbn [bind snd fst]. exists true.
      apply (skip_tail9 m (4 + len body) cnt r1 body rest ds true Hr1); lia.
    - replace (255 <? sid) with true by lia. cbn [c_retrieve am_ops bind]. rewrite Hget. cbn [bind].
      unfold Nf9.fuel_of. cbn [set_loop9]. unfold r1 at 1 2 3. cbn [count]. unfold rlen. cbn [data].
      destruct (_ && _).
      + replace ((sid =? 0) || (sid =? 1)) with false by lia. replace ((2 <=? sid) && (sid <=? 255)) with false by lia.
        unfold r1. rewrite Hbody, <- !app_assoc.
        rewrite (decode_data9_missing tr done content (tail ++ rest) _ Hmiss). cbn [catch bind snd fst]. exists true.
        rewrite Hbody, !len_app in HL. pose proof (len_nonneg tail). pose proof (len_nonneg content). pose proof (len_nonneg (enc_record9 done)).
        rewrite !len_app.
        apply (skip_tail9 m (4 + (len (enc_record9 done) + (len content + len tail))) cnt _ tail rest ds true); [f_equal; lia|lia].
      + cbn [bind snd fst]. exists false. apply (skip_tail9 m (4 + len body) cnt r1 body rest ds false Hr1); lia.
  Qed.

  Inductive xset9 := XGood9 (s : wset) | XBad9 (sid : Z) (body : bytes).
  Definition enc_xset9 (x : xset9) : bytes :=
    match x with XGood9 s => enc_set9 s | XBad9 sid body => enc_bad9 sid body end.
  Fixpoint goods9 (xs : list xset9) : list wset :=
    match xs with [] => [] | XGood9 s :: r => s :: goods9 r | XBad9 _ _ :: r => goods9 r end.

  Fixpoint xsets_ok9 (a : bytes) (m : amap) (xs : list xset9) : Prop :=
    match xs with
    | [] => True
    | XBad9 sid body :: r => bad_ok9 a m sid body /\ xsets_ok9 a m r
    | XGood9 s :: r => sets_ok9 im a m [s] /\ xsets_ok9 a (final_map9 a m [s]) r
    end.

  Lemma sets_ok9_cons a m s r : sets_ok9 im a m (s :: r) <-> sets_ok9 im a m [s] /\ sets_ok9 im a (final_map9 a m [s]) r.
  Proof. destruct s; cbn [sets_ok9 final_map9]; tauto. Qed.

  Lemma xsets_ok9_goods a : forall xs m, xsets_ok9 a m xs -> sets_ok9 im a m (goods9 xs).
  Proof.
    induction xs as [|[s|sid body] xs IH]; intros m H; cbn [goods9 xsets_ok9] in *; [exact I| |].
    - apply sets_ok9_cons. split; [tauto|apply IH; tauto].
    - apply IH; tauto.
  Qed.

  Lemma enc_xset9_len a m x r : xsets_ok9 a m (x :: r) -> 4 <= len (enc_xset9 x).
  Proof.
    destruct x as [s|sid body]; cbn [xsets_ok9 enc_xset9].
    - intros [H _]. pose proof (enc_set9_len im a m s [] H). lia.
    - intros _. unfold enc_bad9. rewrite !len_app, !len_enc. pose proof (len_nonneg body). lia.
  Qed.

  Lemma xsets9_fuel a : forall xs m, xsets_ok9 a m xs -> (length xs <= length (flat_map enc_xset9 xs))%nat.
  Proof.
    induction xs as [|x xs IH]; intros m H; [cbn; lia|]. pose proof (enc_xset9_len a m x xs H) as H4.
    cbn [flat_map length]. rewrite app_length.
    assert (Hr : exists m', xsets_ok9 a m' xs) by (destruct x; cbn [xsets_ok9] in H; eexists; apply H).
    destruct Hr as [m' Hr]. specialize (IH m' Hr). unfold len in H4. lia.
  Qed.

  Theorem xsets_loop9 (a : bytes) : forall xs m cnt ds nf fuel,
    xsets_ok9 a m xs -> (length xs < fuel)%nat ->
    exists nf', sets_loop9 am_ops im fuel a m {| data := flat_map enc_xset9 xs; count := cnt |} ds nf
                = Ok (final_map9 a m (goods9 xs), Some (ds ++ expected_sets9 im (goods9 xs), nf')).
  Proof.
    induction xs as [|x xs IH]; intros m cnt ds nf fuel Hok Hf.
    - exists nf. destruct fuel as [|k]; [cbn in Hf; lia|]. cbn [sets_loop9 flat_map]. unfold rlen; cbn. now rewrite app_nil_r.
    - destruct fuel as [|k]; [cbn in Hf; lia|]. pose proof (enc_xset9_len a m x xs Hok) as Hl4.
      cbn [sets_loop9 flat_map]. unfold rlen; cbn [data]. rewrite len_app. pose proof (len_nonneg (flat_map enc_xset9 xs)) as Hn.
      destruct x as [s|sid body]; cbn [xsets_ok9 enc_xset9 goods9] in *.
      + destruct Hok as [Hs Hr]. pose proof (enc_set9_len im a m s [] Hs).
        replace (4 <? len (enc_set9 s) + len (flat_map enc_xset9 xs)) with true by lia.
        destruct s as [o ts pad|sid recs pad]; cbn [sets_ok9 enc_set9 expected_sets9 final_map9] in *.
        * destruct Hs as (H1 & H2 & _ & H4 & H5 & _).
          rewrite (tpl_set9_fidelity im a m o ts pad _ cnt ds H1 H2 H4 H5). cbn [bind fst snd].
          apply IH; [exact Hr|cbn in Hf; lia].
        * destruct Hs as ((tr & Hsid & Hg & Hm) & H2 & H3 & _ & H5 & H6 & H7 & _).
          rewrite (data_set9_fidelity im a m tr sid recs pad _ cnt ds Hsid Hg Hm H2 H3 H5 H6 H7). cbn [bind fst snd].
          destruct (IH m (cnt + len (enc_data_set9 sid recs pad)) (ds ++ map (expected_record9 im) recs) nf k Hr ltac:(cbn in Hf; lia)) as [nf' E].
          exists nf'. rewrite E. now rewrite <- app_assoc.
      + destruct Hok as [Hb Hr].
        destruct (4 <? len (enc_bad9 sid body) + len (flat_map enc_xset9 xs)) eqn:E4.
        * destruct (bad_set9_skipped a m sid body (flat_map enc_xset9 xs) cnt ds Hb) as [e ->]. cbn [bind fst snd].
          apply IH; [exact Hr|cbn in Hf; lia].
        * assert (flat_map enc_xset9 xs = []) by (destruct (flat_map enc_xset9 xs) as [|y l]; [reflexivity|rewrite len_cons in E4; pose proof (len_nonneg l); lia]).
          assert (xs = []).
          { destruct xs as [|y l]; [reflexivity|]. exfalso. pose proof (xsets9_fuel a (y :: l) m Hr) as Hq. rewrite H in Hq. cbn in Hq. lia. }
          subst xs. cbn [goods9 expected_sets9 final_map9]. exists nf. now rewrite app_nil_r.
  Qed.

  Theorem nf9_skip_undecodable (a : bytes) (m : amap) hvals xs :
    fits hl hvals -> field_get "Version" (named9 hl hvals) = 9 -> xsets_ok9 a m xs ->
    exists nf,
      nf9_decode am_ops im hl m a (enc_layout hl hvals ++ flat_map enc_xset9 xs)
      = Ok (final_map9 a m (goods9 xs),
            DMsg {| n9_agent := a; n9_header := named9 hl hvals; n9_sets := expected_sets9 im (goods9 xs) |} nf)
      /\ nf9_decode am_ops im hl m a (enc_layout hl hvals ++ flat_map enc_set9 (goods9 xs))
      = Ok (final_map9 a m (goods9 xs),
            DMsg {| n9_agent := a; n9_header := named9 hl hvals; n9_sets := expected_sets9 im (goods9 xs) |} 0).
  Proof.
    intros Hfit Hv Hok.
    assert (Hfuel : (length xs < Nf9.fuel_of {| data := flat_map enc_xset9 xs; count := 0 + layout_size hl |})%nat).
    { unfold Nf9.fuel_of; cbn [data]. pose proof (xsets9_fuel a xs m Hok). lia. }
    destruct (xsets_loop9 a xs m (0 + layout_size hl) [] 0 _ Hok Hfuel) as [nf E].
    exists nf. split; [|apply nf9_fidelity; [exact Hfit|exact Hv|apply xsets_ok9_goods; exact Hok]].
    unfold nf9_decode, new_reader. rewrite (read_layout_app hl hvals _ 0 Hfit). cbn [catch bind].
    fold (named9 hl hvals). rewrite Hv. cbn [Z.eqb Pos.eqb negb]. rewrite E. cbn [bind fst snd app]. reflexivity.
  Qed.
End Skip9.
