(* The parser of Spec/JsonParser.v accepts every text of the grammar and returns the value the grammar relates it to;
   hence the grammar is unambiguous. *)
From VF Require Import Base.Prelude Base.Utf8 Spec.JsonGrammar Spec.JsonParser Proofs.ReaderProofs Proofs.LayoutProofs Proofs.JsonProofs.

(* ---------- UTF-8: Go's decoder inverts the encoder on scalar values ---------- *)
Lemma u3_facts r : 2048 <= r < 65536 ->
  0 <= r / 4096 <= 15 /\ (r / 4096 = 0 -> 32 <= (r / 64) mod 64) /\ (r / 4096 = 13 -> r < 55296 -> (r / 64) mod 64 <= 31) /\
  0 <= (r / 64) mod 64 <= 63 /\ 0 <= r mod 64 <= 63 /\ r / 4096 * 4096 + (r / 64) mod 64 * 64 + r mod 64 = r.
Proof. intros H. repeat split; lia. Qed.
Lemma u4_facts r : 65536 <= r < 1114112 ->
  0 <= r / 262144 <= 4 /\ (r / 262144 = 0 -> 16 <= (r / 4096) mod 64) /\ (r / 262144 = 4 -> (r / 4096) mod 64 <= 15) /\
  0 <= (r / 4096) mod 64 <= 63 /\ 0 <= (r / 64) mod 64 <= 63 /\ 0 <= r mod 64 <= 63 /\
  r / 262144 * 262144 + (r / 4096) mod 64 * 4096 + (r / 64) mod 64 * 64 + r mod 64 = r.
Proof. intros H. repeat split; lia. Qed.

Lemma decode_utf8_enc r t : is_scalar r = true -> decode_rune (utf8_enc r ++ t) = (r, length (utf8_enc r)).
Proof.
  intros Hs. unfold is_scalar in Hs. unfold utf8_enc.
  destruct (r <? 0) eqn:E0; [lia|]. destruct (r <? 128) eqn:E1.
  { cbn [app decode_rune length]. rewrite E1. reflexivity. }
  destruct (r <? 2048) eqn:E2.
  { cbn [app length]. unfold decode_rune.
    replace (192 + r / 64 <? 128) with false by lia. replace ((192 + r / 64 <? 194) || (244 <? 192 + r / 64)) with false by lia.
    replace (192 + r / 64 =? 224) with false by lia. replace (192 + r / 64 =? 240) with false by lia.
    replace (192 + r / 64 =? 237) with false by lia. replace (192 + r / 64 =? 244) with false by lia.
    replace (negb ((128 <=? 128 + r mod 64) && (128 + r mod 64 <=? 191))) with false by lia.
    replace (192 + r / 64 <? 224) with true by lia. f_equal. lia. }
  destruct ((55296 <=? r) && (r <=? 57343)) eqn:E3; [lia|].
  destruct (r <? 65536) eqn:E4.
  { assert (Hr : 2048 <= r < 65536) by lia. assert (Hns : r < 55296 \/ 57343 < r) by lia.
    destruct (u3_facts r Hr) as (Hq & Hlo & Hhi & Hb1 & Hb2 & Hsum). clear Hs E0 E1 E2 E3 E4.
    generalize dependent (r / 4096). intros q Hq Hlo Hhi Hsum. generalize dependent ((r / 64) mod 64). intros b1 Hlo Hhi Hb1 Hsum.
    generalize dependent (r mod 64). intros b2 Hb2 Hsum.
    cbn [app length]. unfold decode_rune, is_cont.
    replace (224 + q <? 128) with false by lia. replace ((224 + q <? 194) || (244 <? 224 + q)) with false by lia.
    replace (224 + q =? 240) with false by lia. replace (224 + q =? 244) with false by lia.
    replace (224 + q <? 224) with false by lia. replace (224 + q <? 240) with true by lia.
    replace (negb ((128 <=? 128 + b2) && (128 + b2 <=? 191))) with false by lia.
    destruct (224 + q =? 224) eqn:Ea; destruct (224 + q =? 237) eqn:Eb;
      (replace (negb (_ && _)) with false by lia); f_equal; lia. }
  destruct (r <? 1114112) eqn:E5; [|lia].
  assert (Hr : 65536 <= r < 1114112) by lia.
  destruct (u4_facts r Hr) as (Hq & Hlo & Hhi & Hb1 & Hb2 & Hb3 & Hsum). clear Hs E0 E1 E2 E3 E4 E5.
  generalize dependent (r / 262144). intros q Hq Hlo Hhi Hsum. generalize dependent ((r / 4096) mod 64). intros b1 Hlo Hhi Hb1 Hsum.
  generalize dependent ((r / 64) mod 64). intros b2 Hb2 Hsum. generalize dependent (r mod 64). intros b3 Hb3 Hsum.
  cbn [app length]. unfold decode_rune, is_cont.
  replace (240 + q <? 128) with false by lia. replace ((240 + q <? 194) || (244 <? 240 + q)) with false by lia.
  replace (240 + q =? 224) with false by lia. replace (240 + q =? 237) with false by lia.
  replace (240 + q <? 224) with false by lia. replace (240 + q <? 240) with false by lia.
  replace (negb ((128 <=? 128 + b2) && (128 + b2 <=? 191))) with false by lia.
  replace (negb ((128 <=? 128 + b3) && (128 + b3 <=? 191))) with false by lia.
  destruct (240 + q =? 240) eqn:Ea; destruct (240 + q =? 244) eqn:Eb;
    (replace (negb (_ && _)) with false by lia); f_equal; lia.
Qed.

Lemma utf8_enc_head r : is_scalar r = true -> 32 <= r -> r <> 34 -> r <> 92 ->
  exists c tl, utf8_enc r = c :: tl /\ c <> 34 /\ c <> 92.
Proof.
  intros Hs H32 H34 H92. unfold is_scalar in Hs. unfold utf8_enc.
  destruct (r <? 0) eqn:E0; [lia|]. destruct (r <? 128) eqn:E1; [do 2 eexists; split; [reflexivity|lia]|].
  destruct (r <? 2048) eqn:E2; [do 2 eexists; split; [reflexivity|lia]|].
  destruct ((55296 <=? r) && (r <=? 57343)) eqn:E3; [do 2 eexists; split; [reflexivity|lia]|].
  destruct (r <? 65536) eqn:E4; [do 2 eexists; split; [reflexivity|lia]|].
  destruct (r <? 1114112) eqn:E5; do 2 eexists; (split; [reflexivity|lia]).
Qed.

Lemma list_eqb_refl l : list_eqb l l = true.
Proof. induction l as [|x l IH]; [reflexivity|]. cbn. now rewrite Z.eqb_refl, IH. Qed.

(* ---------- numbers ---------- *)
Definition delim (rest : bytes) : Prop := match rest with [] => True | c :: _ => digitb c = false end.

Lemma digitb_spec c : digitb c = true <-> is_digit c.
Proof. unfold digitb, is_digit. lia. Qed.

Lemma take_digits_app d rest : Forall is_digit d -> delim rest -> take_digits (d ++ rest) = (d, rest).
Proof.
  induction 1 as [|c d Hc _ IH]; intros Hr; cbn [app].
  - destruct rest as [|c r]; [reflexivity|]. cbn in Hr |- *. now rewrite Hr.
  - cbn [take_digits]. rewrite (proj2 (digitb_spec c) Hc), (IH Hr). reflexivity.
Qed.

Lemma parse_nat_complete s z rest : Gnat s z -> delim rest -> parse_nat (s ++ rest) = Some (z, rest).
Proof.
  intros [|c t Hc Ht] Hr; cbn [app parse_nat]; [reflexivity|].
  replace (c =? 48) with false by lia. replace ((49 <=? c) && (c <=? 57)) with true by lia.
  rewrite (take_digits_app t rest Ht Hr). reflexivity.
Qed.

Lemma gnat_head s z : Gnat s z -> exists c t, s = c :: t /\ 48 <= c <= 57.
Proof. intros [|c t Hc Ht]; do 2 eexists; (split; [reflexivity|lia]). Qed.

Lemma parse_int_complete s z rest : Gint s z -> delim rest -> parse_int (s ++ rest) = Some (z, rest).
Proof.
  intros [s' v Hn|s' v Hn] Hr.
  - destruct (gnat_head _ _ Hn) as (c & t & -> & Hc). cbn [app parse_int]. replace (c =? 45) with false by lia.
    exact (parse_nat_complete (c :: t) v rest Hn Hr).
  - cbn [app parse_int Z.eqb Pos.eqb]. rewrite (parse_nat_complete s' v rest Hn Hr). reflexivity.
Qed.

Lemma gint_head s z : Gint s z -> exists c t, s = c :: t /\ (c = 45 \/ 48 <= c <= 57).
Proof. intros [s' v Hn|s' v Hn]; [destruct (gnat_head _ _ Hn) as (c & t & -> & Hc); do 2 eexists; split; [reflexivity|lia]|do 2 eexists; split; [reflexivity|lia]]. Qed.

(* ---------- strings ---------- *)
Lemma parse_chars_complete t cps : Gchars t cps -> forall fuel rest, (length t < fuel)%nat ->
  parse_chars fuel (t ++ 34 :: rest) = Some (cps, rest).
Proof.
  induction 1 as [|r t cs Hs H32 H34 H92 _ IH|r t cs Hr _ IH|h1 h2 h3 h4 v1 v2 v3 v4 t cs E1 E2 E3 E4 Hs _ IH]; intros fuel rest Hf.
  - destruct fuel as [|k]; [cbn in Hf; lia|]. reflexivity.
  - destruct fuel as [|k]; [lia|].
    destruct (utf8_enc_head r Hs H32 H34 H92) as (c & tl & He & Hc1 & Hc2).
    assert (Hlen : (1 <= length (utf8_enc r))%nat) by (rewrite He; cbn; lia).
    rewrite app_length in Hf. rewrite <- app_assoc.
    assert (Hd := decode_utf8_enc r (t ++ 34 :: rest) Hs).
    remember (utf8_enc r ++ t ++ 34 :: rest) as S0 eqn:ES.
    assert (Hhead : exists tl', S0 = c :: tl') by (rewrite ES, He; eexists; reflexivity). destruct Hhead as [tl' Etl].
    rewrite Etl. cbn [parse_chars]. replace (c =? 34) with false by lia. replace (c =? 92) with false by lia.
    rewrite <- Etl, Hd. replace (32 <=? r) with true by lia. rewrite Hs. cbn [andb].
    rewrite ES, firstn_app_exact, list_eqb_refl, skipn_app_exact, (IH k rest ltac:(lia)). reflexivity.
  - destruct fuel as [|k]; [cbn in Hf; lia|]. cbn [app parse_chars Z.eqb Pos.eqb].
    replace ((r =? 34) || (r =? 92)) with true by lia. rewrite (IH k rest ltac:(cbn in Hf; lia)). reflexivity.
  - destruct fuel as [|k]; [cbn in Hf; lia|]. cbn [app parse_chars Z.eqb Pos.eqb orb]. rewrite E1, E2, E3, E4, Hs.
    rewrite (IH k rest ltac:(cbn in Hf; lia)). reflexivity.
Qed.

Lemma gstring_parse s cps rest : Gstring s cps -> exists t, s = 34 :: t ++ [34] /\
  parse_chars (S (length (t ++ 34 :: rest))) (t ++ 34 :: rest) = Some (cps, rest).
Proof.
  intros (t & -> & Hc). exists t. split; [reflexivity|]. apply parse_chars_complete; [exact Hc|]. rewrite app_length. cbn. lia.
Qed.

(* ---------- float tokens ---------- *)
Lemma scan_until_app c a rest : Forall (fun x => x <> c) a -> scan_until c (a ++ c :: rest) = Some (a, rest).
Proof.
  induction 1 as [|x a Hx _ IH]; cbn [app scan_until]; [now rewrite Z.eqb_refl|].
  replace (x =? c) with false by lia. now rewrite IH.
Qed.

Lemma show_Z_chars z : Forall (fun x => x <> 58 /\ x <> 64) (show_Z z).
Proof.
  assert (H : forall d, Forall (fun x => x <> 58 /\ x <> 64) (uint_chars d)).
  { intros d. pose proof (digits_uint d) as Hd. eapply Forall_impl; [|exact Hd]. unfold is_digit. intros; lia. }
  destruct z; cbn [show_Z]; unfold show_N; repeat constructor; try apply H; lia.
Qed.

Lemma parse_float_complete t rest : float_token t -> exists r, t = 64 :: r /\ parse_float (r ++ rest) = Some (VFloatTok t, rest).
Proof.
  intros (w & b & ->). cbn [s2l app]. change (Z.of_N (N_of_ascii "@")) with 64. change (Z.of_N (N_of_ascii "F")) with 70. change (Z.of_N (N_of_ascii ":")) with 58.
  eexists. split; [reflexivity|]. cbn [app parse_float Z.eqb Pos.eqb]. rewrite <- !app_assoc. cbn [app].
  rewrite (scan_until_app 58 (show_Z w)) by (eapply Forall_impl; [|apply show_Z_chars]; intros x [Hx1 Hx2]; exact Hx1).
  cbn beta iota. rewrite <- app_assoc. cbn [app].
  rewrite (scan_until_app 64 (show_Z b)) by (eapply Forall_impl; [|apply show_Z_chars]; intros x [Hx1 Hx2]; exact Hx2).
  reflexivity.
Qed.

(* ---------- values ---------- *)
(* every JSON text starts with a character that tells its kind *)
Lemma gjson_head t v : Gjson t v -> exists c tl, t = c :: tl /\
  (c = 110 \/ c = 116 \/ c = 102 \/ c = 34 \/ c = 64 \/ c = 91 \/ c = 123 \/ c = 45 \/ 48 <= c <= 57).
Proof.
  intros H. destruct H as [| | |s z Hi|t' Hf|s cps Hs|ss vs Hss|ms kvs Hms].
  - exists 110, [117; 108; 108]. split; [reflexivity|lia].
  - exists 116, [114; 117; 101]. split; [reflexivity|lia].
  - exists 102, [97; 108; 115; 101]. split; [reflexivity|lia].
  - destruct (gint_head _ _ Hi) as (c & tl & -> & Hc). do 2 eexists; split; [reflexivity|lia].
  - destruct Hf as (w & b & ->). do 2 eexists; split; [reflexivity|]. change (Z.of_N (N_of_ascii "@")) with 64. lia.
  - destruct Hs as (t & -> & _). do 2 eexists; split; [reflexivity|lia].
  - do 2 eexists; split; [reflexivity|lia].
  - do 2 eexists; split; [reflexivity|lia].
Qed.

Lemma delim_44 r : delim (44 :: r). Proof. reflexivity. Qed.
Lemma delim_93 r : delim (93 :: r). Proof. reflexivity. Qed.
Lemma delim_125 r : delim (125 :: r). Proof. reflexivity. Qed.

Lemma len_intercalate_ge (x : bytes) (xs : list bytes) : (length x <= length (intercalate [44%Z] (x :: xs)))%nat.
Proof. destruct xs; cbn [intercalate]; rewrite ?app_length; lia. Qed.

Section Complete.
  Variable k : nat.
  (* the induction hypothesis: values whose text is shorter than k *)
  Hypothesis IH : forall t v rest, Gjson t v -> (length t < k)%nat -> delim rest -> parse_value k (t ++ rest) = Some (v, rest).

  Lemma parse_elems_complete : forall ss vs, Forall2 Gjson ss vs -> ss <> [] ->
    forall n acc rest, (length ss <= n)%nat -> (length (intercalate [44%Z] ss) < k)%nat ->
    parse_elems (parse_value k) n (intercalate [44%Z] ss ++ 93 :: rest) acc = Some (VArray (acc ++ vs), rest).
  Proof.
    induction 1 as [|x v xs vs Hx Hxs IHl]; intros Hne n acc rest Hn Hk; [congruence|].
    destruct n as [|n]; [cbn in Hn; lia|]. cbn [parse_elems].
    destruct xs as [|y ys].
    - inversion Hxs; subst. cbn [intercalate] in *. rewrite (IH x v (93 :: rest) Hx Hk (delim_93 rest)). cbn [Z.eqb Pos.eqb]. reflexivity.
    - change (intercalate [44%Z] (x :: y :: ys)) with (x ++ [44%Z] ++ intercalate [44%Z] (y :: ys)) in *.
      rewrite !app_length in Hk. cbn [length] in Hk. rewrite <- !app_assoc. cbn [app].
      rewrite (IH x v (44 :: intercalate [44%Z] (y :: ys) ++ 93 :: rest) Hx ltac:(lia) (delim_44 _)). cbn [Z.eqb Pos.eqb].
      rewrite (IHl ltac:(discriminate) n (acc ++ [v]) rest ltac:(cbn in Hn |- *; lia) ltac:(lia)). rewrite <- app_assoc. reflexivity.
  Qed.

  Definition Gmember (m : bytes) (kv : list Z * jval) : Prop :=
    exists ks vs, m = ks ++ [58] ++ vs /\ Gstring ks (fst kv) /\ Gjson vs (snd kv).

  Lemma parse_members_complete : forall ms kvs, Forall2 Gmember ms kvs -> ms <> [] ->
    forall n acc rest, (length ms <= n)%nat -> (length (intercalate [44%Z] ms) < k)%nat ->
    parse_members (parse_value k) n (intercalate [44%Z] ms ++ 125 :: rest) acc = Some (VObject (acc ++ kvs), rest).
  Proof.
    induction 1 as [|m kv ms kvs Hm Hms IHl]; intros Hne n acc rest Hn Hk; [congruence|].
    destruct n as [|n]; [cbn in Hn; lia|]. destruct Hm as (ks0 & vs & -> & Hks & Hv). destruct kv as [key val]. cbn [fst snd] in *.
    assert (Hstep : forall more, delim more -> (length vs < k)%nat ->
              exists X, ks0 ++ 58 :: vs ++ more = 34 :: X /\
                parse_chars (S (length X)) X = Some (key, 58 :: vs ++ more) /\ parse_value k (vs ++ more) = Some (val, more)).
    { intros more Hd Hl. destruct Hks as (kt & -> & Hkc). exists (kt ++ 34 :: 58 :: vs ++ more). split; [cbn [app]; rewrite <- !app_assoc; reflexivity|]. split.
      - apply parse_chars_complete; [exact Hkc|]. rewrite app_length. cbn. lia.
      - apply IH; assumption. }
    cbn [parse_members].
    destruct ms as [|m2 ms2].
    - inversion Hms; subst. change (intercalate [44%Z] [ks0 ++ [58] ++ vs]) with (ks0 ++ [58] ++ vs) in *. rewrite !app_length in Hk. cbn [length] in Hk.
      destruct (Hstep (125 :: rest) (delim_125 rest) ltac:(lia)) as (X & EX & Hpc & Hpv).
      rewrite <- !app_assoc. cbn [app]. rewrite EX. cbn [Z.eqb Pos.eqb].
      rewrite Hpc. cbn [Z.eqb Pos.eqb]. rewrite Hpv. cbn [Z.eqb Pos.eqb]. reflexivity.
    - change (intercalate [44%Z] ((ks0 ++ [58] ++ vs) :: m2 :: ms2)) with ((ks0 ++ [58] ++ vs) ++ [44%Z] ++ intercalate [44%Z] (m2 :: ms2)) in *.
      rewrite !app_length in Hk. cbn [length] in Hk.
      destruct (Hstep (44 :: intercalate [44%Z] (m2 :: ms2) ++ 125 :: rest) (delim_44 _) ltac:(lia)) as (X & EX & Hpc & Hpv).
      rewrite <- !app_assoc. cbn [app]. rewrite EX. cbn [Z.eqb Pos.eqb].
      rewrite Hpc. cbn [Z.eqb Pos.eqb]. rewrite Hpv. cbn [Z.eqb Pos.eqb].
      rewrite (IHl ltac:(discriminate) n (acc ++ [(key, val)]) rest ltac:(cbn in Hn |- *; lia) ltac:(lia)).
      rewrite <- app_assoc. reflexivity.
  Qed.
End Complete.

Lemma forall2_length {A B} (R : A -> B -> Prop) l1 l2 : Forall2 R l1 l2 -> length l1 = length l2.
Proof. induction 1; cbn; congruence. Qed.

Lemma intercalate_count (ss : list bytes) : Forall (fun x => x <> []) ss -> (length ss <= S (length (intercalate [44%Z] ss)))%nat.
Proof.
  induction 1 as [|x ss Hx _ IH]; [cbn; lia|]. destruct ss as [|y ys]; [cbn; lia|].
  change (intercalate [44%Z] (x :: y :: ys)) with (x ++ [44%Z] ++ intercalate [44%Z] (y :: ys)). rewrite !app_length. cbn [length] in *.
  destruct x; [congruence|]. cbn [length]. lia.
Qed.

Theorem parse_value_complete : forall fuel t v rest, Gjson t v -> (length t < fuel)%nat -> delim rest ->
  parse_value fuel (t ++ rest) = Some (v, rest).
Proof.
  induction fuel as [|k IH]; intros t v rest H Hf Hd; [lia|].
  destruct H as [| | |s z Hi|t' Hfl|s cps Hs|ss vs Hss|ms kvs Hms].
  - reflexivity.
  - reflexivity.
  - reflexivity.
  - destruct (gint_head _ _ Hi) as (c & tl & E & Hc). pose proof (parse_int_complete s z rest Hi Hd) as Hp. rewrite E in *.
    cbn [app parse_value]. cbn [app] in Hp.
    replace (c =? 110) with false by lia. replace (c =? 116) with false by lia. replace (c =? 102) with false by lia.
    replace (c =? 34) with false by lia. replace (c =? 64) with false by lia. replace (c =? 91) with false by lia. replace (c =? 123) with false by lia.
    rewrite Hp. reflexivity.
  - destruct (parse_float_complete t' rest Hfl) as (r & -> & Hp). cbn [app parse_value Z.eqb Pos.eqb]. exact Hp.
  - destruct (gstring_parse s cps rest Hs) as (tt & -> & Hp). cbn [app parse_value Z.eqb Pos.eqb]. rewrite <- app_assoc. cbn [app]. rewrite Hp. reflexivity.
  - (* arrays *)
    destruct ss as [|x xs].
    + inversion Hss; subst. reflexivity.
    + assert (Hne : Forall (fun e : bytes => e <> []) (x :: xs)).
      { clear - Hss. induction Hss as [|a b l1 l2 Hab _ IHl]; constructor; [|exact IHl]. destruct (gjson_head _ _ Hab) as (c & tl & -> & _). discriminate. }
      assert (Hx : exists v0 vs0, vs = v0 :: vs0 /\ Gjson x v0) by (inversion Hss; subst; eauto). destruct Hx as (v0 & vs0 & _ & Hx).
      destruct (gjson_head _ _ Hx) as (c1 & tl1 & Ex & Hc1).
      rewrite <- !app_assoc. cbn [app parse_value Z.eqb Pos.eqb]. rewrite !app_length in Hf. cbn [length] in Hf.
      set (body := intercalate [44%Z] (x :: xs)) in *.
      assert (Hb : exists tlb, body = c1 :: tlb).
      { unfold body. destruct xs; cbn [intercalate]; rewrite Ex; cbn [app]; eexists; reflexivity. }
      destruct Hb as [tlb Eb].
      assert (E2 : body ++ 93 :: rest = c1 :: (tlb ++ 93 :: rest)) by (rewrite Eb; reflexivity).
      rewrite E2. cbn iota beta. replace (c1 =? 93) with false by lia. rewrite <- E2.
      rewrite (parse_elems_complete k (fun t0 v1 r0 H0 Hl Hd0 => IH t0 v1 r0 H0 Hl Hd0) (x :: xs) vs Hss ltac:(discriminate) _ [] rest).
      * reflexivity.
      * pose proof (intercalate_count (x :: xs) Hne). fold body in H. rewrite app_length. cbn [length] in H |- *. lia.
      * fold body. lia.
  - (* objects *)
    destruct ms as [|m ms'].
    + inversion Hms; subst. reflexivity.
    + assert (Hne : Forall (fun e : bytes => e <> []) (m :: ms')).
      { clear - Hms. induction Hms as [|a b l1 l2 Hab _ IHl]; constructor; [|exact IHl]. destruct Hab as (ks & vs & -> & (kt & -> & _) & _). discriminate. }
      assert (Hm : exists kt tl, m = 34 :: kt ++ tl).
      { inversion Hms as [|a b l1 l2 Hab]; subst. destruct Hab as (ks & vs & -> & (kt & -> & _) & _). exists kt, ([34] ++ [58] ++ vs). cbn [app]. rewrite <- !app_assoc. reflexivity. }
      destruct Hm as (kt & tlm & Em).
      rewrite <- !app_assoc. cbn [app parse_value Z.eqb Pos.eqb]. rewrite !app_length in Hf. cbn [length] in Hf.
      set (body := intercalate [44%Z] (m :: ms')) in *.
      assert (Hb : exists tlb, body = 34 :: tlb).
      { unfold body. destruct ms'; cbn [intercalate]; rewrite Em; cbn [app]; eexists; reflexivity. }
      destruct Hb as [tlb Eb].
      assert (E2 : body ++ 125 :: rest = 34 :: (tlb ++ 125 :: rest)) by (rewrite Eb; reflexivity).
      rewrite E2. cbn iota beta. cbn [Z.eqb Pos.eqb]. rewrite <- E2.
      rewrite (parse_members_complete k (fun t0 v1 r0 H0 Hl Hd0 => IH t0 v1 r0 H0 Hl Hd0) (m :: ms') kvs Hms ltac:(discriminate) _ [] rest).
      * reflexivity.
      * pose proof (intercalate_count (m :: ms') Hne). fold body in H. rewrite app_length. cbn [length] in H |- *. lia.
      * fold body. lia.
Qed.

(* a whole document *)
Theorem parse_json_complete t v : Gjson t v -> parse_json t = Some v.
Proof.
  intros H. unfold parse_json. pose proof (parse_value_complete (S (length t)) t v [] H ltac:(lia) I) as Hp.
  rewrite app_nil_r in Hp. rewrite Hp. reflexivity.
Qed.

(* the grammar is unambiguous: a text denotes at most one value *)
Theorem gjson_unambiguous t v v' : Gjson t v -> Gjson t v' -> v = v'.
Proof. intros H H'. apply parse_json_complete in H, H'. congruence. Qed.
