(* C07 above the structures: flow records, flow samples, counter samples, the sample loop and the whole datagram
   decode to exactly the wire values (Spec/SflowDatagram.v), unsupported records and samples being skipped by their
   declared length; stated over the unread remainder of the reader (`view`), i.e. whatever precedes and follows. *)
From VF Require Import Base.Prelude Base.IPText Base.Json Model.Layout Model.JsonPieces Model.Packet Model.Sflow Spec.SflowWire Spec.SflowDatagram
  Proofs.ReaderProofs Proofs.LayoutProofs Proofs.SflowLayouts Proofs.SflowFidelity Proofs.SflowView.

Lemma be_enc4 v : 0 <= v < 2 ^ 32 -> be (enc 4 v) = v.
Proof. intros H. apply be_enc. change (256 ^ Z.of_nat 4) with (2 ^ 32). exact H. Qed.

Lemma xdr_pad_range n : 0 <= xdr_pad n < 4.
Proof. unfold xdr_pad. lia. Qed.
Lemma len_repeat0 n : 0 <= n -> len (repeat 0 (Z.to_nat n)) = n.
Proof. intros H. unfold len. rewrite repeat_length. lia. Qed.

Notation frecs := (flow_records ext_switch (members ext_switch)).

(* read a 4-octet big-endian word off the front of the view *)
Ltac range_tac := first [assumption | lia | match goal with b : bool |- _ => destruct b; lia end].
Ltac read4 V v r' V' :=
  let E := fresh "E" in
  destruct (sread_u_view 4 _ (enc 4 v) _ V ltac:(rewrite len_enc; reflexivity) ltac:(lia)) as (r' & E & V');
  rewrite E; cbn [bind fst snd]; rewrite ?(be_enc4 v) by range_tac; clear E.

Lemma sampled_header_fidelity r p fl st hdr pk t :
  0 <= p < 2 ^ 32 -> 0 <= fl < 2 ^ 32 -> 0 <= st < 2 ^ 32 -> 0 < len hdr <= 1500 -> packet_decode hdr p = Ok pk ->
  view r (enc 4 p ++ enc 4 fl ++ enc 4 st ++ enc 4 (len hdr) ++ (hdr ++ repeat 0 (Z.to_nat (xdr_pad (len hdr)))) ++ t) ->
  exists r', decode_sampled_header r = Ok (pk, r') /\ view r' t.
Proof.
  intros Hp Hfl Hst Hh Hpk V. unfold decode_sampled_header. pose proof (xdr_pad_range (len hdr)) as Hpad.
  read4 V p r1 V1. read4 V1 fl r2 V2. read4 V2 st r3 V3. read4 V3 (len hdr) r4 V4.
  replace (1500 <? len hdr) with false by lia. fold (xdr_pad (len hdr)).
  destruct (sread_buf_view (len hdr + xdr_pad (len hdr)) r4 (hdr ++ repeat 0 (Z.to_nat (xdr_pad (len hdr)))) t V4
              ltac:(rewrite len_app, len_repeat0 by lia; reflexivity) ltac:(lia)) as (r5 & E5 & V5).
  rewrite E5. cbn [bind fst snd].
  replace (Z.to_nat (len hdr)) with (length hdr) by (unfold len; lia). rewrite firstn_app_exact, Hpk. cbn [bind].
  exists r5. split; [reflexivity|exact V5].
Qed.

Lemma ext_switch_struct vals : fits_s ext_switch vals ->
  struct_of (members ext_switch) (named_s ext_switch vals) = named_s ext_switch vals.
Proof.
  intros Hf. rewrite <- (members_named ext_switch vals (fits_s_length ext_switch vals Hf)).
  apply struct_of_members. rewrite (members_named ext_switch vals (fits_s_length ext_switch vals Hf)).
  apply nodupb_sound. reflexivity.
Qed.

Theorem flow_records_fidelity : forall recs r t m fuel,
  view r (flat_map enc_frec recs ++ t) -> Forall frec_wf recs -> (length recs < fuel)%nat ->
  exists r', frecs fuel (len recs) r m = Ok (fold_left (fun acc f => frec_effect f acc) recs m, r') /\ view r' t.
Proof.
  induction recs as [|f recs IH]; intros r t m fuel V Hwf Hf.
  - exists r. split; [destruct fuel; reflexivity|exact V].
  - destruct fuel as [|k]; [cbn in Hf; lia|]. apply Forall_cons_iff in Hwf as [Hc Hwf].
    cbn [flow_records]. rewrite len_cons. pose proof (len_nonneg recs). destruct (1 + len recs <=? 0) eqn:E; [lia|].
    replace (1 + len recs - 1) with (len recs) by lia. cbn [flat_map fold_left] in *. rewrite <- app_assoc in V.
    destruct f as [p fl st hdr pk|vals|v6 nh sm dm|fmt body]; cbn [enc_frec frec_wf frec_effect] in *; rewrite <- ?app_assoc in V.
    + destruct Hc as (Hp & Hfl & Hst & Hh & Hpk). pose proof (xdr_pad_range (len hdr)).
      read4 V 1 r1 V1. read4 V1 (16 + len hdr + xdr_pad (len hdr)) r2 V2. cbn [Z.eqb Pos.eqb].
      assert (V2' : view r2 (enc 4 p ++ enc 4 fl ++ enc 4 st ++ enc 4 (len hdr) ++ (hdr ++ repeat 0 (Z.to_nat (xdr_pad (len hdr)))) ++ flat_map enc_frec recs ++ t)).
      { clear - V2. rewrite <- ?app_assoc in V2. rewrite <- ?app_assoc. exact V2. }
      destruct (sampled_header_fidelity r2 p fl st hdr pk _ Hp Hfl Hst Hh Hpk V2') as (r3 & E3 & V3). rewrite E3. cbn [bind fst snd].
      apply IH; [exact V3|exact Hwf|cbn in Hf; lia].
    + read4 V 1001 r1 V1. read4 V1 16 r2 V2. cbn [Z.eqb Pos.eqb].
      destruct (sread_layout_view ext_switch vals r2 _ V2 Hc) as (r3 & E3 & V3). rewrite E3. cbn [bind fst snd].
      rewrite (ext_switch_struct vals Hc). apply IH; [exact V3|exact Hwf|cbn in Hf; lia].
    + destruct Hc as (Hnh & Hsm & Hdm).
      read4 V 1002 r1 V1. read4 V1 (if v6 then 28 else 16) r2 V2. cbn [Z.eqb Pos.eqb].
      unfold decode_ext_router. replace (negb (((if v6 then 28 else 16) =? 16) || ((if v6 then 28 else 16) =? 28))) with false by (destruct v6; reflexivity).
      rewrite app_assoc in V2.
      destruct (sread_full_view ((if v6 then 28 else 16) - 8) r2 (enc 4 (if v6 then 2 else 1) ++ nh) _ V2
                  ltac:(rewrite len_app, len_enc, Hnh; destruct v6; reflexivity) ltac:(destruct v6; lia)) as (r3 & E3 & V3).
      rewrite E3. cbn [bind fst snd]. read4 V3 sm r4 V4. read4 V4 dm r5 V5.
      change (skipn 4 (enc 4 (if v6 then 2 else 1) ++ nh)) with (skipn (length (enc 4 (if v6 then 2 else 1))) (enc 4 (if v6 then 2 else 1) ++ nh)).
      rewrite skipn_app_exact. apply IH; [exact V5|exact Hwf|cbn in Hf; lia].
    + destruct Hc as (Hfr & H1 & H2 & H3 & Hb). pose proof (len_nonneg body).
      read4 V fmt r1 V1. read4 V1 (len body) r2 V2.
      replace (fmt =? 1) with false by lia. replace (fmt =? 1001) with false by lia. replace (fmt =? 1002) with false by lia.
      apply IH; [apply (sseek_view (len body) r2 body _ V2 eq_refl)|exact Hwf|cbn in Hf; lia].
Qed.

(* every record and every sample occupies at least its 8-octet tag/length pair: enough fuel *)
Lemma enc_frec_len f : 8 <= len (enc_frec f).
Proof. destruct f; cbn [enc_frec]; rewrite !len_app, !len_enc; repeat match goal with |- context [len ?x] => lazymatch x with enc _ _ => fail | _ => pose proof (len_nonneg x); generalize dependent (len x); intros end end; lia. Qed.
Lemma frecs_fuel recs : (length recs <= length (flat_map enc_frec recs))%nat.
Proof. induction recs as [|f recs IH]; [cbn; lia|]. cbn [flat_map length]. rewrite app_length. pose proof (enc_frec_len f). unfold len in *. lia. Qed.
Lemma enc_crec_len c : 8 <= len (enc_crec c).
Proof. destruct c; cbn [enc_crec]; rewrite !len_app, !len_enc; [pose proof (len_nonneg (enc_layout L vals))|pose proof (len_nonneg body)]; lia. Qed.
Lemma crecs_fuel recs : (length recs <= length (flat_map enc_crec recs))%nat.
Proof. induction recs as [|f recs IH]; [cbn; lia|]. cbn [flat_map length]. rewrite app_length. pose proof (enc_crec_len f). unfold len in *. lia. Qed.

Lemma view_length r t : view r t -> (length t <= length (sd r))%nat.
Proof. intros (pre & E & _). rewrite E, app_length. lia. Qed.

Lemma header_struct L vs : nodupb (members L) = true -> fits_s L vs -> struct_of (members L) (named_s L vs) = named_s L vs.
Proof.
  intros Hn Hf. rewrite <- (members_named L vs (fits_s_length L vs Hf)).
  apply struct_of_members. rewrite (members_named L vs (fits_s_length L vs Hf)). apply nodupb_sound, Hn.
Qed.

Notation dflow := (decode_flow_sample flow_sample ext_switch (members flow_sample) (members ext_switch)).
Notation dcounter := (decode_counter_sample counter_sample generic ethernet tokenring vg vlan processor
                        (members counter_sample) (members generic) (members ethernet) (members tokenring) (members vg) (members vlan) (members processor)).

Theorem flow_sample_fidelity r vs recs t :
  view r (enc_layout flow_sample vs ++ flat_map enc_frec recs ++ t) ->
  fits_s flow_sample vs -> field_get "RecordsNo" (named_s flow_sample vs) = len recs -> Forall frec_wf recs ->
  exists r', dflow r = Ok (flow_sample_json vs recs, r') /\ view r' t.
Proof.
  intros V Hf Hn Hw. unfold decode_flow_sample.
  destruct (sread_layout_view flow_sample vs r _ V Hf) as (r1 & E1 & V1). rewrite E1. cbn [bind fst snd].
  rewrite (header_struct flow_sample vs eq_refl Hf), Hn.
  assert (Hfuel : (length recs < sfuel r)%nat).
  { unfold sfuel. pose proof (view_length _ _ V) as Hl. rewrite !app_length in Hl. pose proof (frecs_fuel recs). lia. }
  destruct (flow_records_fidelity recs r1 t [] (sfuel r) V1 Hw Hfuel) as (r2 & E2 & V2). rewrite E2. cbn [bind fst snd].
  exists r2. split; [reflexivity|exact V2].
Qed.

Theorem counter_sample_fidelity r vs recs t :
  view r (enc_layout counter_sample vs ++ flat_map enc_crec recs ++ t) ->
  fits_s counter_sample vs -> field_get "RecordsNo" (named_s counter_sample vs) = len recs -> Forall crec_wf recs ->
  exists r', dcounter r = Ok (counter_sample_json vs recs, r') /\ view r' t.
Proof.
  intros V Hf Hn Hw. unfold decode_counter_sample.
  destruct (sread_layout_view counter_sample vs r _ V Hf) as (r1 & E1 & V1). rewrite E1. cbn [bind fst snd].
  rewrite (header_struct counter_sample vs eq_refl Hf), Hn.
  assert (Hfuel : (length recs < sfuel r)%nat).
  { unfold sfuel. pose proof (view_length _ _ V) as Hl. rewrite !app_length in Hl. pose proof (crecs_fuel recs). lia. }
  destruct (view_eta _ _ _ V1) as [pre ->].
  rewrite (counter_records_fidelity recs pre t [] (sfuel r) Hw Hfuel). cbn [bind fst snd].
  eexists. split; [reflexivity|]. apply view_after.
Qed.

Notation sloop := (samples_loop flow_sample counter_sample ext_switch generic ethernet tokenring vg vlan processor
                     (members flow_sample) (members counter_sample) (members ext_switch) (members generic) (members ethernet)
                     (members tokenring) (members vg) (members vlan) (members processor)).

Lemma enc_sample_len s : 8 <= len (enc_sample s).
Proof. unfold enc_sample. rewrite !len_app, !len_enc. pose proof (len_nonneg (sample_body s)). lia. Qed.
Lemma samples_fuel l : (length l <= length (flat_map enc_sample l))%nat.
Proof. induction l as [|s l IH]; [cbn; lia|]. cbn [flat_map length]. rewrite app_length. pose proof (enc_sample_len s). unfold len in *. lia. Qed.

Theorem samples_loop_fidelity : forall l r t ss cs fuel,
  view r (flat_map enc_sample l ++ t) -> Forall sample_wf l -> (length l < fuel)%nat ->
  sloop fuel [] (len l) r ss cs = Ok (SFOk (ss ++ expected_samples l) (cs ++ expected_counters l)).
Proof.
  induction l as [|s l IH]; intros r t ss cs fuel V Hw Hf.
  - destruct fuel; cbn; rewrite !app_nil_r; reflexivity.
  - destruct fuel as [|k]; [cbn in Hf; lia|]. apply Forall_cons_iff in Hw as [Hs Hw].
    cbn [samples_loop]. rewrite len_cons. pose proof (len_nonneg l). destruct (1 + len l <=? 0) eqn:E; [lia|].
    replace (1 + len l - 1) with (len l) by lia. cbn [flat_map] in V. unfold enc_sample in V at 1. rewrite <- !app_assoc in V.
    pose proof (len_nonneg (sample_body s)).
    assert (Hty : 0 <= sample_type s < 2 ^ 32) by (destruct s; cbn [sample_type sample_wf] in *; lia).
    assert (Hlen : len (sample_body s) < 2 ^ 32) by (destruct s; cbn [sample_wf] in Hs; tauto).
    destruct (sread_u_view 4 r (enc 4 (sample_type s)) _ V ltac:(rewrite len_enc; reflexivity) ltac:(lia)) as (r1 & E1 & V1).
    rewrite E1. cbn [catch bind fst snd]. rewrite (be_enc4 _ Hty).
    destruct (sread_u_view 4 r1 (enc 4 (len (sample_body s))) _ V1 ltac:(rewrite len_enc; reflexivity) ltac:(lia)) as (r2 & E2 & V2).
    rewrite E2. cbn [catch bind fst snd]. rewrite (be_enc4 (len (sample_body s))) by lia. cbn [existsb].
    destruct s as [vs recs|vs recs|ty body]; cbn [sample_type sample_body sample_wf expected_samples expected_counters] in *.
    + cbn [Z.div Z.modulo Z.eqb Pos.eqb Z.div_eucl Z.pos_div_eucl]. change ((if 1 / 4096 =? 0 then 1 mod 4096 else 1) =? 1) with true. cbn iota.
      destruct Hs as (Hfit & Hn & Hrw & _). rewrite <- app_assoc in V2.
      destruct (flow_sample_fidelity r2 vs recs _ V2 Hfit Hn Hrw) as (r3 & E3 & V3). rewrite E3. cbn [catch].
      rewrite (IH r3 t (ss ++ [flow_sample_json vs recs]) cs k V3 Hw ltac:(cbn in Hf; lia)). rewrite <- app_assoc. reflexivity.
    + change ((if 2 / 4096 =? 0 then 2 mod 4096 else 2) =? 1) with false. change ((if 2 / 4096 =? 0 then 2 mod 4096 else 2) =? 2) with true. cbn iota.
      destruct Hs as (Hfit & Hn & Hrw & _). rewrite <- app_assoc in V2.
      destruct (counter_sample_fidelity r2 vs recs _ V2 Hfit Hn Hrw) as (r3 & E3 & V3). rewrite E3. cbn [catch].
      rewrite (IH r3 t ss (cs ++ [counter_sample_json vs recs]) k V3 Hw ltac:(cbn in Hf; lia)). rewrite <- app_assoc. reflexivity.
    + destruct Hs as (_ & Hn1 & Hn2 & _).
      destruct ((if ty / 4096 =? 0 then ty mod 4096 else ty) =? 1) eqn:F1; [lia|].
      destruct ((if ty / 4096 =? 0 then ty mod 4096 else ty) =? 2) eqn:F2; [lia|].
      apply (IH _ t ss cs k (sseek_view (len body) r2 body _ V2 eq_refl) Hw). cbn in Hf; lia.
Qed.

Notation sfdec := (sf_decode flow_sample counter_sample ext_switch generic ethernet tokenring vg vlan processor
                     (members flow_sample) (members counter_sample) (members ext_switch) (members generic) (members ethernet)
                     (members tokenring) (members vg) (members vlan) (members processor)).

(* the whole datagram, no filter: the document the worker publishes is exactly the demanded one *)
Theorem sf_decode_fidelity d : dgram_wf d ->
  sfdec [] (enc_dgram d)
  = Ok (true, match expected_samples (sf_samples d), expected_counters (sf_samples d) with [], [] => None | _, _ => Some (dgram_json d) end).
Proof.
  intros (Hag & Hsub & Hseq & Hup & Hns & Hw). unfold sf_decode, enc_dgram.
  set (r0 := {| sd := _; sp := 0 |}).
  assert (V0 : view r0 (enc 4 5 ++ enc 4 (if sf_v6 d then 2 else 1) ++ sf_agent d ++ enc 4 (sf_sub d) ++ enc 4 (sf_seq d) ++ enc 4 (sf_uptime d)
                         ++ enc 4 (len (sf_samples d)) ++ flat_map enc_sample (sf_samples d) ++ [])).
  { exists []. split; [unfold r0; cbn [sd app]; rewrite !app_nil_r; reflexivity|reflexivity]. }
  pose proof (len_nonneg (sf_samples d)).
  destruct (sread_u_view 4 r0 (enc 4 5) _ V0 ltac:(rewrite len_enc; reflexivity) ltac:(lia)) as (r1 & E1 & V1).
  rewrite E1. cbn [catch bind fst snd]. rewrite (be_enc4 5) by lia. cbn [Z.eqb Pos.eqb negb].
  destruct (sread_u_view 4 r1 (enc 4 (if sf_v6 d then 2 else 1)) _ V1 ltac:(rewrite len_enc; reflexivity) ltac:(lia)) as (r2 & E2 & V2).
  rewrite E2. cbn [catch bind fst snd]. rewrite (be_enc4 (if sf_v6 d then 2 else 1)) by (destruct (sf_v6 d); lia).
  destruct (sread_buf_view (if (if sf_v6 d then 2 else 1) =? 2 then 16 else 4) r2 (sf_agent d) _ V2
              ltac:(rewrite Hag; destruct (sf_v6 d); reflexivity) ltac:(destruct (sf_v6 d); cbn; lia)) as (r3 & E3 & V3).
  rewrite E3. cbn [catch bind fst snd].
  destruct (sread_u_view 4 r3 (enc 4 (sf_sub d)) _ V3 ltac:(rewrite len_enc; reflexivity) ltac:(lia)) as (r4 & E4 & V4). rewrite E4. cbn [catch bind fst snd]. rewrite (be_enc4 _ Hsub).
  destruct (sread_u_view 4 r4 (enc 4 (sf_seq d)) _ V4 ltac:(rewrite len_enc; reflexivity) ltac:(lia)) as (r5 & E5 & V5). rewrite E5. cbn [catch bind fst snd]. rewrite (be_enc4 _ Hseq).
  destruct (sread_u_view 4 r5 (enc 4 (sf_uptime d)) _ V5 ltac:(rewrite len_enc; reflexivity) ltac:(lia)) as (r6 & E6 & V6). rewrite E6. cbn [catch bind fst snd]. rewrite (be_enc4 _ Hup).
  destruct (sread_u_view 4 r6 (enc 4 (len (sf_samples d))) _ V6 ltac:(rewrite len_enc; reflexivity) ltac:(lia)) as (r7 & E7 & V7). rewrite E7. cbn [catch bind fst snd].
  rewrite (be_enc4 (len (sf_samples d))) by lia.
  assert (Hfuel : (length (sf_samples d) < sfuel r7)%nat).
  { unfold sfuel. pose proof (view_length _ _ V7) as Hl. rewrite app_length in Hl. pose proof (samples_fuel (sf_samples d)). lia. }
  rewrite (samples_loop_fidelity (sf_samples d) r7 [] [] [] (sfuel r7) V7 Hw Hfuel). cbn [bind app].
  unfold dgram_json. destruct (expected_samples (sf_samples d)); destruct (expected_counters (sf_samples d)); reflexivity.
Qed.
