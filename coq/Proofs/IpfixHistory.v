(* History-level theorems for IPFIX: C01/C02 (no panic, no hang, records <= octets, from every
   well-formed cache and hence every reachable one), C04 (the sharded cache is indistinguishable
   from the map keyed by (address, id); exporters are isolated). *)
From VF Require Import Base.Prelude Model.Reader Model.Layout Model.JsonPieces Model.Flow Model.Cache Model.Ipfix Model.History
  Proofs.ReaderProofs Proofs.LayoutProofs Proofs.FlowSafety Proofs.CacheProofs Proofs.FlowRel.

Section IpfixHistory.
  Variable im : infomodel.
  Variable hl : layout.

  Notation dec_c := (ipfix_decode cc_ops im hl).
  Notation dec_a := (ipfix_decode am_ops im hl).

  (* ----- C01 / C02 ----- *)
  Lemma decode_safe_wf c a p : wf_cache c ->
    exists c' d, dec_c c a p = Ok (c', d) /\ wf_cache c' /\
      match d with DMsg m _ => len (i_sets m) <= len p | DFail => True end.
  Proof.
    intros H.
    exact (ipfix_decode_safe cc_ops im hl a wf_cache
             (fun c0 id H0 => cc_retrieve_ok c0 id a H0) (fun c0 id t H0 => cc_insert_ok c0 id a t H0) c p H).
  Qed.

  Definition bounded (x : (bytes * bytes) * dresult ipfix_msg) : Prop :=
    match snd x with DMsg m _ => len (i_sets m) <= len (snd (fst x)) | DFail => True end.

  Theorem history_safe : forall h c, wf_cache c ->
    exists c' ds, run_history dec_c c h = Ok (c', ds) /\ wf_cache c' /\
                  length ds = length h /\ Forall bounded (combine h ds).
  Proof.
    induction h as [|[a p] h IH]; intros c Hc; cbn [run_history].
    - exists c, []. split; [reflexivity|]. split; [exact Hc|]. split; [reflexivity|constructor].
    - destruct (decode_safe_wf c a p Hc) as (c1 & d & E & Hc1 & Hb). rewrite E. cbn [bind fst snd].
      destruct (IH c1 Hc1) as (c2 & ds & E2 & Hc2 & Hl & Hf). rewrite E2. cbn [bind fst snd].
      exists c2, (d :: ds). split; [reflexivity|]. split; [exact Hc2|]. split; [cbn; lia|].
      cbn [combine]. constructor; [exact Hb|exact Hf].
  Qed.

  (* ----- C04: refinement, lifted to histories ----- *)
  Lemma decode_refines c m a p : refines c m ->
    rel_out refines (dec_c c a p) (dec_a m a p).
  Proof.
    intros H. apply (ipfix_decode_rel cc_ops am_ops im hl a refines); [| |exact H].
    - intros c1 c2 id [Hw Hr]. cbn [c_retrieve cc_ops am_ops]. apply Hr.
    - intros c1 c2 id t Hr. cbn [c_insert cc_ops am_ops].
      destruct (refines_insert c1 c2 id a t Hr) as (c' & -> & Hr'). exact Hr'.
  Qed.

  Theorem history_refines : forall h c m, refines c m ->
    match run_history dec_c c h, run_history dec_a m h with
    | Ok (c', ds), Ok (m', ds') => ds = ds' /\ refines c' m'
    | _, _ => False
    end.
  Proof.
    induction h as [|[a p] h IH]; intros c m Hr; cbn [run_history]; [split; [reflexivity|exact Hr]|].
    pose proof (decode_refines c m a p Hr) as Hd.
    destruct (decode_safe_wf c a p (proj1 Hr)) as (c1 & d & E & _ & _). rewrite E in *.
    destruct (dec_a m a p) as [[m1 d']| | |]; cbn in Hd; try contradiction. destruct Hd as [-> Hr1].
    cbn [bind fst snd]. specialize (IH c1 m1 Hr1).
    destruct (run_history dec_c c1 h) as [[c2 ds]| | |], (run_history dec_a m1 h) as [[m2 ds']| | |]; try contradiction.
    cbn [bind fst snd]. destruct IH as [-> Hr2]. split; [reflexivity|exact Hr2].
  Qed.

  (* ----- C04: exporters never influence each other (stated on the specification map) ----- *)
  Definition agree_on (a : bytes) (m1 m2 : amap) : Prop := forall id, amap_get a id m1 = amap_get a id m2.

  (* the same exporter's datagram against two maps that agree on its keys: same result, still agree *)
  Lemma decode_agree a p m1 m2 : agree_on a m1 m2 -> rel_out (agree_on a) (dec_a m1 a p) (dec_a m2 a p).
  Proof.
    intros H. apply (ipfix_decode_rel am_ops am_ops im hl a (agree_on a)); [| |exact H].
    - intros c1 c2 id Hc. cbn. f_equal. apply Hc.
    - intros c1 c2 id t Hc. cbn. intros id'. cbn [amap_get]. destruct (list_eqb a a && (id' =? id mod 65536)); [reflexivity|apply Hc].
  Qed.

  (* another exporter's datagram leaves this exporter's keys untouched *)
  Lemma decode_frame a b p m : a <> b ->
    match dec_a m b p with Ok (m', _) => agree_on a m m' | _ => True end.
  Proof.
    intros Hab.
    destruct (ipfix_decode_safe am_ops im hl b (fun m' => agree_on a m m')) with (c := m) (p := p) as (m' & d & E & Hm & _).
    - intros c0 id _. cbn. eexists; reflexivity.
    - intros c0 id t H0. cbn. eexists; split; [reflexivity|]. intros id'. rewrite (H0 id'). cbn [amap_get].
      rewrite list_eqb_neq by exact Hab. reflexivity.
    - intros id; reflexivity.
    - rewrite E. exact Hm.
  Qed.

  (* the outputs for exporter a's datagrams in a history equal the outputs of running a's datagrams alone *)
  Fixpoint outs_for (a : bytes) (h : list (bytes * bytes)) (ds : list (dresult ipfix_msg)) : list (dresult ipfix_msg) :=
    match h, ds with
    | (b, _) :: h', d :: ds' => if list_eqb a b then d :: outs_for a h' ds' else outs_for a h' ds'
    | _, _ => []
    end.
  Definition only (a : bytes) (h : list (bytes * bytes)) := filter (fun x => list_eqb a (fst x)) h.

  Theorem exporter_isolation a : forall h m1 m2, agree_on a m1 m2 ->
    match run_history dec_a m1 h, run_history dec_a m2 (only a h) with
    | Ok (m1', ds), Ok (m2', ds') => outs_for a h ds = ds' /\ agree_on a m1' m2'
    | _, _ => False
    end.
  Proof.
    induction h as [|[b p] h IH]; intros m1 m2 Hag; cbn [run_history only filter fst].
    - split; [reflexivity|exact Hag].
    - destruct (list_eqb a b) eqn:Eab.
      + apply list_eqb_eq in Eab. subst b. cbn [run_history].
        pose proof (decode_agree a p m1 m2 Hag) as Hd.
        destruct (ipfix_decode_safe am_ops im hl a (fun _ => True)) with (c := m1) (p := p) as (m1' & d & E & _ & _);
          [intros; cbn; eexists; reflexivity|intros; cbn; eexists; split; [reflexivity|exact I]|exact I|].
        rewrite E in *. destruct (dec_a m2 a p) as [[m2' d']| | |]; cbn in Hd; try contradiction. destruct Hd as [-> Hag'].
        cbn [bind fst snd]. specialize (IH m1' m2' Hag'). fold (only a h).
        destruct (run_history dec_a m1' h) as [[x ds]| | |], (run_history dec_a m2' (only a h)) as [[y ds']| | |]; try contradiction.
        cbn [bind fst snd outs_for]. rewrite list_eqb_refl. destruct IH as [-> Hx]. split; [reflexivity|exact Hx].
      + assert (Hab : a <> b) by (intros ->; rewrite list_eqb_refl in Eab; discriminate).
        pose proof (decode_frame a b p m1 Hab) as Hf.
        destruct (ipfix_decode_safe am_ops im hl b (fun _ => True)) with (c := m1) (p := p) as (m1' & d & E & _ & _);
          [intros; cbn; eexists; reflexivity|intros; cbn; eexists; split; [reflexivity|exact I]|exact I|].
        rewrite E in *. cbn [bind fst snd].
        assert (Hag' : agree_on a m1' m2) by (intros id; rewrite <- (Hf id); apply Hag).
        specialize (IH m1' m2 Hag'). fold (only a h).
        destruct (run_history dec_a m1' h) as [[x ds]| | |], (run_history dec_a m2 (only a h)) as [[y ds']| | |]; try contradiction.
        cbn [bind fst snd outs_for]. rewrite Eab. exact IH.
  Qed.
End IpfixHistory.

(* data for a template id this exporter has not announced: the set contributes no records and is
   reported (non-fatal), or the message is dropped *)
Lemma unknown_template_no_records im (a : bytes) (m : amap) r ds sid L r1 :
  uint16 r = Ok (sid, r1) -> (exists r2, uint16 r1 = Ok (L, r2)) -> 255 < sid ->
  amap_get a (sid mod 65536) m = None ->
  match decode_set am_ops im a m r ds with
  | Ok (m', SCont _ ds' nf) => m' = m /\ ds' = ds /\ nf = true
  | Ok (m', SFatal) => m' = m
  | _ => False
  end.
Proof.
  intros E1 [r2 E2] Hs Hn. unfold decode_set. rewrite E1. cbn [bind fst snd]. rewrite E2. cbn [bind fst snd catch].
  destruct (L <? 4); [reflexivity|]. replace (255 <? sid) with true by lia. cbn [c_retrieve am_ops bind]. rewrite Hn.
  cbn [bind snd fst]. match goal with |- context [if ?g then _ else _] => destruct g end; [|auto].
  match goal with |- context [catch ?x] => destruct x as [[b r3]| | |] eqn:Er end; cbn [catch bind]; auto.
  - unfold read in Er. destruct (_ || _) in Er; discriminate.
  - unfold read in Er. destruct (_ || _) in Er; discriminate.
Qed.
