From VF Require Import Base.Prelude Model.Flow Model.Cache Model.PeerFetch Proofs.CacheProofs.

(* the local cache after a peer fetch is the local map with the PEER's entry for exactly that (address, id) put in front (or
   unchanged when the peer has none): every other key of the local cache, and everything the peer holds under other keys
   (other exporters, other ids), is without influence *)
Theorem peer_fetch_refines local peer ml mp id a : refines local ml -> refines peer mp ->
  exists local', peer_fetch local peer id a = Ok local' /\
    refines local' (match amap_get a (id mod 65536) mp with Some t => ((a, id mod 65536), t) :: ml | None => ml end).
Proof.
  intros Hl [Hwp Hrp]. unfold peer_fetch. rewrite Hrp.
  destruct (amap_get a (id mod 65536) mp) as [t|].
  - apply refines_insert. exact Hl.
  - exists local. split; [reflexivity|exact Hl].
Qed.

(* consequence: after the fetch a lookup of the requested key gives the peer's template for that key *)
Corollary peer_fetch_installs_the_peers_template local peer ml mp id a t : refines local ml -> refines peer mp ->
  amap_get a (id mod 65536) mp = Some t ->
  exists local', peer_fetch local peer id a = Ok local' /\ cc_retrieve local' id a = Ok (Some t).
Proof.
  intros Hl Hp Ht. destruct (peer_fetch_refines local peer ml mp id a Hl Hp) as (l' & E & [Hw Hr]). rewrite Ht in Hr.
  exists l'. split; [exact E|]. rewrite Hr. rewrite amap_latest. reflexivity.
Qed.

(* ... and of any OTHER key what it gave before *)
Corollary peer_fetch_frame local peer ml mp id a id' a' : refines local ml -> refines peer mp ->
  (a', id' mod 65536) <> (a, id mod 65536) ->
  exists local', peer_fetch local peer id a = Ok local' /\ cc_retrieve local' id' a' = cc_retrieve local id' a'.
Proof.
  intros Hl Hp Hne. destruct (peer_fetch_refines local peer ml mp id a Hl Hp) as (l' & E & [Hw Hr]).
  exists l'. split; [exact E|]. rewrite Hr. destruct Hl as [_ Hrl]. rewrite Hrl.
  destruct (amap_get a (id mod 65536) mp); [|reflexivity]. f_equal. apply amap_frame. exact Hne.
Qed.

(* gob: decoding into a fresh (all-zero) record yields the answer ... *)
Lemma gob_into_fresh {A} (answer : list (option A)) :
  gob_decode_into (repeat None (length answer)) answer = answer.
Proof.
  unfold gob_decode_into. induction answer as [|x r IH]; [reflexivity|]. cbn [length repeat combine map fst snd].
  rewrite IH. destruct x; reflexivity.
Qed.

(* ... decoding into a record that still holds an earlier answer does not, as soon as the new answer has a zero field where the
   earlier one had a value (a plain template fetched after an options template keeps its scope fields) *)
Lemma gob_into_used_differs {A} (v : A) :
  gob_decode_into [Some v] [None] <> [None].
Proof. cbn. discriminate. Qed.
