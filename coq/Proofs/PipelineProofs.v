(* C12 / C13 over ALL schedules of the pipeline model: buffer ownership invariant => what is published
   for datagram i is exactly the result of processing datagram i (with the cache state at that
   moment); accounting: received counter, at most one message per datagram, nothing for a datagram
   that was not received. *)
From VF Require Import Base.Prelude Model.Pipeline.
From Coq Require Import Arith Permutation.

Section Proofs.
  Variables (C P : Type) (process : C -> nat -> C * option P * bool).
  Notation pst := (pst C P).
  Notation step := (step C P process).

  Lemma nth_upd_same {A} (l : list A) i x y : nth_error l i = Some y -> nth_error (upd l i x) i = Some x.
  Proof. revert i; induction l as [|a l IH]; intros [|i]; cbn; try discriminate; auto. Qed.
  Lemma nth_upd_other {A} (l : list A) i j x : i <> j -> nth_error (upd l i x) j = nth_error l j.
  Proof. revert i j; induction l as [|a l IH]; intros [|i] [|j] H; cbn; auto; try congruence. Qed.

  Lemma NoDup_snoc {A} (l : list A) b : NoDup l -> ~ In b l -> NoDup (l ++ [b]).
  Proof. intros H1 H2. apply (proj2 (NoDup_Add (Add_app b l []))). rewrite app_nil_r. split; assumption. Qed.

  Lemma NoDup_app_r {A} (a b : list A) : NoDup (a ++ b) -> NoDup b.
  Proof. induction a as [|x a IH]; cbn; [auto|]. intros H. apply NoDup_cons_iff in H as [_ H]. auto. Qed.

  (* ---------- ownership ---------- *)
  Definition held_by (s : pst) (w : nat) (b : bufid) : Prop :=
    nth_error (ws s) w = Some (WPut b) \/ exists i, nth_error (ws s) w = Some (WProc b i).

  Definition Own (s : pst) : Prop :=
    (forall b i, In (b, i) (udpq s) -> owner s b = Queued /\ heap s b = i) /\
    NoDup (map fst (udpq s)) /\
    (forall w b, held_by s w b -> owner s b = Held) /\
    (forall w b i, nth_error (ws s) w = Some (WProc b i) -> heap s b = i) /\
    (forall w w' b, w <> w' -> held_by s w b -> ~ held_by s w' b).

  Lemma set_own_same o b x : set_own o b x b = x.
  Proof. unfold set_own. now rewrite Nat.eqb_refl. Qed.
  Lemma set_own_other o b x b' : b' <> b -> set_own o b x b' = o b'.
  Proof. intros H. unfold set_own. destruct (Nat.eqb_spec b' b); [contradiction|reflexivity]. Qed.
  Lemma set_heap_other h b x b' : b' <> b -> set_heap h b x b' = h b'.
  Proof. intros H. unfold set_heap. destruct (Nat.eqb_spec b' b); [contradiction|reflexivity]. Qed.
  Lemma set_heap_same h b x : set_heap h b x b = x.
  Proof. unfold set_heap. now rewrite Nat.eqb_refl. Qed.

  Lemma own_step s s' : Own s -> step s s' -> Own s'.
  Proof.
    intros (Hq & Hnd & Hh & Hp & Hx) Hs. destruct Hs as [s b Hfree | s w b Hw | s w b i rest Hw Hu | s w b i c' out dec Hw Hpr].
    - (* receive *)
      assert (Hnq : ~ In b (map fst (udpq s))).
      { intros Hin. apply in_map_iff in Hin as ([b' i'] & E & Hin). cbn in E; subst b'.
        destruct (Hq _ _ Hin) as [Ho _]. destruct Hfree; congruence. }
      assert (Hnh : forall w, ~ held_by s w b) by (intros w Hb; specialize (Hh _ _ Hb); destruct Hfree; congruence).
      unfold Own; cbn [owner heap udpq ws]. split; [|split; [|split; [|split]]].
      + intros b' i' Hin. apply in_app_or in Hin as [Hin|[Hin|[]]].
        * assert (b' <> b) by (intros ->; apply Hnq; apply in_map_iff; exists (b, i'); auto).
          rewrite set_own_other, set_heap_other by assumption. apply Hq; exact Hin.
        * inversion Hin; subst. rewrite set_own_same, set_heap_same. auto.
      + rewrite map_app. cbn. apply NoDup_snoc; assumption.
      + intros w b' Hb. assert (b' <> b) by (intros ->; exact (Hnh w Hb)). rewrite set_own_other by assumption. eauto.
      + intros w b' i' Hn. assert (b' <> b) by (intros ->; apply (Hnh w); right; eauto). rewrite set_heap_other by assumption. eauto.
      + exact Hx.
    - (* put *)
      assert (Hb : held_by s w b) by (left; exact Hw).
      unfold Own; cbn [owner heap udpq ws]. split; [|split; [|split; [|split]]].
      + intros b' i' Hin. destruct (Hq _ _ Hin) as [Ho Hhp]. assert (b' <> b) by (intros ->; specialize (Hh _ _ Hb); congruence).
        rewrite set_own_other by assumption. auto.
      + exact Hnd.
      + intros w' b' Hb'. unfold held_by in Hb'; cbn [ws] in Hb'. destruct (Nat.eq_dec w w') as [<-|Hne].
        * destruct Hb' as [Hb'|[i Hb']]; rewrite (nth_upd_same _ _ _ _ Hw) in Hb'; discriminate.
        * assert (Hb2 : held_by s w' b') by (destruct Hb' as [Hb'|[i Hb']]; rewrite nth_upd_other in Hb' by exact Hne; [left|right; exists i]; exact Hb').
          assert (b' <> b) by (intros ->; exact (Hx w w' b Hne Hb Hb2)). rewrite set_own_other by assumption. eauto.
      + intros w' b' i' Hn. destruct (Nat.eq_dec w w') as [<-|Hne]; [rewrite (nth_upd_same _ _ _ _ Hw) in Hn; discriminate|].
        rewrite nth_upd_other in Hn by exact Hne. eauto.
      + intros w1 w2 b' Hne H1 H2.
        assert (T : forall w0, held_by {| owner := set_own (owner s) b InPool; heap := heap s; udpq := udpq s; ws := upd (ws s) w WRecv; mq := mq s;
                      recvd := recvd s; udp_count := udp_count s; dec_count := dec_count s; done := done s; cache := cache s |} w0 b' -> w0 <> w /\ held_by s w0 b').
        { intros w0 H0. unfold held_by in H0; cbn [ws] in H0. destruct (Nat.eq_dec w w0) as [<-|Hn0].
          - destruct H0 as [H0|[i H0]]; rewrite (nth_upd_same _ _ _ _ Hw) in H0; discriminate.
          - split; [congruence|]. destruct H0 as [H0|[i H0]]; rewrite nth_upd_other in H0 by exact Hn0; [left|right; exists i]; exact H0. }
        destruct (T _ H1) as [_ H1']. destruct (T _ H2) as [_ H2']. exact (Hx _ _ _ Hne H1' H2').
    - (* get *)
      assert (Hin : In (b, i) (udpq s)) by (rewrite Hu; left; reflexivity).
      destruct (Hq _ _ Hin) as [Ho Hhp].
      rewrite Hu in Hnd. cbn [map fst] in Hnd. apply NoDup_cons_iff in Hnd as [Hnb Hnd].
      assert (Hnh : forall w0, ~ held_by s w0 b) by (intros w0 H0; specialize (Hh _ _ H0); congruence).
      unfold Own; cbn [owner heap udpq ws]. split; [|split; [|split; [|split]]].
      + intros b' i' Hin'. assert (b' <> b) by (intros ->; apply Hnb; apply in_map_iff; exists (b, i'); auto).
        rewrite set_own_other by assumption. apply Hq. rewrite Hu. right; exact Hin'.
      + exact Hnd.
      + intros w' b' Hb'. unfold held_by in Hb'; cbn [ws] in Hb'. destruct (Nat.eq_dec w w') as [<-|Hne].
        * rewrite (nth_upd_same _ _ _ _ Hw) in Hb'. destruct Hb' as [Hb'|[i0 Hb']]; inversion Hb'; subst. apply set_own_same.
        * rewrite nth_upd_other in Hb' by exact Hne. assert (b' <> b) by (intros ->; exact (Hnh w' Hb')).
          rewrite set_own_other by assumption. eauto.
      + intros w' b' i' Hn. destruct (Nat.eq_dec w w') as [<-|Hne].
        * rewrite (nth_upd_same _ _ _ _ Hw) in Hn. inversion Hn; subst. first [exact Hhp|reflexivity].
        * rewrite nth_upd_other in Hn by exact Hne. eauto.
      + intros w1 w2 b' Hne H1 H2. unfold held_by in H1, H2; cbn [ws] in H1, H2.
        destruct (Nat.eq_dec w w1) as [<-|Hn1]; [|destruct (Nat.eq_dec w w2) as [<-|Hn2]].
        * rewrite (nth_upd_same _ _ _ _ Hw) in H1. rewrite nth_upd_other in H2 by exact Hne.
          assert (b' = b) by (destruct H1 as [H1|[i0 H1]]; inversion H1; reflexivity). subst b'. exact (Hnh w2 H2).
        * rewrite (nth_upd_same _ _ _ _ Hw) in H2. rewrite nth_upd_other in H1 by (intro; subst; congruence).
          assert (b' = b) by (destruct H2 as [H2|[i0 H2]]; inversion H2; reflexivity). subst b'. exact (Hnh w1 H1).
        * rewrite nth_upd_other in H1 by exact Hn1. rewrite nth_upd_other in H2 by exact Hn2. exact (Hx _ _ _ Hne H1 H2).
    - (* process *)
      assert (Hb : held_by s w b) by (right; eauto).
      unfold Own; cbn [owner heap udpq ws]. split; [|split; [|split; [|split]]]; try assumption.
      + intros w' b' Hb'. unfold held_by in Hb'; cbn [ws] in Hb'. destruct (Nat.eq_dec w w') as [<-|Hne].
        * rewrite (nth_upd_same _ _ _ _ Hw) in Hb'. destruct Hb' as [Hb'|[i0 Hb']]; inversion Hb'; subst. eauto.
        * rewrite nth_upd_other in Hb' by exact Hne. eauto.
      + intros w' b' i' Hn. destruct (Nat.eq_dec w w') as [<-|Hne]; [rewrite (nth_upd_same _ _ _ _ Hw) in Hn; discriminate|].
        rewrite nth_upd_other in Hn by exact Hne. eauto.
      + intros w1 w2 b' Hne H1 H2.
        assert (T : forall w0 (st := {| owner := owner s; heap := heap s; udpq := udpq s; ws := upd (ws s) w (WPut b);
                      mq := match out with Some p => mq s ++ [(i, p)] | None => mq s end; recvd := recvd s; udp_count := udp_count s;
                      dec_count := if dec then S (dec_count s) else dec_count s; done := done s ++ [i]; cache := c' |}),
                   held_by st w0 b' -> held_by s w0 b').
        { intros w0 st H0. unfold held_by, st in H0; cbn [ws] in H0. destruct (Nat.eq_dec w w0) as [<-|Hn0].
          - rewrite (nth_upd_same _ _ _ _ Hw) in H0. destruct H0 as [H0|[i0 H0]]; inversion H0; subst. exact Hb.
          - rewrite nth_upd_other in H0 by exact Hn0. exact H0. }
        exact (Hx _ _ _ Hne (T _ H1) (T _ H2)).
  Qed.

  Lemma own_init n c : Own (init C P n c).
  Proof.
    unfold Own, init; cbn [owner heap udpq ws].
    assert (Hnth : forall w x, nth_error (map WPut (seq 0 n)) w = Some x -> x = WPut w /\ (w < n)%nat).
    { intros w x H.
      assert (Hl : (w < n)%nat).
      { assert (Hs : (w < length (map WPut (seq 0 n)))%nat) by (apply nth_error_Some; congruence).
        rewrite map_length, seq_length in Hs. exact Hs. }
      pose proof (nth_error_nth _ _ (WPut O) H) as Hn. rewrite (map_nth WPut (seq 0 n) 0%nat w) in Hn.
      rewrite seq_nth in Hn by exact Hl. cbn in Hn. split; [symmetry; exact Hn|exact Hl]. }
    split; [intros b i []|]. split; [constructor|]. split; [|split].
    - intros w b [H|[i H]]; apply Hnth in H as [H Hl]; inversion H; subst. apply Nat.ltb_lt in Hl. rewrite Hl. reflexivity.
    - intros w b i H. apply Hnth in H as [H _]. discriminate H.
    - intros w w' b Hne [H|[i H]] [H'|[i' H']]; apply Hnth in H as [H _]; apply Hnth in H' as [H' _]; try discriminate H; try discriminate H'.
      inversion H; inversion H'; subst. congruence.
  Qed.

  (* ---------- accounting ---------- *)
  Definition proc_idx (w : wstate) : list nat := match w with WProc _ i => [i] | _ => [] end.
  Definition live (s : pst) : list nat := map snd (udpq s) ++ flat_map proc_idx (ws s) ++ done s.

  Definition Acc (s : pst) : Prop :=
    udp_count s = recvd s /\
    NoDup (live s) /\ (forall i, In i (live s) -> (i < recvd s)%nat) /\
    NoDup (map fst (mq s)) /\ incl (map fst (mq s)) (done s) /\
    (dec_count s <= length (done s))%nat /\
    (forall i p, In (i, p) (mq s) -> exists c, snd (fst (process c i)) = Some p).

  Lemma flat_map_upd_same (f : wstate -> list nat) (l : list wstate) w x y : nth_error l w = Some y -> f x = f y -> flat_map f (upd l w x) = flat_map f l.
  Proof.
    revert w; induction l as [|a l IH]; intros [|w] H E; cbn in *; try discriminate.
    - inversion H; subst. now rewrite E.
    - f_equal. apply IH; assumption.
  Qed.

  Lemma flat_map_upd_perm (f : wstate -> list nat) (l : list wstate) w x y : nth_error l w = Some y ->
    Permutation (f y ++ flat_map f (upd l w x)) (f x ++ flat_map f l).
  Proof.
    revert w; induction l as [|a l IH]; intros [|w] H; cbn in *; try discriminate.
    - inversion H; subst. apply Permutation_app_swap_app.
    - specialize (IH w H). rewrite !app_assoc.
      etransitivity; [apply Permutation_app_tail; apply Permutation_app_comm|].
      etransitivity; [|apply Permutation_app_tail; apply Permutation_app_comm].
      rewrite <- !app_assoc. apply Permutation_app_head. exact IH.
  Qed.

  Lemma acc_step s s' : Own s -> Acc s -> step s s' -> Acc s'.
  Proof.
    intros HO (Hc & Hnd & Hlt & Hmq & Hincl & Hdec & Hpub) Hs. pose proof HO as (_ & _ & _ & Hheap & _).
    destruct Hs as [s b Hfree | s w b Hw | s w b i rest Hw Hu | s w b i c' out dec Hw Hpr]; unfold Acc, live in *; cbn [udpq ws done mq recvd udp_count dec_count] in *.
    - (* receive *)
      split; [lia|]. rewrite map_app. cbn [map snd]. rewrite <- app_assoc. cbn [app].
      split; [|split; [|repeat split; assumption]].
      + apply (proj2 (NoDup_Add (Add_app (recvd s) _ _))). split; [exact Hnd|].
        intros Hin. apply Hlt in Hin. lia.
      + intros i Hin. apply in_app_or in Hin as [Hin|[<-|Hin]]; [|lia|].
        * assert (i < recvd s)%nat by (apply Hlt; apply in_or_app; left; exact Hin). lia.
        * assert (i < recvd s)%nat by (apply Hlt; apply in_or_app; right; exact Hin). lia.
    - (* put *)
      rewrite (flat_map_upd_same proc_idx (ws s) w WRecv (WPut b) Hw eq_refl). repeat split; assumption.
    - (* get *)
      rewrite Hu in *. cbn [map snd app] in *.
      assert (Hperm : Permutation (map snd rest ++ flat_map proc_idx (upd (ws s) w (WProc b i)) ++ done s)
                                  (i :: map snd rest ++ flat_map proc_idx (ws s) ++ done s)).
      { pose proof (flat_map_upd_perm proc_idx (ws s) w (WProc b i) WRecv Hw) as Hp. cbn [proc_idx app] in Hp.
        etransitivity; [|apply Permutation_middle with (l1 := [])]. cbn [app].
        symmetry. etransitivity; [apply Permutation_middle|]. apply Permutation_app_head.
        change (i :: flat_map proc_idx (ws s) ++ done s) with ((i :: flat_map proc_idx (ws s)) ++ done s).
        apply Permutation_app_tail. symmetry. exact Hp. }
      split; [exact Hc|]. split; [eapply Permutation_NoDup; [symmetry; exact Hperm|exact Hnd]|].
      split; [intros j Hj; apply Hlt; eapply Permutation_in; [exact Hperm|exact Hj]|]. repeat split; assumption.
    - (* process *)
      assert (Hperm : Permutation (map snd (udpq s) ++ flat_map proc_idx (upd (ws s) w (WPut b)) ++ done s ++ [i])
                                  (map snd (udpq s) ++ flat_map proc_idx (ws s) ++ done s)).
      { apply Permutation_app_head. pose proof (flat_map_upd_perm proc_idx (ws s) w (WPut b) (WProc b i) Hw) as Hp. cbn [proc_idx app] in Hp.
        rewrite app_assoc. etransitivity; [apply Permutation_app_comm|]. cbn [app].
        etransitivity; [|apply Permutation_app_tail; exact Hp]. cbn [app]. reflexivity. }
      assert (Hi_live : In i (map snd (udpq s) ++ flat_map proc_idx (ws s) ++ done s)).
      { apply in_or_app; right; apply in_or_app; left. apply in_flat_map. exists (WProc b i). split; [eapply nth_error_In; exact Hw|left; reflexivity]. }
      assert (Hi_notdone : ~ In i (done s)).
      { intros Hd. apply NoDup_app_r in Hnd. clear - Hnd Hd Hw.
        assert (Hin : In i (flat_map proc_idx (ws s))) by (apply in_flat_map; exists (WProc b i); split; [eapply nth_error_In; exact Hw|left; reflexivity]).
        revert Hnd Hin Hd. generalize (flat_map proc_idx (ws s)) as l. induction l as [|a l IH]; intros Hnd Hin Hd; [contradiction|].
        cbn in Hnd. apply NoDup_cons_iff in Hnd as [Ha Hnd]. destruct Hin as [->|Hin]; [apply Ha; apply in_or_app; right; exact Hd|auto]. }
      split; [exact Hc|]. split; [eapply Permutation_NoDup; [symmetry; exact Hperm|exact Hnd]|].
      split; [intros j Hj; apply Hlt; eapply Permutation_in; [exact Hperm|exact Hj]|].
      rewrite (Hheap _ _ _ Hw) in Hpr.
      destruct out as [p|].
      + rewrite map_app. cbn [map fst]. split; [apply NoDup_snoc; [exact Hmq|intros Hin; apply Hi_notdone; apply Hincl; exact Hin]|].
        split; [intros j Hj; apply in_app_or in Hj as [Hj|[<-|[]]]; apply in_or_app; [left; apply Hincl; exact Hj|right; left; reflexivity]|].
        split; [rewrite app_length; cbn; destruct dec; lia|].
        intros j q Hj. apply in_app_or in Hj as [Hj|[Hj|[]]]; [eauto|]. inversion Hj; subst. exists (cache s). rewrite Hpr. reflexivity.
      + split; [exact Hmq|]. split; [intros j Hj; apply in_or_app; left; apply Hincl; exact Hj|].
        split; [rewrite app_length; cbn; destruct dec; lia|]. exact Hpub.
  Qed.

  Lemma acc_init n c : Acc (init C P n c).
  Proof.
    unfold Acc, live, init; cbn [udpq ws done mq recvd udp_count dec_count].
    assert (Hf : flat_map proc_idx (map WPut (seq 0 n)) = []).
    { generalize (seq 0 n). induction l as [|a l IH]; cbn; [reflexivity|exact IH]. }
    rewrite Hf. cbn [app map fst length].
    split; [reflexivity|]. split; [apply NoDup_nil|]. split; [intros i []|]. split; [apply NoDup_nil|].
    split; [intros i []|]. split; [lia|]. intros i p [].
  Qed.

  Theorem reachable_inv n c s : reachable C P process (init C P n c) s -> Own s /\ Acc s.
  Proof.
    induction 1 as [|x y Hr [HO HA] Hs]; [split; [apply own_init|apply acc_init]|].
    split; [eapply own_step; eassumption|eapply acc_step; eassumption].
  Qed.
End Proofs.
