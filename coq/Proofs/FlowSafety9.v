(* C01 / C02 for the NetFlow v9 decoder model (same statements as Proofs/FlowSafety.v). *)
From VF Require Import Base.Prelude Model.Reader Model.Layout Model.JsonPieces Model.Flow Model.Nf9
  Proofs.ReaderProofs Proofs.LayoutProofs Proofs.FlowSafety.

Section Safety9.
  Context {C : Type}.
  Variable ops : cache_ops C.
  Variable im : infomodel.
  Variable hl : layout.
  Variable addr : bytes.                 (* the exporter whose datagram is being decoded *)
  Variable Inv : C -> Prop.
  Hypothesis retrieve_ok : forall c id, Inv c -> exists o, c_retrieve ops c id addr = Ok o.
  Hypothesis insert_ok : forall c id t, Inv c -> exists c', c_insert ops c id addr t = Ok c' /\ Inv c'.

  Lemma read_fspec_res r :
    (exists s r', read_fspec9 r = Ok (s, r') /\ adv r r' /\ rlen r' <= rlen r - 4) \/ read_fspec9 r = Err EShort.
  Proof.
    unfold read_fspec9, uint16.
    destruct (uintN_cases 2 r) as [(v1 & r1 & E1)| ->]; [|right; reflexivity]. rewrite E1. cbn [bind fst snd].
    destruct (uintN_adv 2 r v1 r1 ltac:(lia) E1) as [A1 L1].
    destruct (uintN_cases 2 r1) as [(v2 & r2 & E2)| ->]; [|right; reflexivity]. rewrite E2. cbn [bind fst snd].
    destruct (uintN_adv 2 r1 v2 r2 ltac:(lia) E2) as [A2 L2].
    left. do 2 eexists. split; [reflexivity|]. split; [adv_chain|lia].
  Qed.

  Lemma read_fspecs9_res : forall fuel n r acc, rlen r < Z.of_nat fuel ->
    (exists l r', read_fspecs9 fuel n r acc = Ok (l, r') /\ adv r r') \/ read_fspecs9 fuel n r acc = Err EShort.
  Proof.
    induction fuel as [|k IH]; intros n r acc Hf; [pose proof (rlen_nonneg r); lia|].
    cbn [read_fspecs9]. destruct (n <=? 0); [left; do 2 eexists; split; [reflexivity|apply adv_refl]|].
    destruct (read_fspec_res r) as [(s & r1 & E & A & L)| ->]; [|right; reflexivity].
    rewrite E. cbn [bind fst snd].
    destruct (IH (n - 1) r1 (acc ++ [s]) ltac:(lia)) as [(l & r2 & E2 & A2)| ->]; [|right; reflexivity].
    left. do 2 eexists. split; [exact E2|eapply adv_trans; eassumption].
  Qed.

  Lemma fuel_of_ok r : rlen r < Z.of_nat (fuel_of r).
  Proof. unfold fuel_of, rlen, len. lia. Qed.

  Lemma read_template_res r :
    (exists t r', read_template9 r = Ok (t, r') /\ adv r r' /\ rlen r' <= rlen r - 4) \/ read_template9 r = Err EShort.
  Proof.
    unfold read_template9, uint16.
    destruct (uintN_cases 2 r) as [(v1 & r1 & E1)| ->]; [|right; reflexivity]. rewrite E1. cbn [bind fst snd].
    destruct (uintN_adv 2 r v1 r1 ltac:(lia) E1) as [A1 L1].
    destruct (uintN_cases 2 r1) as [(v2 & r2 & E2)| ->]; [|right; reflexivity]. rewrite E2. cbn [bind fst snd].
    destruct (uintN_adv 2 r1 v2 r2 ltac:(lia) E2) as [A2 L2].
    destruct (read_fspecs9_res (fuel_of r2) v2 r2 [] (fuel_of_ok r2)) as [(l & r3 & E3 & A3)| ->]; [|right; reflexivity].
    rewrite E3. cbn [bind fst snd]. left. do 2 eexists. split; [reflexivity|].
    split; [adv_chain|]. destruct A3. lia.
  Qed.

  Lemma read_opts_template_res r :
    (exists t r', read_opts_template9 r = Ok (t, r') /\ adv r r' /\ rlen r' <= rlen r - 4) \/ read_opts_template9 r = Err EShort.
  Proof.
    unfold read_opts_template9, uint16.
    destruct (uintN_cases 2 r) as [(v1 & r1 & E1)| ->]; [|right; reflexivity]. rewrite E1. cbn [bind fst snd].
    destruct (uintN_adv 2 r v1 r1 ltac:(lia) E1) as [A1 L1].
    destruct (uintN_cases 2 r1) as [(v2 & r2 & E2)| ->]; [|right; reflexivity]. rewrite E2. cbn [bind fst snd].
    destruct (uintN_adv 2 r1 v2 r2 ltac:(lia) E2) as [A2 L2].
    destruct (uintN_cases 2 r2) as [(v3 & r3 & E3)| ->]; [|right; reflexivity]. rewrite E3. cbn [bind fst snd].
    destruct (uintN_adv 2 r2 v3 r3 ltac:(lia) E3) as [A3 L3].
    destruct (read_fspecs9_res (fuel_of r3) (v2 / 4) r3 [] (fuel_of_ok r3)) as [(l & r4 & E4 & A4)| ->]; [|right; reflexivity].
    rewrite E4. cbn [bind fst snd].
    destruct (read_fspecs9_res (fuel_of r4) (v3 / 4) r4 [] (fuel_of_ok r4)) as [(l5 & r5 & E5 & A5)| ->]; [|right; reflexivity].
    rewrite E5. cbn [bind fst snd]. left. do 2 eexists. split; [reflexivity|].
    split; [adv_chain|]. destruct A4, A5. lia.
  Qed.

  Lemma decode_fields_res : forall specs r acc,
    (exists o r', decode_fields9 im specs r acc = Ok (o, r') /\ adv r r'
       /\ match o with Some fs => len fs = len acc + len specs | None => True end)
    \/ (exists e, decode_fields9 im specs r acc = Err e).
  Proof.
    induction specs as [|s specs IH]; intros r acc; cbn [decode_fields9].
    - left. do 2 eexists. split; [reflexivity|]. split; [apply adv_refl|rewrite len_nil; lia].
    - destruct (read_cases (f_len s) r) as [(b & r2 & E2)| ->]; [|right; eexists; reflexivity].
      rewrite E2. cbn [bind fst snd]. destruct (read_adv _ _ _ _ E2) as (A2 & _).
      destruct (im 0 (f_id s)) as [[fid ty]|].
      2: { left. do 2 eexists. split; [reflexivity|]. split; [exact A2|exact I]. }
      destruct (interpret_ok ty b) as [v ->]. cbn [bind].
      destruct (IH r2 (acc ++ [{| d_id := fid; d_pen := 0; d_val := v |}])) as [(o & r3 & E3 & A3 & L3)|[e E3]].
      + left. do 2 eexists. split; [exact E3|]. split; [adv_chain|].
        destruct o; [|exact I]. rewrite L3, len_app, len_cons, len_cons, len_nil. lia.
      + right. eexists. exact E3.
  Qed.

  Lemma decode_data_res t r :
    (exists o r', decode_data9 im t r = Ok (o, r') /\ adv r r')
    \/ (exists e, decode_data9 im t r = Err e).
  Proof.
    unfold decode_data9.
    destruct (decode_fields_res (t_scope t) r []) as [(o & r1 & E1 & A1 & L1)|[e E1]]; rewrite E1; cbn [bind fst snd];
      [|right; eexists; reflexivity].
    destruct o as [sc|]; [|left; do 2 eexists; split; [reflexivity|exact A1]].
    destruct (decode_fields_res (t_fields t) r1 sc) as [(o2 & r2 & E2 & A2 & L2)|[e E2]]; rewrite E2;
      [|right; eexists; reflexivity].
    left. do 2 eexists. split; [reflexivity|adv_chain].
  Qed.

  (* what a set-level function may return *)
  Definition sres_ok (r : reader) (ds : list record) (x : C * sres) : Prop :=
    Inv (fst x) /\
    match snd x with
    | SFatal => True
    | SCont r' ds' _ => adv r r' /\ len ds' <= len ds + (rlen r - rlen r')
    end.

  Lemma set_loop_res : forall fuel sid L start tr c r ds,
    Inv c -> rlen r < Z.of_nat fuel ->
    exists x, set_loop9 ops im fuel sid L start tr addr c r ds = Ok x /\ sres_ok r ds x.
  Proof.
    induction fuel as [|k IH]; intros sid L start tr c r ds Hc Hf; [pose proof (rlen_nonneg r); lia|].
    cbn [set_loop9].
    match goal with |- context [if ?g then _ else _] => destruct g end.
    2: { eexists; split; [reflexivity|]. split; [exact Hc|]. cbn. split; [apply adv_refl|lia]. }
    destruct ((sid =? 0) || (sid =? 1)).
    - set (rd := if sid =? 0 then read_template9 r else read_opts_template9 r);
        assert (Hrd : (exists t r', rd = Ok (t, r') /\ adv r r' /\ rlen r' <= rlen r - 4) \/ rd = Err EShort)
          by (subst rd; destruct (sid =? 0); [apply read_template_res|apply read_opts_template_res]);
        destruct Hrd as [(t & r1 & E & A & Ls)|E]; rewrite E; cbn [catch bind];
        [ destruct (insert_ok c (t_id t) t Hc) as (c' & -> & Hc'); cbn [bind];
          destruct (IH sid L start tr c' r1 ds Hc' ltac:(lia)) as (x & Ex & Hx);
          exists x; split; [exact Ex|]; destruct Hx as [Hi Hx]; split; [exact Hi|];
          destruct (snd x); [exact I|]; destruct Hx as [Ax Lx]; split; [eapply adv_trans; eassumption|lia]
        | eexists; split; [reflexivity|]; split; [exact Hc|exact I] ].
    - destruct ((2 <=? sid) && (sid <=? 255)).
      { eexists; split; [reflexivity|]. split; [exact Hc|]. cbn. split; [apply adv_refl|lia]. }
      destruct (decode_data_res tr r) as [(o & r1 & E & A)|[e E]]; rewrite E; cbn [catch bind].
      2: { eexists; split; [reflexivity|]. split; [exact Hc|exact I]. }
      destruct o as [fs|].
      2: { eexists; split; [reflexivity|]. split; [exact Hc|]. cbn. destruct A. split; [split; lia|lia]. }
      destruct (count r1 =? count r) eqn:Ec.
      { eexists; split; [reflexivity|]. split; [exact Hc|]. cbn. destruct A. split; [split; lia|lia]. }
      destruct A as [A1 A2].
      destruct (IH sid L start tr c r1 (ds ++ [fs]) Hc ltac:(lia)) as (x & Ex & Hx).
      exists x; split; [exact Ex|]. destruct Hx as [Hi Hx]; split; [exact Hi|].
      destruct (snd x); [exact I|]. destruct Hx as [[Ax1 Ax2] Lx]. rewrite len_app, len_cons, len_nil in Lx.
      split; [split; lia|lia].
  Qed.

  Lemma decode_set_res c r ds : Inv c ->
    exists x, decode_set9 ops im addr c r ds = Ok x /\ Inv (fst x) /\
      match snd x with
      | SFatal => True
      | SCont r' ds' _ => adv r r' /\ rlen r' <= rlen r - 4 /\ len ds' <= len ds + (rlen r - rlen r')
      end.
  Proof.
    intros Hc. unfold decode_set9, uint16.
    destruct (uintN_cases 2 r) as [(v1 & r1 & E1)| ->]; [|cbn [bind catch]; eexists; split; [reflexivity|split; [exact Hc|exact I]]].
    rewrite E1. cbn [bind fst snd].
    destruct (uintN_adv 2 r v1 r1 ltac:(lia) E1) as [A1 L1].
    destruct (uintN_cases 2 r1) as [(v2 & r2 & E2)| ->]; [|cbn [bind catch]; eexists; split; [reflexivity|split; [exact Hc|exact I]]].
    rewrite E2. cbn [bind fst snd catch].
    destruct (uintN_adv 2 r1 v2 r2 ltac:(lia) E2) as [A2 L2].
    destruct (v2 <? 4); [eexists; split; [reflexivity|split; [exact Hc|exact I]]|].
    assert (Hlk : exists lk, (if 255 <? v1 then c_retrieve ops c v1 addr else Ok (Some empty_template)) = Ok lk).
    { destruct (255 <? v1); [apply retrieve_ok; exact Hc|eexists; reflexivity]. }
    destruct Hlk as [lk ->]. cbn [bind].
    assert (Hbody : exists x, match lk with
                              | None => Ok (c, SCont r2 ds true)
                              | Some tr => set_loop9 ops im (fuel_of r2) v1 v2 (count r) tr addr c r2 ds
                              end = Ok x /\ sres_ok r2 ds x).
    { destruct lk as [tr|]; [apply set_loop_res; [exact Hc|apply fuel_of_ok]|].
      eexists; split; [reflexivity|]. split; [exact Hc|]. cbn. split; [apply adv_refl|lia]. }
    destruct Hbody as ([c2 res] & -> & Hi & Hres). cbn [bind fst snd] in *.
    destruct res as [|r3 ds3 nf]; [eexists; split; [reflexivity|split; [exact Hi|exact I]]|].
    destruct Hres as [A3 L3].
    assert (A13 : adv r r3) by adv_chain.
    destruct A3 as [A3a A3b].
    match goal with |- context [if 0 <? ?lo then _ else _] => set (leftover := lo) end.
    destruct (0 <? leftover) eqn:El.
    - destruct (read_cases leftover r3) as [(b & r4 & E4)| ->]; [|cbn [catch bind]; eexists; split; [reflexivity|split; [exact Hi|exact I]]].
      rewrite E4. cbn [catch bind fst snd]. destruct (read_adv _ _ _ _ E4) as ([A4a A4b] & L4 & _).
      eexists; split; [reflexivity|]. split; [exact Hi|]. cbn. destruct A13. split; [split; lia|lia].
    - eexists; split; [reflexivity|]. split; [exact Hi|]. cbn. destruct A13. split; [split; lia|lia].
  Qed.

  Lemma sets_loop_res : forall fuel c r ds nf, Inv c -> rlen r < Z.of_nat fuel ->
    exists x, sets_loop9 ops im fuel addr c r ds nf = Ok x /\ Inv (fst x) /\
      match snd x with Some (ds', _) => len ds' <= len ds + rlen r | None => True end.
  Proof.
    induction fuel as [|k IH]; intros c r ds nf Hc Hf; [pose proof (rlen_nonneg r); lia|].
    cbn [sets_loop9]. destruct (4 <? rlen r).
    2: { eexists; split; [reflexivity|]. split; [exact Hc|]. cbn. pose proof (rlen_nonneg r). lia. }
    destruct (decode_set_res c r ds Hc) as ([c1 res] & -> & Hi & Hres). cbn [bind fst snd] in *.
    destruct res as [|r1 ds1 e]; [eexists; split; [reflexivity|split; [exact Hi|exact I]]|].
    destruct Hres as (A & L4 & Ld).
    destruct (IH c1 r1 ds1 (if e then nf + 1 else nf) Hi ltac:(lia)) as (x & Ex & Hix & Hx).
    exists x; split; [exact Ex|]. split; [exact Hix|]. destruct (snd x) as [[ds' n']|]; [|exact I]. lia.
  Qed.

  (* one datagram: never Panic, never Hang, invariant kept, records <= octets *)
  Theorem nf9_decode_safe c p : Inv c ->
    exists c' d, nf9_decode ops im hl c addr p = Ok (c', d) /\ Inv c' /\
      match d with DMsg m _ => len (n9_sets m) <= len p | DFail => True end.
  Proof.
    intros Hc. unfold nf9_decode.
    pose proof (read_layout_safe hl (new_reader p)) as [Hs1 Hs2].
    destruct (read_layout hl (new_reader p)) as [[hv r]| | |] eqn:Eh; cbn [catch bind]; try congruence.
    2: { do 2 eexists; split; [reflexivity|split; [exact Hc|exact I]]. }
    destruct (negb (field_get "Version" (combine (map fst hl) hv) =? 9)).
    { do 2 eexists; split; [reflexivity|split; [exact Hc|exact I]]. }
    destruct (sets_loop_res (fuel_of r) c r [] 0 Hc (fuel_of_ok r)) as ([c1 o] & -> & Hi & Ho).
    cbn [bind fst snd] in *. destruct o as [[ds nf]|].
    - do 2 eexists; split; [reflexivity|]. split; [exact Hi|]. cbn [n9_sets].
      rewrite len_nil in Ho. apply read_layout_shrinks in Eh. unfold rlen at 2 in Eh. cbn in Eh. lia.
    - do 2 eexists; split; [reflexivity|split; [exact Hi|exact I]].
  Qed.
End Safety9.
