(* C18: the sFlow type filter removes exactly the samples of the listed types; every other sample and
   counter of the same datagram is decoded exactly as without the filter — for datagrams whose
   supported samples are well delimited (decoding a sample consumes exactly its declared length, which
   is what "well-formed" means for the length fields). *)
From VF Require Import Base.Prelude Base.Json Model.Layout Model.Packet Model.Sflow.

Section Filter.
  Variables (fl cl el gl etl tl vl vll pl : layout) (ff cf ef gf etf tf vf vlf pf : list string).
  Notation dfs := (decode_flow_sample fl el ff ef).
  Notation dcs := (decode_counter_sample cl gl etl tl vl vll pl cf gf etf tf vf vlf pf).
  Notation sloop := (samples_loop fl cl el gl etl tl vl vll pl ff cf ef gf etf tf vf vlf pf).

  Definition shift (a c : list jv) (o : outcome sfres) : outcome sfres :=
    match o with Ok (SFOk s k) => Ok (SFOk (a ++ s) (c ++ k)) | other => other end.

  (* the accumulators only prefix the result *)
  Lemma loop_acc f : forall fuel n r ss cs, sloop fuel f n r ss cs = shift ss cs (sloop fuel f n r [] []).
  Proof.
    induction fuel as [|k IH]; intros n r ss cs; cbn [samples_loop].
    - destruct (n <=? 0); [cbn; now rewrite !app_nil_r|reflexivity].
    - destruct (n <=? 0); [cbn; now rewrite !app_nil_r|].
      destruct (catch (t <- sread_u 4 r;; l <- sread_u 4 (snd t);; Ok (fst t, fst l, snd l))) as [[[[ty l] r2]|]| | |]; try reflexivity.
      set (fmt := if ty / 4096 =? 0 then ty mod 4096 else ty).
      destruct (existsb (Z.eqb fmt) f); [apply IH|].
      destruct (fmt =? 1).
      + destruct (catch (dfs r2)) as [[[s r3]|]| | |]; try reflexivity.
        rewrite (IH (n - 1) r3 (ss ++ [s]) cs), (IH (n - 1) r3 ([] ++ [s]) []).
        destruct (sloop k f (n - 1) r3 [] []) as [[| |s0 c0]| | |]; cbn; try reflexivity. now rewrite <- app_assoc.
      + destruct (fmt =? 2); [|apply IH].
        destruct (catch (dcs r2)) as [[[s r3]|]| | |]; try reflexivity.
        rewrite (IH (n - 1) r3 ss (cs ++ [s])), (IH (n - 1) r3 [] ([] ++ [s])).
        destruct (sloop k f (n - 1) r3 [] []) as [[| |s0 c0]| | |]; cbn; try reflexivity. now rewrite <- app_assoc.
  Qed.

  Definition sample_hdr (r : sreader) : outcome (option (Z * Z * sreader)) :=
    catch (t <- sread_u 4 r ;; l <- sread_u 4 (snd t) ;; Ok (fst t, fst l, snd l)).
  Definition fmt_of (ty : Z) : Z := if ty / 4096 =? 0 then ty mod 4096 else ty.

  (* every flow / counter sample that decodes ends exactly where its declared length says *)
  Fixpoint well_delimited (fuel : nat) (n : Z) (r : sreader) : Prop :=
    if n <=? 0 then True
    else match fuel with
    | O => True
    | S k =>
      match sample_hdr r with
      | Ok (Some (ty, l, r2)) =>
          if fmt_of ty =? 1 then
            match dfs r2 with Ok (_, r3) => r3 = sseek l r2 /\ well_delimited k (n - 1) r3 | _ => True end
          else if fmt_of ty =? 2 then
            match dcs r2 with Ok (_, r3) => r3 = sseek l r2 /\ well_delimited k (n - 1) r3 | _ => True end
          else well_delimited k (n - 1) (sseek l r2)
      | _ => True
      end
    end.

  Definition listed (t : Z) (f : list Z) : bool := existsb (Z.eqb t) f.

  Theorem filter_exact (f : list Z) : forall fuel n r S C,
    sloop fuel [] n r [] [] = Ok (SFOk S C) -> well_delimited fuel n r ->
    sloop fuel f n r [] [] = Ok (SFOk (if listed 1 f then [] else S) (if listed 2 f then [] else C)).
  Proof.
    induction fuel as [|k IH]; intros n r S C H Hw; cbn [samples_loop well_delimited] in *.
    - destruct (n <=? 0); [|discriminate]. inversion H; subst. destruct (listed 1 f), (listed 2 f); reflexivity.
    - destruct (n <=? 0); [inversion H; subst; destruct (listed 1 f), (listed 2 f); reflexivity|].
      unfold sample_hdr in Hw.
      destruct (catch (t <- sread_u 4 r;; l <- sread_u 4 (snd t);; Ok (fst t, fst l, snd l))) as [[[[ty l] r2]|]| | |]; try discriminate.
      unfold fmt_of in Hw. set (fmt := if ty / 4096 =? 0 then ty mod 4096 else ty) in *.
      cbn [existsb] in H.
      destruct (fmt =? 1) eqn:E1.
      + apply Z.eqb_eq in E1.
        destruct (dfs r2) as [[s r3]| | |] eqn:Ed; cbn [catch] in H; try discriminate.
        destruct Hw as [-> Hw]. rewrite loop_acc in H.
        destruct (sloop k [] (n - 1) (sseek l r2) [] []) as [[| |S0 C0]| | |] eqn:Er; cbn [shift] in H; try discriminate.
        inversion H; subst S C; clear H. cbn [app]. specialize (IH (n - 1) (sseek l r2) S0 C0 Er Hw).
        destruct (existsb (Z.eqb fmt) f) eqn:Ef.
        * assert (L1 : listed 1 f = true) by (unfold listed; rewrite <- E1; exact Ef). rewrite L1 in *. exact IH.
        * assert (L1 : listed 1 f = false) by (unfold listed; rewrite <- E1; exact Ef). rewrite L1 in *.
          cbn [catch]. rewrite loop_acc, IH. reflexivity.
      + destruct (fmt =? 2) eqn:E2.
        * apply Z.eqb_eq in E2.
          destruct (dcs r2) as [[s r3]| | |] eqn:Ed; cbn [catch] in H; try discriminate.
          destruct Hw as [-> Hw]. rewrite loop_acc in H.
          destruct (sloop k [] (n - 1) (sseek l r2) [] []) as [[| |S0 C0]| | |] eqn:Er; cbn [shift] in H; try discriminate.
          inversion H; subst S C; clear H. cbn [app]. specialize (IH (n - 1) (sseek l r2) S0 C0 Er Hw).
          destruct (existsb (Z.eqb fmt) f) eqn:Ef.
          -- assert (L2 : listed 2 f = true) by (unfold listed; rewrite <- E2; exact Ef). rewrite L2 in *. exact IH.
          -- assert (L2 : listed 2 f = false) by (unfold listed; rewrite <- E2; exact Ef). rewrite L2 in *.
             cbn [catch]. rewrite loop_acc, IH. reflexivity.
        * destruct (existsb (Z.eqb fmt) f); apply IH; assumption.
  Qed.
End Filter.
