(* C06: NetFlow v9 (RFC 3954) round trip, the analogue of Proofs/IpfixFidelity.v.  Differences: no
   enterprise numbers and no variable-length fields; templates in flowset 0, options templates in
   flowset 1 carrying the scope and option LENGTHS in octets; set arithmetic in int (no wrap). *)
From VF Require Import Base.Prelude Model.Reader Model.Layout Model.JsonPieces Model.Flow Model.Cache Model.Nf9 Spec.FlowWire
  Proofs.ReaderProofs Proofs.LayoutProofs Proofs.FlowSafety Proofs.IpfixFidelity.

Section Rec9.
  Variable im : infomodel.

  (* a v9 field: fixed length, IANA element *)
  Definition wfield9_ok (w : wfield) : Prop :=
    f_pen (w_spec w) = 0 /\ (exists fid ty, im 0 (f_id (w_spec w)) = Some (fid, ty)) /\ len (w_content w) = f_len (w_spec w).
  Definition enc_record9 (ws : list wfield) : bytes := flat_map w_content ws.
  Definition expected_field9 (w : wfield) : dfield :=
    match im 0 (f_id (w_spec w)) with
    | Some (fid, ty) => {| d_id := fid; d_pen := 0; d_val := match interpret ty (w_content w) with Ok v => v | _ => VBytes (w_content w) end |}
    | None => {| d_id := 0; d_pen := 0; d_val := VBytes [] |}
    end.
  Definition expected_record9 (ws : list wfield) : record := map expected_field9 ws.

  Theorem decode_fields9_fidelity : forall (ws : list wfield) rest c acc,
    Forall wfield9_ok ws ->
    decode_fields9 im (map w_spec ws) {| data := enc_record9 ws ++ rest; count := c |} acc
    = Ok (Some (acc ++ expected_record9 ws), {| data := rest; count := c + len (enc_record9 ws) |}).
  Proof.
    induction ws as [|w ws IH]; intros rest c acc Hok; cbn [map decode_fields9 enc_record9 flat_map expected_record9].
    - cbn. now rewrite app_nil_r, Z.add_0_r.
    - apply Forall_cons_iff in Hok as [(Hp & (fid & ty & Him) & Hlen) Hok].
      rewrite <- app_assoc. rewrite (read_app (w_content w) _ c (f_len (w_spec w)) Hlen). cbn [bind fst snd].
      rewrite Him. destruct (interpret_ok ty (w_content w)) as [v Hv]. rewrite Hv. cbn [bind].
      fold (enc_record9 ws). rewrite IH by exact Hok. unfold expected_field9 at 1. rewrite Him, Hv.
      f_equal. f_equal; [rewrite <- app_assoc; reflexivity|]. f_equal. rewrite len_app. lia.
  Qed.

  Lemma enc_record9_app a b : enc_record9 (a ++ b) = enc_record9 a ++ enc_record9 b.
  Proof. apply flat_map_app. Qed.
  Lemma expected_record9_app a b : expected_record9 (a ++ b) = expected_record9 a ++ expected_record9 b.
  Proof. apply map_app. Qed.

  Theorem decode_data9_fidelity tr ws rest c :
    rec_matches tr ws -> Forall wfield9_ok ws ->
    decode_data9 im tr {| data := enc_record9 ws ++ rest; count := c |}
    = Ok (Some (expected_record9 ws), {| data := rest; count := c + len (enc_record9 ws) |}).
  Proof.
    intros (sc & fs & -> & Hsc & Hfs & Hne) Hok. apply Forall_app in Hok as [Hok1 Hok2].
    unfold decode_data9. rewrite <- Hsc, <- Hfs. rewrite enc_record9_app, <- app_assoc.
    rewrite (decode_fields9_fidelity sc _ c [] Hok1). cbn [bind fst snd app].
    rewrite (decode_fields9_fidelity fs rest _ _ Hok2). rewrite expected_record9_app, len_app. do 3 f_equal. lia.
  Qed.
End Rec9.

Section Set9.
  Context {C : Type}.
  Variable ops : cache_ops C.
  Variable im : infomodel.

  Definition recs_bytes9 (recs : list (list wfield)) : bytes := flat_map enc_record9 recs.

  Fixpoint tail_ok9 (recs : list (list wfield)) (pad : bytes) : Prop :=
    match recs with
    | [] => True
    | ws :: t => match t with [] => 5 <= len (enc_record9 ws) + len pad | _ => tail_ok9 t pad end
    end.

  Lemma tail_ok9_bound recs pad : recs <> [] -> tail_ok9 recs pad ->
    Forall (fun ws => 0 < len (enc_record9 ws)) recs -> 5 <= len (recs_bytes9 recs) + len pad.
  Proof.
    unfold recs_bytes9. induction recs as [|ws t IH]; [congruence|]. intros _ Hok Hpos.
    apply Forall_cons_iff in Hpos as [Hp1 Hp2]. cbn [flat_map]. rewrite len_app.
    destruct t as [|y l].
    - cbn [flat_map] in *. cbn [tail_ok9] in Hok. change (len (@nil Z)) with 0. lia.
    - assert (5 <= len (flat_map enc_record9 (y :: l)) + len pad) by (apply IH; [discriminate|exact Hok|exact Hp2]). lia.
  Qed.

  Theorem data_set_loop9_fidelity tr sid addr (c : C) : 255 < sid ->
    forall recs, Forall (rec_matches tr) recs -> Forall (Forall (wfield9_ok im)) recs ->
    Forall (fun ws => 0 < len (enc_record9 ws)) recs ->
    forall pad rest L start cnt ds fuel,
    0 <= cnt - start -> cnt - start + len (recs_bytes9 recs) + len pad = L ->
    len pad <= 4 -> tail_ok9 recs pad -> (length recs < fuel)%nat ->
    set_loop9 ops im fuel sid L start tr addr c {| data := recs_bytes9 recs ++ pad ++ rest; count := cnt |} ds
    = Ok (c, SCont {| data := pad ++ rest; count := cnt + len (recs_bytes9 recs) |} (ds ++ map (expected_record9 im) recs) false).
  Proof.
    intros Hsid. induction recs as [|ws recs IH]; intros Hm Hok Hpos pad rest L start cnt ds fuel Hc HL Hpad Hlast Hfuel.
    - destruct fuel as [|k]; [cbn in Hfuel; lia|]. cbn [set_loop9 recs_bytes9 flat_map app map count data].
      unfold recs_bytes9 in HL; cbn [flat_map] in HL. change (len (@nil Z)) with 0 in HL. pose proof (len_nonneg pad).
      replace (4 <? L - (cnt - start)) with false by lia. cbn [andb]. now rewrite app_nil_r, Z.add_0_r.
    - destruct fuel as [|k]; [cbn in Hfuel; lia|].
      pose proof (tail_ok9_bound (ws :: recs) pad ltac:(discriminate) Hlast Hpos) as Htail.
      apply Forall_cons_iff in Hm as [Hm1 Hm2]. apply Forall_cons_iff in Hok as [Hok1 Hok2]. apply Forall_cons_iff in Hpos as [Hp1 Hp2].
      cbn [set_loop9]. unfold recs_bytes9 in *. cbn [flat_map map] in *. rewrite len_app in HL, Htail.
      pose proof (len_nonneg pad). pose proof (len_nonneg (flat_map enc_record9 recs)). pose proof (len_nonneg rest).
      unfold rlen; cbn [data count]. rewrite !len_app.
      replace (4 <? L - (cnt - start)) with true by lia.
      replace (4 <? len (enc_record9 ws) + len (flat_map enc_record9 recs) + (len pad + len rest)) with true by lia.
      cbn [andb].
      replace ((sid =? 0) || (sid =? 1)) with false by lia.
      replace ((2 <=? sid) && (sid <=? 255)) with false by lia.
      rewrite <- app_assoc. rewrite (decode_data9_fidelity im tr ws _ cnt Hm1 Hok1). cbn [catch bind count].
      replace (cnt + len (enc_record9 ws) =? cnt) with false by lia.
      rewrite (IH Hm2 Hok2 Hp2 pad rest L start (cnt + len (enc_record9 ws)) (ds ++ [expected_record9 im ws]) k); try lia.
      + f_equal. f_equal. f_equal; [f_equal; lia|rewrite <- app_assoc; reflexivity].
      + destruct recs; [exact I|exact Hlast].
      + cbn in Hfuel; lia.
  Qed.
End Set9.

Section DataSet9.
  Variable im : infomodel.

  Definition enc_data_set9 (sid : Z) (recs : list (list wfield)) (pad : bytes) : bytes :=
    enc 2 sid ++ enc 2 (4 + len (recs_bytes9 recs) + len pad) ++ recs_bytes9 recs ++ pad.

  Lemma recs_fuel9 recs : Forall (fun ws => 0 < len (enc_record9 ws)) recs -> (length recs <= length (recs_bytes9 recs))%nat.
  Proof.
    unfold recs_bytes9. induction recs as [|ws recs IH]; intros H; [cbn; lia|]. apply Forall_cons_iff in H as [H1 H2].
    cbn [flat_map length]. rewrite app_length. specialize (IH H2). unfold len in H1. lia.
  Qed.

  Theorem data_set9_fidelity (a : bytes) (m : amap) tr sid recs pad rest cnt ds :
    255 < sid < 65536 -> amap_get a (sid mod 65536) m = Some tr ->
    Forall (rec_matches tr) recs -> Forall (Forall (wfield9_ok im)) recs ->
    Forall (fun ws => 0 < len (enc_record9 ws)) recs ->
    len pad <= 3 -> tail_ok9 recs pad -> 4 + len (recs_bytes9 recs) + len pad < 65536 ->
    decode_set9 am_ops im a m {| data := enc_data_set9 sid recs pad ++ rest; count := cnt |} ds
    = Ok (m, SCont {| data := rest; count := cnt + len (enc_data_set9 sid recs pad) |} (ds ++ map (expected_record9 im) recs) false).
  Proof.
    intros Hsid Hget Hm Hok Hpos Hpad Htail HL.
    pose proof (len_nonneg pad) as Hp0. pose proof (len_nonneg (recs_bytes9 recs)) as Hr0.
    unfold decode_set9, enc_data_set9, uint16. rewrite <- !app_assoc.
    rewrite (uintN_app (enc 2 sid) _ cnt 2) by (rewrite ?len_enc; lia). cbn [bind fst snd].
    rewrite (uintN_app (enc 2 (4 + len (recs_bytes9 recs) + len pad)) _ (cnt + 2) 2) by (rewrite ?len_enc; lia).
    cbn [bind fst snd catch count]. rewrite !be_enc2 by lia.
    replace (4 + len (recs_bytes9 recs) + len pad <? 4) with false by lia.
    replace (255 <? sid) with true by lia. cbn [c_retrieve am_ops bind]. rewrite Hget. cbn [bind].
    rewrite (data_set_loop9_fidelity am_ops im tr sid a m ltac:(lia) recs Hm Hok Hpos pad rest
               (4 + len (recs_bytes9 recs) + len pad) cnt (cnt + 2 + 2) ds); try lia; try assumption.
    2: { unfold Nf9.fuel_of; cbn [data]. rewrite app_length. pose proof (recs_fuel9 recs Hpos). lia. }
    cbn [bind snd fst count].
    replace (4 + len (recs_bytes9 recs) + len pad - (cnt + 2 + 2 + len (recs_bytes9 recs) - cnt)) with (len pad) by lia.
    destruct (0 <? len pad) eqn:Ep.
    - rewrite (read_app pad rest _ (len pad) eq_refl). cbn [catch bind fst snd].
      do 3 f_equal. rewrite !len_app, !len_enc. f_equal. lia.
    - assert (pad = []) by (destruct pad as [|x p]; [reflexivity|rewrite len_cons in Ep; pose proof (len_nonneg p); lia]). subst pad. cbn [app].
      do 3 f_equal. rewrite ?len_app, ?len_enc, ?app_nil_r. f_equal. change (len (@nil Z)) with 0. lia.
  Qed.
End DataSet9.

(* ---------- template records (no enterprise bit) ---------- *)
Definition wspec9_ok (w : wspec) : Prop := 0 <= ws_id w < 65536 /\ 0 <= ws_len w < 65536 /\ ws_ent w = None.
Definition enc_wspec9 (w : wspec) : bytes := enc 2 (ws_id w) ++ enc 2 (ws_len w).

Lemma read_fspec9_fidelity w rest c : wspec9_ok w ->
  read_fspec9 {| data := enc_wspec9 w ++ rest; count := c |} = Ok (to_fspec w, {| data := rest; count := c + 4 |}).
Proof.
  intros (Hid & Hl & He). unfold read_fspec9, enc_wspec9, to_fspec, uint16. rewrite He. rewrite <- !app_assoc.
  rewrite (uintN_app (enc 2 (ws_id w)) _ c 2) by (rewrite ?len_enc; lia). cbn [bind fst snd].
  rewrite (uintN_app (enc 2 (ws_len w)) rest (c + 2) 2) by (rewrite ?len_enc; lia). cbn [bind fst snd].
  rewrite !be_enc2 by lia. do 3 f_equal. lia.
Qed.

Lemma len_specs9 ws : len (flat_map enc_wspec9 ws) = 4 * len ws.
Proof. induction ws as [|w ws IH]; [reflexivity|]. cbn [flat_map]. unfold enc_wspec9 at 1. rewrite !len_app, !len_enc, IH, len_cons. lia. Qed.

Lemma read_fspecs9_fidelity : forall ws rest c acc fuel, Forall wspec9_ok ws -> (length ws < fuel)%nat ->
  read_fspecs9 fuel (len ws) {| data := flat_map enc_wspec9 ws ++ rest; count := c |} acc
  = Ok (acc ++ map to_fspec ws, {| data := rest; count := c + 4 * len ws |}).
Proof.
  induction ws as [|w ws IH]; intros rest c acc fuel Hok Hf.
  - destruct fuel; cbn; rewrite app_nil_r, Z.add_0_r; reflexivity.
  - destruct fuel as [|k]; [cbn in Hf; lia|]. apply Forall_cons_iff in Hok as [H1 H2].
    cbn [read_fspecs9]. rewrite len_cons. pose proof (len_nonneg ws). destruct (1 + len ws <=? 0) eqn:E; [lia|].
    cbn [flat_map]. rewrite <- app_assoc. rewrite (read_fspec9_fidelity w _ c H1). cbn [bind fst snd].
    replace (1 + len ws - 1) with (len ws) by lia. rewrite IH by (try assumption; cbn in Hf; lia).
    cbn [map]. rewrite <- app_assoc. cbn [app]. do 3 f_equal. lia.
Qed.

Definition enc_wtemplate9 (t : wtemplate) : bytes :=
  if wt_opts t then
    enc 2 (wt_id t) ++ enc 2 (4 * len (wt_scope t)) ++ enc 2 (4 * len (wt_fields t))
    ++ flat_map enc_wspec9 (wt_scope t) ++ flat_map enc_wspec9 (wt_fields t)
  else enc 2 (wt_id t) ++ enc 2 (len (wt_fields t)) ++ flat_map enc_wspec9 (wt_fields t).
Definition template_of9 (t : wtemplate) : template :=
  if wt_opts t then
    {| t_id := wt_id t; t_fcount := 0; t_fields := map to_fspec (wt_fields t); t_scount := 0; t_scope := map to_fspec (wt_scope t) |}
  else {| t_id := wt_id t; t_fcount := len (wt_fields t); t_fields := map to_fspec (wt_fields t); t_scount := 0; t_scope := [] |}.
Definition wtemplate9_ok (t : wtemplate) : Prop :=
  256 <= wt_id t < 65536 /\ Forall wspec9_ok (wt_scope t) /\ Forall wspec9_ok (wt_fields t) /\
  4 * len (wt_scope t) < 65536 /\ 4 * len (wt_fields t) < 65536 /\ (wt_opts t = false -> wt_scope t = []) /\ wt_fields t <> [].

Lemma fuel_specs9 ws rest : (length ws < S (length (flat_map enc_wspec9 ws ++ rest)))%nat.
Proof. rewrite app_length. pose proof (len_specs9 ws). unfold len in H. lia. Qed.

Lemma read_wtemplate9_fidelity t rest c : wtemplate9_ok t ->
  (if wt_opts t then read_opts_template9 else read_template9) {| data := enc_wtemplate9 t ++ rest; count := c |}
  = Ok (template_of9 t, {| data := rest; count := c + len (enc_wtemplate9 t) |}).
Proof.
  intros (Hid & Hsc & Hfs & Hn1 & Hn2 & Hpl & Hne). pose proof (len_nonneg (wt_scope t)). pose proof (len_nonneg (wt_fields t)).
  unfold enc_wtemplate9, template_of9. destruct (wt_opts t).
  - unfold read_opts_template9, uint16. rewrite <- !app_assoc.
    rewrite (uintN_app (enc 2 (wt_id t)) _ c 2) by (rewrite ?len_enc; lia). cbn [bind fst snd].
    rewrite (uintN_app (enc 2 (4 * len (wt_scope t))) _ (c + 2) 2) by (rewrite ?len_enc; lia). cbn [bind fst snd].
    rewrite (uintN_app (enc 2 (4 * len (wt_fields t))) _ (c + 2 + 2) 2) by (rewrite ?len_enc; lia). cbn [bind fst snd].
    rewrite !be_enc2 by lia.
    replace (4 * len (wt_scope t) / 4) with (len (wt_scope t)) by lia.
    replace (4 * len (wt_fields t) / 4) with (len (wt_fields t)) by lia.
    rewrite (read_fspecs9_fidelity (wt_scope t) _ _ [] _ Hsc) by (unfold Nf9.fuel_of; cbn [data]; apply fuel_specs9).
    cbn [bind fst snd app].
    rewrite (read_fspecs9_fidelity (wt_fields t) rest _ [] _ Hfs) by (unfold Nf9.fuel_of; cbn [data]; rewrite <- (app_nil_r (flat_map enc_wspec9 (wt_fields t) ++ rest)); rewrite <- app_assoc; apply fuel_specs9).
    cbn [bind fst snd app]. do 3 f_equal. rewrite !len_app, !len_enc, !len_specs9. lia.
  - unfold read_template9, uint16. rewrite <- !app_assoc.
    rewrite (uintN_app (enc 2 (wt_id t)) _ c 2) by (rewrite ?len_enc; lia). cbn [bind fst snd].
    rewrite (uintN_app (enc 2 (len (wt_fields t))) _ (c + 2) 2) by (rewrite ?len_enc; lia). cbn [bind fst snd].
    rewrite !be_enc2 by lia.
    rewrite (read_fspecs9_fidelity (wt_fields t) rest _ [] _ Hfs) by (unfold Nf9.fuel_of; cbn [data]; rewrite <- (app_nil_r (flat_map enc_wspec9 (wt_fields t) ++ rest)); rewrite <- app_assoc; apply fuel_specs9).
    cbn [bind fst snd app]. do 3 f_equal. rewrite !len_app, !len_enc, !len_specs9. lia.
Qed.

Section TemplateSet9.
  Variable im : infomodel.

  Definition tpls_bytes9 (ts : list wtemplate) : bytes := flat_map enc_wtemplate9 ts.
  Definition insert_all9 (a : bytes) (ts : list wtemplate) (m : amap) : amap :=
    fold_left (fun acc t => ((a, wt_id t mod 65536), template_of9 t) :: acc) ts m.

  Lemma enc_wtemplate9_len t : wtemplate9_ok t -> 8 <= len (enc_wtemplate9 t).
  Proof.
    intros (_ & _ & _ & _ & _ & _ & Hne). unfold enc_wtemplate9.
    destruct (wt_fields t) as [|w ws]; [congruence|]. pose proof (len_nonneg ws). pose proof (len_nonneg (wt_scope t)).
    destruct (wt_opts t); rewrite !len_app, !len_enc, !len_specs9, ?len_cons; lia.
  Qed.

  Theorem template_loop9_fidelity (a : bytes) sid tr : (sid = 0 \/ sid = 1) ->
    forall ts, Forall wtemplate9_ok ts -> Forall (fun t => wt_opts t = (sid =? 1)) ts ->
    forall m pad rest L start cnt ds fuel,
    0 <= cnt - start -> cnt - start + len (tpls_bytes9 ts) + len pad = L -> len pad <= 4 ->
    (length ts < fuel)%nat ->
    set_loop9 am_ops im fuel sid L start tr a m {| data := tpls_bytes9 ts ++ pad ++ rest; count := cnt |} ds
    = Ok (insert_all9 a ts m, SCont {| data := pad ++ rest; count := cnt + len (tpls_bytes9 ts) |} ds false).
  Proof.
    intros Hsid. induction ts as [|t ts IH]; intros Hok Hkind m pad rest L start cnt ds fuel Hc HL Hpad Hfuel.
    - destruct fuel as [|k]; [cbn in Hfuel; lia|]. cbn [set_loop9 tpls_bytes9 flat_map app count data insert_all9 fold_left].
      unfold tpls_bytes9 in HL; cbn [flat_map] in HL. change (len (@nil Z)) with 0 in HL. pose proof (len_nonneg pad).
      replace (4 <? L - (cnt - start)) with false by lia. cbn [andb]. now rewrite Z.add_0_r.
    - destruct fuel as [|k]; [cbn in Hfuel; lia|].
      apply Forall_cons_iff in Hok as [Hok1 Hok2]. apply Forall_cons_iff in Hkind as [Hk1 Hk2].
      pose proof (enc_wtemplate9_len t Hok1) as Hlen8.
      cbn [set_loop9]. unfold tpls_bytes9 in *. cbn [flat_map] in *. rewrite len_app in HL.
      pose proof (len_nonneg pad). pose proof (len_nonneg (flat_map enc_wtemplate9 ts)). pose proof (len_nonneg rest).
      unfold rlen; cbn [data count]. rewrite !len_app.
      replace (4 <? L - (cnt - start)) with true by lia.
      replace (4 <? len (enc_wtemplate9 t) + len (flat_map enc_wtemplate9 ts) + (len pad + len rest)) with true by lia.
      cbn [andb]. replace ((sid =? 0) || (sid =? 1)) with true by lia.
      assert (Hrd : (if sid =? 0 then read_template9 {| data := (enc_wtemplate9 t ++ flat_map enc_wtemplate9 ts) ++ pad ++ rest; count := cnt |}
                     else read_opts_template9 {| data := (enc_wtemplate9 t ++ flat_map enc_wtemplate9 ts) ++ pad ++ rest; count := cnt |})
                    = Ok (template_of9 t, {| data := flat_map enc_wtemplate9 ts ++ pad ++ rest; count := cnt + len (enc_wtemplate9 t) |})).
      { rewrite <- app_assoc. pose proof (read_wtemplate9_fidelity t (flat_map enc_wtemplate9 ts ++ pad ++ rest) cnt Hok1) as Hr.
        rewrite Hk1 in Hr. destruct Hsid as [-> | ->]; cbn [Z.eqb Pos.eqb] in *; exact Hr. }
      rewrite Hrd. cbn [catch bind c_insert am_ops].
      rewrite (IH Hok2 Hk2 _ pad rest L start (cnt + len (enc_wtemplate9 t)) ds k); try lia.
      + cbn [insert_all9 fold_left]. unfold template_of9 at 1. destruct (wt_opts t); cbn [t_id];
          (f_equal; f_equal; f_equal; [f_equal; lia|reflexivity]) || (do 3 f_equal; f_equal; lia).
      + cbn in Hfuel; lia.
  Qed.
End TemplateSet9.

Section Message9.
  Variable im : infomodel.
  Variable hl : layout.

  Definition enc_tpl_set9 (opts : bool) (ts : list wtemplate) (pad : bytes) : bytes :=
    enc 2 (if opts then 1 else 0) ++ enc 2 (4 + len (tpls_bytes9 ts) + len pad) ++ tpls_bytes9 ts ++ pad.
  Definition enc_set9 (s : wset) : bytes :=
    match s with WTpl o ts pad => enc_tpl_set9 o ts pad | WData sid recs pad => enc_data_set9 sid recs pad end.

  Fixpoint sets_ok9 (a : bytes) (m : amap) (sets : list wset) : Prop :=
    match sets with
    | [] => True
    | WTpl o ts pad :: r =>
        Forall wtemplate9_ok ts /\ Forall (fun t => wt_opts t = o) ts /\ ts <> [] /\ len pad <= 3 /\
        4 + len (tpls_bytes9 ts) + len pad < 65536 /\ sets_ok9 a (insert_all9 a ts m) r
    | WData sid recs pad :: r =>
        (exists tr, 255 < sid < 65536 /\ amap_get a (sid mod 65536) m = Some tr /\ Forall (rec_matches tr) recs) /\
        Forall (Forall (wfield9_ok im)) recs /\ Forall (fun ws => 0 < len (enc_record9 ws)) recs /\ recs <> [] /\
        len pad <= 3 /\ tail_ok9 recs pad /\ 4 + len (recs_bytes9 recs) + len pad < 65536 /\ sets_ok9 a m r
    end.

  Fixpoint expected_sets9 (sets : list wset) : list record :=
    match sets with
    | [] => []
    | WTpl _ _ _ :: r => expected_sets9 r
    | WData _ recs _ :: r => map (expected_record9 im) recs ++ expected_sets9 r
    end.
  Fixpoint final_map9 (a : bytes) (m : amap) (sets : list wset) : amap :=
    match sets with
    | [] => m
    | WTpl _ ts _ :: r => final_map9 a (insert_all9 a ts m) r
    | WData _ _ _ :: r => final_map9 a m r
    end.

  Theorem tpl_set9_fidelity (a : bytes) (m : amap) o ts pad rest cnt ds :
    Forall wtemplate9_ok ts -> Forall (fun t => wt_opts t = o) ts -> len pad <= 3 ->
    4 + len (tpls_bytes9 ts) + len pad < 65536 ->
    decode_set9 am_ops im a m {| data := enc_tpl_set9 o ts pad ++ rest; count := cnt |} ds
    = Ok (insert_all9 a ts m, SCont {| data := rest; count := cnt + len (enc_tpl_set9 o ts pad) |} ds false).
  Proof.
    intros Hok Hk Hpad HL. pose proof (len_nonneg pad) as Hp0. pose proof (len_nonneg (tpls_bytes9 ts)) as Hr0.
    set (sid := if o then 1 else 0). assert (Hsid : sid = 0 \/ sid = 1) by (subst sid; destruct o; auto).
    unfold decode_set9, enc_tpl_set9, uint16. fold sid. rewrite <- !app_assoc.
    rewrite (uintN_app (enc 2 sid) _ cnt 2) by (rewrite ?len_enc; lia). cbn [bind fst snd].
    rewrite (uintN_app (enc 2 (4 + len (tpls_bytes9 ts) + len pad)) _ (cnt + 2) 2) by (rewrite ?len_enc; lia).
    cbn [bind fst snd catch count]. rewrite !be_enc2 by lia.
    replace (4 + len (tpls_bytes9 ts) + len pad <? 4) with false by lia.
    replace (255 <? sid) with false by lia. cbn [bind].
    assert (Hk' : Forall (fun t => wt_opts t = (sid =? 1)) ts).
    { eapply Forall_impl; [|exact Hk]. intros t ->. subst sid. destruct o; reflexivity. }
    rewrite (template_loop9_fidelity im a sid empty_template Hsid ts Hok Hk' m pad rest
               (4 + len (tpls_bytes9 ts) + len pad) cnt (cnt + 2 + 2) ds); try lia.
    2: { unfold Nf9.fuel_of; cbn [data]. rewrite app_length.
         assert (length ts <= length (tpls_bytes9 ts))%nat.
         { clear - Hok. unfold tpls_bytes9. induction ts as [|t ts IH]; [cbn; lia|]. apply Forall_cons_iff in Hok as [H1 H2].
           cbn [flat_map length]. rewrite app_length. specialize (IH H2). pose proof (enc_wtemplate9_len t H1). unfold len in *. lia. }
         lia. }
    cbn [bind snd fst count].
    replace (4 + len (tpls_bytes9 ts) + len pad - (cnt + 2 + 2 + len (tpls_bytes9 ts) - cnt)) with (len pad) by lia.
    destruct (0 <? len pad) eqn:Ep.
    - rewrite (read_app pad rest _ (len pad) eq_refl). cbn [catch bind fst snd].
      do 3 f_equal. rewrite !len_app, !len_enc. f_equal. lia.
    - assert (pad = []) by (destruct pad as [|x p]; [reflexivity|rewrite len_cons in Ep; pose proof (len_nonneg p); lia]). subst pad. cbn [app].
      do 3 f_equal. rewrite ?len_app, ?len_enc, ?app_nil_r. f_equal. change (len (@nil Z)) with 0. lia.
  Qed.

  Lemma enc_set9_len a m s r : sets_ok9 a m (s :: r) -> 5 <= len (enc_set9 s).
  Proof.
    destruct s as [o ts pad|sid recs pad]; cbn [sets_ok9 enc_set9].
    - intros (Hok & _ & Hne & _). unfold enc_tpl_set9. rewrite !len_app, !len_enc. pose proof (len_nonneg pad).
      destruct ts as [|t ts]; [congruence|]. apply Forall_cons_iff in Hok as [H1 _]. pose proof (enc_wtemplate9_len t H1).
      unfold tpls_bytes9; cbn [flat_map]. rewrite len_app. pose proof (len_nonneg (flat_map enc_wtemplate9 ts)). lia.
    - intros (_ & _ & Hpos & Hne & _ & Htail & _). unfold enc_data_set9. rewrite !len_app, !len_enc.
      pose proof (tail_ok9_bound recs pad Hne Htail Hpos). lia.
  Qed.

  Theorem sets_loop9_fidelity (a : bytes) : forall sets m cnt ds nf fuel,
    sets_ok9 a m sets -> (length sets < fuel)%nat ->
    sets_loop9 am_ops im fuel a m {| data := flat_map enc_set9 sets; count := cnt |} ds nf
    = Ok (final_map9 a m sets, Some (ds ++ expected_sets9 sets, nf)).
  Proof.
    induction sets as [|s sets IH]; intros m cnt ds nf fuel Hok Hf.
    - destruct fuel as [|k]; [cbn in Hf; lia|]. cbn [sets_loop9 flat_map]. unfold rlen; cbn. now rewrite app_nil_r.
    - destruct fuel as [|k]; [cbn in Hf; lia|]. pose proof (enc_set9_len a m s sets Hok) as Hl5.
      cbn [sets_loop9 flat_map]. unfold rlen; cbn [data]. rewrite len_app. pose proof (len_nonneg (flat_map enc_set9 sets)).
      replace (4 <? len (enc_set9 s) + len (flat_map enc_set9 sets)) with true by lia.
      destruct s as [o ts pad|sid recs pad]; cbn [sets_ok9 enc_set9 expected_sets9 final_map9] in *.
      + destruct Hok as (H1 & H2 & _ & H4 & H5 & Hr).
        rewrite (tpl_set9_fidelity a m o ts pad _ cnt ds H1 H2 H4 H5). cbn [bind fst snd].
        apply IH; [exact Hr|cbn in Hf; lia].
      + destruct Hok as ((tr & Hs & Hg & Hm) & H2 & H3 & _ & H5 & H6 & H7 & Hr).
        rewrite (data_set9_fidelity im a m tr sid recs pad _ cnt ds Hs Hg Hm H2 H3 H5 H6 H7). cbn [bind fst snd].
        rewrite (IH m _ (ds ++ map (expected_record9 im) recs) nf k Hr ltac:(cbn in Hf; lia)).
        now rewrite <- app_assoc.
  Qed.

  Definition named9 (L : layout) (vs : list Z) : list (string * Z) := combine (map fst L) vs.

  (* C06: the whole export packet.  hvals: the six header fields; any exporter address; any cache state m *)
  Theorem nf9_fidelity (a : bytes) (m : amap) hvals sets :
    fits hl hvals -> field_get "Version" (named9 hl hvals) = 9 -> sets_ok9 a m sets ->
    nf9_decode am_ops im hl m a (enc_layout hl hvals ++ flat_map enc_set9 sets)
    = Ok (final_map9 a m sets,
          DMsg {| n9_agent := a; n9_header := named9 hl hvals; n9_sets := expected_sets9 sets |} 0).
  Proof.
    intros Hfit Hv Hok. unfold nf9_decode, new_reader. rewrite (read_layout_app hl hvals _ 0 Hfit). cbn [catch bind].
    fold (named9 hl hvals). rewrite Hv. cbn [Z.eqb Pos.eqb negb].
    rewrite (sets_loop9_fidelity a sets m _ [] 0 _ Hok).
    - cbn [bind fst snd app]. reflexivity.
    - unfold Nf9.fuel_of; cbn [data].
      assert (length sets <= length (flat_map enc_set9 sets))%nat.
      { clear - Hok. revert m Hok. induction sets as [|s sets IH]; intros m Hok; [cbn; lia|].
        pose proof (enc_set9_len a m s sets Hok) as H5. cbn [flat_map length]. rewrite app_length.
        assert (Hr : exists m', sets_ok9 a m' sets) by (destruct s; cbn [sets_ok9] in Hok; [exists (insert_all9 a ts m)|exists m]; tauto).
        destruct Hr as [m' Hr]. specialize (IH m' Hr). unfold len in H5. lia. }
      lia.
  Qed.
End Message9.
