(* Reader lemmas in "view" form: `view r t` says that the unread octets of the bytes.Reader r are exactly t.  Each
   operation on a reader whose view starts with the octets it wants returns their value and leaves the rest. *)
From VF Require Import Base.Prelude Base.Json Model.Layout Model.JsonPieces Model.Sflow
  Proofs.ReaderProofs Proofs.LayoutProofs Proofs.SflowLayouts.

Definition view (r : sreader) (t : bytes) : Prop := exists pre, sd r = pre ++ t /\ sp r = len pre.

Lemma view_intro pre t : view {| sd := pre ++ t; sp := len pre |} t.
Proof. exists pre. split; reflexivity. Qed.

Lemma view_eta r a t : view r (a ++ t) -> exists pre, r = {| sd := pre ++ a ++ t; sp := len pre |}.
Proof. intros (pre & E1 & E2). exists pre. destruct r as [d p]. cbn in *. subst. reflexivity. Qed.

Lemma view_after pre a t : view {| sd := pre ++ a ++ t; sp := len pre + len a |} t.
Proof. exists (pre ++ a). split; [now rewrite <- app_assoc|now rewrite len_app]. Qed.

Lemma sread_u_view n r a t : view r (a ++ t) -> len a = n -> 0 < n ->
  exists r', sread_u n r = Ok (be a, r') /\ view r' t.
Proof.
  intros V Hl Hn. destruct (view_eta _ _ _ V) as [pre ->]. rewrite (sread_u_at pre a t n Hl Hn).
  eexists; split; [reflexivity|]. rewrite <- Hl. apply view_after.
Qed.

Lemma sread_full_view n r a t : view r (a ++ t) -> len a = n -> 0 < n ->
  exists r', sread_full n r = Ok (a, r') /\ view r' t.
Proof.
  intros V Hl Hn. destruct (view_eta _ _ _ V) as [pre ->]. unfold sread_full, srem; cbn [sd sp].
  destruct (n =? 0) eqn:E0; [lia|]. rewrite !len_app. pose proof (len_nonneg t).
  destruct (len pre + (len a + len t) - len pre <? n) eqn:E1; [lia|].
  assert (Hp : Z.to_nat (len pre) = length pre) by (unfold len; lia).
  assert (Ha : Z.to_nat n = length a) by (unfold len in Hl; lia).
  rewrite Hp, skipn_app_exact, Ha, firstn_app_exact. eexists; split; [reflexivity|]. rewrite <- Hl. apply view_after.
Qed.

Lemma sread_buf_view n r a t : view r (a ++ t) -> len a = n -> 0 < n ->
  exists r', sread_buf n r = Ok (a, r') /\ view r' t.
Proof.
  intros V Hl Hn. destruct (view_eta _ _ _ V) as [pre ->]. unfold sread_buf, srem; cbn [sd sp]. rewrite !len_app. pose proof (len_nonneg t).
  destruct (len pre + (len a + len t) - len pre <=? 0) eqn:E1; [lia|].
  replace (Z.min n (len pre + (len a + len t) - len pre)) with n by lia. replace (n - n) with 0 by lia. cbn [Z.to_nat repeat]. rewrite app_nil_r.
  assert (Hp : Z.to_nat (len pre) = length pre) by (unfold len; lia).
  assert (Ha : Z.to_nat n = length a) by (unfold len in Hl; lia).
  rewrite Hp, skipn_app_exact, Ha, firstn_app_exact. eexists; split; [reflexivity|]. rewrite <- Hl. apply view_after.
Qed.

Lemma sseek_view n r a t : view r (a ++ t) -> len a = n -> view (sseek n r) t.
Proof.
  intros V Hl. destruct (view_eta _ _ _ V) as [pre ->]. unfold sseek; cbn [sd sp]. pose proof (len_nonneg pre). pose proof (len_nonneg a).
  destruct (len pre + n <? 0) eqn:E; [lia|]. rewrite <- Hl. apply view_after.
Qed.

Lemma sread_layout_view L vs r t : view r (enc_layout L vs ++ t) -> fits_s L vs ->
  exists r', sread_layout L r = Ok (named_s L vs, r') /\ view r' t.
Proof.
  intros V Hf. destruct (view_eta _ _ _ V) as [pre ->]. rewrite (sread_layout_at L vs pre t Hf).
  eexists; split; [reflexivity|]. exists (pre ++ enc_layout L vs). cbn [sd sp]. split; [now rewrite <- app_assoc|].
  rewrite len_app. f_equal. clear V. revert vs Hf. induction L as [|[nm w] L IH]; intros [|v vs] Hf; cbn in Hf; try contradiction; [reflexivity|].
  destruct Hf as (Hw & Hv & Hf). cbn [enc_layout layout_size fold_right snd]. rewrite len_app, len_enc, <- (IH vs Hf). fold (layout_size L). lia.
Qed.
