From VF Require Import Base.Prelude Model.Reader.

Lemma len_app {A} (a b : list A) : len (a ++ b) = len a + len b.
Proof. unfold len; rewrite app_length; lia. Qed.
Lemma len_nonneg {A} (l : list A) : 0 <= len l. Proof. unfold len; lia. Qed.
Lemma len_nil {A} : len (@nil A) = 0. Proof. reflexivity. Qed.
Lemma len_cons {A} (x : A) l : len (x :: l) = 1 + len l.
Proof. unfold len; cbn [length]; lia. Qed.
Lemma len_firstn {A} (l : list A) n : 0 <= n <= len l -> len (firstn (Z.to_nat n) l) = n.
Proof. unfold len; intros; rewrite firstn_length; lia. Qed.
Lemma len_skipn {A} (l : list A) n : 0 <= n <= len l -> len (skipn (Z.to_nat n) l) = len l - n.
Proof. unfold len; intros; rewrite skipn_length; lia. Qed.

Lemma skipn_skipn {A} (a b : nat) (l : list A) : skipn a (skipn b l) = skipn (b + a) l.
Proof.
  revert l; induction b as [|b IH]; intros l; [reflexivity|].
  destruct l as [|x l]; cbn [skipn plus]; [now destruct a|apply IH].
Qed.

(* ---------- the invariant: the reader is a cursor into the original buffer ---------- *)
Definition cursor (b : bytes) (r : reader) : Prop :=
  0 <= count r <= len b /\ data r = skipn (Z.to_nat (count r)) b.

Lemma cursor_new b : cursor b (new_reader b).
Proof. unfold cursor, new_reader; cbn. pose proof (len_nonneg b). split; [lia|reflexivity]. Qed.

Lemma cursor_len b r : cursor b r -> count r + rlen r = len b.
Proof.
  intros [Hc Hd]. unfold rlen. rewrite Hd. rewrite len_skipn by lia. lia.
Qed.

Lemma cursor_advance b r n : cursor b r -> 0 <= n <= rlen r -> cursor b (advance n r).
Proof.
  intros Hcur Hn. pose proof (cursor_len b r Hcur) as Hl. destruct Hcur as [Hc Hd].
  unfold cursor, advance; cbn [data count]. split; [lia|].
  rewrite Hd, skipn_skipn. f_equal. lia.
Qed.

(* ---------- per-operation specifications ---------- *)
Lemma uintN_ok n r : 0 < n -> n <= rlen r ->
  uintN n r = Ok (be (firstn (Z.to_nat n) (data r)), advance n r).
Proof. intros Hn Hl. unfold uintN. destruct (rlen r <? n) eqn:E; [lia|reflexivity]. Qed.

Lemma uintN_fail n r : rlen r < n -> uintN n r = Err EShort.
Proof. intros Hl. unfold uintN. destruct (rlen r <? n) eqn:E; [reflexivity|lia]. Qed.

Lemma read_ok n r : 0 <= n <= rlen r ->
  read n r = Ok (firstn (Z.to_nat n) (data r), advance n r).
Proof.
  intros Hn. unfold read. destruct (n <? 0) eqn:E1; [lia|]. destruct (rlen r <? n) eqn:E2; [lia|]. reflexivity.
Qed.

Lemma read_fail n r : n < 0 \/ rlen r < n -> read n r = Err EShort.
Proof.
  intros Hn. unfold read. destruct (n <? 0) eqn:E1; [reflexivity|].
  destruct (rlen r <? n) eqn:E2; [reflexivity|lia].
Qed.

Lemma peek_ok n r : 0 <= n <= rlen r -> peek n r = Ok (firstn (Z.to_nat n) (data r)).
Proof.
  intros Hn. unfold peek. destruct (n <? 0) eqn:E1; [lia|]. destruct (rlen r <? n) eqn:E2; [lia|]. reflexivity.
Qed.

Lemma peek_fail n r : n < 0 \/ rlen r < n -> peek n r = Err EShort.
Proof.
  intros Hn. unfold peek. destruct (n <? 0) eqn:E1; [reflexivity|].
  destruct (rlen r <? n) eqn:E2; [reflexivity|lia].
Qed.

(* a successful read returns exactly the next n octets *of the original buffer* *)
Definition next_octets (b : bytes) (r : reader) (n : Z) : bytes :=
  firstn (Z.to_nat n) (skipn (Z.to_nat (count r)) b).

(* what one step may do, stated against the original buffer b *)
Definition step_ok (b : bytes) (r : reader) (o : rop) (r' : reader) (res : rres) : Prop :=
  match o with
  | OU8 | OU16 | OU32 | OU64 =>
      let n := match o with OU8 => 1 | OU16 => 2 | OU32 => 4 | _ => 8 end in
      (n <= rlen r /\ res = RVal (be (next_octets b r n)) /\ count r' = count r + n /\ rlen r' = rlen r - n)
      \/ (rlen r < n /\ res = RFail /\ r' = r)
  | ORead n =>
      (0 <= n <= rlen r /\ res = RBytes (next_octets b r n) /\ len (next_octets b r n) = n
         /\ count r' = count r + n /\ rlen r' = rlen r - n)
      \/ ((n < 0 \/ rlen r < n) /\ res = RFail /\ r' = r)
  | OPeek n =>
      r' = r /\ ((0 <= n <= rlen r /\ res = RBytes (next_octets b r n)) \/ ((n < 0 \/ rlen r < n) /\ res = RFail))
  | OPeekU16 =>
      r' = r /\ ((2 <= rlen r /\ res = RVal (be (next_octets b r 2))) \/ (rlen r < 2 /\ res = RFail))
  | OLen => r' = r /\ res = RVal (rlen r)
  | OCount => r' = r /\ res = RVal (count r)
  end.

Lemma rlen_advance r n : 0 <= n <= rlen r -> rlen (advance n r) = rlen r - n.
Proof. intros. unfold rlen, advance; cbn [data]. now rewrite len_skipn. Qed.

Lemma step_uint b r n : cursor b r -> 0 < n ->
  forall x, x = match uintN n r with Ok (v, r') => (r', RVal v) | _ => (r, RFail) end ->
  (n <= rlen r /\ snd x = RVal (be (next_octets b r n)) /\ count (fst x) = count r + n /\ rlen (fst x) = rlen r - n)
  \/ (rlen r < n /\ snd x = RFail /\ fst x = r).
Proof.
  intros [Hc Hd] Hn x Hx. destruct (Z_lt_le_dec (rlen r) n) as [Hlt|Hle].
  - rewrite uintN_fail in Hx by exact Hlt. subst x. right; auto.
  - rewrite uintN_ok in Hx by lia. subst x. left. unfold next_octets. rewrite <- Hd. cbn [fst snd].
    repeat split; [exact Hle|apply rlen_advance; lia].
Qed.

Lemma step_uint_full b r n : cursor b r -> 0 < n ->
  let x := match uintN n r with Ok (v, r') => (r', RVal v) | _ => (r, RFail) end in
  ((n <= rlen r /\ snd x = RVal (be (next_octets b r n)) /\ count (fst x) = count r + n /\ rlen (fst x) = rlen r - n)
  \/ (rlen r < n /\ snd x = RFail /\ fst x = r)) /\ cursor b (fst x).
Proof.
  intros Hcur Hn. cbn zeta. split; [apply (step_uint b r n Hcur Hn _ eq_refl)|].
  pose proof (len_nonneg (data r)) as Hnn. fold (rlen r) in Hnn.
  destruct (Z_lt_le_dec (rlen r) n) as [Hlt|Hle].
  - rewrite uintN_fail by exact Hlt. exact Hcur.
  - rewrite uintN_ok by lia. apply cursor_advance; [exact Hcur|lia].
Qed.

Theorem step_spec b r o : cursor b r ->
  step_ok b r o (fst (step r o)) (snd (step r o)) /\ cursor b (fst (step r o)).
Proof.
  intros Hcur. pose proof Hcur as [Hc Hd]. pose proof (len_nonneg (data r)) as Hnn. fold (rlen r) in Hnn.
  destruct o as [| | | |n|n| | |]; cbn [step step_ok]; unfold uint8, uint16, uint32, uint64.
  1-4: match goal with |- context [uintN ?k _] => apply (step_uint_full b r k Hcur ltac:(lia)) end.
  - destruct (Z_lt_le_dec n 0) as [Hneg|Hpos]; [rewrite read_fail by lia; cbn; split; [right; auto|exact Hcur]|].
    destruct (Z_lt_le_dec (rlen r) n) as [Hlt|Hle]; [rewrite read_fail by lia; cbn; split; [right; auto|exact Hcur]|].
    rewrite read_ok by lia. cbn [fst snd]. split; [|apply cursor_advance; [exact Hcur|lia]].
    left. unfold next_octets. rewrite <- Hd. repeat split; try lia.
    + apply len_firstn. unfold rlen in *; lia.
    + apply rlen_advance; lia.
  - destruct (Z_lt_le_dec n 0) as [Hneg|Hpos]; [rewrite peek_fail by lia; cbn; split; [split; [reflexivity|right; auto]|exact Hcur]|].
    destruct (Z_lt_le_dec (rlen r) n) as [Hlt|Hle]; [rewrite peek_fail by lia; cbn; split; [split; [reflexivity|right; auto]|exact Hcur]|].
    rewrite peek_ok by lia. cbn [fst snd]. split; [|exact Hcur]. split; [reflexivity|]. left.
    unfold next_octets. rewrite <- Hd. auto.
  - unfold peek_uint16. destruct (Z_lt_le_dec (rlen r) 2) as [Hlt|Hle].
    + rewrite peek_fail by lia. cbn. split; [split; [reflexivity|right; auto]|exact Hcur].
    + rewrite peek_ok by lia. cbn. split; [|exact Hcur]. split; [reflexivity|]. left.
      unfold next_octets. rewrite <- Hd. auto.
  - cbn. auto.
  - cbn. auto.
Qed.

(* ---------- accounting over every operation sequence ---------- *)
Theorem run_cursor b : forall ops r, cursor b r -> cursor b (fst (run r ops)).
Proof.
  induction ops as [|o ops IH]; intros r Hcur; cbn [run]; [exact Hcur|].
  pose proof (step_spec b r o Hcur) as [_ Hc1].
  destruct (step r o) as [r1 res] eqn:Es. cbn [fst] in Hc1.
  specialize (IH r1 Hc1). destruct (run r1 ops) as [r2 out]. exact IH.
Qed.

Theorem accounting b ops :
  let r := fst (run (new_reader b) ops) in
  count r + rlen r = len b /\ data r = skipn (Z.to_nat (count r)) b.
Proof.
  cbn zeta. pose proof (run_cursor b ops _ (cursor_new b)) as Hcur.
  split; [apply cursor_len; exact Hcur|apply Hcur].
Qed.

(* every intermediate observation of (Len, ReadCount) also adds up *)
Theorem run_observations b : forall ops r, cursor b r ->
  Forall (fun x => let '(_, l, c) := x in c + l = len b) (snd (run r ops)).
Proof.
  induction ops as [|o ops IH]; intros r Hcur; cbn [run]; [constructor|].
  pose proof (step_spec b r o Hcur) as [_ Hc1].
  destruct (step r o) as [r1 res] eqn:Es. cbn [fst] in Hc1.
  specialize (IH r1 Hc1). destruct (run r1 ops) as [r2 out]. cbn [snd] in *.
  constructor; [|exact IH]. apply cursor_len; exact Hc1.
Qed.

Theorem peeks_never_advance r n : fst (step r (OPeek n)) = r /\ fst (step r OPeekU16) = r.
Proof.
  split; cbn [step].
  - destruct (peek n r); reflexivity.
  - destruct (peek_uint16 r); reflexivity.
Qed.

(* failed operations leave the reader exactly as it was *)
Theorem fail_keeps_position r o : snd (step r o) = RFail -> fst (step r o) = r.
Proof.
  destruct o; cbn [step]; unfold uint8, uint16, uint32, uint64.
  1-4: match goal with |- context [uintN ?k _] => destruct (uintN k r) as [[v r']| | |]; cbn; congruence end.
  - destruct (read n r) as [[v r']| | |]; cbn; congruence.
  - destruct (peek n r); reflexivity.
  - destruct (peek_uint16 r); reflexivity.
  - reflexivity.
  - reflexivity.
Qed.

(* the reader model never panics or hangs *)
Theorem reader_total n r : safe (read n r) /\ safe (peek n r) /\ safe (uintN n r) /\ safe (peek_uint16 r).
Proof.
  unfold safe, read, peek, uintN, peek_uint16, peek, bind.
  repeat split; repeat match goal with |- context [if ?c then _ else _] => destruct c end; congruence.
Qed.

(* non-vacuity: a mixed sequence with failures really moves through the states *)
Example accounting_example :
  let b := [1; 2; 3; 4; 5; 6; 7] in
  snd (run (new_reader b) [OU16; ORead (-1); OPeek 2; ORead 9; ORead 3; OU32; OU8; OLen; OCount])
  = [(RVal 258, 5, 2); (RFail, 5, 2); (RBytes [3; 4], 5, 2); (RFail, 5, 2); (RBytes [3; 4; 5], 2, 5);
     (RFail, 2, 5); (RVal 6, 1, 6); (RVal 1, 1, 6); (RVal 6, 1, 6)].
Proof. vm_compute. reflexivity. Qed.
