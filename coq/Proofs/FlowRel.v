(* The IPFIX decoder is parametric in the template cache: run against two caches that answer this
   exporter's lookups alike and stay related under this exporter's insertions, it produces the same
   result and related caches.  Instances: concrete sharded cache vs abstract (address,id) map (C04
   refinement); two abstract maps that agree on one exporter's keys (exporter isolation). *)
From VF Require Import Base.Prelude Model.Reader Model.Layout Model.JsonPieces Model.Flow Model.Ipfix.

Section Rel.
  Context {C1 C2 : Type}.
  Variable ops1 : cache_ops C1.
  Variable ops2 : cache_ops C2.
  Variable im : infomodel.
  Variable hl : layout.
  Variable addr : bytes.
  Variable R : C1 -> C2 -> Prop.

  Definition rel_out {A} (o1 : outcome (C1 * A)) (o2 : outcome (C2 * A)) : Prop :=
    match o1, o2 with
    | Ok (c1, a1), Ok (c2, a2) => a1 = a2 /\ R c1 c2
    | Err e1, Err e2 => e1 = e2
    | Panic, Panic => True
    | Hang, Hang => True
    | _, _ => False
    end.

  Hypothesis retr_rel : forall c1 c2 id, R c1 c2 -> c_retrieve ops1 c1 id addr = c_retrieve ops2 c2 id addr.
  Hypothesis ins_rel : forall c1 c2 id t, R c1 c2 ->
    match c_insert ops1 c1 id addr t, c_insert ops2 c2 id addr t with
    | Ok c1', Ok c2' => R c1' c2'
    | Err e1, Err e2 => e1 = e2
    | Panic, Panic => True
    | Hang, Hang => True
    | _, _ => False
    end.

  Lemma set_loop_rel : forall fuel sid L start tr c1 c2 r ds, R c1 c2 ->
    rel_out (set_loop ops1 im fuel sid L start tr addr c1 r ds) (set_loop ops2 im fuel sid L start tr addr c2 r ds).
  Proof.
    induction fuel as [|k IH]; intros sid L start tr c1 c2 r ds HR; cbn [set_loop].
    - match goal with |- context [if ?g then _ else _] => destruct g end; cbn; auto.
    - match goal with |- context [if ?g then _ else _] => destruct g end; [|cbn; auto].
      destruct ((sid =? 2) || (sid =? 3)).
      + destruct (peek_uint16 r) as [z| | |]; [destruct z; [cbn; auto| |]| | |];
        (destruct (catch (if sid =? 2 then read_template r else read_opts_template r)) as [[[t r']|]| | |]; cbn [bind];
         [ | cbn; auto | cbn; auto | cbn; auto | cbn; auto ];
         pose proof (ins_rel c1 c2 (t_id t) t HR) as Hi;
         destruct (c_insert ops1 c1 (t_id t) addr t) as [c1'| | |], (c_insert ops2 c2 (t_id t) addr t) as [c2'| | |];
         cbn [bind]; try contradiction; try (cbn; auto; fail); apply IH; exact Hi).
      + destruct ((4 <=? sid) && (sid <=? 255)); [cbn; auto|].
        destruct (sid =? 0); [cbn; auto|].
        destruct (catch (decode_data im tr r)) as [[[[fs|] r']|]| | |]; cbn [bind]; try (cbn; auto; fail).
        destruct (count r' =? count r); [cbn; auto|]. apply IH; exact HR.
  Qed.

  Lemma decode_set_rel c1 c2 r ds : R c1 c2 ->
    rel_out (decode_set ops1 im addr c1 r ds) (decode_set ops2 im addr c2 r ds).
  Proof.
    intros HR. unfold decode_set.
    destruct (catch (x <- uint16 r;; y <- uint16 (snd x);; Ok (fst x, fst y, snd y))) as [[[[sid L] r1]|]| | |];
      cbn [bind]; try (cbn; auto; fail).
    destruct (L <? 4); [cbn; auto|].
    assert (Hlk : (if 255 <? sid then c_retrieve ops1 c1 sid addr else Ok (Some empty_template))
                = (if 255 <? sid then c_retrieve ops2 c2 sid addr else Ok (Some empty_template)))
      by (destruct (255 <? sid); [apply retr_rel; exact HR|reflexivity]).
    rewrite Hlk. destruct (if 255 <? sid then c_retrieve ops2 c2 sid addr else Ok (Some empty_template)) as [lk| | |];
      cbn [bind]; try (cbn; auto; fail).
    assert (Hb : rel_out (match lk with None => Ok (c1, SCont r1 ds true) | Some tr => set_loop ops1 im (fuel_of r1) sid L (count r) tr addr c1 r1 ds end)
                         (match lk with None => Ok (c2, SCont r1 ds true) | Some tr => set_loop ops2 im (fuel_of r1) sid L (count r) tr addr c2 r1 ds end))
      by (destruct lk; [apply set_loop_rel; exact HR|cbn; auto]).
    destruct (match lk with None => Ok (c1, SCont r1 ds true) | Some tr => set_loop ops1 im (fuel_of r1) sid L (count r) tr addr c1 r1 ds end) as [[c1' b1]| | |],
             (match lk with None => Ok (c2, SCont r1 ds true) | Some tr => set_loop ops2 im (fuel_of r1) sid L (count r) tr addr c2 r1 ds end) as [[c2' b2]| | |];
      cbn in Hb; try contradiction; cbn [bind]; try (cbn; auto; fail).
    destruct Hb as [-> HR']. cbn [snd fst]. destruct b2 as [|r2 ds2 nf]; [cbn; auto|].
    match goal with |- context [if ?g then _ else _] => destruct g end; [|cbn; auto].
    match goal with |- context [catch ?x] => destruct (catch x) as [[[b r3]|]| | |] end; cbn [bind]; cbn; auto.
  Qed.

  Lemma sets_loop_rel : forall fuel c1 c2 r ds nf, R c1 c2 ->
    rel_out (sets_loop ops1 im fuel addr c1 r ds nf) (sets_loop ops2 im fuel addr c2 r ds nf).
  Proof.
    induction fuel as [|k IH]; intros c1 c2 r ds nf HR; cbn [sets_loop].
    - destruct (4 <? rlen r); cbn; auto.
    - destruct (4 <? rlen r); [|cbn; auto].
      pose proof (decode_set_rel c1 c2 r ds HR) as Hs.
      destruct (decode_set ops1 im addr c1 r ds) as [[c1' s1]| | |], (decode_set ops2 im addr c2 r ds) as [[c2' s2]| | |];
        cbn in Hs; try contradiction; cbn [bind]; try (cbn; auto; fail).
      destruct Hs as [-> HR']. cbn [fst snd]. destruct s2 as [|r' ds' e]; [cbn; auto|]. apply IH; exact HR'.
  Qed.

  Theorem ipfix_decode_rel c1 c2 p : R c1 c2 ->
    rel_out (ipfix_decode ops1 im hl c1 addr p) (ipfix_decode ops2 im hl c2 addr p).
  Proof.
    intros HR. unfold ipfix_decode.
    destruct (catch (read_layout hl (new_reader p))) as [[[hv r]|]| | |]; cbn [bind]; try (cbn; auto; fail).
    destruct (negb (field_get "Version" (named_fields hl hv) =? 10)); [cbn; auto|].
    pose proof (sets_loop_rel (fuel_of r) c1 c2 r [] 0 HR) as Hs.
    destruct (sets_loop ops1 im (fuel_of r) addr c1 r [] 0) as [[c1' o1]| | |], (sets_loop ops2 im (fuel_of r) addr c2 r [] 0) as [[c2' o2]| | |];
      cbn in Hs; try contradiction; cbn [bind]; try (cbn; auto; fail).
    destruct Hs as [-> HR']. cbn [fst snd]. destruct o2 as [[ds nf]|]; cbn; auto.
  Qed.
End Rel.
