(* C05 glue: every value the decoders hand to the encoders consists of octets (0..255) when the datagram does. *)
From VF Require Import Base.Prelude Model.Reader Model.Layout Model.JsonPieces Model.Flow Model.Ipfix
  Spec.JsonDenote Proofs.ReaderProofs Proofs.JsonProofs.

Definition wfr (r : reader) : Prop := wf_bytes (data r).

Lemma wf_firstn n (s : bytes) : wf_bytes s -> wf_bytes (firstn n s).
Proof. revert s. induction n; intros s H; [constructor|]. destruct s; [constructor|]. apply Forall_cons_iff in H as [H1 H]. cbn [firstn]. constructor; [exact H1|apply IHn, H]. Qed.

Lemma uintN_wf n r v r' : wfr r -> uintN n r = Ok (v, r') -> wfr r'.
Proof. unfold uintN, wfr. intros H E. destruct (rlen r <? n); [discriminate E|]. injection E as <- <-. apply wf_skipn, H. Qed.
Lemma read_wf n r b r' : wfr r -> read n r = Ok (b, r') -> wf_bytes b /\ wfr r'.
Proof. unfold read, wfr. intros H E. destruct (_ || _); [discriminate E|]. injection E as <- <-. split; [apply wf_firstn, H|apply wf_skipn, H]. Qed.
Lemma read_layout_wf L : forall r vs r', wfr r -> read_layout L r = Ok (vs, r') -> wfr r'.
Proof.
  induction L as [|[nm w] L IH]; intros r vs r' H E; cbn [read_layout] in E.
  - injection E as <- <-. exact H.
  - destruct (uintN w r) as [[v q]| | |] eqn:E1; cbn [bind fst snd] in E; try discriminate E.
    destruct (read_layout L q) as [[vs2 q2]| | |] eqn:E2; cbn [bind fst snd] in E; try discriminate E.
    injection E as <- <-. eapply IH; [eapply uintN_wf; eassumption|exact E2].
Qed.

Lemma interpret_wf t b v : wf_bytes b -> interpret t b = Ok v -> wf_value v.
Proof.
  intros H E. unfold interpret in E.
  repeat match type of E with
         | (if ?c then _ else _) = _ => destruct c
         | (x <- ?o ;; _) = _ => destruct o; cbn [bind] in E; try discriminate E
         end; try discriminate E; injection E as <-; cbn [wf_value]; auto.
Qed.

Section Wf.
  Context {C : Type}.
  Variable ops : cache_ops C.
  Variable im : infomodel.
  Variable hl : layout.

  Definition wfds (ds : list record) : Prop := Forall wf_record ds.

  (* ---- IPFIX ---- *)
  Lemma read_fspec_wf r s r' : wfr r -> read_fspec r = Ok (s, r') -> wfr r'.
  Proof.
    intros H E. unfold read_fspec, uint16, uint32 in E.
    destruct (uintN 2 r) as [[v1 q1]| | |] eqn:E1; cbn [bind fst snd] in E; try discriminate E. pose proof (uintN_wf _ _ _ _ H E1) as H1.
    destruct (uintN 2 q1) as [[v2 q2]| | |] eqn:E2; cbn [bind fst snd] in E; try discriminate E. pose proof (uintN_wf _ _ _ _ H1 E2) as H2.
    destruct (32768 <=? v1).
    - destruct (uintN 4 q2) as [[v3 q3]| | |] eqn:E3; cbn [bind fst snd] in E; try discriminate E. injection E as <- <-. eapply uintN_wf; eassumption.
    - injection E as <- <-. exact H2.
  Qed.
  Lemma read_fspecs_wf : forall k n r acc l r', wfr r -> read_fspecs k n r acc = Ok (l, r') -> wfr r'.
  Proof.
    induction k as [|k IH]; intros n r acc l r' H E; cbn [read_fspecs] in E; destruct (n <=? 0); try discriminate E; try (injection E as <- <-; exact H).
    destruct (read_fspec r) as [[s q]| | |] eqn:E1; cbn [bind fst snd] in E; try discriminate E.
    eapply IH; [eapply read_fspec_wf; eassumption|exact E].
  Qed.
  Lemma tpl_wf (b : bool) r t r' : wfr r -> (if b then read_template r else read_opts_template r) = Ok (t, r') -> wfr r'.
  Proof.
    intros H E. destruct b; unfold read_template, read_opts_template, uint16 in E.
    - destruct (uintN 2 r) as [[v1 q1]| | |] eqn:E1; cbn [bind fst snd] in E; try discriminate E. pose proof (uintN_wf _ _ _ _ H E1) as H1.
      destruct (uintN 2 q1) as [[v2 q2]| | |] eqn:E2; cbn [bind fst snd] in E; try discriminate E. pose proof (uintN_wf _ _ _ _ H1 E2) as H2.
      destruct (read_fspecs _ _ q2 []) as [[l q3]| | |] eqn:E3; cbn [bind fst snd] in E; try discriminate E. injection E as <- <-.
      eapply read_fspecs_wf; eassumption.
    - destruct (uintN 2 r) as [[v1 q1]| | |] eqn:E1; cbn [bind fst snd] in E; try discriminate E. pose proof (uintN_wf _ _ _ _ H E1) as H1.
      destruct (uintN 2 q1) as [[v2 q2]| | |] eqn:E2; cbn [bind fst snd] in E; try discriminate E. pose proof (uintN_wf _ _ _ _ H1 E2) as H2.
      destruct (uintN 2 q2) as [[v3 q3]| | |] eqn:E3; cbn [bind fst snd] in E; try discriminate E. pose proof (uintN_wf _ _ _ _ H2 E3) as H3.
      destruct (read_fspecs _ v3 q3 []) as [[l q4]| | |] eqn:E4; cbn [bind fst snd] in E; try discriminate E. pose proof (read_fspecs_wf _ _ _ _ _ _ H3 E4) as H4.
      destruct (read_fspecs _ _ q4 []) as [[l5 q5]| | |] eqn:E5; cbn [bind fst snd] in E; try discriminate E. injection E as <- <-.
      eapply read_fspecs_wf; eassumption.
  Qed.

  Lemma data_length_wf sl ty r v r' : wfr r -> data_length sl ty r = Ok (v, r') -> wfr r'.
  Proof.
    intros H E. unfold data_length, uint8, uint16 in E. destruct (_ && _).
    - destruct (uintN 1 r) as [[v1 q1]| | |] eqn:E1; cbn [bind fst snd] in E; try discriminate E. pose proof (uintN_wf _ _ _ _ H E1) as H1.
      destruct (v1 =? 255); [eapply uintN_wf; eassumption|]. injection E as <- <-. exact H1.
    - injection E as <- <-. exact H.
  Qed.

  Lemma decode_fields_wf : forall specs r acc o r', wfr r -> wf_record acc -> decode_fields im specs r acc = Ok (o, r') ->
    wfr r' /\ match o with Some rec => wf_record rec | None => True end.
  Proof.
    induction specs as [|s specs IH]; intros r acc o r' H Ha E; cbn [decode_fields] in E.
    - injection E as <- <-. auto.
    - destruct (im (f_pen s) (f_id s)) as [[fid ty]|]; [|injection E as <- <-; auto].
      destruct (data_length (f_len s) ty r) as [[l q1]| | |] eqn:E1; cbn [bind fst snd] in E; try discriminate E. pose proof (data_length_wf _ _ _ _ _ H E1) as H1.
      destruct (read l q1) as [[b q2]| | |] eqn:E2; cbn [bind fst snd] in E; try discriminate E. destruct (read_wf _ _ _ _ H1 E2) as [Hb H2].
      destruct (interpret ty b) as [v| | |] eqn:E3; cbn [bind] in E; try discriminate E.
      eapply IH; [exact H2| |exact E]. apply Forall_app. split; [exact Ha|]. constructor; [|constructor]. cbn [d_val]. eapply interpret_wf; [exact Hb|exact E3].
  Qed.

  Lemma decode_data_wf t r o r' : wfr r -> decode_data im t r = Ok (o, r') ->
    wfr r' /\ match o with Some rec => wf_record rec | None => True end.
  Proof.
    intros H E. unfold decode_data in E.
    destruct (decode_fields im (t_scope t) r []) as [[o1 q1]| | |] eqn:E1; cbn [bind fst snd] in E; try discriminate E.
    destruct (decode_fields_wf _ _ _ _ _ H (Forall_nil _) E1) as [H1 Ho1]. destruct o1 as [sc|]; [|injection E as <- <-; auto].
    destruct (decode_fields im (t_fields t) q1 sc) as [[o2 q2]| | |] eqn:E2; cbn [bind fst snd] in E; try discriminate E.
    destruct (decode_fields_wf _ _ _ _ _ H1 Ho1 E2) as [H2 Ho2].
    destruct o2 as [[|f fs]|]; try discriminate E; injection E as <- <-; auto.
  Qed.

  Lemma set_loop_wf : forall k sid L start tr a c r ds c1 r1 ds1 nf, wfr r -> wfds ds ->
    set_loop ops im k sid L start tr a c r ds = Ok (c1, SCont r1 ds1 nf) -> wfr r1 /\ wfds ds1.
  Proof.
    induction k as [|k IH]; intros sid L start tr a c r ds c1 r1 ds1 nf H Hd E; cbn [set_loop] in E.
    - destruct (_ && _ && _); [discriminate E|]. injection E as <- <- <- <-. auto.
    - destruct (_ && _ && _). 2: { injection E as <- <- <- <-. auto. }
      destruct ((sid =? 2) || (sid =? 3)).
      { assert (Hgo : (t <- catch (if sid =? 2 then read_template r else read_opts_template r) ;;
                   match t with None => Ok (c, SFatal) | Some (tr', q) => c' <- c_insert ops c (t_id tr') a tr' ;; set_loop ops im k sid L start tr a c' q ds end)
                  = Ok (c1, SCont r1 ds1 nf) -> wfr r1 /\ wfds ds1).
        { intros E1. destruct (if sid =? 2 then read_template r else read_opts_template r) as [[t q]| | |] eqn:Et; cbn [catch bind] in E1; try discriminate E1.
          destruct (c_insert ops c (t_id t) a t) as [c2| | |]; cbn [bind] in E1; try discriminate E1.
          eapply IH; [eapply tpl_wf; eassumption|exact Hd|exact E1]. }
        destruct (peek_uint16 r) as [[|p|p]| | |]; try (apply Hgo; exact E). injection E as <- <- <- <-. auto. }
      destruct ((4 <=? sid) && (sid <=? 255)). { injection E as <- <- <- <-. auto. }
      destruct (sid =? 0); [discriminate E|].
      destruct (decode_data im tr r) as [[o q]| | |] eqn:Ed; cbn [catch bind] in E; try discriminate E.
      destruct (decode_data_wf _ _ _ _ H Ed) as [Hq Ho]. destruct o as [fs|].
      + destruct (count q =? count r); [injection E as <- <- <- <-; auto|].
        eapply IH; [exact Hq| |exact E]. apply Forall_app. split; [exact Hd|]. constructor; [exact Ho|constructor].
      + injection E as <- <- <- <-. auto.
  Qed.

  Lemma decode_set_wf a c r ds c1 r1 ds1 nf : wfr r -> wfds ds ->
    decode_set ops im a c r ds = Ok (c1, SCont r1 ds1 nf) -> wfr r1 /\ wfds ds1.
  Proof.
    intros H Hd E. unfold decode_set, uint16 in E.
    destruct (uintN 2 r) as [[sid q1]| | |] eqn:E1; cbn [catch bind fst snd] in E; try discriminate E. pose proof (uintN_wf _ _ _ _ H E1) as H1.
    destruct (uintN 2 q1) as [[L q2]| | |] eqn:E2; cbn [catch bind fst snd] in E; try discriminate E. pose proof (uintN_wf _ _ _ _ H1 E2) as H2.
    destruct (L <? 4); [discriminate E|].
    assert (Hskip : forall (c2 : C) r2 ds2 e, wfr r2 -> wfds ds2 ->
              (if 0 <? (L - (count r2 - count r) mod 65536) mod 65536
               then s <- catch (read ((L - (count r2 - count r) mod 65536) mod 65536) r2) ;;
                    match s with None => Ok (c2, SFatal) | Some (_, r3) => Ok (c2, SCont r3 ds2 e) end
               else Ok (c2, SCont r2 ds2 e)) = Ok (c1, SCont r1 ds1 nf) -> wfr r1 /\ wfds ds1).
    { intros c2 r2 ds2 e Hr Hds Hs. destruct (0 <? _).
      - destruct (read _ r2) as [[b r3]| | |] eqn:Er; cbn [catch bind] in Hs; try discriminate Hs. injection Hs as <- <- <- <-.
        split; [exact (proj2 (read_wf _ _ _ _ Hr Er))|exact Hds].
      - injection Hs as <- <- <- <-. auto. }
    destruct (if 255 <? sid then c_retrieve ops c sid a else Ok (Some empty_template)) as [[tr|]| | |]; cbn [bind] in *; try discriminate E.
    - destruct (set_loop ops im (fuel_of q2) sid L (count r) tr a c q2 ds) as [[c2 [|r2 ds2 e]]| | |] eqn:El; cbn [bind fst snd] in E; try discriminate E.
      destruct (set_loop_wf _ _ _ _ _ _ _ _ _ _ _ _ _ H2 Hd El) as [Hr2 Hd2]. exact (Hskip c2 r2 ds2 e Hr2 Hd2 E).
    - exact (Hskip c q2 ds true H2 Hd E).
  Qed.

  Lemma sets_loop_wf : forall k a c r ds nf c1 ds1 nf1, wfr r -> wfds ds ->
    sets_loop ops im k a c r ds nf = Ok (c1, Some (ds1, nf1)) -> wfds ds1.
  Proof.
    induction k as [|k IH]; intros a c r ds nf c1 ds1 nf1 H Hd E; cbn [sets_loop] in E.
    - destruct (4 <? rlen r); [discriminate E|]. injection E as <- <- <-. exact Hd.
    - destruct (4 <? rlen r). 2: { injection E as <- <- <-. exact Hd. }
      destruct (decode_set ops im a c r ds) as [[c2 [|r2 ds2 e]]| | |] eqn:Es; cbn [bind fst snd] in E; try discriminate E.
      destruct (decode_set_wf _ _ _ _ _ _ _ _ H Hd Es) as [Hr2 Hd2]. exact (IH _ _ _ _ _ _ _ _ Hr2 Hd2 E).
  Qed.

  Theorem ipfix_decode_wf c a p c1 m nf : wf_bytes p ->
    ipfix_decode ops im hl c a p = Ok (c1, DMsg m nf) -> i_agent m = a /\ Forall wf_record (i_sets m).
  Proof.
    intros H E. unfold ipfix_decode in E.
    destruct (read_layout hl (new_reader p)) as [[hv r]| | |] eqn:Eh; cbn [catch bind] in E; try discriminate E.
    assert (Hr : wfr r) by (eapply read_layout_wf; [|exact Eh]; exact H).
    destruct (negb _); [discriminate E|].
    destruct (sets_loop ops im (fuel_of r) a c r [] 0) as [[c2 [[ds n]|]]| | |] eqn:Es; cbn [bind fst snd] in E; try discriminate E.
    injection E as <- <- <-. cbn. split; [reflexivity|]. eapply sets_loop_wf; [exact Hr|constructor|exact Es].
  Qed.
End Wf.
