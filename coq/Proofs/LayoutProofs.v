From VF Require Import Base.Prelude Model.Reader Model.Layout Proofs.ReaderProofs.

(* ---------- big-endian ---------- *)
Lemma be_acc_app l1 l2 a : be_acc (l1 ++ l2) a = be_acc l2 (be_acc l1 a).
Proof. revert a; induction l1 as [|x l1 IH]; intros a; cbn [be_acc app]; [reflexivity|apply IH]. Qed.

Lemma be_snoc l b : be (l ++ [b]) = be l * 256 + b.
Proof. unfold be. rewrite be_acc_app. reflexivity. Qed.

Lemma enc_length n v : length (enc n v) = n.
Proof. revert v; induction n as [|n IH]; intros v; cbn [enc]; [reflexivity|]. rewrite app_length, IH. cbn. lia. Qed.

Lemma len_enc n v : len (enc n v) = Z.of_nat n.
Proof. unfold len. now rewrite enc_length. Qed.

Lemma be_enc n : forall v, 0 <= v < 256 ^ Z.of_nat n -> be (enc n v) = v.
Proof.
  induction n as [|n IH]; intros v Hv; cbn [enc].
  - cbn in Hv. unfold be; cbn. lia.
  - rewrite be_snoc. rewrite Nat2Z.inj_succ, Z.pow_succ_r in Hv by lia.
    rewrite IH by lia. lia.
Qed.

Lemma enc_bytes n : forall v, 0 <= v -> wf_bytes (enc n v).
Proof.
  induction n as [|n IH]; intros v Hv; cbn [enc]; [constructor|].
  apply Forall_app; split; [apply IH; lia|]. constructor; [unfold is_byte; lia|constructor].
Qed.

(* ---------- reading what was encoded ---------- *)
Lemma firstn_app_exact {A} (a b : list A) : firstn (length a) (a ++ b) = a.
Proof. rewrite firstn_app, Nat.sub_diag, firstn_all. cbn. apply app_nil_r. Qed.
Lemma skipn_app_exact {A} (a b : list A) : skipn (length a) (a ++ b) = b.
Proof. rewrite skipn_app, Nat.sub_diag, skipn_all. reflexivity. Qed.

Lemma uintN_app (a rest : bytes) c n : len a = n -> 0 < n ->
  uintN n {| data := a ++ rest; count := c |} = Ok (be a, {| data := rest; count := c + n |}).
Proof.
  intros Hl Hn. unfold uintN, rlen; cbn [data]. rewrite len_app.
  pose proof (len_nonneg rest). destruct (len a + len rest <? n) eqn:E; [lia|].
  assert (Hn' : Z.to_nat n = length a) by (unfold len in Hl; lia).
  unfold advance; cbn [data count]. rewrite Hn', firstn_app_exact, skipn_app_exact. reflexivity.
Qed.

Lemma read_app (a rest : bytes) c n : len a = n ->
  read n {| data := a ++ rest; count := c |} = Ok (a, {| data := rest; count := c + n |}).
Proof.
  intros Hl. pose proof (len_nonneg a). unfold read, rlen; cbn [data]. rewrite len_app.
  pose proof (len_nonneg rest). destruct (n <? 0) eqn:E0; [lia|]. destruct (len a + len rest <? n) eqn:E; [lia|].
  assert (Hn' : Z.to_nat n = length a) by (unfold len in Hl; lia).
  cbn [orb]. unfold advance; cbn [data count]. rewrite Hn', firstn_app_exact, skipn_app_exact. reflexivity.
Qed.

(* values fit their field widths, and there is one value per field *)
Fixpoint fits (L : layout) (vs : list Z) : Prop :=
  match L, vs with
  | [], [] => True
  | (_, w) :: t, v :: vt => 0 < w /\ 0 <= v < 256 ^ w /\ fits t vt
  | _, _ => False
  end.

Lemma len_enc_layout L : forall vs, fits L vs -> len (enc_layout L vs) = layout_size L.
Proof.
  induction L as [|[nm w] L IH]; intros [|v vs] H; cbn in H; try contradiction; [reflexivity|].
  destruct H as (Hw & Hv & Hf). cbn [enc_layout layout_size fold_right snd]. rewrite len_app, len_enc, IH by exact Hf.
  fold (layout_size L). lia.
Qed.

Theorem read_layout_app L : forall vs rest c, fits L vs ->
  read_layout L {| data := enc_layout L vs ++ rest; count := c |}
  = Ok (vs, {| data := rest; count := c + layout_size L |}).
Proof.
  induction L as [|[nm w] L IH]; intros [|v vs] rest c H; cbn in H; try contradiction.
  - cbn. now rewrite Z.add_0_r.
  - destruct H as (Hw & Hv & Hf). cbn [read_layout enc_layout]. rewrite <- app_assoc.
    rewrite (uintN_app (enc (Z.to_nat w) v) _ c w) by (rewrite ?len_enc; lia).
    cbn [bind fst snd]. rewrite IH by exact Hf. cbn [bind fst snd].
    rewrite be_enc by (rewrite Z2Nat.id by lia; exact Hv).
    cbn [layout_size fold_right snd]. fold (layout_size L). do 3 f_equal. lia.
Qed.

(* a layout read never panics or hangs, and fails only by running short *)
Lemma read_layout_safe L : forall r, safe (read_layout L r).
Proof.
  induction L as [|[nm w] L IH]; intros r; cbn [read_layout]; [split; discriminate|].
  unfold uintN. destruct (rlen r <? w); cbn [bind]; [split; discriminate|].
  cbn [snd fst]. specialize (IH (advance w r)). destruct (read_layout L (advance w r)) as [[vs r']| | |]; cbn [bind];
    try (split; discriminate); destruct IH; contradiction.
Qed.

Lemma read_layout_short L : forall r, rlen r < layout_size L -> (forall x, In x L -> 0 < snd x) ->
  read_layout L r = Err EShort.
Proof.
  induction L as [|[nm w] L IH]; intros r Hr Hpos; cbn [layout_size fold_right snd] in Hr.
  - pose proof (len_nonneg (data r)). unfold rlen in Hr. lia.
  - fold (layout_size L) in Hr. cbn [read_layout]. unfold uintN.
    destruct (rlen r <? w) eqn:E; [reflexivity|]. cbn [bind snd fst].
    assert (Hw : 0 < w) by (apply (Hpos (nm, w)); left; reflexivity).
    rewrite IH; [reflexivity| |intros x Hx; apply Hpos; right; exact Hx].
    rewrite rlen_advance by lia. lia.
Qed.

Lemma read_layout_shrinks : forall L r0 vs r1, read_layout L r0 = Ok (vs, r1) -> rlen r1 <= rlen r0.
Proof.
  induction L as [|[nm w] L IH]; intros r0 vs r1 H; cbn [read_layout] in H; [inversion H; lia|].
  unfold uintN in H. destruct (rlen r0 <? w) eqn:E1; cbn [bind] in H; [discriminate|]. cbn [fst snd] in H.
  destruct (read_layout L (advance w r0)) as [[vs' r']| | |] eqn:E2; cbn [bind] in H; try discriminate.
  inversion H; subst. apply IH in E2. cbn [snd].
  unfold rlen, advance in *; cbn [data] in *. pose proof (len_nonneg (data r0)).
  unfold len in *. rewrite skipn_length in E2. lia.
Qed.

