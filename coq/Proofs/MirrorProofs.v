From VF Require Import Base.Prelude Base.IPText Model.Mirror Proofs.ReaderProofs Proofs.LayoutProofs.

Lemma to4_len a s : to4 a = Some s -> length s = 4%nat.
Proof.
  unfold to4. destruct (Nat.eqb (length a) 4) eqn:E4.
  - intros [= <-]. apply Nat.eqb_eq; exact E4.
  - destruct (Nat.eqb (length a) 16 && is_v4mapped a) eqn:E16; [|discriminate].
    apply andb_true_iff in E16 as [E16 _]. apply Nat.eqb_eq in E16.
    intros H. assert (Hs : s = skipn 12 a) by congruence. rewrite Hs, skipn_length, E16. reflexivity.
Qed.

Lemma enc2' v : enc 2 v = [v / 256 mod 256; v mod 256].
Proof. reflexivity. Qed.

Lemma be_enc2 v : 0 <= v < 65536 -> be (enc 2 v) = v.
Proof. intros H. apply (be_enc 2). cbn. lia. Qed.

(* every datagram of up to max octets (max up to the largest UDP payload), both address forms *)
Theorem mirror_ok max sport src dst port payload s d :
  to4 src = Some s -> to4 dst = Some d -> len payload <= max -> max <= 65507 -> 0 <= port < 65536 -> 0 <= sport < 65536 ->
  exists p, mirror_packet max sport src dst port payload = Ok p /\
    pk_src p = s /\ pk_dst p = d /\ pk_proto p = 17 /\ pk_sport p = sport /\ pk_dport p = port /\
    pk_total_len p = 28 + len payload /\ pk_udp_len p = 8 + len payload /\ pk_payload p = payload /\
    len p = 28 + len payload.
Proof.
  intros Hs Hd Hl Hm Hp Hsp. unfold mirror_packet. rewrite Hs, Hd.
  pose proof (len_nonneg payload) as Hn.
  destruct (max <? len payload) eqn:E; [lia|]. eexists; split; [reflexivity|].
  pose proof (to4_len _ _ Hs) as Ls. pose proof (to4_len _ _ Hd) as Ld.
  destruct s as [|s0 [|s1 [|s2 [|s3 [|]]]]]; try discriminate.
  destruct d as [|d0 [|d1 [|d2 [|d3 [|]]]]]; try discriminate.
  unfold ip_header, udp_header, pk_src, pk_dst, pk_proto, pk_sport, pk_dport, pk_total_len, pk_udp_len, pk_payload.
  rewrite !enc2'. cbn [app firstn skipn nth].
  repeat split; try reflexivity.
  all: repeat match goal with
       | |- context [be [?v / 256 mod 256; ?v mod 256]] =>
           change (be [v / 256 mod 256; v mod 256]) with (be (enc 2 v));
           rewrite (be_enc2 v) by lia
       end.
  all: try lia.
  rewrite !len_cons. lia.
Qed.

Example mirror_instance :
  mirror_packet 1500 ipfix_mirror_sport [0;0;0;0;0;0;0;0;0;0;255;255;10;1;2;3] [127;0;0;1] 41799 [1;2;3;4;5]
  = Ok [69;0;0;33;0;0;0;0;64;17;0;0;10;1;2;3;127;0;0;1; 215;77;163;71;0;13;0;0; 1;2;3;4;5].
Proof. vm_compute. reflexivity. Qed.
