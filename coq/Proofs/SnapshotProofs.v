(* What the lock protocol gives BEYOND race freedom: while a thread holds the read lock of a shard, that shard's map does
   not change (nobody else can write it), so a Dump, which holds the read locks of all shards while json.Marshal walks the
   maps one after the other, sees every shard as it was at one single moment: a consistent snapshot; and a lookup under its
   read lock sees the map as it is at that moment, i.e. including every insert that was completed before the lookup began.
   The shared memory here is sequentially consistent; that is what race freedom (Proofs/LockProofs.v) justifies under the Go
   memory model, and it is listed in the trusted base. *)
From VF Require Import Base.Prelude Model.LockProto Proofs.LockProofs.
From Coq Require Import Arith.

(* each shard's map is abstracted by its VERSION: every write makes a new one *)
Definition mem := nat -> nat.
Definition wr (m : mem) (s : nat) : mem := fun x => if Nat.eqb x s then S (m x) else m x.

Definition writes (th : thread) : option nat := match snd th with MWrite s :: _ => Some s | _ => None end.

Inductive mstep : st * mem -> nat -> st * mem -> Prop :=
| MStep g m i th th' : nth_error g i = Some th -> tstep g i th th' ->
    mstep (g, m) i (upd g i th', match writes th with Some s => wr m s | None => m end).

Definition holds_r (g : st) (j s : nat) : Prop := exists tj, nth_error g j = Some tj /\ inb s (hr (fst tj)) = true.

Lemma wr_other m s x : x <> s -> wr m s x = m x.
Proof. intros H. unfold wr. destruct (Nat.eqb_spec x s); [contradiction|reflexivity]. Qed.

(* one step of ANOTHER thread never changes a shard that thread j holds the read lock of *)
Theorem read_locked_shard_is_stable g m i g' m' j s :
  Inv g -> mstep (g, m) i (g', m') -> i <> j -> holds_r g j s -> m' s = m s.
Proof.
  intros [Hwb Hex] Hstep Hij (tj & Hj & Hr). inversion Hstep as [g0 m0 i0 th th' Hi Ht]; subst.
  destruct (writes th) as [s'|] eqn:Hw; [|reflexivity].
  destruct (Nat.eq_dec s s') as [->|Hne]; [|apply wr_other; assumption].
  (* thread i is about to write shard s': by the protocol it holds the write lock of s', which excludes j's read lock *)
  exfalso. unfold writes in Hw. destruct th as [h p]. cbn [snd] in Hw. destruct p as [|e q]; [discriminate|].
  destruct e; try discriminate. injection Hw as ->.
  pose proof (Hwb i _ Hi) as W. unfold wb in W. cbn [fst snd run_wb] in W.
  destruct (inb s' (hw h)) eqn:Hh; [|discriminate].
  pose proof (Hex i j (h, MWrite s' :: q) tj s' Hij Hi Hj Hh) as E. unfold anyb in E.
  rewrite Hr in E. rewrite orb_true_r in E. discriminate.
Qed.

(* a thread's own step changes a shard only if that step is a write to it *)
Lemma own_step_changes_only_what_it_writes g m i g' m' s th :
  mstep (g, m) i (g', m') -> nth_error g i = Some th -> writes th <> Some s -> m' s = m s.
Proof.
  intros Hstep Hi Hw. inversion Hstep as [g0 m0 i0 th0 th' Hi0 Ht]; subst.
  rewrite Hi in Hi0. injection Hi0 as <-.
  destruct (writes th) as [s'|]; [|reflexivity]. apply wr_other. intros ->. apply Hw. reflexivity.
Qed.

(* any execution segment during which thread j holds the read lock of shard s and does not itself write s:
   the shard is, at the end, what it was at the beginning *)
Inductive segment (j s : nat) : st * mem -> st * mem -> Prop :=
| Seg0 x : segment j s x x
| SegS x y z i : segment j s x y -> holds_r (fst y) j s ->
    (i = j -> forall th, nth_error (fst y) j = Some th -> writes th <> Some s) ->
    mstep y i z -> segment j s x z.

Lemma mstep_inv x i y : Inv (fst x) -> mstep x i y -> Inv (fst y).
Proof.
  intros HI Hs. inversion Hs as [g m i0 th th' Hi Ht]; subst. cbn [fst] in *.
  eapply step_inv; [exact HI|]. econstructor; eassumption.
Qed.

Theorem snapshot_consistent j s x y : Inv (fst x) -> segment j s x y -> Inv (fst y) /\ snd y s = snd x s.
Proof.
  intros HI Hseg. induction Hseg as [x|x y z i Hseg IH Hh Hown Hs]; [split; [assumption|reflexivity]|].
  destruct (IH HI) as [HIy Heq]. split; [eapply mstep_inv; eassumption|].
  rewrite <- Heq. destruct y as [gy my], z as [gz mz]. cbn [fst snd] in *.
  destruct (Nat.eq_dec i j) as [->|Hij].
  - destruct Hh as (tj & Hj & _). eapply own_step_changes_only_what_it_writes; [exact Hs|exact Hj|]. apply Hown; [reflexivity|assumption].
  - eapply read_locked_shard_is_stable; eassumption.
Qed.

(* ... and a write really is excluded: the hypothesis of the theorem is not what makes it true.  Without the read lock
   another thread's insert does change the shard (non-vacuity of the statement above) *)
Example unlocked_shard_changes :
  let g := [(no_locks, [] : list ev); ({| hw := [3%nat]; hr := [] |}, [MWrite 3%nat; Unlock 3%nat])] in
  Inv g /\ exists g' m', mstep (g, fun _ => 0%nat) 1%nat (g', m') /\ m' 3%nat = 1%nat.
Proof.
  cbn zeta. split.
  - split.
    + intros i t Hi. destruct i as [|[|[|i]]]; cbn in Hi; try discriminate; injection Hi as <-; reflexivity.
    + intros i j t1 t2 s Hij H1 H2 Hh. destruct i as [|[|[|i]]]; cbn in H1; try discriminate; injection H1 as <-; cbn in Hh; try discriminate.
      destruct j as [|[|[|j]]]; cbn in H2; try discriminate; [injection H2 as <-; reflexivity|congruence].
  - eexists _, _. split.
    + eapply (MStep _ _ 1%nat ({| hw := [3%nat]; hr := [] |}, [MWrite 3%nat; Unlock 3%nat])); [reflexivity|constructor].
    + reflexivity.
Qed.
