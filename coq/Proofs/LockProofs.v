(* Generic theorem: if every thread's program passes the protocol checker, no reachable state of ANY
   interleaving of ANY number of threads has a data race on a shard map (a map write enabled together
   with another access to the same shard's map). *)
From VF Require Import Base.Prelude Model.LockProto.
From Coq Require Import Arith.

Definition thread := (held * list ev)%type.
Definition st := list thread.

Fixpoint upd {A} (l : list A) (i : nat) (x : A) : list A :=
  match l, i with [], _ => [] | _ :: t, O => x :: t | a :: t, S k => a :: upd t k x end.

Lemma nth_upd_same {A} (l : list A) i x y : nth_error l i = Some y -> nth_error (upd l i x) i = Some x.
Proof. revert i; induction l as [|a l IH]; intros [|i]; cbn; try discriminate; auto. Qed.
Lemma nth_upd_other {A} (l : list A) i j x : i <> j -> nth_error (upd l i x) j = nth_error l j.
Proof. revert i j; induction l as [|a l IH]; intros [|i] [|j] H; cbn; auto; try congruence. Qed.

(* Go's sync.RWMutex, derived from what the OTHER threads hold *)
Definition free (g : st) (i : nat) (s : nat) : Prop :=
  forall j t, j <> i -> nth_error g j = Some t -> anyb (fst t) s = false.
Definition nowriter (g : st) (i : nat) (s : nat) : Prop :=
  forall j t, j <> i -> nth_error g j = Some t -> inb s (hw (fst t)) = false.

Inductive tstep (g : st) (i : nat) : thread -> thread -> Prop :=
| SLock h s q : free g i s -> tstep g i (h, Lock s :: q) ({| hw := s :: hw h; hr := hr h |}, q)
| SRLock h s q : nowriter g i s -> tstep g i (h, RLock s :: q) ({| hw := hw h; hr := s :: hr h |}, q)
| SUnlock h s q : tstep g i (h, Unlock s :: q) ({| hw := rm s (hw h); hr := hr h |}, q)
| SRUnlock h s q : tstep g i (h, RUnlock s :: q) ({| hw := hw h; hr := rm s (hr h) |}, q)
| SRead h s q : tstep g i (h, MRead s :: q) (h, q)
| SWrite h s q : tstep g i (h, MWrite s :: q) (h, q).

Inductive step : st -> st -> Prop :=
| Step g i th th' : nth_error g i = Some th -> tstep g i th th' -> step g (upd g i th').

Inductive reachable (g0 : st) : st -> Prop :=
| R0 : reachable g0 g0
| RS x y : reachable g0 x -> step x y -> reachable g0 y.

Definition next_acc (th : thread) : option (nat * bool) :=
  match snd th with MRead s :: _ => Some (s, false) | MWrite s :: _ => Some (s, true) | _ => None end.

(* two different threads about to access the same shard's map, at least one of them writing *)
Definition race (g : st) : Prop :=
  exists i j t1 t2 s w1 w2, i <> j /\ nth_error g i = Some t1 /\ nth_error g j = Some t2 /\
    next_acc t1 = Some (s, w1) /\ next_acc t2 = Some (s, w2) /\ (w1 || w2) = true.

Definition excl (g : st) : Prop :=
  forall i j t1 t2 s, i <> j -> nth_error g i = Some t1 -> nth_error g j = Some t2 ->
    inb s (hw (fst t1)) = true -> anyb (fst t2) s = false.
Definition allwb (g : st) : Prop := forall i t, nth_error g i = Some t -> wb (fst t) (snd t) = true.
Definition Inv g := allwb g /\ excl g.

Lemma inb_rm_le s s' l : inb s' (rm s l) = true -> inb s' l = true.
Proof.
  unfold inb, rm; induction l as [|a l IH]; cbn; auto.
  destruct (Nat.eqb_spec s a); cbn; intros H.
  - rewrite (IH H); apply orb_true_r.
  - apply orb_prop in H as [H|H]; [rewrite H; reflexivity | rewrite (IH H); apply orb_true_r].
Qed.

(* one checker step *)
Lemma wb_step h e q : wb h (e :: q) = true ->
  match e with
  | Lock s => anyb h s = false /\ wb {| hw := s :: hw h; hr := hr h |} q = true
  | RLock s => anyb h s = false /\ wb {| hw := hw h; hr := s :: hr h |} q = true
  | Unlock s => inb s (hw h) = true /\ wb {| hw := rm s (hw h); hr := hr h |} q = true
  | RUnlock s => inb s (hr h) = true /\ wb {| hw := hw h; hr := rm s (hr h) |} q = true
  | MRead s => anyb h s = true /\ wb h q = true
  | MWrite s => inb s (hw h) = true /\ wb h q = true
  end.
Proof.
  unfold wb. cbn [run_wb]. destruct e as [s|s|s|s|s|s].
  - destruct (anyb h s) eqn:E; cbn; intros H; [discriminate H|split; [reflexivity|exact H]].
  - destruct (inb s (hw h)) eqn:E; cbn; intros H; [split; [reflexivity|exact H]|discriminate H].
  - destruct (anyb h s) eqn:E; cbn; intros H; [discriminate H|split; [reflexivity|exact H]].
  - destruct (inb s (hr h)) eqn:E; cbn; intros H; [split; [reflexivity|exact H]|discriminate H].
  - destruct (anyb h s) eqn:E; cbn; intros H; [split; [reflexivity|exact H]|discriminate H].
  - destruct (inb s (hw h)) eqn:E; cbn; intros H; [split; [reflexivity|exact H]|discriminate H].
Qed.

Lemma step_inv g g' : Inv g -> step g g' -> Inv g'.
Proof.
  intros [Hwb Hex] Hs. destruct Hs as [g i th th' Hi Ht].
  pose proof (Hwb i th Hi) as Hwi.
  split.
  - intros k t Hk. destruct (Nat.eq_dec i k) as [->|Hne].
    + rewrite (nth_upd_same _ _ _ _ Hi) in Hk. inversion Hk; subst t; clear Hk.
      destruct Ht; cbn [fst snd] in *; apply wb_step in Hwi; apply Hwi.
    + rewrite nth_upd_other in Hk by exact Hne. eauto.
  - intros a b t1 t2 s Hab Ha Hb Hw.
    destruct (Nat.eq_dec i a) as [->|Hia]; [|destruct (Nat.eq_dec i b) as [->|Hib]].
    + rewrite (nth_upd_same _ _ _ _ Hi) in Ha. inversion Ha; subst t1; clear Ha.
      rewrite nth_upd_other in Hb by exact Hab.
      destruct Ht as [h s0 q Hfree|h s0 q Hnw|h s0 q|h s0 q|h s0 q|h s0 q]; cbn [fst snd hw hr] in *.
      * unfold inb in Hw; cbn in Hw. destruct (Nat.eqb_spec s s0) as [->|Hne].
        -- eapply Hfree; [|exact Hb]. congruence.
        -- cbn in Hw. eapply (Hex a b (h, Lock s0 :: q) t2 s); eauto.
      * eapply (Hex a b (h, RLock s0 :: q) t2 s); eauto.
      * apply inb_rm_le in Hw. eapply (Hex a b (h, Unlock s0 :: q) t2 s); eauto.
      * eapply (Hex a b (h, RUnlock s0 :: q) t2 s); eauto.
      * eapply (Hex a b (h, MRead s0 :: q) t2 s); eauto.
      * eapply (Hex a b (h, MWrite s0 :: q) t2 s); eauto.
    + rewrite (nth_upd_same _ _ _ _ Hi) in Hb. inversion Hb; subst t2; clear Hb.
      rewrite nth_upd_other in Ha by (intro; subst; congruence).
      assert (Hold : anyb (fst th) s = false) by (eapply (Hex a b t1 th s); eauto).
      destruct Ht as [h s0 q Hfree|h s0 q Hnw|h s0 q|h s0 q|h s0 q|h s0 q]; cbn [fst snd hw hr] in *;
        unfold anyb in *; cbn [hw hr] in *.
      * destruct (Nat.eqb_spec s s0) as [->|Hne].
        -- exfalso. pose proof (Hfree a t1 Hab Ha) as Hf. unfold anyb in Hf. rewrite Hw in Hf. discriminate.
        -- unfold inb at 1; cbn. destruct (Nat.eqb_spec s s0); [congruence|]. exact Hold.
      * destruct (Nat.eqb_spec s s0) as [->|Hne].
        -- exfalso. rewrite (Hnw a t1 Hab Ha) in Hw. discriminate.
        -- unfold inb at 2; cbn. destruct (Nat.eqb_spec s s0); [congruence|]. exact Hold.
      * apply orb_false_iff in Hold as [H1 H2]. apply orb_false_iff; split; [|exact H2].
        destruct (inb s (rm s0 (hw h))) eqn:E; [apply inb_rm_le in E; congruence|reflexivity].
      * apply orb_false_iff in Hold as [H1 H2]. apply orb_false_iff; split; [exact H1|].
        destruct (inb s (rm s0 (hr h))) eqn:E; [apply inb_rm_le in E; congruence|reflexivity].
      * exact Hold.
      * exact Hold.
    + rewrite nth_upd_other in Ha by exact Hia. rewrite nth_upd_other in Hb by exact Hib. eauto.
Qed.

Theorem reachable_inv g0 g : Inv g0 -> reachable g0 g -> Inv g.
Proof. intros H0 Hr; induction Hr; eauto using step_inv. Qed.

Theorem race_free g0 g : Inv g0 -> reachable g0 g -> ~ race g.
Proof.
  intros H0 Hr [i [j [t1 [t2 [s [w1 [w2 (Hij & Hi & Hj & N1 & N2 & Hw)]]]]]]].
  destruct (reachable_inv _ _ H0 Hr) as [Hwb Hex].
  pose proof (Hwb i t1 Hi) as W1. pose proof (Hwb j t2 Hj) as W2.
  destruct t1 as [h1 p1], t2 as [h2 p2]; unfold next_acc in *; cbn [fst snd] in *.
  destruct p1 as [|[] p1]; try discriminate; destruct p2 as [|[] p2]; try discriminate;
    inversion N1; inversion N2; subst; apply wb_step in W1 as [A1 _]; apply wb_step in W2 as [A2 _];
    cbn in Hw; try discriminate.
  - pose proof (Hex j i (h2, MWrite s :: p2) (h1, MRead s :: p1) s (not_eq_sym Hij) Hj Hi A2) as E.
    cbn [fst] in E. rewrite E in A1. discriminate.
  - pose proof (Hex i j (h1, MWrite s :: p1) (h2, MRead s :: p2) s Hij Hi Hj A1) as E.
    cbn [fst] in E. rewrite E in A2. discriminate.
  - pose proof (Hex i j (h1, MWrite s :: p1) (h2, MWrite s :: p2) s Hij Hi Hj A1) as E.
    cbn [fst] in E. unfold anyb in E. rewrite A2 in E. discriminate.
Qed.

(* ---------- programs built from balanced operations ---------- *)
Lemma run_wb_app h p : forall q, run_wb h (p ++ q) = match run_wb h p with Some h' => run_wb h' q | None => None end.
Proof.
  revert h; induction p as [|e p IH]; intros h q; [reflexivity|].
  cbn [app run_wb]. destruct e; match goal with |- context [if ?c then _ else _] => destruct c end; auto.
Qed.

Lemma balanced_concat ops : forallb balanced ops = true -> run_wb no_locks (concat ops) = Some no_locks.
Proof.
  induction ops as [|p ops IH]; cbn [concat forallb]; [reflexivity|]. intros H. apply andb_true_iff in H as [Hp Ho].
  rewrite run_wb_app. unfold balanced in Hp. destruct (run_wb no_locks p) as [[[|] [|]]|]; try discriminate.
  apply IH; exact Ho.
Qed.

Definition init (progs : list (list ev)) : st := map (fun p => (no_locks, p)) progs.

(* any number of threads, each running any sequence of balanced operations, under any schedule *)
Theorem balanced_threads_race_free (threads : list (list (list ev))) g :
  forallb (forallb balanced) threads = true -> reachable (init (map (@concat ev) threads)) g -> ~ race g.
Proof.
  intros Hall. apply race_free. split.
  - intros i t Hi. unfold init in Hi. rewrite map_map in Hi. rewrite nth_error_map in Hi.
    destruct (nth_error threads i) as [ops|] eqn:E; [|discriminate]. inversion Hi; subst; cbn [fst snd].
    unfold wb. rewrite balanced_concat; [reflexivity|].
    exact (proj1 (forallb_forall _ _) Hall ops (nth_error_In _ _ E)).
  - intros i j t1 t2 s _ Hi _ Hw. unfold init in Hi. rewrite nth_error_map in Hi.
    destruct (nth_error (map (@concat ev) threads) i); [|discriminate]. inversion Hi; subst; cbn in Hw. discriminate.
Qed.
