(* C16, the worker's side: every packet the mirror goroutine emits for datagram i carries datagram i's octets, for any number
   of workers and any interleaving, because a buffer has exactly one owner at any time. *)
From VF Require Import Base.Prelude Model.MirrorHandoff.

Lemma hset_same {A} (f : bufid -> A) b x : hset f b x b = x.
Proof. unfold hset. now rewrite Nat.eqb_refl. Qed.
Lemma hset_other {A} (f : bufid -> A) b x b' : b' <> b -> hset f b x b' = f b'.
Proof. intros H. unfold hset. destruct (Nat.eqb b' b) eqn:E; [apply Nat.eqb_eq in E; congruence|reflexivity]. Qed.
Lemma nth_hupd_same {A} (l : list A) i x y : nth_error l i = Some y -> nth_error (hupd l i x) i = Some x.
Proof. revert i. induction l as [|a l IH]; intros [|i] H; cbn in *; try discriminate; auto. Qed.
Lemma NoDup_app_snoc {A} (l : list A) b : NoDup l -> ~ In b l -> NoDup (l ++ [b]).
Proof. intros H Hn. induction H as [|a l Ha Hl IH]; cbn; [constructor; [intros []|constructor]|]. constructor; [|apply IH; intros Hi; apply Hn; right; exact Hi]. intros Hi. apply in_app_or in Hi as [Hi|[->|[]]]; [exact (Ha Hi)|apply Hn; left; reflexivity]. Qed.
Lemma nth_hupd_other {A} (l : list A) i j x : i <> j -> nth_error (hupd l i x) j = nth_error l j.
Proof. revert i j. induction l as [|a l IH]; intros [|i] [|j] H; cbn; try reflexivity; try congruence. apply IH. congruence. Qed.

Definition hinv (s : hst) : Prop :=
  (forall w m i, nth_error (hws s) w = Some (MWHave m i) -> howner s m = MWorker w /\ hheap s m = i) /\
  (forall m i, In (m, i) (hq s) -> howner s m = MQueued /\ hheap s m = i) /\
  NoDup (map fst (hq s)) /\
  (forall m i, hm s = MMHave m i -> howner s m = MMirror /\ hheap s m = i) /\
  Forall (fun e => snd e = fst e) (emitted s).

Lemma hinv_step s s' : hinv s -> hstep s s' -> hinv s'.
Proof.
  intros (Iw & Iq & Id & Im & Ie) St. destruct St as [s w m i Hw Hfree|s w m i Hw|s w m i Hw|s m i rest Hm Hq|s m i Hm]; unfold hinv; cbn [howner hheap hws hq hm emitted].
  - (* HGet: m was free, so nobody else refers to it *)
    split; [|split; [|split; [exact Id|split]]]; try exact Ie.
    + intros w' m' i' H. destruct (Nat.eq_dec w' w) as [->|Hn].
      * rewrite (nth_hupd_same _ _ _ _ Hw) in H. injection H as <- <-. now rewrite !hset_same.
      * rewrite nth_hupd_other in H by congruence. destruct (Iw _ _ _ H) as [Ho Hh].
        assert (m' <> m) by (intros ->; congruence). now rewrite !hset_other.
    + intros m' i' H. destruct (Iq _ _ H) as [Ho Hh]. assert (m' <> m) by (intros ->; congruence). now rewrite !hset_other.
    + intros m' i' H. destruct (Im _ _ H) as [Ho Hh]. assert (m' <> m) by (intros ->; congruence). now rewrite !hset_other.
  - (* HSend *)
    destruct (Iw _ _ _ Hw) as [Ho Hh]. split; [|split; [|split; [|split]]]; try exact Ie.
    + intros w' m' i' H. destruct (Nat.eq_dec w' w) as [->|Hn]; [rewrite (nth_hupd_same _ _ _ _ Hw) in H; discriminate|].
      rewrite nth_hupd_other in H by congruence. destruct (Iw _ _ _ H) as [Ho' Hh'].
      assert (m' <> m) by (intros ->; rewrite Ho in Ho'; injection Ho'; congruence). now rewrite hset_other.
    + intros m' i' H. apply in_app_or in H as [H|[H|[]]].
      * destruct (Iq _ _ H) as [Ho' Hh']. assert (m' <> m) by (intros ->; congruence). now rewrite hset_other.
      * injection H as <- <-. now rewrite hset_same.
    + rewrite map_app. cbn [map fst]. apply NoDup_app_snoc; [exact Id|].
      intros Hin. apply in_map_iff in Hin as ([m' i'] & E & Hin). cbn in E. subst m'. destruct (Iq _ _ Hin) as [Ho' _]. congruence.
    + intros m' i' H. destruct (Im _ _ H) as [Ho' Hh']. assert (m' <> m) by (intros ->; congruence). now rewrite hset_other.
  - (* HDrop *)
    destruct (Iw _ _ _ Hw) as [Ho Hh]. split; [|split; [|split; [exact Id|split]]]; try exact Ie.
    + intros w' m' i' H. destruct (Nat.eq_dec w' w) as [->|Hn]; [rewrite (nth_hupd_same _ _ _ _ Hw) in H; discriminate|].
      rewrite nth_hupd_other in H by congruence. destruct (Iw _ _ _ H) as [Ho' Hh'].
      assert (m' <> m) by (intros ->; rewrite Ho in Ho'; injection Ho'; congruence). now rewrite hset_other.
    + intros m' i' H. destruct (Iq _ _ H) as [Ho' Hh']. assert (m' <> m) by (intros ->; congruence). now rewrite hset_other.
    + intros m' i' H. destruct (Im _ _ H) as [Ho' Hh']. assert (m' <> m) by (intros ->; congruence). now rewrite hset_other.
  - (* HRecv *)
    destruct (Iq m i) as [Ho Hh]; [rewrite Hq; left; reflexivity|]. rewrite Hq in Id. cbn [map fst] in Id. apply NoDup_cons_iff in Id as [Hni Id'].
    split; [|split; [|split; [exact Id'|split]]]; try exact Ie.
    + intros w' m' i' H. destruct (Iw _ _ _ H) as [Ho' Hh']. assert (m' <> m) by (intros ->; congruence). now rewrite hset_other.
    + intros m' i' H. destruct (Iq m' i') as [Ho' Hh']; [rewrite Hq; right; exact H|].
      assert (m' <> m) by (intros ->; apply Hni; apply in_map_iff; exists (m, i'); split; [reflexivity|exact H]). now rewrite hset_other.
    + intros m' i' H. injection H as <- <-. now rewrite hset_same.
  - (* HEmit *)
    destruct (Im _ _ Hm) as [Ho Hh]. split; [|split; [|split; [exact Id|split]]].
    + intros w' m' i' H. destruct (Iw _ _ _ H) as [Ho' Hh']. assert (m' <> m) by (intros ->; congruence). now rewrite hset_other.
    + intros m' i' H. destruct (Iq _ _ H) as [Ho' Hh']. assert (m' <> m) by (intros ->; congruence). now rewrite hset_other.
    + intros m' i' H. discriminate H.
    + apply Forall_app. split; [exact Ie|]. constructor; [cbn; exact Hh|constructor].
Qed.

Lemma hinv_init n : hinv (hinit n).
Proof.
  unfold hinv, hinit; cbn. split; [|split; [|split; [constructor|split; [|constructor]]]].
  - intros w m i H. apply nth_error_In in H. apply repeat_spec in H. discriminate H.
  - intros m i [].
  - intros m i H. discriminate H.
Qed.

(* every packet the mirror goroutine emits for datagram i was copied out of a buffer holding datagram i *)
Theorem mirror_handoff_faithful n s : hreach (hinit n) s -> Forall (fun e => snd e = fst e) (emitted s).
Proof. intros R. assert (H : hinv s) by (induction R; [apply hinv_init|eapply hinv_step; eassumption]). apply H. Qed.
