(* C01 / C02 for sFlow: SFDecode never panics and never loops, whatever octets the datagram holds; the number of
   samples it produces is bounded by the datagram's size.  `Ok` = the model's checked primitives were never
   violated and the explicit fuel (one unit per octet) never ran out.  The argument: every reader operation either
   fails or moves the position forward (lengths read from the wire are unsigned), and every loop iteration
   consumes at least the 8 octets of a tag/length pair. *)
From VF Require Import Base.Prelude Base.IPText Base.Json Model.Layout Model.JsonPieces Model.Packet Model.Sflow
  Proofs.ReaderProofs Proofs.JsonProofs Proofs.WfDecode Proofs.SflowJson.

Lemma be_acc_nonneg l : forall a, wf_bytes l -> 0 <= a -> 0 <= be_acc l a.
Proof. induction l as [|b l IH]; intros a H Ha; cbn [be_acc]; [exact Ha|]. apply Forall_cons_iff in H as [Hb H]. unfold is_byte in Hb. apply IH; [exact H|lia]. Qed.
Lemma be_nonneg l : wf_bytes l -> 0 <= be l.
Proof. intros H. apply be_acc_nonneg; [exact H|lia]. Qed.

(* the reader state is sane: octets, and a position that is not negative *)
Definition okr (r : sreader) : Prop := wf_bytes (sd r) /\ 0 <= sp r.
(* an operation either fails (no panic, no hang) or leaves a sane reader that is no further from the end *)
Definition good {A} (o : outcome (A * sreader)) (r : sreader) : Prop :=
  match o with Ok (_, r') => okr r' /\ srem r' <= srem r | Err _ => True | _ => False end.
Definition total {A} (o : outcome A) : Prop := match o with Ok _ | Err _ => True | _ => False end.

Lemma good_total {A} (o : outcome (A * sreader)) r : good o r -> total o.
Proof. destruct o as [[a q]| | |]; cbn; auto. Qed.

Lemma sread_full_good n r : okr r -> 0 <= n -> good (sread_full n r) r.
Proof.
  intros [Hw Hp] Hn. unfold sread_full. destruct (n =? 0); [cbn; split; [split; assumption|lia]|].
  destruct (srem r <? n); [exact I|]. cbn. unfold okr, srem; cbn. split; [split; [exact Hw|lia]|lia].
Qed.

Lemma sread_u_good n r : okr r -> 0 <= n -> good (sread_u n r) r /\ (forall v q, sread_u n r = Ok (v, q) -> 0 <= v).
Proof.
  intros H Hn. unfold sread_u. pose proof (sread_full_good n r H Hn) as Hg.
  destruct (sread_full n r) as [[b q]| | |] eqn:E; cbn [bind fst snd good] in *; try contradiction; try (split; [exact I|intros; discriminate]).
  split; [exact Hg|]. intros v q' Ev. injection Ev as <- _. apply be_nonneg. exact (proj1 (sread_full_wf _ _ _ _ (proj1 H) E)).
Qed.

Lemma sread_buf_good n r : okr r -> 0 <= n -> good (sread_buf n r) r.
Proof.
  intros [Hw Hp] Hn. unfold sread_buf. destruct (srem r <=? 0) eqn:E; [exact I|]. cbn. unfold okr, srem in *; cbn. split; [split; [exact Hw|lia]|lia].
Qed.

Lemma sseek_good o r : okr r -> 0 <= o -> okr (sseek o r) /\ srem (sseek o r) <= srem r.
Proof. intros [Hw Hp] Ho. unfold sseek. destruct (sp r + o <? 0); unfold okr, srem; cbn; (split; [split; [exact Hw|lia]|lia]). Qed.

Definition layout_nonneg (L : layout) : Prop := Forall (fun x => 0 <= snd x) L.

Lemma sread_layout_good L : layout_nonneg L -> forall r, okr r -> good (sread_layout L r) r.
Proof.
  induction 1 as [|[nm w] L Hw _ IH]; intros r H; cbn [sread_layout]; [cbn; split; [exact H|lia]|]. cbn [snd] in Hw.
  destruct (String.eqb nm "").
  - destruct (sseek_good w r H Hw) as [H1 H2]. specialize (IH _ H1).
    destruct (sread_layout L (sseek w r)) as [[fs q]| | |]; cbn [good] in *; auto. destruct IH; split; [assumption|lia].
  - destruct (sread_u_good w r H Hw) as [Hg _].
    destruct (sread_u w r) as [[v q]| | |]; cbn [bind fst snd good] in *; try contradiction; auto.
    destruct Hg as [Hq Hs]. specialize (IH _ Hq).
    destruct (sread_layout L q) as [[fs q2]| | |]; cbn [bind fst snd good] in *; try contradiction; auto. destruct IH; split; [assumption|lia].
Qed.

(* the packet breakdown is made of total functions guarded by length tests *)
Lemma packet_decode_total d proto : total (packet_decode d proto).
Proof.
  unfold packet_decode.
  assert (Hl : forall l2 k dd, total (x <- (if k =? 4 then decode_ipv4 dd else decode_ipv6 dd) ;; let '(l3, pr, rest) := x in l4 <- decode_l4 pr rest ;; Ok (JObj [("L2"%string, l2); ("L3"%string, l3); ("L4"%string, l4)]))).
  { intros l2 k dd. destruct (k =? 4); unfold decode_ipv4, decode_ipv6; repeat (destruct (len dd <? _); cbn [bind total]; auto);
      unfold decode_l4; repeat match goal with |- context [if ?c then _ else _] => destruct c end; cbn; auto. }
  destruct (proto =? 1).
  - unfold decode_ethernet. destruct (len d <? 14); [exact I|]. destruct (ieee802 d) as [[s1 d1] et1].
    destruct (et1 =? 33024).
    + destruct (len d <? 18); [exact I|]. destruct (ieee802 _) as [[s2 d2] et2]. cbn [bind].
      destruct (et2 =? 2048); [apply Hl|]. destruct (et2 =? 34525); [apply Hl|exact I].
    + cbn [bind]. destruct (et1 =? 2048); [apply Hl|]. destruct (et1 =? 34525); [apply Hl|exact I].
  - destruct (proto =? 11); [apply Hl|]. destruct (proto =? 12); [apply Hl|exact I].
Qed.

Section SF.
  Variables (ext_switch_l : layout) (ext_switch_f : list string).
  Hypothesis Hes : layout_nonneg ext_switch_l.

  Ltac step_u H n r v q E Hq Hs Hv :=
    destruct (sread_u_good n r H ltac:(lia)) as [Hg Hv];
    destruct (sread_u n r) as [[v q]| | |] eqn:E; cbn [bind fst snd catch good] in *; try contradiction; auto;
    destruct Hg as [Hq Hs]; specialize (Hv _ _ eq_refl).

  Lemma decode_sampled_header_good r : okr r -> good (decode_sampled_header r) r.
  Proof.
    intros H. unfold decode_sampled_header.
    destruct (sread_u_good 4 r H ltac:(lia)) as [Hg1 _]. destruct (sread_u 4 r) as [[v1 q1]| | |]; cbn [bind fst snd good] in *; try contradiction; auto. destruct Hg1 as [H1 S1].
    destruct (sread_u_good 4 q1 H1 ltac:(lia)) as [Hg2 _]. destruct (sread_u 4 q1) as [[v2 q2]| | |]; cbn [bind fst snd good] in *; try contradiction; auto. destruct Hg2 as [H2 S2].
    destruct (sread_u_good 4 q2 H2 ltac:(lia)) as [Hg3 _]. destruct (sread_u 4 q2) as [[v3 q3]| | |]; cbn [bind fst snd good] in *; try contradiction; auto. destruct Hg3 as [H3 S3].
    destruct (sread_u_good 4 q3 H3 ltac:(lia)) as [Hg4 Hv4]. destruct (sread_u 4 q3) as [[v4 q4]| | |]; cbn [bind fst snd good] in *; try contradiction; auto. destruct Hg4 as [H4 S4].
    specialize (Hv4 _ _ eq_refl). destruct (1500 <? v4); [exact I|].
    pose proof (sread_buf_good (v4 + (4 - v4 mod 4) mod 4) q4 H4 ltac:(lia)) as Hg5.
    destruct (sread_buf _ q4) as [[b q5]| | |]; cbn [bind fst snd good] in *; try contradiction; auto. destruct Hg5 as [H5 S5].
    pose proof (packet_decode_total (firstn (Z.to_nat v4) b) v1) as Ht.
    destruct (packet_decode _ v1) as [pk| | |]; cbn [bind total good] in *; try contradiction; auto. split; [exact H5|lia].
  Qed.

  Lemma decode_ext_router_good l r : okr r -> good (decode_ext_router l r) r.
  Proof.
    intros H. unfold decode_ext_router. destruct ((l =? 16) || (l =? 28)) eqn:El; cbn [negb]; [|exact I].
    pose proof (sread_full_good (l - 8) r H ltac:(lia)) as Hg1.
    destruct (sread_full (l - 8) r) as [[b q1]| | |]; cbn [bind fst snd good] in *; try contradiction; auto. destruct Hg1 as [H1 S1].
    destruct (sread_u_good 4 q1 H1 ltac:(lia)) as [Hg2 _]. destruct (sread_u 4 q1) as [[v2 q2]| | |]; cbn [bind fst snd good] in *; try contradiction; auto. destruct Hg2 as [H2 S2].
    destruct (sread_u_good 4 q2 H2 ltac:(lia)) as [Hg3 _]. destruct (sread_u 4 q2) as [[v3 q3]| | |]; cbn [bind fst snd good] in *; try contradiction; auto. destruct Hg3 as [H3 S3].
    split; [exact H3|lia].
  Qed.

  (* one unit of fuel per 8 octets that are left is enough *)
  Lemma flow_records_good : forall k n r m, okr r -> Z.max 0 (srem r) < 8 * Z.of_nat k ->
    good (flow_records ext_switch_l ext_switch_f k n r m) r.
  Proof.
    induction k as [|k IH]; intros n r m H Hf; cbn [flow_records]; destruct (n <=? 0); try (cbn; split; [exact H|lia]).
    - lia.
    - destruct (sread_u_good 4 r H ltac:(lia)) as [Hg1 _]. destruct (sread_u 4 r) as [[f q1]| | |] eqn:E1; cbn [bind fst snd good] in *; try contradiction; auto. destruct Hg1 as [H1 S1].
      destruct (sread_u_good 4 q1 H1 ltac:(lia)) as [Hg2 Hv2]. destruct (sread_u 4 q1) as [[l q2]| | |] eqn:E2; cbn [bind fst snd good] in *; try contradiction; auto. destruct Hg2 as [H2 S2].
      specialize (Hv2 _ _ eq_refl).
      (* the two reads consumed 8 octets *)
      assert (S8 : srem q2 = srem r - 8 /\ 8 <= srem r).
      { unfold sread_u, sread_full in E1, E2. cbn [Z.eqb] in E1, E2.
        destruct (srem r <? 4) eqn:G1; cbn [bind fst snd] in E1; [discriminate E1|]. injection E1 as _ <-.
        destruct (srem {| sd := sd r; sp := sp r + 4 |} <? 4) eqn:G2; cbn [bind fst snd] in E2; [discriminate E2|]. injection E2 as _ <-. unfold srem in *; cbn in *. lia. }
      destruct S8 as [S8 S8'].
      destruct (f =? 1).
      { pose proof (decode_sampled_header_good q2 H2) as Hg. destruct (decode_sampled_header q2) as [[j q3]| | |]; cbn [bind fst snd good] in *; try contradiction; auto.
        destruct Hg as [H3 S3]. specialize (IH (n - 1) q3 (set_member "RawHeader" j m) H3 ltac:(lia)).
        destruct (flow_records _ _ k (n - 1) q3 _) as [[m' q4]| | |]; cbn [good] in *; auto. destruct IH; split; [assumption|lia]. }
      destruct (f =? 1001).
      { pose proof (sread_layout_good ext_switch_l Hes q2 H2) as Hg. destruct (sread_layout ext_switch_l q2) as [[fs q3]| | |]; cbn [bind fst snd good] in *; try contradiction; auto.
        destruct Hg as [H3 S3]. specialize (IH (n - 1) q3 (set_member "ExtSwitch" (JObj (obj_of (struct_of ext_switch_f fs))) m) H3 ltac:(lia)).
        destruct (flow_records _ _ k (n - 1) q3 _) as [[m' q4]| | |]; cbn [good] in *; auto. destruct IH; split; [assumption|lia]. }
      destruct (f =? 1002).
      { pose proof (decode_ext_router_good l q2 H2) as Hg. destruct (decode_ext_router l q2) as [[j q3]| | |]; cbn [bind fst snd good] in *; try contradiction; auto.
        destruct Hg as [H3 S3]. specialize (IH (n - 1) q3 (set_member "ExtRouter" j m) H3 ltac:(lia)).
        destruct (flow_records _ _ k (n - 1) q3 _) as [[m' q4]| | |]; cbn [good] in *; auto. destruct IH; split; [assumption|lia]. }
      destruct (sseek_good l q2 H2 Hv2) as [H3 S3]. specialize (IH (n - 1) (sseek l q2) m H3 ltac:(lia)).
      destruct (flow_records _ _ k (n - 1) (sseek l q2) m) as [[m' q4]| | |]; cbn [good] in *; auto. destruct IH; split; [assumption|lia].
  Qed.
End SF.

Section SF2.
  Variables (flow_sample_l counter_sample_l ext_switch_l generic_l ethernet_l tokenring_l vg_l vlan_l processor_l : layout).
  Variables (flow_sample_f counter_sample_f ext_switch_f generic_f ethernet_f tokenring_f vg_f vlan_f processor_f : list string).
  Hypothesis Hfs : layout_nonneg flow_sample_l.
  Hypothesis Hcs : layout_nonneg counter_sample_l.
  Hypothesis Hes : layout_nonneg ext_switch_l.
  Hypothesis Hgen : layout_nonneg generic_l.
  Hypothesis Heth : layout_nonneg ethernet_l.
  Hypothesis Htr : layout_nonneg tokenring_l.
  Hypothesis Hvg : layout_nonneg vg_l.
  Hypothesis Hvl : layout_nonneg vlan_l.
  Hypothesis Hpr : layout_nonneg processor_l.

  Notation counter_layout' := (counter_layout generic_l ethernet_l tokenring_l vg_l vlan_l processor_l generic_f ethernet_f tokenring_f vg_f vlan_f processor_f).
  Notation counter_records' := (counter_records generic_l ethernet_l tokenring_l vg_l vlan_l processor_l generic_f ethernet_f tokenring_f vg_f vlan_f processor_f).

  Lemma counter_layout_nonneg f key L F : counter_layout' f = Some (key, L, F) -> layout_nonneg L.
  Proof.
    unfold counter_layout. intros E.
    repeat match type of E with (if ?c then _ else _) = _ => destruct c; [injection E as _ <- _; assumption|] end. discriminate E.
  Qed.

  Lemma two_reads r f q1 l q2 : sread_u 4 r = Ok (f, q1) -> sread_u 4 q1 = Ok (l, q2) -> srem q2 = srem r - 8 /\ 8 <= srem r.
  Proof.
    intros E1 E2. unfold sread_u, sread_full in E1, E2. cbn [Z.eqb] in E1, E2.
    destruct (srem r <? 4) eqn:G1; cbn [bind fst snd] in E1; [discriminate E1|]. injection E1 as _ <-.
    destruct (srem {| sd := sd r; sp := sp r + 4 |} <? 4) eqn:G2; cbn [bind fst snd] in E2; [discriminate E2|]. injection E2 as _ <-.
    unfold srem in *; cbn in *. lia.
  Qed.

  Lemma counter_records_good : forall k n r m, okr r -> Z.max 0 (srem r) < 8 * Z.of_nat k -> good (counter_records' k n r m) r.
  Proof.
    induction k as [|k IH]; intros n r m H Hf; cbn [counter_records]; destruct (n <=? 0); try (cbn; split; [exact H|lia]); [lia|].
    destruct (sread_u_good 4 r H ltac:(lia)) as [Hg1 _]. destruct (sread_u 4 r) as [[f q1]| | |] eqn:E1; cbn [bind fst snd good] in *; try contradiction; auto. destruct Hg1 as [H1 S1].
    destruct (sread_u_good 4 q1 H1 ltac:(lia)) as [Hg2 Hv2]. destruct (sread_u 4 q1) as [[l q2]| | |] eqn:E2; cbn [bind fst snd good] in *; try contradiction; auto. destruct Hg2 as [H2 S2].
    specialize (Hv2 _ _ eq_refl). destruct (two_reads _ _ _ _ _ E1 E2) as [S8 S8'].
    destruct (counter_layout' f) as [[[key L] F]|] eqn:Ecl.
    - pose proof (sread_layout_good L (counter_layout_nonneg _ _ _ _ Ecl) q2 H2) as Hg.
      destruct (sread_layout L q2) as [[fs q3]| | |]; cbn [bind fst snd good] in *; try contradiction; auto. destruct Hg as [H3 S3].
      specialize (IH (n - 1) q3 (set_member key (JObj (obj_of (struct_of F fs))) m) H3 ltac:(lia)).
      destruct (counter_records' k (n - 1) q3 _) as [[m' q4]| | |]; cbn [good] in *; auto. destruct IH; split; [assumption|lia].
    - destruct (sseek_good l q2 H2 Hv2) as [H3 S3]. specialize (IH (n - 1) (sseek l q2) m H3 ltac:(lia)).
      destruct (counter_records' k (n - 1) (sseek l q2) m) as [[m' q4]| | |]; cbn [good] in *; auto. destruct IH; split; [assumption|lia].
  Qed.

  Lemma sfuel_enough r q : okr q -> sd q = sd r -> Z.max 0 (srem q) < 8 * Z.of_nat (sfuel r).
  Proof. intros [_ Hp] E. unfold sfuel, srem. rewrite E. unfold len. lia. Qed.

  Notation decode_flow_sample' := (decode_flow_sample flow_sample_l ext_switch_l flow_sample_f ext_switch_f).
  Notation decode_counter_sample' := (decode_counter_sample counter_sample_l generic_l ethernet_l tokenring_l vg_l vlan_l processor_l counter_sample_f generic_f ethernet_f tokenring_f vg_f vlan_f processor_f).

  (* sd is never changed by a reader operation *)
  Lemma sread_layout_sd L : forall r fs q, sread_layout L r = Ok (fs, q) -> sd q = sd r.
  Proof.
    induction L as [|[nm w] L IH]; intros r fs q E; cbn [sread_layout] in E; [injection E as _ <-; reflexivity|].
    destruct (String.eqb nm "").
    - rewrite (IH _ _ _ E). unfold sseek. destruct (_ <? 0); reflexivity.
    - unfold sread_u, sread_full in E. destruct (w =? 0); cbn [bind fst snd] in E.
      + destruct (sread_layout L r) as [[fs2 q2]| | |] eqn:E2; cbn [bind fst snd] in E; try discriminate E. injection E as _ <-. exact (IH _ _ _ E2).
      + destruct (srem r <? w); cbn [bind fst snd] in E; [discriminate E|].
        destruct (sread_layout L _) as [[fs2 q2]| | |] eqn:E2; cbn [bind fst snd] in E; try discriminate E. injection E as _ <-. rewrite (IH _ _ _ E2). reflexivity.
  Qed.

  Lemma decode_flow_sample_good r : okr r -> good (decode_flow_sample' r) r.
  Proof.
    intros H. unfold decode_flow_sample.
    pose proof (sread_layout_good flow_sample_l Hfs r H) as Hg. destruct (sread_layout flow_sample_l r) as [[h q]| | |] eqn:E; cbn [bind fst snd good] in *; try contradiction; auto.
    destruct Hg as [Hq Sq].
    pose proof (flow_records_good ext_switch_l ext_switch_f Hes (sfuel r) (field_get "RecordsNo" (struct_of flow_sample_f h)) q [] Hq (sfuel_enough r q Hq (sread_layout_sd _ _ _ _ E))) as Hg2.
    destruct (flow_records _ _ _ _ q []) as [[rs q2]| | |]; cbn [bind fst snd good] in *; try contradiction; auto. destruct Hg2; split; [assumption|lia].
  Qed.

  Lemma decode_counter_sample_good r : okr r -> good (decode_counter_sample' r) r.
  Proof.
    intros H. unfold decode_counter_sample.
    pose proof (sread_layout_good counter_sample_l Hcs r H) as Hg. destruct (sread_layout counter_sample_l r) as [[h q]| | |] eqn:E; cbn [bind fst snd good] in *; try contradiction; auto.
    destruct Hg as [Hq Sq].
    pose proof (counter_records_good (sfuel r) (field_get "RecordsNo" (struct_of counter_sample_f h)) q [] Hq (sfuel_enough r q Hq (sread_layout_sd _ _ _ _ E))) as Hg2.
    destruct (counter_records' _ _ q []) as [[rs q2]| | |]; cbn [bind fst snd good] in *; try contradiction; auto. destruct Hg2; split; [assumption|lia].
  Qed.

  Notation samples_loop' := (samples_loop flow_sample_l counter_sample_l ext_switch_l generic_l ethernet_l tokenring_l vg_l vlan_l processor_l
                                          flow_sample_f counter_sample_f ext_switch_f generic_f ethernet_f tokenring_f vg_f vlan_f processor_f).

  (* the sample loop: total, and it yields at most one sample per 8 octets on top of what it started with *)
  Lemma samples_loop_total : forall k filter n r ss cs, okr r -> Z.max 0 (srem r) < 8 * Z.of_nat k ->
    match samples_loop' k filter n r ss cs with
    | Ok (SFOk ss' cs') => len ss' + len cs' <= len ss + len cs + Z.max 0 (srem r) / 8
    | Ok _ => True
    | _ => False
    end.
  Proof.
    induction k as [|k IH]; intros filter n r ss cs H Hf; cbn [samples_loop]; destruct (n <=? 0); try (pose proof (Z.div_pos (Z.max 0 (srem r)) 8); lia).
    destruct (sread_u_good 4 r H ltac:(lia)) as [Hg1 _]. destruct (sread_u 4 r) as [[t q1]| | |] eqn:E1; cbn [catch bind fst snd good] in *; try contradiction; auto. destruct Hg1 as [H1 S1].
    destruct (sread_u_good 4 q1 H1 ltac:(lia)) as [Hg2 Hv2]. destruct (sread_u 4 q1) as [[l q2]| | |] eqn:E2; cbn [catch bind fst snd good] in *; try contradiction; auto. destruct Hg2 as [H2 S2].
    specialize (Hv2 _ _ eq_refl). destruct (two_reads _ _ _ _ _ E1 E2) as [S8 S8'].
    assert (Hdiv : forall x, x <= srem r - 8 -> Z.max 0 x / 8 + 1 <= Z.max 0 (srem r) / 8).
    { intros x Hx. replace (Z.max 0 (srem r)) with (srem r) by lia. destruct (Z.max_spec 0 x) as [[_ ->]|[_ ->]].
      - replace (srem r) with ((srem r - 8) + 1 * 8) by lia. rewrite Z.div_add by lia. apply Z.add_le_mono_r. apply Z.div_le_mono; lia.
      - cbn. replace (srem r) with ((srem r - 8) + 1 * 8) by lia. rewrite Z.div_add by lia. pose proof (Z.div_pos (srem r - 8) 8). lia. }
    assert (Hrec : forall q ss2 cs2, okr q -> srem q <= srem q2 -> len ss2 + len cs2 <= len ss + len cs + 1 ->
              match samples_loop' k filter (n - 1) q ss2 cs2 with
              | Ok (SFOk ss' cs') => len ss' + len cs' <= len ss + len cs + Z.max 0 (srem r) / 8
              | Ok _ => True | _ => False end).
    { intros q ss2 cs2 Hq Sq Hl. specialize (IH filter (n - 1) q ss2 cs2 Hq ltac:(lia)).
      destruct (samples_loop' k filter (n - 1) q ss2 cs2) as [[| |ss' cs']| | |]; auto. specialize (Hdiv (srem q) ltac:(lia)). lia. }
    destruct (existsb _ filter).
    { destruct (sseek_good l q2 H2 Hv2) as [H3 S3]. apply Hrec; [exact H3|lia|lia]. }
    destruct (_ =? 1).
    { pose proof (decode_flow_sample_good q2 H2) as Hg. destruct (decode_flow_sample' q2) as [[s q3]| | |]; cbn [catch good] in *; try contradiction; auto.
      destruct Hg as [H3 S3]. apply Hrec; [exact H3|lia|]. rewrite len_app, len_cons, len_nil. lia. }
    destruct (_ =? 2).
    { pose proof (decode_counter_sample_good q2 H2) as Hg. destruct (decode_counter_sample' q2) as [[s q3]| | |]; cbn [catch good] in *; try contradiction; auto.
      destruct Hg as [H3 S3]. apply Hrec; [exact H3|lia|]. rewrite len_app, len_cons, len_nil. lia. }
    destruct (sseek_good l q2 H2 Hv2) as [H3 S3]. apply Hrec; [exact H3|lia|lia].
  Qed.
End SF2.

Section Top.
  Variables (flow_sample_l counter_sample_l ext_switch_l generic_l ethernet_l tokenring_l vg_l vlan_l processor_l : layout).
  Variables (flow_sample_f counter_sample_f ext_switch_f generic_f ethernet_f tokenring_f vg_f vlan_f processor_f : list string).
  Hypothesis Hfs : layout_nonneg flow_sample_l.
  Hypothesis Hcs : layout_nonneg counter_sample_l.
  Hypothesis Hes : layout_nonneg ext_switch_l.
  Hypothesis Hgen : layout_nonneg generic_l.
  Hypothesis Heth : layout_nonneg ethernet_l.
  Hypothesis Htr : layout_nonneg tokenring_l.
  Hypothesis Hvg : layout_nonneg vg_l.
  Hypothesis Hvl : layout_nonneg vlan_l.
  Hypothesis Hpr : layout_nonneg processor_l.

  Notation sf_decode' := (sf_decode flow_sample_l counter_sample_l ext_switch_l generic_l ethernet_l tokenring_l vg_l vlan_l processor_l
                                    flow_sample_f counter_sample_f ext_switch_f generic_f ethernet_f tokenring_f vg_f vlan_f processor_f).

  Definition doc_samples (j : jv) : Z :=
    match j with
    | JObj l => fold_right (fun kv acc => match snd kv with JArr a => len a + acc | _ => acc end) 0 l
    | _ => 0
    end.

  (* SFDecode on ANY datagram of octets: never panics, never loops; what it publishes holds at most one sample or
     counter block per 8 octets of the datagram *)
  Theorem sf_decode_safe filter p : wf_bytes p ->
    exists ok o, sf_decode' filter p = Ok (ok, o) /\
      match o with Some j => doc_samples j <= len p / 8 | None => True end.
  Proof.
    intros Hp. unfold sf_decode. set (r0 := {| sd := p; sp := 0 |}).
    assert (H0 : okr r0) by (split; [exact Hp|cbn; lia]).
    assert (Hsd : forall n r v q, sread_u n r = Ok (v, q) -> sd q = sd r).
    { intros n r v q E. unfold sread_u, sread_full in E. destruct (n =? 0); cbn [bind fst snd] in E; [injection E as _ <-; reflexivity|].
      destruct (srem r <? n); cbn [bind fst snd] in E; [discriminate E|]. injection E as _ <-. reflexivity. }
    destruct (sread_u_good 4 r0 H0 ltac:(lia)) as [Hg1 _]. destruct (sread_u 4 r0) as [[v q1]| | |] eqn:E1; cbn [catch bind fst snd good] in *; try contradiction; [|do 2 eexists; split; [reflexivity|exact I]].
    destruct Hg1 as [H1 S1]. destruct (negb (v =? 5)); cbn [catch]; [do 2 eexists; split; [reflexivity|exact I]|].
    destruct (sread_u_good 4 q1 H1 ltac:(lia)) as [Hg2 _]. destruct (sread_u 4 q1) as [[iv q2]| | |] eqn:E2; cbn [catch bind fst snd good] in *; try contradiction; [|do 2 eexists; split; [reflexivity|exact I]].
    destruct Hg2 as [H2 S2].
    pose proof (sread_buf_good (if iv =? 2 then 16 else 4) q2 H2 ltac:(destruct (iv =? 2); lia)) as Hg3.
    destruct (sread_buf _ q2) as [[ip q3]| | |] eqn:E3; cbn [catch bind fst snd good] in *; try contradiction; [|do 2 eexists; split; [reflexivity|exact I]].
    destruct Hg3 as [H3 S3].
    destruct (sread_u_good 4 q3 H3 ltac:(lia)) as [Hg4 _]. destruct (sread_u 4 q3) as [[sub q4]| | |] eqn:E4; cbn [catch bind fst snd good] in *; try contradiction; [|do 2 eexists; split; [reflexivity|exact I]]. destruct Hg4 as [H4 S4].
    destruct (sread_u_good 4 q4 H4 ltac:(lia)) as [Hg5 _]. destruct (sread_u 4 q4) as [[sq q5]| | |] eqn:E5; cbn [catch bind fst snd good] in *; try contradiction; [|do 2 eexists; split; [reflexivity|exact I]]. destruct Hg5 as [H5 S5].
    destruct (sread_u_good 4 q5 H5 ltac:(lia)) as [Hg6 _]. destruct (sread_u 4 q5) as [[up q6]| | |] eqn:E6; cbn [catch bind fst snd good] in *; try contradiction; [|do 2 eexists; split; [reflexivity|exact I]]. destruct Hg6 as [H6 S6].
    destruct (sread_u_good 4 q6 H6 ltac:(lia)) as [Hg7 _]. destruct (sread_u 4 q6) as [[n q7]| | |] eqn:E7; cbn [catch bind fst snd good] in *; try contradiction; [|do 2 eexists; split; [reflexivity|exact I]]. destruct Hg7 as [H7 S7].
    assert (Hf : Z.max 0 (srem q7) < 8 * Z.of_nat (sfuel q7)) by (apply (sfuel_enough q7 q7 H7 eq_refl)).
    pose proof (samples_loop_total flow_sample_l counter_sample_l ext_switch_l generic_l ethernet_l tokenring_l vg_l vlan_l processor_l
                  flow_sample_f counter_sample_f ext_switch_f generic_f ethernet_f tokenring_f vg_f vlan_f processor_f
                  Hfs Hcs Hes Hgen Heth Htr Hvg Hvl Hpr (sfuel q7) filter n q7 [] [] H7 Hf) as Hl.
    destruct (samples_loop _ _ _ _ _ _ _ _ _ _ _ _ _ _ _ _ _ _ (sfuel q7) filter n q7 [] []) as [[| |ss cs]| | |]; cbn [bind] in *; try contradiction;
      try (do 2 eexists; split; [reflexivity|exact I]).
    assert (Hb : len ss + len cs <= len p / 8).
    { change (len (@nil jv)) with 0 in Hl. assert (srem r0 = len p) by (unfold srem, r0; cbn; lia). assert (srem q7 <= len p) by lia.
      assert (Z.max 0 (srem q7) / 8 <= len p / 8) by (apply Z.div_le_mono; unfold len in *; lia). lia. }
    destruct ss as [|s ss0]; [destruct cs as [|c0 cs0]; [do 2 eexists; split; [reflexivity|exact I]|]|];
      do 2 eexists; (split; [reflexivity|]); cbn [doc_samples fold_right snd]; lia.
  Qed.
End Top.

Lemma layout_nonneg_b L : forallb (fun x => 0 <=? snd x) L = true -> layout_nonneg L.
Proof. intros H. apply Forall_forall. intros x Hx. rewrite forallb_forall in H. specialize (H x Hx). lia. Qed.

(* the instance the collector runs: the layouts regenerated from sflow/*.go *)
From VF Require Gen.Layouts.
Module GL := VF.Gen.Layouts.
Definition sf_decode_src :=
  sf_decode GL.sf_flow_sample_layout GL.sf_counter_sample_layout GL.sf_ext_switch_layout GL.sf_generic_layout GL.sf_ethernet_layout
            GL.sf_tokenring_layout GL.sf_vg_layout GL.sf_vlan_layout GL.sf_processor_layout
            GL.sf_flow_sample_fields GL.sf_counter_sample_fields GL.sf_ext_switch_fields GL.sf_generic_fields GL.sf_ethernet_fields
            GL.sf_tokenring_fields GL.sf_vg_fields GL.sf_vlan_fields GL.sf_processor_fields.

Theorem sf_decode_src_safe filter p : wf_bytes p ->
  exists ok o, sf_decode_src filter p = Ok (ok, o) /\ match o with Some j => doc_samples j <= len p / 8 | None => True end.
Proof. apply sf_decode_safe; apply layout_nonneg_b; reflexivity. Qed.
