(* C01 / C02 for sFlow: SFDecode never panics and never loops, whatever octets the datagram holds; the number of
   samples it produces is bounded by the datagram's size.  `Ok` = the model's checked primitives were never
   violated and the explicit fuel (one unit per octet) never ran out.  The argument: every reader operation either
   fails or moves the position forward (lengths read from the wire are unsigned), and every loop iteration
   consumes at least the 8 octets of a tag/length pair. *)
From VF Require Import Base.Prelude Base.IPText Base.Json Model.Layout Model.JsonPieces Model.Packet Model.Sflow
  Proofs.ReaderProofs Proofs.JsonProofs Proofs.WfDecode Proofs.SflowJson.

Lemma be_acc_nonneg l : forall a, wf_bytes l -> 0 <= a -> 0 <= be_acc l a.
Proof. induction l as [|b l IH]; intros a H Ha; cbn [be_acc]; [exact Ha|]. apply Forall_cons_iff in H as [Hb H]. unfold is_byte in Hb. apply IH; [exact H|lia]. Qed.
Lemma be_nonneg l : wf_bytes l -> 0 <= be l.
Proof. intros H. apply be_acc_nonneg; [exact H|lia]. Qed.

(* the reader state is sane: octets, and a position that is not negative *)
Definition okr (r : sreader) : Prop := wf_bytes (sd r) /\ 0 <= sp r.
(* an operation either fails (no panic, no hang) or leaves a sane reader that is no further from the end *)
Definition good {A} (o : outcome (A * sreader)) (r : sreader) : Prop :=
  match o with Ok (_, r') => okr r' /\ srem r' <= srem r | Err _ => True | _ => False end.
Definition total {A} (o : outcome A) : Prop := match o with Ok _ | Err _ => True | _ => False end.

Lemma good_total {A} (o : outcome (A * sreader)) r : good o r -> total o.
Proof. destruct o as [[a q]| | |]; cbn; auto. Qed.

Lemma sread_full_good n r : okr r -> 0 <= n -> good (sread_full n r) r.
Proof.
  intros [Hw Hp] Hn. unfold sread_full. destruct (n =? 0); [cbn; split; [split; assumption|lia]|].
  destruct (srem r <? n); [exact I|]. cbn. unfold okr, srem; cbn. split; [split; [exact Hw|lia]|lia].
Qed.

Lemma sread_u_good n r : okr r -> 0 <= n -> good (sread_u n r) r /\ (forall v q, sread_u n r = Ok (v, q) -> 0 <= v).
Proof.
  intros H Hn. unfold sread_u. pose proof (sread_full_good n r H Hn) as Hg.
  destruct (sread_full n r) as [[b q]| | |] eqn:E; cbn [bind fst snd good] in *; try contradiction; try (split; [exact I|intros; discriminate]).
  split; [exact Hg|]. intros v q' Ev. injection Ev as <- _. apply be_nonneg. exact (proj1 (sread_full_wf _ _ _ _ (proj1 H) E)).
Qed.

Lemma sread_buf_good n r : okr r -> 0 <= n -> good (sread_buf n r) r.
Proof.
  intros [Hw Hp] Hn. unfold sread_buf. destruct (srem r <=? 0) eqn:E; [exact I|]. cbn. unfold okr, srem in *; cbn. split; [split; [exact Hw|lia]|lia].
Qed.

Lemma sseek_good o r : okr r -> 0 <= o -> okr (sseek o r) /\ srem (sseek o r) <= srem r.
Proof. intros [Hw Hp] Ho. unfold sseek. destruct (sp r + o <? 0); unfold okr, srem; cbn; (split; [split; [exact Hw|lia]|lia]). Qed.

Definition layout_nonneg (L : layout) : Prop := Forall (fun x => 0 <= snd x) L.

Lemma sread_layout_good L : layout_nonneg L -> forall r, okr r -> good (sread_layout L r) r.
Proof.
  induction 1 as [|[nm w] L Hw _ IH]; intros r H; cbn [sread_layout]; [cbn; split; [exact H|lia]|]. cbn [snd] in Hw.
  destruct (String.eqb nm "").
  - destruct (sseek_good w r H Hw) as [H1 H2]. specialize (IH _ H1).
    destruct (sread_layout L (sseek w r)) as [[fs q]| | |]; cbn [good] in *; auto. destruct IH; split; [assumption|lia].
  - destruct (sread_u_good w r H Hw) as [Hg _].
    destruct (sread_u w r) as [[v q]| | |]; cbn [bind fst snd good] in *; try contradiction; auto.
    destruct Hg as [Hq Hs]. specialize (IH _ Hq).
    destruct (sread_layout L q) as [[fs q2]| | |]; cbn [bind fst snd good] in *; try contradiction; auto. destruct IH; split; [assumption|lia].
Qed.

(* the packet breakdown is made of total functions guarded by length tests *)
Lemma packet_decode_total d proto : total (packet_decode d proto).
Proof.
  unfold packet_decode.
  assert (Hl : forall l2 k dd, total (x <- (if k =? 4 then decode_ipv4 dd else decode_ipv6 dd) ;; let '(l3, pr, rest) := x in l4 <- decode_l4 pr rest ;; Ok (JObj [("L2"%string, l2); ("L3"%string, l3); ("L4"%string, l4)]))).
  { intros l2 k dd. destruct (k =? 4); unfold decode_ipv4, decode_ipv6; destruct (len dd <? _); cbn [bind total]; auto;
      unfold decode_l4; repeat match goal with |- context [if ?c then _ else _] => destruct c end; cbn; auto. }
  destruct (proto =? 1).
  - unfold decode_ethernet. destruct (len d <? 14); [exact I|]. destruct (ieee802 d) as [[s1 d1] et1].
    destruct (et1 =? 33024).
    + destruct (len d <? 18); [exact I|]. destruct (ieee802 _) as [[s2 d2] et2]. cbn [bind].
      destruct (et2 =? 2048); [apply Hl|]. destruct (et2 =? 34525); [apply Hl|exact I].
    + cbn [bind]. destruct (et1 =? 2048); [apply Hl|]. destruct (et1 =? 34525); [apply Hl|exact I].
  - destruct (proto =? 11); [apply Hl|]. destruct (proto =? 12); [apply Hl|exact I].
Qed.

Section SF.
  Variables (flow_sample_l counter_sample_l ext_switch_l generic_l ethernet_l tokenring_l vg_l vlan_l processor_l : layout).
  Variables (flow_sample_f counter_sample_f ext_switch_f generic_f ethernet_f tokenring_f vg_f vlan_f processor_f : list string).
  Hypothesis Hfs : layout_nonneg flow_sample_l.
  Hypothesis Hcs : layout_nonneg counter_sample_l.
  Hypothesis Hes : layout_nonneg ext_switch_l.
  Hypothesis Hcl : forall f key L F, counter_layout generic_l ethernet_l tokenring_l vg_l vlan_l processor_l generic_f ethernet_f tokenring_f vg_f vlan_f processor_f f = Some (key, L, F) -> layout_nonneg L.

  Ltac step_u H n r v q E Hq Hs Hv :=
    destruct (sread_u_good n r H ltac:(lia)) as [Hg Hv];
    destruct (sread_u n r) as [[v q]| | |] eqn:E; cbn [bind fst snd catch good] in *; try contradiction; auto;
    destruct Hg as [Hq Hs]; specialize (Hv _ _ eq_refl).

  Lemma decode_sampled_header_good r : okr r -> good (decode_sampled_header r) r.
  Proof.
    intros H. unfold decode_sampled_header.
    destruct (sread_u_good 4 r H ltac:(lia)) as [Hg1 _]. destruct (sread_u 4 r) as [[v1 q1]| | |]; cbn [bind fst snd good] in *; try contradiction; auto. destruct Hg1 as [H1 S1].
    destruct (sread_u_good 4 q1 H1 ltac:(lia)) as [Hg2 _]. destruct (sread_u 4 q1) as [[v2 q2]| | |]; cbn [bind fst snd good] in *; try contradiction; auto. destruct Hg2 as [H2 S2].
    destruct (sread_u_good 4 q2 H2 ltac:(lia)) as [Hg3 _]. destruct (sread_u 4 q2) as [[v3 q3]| | |]; cbn [bind fst snd good] in *; try contradiction; auto. destruct Hg3 as [H3 S3].
    destruct (sread_u_good 4 q3 H3 ltac:(lia)) as [Hg4 Hv4]. destruct (sread_u 4 q3) as [[v4 q4]| | |]; cbn [bind fst snd good] in *; try contradiction; auto. destruct Hg4 as [H4 S4].
    specialize (Hv4 _ _ eq_refl). destruct (1500 <? v4); [exact I|].
    pose proof (sread_buf_good (v4 + (4 - v4 mod 4) mod 4) q4 H4 ltac:(lia)) as Hg5.
    destruct (sread_buf _ q4) as [[b q5]| | |]; cbn [bind fst snd good] in *; try contradiction; auto. destruct Hg5 as [H5 S5].
    pose proof (packet_decode_total (firstn (Z.to_nat v4) b) v1) as Ht.
    destruct (packet_decode _ v1) as [pk| | |]; cbn [bind total good] in *; try contradiction; auto. split; [exact H5|lia].
  Qed.

  Lemma decode_ext_router_good l r : okr r -> good (decode_ext_router l r) r.
  Proof.
    intros H. unfold decode_ext_router. destruct ((l =? 16) || (l =? 28)) eqn:El; cbn [negb]; [|exact I].
    pose proof (sread_full_good (l - 8) r H ltac:(lia)) as Hg1.
    destruct (sread_full (l - 8) r) as [[b q1]| | |]; cbn [bind fst snd good] in *; try contradiction; auto. destruct Hg1 as [H1 S1].
    destruct (sread_u_good 4 q1 H1 ltac:(lia)) as [Hg2 _]. destruct (sread_u 4 q1) as [[v2 q2]| | |]; cbn [bind fst snd good] in *; try contradiction; auto. destruct Hg2 as [H2 S2].
    destruct (sread_u_good 4 q2 H2 ltac:(lia)) as [Hg3 _]. destruct (sread_u 4 q2) as [[v3 q3]| | |]; cbn [bind fst snd good] in *; try contradiction; auto. destruct Hg3 as [H3 S3].
    split; [exact H3|lia].
  Qed.

  (* one unit of fuel per 8 octets that are left is enough *)
  Lemma flow_records_good : forall k n r m, okr r -> Z.max 0 (srem r) < 8 * Z.of_nat k ->
    good (flow_records ext_switch_l ext_switch_f k n r m) r.
  Proof.
    induction k as [|k IH]; intros n r m H Hf; cbn [flow_records]; destruct (n <=? 0); try (cbn; split; [exact H|lia]).
    - lia.
    - destruct (sread_u_good 4 r H ltac:(lia)) as [Hg1 _]. destruct (sread_u 4 r) as [[f q1]| | |] eqn:E1; cbn [bind fst snd good] in *; try contradiction; auto. destruct Hg1 as [H1 S1].
      destruct (sread_u_good 4 q1 H1 ltac:(lia)) as [Hg2 Hv2]. destruct (sread_u 4 q1) as [[l q2]| | |] eqn:E2; cbn [bind fst snd good] in *; try contradiction; auto. destruct Hg2 as [H2 S2].
      specialize (Hv2 _ _ eq_refl).
      (* the two reads consumed 8 octets *)
      assert (S8 : srem q2 = srem r - 8 /\ 8 <= srem r).
      { unfold sread_u, sread_full in E1, E2. cbn [Z.eqb] in E1, E2.
        destruct (srem r <? 4) eqn:G1; cbn [bind fst snd] in E1; [discriminate E1|]. injection E1 as _ <-.
        destruct (srem {| sd := sd r; sp := sp r + 4 |} <? 4) eqn:G2; cbn [bind fst snd] in E2; [discriminate E2|]. injection E2 as _ <-. unfold srem in *; cbn in *. lia. }
      destruct S8 as [S8 S8'].
      destruct (f =? 1).
      { pose proof (decode_sampled_header_good q2 H2) as Hg. destruct (decode_sampled_header q2) as [[j q3]| | |]; cbn [bind fst snd good] in *; try contradiction; auto.
        destruct Hg as [H3 S3]. specialize (IH (n - 1) q3 (set_member "RawHeader" j m) H3 ltac:(lia)).
        destruct (flow_records _ _ k (n - 1) q3 _) as [[m' q4]| | |]; cbn [good] in *; auto. destruct IH; split; [assumption|lia]. }
      destruct (f =? 1001).
      { pose proof (sread_layout_good ext_switch_l Hes q2 H2) as Hg. destruct (sread_layout ext_switch_l q2) as [[fs q3]| | |]; cbn [bind fst snd good] in *; try contradiction; auto.
        destruct Hg as [H3 S3]. specialize (IH (n - 1) q3 (set_member "ExtSwitch" (JObj (obj_of (struct_of ext_switch_f fs))) m) H3 ltac:(lia)).
        destruct (flow_records _ _ k (n - 1) q3 _) as [[m' q4]| | |]; cbn [good] in *; auto. destruct IH; split; [assumption|lia]. }
      destruct (f =? 1002).
      { pose proof (decode_ext_router_good l q2 H2) as Hg. destruct (decode_ext_router l q2) as [[j q3]| | |]; cbn [bind fst snd good] in *; try contradiction; auto.
        destruct Hg as [H3 S3]. specialize (IH (n - 1) q3 (set_member "ExtRouter" j m) H3 ltac:(lia)).
        destruct (flow_records _ _ k (n - 1) q3 _) as [[m' q4]| | |]; cbn [good] in *; auto. destruct IH; split; [assumption|lia]. }
      destruct (sseek_good l q2 H2 Hv2) as [H3 S3]. specialize (IH (n - 1) (sseek l q2) m H3 ltac:(lia)).
      destruct (flow_records _ _ k (n - 1) (sseek l q2) m) as [[m' q4]| | |]; cbn [good] in *; auto. destruct IH; split; [assumption|lia].
  Qed.
End SF.
