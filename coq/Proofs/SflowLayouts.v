(* C07: (1) the field sequences the Go decoder reads and the member order of its structures —
   REGENERATED from the source — are the ones the sFlow v5 specification gives; (2) a structure read
   through such a sequence yields exactly the wire values, whatever precedes and follows it. *)
From VF Require Import Base.Prelude Base.Json Model.Layout Model.JsonPieces Model.Sflow Spec.SflowWire
  Proofs.ReaderProofs Proofs.LayoutProofs.
From VF Require Gen.Layouts.
Module G := VF.Gen.Layouts.

Lemma tie_flow_sample : G.sf_flow_sample_layout = flow_sample /\ G.sf_flow_sample_fields = members flow_sample.
Proof. split; reflexivity. Qed.
Lemma tie_counter_sample : G.sf_counter_sample_layout = counter_sample /\ G.sf_counter_sample_fields = members counter_sample.
Proof. split; reflexivity. Qed.
Lemma tie_ext_switch : G.sf_ext_switch_layout = ext_switch /\ G.sf_ext_switch_fields = members ext_switch.
Proof. split; reflexivity. Qed.
Lemma tie_generic : G.sf_generic_layout = generic /\ G.sf_generic_fields = members generic.
Proof. split; reflexivity. Qed.
Lemma tie_ethernet : G.sf_ethernet_layout = ethernet /\ G.sf_ethernet_fields = members ethernet.
Proof. split; reflexivity. Qed.
Lemma tie_tokenring : G.sf_tokenring_layout = tokenring /\ G.sf_tokenring_fields = members tokenring.
Proof. split; reflexivity. Qed.
Lemma tie_vg : G.sf_vg_layout = vg /\ G.sf_vg_fields = members vg.
Proof. split; reflexivity. Qed.
Lemma tie_vlan : G.sf_vlan_layout = vlan /\ G.sf_vlan_fields = members vlan.
Proof. split; reflexivity. Qed.
Lemma tie_processor : G.sf_processor_layout = processor /\ G.sf_processor_fields = members processor.
Proof. split; reflexivity. Qed.

(* ---------- reading a structure back ---------- *)
(* the wire form of a structure: every item occupies its width; skipped items carry arbitrary octets *)
Fixpoint fits_s (L : layout) (vs : list Z) : Prop :=
  match L, vs with
  | [], [] => True
  | (_, w) :: t, v :: vt => 0 < w /\ 0 <= v < 256 ^ w /\ fits_s t vt
  | _, _ => False
  end.

Definition named_s (L : layout) (vs : list Z) : list (string * Z) :=
  filter (fun x => negb (String.eqb (fst x) "")) (combine (map fst L) vs).

Lemma sread_u_at pre a post n : len a = n -> 0 < n ->
  sread_u n {| sd := pre ++ a ++ post; sp := len pre |} = Ok (be a, {| sd := pre ++ a ++ post; sp := len pre + n |}).
Proof.
  intros Hl Hn. unfold sread_u, sread_full, srem; cbn [sd sp].
  destruct (n =? 0) eqn:E0; [lia|]. rewrite !len_app. pose proof (len_nonneg post).
  destruct (len pre + (len a + len post) - len pre <? n) eqn:E1; [lia|]. cbn [bind fst snd].
  assert (Hp : Z.to_nat (len pre) = length pre) by (unfold len; lia).
  assert (Ha : Z.to_nat n = length a) by (unfold len in Hl; lia).
  rewrite Hp, skipn_app_exact, Ha, firstn_app_exact. reflexivity.
Qed.

Theorem sread_layout_at L : forall vs pre post, fits_s L vs ->
  sread_layout L {| sd := pre ++ enc_layout L vs ++ post; sp := len pre |}
  = Ok (named_s L vs, {| sd := pre ++ enc_layout L vs ++ post; sp := len pre + layout_size L |}).
Proof.
  induction L as [|[nm w] L IH]; intros [|v vs] pre post H; cbn in H; try contradiction.
  - cbn. now rewrite Z.add_0_r.
  - destruct H as (Hw & Hv & Hf). cbn [sread_layout enc_layout layout_size fold_right snd]. fold (layout_size L).
    assert (He : len (enc (Z.to_nat w) v) = w) by (rewrite len_enc; lia).
    specialize (IH vs (pre ++ enc (Z.to_nat w) v) post Hf).
    rewrite <- !app_assoc in IH. rewrite len_app, He in IH.
    destruct (String.eqb nm "") eqn:En.
    + (* octets skipped by Seek *)
      unfold sseek; cbn [sd sp]. pose proof (len_nonneg pre). destruct (len pre + w <? 0) eqn:E; [lia|].
      rewrite <- !app_assoc. rewrite IH. unfold named_s. cbn [map fst combine filter]. rewrite En. cbn [negb].
      do 3 f_equal. lia.
    + rewrite <- !app_assoc. rewrite (sread_u_at pre (enc (Z.to_nat w) v) (enc_layout L vs ++ post) w He Hw).
      cbn [bind fst snd]. rewrite IH. cbn [bind fst snd].
      rewrite be_enc by (rewrite Z2Nat.id by lia; exact Hv).
      unfold named_s. cbn [map fst combine filter]. rewrite En. cbn [negb]. do 3 f_equal. lia.
Qed.
