From VF Require Import Base.Prelude Model.PoolSize.

(* if every slice ever put back has the full size, every slice ever handed out has it - whatever the order of operations *)
Theorem pool_hands_out_full_size size : forall ops p,
  Forall (fun l => l = size) p -> Forall (fun o => match o with PPut l => l = size | _ => True end) ops ->
  Forall (fun out => match out with Some l => l = size | None => True end) (pool_run size p ops).
Proof.
  induction ops as [|o ops IH]; intros p Hp Ho; [constructor|]. apply Forall_cons_iff in Ho as [Ho1 Ho].
  cbn [pool_run]. destruct o as [|l|]; cbn [pool_step].
  - constructor; [reflexivity|apply IH; assumption].
  - constructor; [exact I|apply IH; [constructor; assumption|assumption]].
  - destruct p as [|l t].
    + constructor; [reflexivity|apply IH; [constructor|assumption]].
    + apply Forall_cons_iff in Hp as [H1 H2]. constructor; [exact H1|apply IH; assumption].
Qed.

(* and one short slice put back is handed out again *)
Theorem short_put_is_handed_out size l : l <> size -> pool_run size [] [PPut l; PGet] = [None; Some l].
Proof. reflexivity. Qed.
