(* C03: a data record laid out as its template describes decodes to exactly the demanded fields. *)
From VF Require Import Base.Prelude Model.Reader Model.Layout Model.JsonPieces Model.Flow Model.Ipfix Spec.FlowWire
  Proofs.ReaderProofs Proofs.LayoutProofs Proofs.FlowSafety.

Section Fidelity.
  Variable im : infomodel.

  Lemma uint8_cons b rest c : uint8 {| data := b :: rest; count := c |} = Ok (b, {| data := rest; count := c + 1 |}).
  Proof.
    change (b :: rest) with ([b] ++ rest). unfold uint8. rewrite (uintN_app [b] rest c 1) by (reflexivity || lia).
    unfold be; cbn. reflexivity.
  Qed.

  (* decode of one record = the demanded fields, reader positioned right after the record *)
  Theorem decode_fields_fidelity : forall (ws : list wfield) rest c acc,
    Forall (wfield_ok im) ws ->
    decode_fields im (map w_spec ws) {| data := enc_record im ws ++ rest; count := c |} acc
    = Ok (Some (acc ++ expected_record im ws), {| data := rest; count := c + len (enc_record im ws) |}).
  Proof.
    induction ws as [|w ws IH]; intros rest c acc Hok; cbn [map decode_fields enc_record flat_map expected_record].
    - cbn. now rewrite app_nil_r, Z.add_0_r.
    - apply Forall_cons_iff in Hok as [[(fid & ty & Him) Hlen] Hok].
      unfold enc_record in *. cbn [flat_map]. set (T := flat_map (enc_wfield im) ws) in *.
      unfold data_length, enc_wfield, is_var in Hlen |- *. rewrite Him in Hlen |- *.
      pose proof (len_nonneg (w_content w)) as Hn.
      destruct (((ty =? T_String) || (ty =? T_OctetArray)) && (f_len (w_spec w) =? 65535)) eqn:Ev.
      + destruct Hlen as [Hshort Hmax]. destruct (w_long w) eqn:El.
        * (* 255, then a 16-bit length *)
          rewrite <- !app_assoc. cbn [app]. rewrite uint8_cons. cbn [bind fst snd]. rewrite Z.eqb_refl.
          unfold uint16. rewrite <- app_assoc. rewrite (uintN_app (enc 2 (len (w_content w))) _ (c + 1) 2) by (rewrite ?len_enc; lia).
          cbn [bind fst snd]. rewrite be_enc by (cbn; lia).
          rewrite (read_app (w_content w) _ (c + 1 + 2) (len (w_content w)) eq_refl). cbn [bind fst snd].
          destruct (interpret_ok ty (w_content w)) as [v Hv]. rewrite Hv. cbn [bind].
          rewrite IH by exact Hok. unfold expected_field at 1. rewrite Him, Hv.
          f_equal. f_equal; [rewrite <- app_assoc; reflexivity|]. f_equal.
          repeat (rewrite ?len_app, ?len_cons, ?len_nil, ?len_enc); lia.
        * specialize (Hshort eq_refl).
          rewrite <- !app_assoc. cbn [app]. rewrite uint8_cons. cbn [bind fst snd].
          destruct (len (w_content w) =? 255) eqn:E255; [lia|]. cbn [bind fst snd].
          rewrite (read_app (w_content w) _ (c + 1) (len (w_content w)) eq_refl). cbn [bind fst snd].
          destruct (interpret_ok ty (w_content w)) as [v Hv]. rewrite Hv. cbn [bind].
          rewrite IH by exact Hok. unfold expected_field at 1. rewrite Him, Hv.
          f_equal. f_equal; [rewrite <- app_assoc; reflexivity|]. f_equal.
          repeat (rewrite ?len_app, ?len_cons, ?len_nil, ?len_enc); lia.
      + rewrite <- !app_assoc. cbn [bind fst snd].
        rewrite (read_app (w_content w) _ c (f_len (w_spec w)) Hlen). cbn [bind fst snd].
        destruct (interpret_ok ty (w_content w)) as [v Hv]. rewrite Hv. cbn [bind].
        rewrite IH by exact Hok. unfold expected_field at 1. rewrite Him, Hv.
        f_equal. f_equal; [rewrite <- app_assoc; reflexivity|]. f_equal.
        repeat (rewrite ?len_app, ?len_cons, ?len_nil, ?len_enc); lia.
  Qed.
End Fidelity.

(* ---------- a whole record, a whole data set ---------- *)
Section SetFidelity.
  Context {C : Type}.
  Variable ops : cache_ops C.
  Variable im : infomodel.

  (* the record's fields are the template's scope fields followed by its fields *)
  Definition rec_matches (tr : template) (ws : list wfield) : Prop :=
    exists sc fs, ws = sc ++ fs /\ map w_spec sc = t_scope tr /\ map w_spec fs = t_fields tr /\ ws <> [].

  Lemma enc_record_app (a b : list wfield) : enc_record im (a ++ b) = enc_record im a ++ enc_record im b.
  Proof. unfold enc_record. apply flat_map_app. Qed.
  Lemma expected_record_app (a b : list wfield) : expected_record im (a ++ b) = expected_record im a ++ expected_record im b.
  Proof. unfold expected_record. apply map_app. Qed.

  Theorem decode_data_fidelity tr ws rest c :
    rec_matches tr ws -> Forall (wfield_ok im) ws ->
    decode_data im tr {| data := enc_record im ws ++ rest; count := c |}
    = Ok (Some (expected_record im ws), {| data := rest; count := c + len (enc_record im ws) |}).
  Proof.
    intros (sc & fs & -> & Hsc & Hfs & Hne) Hok. apply Forall_app in Hok as [Hok1 Hok2].
    unfold decode_data. rewrite <- Hsc, <- Hfs. rewrite enc_record_app, <- app_assoc.
    rewrite (decode_fields_fidelity im sc _ c [] Hok1). cbn [bind fst snd app].
    rewrite (decode_fields_fidelity im fs rest _ _ Hok2). cbn [bind fst snd].
    rewrite expected_record_app.
    destruct (expected_record im sc ++ expected_record im fs) as [|d l] eqn:E.
    - exfalso. apply Hne. apply app_eq_nil in E as [E1 E2]. unfold expected_record in *.
      apply map_eq_nil in E1, E2. subst. reflexivity.
    - rewrite len_app. do 3 f_equal. lia.
  Qed.

  Definition recs_bytes (recs : list (list wfield)) : bytes := flat_map (enc_record im) recs.

  (* the implementation's padding rule: it stops when 4 or fewer octets of the set remain, so the LAST record
     together with the padding must exceed 4 octets (this is the recorded finding 'last-record-le4') *)
  Fixpoint tail_ok (recs : list (list wfield)) (pad : bytes) : Prop :=
    match recs with
    | [] => True
    | ws :: t => match t with [] => 5 <= len (enc_record im ws) + len pad | _ => tail_ok t pad end
    end.

  Lemma tail_ok_bound recs pad : recs <> [] -> tail_ok recs pad ->
    Forall (fun ws => 0 < len (enc_record im ws)) recs -> 5 <= len (recs_bytes recs) + len pad.
  Proof.
    unfold recs_bytes. induction recs as [|ws t IH]; [congruence|]. intros _ Hok Hpos.
    apply Forall_cons_iff in Hpos as [Hp1 Hp2]. cbn [flat_map]. rewrite len_app.
    destruct t as [|y l].
    - cbn [flat_map] in *. cbn [tail_ok] in Hok. change (len (@nil Z)) with 0. lia.
    - assert (5 <= len (flat_map (enc_record im) (y :: l)) + len pad) by (apply IH; [discriminate|exact Hok|exact Hp2]). lia.
  Qed.

  Theorem data_set_loop_fidelity tr sid addr (c : C) : 255 < sid ->
    forall recs, Forall (rec_matches tr) recs -> Forall (Forall (wfield_ok im)) recs ->
    Forall (fun ws => 0 < len (enc_record im ws)) recs ->
    forall pad rest L start cnt ds fuel,
    0 <= cnt - start -> cnt - start + len (recs_bytes recs) + len pad = L -> L < 65536 ->
    len pad <= 4 -> tail_ok recs pad -> (length recs < fuel)%nat ->
    set_loop ops im fuel sid L start tr addr c {| data := recs_bytes recs ++ pad ++ rest; count := cnt |} ds
    = Ok (c, SCont {| data := pad ++ rest; count := cnt + len (recs_bytes recs) |} (ds ++ map (expected_record im) recs) false).
  Proof.
    intros Hsid. induction recs as [|ws recs IH]; intros Hm Hok Hpos pad rest L start cnt ds fuel Hc HL HL16 Hpad Hlast Hfuel.
    - destruct fuel as [|k]; [cbn in Hfuel; lia|]. cbn [set_loop recs_bytes flat_map app map count data].
      unfold recs_bytes in HL; cbn [flat_map] in HL. change (len (@nil Z)) with 0 in HL. pose proof (len_nonneg pad).
      replace (4 <? (L - (cnt - start) mod 65536) mod 65536) with false by lia.
      rewrite !andb_false_r. now rewrite app_nil_r, Z.add_0_r.
    - destruct fuel as [|k]; [cbn in Hfuel; lia|].
      pose proof (tail_ok_bound (ws :: recs) pad ltac:(discriminate) Hlast Hpos) as Htail.
      apply Forall_cons_iff in Hm as [Hm1 Hm2]. apply Forall_cons_iff in Hok as [Hok1 Hok2]. apply Forall_cons_iff in Hpos as [Hp1 Hp2].
      cbn [set_loop]. unfold recs_bytes in *. cbn [flat_map map] in *. rewrite len_app in HL, Htail.
      pose proof (len_nonneg pad). pose proof (len_nonneg (flat_map (enc_record im) recs)). pose proof (len_nonneg rest).
      unfold rlen; cbn [data count]. rewrite !len_app.
      replace ((cnt - start) mod 65536 <? L) with true by lia.
      replace (4 <? len (enc_record im ws) + len (flat_map (enc_record im) recs) + (len pad + len rest)) with true by lia.
      replace (4 <? (L - (cnt - start) mod 65536) mod 65536) with true by lia.
      cbn [andb].
      replace ((sid =? 2) || (sid =? 3)) with false by lia.
      replace ((4 <=? sid) && (sid <=? 255)) with false by lia.
      replace (sid =? 0) with false by lia.
      rewrite <- app_assoc. rewrite (decode_data_fidelity tr ws _ cnt Hm1 Hok1). cbn [catch bind count].
      replace (cnt + len (enc_record im ws) =? cnt) with false by lia.
      rewrite (IH Hm2 Hok2 Hp2 pad rest L start (cnt + len (enc_record im ws)) (ds ++ [expected_record im ws]) k); try lia.
      + f_equal. f_equal. f_equal; [f_equal; lia|rewrite <- app_assoc; reflexivity].
      + destruct recs; [exact I|exact Hlast].
      + cbn in Hfuel; lia.
  Qed.
End SetFidelity.

(* ---------- a whole data set through decodeSet, against the specification map ---------- *)
From VF Require Import Model.Cache.

Section DataSet.
  Variable im : infomodel.

  Definition enc_data_set (sid : Z) (recs : list (list wfield)) (pad : bytes) : bytes :=
    enc 2 sid ++ enc 2 (4 + len (recs_bytes im recs) + len pad) ++ recs_bytes im recs ++ pad.

  Lemma recs_fuel recs : Forall (fun ws => 0 < len (enc_record im ws)) recs -> (length recs <= length (recs_bytes im recs))%nat.
  Proof.
    unfold recs_bytes. induction recs as [|ws recs IH]; intros H; [cbn; lia|]. apply Forall_cons_iff in H as [H1 H2].
    cbn [flat_map length]. rewrite app_length. specialize (IH H2). unfold len in H1. lia.
  Qed.

  Theorem data_set_fidelity (a : bytes) (m : amap) tr sid recs pad rest cnt ds :
    255 < sid < 65536 -> amap_get a (sid mod 65536) m = Some tr ->
    Forall (rec_matches tr) recs -> Forall (Forall (wfield_ok im)) recs ->
    Forall (fun ws => 0 < len (enc_record im ws)) recs ->
    len pad <= 3 -> tail_ok im recs pad -> 4 + len (recs_bytes im recs) + len pad < 65536 ->
    decode_set am_ops im a m {| data := enc_data_set sid recs pad ++ rest; count := cnt |} ds
    = Ok (m, SCont {| data := rest; count := cnt + len (enc_data_set sid recs pad) |} (ds ++ map (expected_record im) recs) false).
  Proof.
    intros Hsid Hget Hm Hok Hpos Hpad Htail HL.
    pose proof (len_nonneg pad) as Hp0. pose proof (len_nonneg (recs_bytes im recs)) as Hr0.
    unfold decode_set, enc_data_set, uint16. rewrite <- !app_assoc.
    rewrite (uintN_app (enc 2 sid) _ cnt 2) by (rewrite ?len_enc; lia). cbn [bind fst snd].
    rewrite (uintN_app (enc 2 (4 + len (recs_bytes im recs) + len pad)) _ (cnt + 2) 2) by (rewrite ?len_enc; lia).
    cbn [bind fst snd catch count]. rewrite !be_enc by (change (256 ^ Z.of_nat 2) with 65536; lia).
    replace (4 + len (recs_bytes im recs) + len pad <? 4) with false by lia.
    replace (255 <? sid) with true by lia. cbn [c_retrieve am_ops bind]. rewrite Hget. cbn [bind].
    rewrite (data_set_loop_fidelity am_ops im tr sid a m ltac:(lia) recs Hm Hok Hpos pad rest
               (4 + len (recs_bytes im recs) + len pad) cnt (cnt + 2 + 2) ds); try lia; try assumption.
    2: { unfold fuel_of; cbn [data]. rewrite app_length. pose proof (recs_fuel recs Hpos). lia. }
    cbn [bind snd fst count].
    replace ((4 + len (recs_bytes im recs) + len pad - (cnt + 2 + 2 + len (recs_bytes im recs) - cnt) mod 65536) mod 65536) with (len pad) by lia.
    destruct (0 <? len pad) eqn:Ep.
    - rewrite (read_app pad rest _ (len pad) eq_refl). cbn [catch bind fst snd].
      do 3 f_equal. rewrite !len_app, !len_enc. f_equal. lia.
    - assert (pad = []) by (destruct pad as [|x p]; [reflexivity|rewrite len_cons in Ep; pose proof (len_nonneg p); lia]). subst pad. cbn [app].
      do 3 f_equal. rewrite ?len_app, ?len_enc, ?app_nil_r. f_equal. change (len (@nil Z)) with 0. lia.
  Qed.
End DataSet.

(* ---------- template records and template sets ---------- *)
Record wspec := { ws_id : Z; ws_len : Z; ws_ent : option Z }.     (* Some pen = enterprise bit set *)
Definition to_fspec (w : wspec) : fspec :=
  {| f_id := ws_id w; f_len := ws_len w; f_pen := match ws_ent w with Some p => p | None => 0 end |}.
Definition enc_wspec (w : wspec) : bytes :=
  match ws_ent w with
  | Some p => enc 2 (ws_id w + 32768) ++ enc 2 (ws_len w) ++ enc 4 p
  | None => enc 2 (ws_id w) ++ enc 2 (ws_len w)
  end.
Definition wspec_ok (w : wspec) : Prop :=
  0 <= ws_id w < 32768 /\ 0 <= ws_len w < 65536 /\ match ws_ent w with Some p => 0 <= p < 2 ^ 32 | None => True end.

Lemma be_enc2 v : 0 <= v < 65536 -> be (enc 2 v) = v.
Proof. intros H. apply (be_enc 2). change (256 ^ Z.of_nat 2) with 65536. lia. Qed.
Lemma be_enc4 v : 0 <= v < 2 ^ 32 -> be (enc 4 v) = v.
Proof. intros H. apply (be_enc 4). change (256 ^ Z.of_nat 4) with (2 ^ 32). lia. Qed.

Lemma read_fspec_fidelity w rest c : wspec_ok w ->
  read_fspec {| data := enc_wspec w ++ rest; count := c |} = Ok (to_fspec w, {| data := rest; count := c + len (enc_wspec w) |}).
Proof.
  intros (Hid & Hl & Hp). unfold read_fspec, enc_wspec, to_fspec, uint16, uint32. destruct (ws_ent w) as [p|].
  - rewrite <- !app_assoc. rewrite (uintN_app (enc 2 (ws_id w + 32768)) _ c 2) by (rewrite ?len_enc; lia). cbn [bind fst snd].
    rewrite (uintN_app (enc 2 (ws_len w)) _ (c + 2) 2) by (rewrite ?len_enc; lia). cbn [bind fst snd].
    rewrite !be_enc2 by lia. replace (32768 <=? ws_id w + 32768) with true by lia.
    rewrite (uintN_app (enc 4 p) rest (c + 2 + 2) 4) by (rewrite ?len_enc; lia). cbn [bind fst snd].
    rewrite be_enc4 by lia. replace ((ws_id w + 32768) mod 32768) with (ws_id w) by lia.
    do 3 f_equal. rewrite !len_app, !len_enc. lia.
  - rewrite <- !app_assoc. rewrite (uintN_app (enc 2 (ws_id w)) _ c 2) by (rewrite ?len_enc; lia). cbn [bind fst snd].
    rewrite (uintN_app (enc 2 (ws_len w)) rest (c + 2) 2) by (rewrite ?len_enc; lia). cbn [bind fst snd].
    rewrite !be_enc2 by lia. replace (32768 <=? ws_id w) with false by lia.
    do 3 f_equal. rewrite !len_app, !len_enc. lia.
Qed.

Lemma read_fspecs_fidelity : forall ws rest c acc fuel, Forall wspec_ok ws -> (length ws < fuel)%nat ->
  Ipfix.read_fspecs fuel (len ws) {| data := flat_map enc_wspec ws ++ rest; count := c |} acc
  = Ok (acc ++ map to_fspec ws, {| data := rest; count := c + len (flat_map enc_wspec ws) |}).
Proof.
  induction ws as [|w ws IH]; intros rest c acc fuel Hok Hf.
  - destruct fuel; cbn; rewrite app_nil_r, Z.add_0_r; reflexivity.
  - destruct fuel as [|k]; [cbn in Hf; lia|]. apply Forall_cons_iff in Hok as [H1 H2].
    cbn [Ipfix.read_fspecs]. rewrite len_cons. pose proof (len_nonneg ws). destruct (1 + len ws <=? 0) eqn:E; [lia|].
    cbn [flat_map]. rewrite <- app_assoc. rewrite (read_fspec_fidelity w _ c H1). cbn [bind fst snd].
    replace (1 + len ws - 1) with (len ws) by lia. rewrite IH by (try assumption; cbn in Hf; lia).
    cbn [map]. rewrite <- app_assoc. cbn [app]. do 3 f_equal. rewrite len_app. lia.
Qed.

Lemma wspecs_fuel ws : Forall wspec_ok ws -> (length ws <= length (flat_map enc_wspec ws))%nat.
Proof.
  induction ws as [|w ws IH]; intros H; [cbn; lia|]. apply Forall_cons_iff in H as [H1 H2]. cbn [flat_map length].
  rewrite app_length. specialize (IH H2). assert (1 <= length (enc_wspec w))%nat by (unfold enc_wspec; destruct (ws_ent w); rewrite !app_length, !enc_length; lia). lia.
Qed.

(* a template as announced: plain (set id 2) or options (set id 3) *)
Record wtemplate := { wt_opts : bool; wt_id : Z; wt_scope : list wspec; wt_fields : list wspec }.
Definition enc_wtemplate (t : wtemplate) : bytes :=
  if wt_opts t then
    enc 2 (wt_id t) ++ enc 2 (len (wt_scope t) + len (wt_fields t)) ++ enc 2 (len (wt_scope t))
    ++ flat_map enc_wspec (wt_scope t) ++ flat_map enc_wspec (wt_fields t)
  else enc 2 (wt_id t) ++ enc 2 (len (wt_fields t)) ++ flat_map enc_wspec (wt_fields t).
Definition template_of (t : wtemplate) : template :=
  if wt_opts t then
    {| t_id := wt_id t; t_fcount := len (wt_scope t) + len (wt_fields t); t_fields := map to_fspec (wt_fields t);
       t_scount := len (wt_scope t); t_scope := map to_fspec (wt_scope t) |}
  else {| t_id := wt_id t; t_fcount := len (wt_fields t); t_fields := map to_fspec (wt_fields t); t_scount := 0; t_scope := [] |}.
Definition wtemplate_ok (t : wtemplate) : Prop :=
  256 <= wt_id t < 65536 /\ Forall wspec_ok (wt_scope t) /\ Forall wspec_ok (wt_fields t) /\
  len (wt_scope t) + len (wt_fields t) < 65536 /\ (wt_opts t = false -> wt_scope t = []) /\ wt_fields t <> [].

Lemma read_wtemplate_fidelity t rest c : wtemplate_ok t ->
  (if wt_opts t then read_opts_template else read_template) {| data := enc_wtemplate t ++ rest; count := c |}
  = Ok (template_of t, {| data := rest; count := c + len (enc_wtemplate t) |}).
Proof.
  intros (Hid & Hsc & Hfs & Hn & Hpl & Hne). pose proof (len_nonneg (wt_scope t)). pose proof (len_nonneg (wt_fields t)).
  unfold enc_wtemplate, template_of. destruct (wt_opts t).
  - unfold read_opts_template, uint16. rewrite <- !app_assoc.
    rewrite (uintN_app (enc 2 (wt_id t)) _ c 2) by (rewrite ?len_enc; lia). cbn [bind fst snd].
    rewrite (uintN_app (enc 2 (len (wt_scope t) + len (wt_fields t))) _ (c + 2) 2) by (rewrite ?len_enc; lia). cbn [bind fst snd].
    rewrite (uintN_app (enc 2 (len (wt_scope t))) _ (c + 2 + 2) 2) by (rewrite ?len_enc; lia). cbn [bind fst snd].
    rewrite !be_enc2 by lia.
    rewrite (read_fspecs_fidelity (wt_scope t) _ _ [] _ Hsc).
    2: { unfold fuel_of; cbn [data]. rewrite app_length. pose proof (wspecs_fuel _ Hsc). lia. }
    cbn [bind fst snd app].
    replace ((len (wt_scope t) + len (wt_fields t) - len (wt_scope t)) mod 65536) with (len (wt_fields t)) by lia.
    rewrite (read_fspecs_fidelity (wt_fields t) rest _ [] _ Hfs).
    2: { unfold fuel_of; cbn [data]. rewrite app_length. pose proof (wspecs_fuel _ Hfs). lia. }
    cbn [bind fst snd app]. do 3 f_equal. rewrite !len_app, !len_enc. lia.
  - unfold read_template, uint16. rewrite <- !app_assoc.
    rewrite (uintN_app (enc 2 (wt_id t)) _ c 2) by (rewrite ?len_enc; lia). cbn [bind fst snd].
    rewrite (uintN_app (enc 2 (len (wt_fields t))) _ (c + 2) 2) by (rewrite ?len_enc; lia). cbn [bind fst snd].
    rewrite !be_enc2 by lia.
    rewrite (read_fspecs_fidelity (wt_fields t) rest _ [] _ Hfs).
    2: { unfold fuel_of; cbn [data]. rewrite app_length. pose proof (wspecs_fuel _ Hfs). lia. }
    cbn [bind fst snd app]. do 3 f_equal. rewrite !len_app, !len_enc. lia.
Qed.

Section TemplateSet.
  Variable im : infomodel.

  Definition tpls_bytes (ts : list wtemplate) : bytes := flat_map enc_wtemplate ts.
  Definition insert_all (a : bytes) (ts : list wtemplate) (m : amap) : amap :=
    fold_left (fun acc t => ((a, wt_id t mod 65536), template_of t) :: acc) ts m.

  Lemma enc_wtemplate_len t : wtemplate_ok t -> 8 <= len (enc_wtemplate t).
  Proof.
    intros (_ & _ & Hfs & _ & _ & Hne). unfold enc_wtemplate.
    destruct (wt_fields t) as [|w ws]; [congruence|]. cbn [flat_map].
    assert (4 <= len (enc_wspec w)) by (unfold enc_wspec; destruct (ws_ent w); rewrite !len_app, !len_enc; lia).
    pose proof (len_nonneg (flat_map enc_wspec ws)). pose proof (len_nonneg (flat_map enc_wspec (wt_scope t))).
    destruct (wt_opts t); rewrite !len_app, !len_enc; lia.
  Qed.

  Lemma peek_tid tid tail c : 256 <= tid < 65536 ->
    peek_uint16 {| data := enc 2 tid ++ tail; count := c |} = Ok tid.
  Proof.
    intros H. unfold peek_uint16, peek, rlen; cbn [data]. rewrite len_app, len_enc. pose proof (len_nonneg tail).
    replace ((2 <? 0) || (Z.of_nat 2 + len tail <? 2)) with false by (change (Z.of_nat 2) with 2; lia). cbn [bind].
    change (Z.to_nat 2) with (length (enc 2 tid)). rewrite firstn_app_exact. rewrite be_enc2 by lia. reflexivity.
  Qed.

  Theorem template_loop_fidelity (a : bytes) sid tr : (sid = 2 \/ sid = 3) ->
    forall ts, Forall wtemplate_ok ts -> Forall (fun t => wt_opts t = (sid =? 3)) ts ->
    forall m pad rest L start cnt ds fuel,
    0 <= cnt - start -> cnt - start + len (tpls_bytes ts) + len pad = L -> L < 65536 -> len pad <= 4 ->
    (length ts < fuel)%nat ->
    set_loop am_ops im fuel sid L start tr a m {| data := tpls_bytes ts ++ pad ++ rest; count := cnt |} ds
    = Ok (insert_all a ts m, SCont {| data := pad ++ rest; count := cnt + len (tpls_bytes ts) |} ds false).
  Proof.
    intros Hsid. induction ts as [|t ts IH]; intros Hok Hkind m pad rest L start cnt ds fuel Hc HL HL16 Hpad Hfuel.
    - destruct fuel as [|k]; [cbn in Hfuel; lia|]. cbn [set_loop tpls_bytes flat_map app count data insert_all fold_left].
      unfold tpls_bytes in HL; cbn [flat_map] in HL. change (len (@nil Z)) with 0 in HL. pose proof (len_nonneg pad).
      replace (4 <? (L - (cnt - start) mod 65536) mod 65536) with false by lia.
      rewrite !andb_false_r. now rewrite Z.add_0_r.
    - destruct fuel as [|k]; [cbn in Hfuel; lia|].
      apply Forall_cons_iff in Hok as [Hok1 Hok2]. apply Forall_cons_iff in Hkind as [Hk1 Hk2].
      pose proof (enc_wtemplate_len t Hok1) as Hlen8.
      cbn [set_loop]. unfold tpls_bytes in *. cbn [flat_map] in *. rewrite len_app in HL.
      pose proof (len_nonneg pad). pose proof (len_nonneg (flat_map enc_wtemplate ts)). pose proof (len_nonneg rest).
      unfold rlen; cbn [data count]. rewrite !len_app.
      replace ((cnt - start) mod 65536 <? L) with true by lia.
      replace (4 <? len (enc_wtemplate t) + len (flat_map enc_wtemplate ts) + (len pad + len rest)) with true by lia.
      replace (4 <? (L - (cnt - start) mod 65536) mod 65536) with true by lia.
      cbn [andb]. replace ((sid =? 2) || (sid =? 3)) with true by lia.
      (* the template id is not zero: this is a template record, not padding *)
      assert (Hpk : peek_uint16 {| data := (enc_wtemplate t ++ flat_map enc_wtemplate ts) ++ pad ++ rest; count := cnt |} = Ok (wt_id t)).
      { destruct Hok1 as (Hid & _). unfold enc_wtemplate. destruct (wt_opts t); rewrite <- !app_assoc; apply peek_tid; exact Hid. }
      rewrite Hpk. destruct Hok1 as (Hid & Hrest). destruct (wt_id t) as [|p|p] eqn:Etid; try lia.
      assert (Hok1 : wtemplate_ok t) by (unfold wtemplate_ok; rewrite Etid; tauto).
      assert (Hrd : (if sid =? 2 then read_template {| data := (enc_wtemplate t ++ flat_map enc_wtemplate ts) ++ pad ++ rest; count := cnt |}
                     else read_opts_template {| data := (enc_wtemplate t ++ flat_map enc_wtemplate ts) ++ pad ++ rest; count := cnt |})
                    = Ok (template_of t, {| data := flat_map enc_wtemplate ts ++ pad ++ rest; count := cnt + len (enc_wtemplate t) |})).
      { rewrite <- app_assoc. pose proof (read_wtemplate_fidelity t (flat_map enc_wtemplate ts ++ pad ++ rest) cnt Hok1) as Hr.
        rewrite Hk1 in Hr. destruct Hsid as [-> | ->]; cbn [Z.eqb Pos.eqb] in *; exact Hr. }
      rewrite Hrd. cbn [catch bind c_insert am_ops].
      rewrite (IH Hok2 Hk2 _ pad rest L start (cnt + len (enc_wtemplate t)) ds k); try lia.
      + cbn [insert_all fold_left]. unfold template_of at 1. cbn [t_id]. destruct (wt_opts t); cbn [t_id];
          (f_equal; f_equal; f_equal; [f_equal; lia|reflexivity]) || (do 3 f_equal; f_equal; lia).
      + cbn in Hfuel; lia.
  Qed.
End TemplateSet.

(* ---------- a whole message ---------- *)
Inductive wset :=
| WTpl (opts : bool) (ts : list wtemplate) (pad : bytes)
| WData (sid : Z) (recs : list (list wfield)) (pad : bytes).

Section Message.
  Variable im : infomodel.
  Variable hl : layout.

  Definition enc_tpl_set (opts : bool) (ts : list wtemplate) (pad : bytes) : bytes :=
    enc 2 (if opts then 3 else 2) ++ enc 2 (4 + len (tpls_bytes ts) + len pad) ++ tpls_bytes ts ++ pad.
  Definition enc_set (s : wset) : bytes :=
    match s with WTpl o ts pad => enc_tpl_set o ts pad | WData sid recs pad => enc_data_set im sid recs pad end.

  (* well-formedness, threading the exporter's templates: a data set's template is the latest definition announced
     earlier in this message or held in the cache for this exporter *)
  Fixpoint sets_ok (a : bytes) (m : amap) (sets : list wset) : Prop :=
    match sets with
    | [] => True
    | WTpl o ts pad :: r =>
        Forall wtemplate_ok ts /\ Forall (fun t => wt_opts t = o) ts /\ ts <> [] /\ len pad <= 3 /\
        4 + len (tpls_bytes ts) + len pad < 65536 /\ sets_ok a (insert_all a ts m) r
    | WData sid recs pad :: r =>
        (exists tr, 255 < sid < 65536 /\ amap_get a (sid mod 65536) m = Some tr /\ Forall (rec_matches tr) recs) /\
        Forall (Forall (wfield_ok im)) recs /\ Forall (fun ws => 0 < len (enc_record im ws)) recs /\ recs <> [] /\
        len pad <= 3 /\ tail_ok im recs pad /\ 4 + len (recs_bytes im recs) + len pad < 65536 /\ sets_ok a m r
    end.

  Fixpoint expected_sets (sets : list wset) : list record :=
    match sets with
    | [] => []
    | WTpl _ _ _ :: r => expected_sets r
    | WData _ recs _ :: r => map (expected_record im) recs ++ expected_sets r
    end.
  Fixpoint final_map (a : bytes) (m : amap) (sets : list wset) : amap :=
    match sets with
    | [] => m
    | WTpl _ ts _ :: r => final_map a (insert_all a ts m) r
    | WData _ _ _ :: r => final_map a m r
    end.

  Theorem tpl_set_fidelity (a : bytes) (m : amap) o ts pad rest cnt ds :
    Forall wtemplate_ok ts -> Forall (fun t => wt_opts t = o) ts -> len pad <= 3 ->
    4 + len (tpls_bytes ts) + len pad < 65536 ->
    decode_set am_ops im a m {| data := enc_tpl_set o ts pad ++ rest; count := cnt |} ds
    = Ok (insert_all a ts m, SCont {| data := rest; count := cnt + len (enc_tpl_set o ts pad) |} ds false).
  Proof.
    intros Hok Hk Hpad HL. pose proof (len_nonneg pad) as Hp0. pose proof (len_nonneg (tpls_bytes ts)) as Hr0.
    set (sid := if o then 3 else 2). assert (Hsid : sid = 2 \/ sid = 3) by (subst sid; destruct o; auto).
    unfold decode_set, enc_tpl_set, uint16. fold sid. rewrite <- !app_assoc.
    rewrite (uintN_app (enc 2 sid) _ cnt 2) by (rewrite ?len_enc; lia). cbn [bind fst snd].
    rewrite (uintN_app (enc 2 (4 + len (tpls_bytes ts) + len pad)) _ (cnt + 2) 2) by (rewrite ?len_enc; lia).
    cbn [bind fst snd catch count]. rewrite !be_enc2 by lia.
    replace (4 + len (tpls_bytes ts) + len pad <? 4) with false by lia.
    replace (255 <? sid) with false by lia. cbn [bind].
    assert (Hk' : Forall (fun t => wt_opts t = (sid =? 3)) ts).
    { eapply Forall_impl; [|exact Hk]. intros t ->. subst sid. destruct o; reflexivity. }
    rewrite (template_loop_fidelity im a sid empty_template Hsid ts Hok Hk' m pad rest
               (4 + len (tpls_bytes ts) + len pad) cnt (cnt + 2 + 2) ds); try lia.
    2: { unfold fuel_of; cbn [data]. rewrite app_length.
         assert (length ts <= length (tpls_bytes ts))%nat.
         { clear - Hok. unfold tpls_bytes. induction ts as [|t ts IH]; [cbn; lia|]. apply Forall_cons_iff in Hok as [H1 H2].
           cbn [flat_map length]. rewrite app_length. specialize (IH H2). pose proof (enc_wtemplate_len t H1). unfold len in *. lia. }
         lia. }
    cbn [bind snd fst count].
    replace ((4 + len (tpls_bytes ts) + len pad - (cnt + 2 + 2 + len (tpls_bytes ts) - cnt) mod 65536) mod 65536) with (len pad) by lia.
    destruct (0 <? len pad) eqn:Ep.
    - rewrite (read_app pad rest _ (len pad) eq_refl). cbn [catch bind fst snd].
      do 3 f_equal. rewrite !len_app, !len_enc. f_equal. lia.
    - assert (pad = []) by (destruct pad as [|x p]; [reflexivity|rewrite len_cons in Ep; pose proof (len_nonneg p); lia]). subst pad. cbn [app].
      do 3 f_equal. rewrite ?len_app, ?len_enc, ?app_nil_r. f_equal. change (len (@nil Z)) with 0. lia.
  Qed.

  Lemma enc_set_len a m s r : sets_ok a m (s :: r) -> 5 <= len (enc_set s).
  Proof.
    destruct s as [o ts pad|sid recs pad]; cbn [sets_ok enc_set].
    - intros (Hok & _ & Hne & _). unfold enc_tpl_set. rewrite !len_app, !len_enc. pose proof (len_nonneg pad).
      destruct ts as [|t ts]; [congruence|]. apply Forall_cons_iff in Hok as [H1 _]. pose proof (enc_wtemplate_len t H1).
      unfold tpls_bytes; cbn [flat_map]. rewrite len_app. pose proof (len_nonneg (flat_map enc_wtemplate ts)). lia.
    - intros (_ & _ & Hpos & Hne & _ & Htail & _). unfold enc_data_set. rewrite !len_app, !len_enc.
      pose proof (tail_ok_bound im recs pad Hne Htail Hpos). lia.
  Qed.

  Theorem sets_loop_fidelity (a : bytes) : forall sets m cnt ds nf fuel,
    sets_ok a m sets -> (length sets < fuel)%nat ->
    sets_loop am_ops im fuel a m {| data := flat_map enc_set sets; count := cnt |} ds nf
    = Ok (final_map a m sets, Some (ds ++ expected_sets sets, nf)).
  Proof.
    induction sets as [|s sets IH]; intros m cnt ds nf fuel Hok Hf.
    - destruct fuel as [|k]; [cbn in Hf; lia|]. cbn [sets_loop flat_map]. unfold rlen; cbn. now rewrite app_nil_r.
    - destruct fuel as [|k]; [cbn in Hf; lia|]. pose proof (enc_set_len a m s sets Hok) as Hl5.
      cbn [sets_loop flat_map]. unfold rlen; cbn [data]. rewrite len_app. pose proof (len_nonneg (flat_map enc_set sets)).
      replace (4 <? len (enc_set s) + len (flat_map enc_set sets)) with true by lia.
      destruct s as [o ts pad|sid recs pad]; cbn [sets_ok enc_set expected_sets final_map] in *.
      + destruct Hok as (H1 & H2 & _ & H4 & H5 & Hr).
        rewrite (tpl_set_fidelity a m o ts pad _ cnt ds H1 H2 H4 H5). cbn [bind fst snd].
        apply IH; [exact Hr|cbn in Hf; lia].
      + destruct Hok as ((tr & Hs & Hg & Hm) & H2 & H3 & _ & H5 & H6 & H7 & Hr).
        rewrite (data_set_fidelity im a m tr sid recs pad _ cnt ds Hs Hg Hm H2 H3 H5 H6 H7). cbn [bind fst snd].
        rewrite (IH m _ (ds ++ map (expected_record im) recs) nf k Hr ltac:(cbn in Hf; lia)).
        now rewrite <- app_assoc.
  Qed.

  (* C03: the whole message.  hvals: the five header fields; any exporter address; any cache state m *)
  Theorem ipfix_fidelity (a : bytes) (m : amap) hvals sets :
    fits hl hvals -> field_get "Version" (named_fields hl hvals) = 10 -> sets_ok a m sets ->
    ipfix_decode am_ops im hl m a (enc_layout hl hvals ++ flat_map enc_set sets)
    = Ok (final_map a m sets,
          DMsg {| i_agent := a; i_header := named_fields hl hvals; i_sets := expected_sets sets |} 0).
  Proof.
    intros Hfit Hv Hok. unfold ipfix_decode, new_reader. rewrite (read_layout_app hl hvals _ 0 Hfit). cbn [catch bind].
    rewrite Hv. cbn [Z.eqb Pos.eqb negb].
    rewrite (sets_loop_fidelity a sets m _ [] 0 _ Hok).
    - cbn [bind fst snd app]. reflexivity.
    - unfold fuel_of; cbn [data].
      assert (length sets <= length (flat_map enc_set sets))%nat.
      { clear - Hok. revert m Hok. induction sets as [|s sets IH]; intros m Hok; [cbn; lia|].
        pose proof (enc_set_len a m s sets Hok) as H5. cbn [flat_map length]. rewrite app_length.
        assert (Hr : exists m', sets_ok a m' sets) by (destruct s; cbn [sets_ok] in Hok; [exists (insert_all a ts m)|exists m]; tauto).
        destruct Hr as [m' Hr]. specialize (IH m' Hr). unfold len in H5. lia. }
      lia.
  Qed.
End Message.
