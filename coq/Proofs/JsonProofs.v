(* C05: the hand-written encoders' output belongs to the JSON grammar (Spec/JsonGrammar.v) and denotes exactly
   the decoded message. *)
From VF Require Import Base.Prelude Base.IPText Base.Utf8 Base.Json Spec.JsonGrammar Proofs.ReaderProofs.
From Coq Require Import DecimalPos DecimalN.

(* ---------- decimal integers: strconv.FormatInt prints the number, exactly ---------- *)
Fixpoint uval (d : Decimal.uint) (acc : N) : N :=
  match d with
  | Decimal.Nil => acc
  | Decimal.D0 d => uval d (10 * acc) | Decimal.D1 d => uval d (10 * acc + 1) | Decimal.D2 d => uval d (10 * acc + 2)
  | Decimal.D3 d => uval d (10 * acc + 3) | Decimal.D4 d => uval d (10 * acc + 4) | Decimal.D5 d => uval d (10 * acc + 5)
  | Decimal.D6 d => uval d (10 * acc + 6) | Decimal.D7 d => uval d (10 * acc + 7) | Decimal.D8 d => uval d (10 * acc + 8)
  | Decimal.D9 d => uval d (10 * acc + 9)
  end%N.

Lemma of_uint_acc_uval d : forall acc, Npos (Pos.of_uint_acc d acc) = uval d (Npos acc).
Proof. induction d; intros acc; cbn [Pos.of_uint_acc uval]; try reflexivity; rewrite IHd; f_equal; lia. Qed.

Lemma of_uint_uval d : Pos.of_uint d = uval d 0%N.
Proof. induction d; cbn [Pos.of_uint uval]; try reflexivity; try exact IHd; rewrite of_uint_acc_uval; reflexivity. Qed.

Lemma dval_uint d : forall acc, dval (uint_chars d) (Z.of_N acc) = Z.of_N (uval d acc).
Proof.
  induction d; intros acc; cbn [uint_chars dval uval]; try reflexivity;
    match goal with |- dval _ ?a = Z.of_N (uval _ ?b) => replace a with (Z.of_N b) by lia end; apply IHd.
Qed.

Lemma digits_uint d : Forall is_digit (uint_chars d).
Proof. induction d; cbn [uint_chars]; constructor; try assumption; unfold is_digit; lia. Qed.

Lemma to_uint_head p : exists c t, uint_chars (Pos.to_uint p) = c :: t /\ 49 <= c <= 57.
Proof.
  pose proof (DecimalPos.Unsigned.to_of (Pos.to_uint p)) as H. rewrite DecimalPos.Unsigned.of_to in H. cbn [N.to_uint] in H.
  pose proof (DecimalPos.Unsigned.to_uint_nonzero p) as Hz. pose proof (DecimalPos.Unsigned.to_uint_nonnil p) as Hn.
  destruct (Pos.to_uint p) as [|d|d|d|d|d|d|d|d|d|d] eqn:E; try congruence; cbn [uint_chars];
    try (do 2 eexists; split; [reflexivity|lia]).
  (* a leading 0: unorm would have stripped it *)
  exfalso. unfold Decimal.unorm in H. cbn [Decimal.nzhead] in H.
  assert (Hlen : forall u, (Decimal.nb_digits (Decimal.nzhead u) <= Decimal.nb_digits u)%nat).
  { induction u; cbn; lia. }
  destruct (Decimal.nzhead d) eqn:En; try (specialize (Hlen d); rewrite En in Hlen; apply (f_equal Decimal.nb_digits) in H; cbn in H, Hlen; lia).
  injection H as H. subst d. apply Hz. reflexivity.
Qed.

Lemma show_N_val n : dval (show_N n) 0 = Z.of_N n.
Proof. unfold show_N. rewrite (dval_uint _ 0%N), <- of_uint_uval. change (Pos.of_uint (N.to_uint n)) with (N.of_uint (N.to_uint n)). now rewrite DecimalN.Unsigned.of_to. Qed.

Lemma show_pos_nat p : Gnat (show_N (Npos p)) (Zpos p).
Proof.
  pose proof (show_N_val (Npos p)) as Hv. unfold show_N in *. cbn [N.to_uint] in *.
  destruct (to_uint_head p) as (c & t & E & Hc). pose proof (digits_uint (Pos.to_uint p)) as Hd. rewrite E in *.
  apply Forall_cons_iff in Hd as [_ Hd]. change (Zpos p) with (Z.of_N (Npos p)). rewrite <- Hv. now constructor.
Qed.

Theorem show_Z_int z : Gint (show_Z z) z.
Proof.
  destruct z as [|p|p]; cbn [show_Z].
  - apply Gint_pos, Gnat_zero.
  - apply Gint_pos, show_pos_nat.
  - change (Zneg p) with (- Zpos p). apply Gint_neg, show_pos_nat.
Qed.

(* ---------- strings ---------- *)
(* printable ASCII other than the quote and the backslash: written as itself *)
Definition plain (c : Z) : Prop := 32 <= c < 127 /\ c <> 34 /\ c <> 92.
Definition plainb (c : Z) : bool := (32 <=? c) && (c <? 127) && negb (c =? 34) && negb (c =? 92).
Lemma plainb_ok c : plainb c = true -> plain c. Proof. unfold plainb, plain. lia. Qed.
Lemma plain_lit (l : bytes) : forallb plainb l = true -> Forall plain l.
Proof. intros H. apply Forall_forall. intros x Hx. apply plainb_ok. rewrite forallb_forall in H. auto. Qed.

Lemma utf8_ascii c : 0 <= c < 128 -> utf8_enc c = [c].
Proof. intros H. unfold utf8_enc. replace (c <? 0) with false by lia. replace (c <? 128) with true by lia. reflexivity. Qed.

Lemma Gchars_plain l : Forall plain l -> Gchars l l.
Proof.
  induction 1 as [|c l [Hc [H34 H92]] _ IH]; [constructor|].
  change (c :: l) with ([c] ++ l) at 1. rewrite <- (utf8_ascii c) by lia.
  apply GC_plain; try assumption; try lia. unfold is_scalar. lia.
Qed.

Definition quoted (b : bytes) : bytes := 34 :: b ++ [34].
Lemma Gstring_plain l : Forall plain l -> Gstring (quoted l) l.
Proof. intros H. exists l. split; [reflexivity|apply Gchars_plain, H]. Qed.

Lemma Gchars_app a b ca cb : Gchars a ca -> Gchars b cb -> Gchars (a ++ b) (ca ++ cb).
Proof.
  induction 1; intros Hb; cbn [app]; try assumption.
  - rewrite <- app_assoc. apply GC_plain; auto.
  - apply GC_esc; auto.
  - eapply GC_u; eauto.
Qed.

Lemma hexval_digit d : 0 <= d < 16 -> hexval (hex_digit d) = Some d.
Proof.
  intros H. unfold hex_digit, hexval. destruct (d <? 10) eqn:E.
  - replace ((48 <=? 48 + d) && (48 + d <=? 57)) with true by lia. f_equal; lia.
  - replace ((48 <=? 87 + d) && (87 + d <=? 57)) with false by lia.
    replace ((97 <=? 87 + d) && (87 + d <=? 102)) with true by lia. f_equal; lia.
Qed.

(* writeString's treatment of one rune *)
Lemma esc_rune_ok r : is_scalar r = true -> Gchars (esc_rune r) [r].
Proof.
  intros Hs. unfold esc_rune.
  destruct ((r =? 34) || (r =? 92)) eqn:E1.
  - change [92; r] with (92 :: r :: []). apply GC_esc; [lia|constructor].
  - destruct (r <? 32) eqn:E2.
    + assert (0 <= r) by (unfold is_scalar in Hs; lia).
      cbn [s2l app]. change (Z.of_N (N_of_ascii "\")) with 92. change (Z.of_N (N_of_ascii "u")) with 117. change (Z.of_N (N_of_ascii "0")) with 48.
      replace r with (0 * 4096 + 0 * 256 + (r / 16) * 16 + r mod 16) at 3 by lia.
      eapply GC_u; try reflexivity; try (apply hexval_digit; lia); [|constructor].
      replace (0 * 4096 + 0 * 256 + (r / 16) * 16 + r mod 16) with r by lia. exact Hs.
    + rewrite <- (app_nil_r (utf8_enc r)). apply GC_plain; try assumption; try lia. constructor.
Qed.

Lemma esc_runes_ok rs : Forall (fun r => is_scalar r = true) rs -> Gchars (flat_map esc_rune rs) rs.
Proof.
  induction 1 as [|r rs Hr _ IH]; [constructor|]. cbn [flat_map]. change (r :: rs) with ([r] ++ rs).
  apply Gchars_app; [apply esc_rune_ok, Hr|exact IH].
Qed.

(* Go's range-over-string yields Unicode scalar values only (invalid octets become U+FFFD) *)
Lemma decode_rune_scalar s : wf_bytes s -> is_scalar (fst (decode_rune s)) = true.
Proof.
  intros H. unfold decode_rune, is_cont.
  destruct s as [|b0 t]; [reflexivity|]. apply Forall_cons_iff in H as [H0 H]. unfold is_byte in H0.
  destruct (b0 <? 128) eqn:E0; [cbn [fst]; unfold is_scalar; lia|].
  destruct ((b0 <? 194) || (244 <? b0)) eqn:E1; [reflexivity|].
  destruct t as [|b1 t1]; [reflexivity|]. apply Forall_cons_iff in H as [H1 H]. unfold is_byte in H1.
  destruct (negb _) eqn:E2; [reflexivity|].
  destruct (b0 <? 224) eqn:E3.
  { cbn [fst]. unfold is_scalar. destruct (b0 =? 224) eqn:Ea; destruct (b0 =? 240) eqn:Eb; destruct (b0 =? 237) eqn:Ec; destruct (b0 =? 244) eqn:Ed; lia. }
  destruct t1 as [|b2 t2]; [reflexivity|]. apply Forall_cons_iff in H as [H2 H]. unfold is_byte in H2.
  destruct (negb ((128 <=? b2) && (b2 <=? 191))) eqn:E4; [reflexivity|].
  destruct (b0 <? 240) eqn:E5.
  { cbn [fst]. unfold is_scalar. destruct (b0 =? 224) eqn:Ea; destruct (b0 =? 240) eqn:Eb; destruct (b0 =? 237) eqn:Ec; destruct (b0 =? 244) eqn:Ed; lia. }
  destruct t2 as [|b3 t3]; [reflexivity|]. apply Forall_cons_iff in H as [H3 H]. unfold is_byte in H3.
  destruct (negb ((128 <=? b3) && (b3 <=? 191))) eqn:E6; [reflexivity|].
  cbn [fst]. unfold is_scalar. destruct (b0 =? 224) eqn:Ea; destruct (b0 =? 240) eqn:Eb; destruct (b0 =? 237) eqn:Ec; destruct (b0 =? 244) eqn:Ed; lia.
Qed.

Lemma wf_skipn n (s : bytes) : wf_bytes s -> wf_bytes (skipn n s).
Proof. revert s. induction n; intros s H; [exact H|]. destruct s; [exact H|]. apply Forall_cons_iff in H as [_ H]. cbn. auto. Qed.

Lemma go_runes_scalar s : wf_bytes s -> Forall (fun r => is_scalar r = true) (go_runes s).
Proof.
  unfold go_runes. generalize (length s) as k. intros k. revert s.
  induction k as [|k IH]; intros s H; cbn [go_runes_fuel]; [constructor|].
  destruct s as [|b t]; [constructor|].
  destruct (decode_rune (b :: t)) as [r n] eqn:E. constructor.
  - pose proof (decode_rune_scalar (b :: t) H) as Hs. rewrite E in Hs. exact Hs.
  - apply IH, wf_skipn, H.
Qed.

Theorem json_string_ok s : wf_bytes s -> Gstring (json_string s) (go_runes s).
Proof. intros H. exists (flat_map esc_rune (go_runes s)). split; [reflexivity|apply esc_runes_ok, go_runes_scalar, H]. Qed.

Lemma wf_s2l k : wf_bytes (s2l k).
Proof.
  induction k as [|c k IH]; cbn [s2l]; constructor; [|exact IH]. unfold is_byte.
  pose proof (N_ascii_bounded c). lia.
Qed.

(* ---------- the text forms written between quotes are plain ASCII ---------- *)
Lemma plain_app a b : Forall plain a -> Forall plain b -> Forall plain (a ++ b).
Proof. intros. apply Forall_app; auto. Qed.

Lemma plain_uint d : Forall plain (uint_chars d).
Proof. induction d; cbn [uint_chars]; constructor; try assumption; unfold plain; lia. Qed.
Lemma plain_show_Z z : Forall plain (show_Z z).
Proof. destruct z; cbn [show_Z]; unfold show_N; repeat constructor; try apply plain_uint; unfold plain; lia. Qed.

Lemma plain_intercalate sep ls : Forall plain sep -> Forall (Forall plain) ls -> Forall plain (intercalate sep ls).
Proof.
  intros Hs H. induction H as [|x l Hx Hl IH]; [constructor|]. cbn [intercalate].
  destruct l; [exact Hx|]. apply plain_app; [exact Hx|apply plain_app; [exact Hs|exact IH]].
Qed.

Lemma plain_dotted l : Forall plain (dotted l).
Proof.
  unfold dotted. apply plain_intercalate; [repeat constructor; unfold plain; lia|].
  apply Forall_forall. intros x Hx. apply in_map_iff in Hx as (v & <- & _). apply plain_show_Z.
Qed.

Lemma plain_hex_digit d : 0 <= d < 16 -> plain (hex_digit d).
Proof. intros H. unfold hex_digit, plain. destruct (d <? 10) eqn:E; lia. Qed.

Lemma plain_hex_byte b : is_byte b -> Forall plain (hex_byte b).
Proof. unfold is_byte. intros H. unfold hex_byte. repeat constructor; apply plain_hex_digit; lia. Qed.

Lemma plain_show_hex l : wf_bytes l -> Forall plain (show_hex l).
Proof. induction 1 as [|b l Hb _ IH]; [constructor|]. cbn [show_hex flat_map]. apply plain_app; [apply plain_hex_byte, Hb|exact IH]. Qed.

Lemma plain_mac l : wf_bytes l -> Forall plain (mac_string l).
Proof.
  intros H. unfold mac_string. apply plain_intercalate; [repeat constructor; unfold plain; lia|].
  apply Forall_forall. intros x Hx. apply in_map_iff in Hx as (v & <- & Hv). apply plain_hex_byte.
  unfold wf_bytes in H. rewrite Forall_forall in H. auto.
Qed.

Lemma plain_hex16 v : 0 <= v < 65536 -> Forall plain (hex16 v).
Proof.
  intros H. unfold hex16. destruct (0 <? v / 4096); [|destruct (0 <? (v / 256) mod 16); [|destruct (0 <? (v / 16) mod 16)]];
    repeat constructor; apply plain_hex_digit; lia.
Qed.

Lemma groups16_range l : wf_bytes l -> Forall (fun v => 0 <= v < 65536) (groups16 l).
Proof.
  revert l. fix IH 1. intros [|a [|b t]] H; cbn [groups16]; try constructor.
  - apply Forall_cons_iff in H as [Ha H]. apply Forall_cons_iff in H as [Hb _]. unfold is_byte in *. lia.
  - apply IH. apply Forall_cons_iff in H as [_ H]. apply Forall_cons_iff in H as [_ H]. exact H.
Qed.

Lemma plain_show_groups g : Forall (fun v => 0 <= v < 65536) g -> forall i zs zl, Forall plain (show_groups g i zs zl).
Proof.
  induction 1 as [|v g Hv _ IH]; intros i zs zl; cbn [show_groups]; [constructor|].
  apply plain_app; [|apply IH].
  destruct ((0 <? zl)%nat && (zs <=? i)%nat && (i <? zs + zl)%nat).
  - destruct (i =? zs)%nat; repeat constructor; unfold plain; lia.
  - apply plain_app; [|apply plain_hex16, Hv]. destruct ((0 <? i)%nat && negb _); repeat constructor; unfold plain; lia.
Qed.

Lemma plain_ip6 l : wf_bytes l -> Forall plain (ip6_string l).
Proof. intros H. unfold ip6_string. destruct (best_run _ _ _) as [zs zl]. apply plain_show_groups, groups16_range, H. Qed.

Theorem plain_ip l : wf_bytes l -> Forall plain (ip_string l).
Proof.
  intros H. unfold ip_string.
  assert (Hq : Forall plain (63 :: show_hex l)) by (constructor; [unfold plain; lia|apply plain_show_hex, H]).
  assert (Hn : Forall plain (s2l "<nil>")) by (apply plain_lit; reflexivity).
  assert (H16 : Forall plain (if is_v4mapped l then dotted (skipn 12 l) else ip6_string l))
    by (destruct (is_v4mapped l); [apply plain_dotted|apply plain_ip6, H]).
  pose proof (plain_dotted l) as H4.
  destruct (length l) as [|n]; [exact Hn|].
  do 3 (destruct n as [|n]; [exact Hq|]). destruct n as [|n]; [exact H4|].
  do 11 (destruct n as [|n]; [exact Hq|]). destruct n as [|n]; [exact H16|exact Hq].
Qed.

Lemma plain_placeholder w b : Forall plain (s2l "@F" ++ show_Z w ++ s2l ":" ++ show_Z b ++ s2l "@").
Proof. repeat apply plain_app; try apply plain_show_Z; apply plain_lit; reflexivity. Qed.

(* ---------- the generic printer (the model of encoding/json for the sFlow datagram) ---------- *)
Fixpoint wf_jv (j : jv) : Prop :=
  match j with
  | JStr s => wf_bytes s
  | JTok t => float_token t
  | JArr l => fold_right (fun x acc => wf_jv x /\ acc) True l
  | JObj l => fold_right (fun kv acc => wf_jv (snd kv) /\ acc) True l
  | _ => True
  end.
Fixpoint denote (j : jv) : jval :=
  match j with
  | JNull => VNull
  | JBool b => if b then VTrue else VFalse
  | JNum z => VInt z
  | JTok t => VFloatTok t
  | JStr s => VString (go_runes s)
  | JArr l => VArray (map denote l)
  | JObj l => VObject (map (fun kv => (go_runes (s2l (fst kv)), denote (snd kv))) l)
  end.

Fixpoint render_valid (j : jv) : wf_jv j -> Gjson (render j) (denote j).
Proof.
  destruct j as [|b|z|t|s|l|l]; cbn [render denote wf_jv]; intros H.
  - constructor.
  - destruct b; constructor.
  - apply G_int, show_Z_int.
  - apply G_float, H.
  - apply G_str, json_string_ok, H.
  - apply G_arr. induction l as [|x l IHl]; [constructor|]. destruct H as [Hx Hl]. cbn [map].
    constructor; [apply render_valid, Hx|apply IHl, Hl].
  - apply G_obj. induction l as [|[k v] l IHl]; [constructor|]. destruct H as [Hx Hl]. cbn [map fst snd].
    constructor; [|apply IHl, Hl].
    exists (json_string (s2l k)), (render v). split; [reflexivity|]. split; [apply json_string_ok, wf_s2l|apply render_valid, Hx].
Qed.
