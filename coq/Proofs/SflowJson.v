(* C05 for sFlow: the tree SFDecode produces from ANY datagram of octets is printable (all strings are octets, in
   fact plain ASCII: addresses, MAC text, base64), so the generic printer theorem applies to it. *)
From VF Require Import Base.Prelude Base.IPText Base.Utf8 Base.Json Spec.JsonGrammar Model.Layout Model.JsonPieces Model.Packet Model.Sflow
  Proofs.ReaderProofs Proofs.JsonProofs Proofs.WfDecode.

Lemma plain_wf l : Forall plain l -> wf_bytes l.
Proof. apply Forall_impl. intros c [H _]. unfold is_byte. lia. Qed.

Lemma wf_obj l : Forall (fun kv => wf_jv (snd kv)) l <-> wf_jv (JObj l).
Proof. cbn [wf_jv]. induction l as [|kv l IH]; cbn [fold_right]; [split; auto|]. rewrite Forall_cons_iff, IH. tauto. Qed.
Lemma wf_arr l : Forall wf_jv l <-> wf_jv (JArr l).
Proof. cbn [wf_jv]. induction l as [|x l IH]; cbn [fold_right]; [split; auto|]. rewrite Forall_cons_iff, IH. tauto. Qed.

Lemma wf_obj_of fs : wf_jv (JObj (obj_of fs)).
Proof. apply wf_obj. unfold obj_of. apply Forall_forall. intros kv H. apply in_map_iff in H as (x & <- & _). exact I. Qed.

Lemma b64_char_plain v : 0 <= v < 64 -> plain (b64_char v).
Proof. intros H. unfold b64_char, plain. destruct (v <? 26) eqn:E1; [lia|]. destruct (v <? 52) eqn:E2; [lia|]. destruct (v <? 62) eqn:E3; [lia|]. destruct (v =? 62); lia. Qed.

Lemma base64_plain : forall l, wf_bytes l -> Forall plain (base64 l).
Proof.
  fix IH 1. intros [|a [|b [|c t]]] H; cbn [base64].
  - constructor.
  - apply Forall_cons_iff in H as [Ha _]. unfold is_byte in Ha.
    repeat constructor; try (apply b64_char_plain; lia); unfold plain; lia.
  - apply Forall_cons_iff in H as [Ha H]. apply Forall_cons_iff in H as [Hb _]. unfold is_byte in *.
    repeat constructor; try (apply b64_char_plain; lia); unfold plain; lia.
  - apply Forall_cons_iff in H as [Ha H]. apply Forall_cons_iff in H as [Hb H]. apply Forall_cons_iff in H as [Hc H]. unfold is_byte in *.
    apply plain_app; [repeat constructor; apply b64_char_plain; lia|apply IH, H].
Qed.

Lemma wf_app (a b : bytes) : wf_bytes a -> wf_bytes b -> wf_bytes (a ++ b).
Proof. intros. apply Forall_app; auto. Qed.
Lemma wf_nthz l i : wf_bytes l -> is_byte (nthz l i).
Proof.
  intros H. unfold nthz. destruct (nth_in_or_default i l 0) as [Hin| ->]; [|unfold is_byte; lia].
  unfold wf_bytes in H. rewrite Forall_forall in H. auto.
Qed.
Lemma wf_repeat0 n : wf_bytes (repeat 0 n).
Proof. induction n; cbn; constructor; auto. unfold is_byte; lia. Qed.

(* ---- the packet breakdown ---- *)
Local Opaque skipn firstn.
Lemma wf_mac_text l : wf_bytes l -> wf_bytes (mac_text l).
Proof. intros H. apply plain_wf, plain_mac, wf_firstn, H. Qed.

Lemma ieee802_wf b : wf_bytes b -> let '(s, d, _) := ieee802 b in wf_bytes s /\ wf_bytes d.
Proof.
  intros H. unfold ieee802. destruct (_ =? 33024); [split; constructor|].
  split; apply wf_mac_text; [apply wf_skipn|]; exact H.
Qed.

Lemma datalink_wf s d v e : wf_bytes s -> wf_bytes d -> wf_jv (datalink_json s d v e).
Proof. intros Hs Hd. cbn. auto. Qed.

Lemma decode_ethernet_wf d j et rest : wf_bytes d -> decode_ethernet d = Ok (j, et, rest) -> wf_jv j /\ wf_bytes rest.
Proof.
  intros H E. unfold decode_ethernet in E. destruct (len d <? 14); [discriminate E|].
  pose proof (ieee802_wf d H) as H1. destruct (ieee802 d) as [[s1 d1] et1]. destruct H1 as [Hs1 Hd1].
  destruct (et1 =? 33024).
  - destruct (len d <? 18); [discriminate E|].
    set (d' := firstn 12 d ++ [nthz d 16; nthz d 17] ++ skipn 18 d) in *.
    assert (Hd' : wf_bytes d').
    { apply wf_app; [apply wf_firstn, H|]. apply wf_app; [|apply wf_skipn, H]. repeat constructor; apply wf_nthz, H. }
    pose proof (ieee802_wf d' Hd') as H2. destruct (ieee802 d') as [[s2 d2] et2]. destruct H2 as [Hs2 Hd2].
    injection E as <- <- <-. split; [apply datalink_wf; assumption|exact (wf_skipn 14 d' Hd')].
  - injection E as <- <- <-. split; [apply datalink_wf; assumption|exact (wf_skipn 14 d H)].
Qed.

Lemma wf_ip_str l : wf_bytes l -> wf_bytes (ip_string l).
Proof. intros H. apply plain_wf, plain_ip, H. Qed.

Lemma decode_l3_wf (k : Z) d j p rest : wf_bytes d ->
  (if k =? 4 then decode_ipv4 d else decode_ipv6 d) = Ok (j, p, rest) -> wf_jv j /\ wf_bytes rest.
Proof.
  intros H E. destruct (k =? 4); unfold decode_ipv4, decode_ipv6 in E.
  - destruct (len d <? 20); [discriminate E|]. destruct (len d <? ipv4_hlen d); [discriminate E|]. injection E as <- <- <-.
    split; [|apply wf_skipn, H]. cbn. repeat split; apply wf_ip_str, wf_firstn, wf_skipn, H.
  - destruct (len d <? 40); [discriminate E|]. injection E as <- <- <-.
    split; [|apply wf_skipn, H]. cbn. repeat split; apply wf_ip_str, wf_firstn, wf_skipn, H.
Qed.

Lemma decode_l4_wf p d j : wf_bytes d -> decode_l4 p d = Ok j -> wf_jv j.
Proof.
  intros H E. unfold decode_l4 in E.
  destruct ((p =? 1) || (p =? 58)).
  { destruct (len d <? 5); [discriminate E|]. injection E as <-. cbn. repeat split. apply plain_wf, base64_plain, wf_skipn, H. }
  destruct (p =? 6). { destruct (len d <? 20); [discriminate E|]. injection E as <-. cbn. tauto. }
  destruct (p =? 17); [|discriminate E]. destruct (len d <? 8); [discriminate E|]. injection E as <-. cbn. tauto.
Qed.

Lemma packet_decode_wf d proto j : wf_bytes d -> packet_decode d proto = Ok j -> wf_jv j.
Proof.
  intros H E. unfold packet_decode in E.
  assert (Hl : forall l2 k dd, wf_jv l2 -> wf_bytes dd ->
            (x <- (if k =? 4 then decode_ipv4 dd else decode_ipv6 dd) ;; let '(l3, pr, rest) := x in l4 <- decode_l4 pr rest ;; Ok (JObj [("L2"%string, l2); ("L3"%string, l3); ("L4"%string, l4)])) = Ok j -> wf_jv j).
  { intros l2 k dd Hl2 Hdd E1.
    destruct (if k =? 4 then decode_ipv4 dd else decode_ipv6 dd) as [[[l3 pr] rest]| | |] eqn:E3; cbn [bind] in E1; try discriminate E1.
    destruct (decode_l3_wf k dd l3 pr rest Hdd E3) as [H3 Hr].
    destruct (decode_l4 pr rest) as [l4| | |] eqn:E4; cbn [bind] in E1; try discriminate E1.
    injection E1 as <-. cbn. repeat split; try assumption. eapply decode_l4_wf; eassumption. }
  assert (He : wf_jv empty_l2) by (cbn; repeat split; constructor).
  destruct (proto =? 1).
  - destruct (decode_ethernet d) as [[[l2 et] rest]| | |] eqn:Ee; cbn [bind] in E; try discriminate E.
    destruct (decode_ethernet_wf d l2 et rest H Ee) as [H2 Hr].
    destruct (et =? 2048); [exact (Hl l2 4 rest H2 Hr E)|]. destruct (et =? 34525); [exact (Hl l2 6 rest H2 Hr E)|discriminate E].
  - destruct (proto =? 11); [exact (Hl _ 4 d He H E)|]. destruct (proto =? 12); [exact (Hl _ 6 d He H E)|discriminate E].
Qed.

(* ---- bytes.Reader ---- *)
Definition wfs (r : sreader) : Prop := wf_bytes (sd r).
Lemma sread_full_wf n r b r' : wfs r -> sread_full n r = Ok (b, r') -> wf_bytes b /\ wfs r'.
Proof.
  unfold sread_full, wfs. intros H E. destruct (n =? 0); [injection E as <- <-; split; [constructor|exact H]|].
  destruct (srem r <? n); [discriminate E|]. injection E as <- <-. split; [apply wf_firstn, wf_skipn, H|exact H].
Qed.
Lemma sread_u_wf n r v r' : wfs r -> sread_u n r = Ok (v, r') -> wfs r'.
Proof.
  unfold sread_u. intros H E. destruct (sread_full n r) as [[b q]| | |] eqn:E1; cbn [bind fst snd] in E; try discriminate E.
  injection E as <- <-. exact (proj2 (sread_full_wf _ _ _ _ H E1)).
Qed.
Lemma sread_buf_wf n r b r' : wfs r -> sread_buf n r = Ok (b, r') -> wf_bytes b /\ wfs r'.
Proof.
  unfold sread_buf, wfs. intros H E. destruct (srem r <=? 0); [discriminate E|]. injection E as <- <-.
  split; [|exact H]. apply wf_app; [apply wf_firstn, wf_skipn, H|apply wf_repeat0].
Qed.
Lemma sseek_wf o r : wfs r -> wfs (sseek o r).
Proof. unfold sseek, wfs. intros H. destruct (_ <? 0); exact H. Qed.
Lemma sread_layout_wf L : forall r fs r', wfs r -> sread_layout L r = Ok (fs, r') -> wfs r'.
Proof.
  induction L as [|[nm w] L IH]; intros r fs r' H E; cbn [sread_layout] in E.
  - injection E as <- <-. exact H.
  - destruct (String.eqb nm ""); [exact (IH _ _ _ (sseek_wf _ _ H) E)|].
    destruct (sread_u w r) as [[v q]| | |] eqn:E1; cbn [bind fst snd] in E; try discriminate E.
    destruct (sread_layout L q) as [[fs2 q2]| | |] eqn:E2; cbn [bind fst snd] in E; try discriminate E.
    injection E as <- <-. exact (IH _ _ _ (sread_u_wf _ _ _ _ H E1) E2).
Qed.

Definition wfm (m : list (string * jv)) : Prop := Forall (fun kv => wf_jv (snd kv)) m.
Lemma set_member_wf k v m : wf_jv v -> wfm m -> wfm (set_member k v m).
Proof.
  intros Hv Hm. unfold set_member. constructor; [exact Hv|]. apply Forall_forall. intros x Hx. apply filter_In in Hx as [Hx _].
  unfold wfm in Hm. rewrite Forall_forall in Hm. auto.
Qed.
Lemma insert_sorted_wf kv l : wf_jv (snd kv) -> wfm l -> wfm (insert_sorted kv l).
Proof.
  intros Hk Hl. induction Hl as [|h t Hh Ht IH]; cbn [insert_sorted]; [constructor; [exact Hk|constructor]|].
  destruct (String.leb _ _); [constructor; [exact Hk|constructor; assumption]|constructor; assumption].
Qed.
Lemma sort_members_wf l : wfm l -> wfm (sort_members l).
Proof. unfold sort_members. induction 1 as [|kv l Hk _ IH]; cbn [fold_right]; [constructor|apply insert_sorted_wf; assumption]. Qed.

Section SF.
  Variables (flow_sample_l counter_sample_l ext_switch_l generic_l ethernet_l tokenring_l vg_l vlan_l processor_l : layout).
  Variables (flow_sample_f counter_sample_f ext_switch_f generic_f ethernet_f tokenring_f vg_f vlan_f processor_f : list string).

  Lemma decode_sampled_header_wf r j r' : wfs r -> decode_sampled_header r = Ok (j, r') -> wf_jv j /\ wfs r'.
  Proof.
    intros H E. unfold decode_sampled_header in E.
    destruct (sread_u 4 r) as [[v1 q1]| | |] eqn:E1; cbn [bind fst snd] in E; try discriminate E. pose proof (sread_u_wf _ _ _ _ H E1) as H1.
    destruct (sread_u 4 q1) as [[v2 q2]| | |] eqn:E2; cbn [bind fst snd] in E; try discriminate E. pose proof (sread_u_wf _ _ _ _ H1 E2) as H2.
    destruct (sread_u 4 q2) as [[v3 q3]| | |] eqn:E3; cbn [bind fst snd] in E; try discriminate E. pose proof (sread_u_wf _ _ _ _ H2 E3) as H3.
    destruct (sread_u 4 q3) as [[v4 q4]| | |] eqn:E4; cbn [bind fst snd] in E; try discriminate E. pose proof (sread_u_wf _ _ _ _ H3 E4) as H4.
    destruct (1500 <? v4); [discriminate E|].
    destruct (sread_buf _ q4) as [[b q5]| | |] eqn:E5; cbn [bind fst snd] in E; try discriminate E. destruct (sread_buf_wf _ _ _ _ H4 E5) as [Hb H5].
    destruct (packet_decode _ v1) as [pk| | |] eqn:E6; cbn [bind] in E; try discriminate E. injection E as <- <-.
    split; [|exact H5]. eapply packet_decode_wf; [|exact E6]. apply wf_firstn, Hb.
  Qed.

  Lemma decode_ext_router_wf l r j r' : wfs r -> decode_ext_router l r = Ok (j, r') -> wf_jv j /\ wfs r'.
  Proof.
    intros H E. unfold decode_ext_router in E. destruct (negb _); [discriminate E|].
    destruct (sread_full (l - 8) r) as [[b q1]| | |] eqn:E1; cbn [bind fst snd] in E; try discriminate E. destruct (sread_full_wf _ _ _ _ H E1) as [Hb H1].
    destruct (sread_u 4 q1) as [[v2 q2]| | |] eqn:E2; cbn [bind fst snd] in E; try discriminate E. pose proof (sread_u_wf _ _ _ _ H1 E2) as H2.
    destruct (sread_u 4 q2) as [[v3 q3]| | |] eqn:E3; cbn [bind fst snd] in E; try discriminate E. pose proof (sread_u_wf _ _ _ _ H2 E3) as H3.
    injection E as <- <-. split; [|exact H3]. cbn. repeat split. apply wf_ip_str, wf_skipn, Hb.
  Qed.

  Lemma flow_records_wf : forall k n r m m' r', wfs r -> wfm m ->
    flow_records ext_switch_l ext_switch_f k n r m = Ok (m', r') -> wfm m' /\ wfs r'.
  Proof.
    induction k as [|k IH]; intros n r m m' r' H Hm E; cbn [flow_records] in E; destruct (n <=? 0); try discriminate E; try (injection E as <- <-; auto).
    destruct (sread_u 4 r) as [[f q1]| | |] eqn:E1; cbn [bind fst snd] in E; try discriminate E. pose proof (sread_u_wf _ _ _ _ H E1) as H1.
    destruct (sread_u 4 q1) as [[l q2]| | |] eqn:E2; cbn [bind fst snd] in E; try discriminate E. pose proof (sread_u_wf _ _ _ _ H1 E2) as H2.
    destruct (f =? 1).
    { destruct (decode_sampled_header q2) as [[j q3]| | |] eqn:E3; cbn [bind fst snd] in E; try discriminate E.
      destruct (decode_sampled_header_wf _ _ _ H2 E3) as [Hj H3]. exact (IH _ _ _ _ _ H3 (set_member_wf _ _ _ Hj Hm) E). }
    destruct (f =? 1001).
    { destruct (sread_layout ext_switch_l q2) as [[fs q3]| | |] eqn:E3; cbn [bind fst snd] in E; try discriminate E.
      exact (IH _ _ _ _ _ (sread_layout_wf _ _ _ _ H2 E3) (set_member_wf _ _ _ (wf_obj_of _) Hm) E). }
    destruct (f =? 1002).
    { destruct (decode_ext_router l q2) as [[j q3]| | |] eqn:E3; cbn [bind fst snd] in E; try discriminate E.
      destruct (decode_ext_router_wf _ _ _ _ H2 E3) as [Hj H3]. exact (IH _ _ _ _ _ H3 (set_member_wf _ _ _ Hj Hm) E). }
    exact (IH _ _ _ _ _ (sseek_wf _ _ H2) Hm E).
  Qed.

  Lemma counter_records_wf : forall k n r m m' r', wfs r -> wfm m ->
    counter_records generic_l ethernet_l tokenring_l vg_l vlan_l processor_l generic_f ethernet_f tokenring_f vg_f vlan_f processor_f k n r m = Ok (m', r') -> wfm m' /\ wfs r'.
  Proof.
    induction k as [|k IH]; intros n r m m' r' H Hm E; cbn [counter_records] in E; destruct (n <=? 0); try discriminate E; try (injection E as <- <-; auto).
    destruct (sread_u 4 r) as [[f q1]| | |] eqn:E1; cbn [bind fst snd] in E; try discriminate E. pose proof (sread_u_wf _ _ _ _ H E1) as H1.
    destruct (sread_u 4 q1) as [[l q2]| | |] eqn:E2; cbn [bind fst snd] in E; try discriminate E. pose proof (sread_u_wf _ _ _ _ H1 E2) as H2.
    destruct (counter_layout _ _ _ _ _ _ _ _ _ _ _ _ f) as [[[key L] F]|].
    - destruct (sread_layout L q2) as [[fs q3]| | |] eqn:E3; cbn [bind fst snd] in E; try discriminate E.
      exact (IH _ _ _ _ _ (sread_layout_wf _ _ _ _ H2 E3) (set_member_wf _ _ _ (wf_obj_of _) Hm) E).
    - exact (IH _ _ _ _ _ (sseek_wf _ _ H2) Hm E).
  Qed.

  Lemma sample_obj_wf hd rs : wfm rs -> wf_jv (JObj (obj_of hd ++ [("Records"%string, JObj (sort_members rs))])).
  Proof.
    intros H. apply wf_obj. apply Forall_app. split; [apply wf_obj, wf_obj_of|]. constructor; [|constructor].
    cbn [snd]. apply wf_obj, sort_members_wf, H.
  Qed.

  Lemma decode_flow_sample_wf r j r' : wfs r ->
    decode_flow_sample flow_sample_l ext_switch_l flow_sample_f ext_switch_f r = Ok (j, r') -> wf_jv j /\ wfs r'.
  Proof.
    intros H E. unfold decode_flow_sample in E.
    destruct (sread_layout flow_sample_l r) as [[h q]| | |] eqn:E1; cbn [bind fst snd] in E; try discriminate E.
    destruct (flow_records _ _ _ _ q []) as [[rs q2]| | |] eqn:E2; cbn [bind fst snd] in E; try discriminate E.
    destruct (flow_records_wf _ _ _ _ _ _ (sread_layout_wf _ _ _ _ H E1) (Forall_nil _) E2) as [Hrs H2].
    injection E as <- <-. split; [apply sample_obj_wf, Hrs|exact H2].
  Qed.

  Lemma decode_counter_sample_wf r j r' : wfs r ->
    decode_counter_sample counter_sample_l generic_l ethernet_l tokenring_l vg_l vlan_l processor_l counter_sample_f generic_f ethernet_f tokenring_f vg_f vlan_f processor_f r = Ok (j, r') -> wf_jv j /\ wfs r'.
  Proof.
    intros H E. unfold decode_counter_sample in E.
    destruct (sread_layout counter_sample_l r) as [[h q]| | |] eqn:E1; cbn [bind fst snd] in E; try discriminate E.
    destruct (counter_records _ _ _ _ _ _ _ _ _ _ _ _ _ _ q []) as [[rs q2]| | |] eqn:E2; cbn [bind fst snd] in E; try discriminate E.
    destruct (counter_records_wf _ _ _ _ _ _ (sread_layout_wf _ _ _ _ H E1) (Forall_nil _) E2) as [Hrs H2].
    injection E as <- <-. split; [apply sample_obj_wf, Hrs|exact H2].
  Qed.

  Notation samples_loop' := (samples_loop flow_sample_l counter_sample_l ext_switch_l generic_l ethernet_l tokenring_l vg_l vlan_l processor_l
                                          flow_sample_f counter_sample_f ext_switch_f generic_f ethernet_f tokenring_f vg_f vlan_f processor_f).

  Lemma samples_loop_wf : forall k filter n r ss cs ss' cs', wfs r -> Forall wf_jv ss -> Forall wf_jv cs ->
    samples_loop' k filter n r ss cs = Ok (SFOk ss' cs') -> Forall wf_jv ss' /\ Forall wf_jv cs'.
  Proof.
    induction k as [|k IH]; intros filter n r ss cs ss' cs' H Hs Hc E; cbn [samples_loop] in E; destruct (n <=? 0); try discriminate E; try (injection E as <- <-; auto).
    destruct (sread_u 4 r) as [[t q1]| | |] eqn:E1; cbn [catch bind fst snd] in E; try discriminate E. pose proof (sread_u_wf _ _ _ _ H E1) as H1.
    destruct (sread_u 4 q1) as [[l q2]| | |] eqn:E2; cbn [catch bind fst snd] in E; try discriminate E. pose proof (sread_u_wf _ _ _ _ H1 E2) as H2.
    destruct (existsb _ filter); [exact (IH _ _ _ _ _ _ _ (sseek_wf _ _ H2) Hs Hc E)|].
    destruct (_ =? 1).
    { destruct (decode_flow_sample _ _ _ _ q2) as [[s q3]| | |] eqn:E3; cbn [catch] in E; try discriminate E.
      destruct (decode_flow_sample_wf _ _ _ H2 E3) as [Hj H3].
      refine (IH _ _ _ _ _ _ _ H3 _ Hc E). apply Forall_app. split; [exact Hs|constructor; [exact Hj|constructor]]. }
    destruct (_ =? 2).
    { destruct (decode_counter_sample _ _ _ _ _ _ _ _ _ _ _ _ _ _ q2) as [[s q3]| | |] eqn:E3; cbn [catch] in E; try discriminate E.
      destruct (decode_counter_sample_wf _ _ _ H2 E3) as [Hj H3].
      refine (IH _ _ _ _ _ _ _ H3 Hs _ E). apply Forall_app. split; [exact Hc|constructor; [exact Hj|constructor]]. }
    exact (IH _ _ _ _ _ _ _ (sseek_wf _ _ H2) Hs Hc E).
  Qed.

  Notation sf_decode' := (sf_decode flow_sample_l counter_sample_l ext_switch_l generic_l ethernet_l tokenring_l vg_l vlan_l processor_l
                                    flow_sample_f counter_sample_f ext_switch_f generic_f ethernet_f tokenring_f vg_f vlan_f processor_f).

  Theorem sf_decode_wf filter p ok j : wf_bytes p -> sf_decode' filter p = Ok (ok, Some j) -> wf_jv j.
  Proof.
    intros H E. unfold sf_decode in E.
    set (r0 := {| sd := p; sp := 0 |}) in *. assert (H0 : wfs r0) by exact H.
    destruct (sread_u 4 r0) as [[v q1]| | |] eqn:E1; cbn [catch bind fst snd] in E; try discriminate E. pose proof (sread_u_wf _ _ _ _ H0 E1) as H1.
    destruct (negb (v =? 5)); [discriminate E|].
    destruct (sread_u 4 q1) as [[iv q2]| | |] eqn:E2; cbn [catch bind fst snd] in E; try discriminate E. pose proof (sread_u_wf _ _ _ _ H1 E2) as H2.
    destruct (sread_buf _ q2) as [[ip q3]| | |] eqn:E3; cbn [catch bind fst snd] in E; try discriminate E. destruct (sread_buf_wf _ _ _ _ H2 E3) as [Hip H3].
    destruct (sread_u 4 q3) as [[sub q4]| | |] eqn:E4; cbn [catch bind fst snd] in E; try discriminate E. pose proof (sread_u_wf _ _ _ _ H3 E4) as H4.
    destruct (sread_u 4 q4) as [[sq q5]| | |] eqn:E5; cbn [catch bind fst snd] in E; try discriminate E. pose proof (sread_u_wf _ _ _ _ H4 E5) as H5.
    destruct (sread_u 4 q5) as [[up q6]| | |] eqn:E6; cbn [catch bind fst snd] in E; try discriminate E. pose proof (sread_u_wf _ _ _ _ H5 E6) as H6.
    destruct (sread_u 4 q6) as [[n q7]| | |] eqn:E7; cbn [catch bind fst snd] in E; try discriminate E. pose proof (sread_u_wf _ _ _ _ H6 E7) as H7.
    destruct (samples_loop' _ filter n q7 [] []) as [[| |ss cs]| | |] eqn:El; cbn [bind] in E; try discriminate E.
    destruct (samples_loop_wf _ _ _ _ _ _ _ _ H7 (Forall_nil _) (Forall_nil _) El) as [Hss Hcs].
    assert (Hj : wf_jv (JObj [("Version"%string, JNum v); ("IPVersion"%string, JNum iv); ("AgentSubID"%string, JNum sub); ("SequenceNo"%string, JNum sq);
                              ("SysUpTime"%string, JNum up); ("SamplesNo"%string, JNum n); ("Samples"%string, JArr ss); ("Counters"%string, JArr cs);
                              ("IPAddress"%string, JStr (ip_string ip)); ("ColTime"%string, JNum 0)])).
    { apply wf_obj. repeat constructor; cbn [snd]; try (apply wf_arr; assumption). apply wf_ip_str, Hip. }
    destruct ss as [|s ss0]; [destruct cs as [|c0 cs0]; [discriminate E|]|]; injection E as _ <-; exact Hj.
  Qed.
End SF.
