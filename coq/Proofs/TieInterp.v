(* Tie obligation for ipfix/interpret.go: the hand-written model `interpret` (Model/Flow.v), which every decoder
   theorem is about, equals the interpretation driven by the tables the translator regenerates from the CURRENT
   source (Gen/Interp.v: minLen per FieldType, shape of the value Interpret returns per FieldType), for every
   FieldType constant (Gen/InfoModel.v type_consts) and EVERY octet string.  Changing a minimum length, dropping a
   type from a case list, or changing what a case returns breaks this lemma. *)
From VF Require Import Base.Prelude Model.Flow.
From VF Require Gen.InfoModel Gen.Interp.

Definition interpret_src (name : string) (b : bytes) : outcome value :=
  interpret_gen Gen.Interp.min_len_table Gen.Interp.min_len_default Gen.Interp.shape_table Gen.Interp.shape_default name b.

Theorem tie_interpret : forall name v, In (name, v) Gen.InfoModel.type_consts ->
  forall b, interpret v b = interpret_src name b.
Proof.
  intros name v Hin b. unfold Gen.InfoModel.type_consts in Hin. cbn [In] in Hin.
  repeat (destruct Hin as [Hin|Hin]; [injection Hin as <- <-; reflexivity|]). contradiction.
Qed.

Theorem tie_length_guard : Gen.Interp.length_guard_first = true.
Proof. reflexivity. Qed.

(* and the minimum length alone, as the decoders' guard uses it *)
Theorem tie_min_len : forall name v, In (name, v) Gen.InfoModel.type_consts ->
  min_len v = lookup_name name Gen.Interp.min_len_table Gen.Interp.min_len_default.
Proof.
  intros name v Hin. unfold Gen.InfoModel.type_consts in Hin. cbn [In] in Hin.
  repeat (destruct Hin as [Hin|Hin]; [injection Hin as <- <-; reflexivity|]). contradiction.
Qed.
