(* C01 / C02 for the IPFIX decoder model: for every payload, every exporter address and every cache
   satisfying the cache invariant, decoding neither panics nor hangs (the explicit fuel always
   suffices), leaves the invariant intact, and emits at most as many records as octets were consumed. *)
From VF Require Import Base.Prelude Model.Reader Model.Layout Model.JsonPieces Model.Flow Model.Ipfix
  Proofs.ReaderProofs Proofs.LayoutProofs.

(* ---------- "r' is r advanced": octets only ever get consumed ---------- *)
Definition adv (r r' : reader) : Prop := rlen r' <= rlen r /\ count r' + rlen r' = count r + rlen r.

Lemma adv_refl r : adv r r. Proof. split; lia. Qed.
Lemma adv_trans a b c : adv a b -> adv b c -> adv a c.
Proof. unfold adv; intros [? ?] [? ?]; split; lia. Qed.

Ltac adv_chain := repeat (eapply adv_trans; [eassumption|]); first [eassumption|apply adv_refl].

Lemma rlen_nonneg r : 0 <= rlen r. Proof. apply len_nonneg. Qed.

Lemma advance_adv r n : 0 <= n <= rlen r -> adv r (advance n r) /\ rlen (advance n r) = rlen r - n.
Proof.
  intros H. pose proof (rlen_advance r n H) as E. split; [|exact E].
  split; [lia|]. rewrite E. cbn [advance count]. lia.
Qed.

Lemma uintN_adv n r v r' : 0 < n -> uintN n r = Ok (v, r') -> adv r r' /\ rlen r' = rlen r - n.
Proof.
  intros Hn. unfold uintN. destruct (rlen r <? n) eqn:E; [discriminate|]. intros H; inversion H; subst.
  apply advance_adv. lia.
Qed.

Lemma uintN_cases n r : (exists v r', uintN n r = Ok (v, r')) \/ uintN n r = Err EShort.
Proof. unfold uintN. destruct (rlen r <? n); [right; reflexivity|left; eauto]. Qed.

Lemma read_adv n r b r' : read n r = Ok (b, r') -> adv r r' /\ rlen r' = rlen r - n /\ 0 <= n /\ len b = n.
Proof.
  unfold read. destruct (n <? 0) eqn:E0; [discriminate|]. destruct (rlen r <? n) eqn:E1; [discriminate|].
  cbn [orb]. intros H; inversion H; subst. destruct (advance_adv r n ltac:(lia)) as [A B].
  split; [exact A|split; [exact B|split; [lia|apply len_firstn; unfold rlen in *; lia]]].
Qed.

Lemma read_cases n r : (exists b r', read n r = Ok (b, r')) \/ read n r = Err EShort.
Proof. unfold read. destruct ((n <? 0) || (rlen r <? n)); [right; reflexivity|left; eauto]. Qed.

(* ---------- interpret never panics: the minLen guard covers every fixed-width access ---------- *)
Lemma idx0_ok b : 1 <= len b -> exists x, idx0 b = Ok x.
Proof. destruct b as [|x b]; [rewrite len_nil; lia|intros _; eexists; reflexivity]. Qed.
Lemma be_n_ok n b : n <= len b -> exists x, be_n n b = Ok x.
Proof. intros H. unfold be_n. destruct (len b <? n) eqn:E; [lia|eexists; reflexivity]. Qed.

Theorem interpret_ok t b : exists v, interpret t b = Ok v.
Proof.
  unfold interpret. destruct (len b <? min_len t) eqn:Eg; [eexists; reflexivity|].
  unfold min_len in Eg.
  repeat match goal with
  | |- context [if ?c then _ else _] =>
      let E := fresh "E" in destruct c eqn:E;
      [ try (eexists; reflexivity);
        first [ destruct (idx0_ok b) as [x ->]; [|cbn [bind]; eexists; reflexivity]
              | match goal with |- context [be_n ?k b] => destruct (be_n_ok k b) as [x ->]; [|cbn [bind]; eexists; reflexivity] end ];
        repeat match goal with H : (_ =? _) = true |- _ => apply Z.eqb_eq in H; subst t | H : (_ || _) = true |- _ => apply orb_true_iff in H; destruct H end;
        cbn in Eg; lia
      | ]
  end.
  eexists; reflexivity.
Qed.

Section Safety.
  Context {C : Type}.
  Variable ops : cache_ops C.
  Variable im : infomodel.
  Variable hl : layout.
  Variable addr : bytes.                 (* the exporter whose datagram is being decoded *)
  Variable Inv : C -> Prop.
  Hypothesis retrieve_ok : forall c id, Inv c -> exists o, c_retrieve ops c id addr = Ok o.
  Hypothesis insert_ok : forall c id t, Inv c -> exists c', c_insert ops c id addr t = Ok c' /\ Inv c'.

  Notation read_fspecs := (@Ipfix.read_fspecs).

  Lemma read_fspec_res r :
    (exists s r', read_fspec r = Ok (s, r') /\ adv r r' /\ rlen r' <= rlen r - 4) \/ read_fspec r = Err EShort.
  Proof.
    unfold read_fspec, uint16, uint32.
    destruct (uintN_cases 2 r) as [(v1 & r1 & E1)| ->]; [|right; reflexivity]. rewrite E1. cbn [bind fst snd].
    destruct (uintN_adv 2 r v1 r1 ltac:(lia) E1) as [A1 L1].
    destruct (uintN_cases 2 r1) as [(v2 & r2 & E2)| ->]; [|right; reflexivity]. rewrite E2. cbn [bind fst snd].
    destruct (uintN_adv 2 r1 v2 r2 ltac:(lia) E2) as [A2 L2].
    destruct (32768 <=? v1).
    - destruct (uintN_cases 4 r2) as [(v3 & r3 & E3)| ->]; [|right; reflexivity]. rewrite E3. cbn [bind fst snd].
      destruct (uintN_adv 4 r2 v3 r3 ltac:(lia) E3) as [A3 L3].
      left. do 2 eexists. split; [reflexivity|]. split; [adv_chain|lia].
    - left. do 2 eexists. split; [reflexivity|]. split; [eapply adv_trans; eassumption|lia].
  Qed.

  Lemma read_fspecs_res : forall fuel n r acc, rlen r < Z.of_nat fuel ->
    (exists l r', read_fspecs fuel n r acc = Ok (l, r') /\ adv r r') \/ read_fspecs fuel n r acc = Err EShort.
  Proof.
    induction fuel as [|k IH]; intros n r acc Hf; [pose proof (rlen_nonneg r); lia|].
    cbn [Ipfix.read_fspecs]. destruct (n <=? 0); [left; do 2 eexists; split; [reflexivity|apply adv_refl]|].
    destruct (read_fspec_res r) as [(s & r1 & E & A & L)| ->]; [|right; reflexivity].
    rewrite E. cbn [bind fst snd].
    destruct (IH (n - 1) r1 (acc ++ [s]) ltac:(lia)) as [(l & r2 & E2 & A2)| ->]; [|right; reflexivity].
    left. do 2 eexists. split; [exact E2|eapply adv_trans; eassumption].
  Qed.

  Lemma fuel_of_ok r : rlen r < Z.of_nat (fuel_of r).
  Proof. unfold fuel_of, rlen, len. lia. Qed.

  Lemma read_template_res r :
    (exists t r', read_template r = Ok (t, r') /\ adv r r' /\ rlen r' <= rlen r - 4) \/ read_template r = Err EShort.
  Proof.
    unfold read_template, uint16.
    destruct (uintN_cases 2 r) as [(v1 & r1 & E1)| ->]; [|right; reflexivity]. rewrite E1. cbn [bind fst snd].
    destruct (uintN_adv 2 r v1 r1 ltac:(lia) E1) as [A1 L1].
    destruct (uintN_cases 2 r1) as [(v2 & r2 & E2)| ->]; [|right; reflexivity]. rewrite E2. cbn [bind fst snd].
    destruct (uintN_adv 2 r1 v2 r2 ltac:(lia) E2) as [A2 L2].
    destruct (read_fspecs_res (fuel_of r2) v2 r2 [] (fuel_of_ok r2)) as [(l & r3 & E3 & A3)| ->]; [|right; reflexivity].
    rewrite E3. cbn [bind fst snd]. left. do 2 eexists. split; [reflexivity|].
    split; [adv_chain|]. destruct A3. lia.
  Qed.

  Lemma read_opts_template_res r :
    (exists t r', read_opts_template r = Ok (t, r') /\ adv r r' /\ rlen r' <= rlen r - 4) \/ read_opts_template r = Err EShort.
  Proof.
    unfold read_opts_template, uint16.
    destruct (uintN_cases 2 r) as [(v1 & r1 & E1)| ->]; [|right; reflexivity]. rewrite E1. cbn [bind fst snd].
    destruct (uintN_adv 2 r v1 r1 ltac:(lia) E1) as [A1 L1].
    destruct (uintN_cases 2 r1) as [(v2 & r2 & E2)| ->]; [|right; reflexivity]. rewrite E2. cbn [bind fst snd].
    destruct (uintN_adv 2 r1 v2 r2 ltac:(lia) E2) as [A2 L2].
    destruct (uintN_cases 2 r2) as [(v3 & r3 & E3)| ->]; [|right; reflexivity]. rewrite E3. cbn [bind fst snd].
    destruct (uintN_adv 2 r2 v3 r3 ltac:(lia) E3) as [A3 L3].
    destruct (read_fspecs_res (fuel_of r3) v3 r3 [] (fuel_of_ok r3)) as [(l & r4 & E4 & A4)| ->]; [|right; reflexivity].
    rewrite E4. cbn [bind fst snd].
    destruct (read_fspecs_res (fuel_of r4) ((v2 - v3) mod 65536) r4 [] (fuel_of_ok r4)) as [(l5 & r5 & E5 & A5)| ->]; [|right; reflexivity].
    rewrite E5. cbn [bind fst snd]. left. do 2 eexists. split; [reflexivity|].
    split; [adv_chain|]. destruct A4, A5. lia.
  Qed.

  Lemma data_length_res sl ty r :
    (exists n r', data_length sl ty r = Ok (n, r') /\ adv r r') \/ data_length sl ty r = Err EShort.
  Proof.
    unfold data_length, uint8, uint16.
    destruct (((ty =? T_String) || (ty =? T_OctetArray)) && (sl =? 65535)); [|left; do 2 eexists; split; [reflexivity|apply adv_refl]].
    destruct (uintN_cases 1 r) as [(v1 & r1 & E1)| ->]; [|right; reflexivity]. rewrite E1. cbn [bind fst snd].
    destruct (uintN_adv 1 r v1 r1 ltac:(lia) E1) as [A1 L1].
    destruct (v1 =? 255).
    - destruct (uintN_cases 2 r1) as [(v2 & r2 & E2)| ->]; [|right; reflexivity]. rewrite E2.
      destruct (uintN_adv 2 r1 v2 r2 ltac:(lia) E2) as [A2 L2].
      left. do 2 eexists. split; [reflexivity|eapply adv_trans; eassumption].
    - left. do 2 eexists. split; [reflexivity|exact A1].
  Qed.

  Lemma decode_fields_res : forall specs r acc,
    (exists o r', decode_fields im specs r acc = Ok (o, r') /\ adv r r'
       /\ match o with Some fs => len fs = len acc + len specs | None => True end)
    \/ (exists e, decode_fields im specs r acc = Err e).
  Proof.
    induction specs as [|s specs IH]; intros r acc; cbn [decode_fields].
    - left. do 2 eexists. split; [reflexivity|]. split; [apply adv_refl|rewrite len_nil; lia].
    - destruct (im (f_pen s) (f_id s)) as [[fid ty]|].
      2: { left. do 2 eexists. split; [reflexivity|]. split; [apply adv_refl|exact I]. }
      destruct (data_length_res (f_len s) ty r) as [(n & r1 & E1 & A1)| ->]; [|right; eexists; reflexivity].
      rewrite E1. cbn [bind fst snd].
      destruct (read_cases n r1) as [(b & r2 & E2)| ->]; [|right; eexists; reflexivity].
      rewrite E2. cbn [bind fst snd]. destruct (read_adv _ _ _ _ E2) as (A2 & _).
      destruct (interpret_ok ty b) as [v ->]. cbn [bind].
      destruct (IH r2 (acc ++ [{| d_id := fid; d_pen := f_pen s; d_val := v |}])) as [(o & r3 & E3 & A3 & L3)|[e E3]].
      + left. do 2 eexists. split; [exact E3|]. split; [adv_chain|].
        destruct o; [|exact I]. rewrite L3, len_app, len_cons, len_cons, len_nil. lia.
      + right. eexists. exact E3.
  Qed.

  Lemma decode_data_res t r :
    (exists o r', decode_data im t r = Ok (o, r') /\ adv r r'
       /\ match o with Some fs => 1 <= len fs | None => True end)
    \/ (exists e, decode_data im t r = Err e).
  Proof.
    unfold decode_data.
    destruct (decode_fields_res (t_scope t) r []) as [(o & r1 & E1 & A1 & L1)|[e E1]]; rewrite E1; cbn [bind fst snd];
      [|right; eexists; reflexivity].
    destruct o as [sc|]; [|left; do 2 eexists; split; [reflexivity|split; [exact A1|exact I]]].
    destruct (decode_fields_res (t_fields t) r1 sc) as [(o2 & r2 & E2 & A2 & L2)|[e E2]]; rewrite E2; cbn [bind fst snd];
      [|right; eexists; reflexivity].
    destruct o2 as [fs|]; [|left; do 2 eexists; split; [reflexivity|split; [eapply adv_trans; eassumption|exact I]]].
    destruct fs as [|f fs]; [right; eexists; reflexivity|].
    left. do 2 eexists. split; [reflexivity|]. split; [eapply adv_trans; eassumption|].
    rewrite len_cons. pose proof (len_nonneg fs). lia.
  Qed.

  (* what a set-level function may return *)
  Definition sres_ok (r : reader) (ds : list record) (x : C * sres) : Prop :=
    Inv (fst x) /\
    match snd x with
    | SFatal => True
    | SCont r' ds' _ => adv r r' /\ len ds' <= len ds + (rlen r - rlen r')
    end.

  Lemma set_loop_res : forall fuel sid L start tr c r ds,
    Inv c -> rlen r < Z.of_nat fuel ->
    exists x, set_loop ops im fuel sid L start tr addr c r ds = Ok x /\ sres_ok r ds x.
  Proof.
    induction fuel as [|k IH]; intros sid L start tr c r ds Hc Hf; [pose proof (rlen_nonneg r); lia|].
    cbn [set_loop].
    match goal with |- context [if ?g then _ else _] => destruct g end.
    2: { eexists; split; [reflexivity|]. split; [exact Hc|]. cbn. split; [apply adv_refl|lia]. }
    destruct ((sid =? 2) || (sid =? 3)).
    - destruct (peek_uint16 r) as [z| | |] eqn:Ep.
      1: destruct z.
      1: { eexists; split; [reflexivity|]. split; [exact Hc|]. cbn. split; [apply adv_refl|lia]. }
      all: try (pose proof (reader_total 2 r) as (_ & _ & _ & [Hp Hh]); congruence).
      all: set (rd := if sid =? 2 then read_template r else read_opts_template r);
        assert (Hrd : (exists t r', rd = Ok (t, r') /\ adv r r' /\ rlen r' <= rlen r - 4) \/ rd = Err EShort)
          by (subst rd; destruct (sid =? 2); [apply read_template_res|apply read_opts_template_res]);
        destruct Hrd as [(t & r1 & E & A & Ls)|E]; rewrite E; cbn [catch bind];
        [ destruct (insert_ok c (t_id t) t Hc) as (c' & -> & Hc'); cbn [bind];
          destruct (IH sid L start tr c' r1 ds Hc' ltac:(lia)) as (x & Ex & Hx);
          exists x; split; [exact Ex|]; destruct Hx as [Hi Hx]; split; [exact Hi|];
          destruct (snd x); [exact I|]; destruct Hx as [Ax Lx]; split; [eapply adv_trans; eassumption|lia]
        | eexists; split; [reflexivity|]; split; [exact Hc|exact I] ].
    - destruct ((4 <=? sid) && (sid <=? 255)).
      { eexists; split; [reflexivity|]. split; [exact Hc|]. cbn. split; [apply adv_refl|lia]. }
      destruct (sid =? 0).
      { eexists; split; [reflexivity|]. split; [exact Hc|exact I]. }
      destruct (decode_data_res tr r) as [(o & r1 & E & A & Lo)|[e E]]; rewrite E; cbn [catch bind].
      2: { eexists; split; [reflexivity|]. split; [exact Hc|exact I]. }
      destruct o as [fs|].
      2: { eexists; split; [reflexivity|]. split; [exact Hc|]. cbn. destruct A. split; [split; lia|lia]. }
      destruct (count r1 =? count r) eqn:Ec.
      { eexists; split; [reflexivity|]. split; [exact Hc|]. cbn. destruct A. split; [split; lia|lia]. }
      destruct A as [A1 A2].
      destruct (IH sid L start tr c r1 (ds ++ [fs]) Hc ltac:(lia)) as (x & Ex & Hx).
      exists x; split; [exact Ex|]. destruct Hx as [Hi Hx]; split; [exact Hi|].
      destruct (snd x); [exact I|]. destruct Hx as [[Ax1 Ax2] Lx]. rewrite len_app, len_cons, len_nil in Lx.
      split; [split; lia|lia].
  Qed.

  Lemma decode_set_res c r ds : Inv c ->
    exists x, decode_set ops im addr c r ds = Ok x /\ Inv (fst x) /\
      match snd x with
      | SFatal => True
      | SCont r' ds' _ => adv r r' /\ rlen r' <= rlen r - 4 /\ len ds' <= len ds + (rlen r - rlen r')
      end.
  Proof.
    intros Hc. unfold decode_set, uint16.
    destruct (uintN_cases 2 r) as [(v1 & r1 & E1)| ->]; [|cbn [bind catch]; eexists; split; [reflexivity|split; [exact Hc|exact I]]].
    rewrite E1. cbn [bind fst snd].
    destruct (uintN_adv 2 r v1 r1 ltac:(lia) E1) as [A1 L1].
    destruct (uintN_cases 2 r1) as [(v2 & r2 & E2)| ->]; [|cbn [bind catch]; eexists; split; [reflexivity|split; [exact Hc|exact I]]].
    rewrite E2. cbn [bind fst snd catch].
    destruct (uintN_adv 2 r1 v2 r2 ltac:(lia) E2) as [A2 L2].
    destruct (v2 <? 4); [eexists; split; [reflexivity|split; [exact Hc|exact I]]|].
    assert (Hlk : exists lk, (if 255 <? v1 then c_retrieve ops c v1 addr else Ok (Some empty_template)) = Ok lk).
    { destruct (255 <? v1); [apply retrieve_ok; exact Hc|eexists; reflexivity]. }
    destruct Hlk as [lk ->]. cbn [bind].
    assert (Hbody : exists x, match lk with
                              | None => Ok (c, SCont r2 ds true)
                              | Some tr => set_loop ops im (fuel_of r2) v1 v2 (count r) tr addr c r2 ds
                              end = Ok x /\ sres_ok r2 ds x).
    { destruct lk as [tr|]; [apply set_loop_res; [exact Hc|apply fuel_of_ok]|].
      eexists; split; [reflexivity|]. split; [exact Hc|]. cbn. split; [apply adv_refl|lia]. }
    destruct Hbody as ([c2 res] & -> & Hi & Hres). cbn [bind fst snd] in *.
    destruct res as [|r3 ds3 nf]; [eexists; split; [reflexivity|split; [exact Hi|exact I]]|].
    destruct Hres as [A3 L3].
    assert (A13 : adv r r3) by adv_chain.
    destruct A3 as [A3a A3b].
    match goal with |- context [if 0 <? ?lo then _ else _] => set (leftover := lo) end.
    destruct (0 <? leftover) eqn:El.
    - destruct (read_cases leftover r3) as [(b & r4 & E4)| ->]; [|cbn [catch bind]; eexists; split; [reflexivity|split; [exact Hi|exact I]]].
      rewrite E4. cbn [catch bind fst snd]. destruct (read_adv _ _ _ _ E4) as ([A4a A4b] & L4 & _).
      eexists; split; [reflexivity|]. split; [exact Hi|]. cbn. destruct A13. split; [split; lia|lia].
    - eexists; split; [reflexivity|]. split; [exact Hi|]. cbn. destruct A13. split; [split; lia|lia].
  Qed.

  Lemma sets_loop_res : forall fuel c r ds nf, Inv c -> rlen r < Z.of_nat fuel ->
    exists x, sets_loop ops im fuel addr c r ds nf = Ok x /\ Inv (fst x) /\
      match snd x with Some (ds', _) => len ds' <= len ds + rlen r | None => True end.
  Proof.
    induction fuel as [|k IH]; intros c r ds nf Hc Hf; [pose proof (rlen_nonneg r); lia|].
    cbn [sets_loop]. destruct (4 <? rlen r).
    2: { eexists; split; [reflexivity|]. split; [exact Hc|]. cbn. pose proof (rlen_nonneg r). lia. }
    destruct (decode_set_res c r ds Hc) as ([c1 res] & -> & Hi & Hres). cbn [bind fst snd] in *.
    destruct res as [|r1 ds1 e]; [eexists; split; [reflexivity|split; [exact Hi|exact I]]|].
    destruct Hres as (A & L4 & Ld).
    destruct (IH c1 r1 ds1 (if e then nf + 1 else nf) Hi ltac:(lia)) as (x & Ex & Hix & Hx).
    exists x; split; [exact Ex|]. split; [exact Hix|]. destruct (snd x) as [[ds' n']|]; [|exact I]. lia.
  Qed.

  (* one datagram: never Panic, never Hang, invariant kept, records <= octets *)
  Theorem ipfix_decode_safe c p : Inv c ->
    exists c' d, ipfix_decode ops im hl c addr p = Ok (c', d) /\ Inv c' /\
      match d with DMsg m _ => len (i_sets m) <= len p | DFail => True end.
  Proof.
    intros Hc. unfold ipfix_decode.
    pose proof (read_layout_safe hl (new_reader p)) as [Hs1 Hs2].
    destruct (read_layout hl (new_reader p)) as [[hv r]| | |] eqn:Eh; cbn [catch bind]; try congruence.
    2: { do 2 eexists; split; [reflexivity|split; [exact Hc|exact I]]. }
    destruct (negb (field_get "Version" (named_fields hl hv) =? 10)).
    { do 2 eexists; split; [reflexivity|split; [exact Hc|exact I]]. }
    destruct (sets_loop_res (fuel_of r) c r [] 0 Hc (fuel_of_ok r)) as ([c1 o] & -> & Hi & Ho).
    cbn [bind fst snd] in *. destruct o as [[ds nf]|].
    - do 2 eexists; split; [reflexivity|]. split; [exact Hi|]. cbn [i_sets].
      rewrite len_nil in Ho. apply read_layout_shrinks in Eh. unfold rlen at 2 in Eh. cbn in Eh. lia.
    - do 2 eexists; split; [reflexivity|split; [exact Hi|exact I]].
  Qed.
End Safety.
