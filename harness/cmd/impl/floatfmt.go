package main

import "strconv"

func formatFloat(f float64, bits int) string { return strconv.FormatFloat(f, 'E', -1, bits) }
