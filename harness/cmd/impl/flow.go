package main

import (
	"bytes"
	"encoding/hex"
	"encoding/json"
	"fmt"
	"math"
	"net"
	"reflect"
	"runtime"
	"strings"
	"sync"
	"time"

	"github.com/EdgeCast/vflow/ipfix"
	netflow5 "github.com/EdgeCast/vflow/netflow/v5"
	netflow9 "github.com/EdgeCast/vflow/netflow/v9"
	"github.com/EdgeCast/vflow/sflow"
)

func init() {
	commands["ipfixh"] = cmdIpfixH
	commands["floatfmt"] = cmdFloatFmt
	commands["nf9h"] = cmdNf9H
}

var extOnce sync.Once

// the enterprise elements both sides install for the correspondence runs (Model/Driver.v test_ext_elements)
func installTestElements() {
	extOnce.Do(func() {
		add := func(pen uint32, id uint16, name string, t ipfix.FieldType) {
			ipfix.InfoModel[ipfix.ElementKey{EnterpriseNo: pen, ElementID: id}] = ipfix.InfoElementEntry{FieldID: id, Name: name, Type: t}
		}
		add(9, 1, "extString", ipfix.String)
		add(9, 2, "extU32", ipfix.Uint32)
		add(9, 3, "extBool", ipfix.Boolean)
		add(9, 4, "extOctets", ipfix.OctetArray)
		add(29305, 0, "extZero", ipfix.Uint16)
		add(29305, 7, "extF64", ipfix.Float64)
		add(4294967295, 32767, "extMax", ipfix.Ipv6Address)
		add(9, 5, "extI8", ipfix.Int8)
		add(9, 6, "extI16", ipfix.Int16)
		add(9, 7, "extI32", ipfix.Int32)
		add(9, 8, "extI64", ipfix.Int64)
		add(9, 9, "extF32", ipfix.Float32)
		add(0, 30001, "ext0I8", ipfix.Int8)
		add(0, 30002, "ext0I16", ipfix.Int16)
		add(0, 30003, "ext0I32", ipfix.Int32)
		add(0, 30004, "ext0I64", ipfix.Int64)
		add(0, 30005, "ext0F32", ipfix.Float32)
	})
}

func showValue(v interface{}) string {
	switch x := v.(type) {
	case bool:
		if x {
			return "b:1"
		}
		return "b:0"
	case uint8:
		return fmt.Sprintf("u8:%d", x)
	case uint16:
		return fmt.Sprintf("u16:%d", x)
	case uint32:
		return fmt.Sprintf("u32:%d", x)
	case uint64:
		return fmt.Sprintf("u64:%d", x)
	case int8:
		return fmt.Sprintf("i8:%d", x)
	case int16:
		return fmt.Sprintf("i16:%d", x)
	case int32:
		return fmt.Sprintf("i32:%d", x)
	case int64:
		return fmt.Sprintf("i64:%d", x)
	case float32:
		return fmt.Sprintf("f32:%d", math.Float32bits(x))
	case float64:
		return fmt.Sprintf("f64:%d", math.Float64bits(x))
	case net.HardwareAddr:
		return "mac:x" + hex.EncodeToString(x)
	case string:
		return "s:x" + hex.EncodeToString([]byte(x))
	case net.IP:
		return "ip:x" + hex.EncodeToString(x)
	case []byte:
		return "raw:x" + hex.EncodeToString(x)
	}
	return fmt.Sprintf("?%T", v)
}

// header fields Name=value in declaration order
func headerFields(v interface{}) string { return structFields(v) }

// exactAddr returns addr with cap == len (what ReadFromUDP / ParseIP deliver)
func exactAddr(b []byte) net.IP {
	a := make([]byte, len(b))
	copy(a, b)
	return net.IP(a)
}

// runs f under a watchdog: a datagram that does not finish within the limit is reported as HANG.
// (the goroutine is abandoned; the case line ends there)
func watchdog(limit time.Duration, f func() string) string {
	ch := make(chan string, 1)
	go func() {
		defer func() {
			if r := recover(); r != nil {
				ch <- "PANIC"
			}
		}()
		ch <- f()
	}()
	select {
	case s := <-ch:
		return s
	case <-time.After(limit):
		return "HANG"
	}
}

// ipfixh <addr> <payload> <addr> <payload> ... : the history is decoded in order by the real
// ipfix.Decode against one fresh real MemCache; per datagram the worker's publish decision is applied
func cmdIpfixH(args []tok) string {
	installTestElements()
	mc := ipfix.GetCache("")
	var outs []string
	for i := 0; i+1 < len(args); i += 2 {
		addr, p := exactAddr(args[i].b), guarded(args[i+1].b)
		res := watchdog(3*time.Second, func() string {
			d := ipfix.NewDecoder(addr, p)
			m, err := d.Decode(mc)
			if m == nil {
				return "FAIL"
			}
			nf := 0
			if err != nil {
				nf = strings.Count(err.Error(), "\n- ")
				if nf == 0 {
					nf = 1
				}
			}
			var sets []string
			for _, rec := range m.DataSets {
				var fs []string
				for _, f := range rec {
					fs = append(fs, fmt.Sprintf("%d/%d/%s", f.ID, f.EnterpriseNo, showValue(f.Value)))
				}
				sets = append(sets, strings.Join(fs, ","))
			}
			j := "-"
			if len(m.DataSets) > 0 { // vflow/ipfix.go: publish only when len(DataSets) > 0
				b, err := m.JSONMarshal(new(bytes.Buffer))
				if err != nil {
					j = "MARSHAL-ERROR"
				} else {
					j = "x" + hex.EncodeToString(b)
				}
			}
			return fmt.Sprintf("MSG nf=%d H:%s N:%d S:%s J:%s", nf, headerFields(m.Header), len(m.DataSets), strings.Join(sets, ";"), j)
		})
		outs = append(outs, res)
		if res == "PANIC" || res == "HANG" {
			break
		}
	}
	return strings.Join(outs, " ## ")
}

// floatfmt <32|64> <bits> : strconv.FormatFloat as the marshallers call it
func cmdFloatFmt(args []tok) string {
	if len(args) < 2 {
		return "BADARGS"
	}
	var bits uint64
	if args[1].kind == 'b' {
		for _, x := range args[1].b {
			bits = bits<<8 | uint64(x)
		}
	} else {
		bits = uint64(args[1].i)
	}
	if args[0].i == 32 {
		return formatFloat(float64(math.Float32frombits(uint32(bits))), 32)
	}
	return formatFloat(math.Float64frombits(bits), 64)
}

var _ = reflect.TypeOf

// nf9h <addr> <payload> ... : as ipfixh, with the real netflow9.Decode and one fresh real MemCache
func cmdNf9H(args []tok) string {
	installTestElements()
	mc := netflow9.GetCache("")
	var outs []string
	for i := 0; i+1 < len(args); i += 2 {
		addr, p := exactAddr(args[i].b), guarded(args[i+1].b)
		res := watchdog(3*time.Second, func() string {
			d := netflow9.NewDecoder(addr, p)
			m, err := d.Decode(mc)
			if m == nil {
				return "FAIL"
			}
			nf := 0
			if err != nil {
				nf = strings.Count(err.Error(), "\n- ")
				if nf == 0 {
					nf = 1
				}
			}
			var sets []string
			for _, rec := range m.DataSets {
				var fs []string
				for _, f := range rec {
					fs = append(fs, fmt.Sprintf("%d/0/%s", f.ID, showValue(f.Value)))
				}
				sets = append(sets, strings.Join(fs, ","))
			}
			j := "-"
			if m.DataSets != nil { // vflow/netflow_v9.go: publish only when DataSets != nil
				b, err := m.JSONMarshal(new(bytes.Buffer))
				if err != nil {
					j = "MARSHAL-ERROR"
				} else {
					j = "x" + hex.EncodeToString(b)
				}
			}
			return fmt.Sprintf("MSG nf=%d H:%s N:%d S:%s J:%s", nf, headerFields(m.Header), len(m.DataSets), strings.Join(sets, ";"), j)
		})
		outs = append(outs, res)
		if res == "PANIC" || res == "HANG" {
			break
		}
	}
	return strings.Join(outs, " ## ")
}

// measure <ipfix|nf9|nf5> <addr> <payload> ... : work and memory of processing each datagram of the
// history (decode + JSON encode, as the worker does): R:<records> A:<bytes allocated> T:<ms> L:<octets>
func init() { commands["measure"] = cmdMeasure }

func cmdMeasure(args []tok) string {
	if len(args) < 1 {
		return "BADARGS"
	}
	installTestElements()
	proto := args[0].s
	mc := ipfix.GetCache("")
	mc9 := netflow9.GetCache("")
	var outs []string
	for i := 1; i+1 < len(args); i += 2 {
		addr, p := exactAddr(args[i].b), guarded(args[i+1].b)
		res := watchdog(3*time.Second, func() string {
			var ms0, ms1 runtime.MemStats
			runtime.ReadMemStats(&ms0)
			t0 := time.Now()
			recs, fields := 0, 0
			switch proto {
			case "ipfix":
				m, _ := ipfix.NewDecoder(addr, p).Decode(mc)
				if m != nil {
					recs = len(m.DataSets)
					for _, r := range m.DataSets {
						fields += len(r)
					}
					if recs > 0 {
						m.JSONMarshal(new(bytes.Buffer))
					}
				}
			case "nf9":
				m, _ := netflow9.NewDecoder(addr, p).Decode(mc9)
				if m != nil {
					recs = len(m.DataSets)
					for _, r := range m.DataSets {
						fields += len(r)
					}
					if m.DataSets != nil {
						m.JSONMarshal(new(bytes.Buffer))
					}
				}
			case "sflow":
				d := sflow.NewSFDecoder(bytes.NewReader(p), nil)
				dg, err := d.SFDecode()
				if err == nil && dg != nil {
					recs = len(dg.Samples) + len(dg.Counters)
					if recs > 0 {
						json.Marshal(dg)
					}
				}
			case "nf5":
				m, _ := netflow5.NewDecoder(addr, p).Decode()
				if m != nil {
					recs = len(m.Flows)
					if m.Flows != nil {
						m.JSONMarshal(new(bytes.Buffer))
					}
				}
			}
			el := time.Since(t0)
			runtime.ReadMemStats(&ms1)
			return fmt.Sprintf("R:%d A:%d T:%d L:%d F:%d", recs, ms1.TotalAlloc-ms0.TotalAlloc, el.Milliseconds(), len(p), fields)
		})
		outs = append(outs, res)
		if res == "PANIC" || res == "HANG" {
			break
		}
	}
	return strings.Join(outs, " ## ")
}
