// impl runs the REAL vflow code on case lines (same line format as the extracted Coq model's
// driver) and prints one canonical result line per case.
package main

import (
	"bufio"
	"encoding/hex"
	"fmt"
	"os"
	"strconv"
	"strings"
)

type tok struct {
	kind byte // 'b' bytes, 'i' int, 's' symbol
	b    []byte
	i    int64
	s    string
}

func parseTok(s string) tok {
	if len(s) >= 1 && s[0] == 'x' && len(s)%2 == 1 {
		if b, err := hex.DecodeString(s[1:]); err == nil {
			return tok{kind: 'b', b: b}
		}
	}
	if len(s) <= 19 {
		if v, err := strconv.ParseInt(s, 10, 64); err == nil {
			return tok{kind: 'i', i: v}
		}
	}
	return tok{kind: 's', s: s}
}

// guarded copies b into the middle of a larger backing array filled with 0xAA so that
// cap(result) > len(result): a read past len() that stays within cap() shows up as stale 0xAA
// octets instead of going unnoticed.
func guarded(b []byte) []byte {
	back := make([]byte, len(b)+64)
	for i := range back {
		back[i] = 0xAA
	}
	copy(back[16:], b)
	return back[16 : 16+len(b)]
}

var commands = map[string]func(args []tok) string{}

func runCase(cmd string, args []tok) (out string) {
	defer func() {
		if r := recover(); r != nil {
			out = "PANIC"
			if os.Getenv("VERIF_DEBUG") != "" {
				out += fmt.Sprintf(" %v", r)
			}
		}
	}()
	f, ok := commands[cmd]
	if !ok {
		return "UNKNOWN-COMMAND"
	}
	return f(args)
}

func main() {
	in := bufio.NewReaderSize(os.Stdin, 1<<20)
	out := bufio.NewWriterSize(os.Stdout, 1<<20)
	defer out.Flush()
	for {
		line, err := in.ReadString('\n')
		line = strings.TrimRight(line, "\r\n")
		if line != "" || err == nil {
			fs := strings.Fields(line)
			if len(fs) == 0 {
				fmt.Fprintln(out)
			} else {
				args := make([]tok, 0, len(fs)-1)
				for _, s := range fs[1:] {
					args = append(args, parseTok(s))
				}
				fmt.Fprintln(out, runCase(fs[0], args))
			}
		}
		if err != nil {
			break
		}
	}
}
