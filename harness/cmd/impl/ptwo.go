package main

import (
	"bufio"
	"fmt"
	"io/ioutil"
	"log"
	"net"
	"os"
	"path/filepath"
	"strings"
	"sync"
	"time"

	"github.com/EdgeCast/vflow/producer"
)

func init() { commands["ptwo"] = cmdPTwo }

// ptwo <protoA> <protoB> <retryA> <retryB> A x<msg>... B x<msg>... : TWO raw-socket producers in one process (vflow itself runs
// one per protocol), each made by producer.NewProducer with its own configuration file and its own localhost sink.  A is
// started, then B; then the messages are handed over alternately (2 ms apart).  Each sink must get its own producer's messages.
//   A <x line>... | B <x line>... | EC=<a>,<b>
func cmdPTwo(args []tok) string {
	if len(args) < 6 {
		return "BADARGS"
	}
	protos := []string{args[0].s, args[1].s}
	retries := []int{int(args[2].i), int(args[3].i)}
	_, rest := splitAt(args[4:], "A")
	am, bm := splitAt(rest, "B")
	var msgs [2][][]byte
	for i, l := range [][]tok{am, bm} {
		for _, m := range l {
			if m.kind == 'b' {
				msgs[i] = append(msgs[i], m.b)
			}
		}
	}
	dir, _ := ioutil.TempDir("", "verif-ptwo")
	defer os.RemoveAll(dir)
	var mu sync.Mutex
	var lines [2][]string
	var closers []func()
	var ecs [2]uint64
	var prods [2]*producer.Producer
	done := make(chan error, 2)
	for i := 0; i < 2; i++ {
		i := i
		var addr string
		if protos[i] == "udp" {
			pc, err := net.ListenPacket("udp", "127.0.0.1:0")
			if err != nil {
				return "SINK-ERROR " + err.Error()
			}
			if uc, ok := pc.(*net.UDPConn); ok {
				uc.SetReadBuffer(1 << 24)
			}
			addr = pc.LocalAddr().String()
			closers = append(closers, func() { pc.Close() })
			go func() {
				buf := make([]byte, 1<<17)
				for {
					n, _, err := pc.ReadFrom(buf)
					if err != nil {
						return
					}
					mu.Lock()
					lines[i] = append(lines[i], fmt.Sprintf("x%x", buf[:n]))
					mu.Unlock()
				}
			}()
		} else {
			ln, err := net.Listen("tcp", "127.0.0.1:0")
			if err != nil {
				return "SINK-ERROR " + err.Error()
			}
			addr = ln.Addr().String()
			closers = append(closers, func() { ln.Close() })
			go func() {
				for {
					c, err := ln.Accept()
					if err != nil {
						return
					}
					go func() {
						r := bufio.NewReaderSize(c, 1<<20)
						for {
							l, err := r.ReadBytes('\n')
							if len(l) > 0 {
								mu.Lock()
								lines[i] = append(lines[i], fmt.Sprintf("x%x", l))
								mu.Unlock()
							}
							if err != nil {
								return
							}
						}
					}()
				}
			}()
		}
		cfg := filepath.Join(dir, fmt.Sprintf("mq%d.conf", i))
		ioutil.WriteFile(cfg, []byte(fmt.Sprintf("url: %s\nprotocol: %s\nretry-max: %d\n", addr, protos[i], retries[i])), 0644)
		p := producer.NewProducer("rawSocket")
		p.MQConfigFile = cfg
		p.MQErrorCount = &ecs[i]
		p.Logger = log.New(ioutil.Discard, "", 0)
		p.Chan = make(chan []byte, 1000)
		p.Topic = fmt.Sprintf("t%d", i)
		prods[i] = p
		go func() {
			defer func() {
				if r := recover(); r != nil {
					done <- fmt.Errorf("PANIC %v", r)
				}
			}()
			done <- p.Run()
		}()
		time.Sleep(150 * time.Millisecond) // this producer is set up before the next one starts
	}
	defer func() {
		for _, c := range closers {
			c()
		}
	}()
	for j := 0; j < len(msgs[0]) || j < len(msgs[1]); j++ {
		for i := 0; i < 2; i++ {
			if j < len(msgs[i]) {
				prods[i].Chan <- append([]byte{}, msgs[i][j]...)
			}
		}
		time.Sleep(2 * time.Millisecond)
	}
	close(prods[0].Chan)
	close(prods[1].Chan)
	run := ""
	for i := 0; i < 2; i++ {
		select {
		case err := <-done:
			if err != nil {
				run += " | RUN=" + strings.ReplaceAll(err.Error(), " ", "_")
			}
		case <-time.After(20 * time.Second):
			run += " | RUN=HANG"
		}
	}
	prev, same := -1, 0
	for k := 0; k < 100 && same < 8; k++ {
		time.Sleep(20 * time.Millisecond)
		mu.Lock()
		n := len(lines[0]) + len(lines[1])
		mu.Unlock()
		if n == prev {
			same++
		} else {
			same = 0
		}
		prev = n
	}
	mu.Lock()
	defer mu.Unlock()
	return "A " + strings.Join(lines[0], " ") + " | B " + strings.Join(lines[1], " ") + fmt.Sprintf(" | EC=%d,%d", ecs[0], ecs[1]) + run
}
