package main

import (
	"encoding/hex"
	"net"
	"strconv"
	"strings"

	"github.com/EdgeCast/vflow/ipfix"
	netflow5 "github.com/EdgeCast/vflow/netflow/v5"
	netflow9 "github.com/EdgeCast/vflow/netflow/v9"
	"github.com/EdgeCast/vflow/reader"
)

func init() { commands["reader"] = cmdReader }

// reader x<buf> op...   ops: u8 u16 u32 u64 len cnt pu16 | r <n> | p <n>
// prints per op  <result>/<Len()>/<ReadCount()>  with result = decimal | x<hex> | E ;
// a panicking op prints PANIC for that op and ends the line.
func cmdReader(args []tok) string {
	if len(args) < 1 || args[0].kind != 'b' {
		return "BADARGS"
	}
	// the reader is a library type used by the three flow decoders: whatever they leave behind in the process (recycled
	// objects, package state) is there when this reader is made
	warmDecoders()
	r := reader.NewReader(guarded(args[0].b))
	var outs []string
	ops := args[1:]
	for i := 0; i < len(ops); i++ {
		var res string
		panicked := func() (p bool) {
			defer func() {
				if recover() != nil {
					p = true
				}
			}()
			o := ops[i]
			switch {
			case o.kind == 's' && o.s == "u8":
				v, err := r.Uint8()
				res = uintRes(uint64(v), err)
			case o.kind == 's' && o.s == "u16":
				v, err := r.Uint16()
				res = uintRes(uint64(v), err)
			case o.kind == 's' && o.s == "u32":
				v, err := r.Uint32()
				res = uintRes(uint64(v), err)
			case o.kind == 's' && o.s == "u64":
				v, err := r.Uint64()
				res = uintRes(v, err)
			case o.kind == 's' && o.s == "pu16":
				v, err := r.PeekUint16()
				res = uintRes(uint64(v), err)
			case o.kind == 's' && o.s == "len":
				res = strconv.Itoa(r.Len())
			case o.kind == 's' && o.s == "cnt":
				res = strconv.Itoa(r.ReadCount())
			case o.kind == 's' && (o.s == "r" || o.s == "p") && i+1 < len(ops) && ops[i+1].kind == 'i':
				n := int(ops[i+1].i)
				i++
				var b []byte
				var err error
				if o.s == "r" {
					b, err = r.Read(n)
				} else {
					b, err = r.Peek(n)
				}
				if err != nil {
					res = "E"
				} else {
					res = "x" + hex.EncodeToString(b)
				}
			default:
				res = "?"
			}
			return false
		}()
		if panicked {
			outs = append(outs, "PANIC")
			break
		}
		if res == "?" {
			continue
		}
		outs = append(outs, res+"/"+strconv.Itoa(r.Len())+"/"+strconv.Itoa(r.ReadCount()))
	}
	return strings.Join(outs, " ")
}

// warmDecoders runs each decoder that uses the reader once on a small well-formed datagram
func warmDecoders() {
	defer func() { recover() }()
	ip := net.IPv4(192, 0, 2, 1).To4()
	v5 := make([]byte, 24+48)
	v5[1], v5[3] = 5, 1
	netflow5.NewDecoder(ip, v5).Decode()
	tpl10 := []byte{0, 10, 0, 32, 0, 0, 0, 0, 0, 0, 0, 1, 0, 0, 0, 1, 0, 2, 0, 16, 1, 0, 0, 2, 0, 8, 0, 4, 0, 12, 0, 4}
	ipfix.NewDecoder(ip, tpl10).Decode(warmCache10)
	tpl9 := []byte{0, 9, 0, 1, 0, 0, 0, 0, 0, 0, 0, 0, 0, 0, 0, 1, 0, 0, 0, 1, 0, 0, 0, 16, 1, 0, 0, 2, 0, 8, 0, 4, 0, 12, 0, 4}
	netflow9.NewDecoder(ip, tpl9).Decode(warmCache9)
}

var warmCache10 = ipfix.GetCache("/nonexistent/verif-warm10")
var warmCache9 = netflow9.GetCache("/nonexistent/verif-warm9")

func uintRes(v uint64, err error) string {
	if err != nil {
		return "E"
	}
	return strconv.FormatUint(v, 10)
}
