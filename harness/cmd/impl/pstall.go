package main

import (
	"crypto/sha1"
	"encoding/hex"
	"fmt"
	"io/ioutil"
	"log"
	"net"
	"os"
	"path/filepath"
	"strconv"
	"strings"
	"sync"
	"sync/atomic"
	"time"

	"github.com/EdgeCast/vflow/producer"
)

func init() { commands["pstall"] = cmdPStall }

// genMsg: the j-th synthetic message of a run (the Python side generates the same octets): a JSON object whose pad is a
// run of distinct 8-hex-digit counters, so that any fragment of it is recognisably NOT the start of a message; every 64th
// separator is a '%'.
func genMsg(seed, j, size int64) []byte {
	var b strings.Builder
	fmt.Fprintf(&b, "{\"seq\":%d,\"pad\":\"", j)
	x := uint32(uint64(seed)*2654435761 + uint64(j)*40503)
	n := (size + (j*37)%1000) / 9
	for i := int64(0); i < n; i++ {
		fmt.Fprintf(&b, "%08x", x+uint32(i))
		if i%64 == 7 {
			b.WriteByte('%')
		} else {
			b.WriteByte('.')
		}
	}
	b.WriteString("\"}")
	return []byte(b.String())
}

const trailers = 8

func digest(l []byte) string {
	h := sha1.Sum(l)
	head := l
	if len(head) > 24 {
		head = head[:24]
	}
	return fmt.Sprintf("%d:%s:%s", len(l), hex.EncodeToString(h[:8]), hex.EncodeToString(head))
}

// pstall <retry-max> <seed> <nmsgs> <size> <script token>...
// The REAL raw-socket producer (tcp) against a SCRIPTED localhost sink.  Script tokens, executed in order by the sink:
//   R<n>  read until n more complete lines have arrived      B<n>  read n more octets
//   S<ms> do not read for ms milliseconds (the connection stays open: backpressure)
//   X     reset the connection (RST) and accept the next     F     close it (FIN) and accept the next
//   D<ms> stop listening for ms milliseconds (only after X / F)
// after the script the sink reads everything that arrives.  All messages are handed to the producer at once; when the sink is
// through its script, 8 more follow 30 ms apart.
// Output: C<k> <len:sha1/8:head>... [P<len:sha1/8:head>] per connection (P = octets after the last newline when the connection
// ended), then EC= CONNS= [RUN=].
func cmdPStall(args []tok) string {
	if len(args) < 4 {
		return "BADARGS"
	}
	retry, seed, n, size := int(args[0].i), args[1].i, args[2].i, args[3].i
	var script []string
	var longest time.Duration
	for _, a := range args[4:] {
		if a.kind != 's' || len(a.s) < 1 {
			return "BADARGS"
		}
		script = append(script, a.s)
		if a.s[0] == 'S' || a.s[0] == 'D' {
			v, _ := strconv.Atoi(a.s[1:])
			longest += time.Duration(v) * time.Millisecond
		}
	}
	dir, _ := ioutil.TempDir("", "verif-pstall")
	defer os.RemoveAll(dir)

	var mu sync.Mutex
	var conns [][]string // per connection: digests of complete lines, then optionally the partial tail
	octets := int64(0)
	stalling := int32(0)
	ln, err := net.Listen("tcp", "127.0.0.1:0")
	if err != nil {
		return "SINK-ERROR " + err.Error()
	}
	addr := ln.Addr().String()
	stop := make(chan struct{})
	scriptDone := make(chan struct{})
	var doneOnce sync.Once
	var wg sync.WaitGroup
	wg.Add(1)
	go func() {
		defer wg.Done()
		si := 0
		for {
			c, err := ln.Accept()
			if err != nil {
				return
			}
			mu.Lock()
			conns = append(conns, nil)
			ci := len(conns) - 1
			mu.Unlock()
			var pending []byte
			buf := make([]byte, 1<<16)
			lines := 0
			// read once (with a short deadline); returns false when the connection is finished
			readSome := func(max int) (int, bool) {
				if max > len(buf) {
					max = len(buf)
				}
				c.SetReadDeadline(time.Now().Add(50 * time.Millisecond))
				k, err := c.Read(buf[:max])
				if k > 0 {
					atomic.AddInt64(&octets, int64(k))
					pending = append(pending, buf[:k]...)
					for {
						i := -1
						for p, ch := range pending {
							if ch == '\n' {
								i = p
								break
							}
						}
						if i < 0 {
							break
						}
						mu.Lock()
						conns[ci] = append(conns[ci], digest(pending[:i+1]))
						mu.Unlock()
						lines++
						pending = append([]byte{}, pending[i+1:]...)
					}
				}
				if err != nil {
					if ne, ok := err.(net.Error); ok && ne.Timeout() {
						return k, true
					}
					return k, false
				}
				return k, true
			}
			stopped := func() bool {
				select {
				case <-stop:
					return true
				default:
					return false
				}
			}
			finish := func() {
				if len(pending) > 0 {
					mu.Lock()
					conns[ci] = append(conns[ci], "P"+digest(pending))
					mu.Unlock()
				}
			}
			alive, next := true, false
			if si >= len(script) {
				doneOnce.Do(func() { close(scriptDone) })
			}
			for alive && !next && si < len(script) {
				s := script[si]
				si++
				v, _ := strconv.Atoi(s[1:])
				switch s[0] {
				case 'R':
					want := lines + v
					for alive && lines < want && !stopped() {
						_, alive = readSome(1 << 16)
					}
				case 'B':
					got := 0
					for alive && got < v && !stopped() {
						var k int
						k, alive = readSome(v - got)
						got += k
					}
				case 'S':
					atomic.StoreInt32(&stalling, 1)
					t := time.After(time.Duration(v) * time.Millisecond)
					select {
					case <-t:
					case <-stop:
					}
					atomic.StoreInt32(&stalling, 0)
				case 'X', 'F':
					if tc, ok := c.(*net.TCPConn); ok && s[0] == 'X' {
						tc.SetLinger(0)
					}
					finish()
					c.Close()
					next = true
					if si < len(script) && script[si][0] == 'D' {
						d, _ := strconv.Atoi(script[si][1:])
						si++
						ln.Close()
						time.Sleep(time.Duration(d) * time.Millisecond)
						for {
							ln, err = net.Listen("tcp", addr)
							if err == nil {
								break
							}
							time.Sleep(5 * time.Millisecond)
						}
					}
				}
			}
			if si >= len(script) {
				doneOnce.Do(func() { close(scriptDone) })
			}
			if next {
				continue
			}
			for alive && !stopped() {
				_, alive = readSome(1 << 16)
			}
			finish()
			c.Close()
			if stopped() {
				return
			}
		}
	}()
	defer func() { ln.Close() }()

	cfg := filepath.Join(dir, "mq.conf")
	ioutil.WriteFile(cfg, []byte(fmt.Sprintf("url: %s\nprotocol: tcp\nretry-max: %d\n", addr, retry)), 0644)
	var ec uint64
	p := producer.NewProducer("rawSocket")
	p.MQConfigFile = cfg
	p.MQErrorCount = &ec
	p.Logger = log.New(ioutil.Discard, "", 0)
	p.Chan = make(chan []byte, 1000)
	p.Topic = "t"
	done := make(chan error, 1)
	go func() {
		defer func() {
			if r := recover(); r != nil {
				done <- fmt.Errorf("PANIC %v", r)
			}
		}()
		done <- p.Run()
	}()
	for j := int64(0); j < n; j++ {
		p.Chan <- genMsg(seed, j, size)
	}
	// once the sink has been through its script: a few more messages, paced, so that there is something to resume with
	select {
	case <-scriptDone:
	case <-time.After(5*time.Second + 2*longest):
	}
	for j := n; j < n+trailers; j++ {
		p.Chan <- genMsg(seed, j, size)
		time.Sleep(30 * time.Millisecond)
	}
	close(p.Chan)
	var runErr error
	select {
	case runErr = <-done:
	case <-time.After(30*time.Second + 3*longest):
		runErr = fmt.Errorf("HANG")
	}
	// let the sink drain what is in flight
	prev, same := int64(-1), 0
	for i := 0; i < 400+int(longest/(10*time.Millisecond)) && same < 10; i++ {
		time.Sleep(20 * time.Millisecond)
		o := atomic.LoadInt64(&octets)
		if o == prev && atomic.LoadInt32(&stalling) == 0 {
			same++
		} else {
			same = 0
		}
		prev = o
	}
	close(stop)
	ln.Close()
	wg.Wait()
	mu.Lock()
	defer mu.Unlock()
	var parts []string
	for i, c := range conns {
		parts = append(parts, fmt.Sprintf("C%d %s", i+1, strings.Join(c, " ")))
	}
	res := strings.Join(parts, " | ") + fmt.Sprintf(" | EC=%d | CONNS=%d", atomic.LoadUint64(&ec), len(conns))
	if runErr != nil {
		res += " | RUN=" + strings.ReplaceAll(runErr.Error(), " ", "_")
	}
	return res
}
