package main

import (
	"bufio"
	"context"
	"encoding/binary"
	"fmt"
	"io/ioutil"
	"log"
	"net"
	"os"
	"path/filepath"
	"strings"
	"sync"
	"sync/atomic"
	"time"

	"github.com/EdgeCast/vflow/producer"
)

func init() { commands["pmove"] = cmdPMove }

const sinkName = "sink.vflow.test."

// a DNS responder for this process: sinkName has the A records 127.0.0.1 and 127.0.0.2 (in that order), nothing else exists
func startDNS() (string, func(), error) {
	pc, err := net.ListenPacket("udp", "127.0.0.1:0")
	if err != nil {
		return "", nil, err
	}
	go func() {
		buf := make([]byte, 1500)
		for {
			n, from, err := pc.ReadFrom(buf)
			if err != nil {
				return
			}
			if n < 12 {
				continue
			}
			q := buf[:n]
			// question: labels, qtype, qclass
			i, name := 12, ""
			for i < n && q[i] != 0 {
				l := int(q[i])
				if i+1+l > n {
					break
				}
				name += strings.ToLower(string(q[i+1:i+1+l])) + "."
				i += 1 + l
			}
			if i+5 > n {
				continue
			}
			qtype := binary.BigEndian.Uint16(q[i+1:])
			qend := i + 5
			resp := make([]byte, 0, 128)
			resp = append(resp, q[0], q[1], 0x81, 0x80, 0, 1, 0, 0, 0, 0, 0, 0)
			resp = append(resp, q[12:qend]...)
			if name == sinkName && qtype == 1 {
				for _, a := range [][]byte{{127, 0, 0, 1}, {127, 0, 0, 2}} {
					resp = append(resp, 0xc0, 0x0c, 0, 1, 0, 1, 0, 0, 0, 0, 0, 4)
					resp = append(resp, a...)
					resp[7]++
				}
			} else if name != sinkName {
				resp[3] = 0x83 // NXDOMAIN
			}
			pc.WriteTo(resp, from)
		}
	}()
	return pc.LocalAddr().String(), func() { pc.Close() }, nil
}

// pmove <retry-max> <gapMs> M x<msg>... : the REAL raw-socket producer (tcp) configured with a HOST NAME as its url.  The name has two
// addresses; the sink first listens on the first (127.0.0.1), receives a third of the messages, then goes away (FIN) and comes
// back under the same name on the OTHER address only (127.0.0.2, same port): a standby taking over.  Messages are handed over
// gapMs apart.   LINES <x line>... | EC=<MQErrorCount> | MOVED_AFTER=<lines the first sink got>
func cmdPMove(args []tok) string {
	if len(args) < 3 {
		return "BADARGS"
	}
	retry, gap := int(args[0].i), time.Duration(args[1].i)*time.Millisecond
	_, ms := splitAt(args[2:], "M")
	var msgs [][]byte
	for _, m := range ms {
		if m.kind == 'b' {
			msgs = append(msgs, m.b)
		}
	}
	dns, stopDNS, err := startDNS()
	if err != nil {
		return "SINK-ERROR " + err.Error()
	}
	defer stopDNS()
	old := net.DefaultResolver
	net.DefaultResolver = &net.Resolver{PreferGo: true, Dial: func(ctx context.Context, network, address string) (net.Conn, error) {
		var d net.Dialer
		return d.DialContext(ctx, "udp", dns)
	}}
	defer func() { net.DefaultResolver = old }()

	var mu sync.Mutex
	var lines []string
	var got1 int32
	serve := func(ln net.Listener, limit int) {
		for {
			c, err := ln.Accept()
			if err != nil {
				return
			}
			r := bufio.NewReaderSize(c, 1<<20)
			n := 0
			for limit < 0 || n < limit {
				l, err := r.ReadBytes('\n')
				if err != nil {
					break
				}
				mu.Lock()
				lines = append(lines, "x"+fmt.Sprintf("%x", l))
				mu.Unlock()
				n++
				if limit >= 0 {
					atomic.AddInt32(&got1, 1)
				}
			}
			c.Close()
			if limit >= 0 && n >= limit {
				return
			}
		}
	}
	ln1, err := net.Listen("tcp", "127.0.0.1:0")
	if err != nil {
		return "SINK-ERROR " + err.Error()
	}
	_, port, _ := net.SplitHostPort(ln1.Addr().String())
	first := len(msgs) / 3
	if first < 1 {
		first = 1
	}
	moved := make(chan string, 1)
	var ln2 net.Listener
	go func() {
		serve(ln1, first)
		ln1.Close()
		// the standby: same name, same port, the other address
		var err error
		for i := 0; i < 100; i++ {
			ln2, err = net.Listen("tcp", "127.0.0.2:"+port)
			if err == nil {
				break
			}
			time.Sleep(10 * time.Millisecond)
		}
		if err != nil {
			moved <- "SINK-ERROR " + err.Error()
			return
		}
		moved <- ""
		serve(ln2, -1)
	}()

	dir, _ := ioutil.TempDir("", "verif-pmove")
	defer os.RemoveAll(dir)
	cfg := filepath.Join(dir, "mq.conf")
	ioutil.WriteFile(cfg, []byte(fmt.Sprintf("url: \"%s:%s\"\nprotocol: tcp\nretry-max: %d\n", sinkName, port, retry)), 0644)
	var ec uint64
	p := producer.NewProducer("rawSocket")
	p.MQConfigFile = cfg
	p.MQErrorCount = &ec
	p.Logger = log.New(ioutil.Discard, "", 0)
	p.Chan = make(chan []byte, 1000)
	p.Topic = "t"
	done := make(chan error, 1)
	go func() {
		defer func() {
			if r := recover(); r != nil {
				done <- fmt.Errorf("PANIC %v", r)
			}
		}()
		done <- p.Run()
	}()
	sinkErr := ""
	for i, m := range msgs {
		if i == first {
			// the first sink has what it is going to get; wait for the standby to be up (the gap in the service)
			select {
			case sinkErr = <-moved:
			case <-time.After(10 * time.Second):
				sinkErr = "SINK-ERROR first sink did not get its lines"
			}
			if sinkErr != "" {
				break
			}
		}
		p.Chan <- append([]byte{}, m...)
		time.Sleep(gap)
	}
	close(p.Chan)
	var runErr error
	select {
	case runErr = <-done:
	case <-time.After(30 * time.Second):
		runErr = fmt.Errorf("HANG")
	}
	prev, same := -1, 0
	for i := 0; i < 150 && same < 8; i++ {
		time.Sleep(20 * time.Millisecond)
		mu.Lock()
		n := len(lines)
		mu.Unlock()
		if n == prev {
			same++
		} else {
			same = 0
		}
		prev = n
	}
	if ln2 != nil {
		ln2.Close()
	}
	ln1.Close()
	if sinkErr != "" {
		return sinkErr
	}
	mu.Lock()
	defer mu.Unlock()
	res := "LINES " + strings.Join(lines, " ") + fmt.Sprintf(" | EC=%d | MOVED_AFTER=%d", atomic.LoadUint64(&ec), atomic.LoadInt32(&got1))
	if runErr != nil {
		res += " | RUN=" + strings.ReplaceAll(runErr.Error(), " ", "_")
	}
	return res
}
