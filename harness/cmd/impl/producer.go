package main

import (
	"bufio"
	"encoding/hex"
	"fmt"
	"io"
	"io/ioutil"
	"log"
	"net"
	"os"
	"path/filepath"
	"strings"
	"sync"
	"sync/atomic"
	"time"

	"github.com/EdgeCast/vflow/producer"
)

func init() { commands["producer"] = cmdProducer }

// producer <tcp|udp> <retry-max> <gapMs> F (<closeAfterLines> <mode 0=FIN 1=RST> <downtimeMs>)* M x<msg>...
// Runs the REAL producer.Run (raw socket producer) against a localhost sink that closes / resets the
// connection after the given number of lines and listens again after the downtime.  Messages are
// handed over gapMs apart.  Output:  LINES <x line>... | EC=<MQErrorCount> | CONNS=<n> | TAIL=<1 if the last message arrived>
func cmdProducer(args []tok) string {
	if len(args) < 4 {
		return "BADARGS"
	}
	proto, retry, gap := args[0].s, int(args[1].i), time.Duration(args[2].i)*time.Millisecond
	// tcp@<ms>: the producer has been up (and idle) for that long before the first message is handed over
	var uptime time.Duration
	if i := strings.Index(proto, "@"); i > 0 {
		var ms int
		fmt.Sscanf(proto[i+1:], "%d", &ms)
		proto, uptime = proto[:i], time.Duration(ms)*time.Millisecond
	}
	rest := args[3:]
	_, rest = splitAt(rest, "F")
	fs, ms := splitAt(rest, "M")
	type fault struct {
		after, mode int
		down        time.Duration
	}
	var faults []fault
	for i := 0; i+2 < len(fs); i += 3 {
		faults = append(faults, fault{int(fs[i].i), int(fs[i+1].i), time.Duration(fs[i+2].i) * time.Millisecond})
	}
	var msgs [][]byte
	for _, m := range ms {
		if m.kind == 'b' {
			msgs = append(msgs, m.b)
		}
	}
	dir, _ := ioutil.TempDir("", "verif-producer")
	defer os.RemoveAll(dir)

	var mu sync.Mutex
	var lines []string
	var downs []string
	conns := 0
	record := func(l []byte) {
		mu.Lock()
		lines = append(lines, "x"+hex.EncodeToString(l))
		mu.Unlock()
	}
	var addr string
	stop := make(chan struct{})
	var sinkWG sync.WaitGroup
	if proto == "tcp" {
		ln, err := net.Listen("tcp", "127.0.0.1:0")
		if err != nil {
			return "SINK-ERROR " + err.Error()
		}
		addr = ln.Addr().String()
		sinkWG.Add(1)
		go func() {
			defer sinkWG.Done()
			fi := 0
			for {
				c, err := ln.Accept()
				if err != nil {
					return
				}
				mu.Lock()
				conns++
				mu.Unlock()
				limit := -1
				var f fault
				if fi < len(faults) {
					f = faults[fi]
					limit = f.after
					fi++
				}
				r := bufio.NewReaderSize(c, 1<<20)
				got := 0
				for limit < 0 || got < limit {
					c.SetReadDeadline(time.Now().Add(200 * time.Millisecond))
					l, err := r.ReadBytes('\n')
					if err == nil {
						record(l)
						got++
						continue
					}
					if ne, ok := err.(net.Error); ok && ne.Timeout() {
						if len(l) > 0 {
							// a partial line so far: push it back by remembering it
							rest, _ := ioutil.ReadAll(io.LimitReader(r, 0))
							_ = rest
							r = bufio.NewReaderSize(io.MultiReader(strings.NewReader(string(l)), c), 1<<20)
						}
						select {
						case <-stop:
							c.Close()
							return
						default:
						}
						continue
					}
					if len(l) > 0 {
						record(append([]byte("PARTIAL:"), l...))
					}
					break
				}
				if limit >= 0 && got >= limit {
					if f.mode == 1 {
						if tc, ok := c.(*net.TCPConn); ok {
							tc.SetLinger(0) // RST
						}
					}
					c.Close()
					if f.down > 0 {
						t0 := time.Now()
						ln.Close()
						time.Sleep(f.down)
						for {
							ln, err = net.Listen("tcp", addr)
							if err == nil {
								break
							}
							time.Sleep(5 * time.Millisecond)
						}
						// how long the sink really was unreachable (a loaded machine stretches it)
						mu.Lock()
						downs = append(downs, fmt.Sprintf("%d", time.Since(t0)/time.Millisecond+1))
						mu.Unlock()
					}
					continue
				}
				c.Close()
				select {
				case <-stop:
					return
				default:
				}
			}
		}()
		defer func() { ln.Close() }()
	} else {
		pc, err := net.ListenPacket("udp", "127.0.0.1:0")
		if err != nil {
			return "SINK-ERROR " + err.Error()
		}
		addr = pc.LocalAddr().String()
		if uc, ok := pc.(*net.UDPConn); ok {
			uc.SetReadBuffer(1 << 24)
		}
		sinkWG.Add(1)
		go func() {
			defer sinkWG.Done()
			buf := make([]byte, 1<<17)
			for {
				pc.SetReadDeadline(time.Now().Add(200 * time.Millisecond))
				n, _, err := pc.ReadFrom(buf)
				if err == nil {
					record(append([]byte{}, buf[:n]...))
					continue
				}
				select {
				case <-stop:
					return
				default:
				}
			}
		}()
		defer pc.Close()
	}

	cfg := filepath.Join(dir, "mq.conf")
	ioutil.WriteFile(cfg, []byte(fmt.Sprintf("url: %s\nprotocol: %s\nretry-max: %d\n", addr, proto, retry)), 0644)
	var ec uint64
	p := producer.NewProducer("rawSocket")
	p.MQConfigFile = cfg
	p.MQErrorCount = &ec
	p.Logger = log.New(ioutil.Discard, "", 0)
	p.Chan = make(chan []byte, 1000)
	p.Topic = "t"
	done := make(chan error, 1)
	go func() {
		defer func() {
			if r := recover(); r != nil {
				done <- fmt.Errorf("PANIC %v", r)
			}
		}()
		done <- p.Run()
	}()
	time.Sleep(uptime)
	for _, m := range msgs {
		p.Chan <- append([]byte{}, m...)
		if gap > 0 {
			time.Sleep(gap)
		}
	}
	close(p.Chan)
	var runErr error
	select {
	case runErr = <-done:
	case <-time.After(30 * time.Second):
		runErr = fmt.Errorf("HANG")
	}
	// let the sink drain what is in flight
	prev, same := -1, 0
	for i := 0; i < 150 && same < 8; i++ {
		time.Sleep(20 * time.Millisecond)
		mu.Lock()
		n := len(lines)
		mu.Unlock()
		if n == prev {
			same++
		} else {
			same = 0
		}
		prev = n
	}
	close(stop)
	mu.Lock()
	defer mu.Unlock()
	res := "LINES " + strings.Join(lines, " ") + fmt.Sprintf(" | EC=%d | CONNS=%d", atomic.LoadUint64(&ec), conns)
	if len(downs) > 0 {
		res += " | DOWN=" + strings.Join(downs, ",")
	}
	if runErr != nil {
		res += " | RUN=" + strings.ReplaceAll(runErr.Error(), " ", "_")
	}
	return res
}
