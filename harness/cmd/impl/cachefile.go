package main

import (
	"bytes"
	"encoding/hex"
	"encoding/json"
	"fmt"
	"io/ioutil"
	"os"
	"os/exec"
	"path/filepath"
	"sort"
	"strings"
	"time"

	"github.com/EdgeCast/vflow/ipfix"
	netflow9 "github.com/EdgeCast/vflow/netflow/v9"
)

func init() {
	commands["cachedoc"] = cmdCacheDoc
	commands["cachert"] = cmdCacheRT
	commands["cachebytes"] = cmdCacheDoc
}

// what a cache holds, observed through the exported Dump: sorted "key:tid:nfields:nscope"
func cacheDigest(proto string, dump func(string) error) string {
	dir, _ := ioutil.TempDir("", "verif-cache")
	defer os.RemoveAll(dir)
	f := filepath.Join(dir, "dump")
	if err := dump(f); err != nil {
		return "DUMP-ERROR"
	}
	b, _ := ioutil.ReadFile(f)
	var doc struct {
		Cache []*struct {
			Templates map[string]struct {
				Template struct {
					TemplateID           uint16
					FieldSpecifiers      []json.RawMessage
					ScopeFieldSpecifiers []json.RawMessage
				}
			}
		}
		ShardNo int
	}
	if err := json.Unmarshal(b, &doc); err != nil {
		return "DUMP-UNPARSEABLE"
	}
	var items []string
	for _, s := range doc.Cache {
		if s == nil {
			continue
		}
		for k, v := range s.Templates {
			items = append(items, fmt.Sprintf("%s:%d:%d:%d", k, v.Template.TemplateID, len(v.Template.FieldSpecifiers), len(v.Template.ScopeFieldSpecifiers)))
		}
	}
	sort.Strings(items)
	return strings.Join(items, ",")
}

type flowCache struct {
	proto string
	mc    ipfix.MemCache
	mc9   netflow9.MemCache
}

func (c *flowCache) load(proto, path string) {
	c.proto = proto
	if proto == "ipfix" {
		c.mc = ipfix.GetCache(path)
	} else {
		c.mc9 = netflow9.GetCache(path)
	}
}
func (c *flowCache) dump(path string) error {
	if c.proto == "ipfix" {
		return c.mc.Dump(path)
	}
	return c.mc9.Dump(path)
}

// decodes a history against the cache; same per-datagram output as ipfixh / nf9h but without the JSON text
func (c *flowCache) history(args []tok) string {
	var outs []string
	for i := 0; i+1 < len(args); i += 2 {
		addr, p := exactAddr(args[i].b), guarded(args[i+1].b)
		res := watchdog(3*time.Second, func() string {
			var n, nf int
			var sets []string
			var hdr string
			if c.proto == "ipfix" {
				m, err := ipfix.NewDecoder(addr, p).Decode(c.mc)
				if m == nil {
					return "FAIL"
				}
				if err != nil {
					nf = strings.Count(err.Error(), "\n- ")
					if nf == 0 {
						nf = 1
					}
				}
				for _, rec := range m.DataSets {
					var fs []string
					for _, f := range rec {
						fs = append(fs, fmt.Sprintf("%d/%d/%s", f.ID, f.EnterpriseNo, showValue(f.Value)))
					}
					sets = append(sets, strings.Join(fs, ","))
				}
				n, hdr = len(m.DataSets), headerFields(m.Header)
			} else {
				m, err := netflow9.NewDecoder(addr, p).Decode(c.mc9)
				if m == nil {
					return "FAIL"
				}
				if err != nil {
					nf = strings.Count(err.Error(), "\n- ")
					if nf == 0 {
						nf = 1
					}
				}
				for _, rec := range m.DataSets {
					var fs []string
					for _, f := range rec {
						fs = append(fs, fmt.Sprintf("%d/0/%s", f.ID, showValue(f.Value)))
					}
					sets = append(sets, strings.Join(fs, ","))
				}
				n, hdr = len(m.DataSets), headerFields(m.Header)
			}
			return fmt.Sprintf("MSG nf=%d H:%s N:%d S:%s", nf, hdr, n, strings.Join(sets, ";"))
		})
		outs = append(outs, res)
		if res == "PANIC" || res == "HANG" {
			break
		}
	}
	return strings.Join(outs, " ## ")
}

func splitAt(args []tok, sym string) ([]tok, []tok) {
	for i, a := range args {
		if a.kind == 's' && a.s == sym {
			return args[:i], args[i+1:]
		}
	}
	return args, nil
}

// cachedoc <proto> <file> D <doc tokens, ignored here> H <history>
//   <file> = x<bytes> | ABSENT | EMPTYFILE | DIRECTORY
// loads the file with the real GetCache, prints what the loaded cache holds, then decodes the history with it
func cmdCacheDoc(args []tok) string {
	installTestElements()
	if len(args) < 2 {
		return "BADARGS"
	}
	proto := args[0].s
	dir, _ := ioutil.TempDir("", "verif-cachefile")
	defer os.RemoveAll(dir)
	path := filepath.Join(dir, "cache.json")
	switch {
	case args[1].kind == 'b':
		ioutil.WriteFile(path, args[1].b, 0644)
	case args[1].s == "EMPTYFILE":
		ioutil.WriteFile(path, nil, 0644)
	case args[1].s == "DIRECTORY":
		os.Mkdir(path, 0755)
	}
	_, hist := splitAt(args[2:], "H")
	var c flowCache
	c.load(proto, path)
	dg := cacheDigest(proto, c.dump)
	return "T:" + dg + " | " + c.history(hist)
}

// otherProcess runs `cachedoc <proto> <file contents> D NONE H <history>` in a fresh process of this harness
func otherProcess(proto, path string, hist []tok) string {
	file, err := ioutil.ReadFile(path)
	if err != nil {
		return "XPROC-NOFILE"
	}
	var sb strings.Builder
	sb.WriteString("cachedoc " + proto + " x" + hex.EncodeToString(file) + " D NONE H")
	for _, t := range hist {
		switch t.kind {
		case 'b':
			sb.WriteString(" x" + hex.EncodeToString(t.b))
		case 'i':
			sb.WriteString(fmt.Sprintf(" %d", t.i))
		default:
			sb.WriteString(" " + t.s)
		}
	}
	sb.WriteString("\n")
	cmd := exec.Command(os.Args[0])
	cmd.Stdin = strings.NewReader(sb.String())
	cmd.Env = os.Environ()
	done := make(chan struct{})
	var out []byte
	go func() { out, err = cmd.Output(); close(done) }()
	select {
	case <-done:
	case <-time.After(60 * time.Second):
		if cmd.Process != nil {
			cmd.Process.Kill()
		}
		return "XPROC-HANG"
	}
	if err != nil {
		return "XPROC-CRASH"
	}
	return strings.TrimRight(string(out), "\r\n")
}

// cachert <proto> <mode> S <setup history> H <history>
//   decodes S on a fresh cache, Dumps it with the real Dump, then
//   mode FULL: loads the file back and decodes H with the loaded cache
//   mode PREFIXES: loads EVERY proper prefix of the file and checks that each behaves as a fresh cache on H
func cmdCacheRT(args []tok) string {
	installTestElements()
	if len(args) < 2 {
		return "BADARGS"
	}
	proto, mode := args[0].s, args[1].s
	rest := args[2:]
	_, rest = splitAt(rest, "S")
	setup, hist := splitAt(rest, "H")
	if mode == "OVER" || mode == "GEN2" {
		setup, hist = splitAt(rest, "M")
	}
	dir, _ := ioutil.TempDir("", "verif-cachert")
	defer os.RemoveAll(dir)
	path := filepath.Join(dir, "cache.json")
	var c0 flowCache
	c0.load(proto, filepath.Join(dir, "absent"))
	s0 := c0.history(setup)
	if strings.Contains(s0, "PANIC") || strings.Contains(s0, "HANG") {
		return "SETUP-" + s0
	}
	if err := c0.dump(path); err != nil {
		return "DUMP-ERROR"
	}
	if mode == "OVER" {
		// a second, smaller cache is saved over the first file; what is loaded must be the second one
		small, h2 := splitAt(hist, "H")
		var c1 flowCache
		c1.load(proto, filepath.Join(dir, "absent"))
		c1.history(small)
		if err := c1.dump(path); err != nil {
			return "DUMP-ERROR"
		}
		var c flowCache
		c.load(proto, path)
		// REF: the same collector without any restart: only the second cache ever existed
		var ref flowCache
		ref.load(proto, filepath.Join(dir, "absent"))
		ref.history(small)
		return "T:" + cacheDigest(proto, c.dump) + " | " + c.history(h2) + " || REF T:" + cacheDigest(proto, ref.dump) + " | " + ref.history(h2)
	}
	if mode == "GEN2" {
		// a second generation: restart on the saved file, re-announcements, save again over the same file, restart again
		mods, h2 := splitAt(hist, "H")
		var c1 flowCache
		c1.load(proto, path)
		c1.history(mods)
		if err := c1.dump(path); err != nil {
			return "DUMP-ERROR"
		}
		var c flowCache
		c.load(proto, path)
		// REF: the same histories on one collector that never restarted
		var ref flowCache
		ref.load(proto, filepath.Join(dir, "absent"))
		ref.history(setup)
		ref.history(mods)
		return "T:" + cacheDigest(proto, c.dump) + " | " + c.history(h2) + " || REF T:" + cacheDigest(proto, ref.dump) + " | " + ref.history(h2)
	}
	if mode == "FULL" {
		var c flowCache
		c.load(proto, path)
		main := "T:" + cacheDigest(proto, c.dump) + " | " + c.history(hist)
		// XPROC: the restart for real: ANOTHER process loads the saved file and decodes H (what is derived per process - a hash
		// seed, an init-time table - is not the same there)
		xproc := otherProcess(proto, path, hist)
		// REF: the collector that never restarted (c0 is still that collector)
		return main + " || XPROC " + xproc + " || REF T:" + cacheDigest(proto, c0.dump) + " | " + c0.history(hist)
	}
	file, _ := ioutil.ReadFile(path)
	var fresh flowCache
	fresh.load(proto, filepath.Join(dir, "absent"))
	want := "T:" + cacheDigest(proto, fresh.dump) + " | " + fresh.history(hist)
	for k := 0; k < len(file); k++ {
		ioutil.WriteFile(path, file[:k], 0644)
		var c flowCache
		c.load(proto, path)
		got := "T:" + cacheDigest(proto, c.dump) + " | " + c.history(hist)
		if got != want {
			return fmt.Sprintf("PREFIXES allfresh=0 k=%d of %d got %s", k, len(file), got)
		}
	}
	return fmt.Sprintf("PREFIXES allfresh=1 n=%d", len(file))
}

var _ = bytes.NewReader
var _ = hex.EncodeToString
