package main

import (
	"fmt"
	"net"
	"strings"
	"time"

	"github.com/EdgeCast/vflow/ipfix"
)

func init() { commands["rpcget"] = cmdRPCGet }

func showTemplate(tr *ipfix.TemplateRecord) string {
	if tr == nil {
		return "NIL"
	}
	spec := func(l []ipfix.TemplateFieldSpecifier) string {
		var ss []string
		for _, f := range l {
			ss = append(ss, fmt.Sprintf("%d/%d/%d", f.ElementID, f.EnterpriseNo, f.Length))
		}
		return strings.Join(ss, ",")
	}
	return fmt.Sprintf("T%d:%d:%d[%s][%s]", tr.TemplateID, tr.FieldCount, tr.ScopeFieldCount, spec(tr.ScopeFieldSpecifiers), spec(tr.FieldSpecifiers))
}

// rpcget <addr> <payload> ... R (<addr> <template id>)... : a PEER collector learns templates by decoding the history (real
// ipfix.Decode into a fresh real cache) and serves them (the real ipfix.RPCServer, TCP port 8085 on this host: once per
// process).  Each request is then answered three ways: by the peer's own look-up (IRPC.Get called directly), over ONE
// connection used for all requests, and over a connection of its own (what the RPC loop does):
//   DIRECT <t>;<t>... | SHARED <t>;<t>... | FRESH <t>;<t>...      (NA: the peer does not hold it)
func cmdRPCGet(args []tok) string {
	hist, reqs := splitAt(args, "R")
	peer := ipfix.GetCache("")
	for i := 0; i+1 < len(hist); i += 2 {
		addr, p := exactAddr(hist[i].b), hist[i+1].b
		func() {
			defer func() { recover() }()
			ipfix.NewDecoder(addr, p).Decode(peer)
		}()
	}
	var rq []ipfix.RPCRequest
	for i := 0; i+1 < len(reqs); i += 2 {
		rq = append(rq, ipfix.RPCRequest{ID: uint16(reqs[i+1].i), IP: exactAddr(reqs[i].b)})
	}
	srvErr := make(chan error, 1)
	go func() { srvErr <- ipfix.RPCServer(peer, &ipfix.RPCConfig{}) }()
	up := false
	for i := 0; i < 100 && !up; i++ {
		select {
		case err := <-srvErr:
			return "RPC-PORT-BUSY " + strings.ReplaceAll(fmt.Sprint(err), " ", "_")
		default:
		}
		if c, err := net.DialTimeout("tcp", "127.0.0.1:8085", 200*time.Millisecond); err == nil {
			c.Close()
			up = true
		} else {
			time.Sleep(20 * time.Millisecond)
		}
	}
	if !up {
		return "RPC-SERVER-DOWN"
	}
	direct := ipfix.NewRPC(peer)
	var d, s, f []string
	for _, r := range rq {
		var t ipfix.TemplateRecord
		if err := direct.Get(r, &t); err != nil {
			d = append(d, "NA")
		} else {
			d = append(d, showTemplate(&t))
		}
	}
	shared, err := ipfix.NewRPCClient("127.0.0.1")
	if err != nil {
		return "RPC-DIAL-ERROR " + strings.ReplaceAll(err.Error(), " ", "_")
	}
	var sharedAns []*ipfix.TemplateRecord
	for _, r := range rq {
		t, err := shared.Get(r)
		if err != nil {
			sharedAns = append(sharedAns, nil)
			continue
		}
		sharedAns = append(sharedAns, t)
	}
	// shown only after ALL answers arrived: an answer must not live in storage the next one is decoded into
	for _, t := range sharedAns {
		if t == nil {
			s = append(s, "NA")
		} else {
			s = append(s, showTemplate(t))
		}
	}
	for _, r := range rq {
		c, err := ipfix.NewRPCClient("127.0.0.1")
		if err != nil {
			f = append(f, "DIAL-ERROR")
			continue
		}
		t, err := c.Get(r)
		if err != nil {
			f = append(f, "NA")
		} else {
			f = append(f, showTemplate(t))
		}
	}
	return "DIRECT " + strings.Join(d, ";") + " | SHARED " + strings.Join(s, ";") + " | FRESH " + strings.Join(f, ";")
}
