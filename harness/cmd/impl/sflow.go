package main

import (
	"bytes"
	"encoding/json"
	"strings"
	"time"

	"github.com/EdgeCast/vflow/sflow"
)

func init() { commands["sflow"] = cmdSflow }

// sflow <filter type>... <payload> : the real SFDecode with the given type filter, then the worker's
// publish rule (vflow/sflow.go): nothing when SFDecode returned an error or neither samples nor
// counters; otherwise json.Marshal(datagram) (ColTime zeroed).
func cmdSflow(args []tok) string {
	var filter []uint32
	for _, a := range args {
		if a.kind == 'i' {
			filter = append(filter, uint32(a.i))
			continue
		}
		if a.kind != 'b' {
			return "BADARGS"
		}
		p := guarded(a.b)
		return watchdog(3*time.Second, func() string {
			d := sflow.NewSFDecoder(bytes.NewReader(p), filter)
			dg, err := d.SFDecode()
			if err != nil || (len(dg.Counters) < 1 && len(dg.Samples) < 1) {
				return "NONE"
			}
			dg.ColTime = 0
			b, err := json.Marshal(dg)
			if err != nil {
				return "MARSHAL-ERROR"
			}
			return string(b)
		})
	}
	return "BADARGS"
}

func init() { commands["sflowseq"] = cmdSflowSeq }

// sflowseq <payload>... : decode ALL datagrams first, keeping the decoded datagrams, and only then encode each of them
// (what a decoded datagram holds must not live in storage that a later decode reuses)
func cmdSflowSeq(args []tok) string {
	return watchdog(10*time.Second, func() string {
		var dgs []*sflow.SFDatagram
		for _, a := range args {
			if a.kind != 'b' {
				return "BADARGS"
			}
			d := sflow.NewSFDecoder(bytes.NewReader(guarded(a.b)), nil)
			dg, err := d.SFDecode()
			if err != nil || (len(dg.Counters) < 1 && len(dg.Samples) < 1) {
				dgs = append(dgs, nil)
				continue
			}
			dgs = append(dgs, dg)
		}
		var outs []string
		for _, dg := range dgs {
			if dg == nil {
				outs = append(outs, "NONE")
				continue
			}
			dg.ColTime = 0
			b, err := json.Marshal(dg)
			if err != nil {
				outs = append(outs, "MARSHAL-ERROR")
			} else {
				outs = append(outs, string(b))
			}
		}
		return strings.Join(outs, " ## ")
	})
}
