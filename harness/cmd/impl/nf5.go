package main

import (
	"bytes"
	"fmt"
	"net"
	"reflect"
	"strings"

	netflow5 "github.com/EdgeCast/vflow/netflow/v5"
)

func init() { commands["nf5"] = cmdNf5 }

// structFields prints Name=value for every field of a struct of unsigned integers, in declaration order
func structFields(v interface{}) string {
	rv := reflect.ValueOf(v)
	rt := rv.Type()
	var parts []string
	for i := 0; i < rt.NumField(); i++ {
		parts = append(parts, fmt.Sprintf("%s=%d", rt.Field(i).Name, rv.Field(i).Uint()))
	}
	return strings.Join(parts, ",")
}

// nf5 <addr> <payload>
func cmdNf5(args []tok) string {
	if len(args) < 2 || args[0].kind != 'b' || args[1].kind != 'b' {
		return "BADARGS"
	}
	d := netflow5.NewDecoder(net.IP(args[0].b), guarded(args[1].b))
	m, err := d.Decode()
	if m == nil {
		return "ERR"
	}
	clean := "1"
	if err != nil {
		clean = "0"
	}
	var fl []string
	for _, f := range m.Flows {
		fl = append(fl, structFields(f))
	}
	j := "-"
	// the worker publishes only when Flows != nil (vflow/netflow_v5.go)
	if m.Flows != nil {
		b, err := m.JSONMarshal(new(bytes.Buffer))
		if err != nil {
			j = "MARSHAL-ERROR"
		} else {
			j = string(b)
		}
	}
	return fmt.Sprintf("OK clean=%s H:%s F:%d %s J:%s", clean, structFields(m.Header), len(m.Flows), strings.Join(fl, "|"), j)
}

func init() { commands["nf5seq"] = cmdNf5Seq }

// nf5seq (<addr> <payload>)... : decode ALL datagrams first, keeping the messages, and only then print / encode each
func cmdNf5Seq(args []tok) string {
	type res struct {
		m   *netflow5.Message
		err error
	}
	var rs []res
	for i := 0; i+1 < len(args); i += 2 {
		if args[i].kind != 'b' || args[i+1].kind != 'b' {
			return "BADARGS"
		}
		d := netflow5.NewDecoder(net.IP(args[i].b), guarded(args[i+1].b))
		m, err := d.Decode()
		rs = append(rs, res{m, err})
	}
	var outs []string
	for _, r := range rs {
		if r.m == nil {
			outs = append(outs, "ERR")
			continue
		}
		clean := "1"
		if r.err != nil {
			clean = "0"
		}
		var fl []string
		for _, f := range r.m.Flows {
			fl = append(fl, structFields(f))
		}
		j := "-"
		if r.m.Flows != nil {
			b, err := r.m.JSONMarshal(new(bytes.Buffer))
			if err != nil {
				j = "MARSHAL-ERROR"
			} else {
				j = string(b)
			}
		}
		outs = append(outs, fmt.Sprintf("OK clean=%s H:%s F:%d %s J:%s", clean, structFields(r.m.Header), len(r.m.Flows), strings.Join(fl, "|"), j))
	}
	return strings.Join(outs, " ## ")
}
