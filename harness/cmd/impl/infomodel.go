package main

import (
	"fmt"
	"io/ioutil"
	"os"
	"path/filepath"
	"sort"
	"strings"

	"github.com/EdgeCast/vflow/ipfix"
)

func init() { commands["infomodel"] = cmdInfoModel }

func repoDir() string {
	if d := os.Getenv("VERIF_REPO"); d != "" {
		return d
	}
	return "/repo"
}

func dumpModel() string {
	type row struct {
		pen uint32
		id  uint16
		s   string
	}
	var rows []row
	for k, e := range ipfix.InfoModel {
		rows = append(rows, row{k.EnterpriseNo, k.ElementID,
			fmt.Sprintf("%d:%d:%d:%s:%d", k.EnterpriseNo, k.ElementID, e.FieldID, e.Name, int(e.Type))})
	}
	sort.Slice(rows, func(i, j int) bool {
		if rows[i].pen != rows[j].pen {
			return rows[i].pen < rows[j].pen
		}
		return rows[i].id < rows[j].id
	})
	ss := make([]string, len(rows))
	for i, r := range rows {
		ss[i] = r.s
	}
	return strings.Join(ss, ";")
}

// withShipped runs f with ipfix.InfoModel as LoadExtElements leaves it when the shipped
// scripts/ipfix.elements is installed in the configuration directory, then restores the built-in map.
func withShipped(f func()) error {
	saved := ipfix.InfoModel
	defer func() { ipfix.InfoModel = saved }()
	dir, err := ioutil.TempDir("", "verif-elements")
	if err != nil {
		return err
	}
	defer os.RemoveAll(dir)
	b, err := ioutil.ReadFile(filepath.Join(repoDir(), "scripts", "ipfix.elements"))
	if err != nil {
		return err
	}
	if err := ioutil.WriteFile(filepath.Join(dir, "ipfix.elements"), b, 0644); err != nil {
		return err
	}
	if err := ipfix.LoadExtElements(dir); err != nil {
		return err
	}
	f()
	return nil
}

// infomodel builtin | shipped : the evaluated run-time InfoModel on each load path
func cmdInfoModel(args []tok) string {
	if len(args) < 1 {
		return "BADARGS"
	}
	switch args[0].s {
	case "builtin":
		return dumpModel()
	case "shipped":
		var out string
		if err := withShipped(func() { out = dumpModel() }); err != nil {
			return "ERR " + err.Error()
		}
		return out
	}
	return "BADARGS"
}

func init() { commands["imdecode"] = cmdIMDecode }

// imdecode <ipfix|nf9> <addr> <payload> ... : the history decoded (fresh cache each time) with the built-in model BEFORE the
// shipped file is ever loaded, then with scripts/ipfix.elements installed and loaded by LoadExtElements, then with the
// built-in model again:  <result> || SHIPPED <result> || AFTER <result>   (results as ipfixh / nf9h print them)
func cmdIMDecode(args []tok) string {
	if len(args) < 3 {
		return "BADARGS"
	}
	run := cmdIpfixH
	if args[0].s == "nf9" {
		run = cmdNf9H
	}
	r0 := run(args[1:])
	r1 := "NOT-RUN"
	if err := withShipped(func() { r1 = run(args[1:]) }); err != nil {
		return "ERR " + err.Error()
	}
	r2 := run(args[1:])
	return r0 + " || SHIPPED " + r1 + " || AFTER " + r2
}

func init() { commands["imcustom"] = cmdIMCustom }

// imcustom <ipfix|nf9> <x contents of an ipfix.elements file> <addr> <payload> ... : the history decoded (fresh cache) with the
// information model LoadExtElements builds from the given file installed in a configuration directory (a site's own file: IANA
// elements with other types, vendor elements); the built-in model is put back afterwards.  Results as ipfixh / nf9h print them.
func cmdIMCustom(args []tok) string {
	if len(args) < 4 || args[1].kind != 'b' {
		return "BADARGS"
	}
	run := cmdIpfixH
	if args[0].s == "nf9" {
		run = cmdNf9H
	}
	saved := ipfix.InfoModel
	defer func() { ipfix.InfoModel = saved }()
	dir, err := ioutil.TempDir("", "verif-elements")
	if err != nil {
		return "ERR " + err.Error()
	}
	defer os.RemoveAll(dir)
	if err := ioutil.WriteFile(filepath.Join(dir, "ipfix.elements"), args[1].b, 0644); err != nil {
		return "ERR " + err.Error()
	}
	if err := ipfix.LoadExtElements(dir); err != nil {
		return "ERR " + strings.ReplaceAll(err.Error(), " ", "_")
	}
	return run(args[2:])
}
