// race: stress of the REAL template caches under the Go race detector (build with -race).
// N workers decode template announcements and data for overlapping and disjoint exporter/id keys
// (every announced definition is drawn from a fixed family, so any template observed later can be
// checked to be ONE COMPLETE member of that family for exactly that key), while other goroutines
// Dump the cache, reload every dump and run peer lookups (IRPC.Get).
package main

import (
	"encoding/binary"
	"flag"
	"fmt"
	"io/ioutil"
	"net"
	"os"
	"path/filepath"
	"regexp"
	"sync"
	"sync/atomic"
	"time"

	"github.com/EdgeCast/vflow/ipfix"
	netflow9 "github.com/EdgeCast/vflow/netflow/v9"
)

// definition number v of template tid for exporter e: v+1 fields, element ids chosen so that the
// (exporter, tid, v) triple can be read back from the field list
var elems = []uint16{1, 2, 4, 5, 6, 7, 8, 10, 11, 12, 14, 16, 17, 21, 22, 27}

func fieldsOf(e, tid, v int) []uint16 {
	n := v%4 + 1
	out := make([]uint16, n)
	for i := range out {
		out[i] = elems[(e*7+tid*3+v*5+i)%len(elems)]
	}
	return out
}

func elemLen(id uint16) uint16 {
	switch id {
	case 1, 2:
		return 8
	case 4, 5:
		return 1
	case 6, 7, 11:
		return 2
	case 27:
		return 16
	}
	return 4
}

func ipfixTemplateMsg(tid int, fields []uint16) []byte {
	body := make([]byte, 0, 64)
	body = append(body, byte(tid>>8), byte(tid), 0, byte(len(fields)))
	for _, f := range fields {
		l := elemLen(f)
		body = append(body, byte(f>>8), byte(f), byte(l>>8), byte(l))
	}
	set := append([]byte{0, 2, 0, byte(4 + len(body))}, body...)
	msg := make([]byte, 16)
	binary.BigEndian.PutUint16(msg[0:], 10)
	binary.BigEndian.PutUint16(msg[2:], uint16(16+len(set)))
	return append(msg, set...)
}

func nf9TemplateMsg(tid int, fields []uint16) []byte {
	body := make([]byte, 0, 64)
	body = append(body, byte(tid>>8), byte(tid), 0, byte(len(fields)))
	for _, f := range fields {
		l := elemLen(f)
		body = append(body, byte(f>>8), byte(f), byte(l>>8), byte(l))
	}
	set := append([]byte{0, 0, 0, byte(4 + len(body))}, body...)
	msg := make([]byte, 20)
	binary.BigEndian.PutUint16(msg[0:], 9)
	return append(msg, set...)
}

func dataMsg(version, tid int) []byte {
	rec := make([]byte, 40)
	for i := range rec {
		rec[i] = byte(i + 1)
	}
	set := append([]byte{byte(tid >> 8), byte(tid), 0, byte(4 + len(rec))}, rec...)
	hl := 16
	if version == 9 {
		hl = 20
	}
	msg := make([]byte, hl)
	binary.BigEndian.PutUint16(msg[0:], uint16(version))
	if version == 10 {
		binary.BigEndian.PutUint16(msg[2:], uint16(hl+len(set)))
	}
	return append(msg, set...)
}

// ---- freshness: versions that can be read back from a lookup ----
// version n of a template = 6 fields of 4 octets whose element ids spell n in base 8
var digits = []uint16{8, 10, 12, 14, 16, 17, 21, 22}

func versionFields(n int) []uint16 {
	out := make([]uint16, 6)
	for i := range out {
		out[i] = digits[n%8]
		n /= 8
	}
	return out
}

func versionOf(ids []uint16) int {
	if len(ids) != 6 {
		return -1
	}
	n, m := 0, 1
	for _, id := range ids {
		d := -1
		for k, x := range digits {
			if x == id {
				d = k
			}
		}
		if d < 0 {
			return -1
		}
		n += d * m
		m *= 8
	}
	return n
}

func dataMsg24(version, tid int) []byte {
	rec := make([]byte, 24)
	set := append([]byte{byte(tid >> 8), byte(tid), 0, byte(4 + len(rec))}, rec...)
	hl := 16
	if version == 9 {
		hl = 20
	}
	msg := make([]byte, hl)
	binary.BigEndian.PutUint16(msg[0:], uint16(version))
	if version == 10 {
		binary.BigEndian.PutUint16(msg[2:], uint16(hl+len(set)))
	}
	return append(msg, set...)
}

// the version of (exporter, tid) that a data set is decoded with right now (-1: no template / not decodable)
func lookup9(mc netflow9.MemCache, ip net.IP, tid int) int {
	m, _ := netflow9.NewDecoder(ip, dataMsg24(9, tid)).Decode(mc)
	if m == nil || len(m.DataSets) != 1 {
		return -1
	}
	ids := make([]uint16, len(m.DataSets[0]))
	for i, f := range m.DataSets[0] {
		ids[i] = f.ID
	}
	return versionOf(ids)
}

func lookup10(mc ipfix.MemCache, ip net.IP, tid int) int {
	m, _ := ipfix.NewDecoder(ip, dataMsg24(10, tid)).Decode(mc)
	if m == nil || len(m.DataSets) != 1 {
		return -1
	}
	ids := make([]uint16, len(m.DataSets[0]))
	for i, f := range m.DataSets[0] {
		ids[i] = f.ID
	}
	return versionOf(ids)
}

// a template set with two field-less template records (what RFC 7011 8.1 calls a template withdrawal; the collector keeps it as
// an empty, complete template): ids tid and 999
func ipfixFieldlessMsg(tid int) []byte {
	body := []byte{byte(tid >> 8), byte(tid), 0, 0, 0x03, 0xe7, 0, 0}
	set := append([]byte{0, 2, 0, byte(4 + len(body))}, body...)
	msg := make([]byte, 16)
	binary.BigEndian.PutUint16(msg[0:], 10)
	binary.BigEndian.PutUint16(msg[2:], uint16(16+len(set)))
	return append(msg, set...)
}

func member(e, tid int, got []uint16) bool {
	if len(got) == 0 {
		return true // the field-less definition is announced for every key (ipfixFieldlessMsg)
	}
	for v := 0; v < 8; v++ {
		f := fieldsOf(e, tid, v)
		if len(f) != len(got) {
			continue
		}
		ok := true
		for i := range f {
			if f[i] != got[i] {
				ok = false
			}
		}
		if ok {
			return true
		}
	}
	return false
}

func main() {
	dur := flag.Duration("d", 2*time.Second, "duration")
	workers := flag.Int("w", 8, "decoder goroutines per protocol")
	flag.Parse()
	dir, _ := ioutil.TempDir("", "verif-race")
	defer os.RemoveAll(dir)

	// the caches start from SAVED files, as after a restart: templates of 48 exporters that have since gone silent, stamped
	// 30 days ago, a year ago, 0 and in the future (whatever housekeeping looks at the age of an entry then has work to do
	// while lookups and dumps run)
	aged := func(file string, dump func(string) error) {
		if err := dump(file); err != nil {
			return
		}
		b, err := ioutil.ReadFile(file)
		if err != nil {
			return
		}
		now := time.Now().Unix()
		stamps := []int64{now - 30*86400, now - 366*86400, 0, now + 86400, now - 4*86400}
		k := 0
		out := regexp.MustCompile(`"Timestamp":\d+`).ReplaceAllFunc(b, func([]byte) []byte {
			k++
			return []byte(fmt.Sprintf(`"Timestamp":%d`, stamps[k%len(stamps)]))
		})
		ioutil.WriteFile(file, out, 0644)
	}
	seed10, seed9 := ipfix.GetCache(filepath.Join(dir, "absent")), netflow9.GetCache(filepath.Join(dir, "absent"))
	for e := 0; e < 48; e++ {
		ip := net.IPv4(203, 0, 113, byte(1+e)).To4()
		for t := 0; t < 20; t++ {
			ipfix.NewDecoder(ip, ipfixTemplateMsg(2000+t, fieldsOf(e%3, 2000+t, t%8))).Decode(seed10)
			netflow9.NewDecoder(ip, nf9TemplateMsg(2000+t, fieldsOf(e%3, 2000+t, t%8))).Decode(seed9)
		}
	}
	aged(filepath.Join(dir, "saved10.json"), seed10.Dump)
	aged(filepath.Join(dir, "saved9.json"), seed9.Dump)
	mc := ipfix.GetCache(filepath.Join(dir, "saved10.json"))
	mc9 := netflow9.GetCache(filepath.Join(dir, "saved9.json"))
	rpc := ipfix.NewRPC(mc)
	exporters := []net.IP{net.ParseIP("10.0.0.1").To4(), net.ParseIP("10.0.0.2").To4(), net.ParseIP("2001:db8::1"), net.ParseIP("10.0.0.1")}
	tids := []int{256, 257, 300}

	var stop int32
	var ops, dumps, gets, bad uint64
	var wg sync.WaitGroup
	fail := func(f string, a ...interface{}) {
		atomic.AddUint64(&bad, 1)
		fmt.Printf("UNSOUND "+f+"\n", a...)
	}
	for w := 0; w < *workers; w++ {
		wg.Add(2)
		go func(w int) { // IPFIX decoder
			defer wg.Done()
			for i := 0; atomic.LoadInt32(&stop) == 0; i++ {
				e := (w + i) % len(exporters)
				tid := tids[(w*3+i)%len(tids)]
				if i%7 == 5 {
					ipfix.NewDecoder(exporters[e], ipfixFieldlessMsg(tid)).Decode(mc)
				} else if i%3 == 0 {
					ipfix.NewDecoder(exporters[e], ipfixTemplateMsg(tid, fieldsOf(e%3, tid, (w+i)%8))).Decode(mc)
				} else {
					ipfix.NewDecoder(exporters[e], dataMsg(10, tid)).Decode(mc)
				}
				atomic.AddUint64(&ops, 1)
			}
		}(w)
		go func(w int) { // NetFlow v9 decoder
			defer wg.Done()
			for i := 0; atomic.LoadInt32(&stop) == 0; i++ {
				e := (w + i) % len(exporters)
				tid := tids[(w*3+i)%len(tids)]
				if i%3 == 0 {
					netflow9.NewDecoder(exporters[e], nf9TemplateMsg(tid, fieldsOf(e%3, tid, (w+i)%8))).Decode(mc9)
				} else {
					netflow9.NewDecoder(exporters[e], dataMsg(9, tid)).Decode(mc9)
				}
				atomic.AddUint64(&ops, 1)
			}
		}(w)
	}
	// SEVERAL template records in ONE set (a large definition followed by a small one), announced over and over by one exporter
	// while two goroutines decode data for the first of them: whatever the parser does to storage it used for the previous
	// record, a template that is in the cache is read-only
	multiIP := net.IPv4(203, 0, 114, 7).To4()
	twoRecords := func(version int) []byte {
		a, b := []uint16{8, 12, 7, 11, 4, 5}, []uint16{1, 2}
		m := ipfixTemplateMsg(3000, a)
		m2 := ipfixTemplateMsg(3001, b)
		hl, sid := 16, byte(2)
		if version == 9 {
			m, m2 = nf9TemplateMsg(3000, a), nf9TemplateMsg(3001, b)
			hl, sid = 20, 0
		}
		body := append(append([]byte{}, m[hl+4:]...), m2[hl+4:]...)
		set := append([]byte{0, sid, 0, byte(4 + len(body))}, body...)
		msg := append([]byte{}, m[:hl]...)
		if version == 10 {
			binary.BigEndian.PutUint16(msg[2:], uint16(hl+len(set)))
		}
		return append(msg, set...)
	}
	wg.Add(3)
	go func() {
		defer wg.Done()
		m10, m9 := twoRecords(10), twoRecords(9)
		for atomic.LoadInt32(&stop) == 0 {
			ipfix.NewDecoder(multiIP, m10).Decode(mc)
			netflow9.NewDecoder(multiIP, m9).Decode(mc9)
			atomic.AddUint64(&ops, 2)
		}
	}()
	for r := 0; r < 2; r++ {
		go func() {
			defer wg.Done()
			for atomic.LoadInt32(&stop) == 0 {
				ipfix.NewDecoder(multiIP, dataMsg(10, 3000)).Decode(mc)
				netflow9.NewDecoder(multiIP, dataMsg(9, 3000)).Decode(mc9)
				atomic.AddUint64(&ops, 2)
			}
		}()
	}
	wg.Add(3)
	wg.Add(1)
	go func() { // lookups of the silent exporters' saved templates (their shards are read while dumps run)
		defer wg.Done()
		for i := 0; atomic.LoadInt32(&stop) == 0; i++ {
			ip := net.IPv4(203, 0, 113, byte(1+i%48)).To4()
			var tr ipfix.TemplateRecord
			rpc.Get(ipfix.RPCRequest{ID: uint16(2000 + i%20), IP: ip}, &tr)
			netflow9.NewDecoder(ip, dataMsg(9, 2000+i%20)).Decode(mc9)
			atomic.AddUint64(&gets, 1)
		}
	}()
	go func() { // peer lookups: every answer is one complete announced definition for exactly that key
		defer wg.Done()
		for i := 0; atomic.LoadInt32(&stop) == 0; i++ {
			e := i % len(exporters)
			tid := tids[i%len(tids)]
			var tr ipfix.TemplateRecord
			if err := rpc.Get(ipfix.RPCRequest{ID: uint16(tid), IP: exporters[e]}, &tr); err == nil {
				got := make([]uint16, len(tr.FieldSpecifiers))
				for k, f := range tr.FieldSpecifiers {
					got[k] = f.ElementID
				}
				if int(tr.TemplateID) != tid || int(tr.FieldCount) != len(got) || !member(e%3, tid, got) {
					fail("Get(%v,%d) returned a template that was never announced for that key: id=%d count=%d fields=%v", exporters[e], tid, tr.TemplateID, tr.FieldCount, got)
				}
			}
			atomic.AddUint64(&gets, 1)
		}
	}()
	dumper := func(dump func(string) error, load func(string) int, name string) {
		defer wg.Done()
		for i := 0; atomic.LoadInt32(&stop) == 0; i++ {
			f := filepath.Join(dir, fmt.Sprintf("%s-%d.json", name, i%4))
			if err := dump(f); err != nil {
				fail("%s Dump: %v", name, err)
			}
			if n := load(f); n < 0 {
				fail("%s: a dump taken during decoding does not load back", name)
			}
			atomic.AddUint64(&dumps, 1)
			time.Sleep(time.Millisecond)
		}
	}
	go dumper(mc.Dump, func(f string) int {
		c := ipfix.GetCache(f)
		// the reloaded cache must answer lookups with complete announced definitions
		r2 := ipfix.NewRPC(c)
		n := 0
		for e := range exporters {
			for _, tid := range tids {
				var tr ipfix.TemplateRecord
				if err := r2.Get(ipfix.RPCRequest{ID: uint16(tid), IP: exporters[e]}, &tr); err == nil {
					got := make([]uint16, len(tr.FieldSpecifiers))
					for k, f := range tr.FieldSpecifiers {
						got[k] = f.ElementID
					}
					if !member(e%3, tid, got) || int(tr.FieldCount) != len(got) {
						return -1
					}
					n++
				}
			}
		}
		return n
	}, "ipfix")
	go dumper(mc9.Dump, func(f string) int {
		b, err := ioutil.ReadFile(f)
		if err != nil || len(b) == 0 {
			return -1
		}
		netflow9.GetCache(f)
		return 0
	}, "nf9")

	// freshness ("not already superseded before the lookup began"): each OWNER is the only announcer of its keys (its own exporter,
	// 24 template ids, so that several keys share a shard), announces version n and looks it up at once: it must get n.  READERS
	// look the same keys up in alternation; whatever they get for a key must never be older than what they got before.
	const nOwners, nKeys = 2, 24
	ownerIP := func(proto, o int) net.IP { return net.IPv4(198, 51, byte(100+proto), byte(1+o)).To4() }
	var fresh uint64
	for o := 0; o < nOwners; o++ {
		wg.Add(2)
		go func(o int) {
			defer wg.Done()
			ip := ownerIP(9, o)
			for n := 1; atomic.LoadInt32(&stop) == 0; n++ {
				tid := 1000 + n%nKeys
				netflow9.NewDecoder(ip, nf9TemplateMsg(tid, versionFields(n/nKeys+1))).Decode(mc9)
				if got := lookup9(mc9, ip, tid); got != n/nKeys+1 {
					fail("netflow v9: exporter %v announced version %d of template %d and its very next data set was decoded with version %d (a superseded definition)", ip, n/nKeys+1, tid, got)
					return
				}
				atomic.AddUint64(&fresh, 1)
			}
		}(o)
		go func(o int) {
			defer wg.Done()
			ip := ownerIP(10, o)
			for n := 1; atomic.LoadInt32(&stop) == 0; n++ {
				tid := 1000 + n%nKeys
				ipfix.NewDecoder(ip, ipfixTemplateMsg(tid, versionFields(n/nKeys+1))).Decode(mc)
				if got := lookup10(mc, ip, tid); got != n/nKeys+1 {
					fail("ipfix: exporter %v announced version %d of template %d and its very next data set was decoded with version %d (a superseded definition)", ip, n/nKeys+1, tid, got)
					return
				}
				atomic.AddUint64(&fresh, 1)
			}
		}(o)
	}
	for r := 0; r < 6; r++ {
		wg.Add(1)
		go func(r int) {
			defer wg.Done()
			var last9, last10 [nOwners][nKeys]int
			for i := r; atomic.LoadInt32(&stop) == 0; i++ {
				o, k := i%nOwners, (i/nOwners*(r+1))%nKeys
				if v := lookup9(mc9, ownerIP(9, o), 1000+k); v >= 0 {
					if v < last9[o][k] {
						fail("netflow v9: a lookup of template %d of %v returned version %d after an earlier lookup had already returned version %d", 1000+k, ownerIP(9, o), v, last9[o][k])
						return
					}
					last9[o][k] = v
				}
				if v := lookup10(mc, ownerIP(10, o), 1000+k); v >= 0 {
					if v < last10[o][k] {
						fail("ipfix: a lookup of template %d of %v returned version %d after an earlier lookup had already returned version %d", 1000+k, ownerIP(10, o), v, last10[o][k])
						return
					}
					last10[o][k] = v
				}
			}
		}(r)
	}

	// OPTIONS templates with 1..9 scope fields and 1..3 option fields (slices of every length, most of them with spare capacity),
	// announced once and then only READ: several goroutines decode data records of the same template at the same time, and look
	// the template up; anything that writes to what the cache holds while decoding with it is a race between them
	optIP := net.IPv4(198, 51, 102, 9).To4()
	optMsg := func(v byte, tid, nScope, nOpt int) ([]byte, int) {
		ids := []uint16{10, 14, 8, 12, 21, 22, 16, 17, 34, 35, 36, 37}
		body := []byte{byte(tid >> 8), byte(tid), 0, 0, 0, 0}
		if v == 10 {
			binary.BigEndian.PutUint16(body[2:], uint16(nScope+nOpt))
			binary.BigEndian.PutUint16(body[4:], uint16(nScope))
		} else {
			binary.BigEndian.PutUint16(body[2:], uint16(4*nScope))
			binary.BigEndian.PutUint16(body[4:], uint16(4*nOpt))
		}
		for i := 0; i < nScope+nOpt; i++ {
			id := ids[i%len(ids)]
			if v == 9 && i < nScope {
				id = uint16(1 + i%5) // v9 scope types: system, interface, line card, cache, template
			}
			body = append(body, byte(id>>8), byte(id), 0, 4)
		}
		sid := byte(3)
		hl := 16
		if v == 9 {
			sid, hl = 1, 20
		}
		set := append([]byte{0, sid, 0, byte(4 + len(body))}, body...)
		msg := make([]byte, hl)
		binary.BigEndian.PutUint16(msg[0:], uint16(v))
		if v == 10 {
			binary.BigEndian.PutUint16(msg[2:], uint16(hl+len(set)))
		}
		return append(msg, set...), 4 * (nScope + nOpt)
	}
	type optT struct{ tid, rec int }
	var opts10, opts9 []optT
	for k, sh := range [][2]int{{1, 1}, {2, 1}, {3, 1}, {5, 2}, {6, 1}, {7, 1}, {9, 3}, {4, 4}} {
		m10, r10 := optMsg(10, 800+k, sh[0], sh[1])
		ipfix.NewDecoder(optIP, m10).Decode(mc)
		opts10 = append(opts10, optT{800 + k, r10})
		m9, r9 := optMsg(9, 800+k, sh[0], sh[1])
		netflow9.NewDecoder(optIP, m9).Decode(mc9)
		opts9 = append(opts9, optT{800 + k, r9})
	}
	optData := func(v byte, tid, rec int) []byte {
		set := append([]byte{byte(tid >> 8), byte(tid), 0, byte(4 + 2*rec)}, make([]byte, 2*rec)...)
		hl := 16
		if v == 9 {
			hl = 20
		}
		msg := make([]byte, hl)
		binary.BigEndian.PutUint16(msg[0:], uint16(v))
		if v == 10 {
			binary.BigEndian.PutUint16(msg[2:], uint16(hl+len(set)))
		}
		return append(msg, set...)
	}
	for r := 0; r < 4; r++ {
		wg.Add(1)
		go func(r int) {
			defer wg.Done()
			for i := r; atomic.LoadInt32(&stop) == 0; i++ {
				o := opts10[i%len(opts10)]
				if m, _ := ipfix.NewDecoder(optIP, optData(10, o.tid, o.rec)).Decode(mc); m == nil || len(m.DataSets) != 2 {
					fail("ipfix: two records of options template %d were not decoded as two records", o.tid)
					return
				}
				var tr ipfix.TemplateRecord
				rpc.Get(ipfix.RPCRequest{ID: uint16(o.tid), IP: optIP}, &tr)
				o9 := opts9[i%len(opts9)]
				if m, _ := netflow9.NewDecoder(optIP, optData(9, o9.tid, o9.rec)).Decode(mc9); m == nil || len(m.DataSets) != 2 {
					fail("netflow v9: two records of options template %d were not decoded as two records", o9.tid)
					return
				}
			}
		}(r)
	}

	time.Sleep(*dur)
	atomic.StoreInt32(&stop, 1)
	wg.Wait()
	if fresh == 0 {
		fail("the freshness workers made no progress")
	}

	// after a RESTART: templates restored from an old file (stamped long ago), and the first re-definition of each of them arrives
	// while a lookup of that very template is under way (one round per key; whatever a lookup does about an old entry, a
	// definition whose announcement has completed is the one every later lookup sees)
	{
		const nAged = 3000
		ipA := net.IPv4(198, 51, 110, 9).To4()
		sa10, sa9 := ipfix.GetCache(filepath.Join(dir, "absent")), netflow9.GetCache(filepath.Join(dir, "absent"))
		for k := 0; k < nAged; k++ {
			ipfix.NewDecoder(ipA, ipfixTemplateMsg(4000+k, versionFields(1))).Decode(sa10)
			netflow9.NewDecoder(ipA, nf9TemplateMsg(4000+k, versionFields(1))).Decode(sa9)
		}
		aged(filepath.Join(dir, "restart10.json"), sa10.Dump)
		aged(filepath.Join(dir, "restart9.json"), sa9.Dump)
		ra10, ra9 := ipfix.GetCache(filepath.Join(dir, "restart10.json")), netflow9.GetCache(filepath.Join(dir, "restart9.json"))
		rpcA := ipfix.NewRPC(ra10)
		for k := 0; k < nAged && atomic.LoadUint64(&bad) == 0; k++ {
			tid := 4000 + k
			var goFlag int32
			done := make(chan struct{})
			go func() {
				for atomic.LoadInt32(&goFlag) == 0 {
				}
				if k%2 == 0 {
					var tr ipfix.TemplateRecord
					rpcA.Get(ipfix.RPCRequest{ID: uint16(tid), IP: ipA}, &tr)
				} else {
					lookup10(ra10, ipA, tid)
				}
				lookup9(ra9, ipA, tid)
				close(done)
			}()
			atomic.StoreInt32(&goFlag, 1)
			ipfix.NewDecoder(ipA, ipfixTemplateMsg(tid, versionFields(2))).Decode(ra10)
			netflow9.NewDecoder(ipA, nf9TemplateMsg(tid, versionFields(2))).Decode(ra9)
			<-done
			if got := lookup10(ra10, ipA, tid); got != 2 {
				fail("ipfix: after a restart on an old cache file, version 2 of template %d was announced while a lookup of it was under way; a lookup begun after the announcement had completed sees version %d", tid, got)
			}
			if got := lookup9(ra9, ipA, tid); got != 2 {
				fail("netflow v9: after a restart on an old cache file, version 2 of template %d was announced while a lookup of it was under way; a lookup begun after the announcement had completed sees version %d", tid, got)
			}
		}
	}

	// peer lookups are lookups: asked twice in quick succession for the same key, with a re-definition in between, the second answer
	// is the new definition (whatever the server remembers about what it answered a moment ago)
	{
		ipP := net.IPv4(198, 51, 111, 3).To4()
		versionOfTR := func(tr *ipfix.TemplateRecord) int {
			ids := make([]uint16, len(tr.FieldSpecifiers))
			for i, f := range tr.FieldSpecifiers {
				ids[i] = f.ElementID
			}
			return versionOf(ids)
		}
		for k := 0; k < 40; k++ {
			tid := 5000 + k%3
			for v := 1; v <= 3; v++ {
				ipfix.NewDecoder(ipP, ipfixTemplateMsg(tid, versionFields(10*k+v))).Decode(mc)
				for rep := 0; rep < 2; rep++ {
					var tr ipfix.TemplateRecord
					if err := rpc.Get(ipfix.RPCRequest{ID: uint16(tid), IP: ipP}, &tr); err != nil || versionOfTR(&tr) != 10*k+v {
						fail("ipfix: a peer lookup (IRPC.Get) begun after version %d of template %d had been announced answered with version %d (err %v)", 10*k+v, tid, versionOfTR(&tr), err)
					}
				}
			}
		}
	}

	// superseding: after a re-announcement that changes ONLY the scope part of an options template, lookups and
	// data decoding must use the new definition (a "refresh" fast path that compares too little would keep the old one)
	sup := net.ParseIP("192.0.2.77").To4()
	optV9 := func(scopeID uint16) []byte {
		body := []byte{0x02, 0x58, 0, 4, 0, 4, byte(scopeID >> 8), byte(scopeID), 0, 4, 0, 1, 0, 8}
		set := append([]byte{0, 1, 0, byte(4 + len(body))}, body...)
		msg := make([]byte, 20)
		binary.BigEndian.PutUint16(msg[0:], 9)
		return append(msg, set...)
	}
	netflow9.NewDecoder(sup, optV9(10)).Decode(mc9)
	netflow9.NewDecoder(sup, optV9(14)).Decode(mc9)
	if m, _ := netflow9.NewDecoder(sup, dataMsg(9, 600)).Decode(mc9); m == nil || len(m.DataSets) == 0 || m.DataSets[0][0].ID != 14 {
		fail("netflow v9: data decoded after a re-announcement does not use the latest template definition")
	}
	optIPFIX := func(scopeID uint16) []byte {
		body := []byte{0x02, 0x58, 0, 2, 0, 1, byte(scopeID >> 8), byte(scopeID), 0, 4, 0, 1, 0, 8}
		set := append([]byte{0, 3, 0, byte(4 + len(body))}, body...)
		msg := make([]byte, 16)
		binary.BigEndian.PutUint16(msg[0:], 10)
		binary.BigEndian.PutUint16(msg[2:], uint16(16+len(set)))
		return append(msg, set...)
	}
	ipfix.NewDecoder(sup, optIPFIX(10)).Decode(mc)
	ipfix.NewDecoder(sup, optIPFIX(14)).Decode(mc)
	var trS ipfix.TemplateRecord
	if err := rpc.Get(ipfix.RPCRequest{ID: 600, IP: sup}, &trS); err != nil || len(trS.ScopeFieldSpecifiers) != 1 || trS.ScopeFieldSpecifiers[0].ElementID != 14 {
		fail("ipfix: a peer lookup after a re-announcement returns a superseded template")
	}
	if bad > 0 {
		fmt.Printf("RACE-STRESS unsound=%d\n", bad)
		os.Exit(3)
	}
	fmt.Printf("RACE-STRESS ok ops=%d gets=%d dumps=%d workers=%d\n", ops, gets, dumps, *workers)
}
