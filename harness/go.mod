module verif/harness

go 1.15

require github.com/EdgeCast/vflow v0.0.0

replace github.com/EdgeCast/vflow => /repo
