# Orchestrator shared by every check: build (translator -> Coq -> extraction -> Go harness),
# run cases on the extracted model and on the real code, diff, verdict, evidence.
# python3 stdlib only.
import fcntl, hashlib, json, os, random, re, subprocess, sys, time, shutil

ROOT = os.path.dirname(os.path.dirname(os.path.abspath(__file__)))
REPO = os.environ.get("VERIF_REPO", "/repo")
COQ = os.path.join(ROOT, "coq")
OCAML = os.path.join(ROOT, "ocaml")
HARNESS = os.path.join(ROOT, "harness")
EXTRACT = os.path.join(ROOT, "extract")
NCPU = min(16, os.cpu_count() or 4)

GOENV = dict(os.environ, GOFLAGS="-mod=mod", GOPROXY="off", GOSUMDB="off", GOTOOLCHAIN="local",
             CGO_ENABLED=os.environ.get("CGO_ENABLED", "1"))

FORBIDDEN = re.compile(r"\b(Admitted|admit|Axiom|Axioms|Parameter|Parameters|Conjecture|Conjectures|Hypothesis|Hypotheses|Variable|Variables|Admit Obligations)\b|Unset Guard|bypass_check|type-in-type|impredicative-set|Unset Universe|Unset Positivity")


def log(*a):
    print("[check]", *a, file=sys.stderr, flush=True)


def sh(cmd, cwd=None, env=None, timeout=1800, input=None):
    p = subprocess.run(cmd, cwd=cwd, env=env, timeout=timeout, input=input,
                       stdout=subprocess.PIPE, stderr=subprocess.STDOUT, text=True)
    return p.returncode, p.stdout


class Lock:
    def __enter__(self):
        os.makedirs(os.path.join(ROOT, ".build"), exist_ok=True)
        self.f = open(os.path.join(ROOT, ".build", "lock"), "w")
        fcntl.flock(self.f, fcntl.LOCK_EX)
        return self

    def __exit__(self, *a):
        fcntl.flock(self.f, fcntl.LOCK_UN)
        self.f.close()


def file_hash(paths):
    h = hashlib.sha256()
    for p in sorted(paths):
        h.update(p.encode())
        try:
            with open(p, "rb") as f:
                h.update(f.read())
        except OSError:
            h.update(b"<missing>")
    return h.hexdigest()


def coq_sources():
    out = []
    for d, _, fs in os.walk(COQ):
        for f in fs:
            if f.endswith(".v"):
                out.append(os.path.join(d, f))
    return sorted(out)


def gate():
    """No Admitted/admit/Axiom/Parameter/... and no disabled kernel checks anywhere in the development.
    Section-local Variable/Hypothesis are allowed only inside `Section` (checked textually)."""
    bad = []
    for p in coq_sources():
        depth = 0
        for n, line in enumerate(open(p), 1):
            code = re.sub(r"\(\*.*?\*\)", "", line)
            if re.match(r"\s*Section\b", code):
                depth += 1
            if re.match(r"\s*End\b", code) and depth > 0:
                depth -= 1
            m = FORBIDDEN.search(code)
            if m:
                w = m.group(0)
                if w in ("Variable", "Variables", "Hypothesis", "Hypotheses") and depth > 0:
                    continue
                bad.append("%s:%d: %s" % (os.path.relpath(p, ROOT), n, w))
    return bad


def run_translator():
    """Regenerate coq/Gen/*.v from /repo's working tree (only rewrites files whose content changed)."""
    if not os.path.exists(os.path.join(EXTRACT, "main.go")):
        return True, "no translator yet"
    rc, out = sh(["go", "run", ".", "-repo", REPO, "-out", os.path.join(COQ, "Gen"),
                  "-json", os.path.join(ROOT, ".build", "extract.json")], cwd=EXTRACT, env=GOENV, timeout=300)
    return rc == 0, out


def build_coq():
    """Full .vo build (never -vos).  make -k so that one broken proof file does not hide the others."""
    if not os.path.exists(os.path.join(COQ, "Makefile")) or \
            os.path.getmtime(os.path.join(COQ, "_CoqProject")) > os.path.getmtime(os.path.join(COQ, "Makefile")):
        sh(["coq_makefile", "-f", "_CoqProject", "-o", "Makefile"], cwd=COQ)
    rc, out = sh(["timeout", "1500", "make", "-k", "-j%d" % NCPU], cwd=COQ, timeout=1600)
    return rc == 0, out


def build_model():
    """Extract Model/Driver.v (models only, no proofs) and build the OCaml driver."""
    rc, out = sh(["timeout", "300", "coqc", "-Q", COQ, "VF", os.path.join(COQ, "Extract.v")], cwd=OCAML, timeout=320)
    if rc != 0:
        return False, out
    mli = os.path.join(OCAML, "model.mli")
    if os.path.exists(mli):
        os.remove(mli)
    h = file_hash([os.path.join(OCAML, "model.ml"), os.path.join(OCAML, "driver.ml")])
    stamp = os.path.join(ROOT, ".build", "model.hash")
    if os.path.exists(os.path.join(OCAML, "model")) and os.path.exists(stamp) and open(stamp).read() == h:
        return True, "model up to date"
    rc, out = sh(["ocamlfind", "ocamlopt", "-O3", "-w", "-a", "-package", "str", "model.ml", "driver.ml", "-o", "model"],
                 cwd=OCAML, timeout=600)
    if rc == 0:
        open(stamp, "w").write(h)
    return rc == 0, out


def harness_modfile():
    """go build flags selecting the module file of the harness: the committed go.mod replaces the vflow module by /repo;
    when VERIF_REPO points elsewhere (a snapshot used for background runs) an alternative module file is generated"""
    if REPO == "/repo":
        return []
    alt = os.path.join(HARNESS, "go.alt.mod")
    txt = open(os.path.join(HARNESS, "go.mod")).read().replace("=> /repo", "=> " + REPO)
    if not os.path.exists(alt) or open(alt).read() != txt:
        open(alt, "w").write(txt)
    try:
        shutil.copyfile(os.path.join(REPO, "go.sum"), os.path.join(HARNESS, "go.alt.sum"))
    except OSError:
        pass
    return ["-modfile=" + alt]


def build_impl():
    """Build the Go harness against /repo's CURRENT working tree with the verif hooks on."""
    try:
        shutil.copyfile(os.path.join(REPO, "go.sum"), os.path.join(HARNESS, "go.sum"))
    except OSError:
        pass
    rc, out = sh(["go", "build"] + harness_modfile() + ["-tags", "verif", "-o", "bin/impl", "./cmd/impl"], cwd=HARNESS, env=GOENV, timeout=900)
    if rc != 0:
        return False, out
    # the in-package verif driver of package main (vflow/verif_*_test.go, build tag verif): real flagSet / workers / mirror
    rc, out2 = sh(["go", "test", "-c", "-tags", "verif", "-o", os.path.join(HARNESS, "bin", "vflow.test"), "./vflow/"], cwd=REPO, env=GOENV, timeout=900)
    return rc == 0, out + out2


def build_race_driver():
    """the in-package driver once more, under the Go race detector"""
    rc, out = sh(["go", "test", "-c", "-race", "-tags", "verif", "-o", os.path.join(HARNESS, "bin", "vflow.race.test"), "./vflow/"], cwd=REPO, env=GOENV, timeout=900)
    return rc == 0, out


def run_driver(cases, timeout=900, race=False):
    """cases: list of dicts -> list of results (one JSON object per case) from the in-package verif driver.  If the code
    under test ends the process (os.Exit / log.Fatal / an unrecovered panic in another goroutine), the case being processed
    gets an error result and the remaining cases are run in a fresh process."""
    import tempfile
    res = []
    todo = list(cases)
    restarts = 0
    while todo:
        d = tempfile.mkdtemp(prefix="verif-driver-", dir=os.path.join(ROOT, ".build"))
        try:
            fin, fout = os.path.join(d, "in.jsonl"), os.path.join(d, "out.jsonl")
            with open(fin, "w") as f:
                for c in todo:
                    f.write(json.dumps(c) + "\n")
            env = dict(GOENV, VERIF_IN=fin, VERIF_OUT=fout)
            if race:
                env["GORACE"] = "halt_on_error=1 exitcode=66"
            try:
                p = subprocess.run([os.path.join(HARNESS, "bin", "vflow.race.test" if race else "vflow.test"), "-test.run", "TestVerifDriver", "-test.timeout", "%ds" % timeout],
                                   env=env, stdout=subprocess.PIPE, stderr=subprocess.STDOUT, text=True, timeout=timeout + 30)
                rc, tail = p.returncode, p.stdout[-400:]
                if race and "DATA RACE" in p.stdout:
                    # keep the report: which accesses, in which functions
                    k = p.stdout.index("DATA RACE")
                    tail = "DATA RACE " + " | ".join(l.strip() for l in p.stdout[k:k + 3000].split("\n") if REPO + "/" in l or l.startswith(("Write at", "Read at", "Previous")))[:900]
            except subprocess.TimeoutExpired:
                rc, tail = -9, "timeout"
            got = []
            if os.path.exists(fout):
                for l in open(fout):
                    if l.strip():
                        try:
                            got.append(json.loads(l))
                        except ValueError:
                            break            # a line cut short by the process ending
            res += got
            todo = todo[len(got):]
            if todo:
                res.append({"error": "the process ended while this case was being processed (exit %s): %s" % (rc, tail.strip()[-900:])})
                todo = todo[1:]
                restarts += 1
                if restarts > 50:
                    res += [{"error": "driver keeps dying"}] * len(todo)
                    todo = []
        finally:
            shutil.rmtree(d, ignore_errors=True)
    return res


def check_property_file(pid):
    """Re-run coqc on Properties/<pid>.v: re-checks the property theorems against the (regenerated)
    model and yields the Print Assumptions output."""
    path = os.path.join(COQ, "Properties", pid + ".v")
    src = open(path).read()
    theorems = re.findall(r"^\s*(?:Theorem|Corollary)\s+(\w+)", src, re.M)
    rc, out = sh(["timeout", "900", "coqc", "-Q", ".", "VF", os.path.join("Properties", pid + ".v")], cwd=COQ, timeout=950)
    assumptions = []
    blocks = re.split(r"(?m)^(?=Closed under the global context|Axioms:)", out)
    for b in blocks:
        b = b.strip()
        if b.startswith("Closed under") or b.startswith("Axioms:"):
            assumptions.append(b)
    return rc == 0, theorems, assumptions, out


def coqchk(pid):
    """independent re-check of Properties/<pid>.vo and everything it depends on (thorough tier); returns (ok, axioms text)"""
    rc, out = sh(["timeout", "3000", "coqchk", "-silent", "-o", "-Q", ".", "VF", "VF.Properties." + pid], cwd=COQ, timeout=3100)
    m = re.search(r"\* Axioms:(.*?)\n\s*\n\* Constants/Inductives relying on type-in-type:(.*?)\n\s*\n", out, re.S)
    ax = " ".join(m.group(1).split()) if m else "?"
    return rc == 0 and ax == "<none>", "coqchk -silent -o VF.Properties.%s: exit %d, axioms: %s" % (pid, rc, ax if m else out.strip()[-300:])


def run_exec(exe, lines, shards=1, timeout=1800, env=None, cwd=None):
    """Feed case lines to an executable, one output line per input line.  Shards run in parallel."""
    if not lines:
        return []
    shards = max(1, min(shards, len(lines)))
    chunks = [lines[i::shards] for i in range(shards)]
    procs = []
    for ch in chunks:
        p = subprocess.Popen(exe, stdin=subprocess.PIPE, stdout=subprocess.PIPE, stderr=subprocess.PIPE, text=True, env=env, cwd=cwd)
        procs.append(p)
    import threading
    results = [None] * shards

    def work(i):
        try:
            o, e = procs[i].communicate("\n".join(chunks[i]) + "\n", timeout=timeout)
            results[i] = (o.split("\n"), e, procs[i].returncode)
        except subprocess.TimeoutExpired:
            procs[i].kill()
            results[i] = ([], "TIMEOUT", -9)
    ths = [threading.Thread(target=work, args=(i,)) for i in range(shards)]
    [t.start() for t in ths]
    [t.join() for t in ths]
    out = [None] * len(lines)
    for s in range(shards):
        o, e, rc = results[s]
        for j, _ in enumerate(chunks[s]):
            out[s + j * shards] = o[j] if j < len(o) and not (j == len(o) - 1 and o[j] == "" and rc != 0) else "CRASH(rc=%s %s)" % (rc, (e or "").strip()[-200:])
    return out


def run_model(lines, timeout=1800):
    return run_exec([os.path.join(OCAML, "model")], lines, shards=NCPU, timeout=timeout)


def run_impl(lines, timeout=1800, shards=4):
    return run_exec([os.path.join(HARNESS, "bin", "impl")], lines, shards=shards, timeout=timeout, env=GOENV)


def load_known():
    p = os.path.join(ROOT, "known_findings.json")
    if not os.path.exists(p):
        return {"findings": [], "fixed": []}
    return json.load(open(p))


def write_evidence(pid, tier, seed, level, coverage, assumptions, wall, violations):
    os.makedirs(os.path.join(ROOT, "evidence"), exist_ok=True)
    ev = {"property_id": pid, "tier": tier, "seed": seed, "level": level, "coverage": coverage,
          "assumptions": assumptions, "wall_s": round(wall, 2), "violations": violations}
    tmp = os.path.join(ROOT, "evidence", pid + ".json.tmp")
    json.dump(ev, open(tmp, "w"), indent=1, sort_keys=True)
    os.replace(tmp, os.path.join(ROOT, "evidence", pid + ".json"))


def write_replay(pid, payload):
    os.makedirs(os.path.join(ROOT, "replays"), exist_ok=True)
    h = hashlib.sha1(json.dumps(payload, sort_keys=True).encode()).hexdigest()[:12]
    path = os.path.join("replays", "%s-%s.json" % (pid, h))
    json.dump(payload, open(os.path.join(ROOT, path), "w"), indent=1, sort_keys=True)
    return path
