# C10 — concurrent decoding, dumping and peer lookups keep the template cache sound.
# Deciding part: Properties/C10.v over the lock skeletons regenerated from the source.  Tie: the real
# caches stressed under the Go race detector (workers + Dump + reload + IRPC.Get).
import json, os, re, subprocess
import vf


class P:
    id = "C10"

    def budget(self, tier):
        return 1

    def cases(self, tier, rng, budget):
        # sequential sanity of the cache functions through the normal correspondence path: a history with
        # re-announcements (the concurrent part is in extra())
        return []

    def judge(self, line, impl, model):
        return None if impl == model else "model/implementation disagreement"

    def classify(self, line, impl, model):
        return ("seq", line)

    def tie_obligations(self):
        return 2     # Gen/Locks.v (function skeletons, shard struct fields) regenerated and re-checked

    def extra(self, tier, rng, known):
        dur = "3s" if tier == "quick" else "60s"
        runs = [(8, dur)] if tier == "quick" else [(2, "20s"), (8, "60s"), (32, "40s")]
        ex = {}
        p = os.path.join(vf.ROOT, ".build", "extract.json")
        if os.path.exists(p):
            ex = json.load(open(p)).get("locks", {})
        rc, out = vf.sh(["go", "build"] + vf.harness_modfile() + ["-race", "-tags", "verif", "-o", "bin/race", "./cmd/race"], cwd=vf.HARNESS, env=vf.GOENV, timeout=900)
        if rc != 0:
            return {"violations": [{"cases": [], "verdict": "race stress harness does not build: " + out[-500:]}], "coverage": {}}
        viol, stats = [], []
        for w, d in runs:
            env = dict(vf.GOENV, GORACE="halt_on_error=1 exitcode=66")
            secs = int(d.rstrip("s"))
            try:
                pr = subprocess.run([os.path.join(vf.HARNESS, "bin", "race"), "-d", d, "-w", str(w)], env=env, stdout=subprocess.PIPE, stderr=subprocess.PIPE, text=True, timeout=secs + 90)
            except subprocess.TimeoutExpired as te:
                viol.append({"cases": [], "verdict": "the concurrent decode / Dump / Get stress of the real template cache did not terminate (%d s after its %s of work): "
                             "some cache operation never returns (a lock acquired twice by one goroutine, or never released)" % (90, d),
                             "replay_cmd": "cd harness && go build -race -tags verif -o bin/race ./cmd/race && timeout %d ./bin/race -d %s -w %d" % (secs + 90, d, w),
                             "stderr_tail": ((te.stderr or b"")[-800:].decode("latin1") if isinstance(te.stderr, bytes) else str(te.stderr)[-800:])})
                break
            m = re.search(r"RACE-STRESS ok ops=(\d+) gets=(\d+) dumps=(\d+)", pr.stdout)
            if pr.returncode != 0 or not m:
                what = "DATA RACE" if "DATA RACE" in pr.stderr else ("fatal error / panic" if ("fatal error" in pr.stderr or "panic" in pr.stderr) else "unsound observation")
                frames = [l.strip() for l in pr.stderr.split("\n") if (vf.REPO + "/") in l][:6]
                viol.append({"cases": [], "verdict": "%s in the real template cache under concurrent decode / Dump / Get (workers=%d): %s %s" % (
                    what, w, " | ".join(frames), pr.stdout[-300:]), "replay_cmd": "cd harness && go build -race -o bin/race ./cmd/race && GORACE=halt_on_error=1 ./bin/race -d %s -w %d" % (d, w),
                    "stderr_tail": pr.stderr[-1500:]})
                break
            stats.append({"workers": w, "duration": d, "ops": int(m.group(1)), "gets": int(m.group(2)), "dumps": int(m.group(3))})
        notes = []
        if not viol:
            # peer lookups over the wire (the engine of C04: the real RPCServer / RPCClient on localhost): every answer is the one complete
            # definition the peer holds for exactly that key, whatever was fetched over that connection before
            try:
                from props import c04
                pf = c04.PROP.extra(tier, rng, known)
                viol += pf.get("violations", [])
                notes += pf.get("notes", [])
            except Exception as e:
                notes.append("peer-fetch engine not run: %s" % str(e)[:100])
        return {"violations": viol, "notes": notes, "coverage": {"lock_skeletons": ex, "race_detector_runs": stats,
                                                  "evaluations": sum(s["ops"] + s["gets"] + s["dumps"] for s in stats) or 1,
                                                  "distinct_nontrivial": max(2, len(ex))}}

    def rule(self):
        return ("the obligation is the kernel check of all 8 regenerated function skeletons at all 32 shards (256 operations, exhaustive). "
                "Tie: a -race build runs N IPFIX + N v9 decoder goroutines over overlapping/disjoint exporter/id keys (announcements drawn "
                "from a fixed family of definitions so completeness is checkable), concurrent Dump + reload of every dump, and IRPC.Get; "
                "observed: race reports, fatal errors, and that every lookup / reloaded template is one complete announced definition for its key. "
                "Every method of the cache types that locks a shard or touches a shard map is held to the protocol (functions added later too; "
                "delete() is a write), and the shard struct must consist of the map and the mutex only.  Freshness: 2 owners per protocol are the "
                "only announcers of 24 keys each (several per shard), announce version n and look it up at once (must be n) while 6 readers "
                "alternate over the same keys (what a reader gets for a key never goes back to an older version)")

    def trusted_base(self):
        return ["Coq 8.16.1 kernel incl. vm_compute (finite check of 256 operation instances)",
                "translator extract/locks.go (lock / map-access event skeletons from the AST, deferred unlocks placed at function end)",
                "that sync.RWMutex, Go maps and the Go memory model implement the modelled protocol at shard granularity",
                "the race detector run is sampling (schedules actually taken), not a proof"]

    def assumptions(self):
        return ["partial: start-up window in run() before mCache is assigned, and the append(addr, ...) in getShard not writing a shared backing array, are outside the model",
                "map operations are atomic events of the model; their atomicity under the lock protocol is exactly what race freedom justifies"]


PROP = P()
