# C13 — each received datagram is accounted for and published at most once.
from props.c12 import P as C12


class P(C12):
    id = "C13"

    def judge_counts(self, line, a, b, ca, cb):
        if a[1] != b[1]:
            return "UDPCount is %d after %d received datagrams" % (a[1], b[1])
        if a[2] != b[2]:
            return "DecodedCount is %d, but %d of the %d datagrams decode successfully" % (a[2], b[2], b[1])
        over = [x for x in ca if ca[x] > cb[x]]
        if over:
            return "a message was published %d times for %d datagram(s) that yield it" % (ca[over[0]], cb[over[0]])
        missing = [x for x in cb if cb[x] > ca[x]]
        if missing:
            return "%d datagram(s) that yield a record or sample were not published although the queue was not full (e.g. %r)" % (
                sum(cb[x] - ca[x] for x in missing), bytes.fromhex(missing[0])[:120])
        return None

    def rule(self):
        return C12.rule(self) + "; C13 compares UDPCount, DecodedCount and the multiplicity of every published payload (at most once, exactly once when it yields a record/sample; the queue holds 1000 messages and at most 300 are produced)"

    def assumptions(self):
        return C12.assumptions(self) + ["'decodes successfully' = Decode returned a message (possibly with a non-fatal error); for sFlow, SFDecode returned without error"]


PROP = P()
