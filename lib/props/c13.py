# C13 — each received datagram is accounted for and published at most once.
import vf
from props.c12 import P as C12


class P(C12):
    id = "C13"

    def judge_counts(self, line, a, b, ca, cb):
        if line in self.content_only:
            return None          # the producer was stalled: a full queue drops, how many arrive is not the question of these cases
        if a[1] != b[1]:
            return "UDPCount is %d after %d received datagrams" % (a[1], b[1])
        if a[2] != b[2]:
            return "DecodedCount is %d, but %d of the %d datagrams decode successfully" % (a[2], b[2], b[1])
        over = [x for x in ca if ca[x] > cb[x]]
        if over:
            return "a message was published %d times for %d datagram(s) that yield it" % (ca[over[0]], cb[over[0]])
        missing = [x for x in cb if cb[x] > ca[x]]
        if missing:
            return "%d datagram(s) that yield a record or sample were not published although the queue was not full (e.g. %r)" % (
                sum(cb[x] - ca[x] for x in missing), bytes.fromhex(missing[0])[:120])
        return None

    def extra(self, tier, rng, known):
        """the RECEIVE LOOPS themselves (run() of the four pipelines), which the pipeline driver only emulates: the built binary on real
        UDP sockets; datagrams of every length from 0 octets up, decodable and not, paced so that the loopback loses none; then
        the counters of the /flow status page and the lines the raw-socket sink got"""
        import json, os, shutil, signal, socket, tempfile, time
        from props import c15, sfgen, c08
        from props.flowgen import Gen, load_model, TEST_EXT
        rc, out = vf.sh(["go", "build", "-o", os.path.join(vf.HARNESS, "bin", "vflow"), "./vflow/"], cwd=vf.REPO, env=vf.GOENV, timeout=900)
        if rc != 0:
            return {"violations": [{"cases": [], "no_failing_input": True, "verdict": "vflow binary does not build: " + out[-300:]}], "coverage": {}}
        dump = vf.run_impl(["infomodel builtin"], shards=1)[0]
        model = {k: v for k, v in load_model(dump).items() if k[0] == 0 and k != (0, 0)}
        for k in TEST_EXT:
            model.pop(k, None)
        d = tempfile.mkdtemp(prefix="verif-acct-", dir=os.path.join(vf.ROOT, ".build"))
        sink = c15.Sink()
        viol, cov = [], {}
        try:
            col = c15.Collector(d, sink.port)
            if not col.start():
                return {"violations": [{"cases": [], "verdict": "collector did not start"}], "coverage": {}}
            sock = socket.socket(socket.AF_INET, socket.SOCK_DGRAM); sock.bind(("127.0.0.1", 0))
            sent = {"ipfix": [], "nf9": [], "nf5": [], "sflow": []}      # (payload, decodes, publishes)
            rounds = 2 if tier == "quick" else 12
            for r in range(rounds):
                for proto in ("ipfix", "nf9"):
                    g = Gen(proto, model, rng)
                    while True:
                        t, o = g.rand_tpl(tid=256 + r, allow_var=False, opts=False, nfields=3)
                        if g.min_rec_len(t) > 4:      # (keeps clear of the recorded finding: a final record of <= 4 octets is taken for padding)
                            break
                    tmsg = g.enc_msg([g.enc_set(g.tpl_set_id(False), g.enc_tpl(t, False))])
                    dmsg = g.enc_msg([g.enc_set(t.tid, g.rand_record(t)[0])], seq=r + 1)
                    sent[proto] += [(tmsg, True, False), (dmsg, True, True), (b"", False, False), (bytes(3), False, False),
                                    (g.enc_msg([g.enc_set(9000 + r, bytes(8))]), True, False), (b"", False, False)]
                v5 = c08.PROP.packet(rng, 2)
                sent["nf5"] += [(v5, True, True), (b"", False, False), (bytes(3), False, False), (v5[:17], False, False), (c08.PROP.packet(rng, 1), True, True)]
                while True:
                    sf = sfgen.gen_datagram(rng, kinds=["flow", "counter"])[0]
                    if len(sf) <= 1400:        # (the collector reads into buffers of max-udp-size = 1500 octets: a longer datagram is cut on receipt)
                        break
                sent["sflow"] += [(sf, True, True), (b"", False, False), (bytes(5), False, False), (sfgen.gen_datagram(rng, kinds=["unknown"])[0], True, False)]
            keys = {"ipfix": "IPFIX", "nf9": "NetflowV9", "nf5": "NetflowV5", "sflow": "SFlow"}
            # the template announcements first, and not before the collector has counted them as decoded does anything follow (with
            # several workers a data message could otherwise overtake its template: a matter of the exporter's pacing, not of accounting)
            for proto in ("ipfix", "nf9"):
                tm = [x for i, x in enumerate(sent[proto]) if i % 6 == 0]
                rest = [x for i, x in enumerate(sent[proto]) if i % 6 != 0]
                for (pl, _, _) in tm:
                    sock.sendto(pl, ("127.0.0.1", col.ports[proto])); time.sleep(0.004)
                t1 = time.time()
                while time.time() - t1 < 5:
                    st = col.stats() or {}
                    if (st.get(keys[proto]) or {}).get("DecodedCount") == len(tm):
                        break
                    time.sleep(0.05)
                sent[proto] = tm + rest
                for (pl, _, _) in rest:
                    sock.sendto(pl, ("127.0.0.1", col.ports[proto])); time.sleep(0.004)
            for proto in ("nf5", "sflow"):
                for (pl, _, _) in sent[proto]:
                    sock.sendto(pl, ("127.0.0.1", col.ports[proto])); time.sleep(0.004)
            want = {p: (len(l), sum(1 for x in l if x[1]), sum(1 for x in l if x[2])) for p, l in sent.items()}
            got = {}
            t0 = time.time()
            while time.time() - t0 < 6:
                st = col.stats() or {}
                got = {p: ((st.get(k) or {}).get("UDPCount"), (st.get(k) or {}).get("DecodedCount")) for p, k in keys.items()}
                if all(got[p] == (want[p][0], want[p][1]) for p in want):
                    break
                time.sleep(0.1)
            time.sleep(0.3)
            with sink.lock:
                published = len(sink.lines)
            cov = {"e2e_datagrams_sent": {p: want[p][0] for p in want}, "e2e_counters": {p: list(got[p]) for p in got}, "e2e_published_lines": published}
            for p in want:
                if got.get(p) is None or got[p][0] is None:
                    viol.append({"cases": [], "no_failing_input": True, "verdict": "the status page has no counters for " + p}); break
                if got[p][0] != want[p][0]:
                    lens = sorted(set(len(x[0]) for x in sent[p]))
                    viol.append({"cases": ["%d %s datagrams sent to the real socket, of lengths %s (zero-length ones included)" % (want[p][0], p, lens)],
                                 "verdict": "%s: %d datagrams were sent to the collector's UDP port (paced, loopback) and UDPCount is %s: received datagrams are not accounted for" % (p, want[p][0], got[p][0])}); break
                if got[p][1] != want[p][1]:
                    detail = []
                    if p in ("sflow", "nf5"):
                        # which of them: each datagram on its own through the decoder (harness) and through the model
                        ls = ["%s %s%s" % (p, "" if p == "sflow" else "x0a000001 ", "x" + x[0].hex()) for x in sent[p]]
                        im, mo = vf.run_impl(ls, shards=1), vf.run_model(ls)
                        detail = [(l[:200], i[:80], m[:80]) for l, i, m, x in zip(ls, im, mo, sent[p]) if x[1] != (i not in ("NONE",) and not i.startswith(("ERR", "FAIL"))) ][:3]
                    viol.append({"cases": [d[0] for d in detail], "verdict": "%s: DecodedCount is %s, but %d of the %d datagrams sent decode successfully %s" % (p, got[p][1], want[p][1], want[p][0], detail)}); break
            tot_pub = sum(want[p][2] for p in want)
            if not viol and published != tot_pub:
                viol.append({"cases": [], "verdict": "%d messages reached the sink for %d datagrams that yield a record or sample" % (published, tot_pub)})
            col.stop(signal.SIGTERM)
            # the same counters as the DEFAULT stats format shows them (the Prometheus page): a second life of the collector gets, per
            # protocol, datagrams that decode and datagrams that do not; received and decoded packets are reported under their names
            if not viol:
                col2 = c15.Collector(d, sink.port, stats_format="prometheus")
                if col2.start():
                    try:
                        names = {"ipfix": "ipfix", "nf9": "netflowv9", "nf5": "netflowv5", "sflow": "sflow"}
                        want2 = {}
                        for proto in ("ipfix", "nf9", "nf5", "sflow"):
                            good = [x[0] for x in sent[proto] if x[1]][:3]
                            bad = [bytes(3), b"", bytes(5), bytes([255] * 7)]
                            for pl in good + bad:
                                sock.sendto(pl, ("127.0.0.1", col2.ports[proto])); time.sleep(0.01)
                            want2[proto] = (len(good) + len(bad), None)
                        # how many of them decode: what the restful page of the first life said about the very same payloads is not
                        # available; the decoder itself decides (harness), as in the first phase
                        t0, m = time.time(), {}
                        while time.time() - t0 < 5:
                            m = col2.metrics() or {}
                            if all(m.get("vflow_%s_udp_packets" % names[p]) == want2[p][0] for p in want2):
                                break
                            time.sleep(0.1)
                        time.sleep(0.3)
                        m = col2.metrics() or m
                        cov["prometheus_counters"] = {p: [m.get("vflow_%s_udp_packets" % names[p]), m.get("vflow_%s_decoded_packets" % names[p])] for p in want2}
                        for p in want2:
                            u, dcd = m.get("vflow_%s_udp_packets" % names[p]), m.get("vflow_%s_decoded_packets" % names[p])
                            ngood = len([x for x in sent[p] if x[1]][:3])
                            if u is None or dcd is None:
                                viol.append({"cases": [], "no_failing_input": True, "verdict": "the Prometheus page has no packet counters for " + p}); break
                            if u != want2[p][0] or dcd != ngood:
                                viol.append({"cases": ["%d %s datagrams: %d that decode, then 4 that do not (3 zero octets, empty, 5 zero octets, 7 octets of 0xff)" % (want2[p][0], p, ngood)],
                                             "verdict": "%s, default stats format (Prometheus page): %d datagrams were sent, %d of them decode; the page reports vflow_%s_udp_packets = %s and "
                                                        "vflow_%s_decoded_packets = %s" % (p, want2[p][0], ngood, names[p], u, names[p], dcd)}); break
                    finally:
                        col2.stop(signal.SIGTERM)
        finally:
            sink.close()
            try:
                if col.p and col.p.poll() is None:
                    col.p.kill()
            except Exception:
                pass
            shutil.rmtree(d, ignore_errors=True)
        return {"violations": viol[:1], "coverage": cov, "notes": ["end-to-end accounting over the real receive loops: %s" % cov.get("e2e_datagrams_sent")]}

    def rule(self):
        return C12.rule(self) + "; C13 compares UDPCount, DecodedCount and the multiplicity of every published payload (at most once, exactly once when it yields a record/sample; the queue holds 1000 messages and at most 300 are produced). Plus the real receive loops: the built binary gets datagrams of 0, 3, 5, 30 ... octets and well-formed ones on its four UDP ports (paced), then UDPCount / DecodedCount of the status page and the lines at the sink are compared with what was sent"

    def assumptions(self):
        return C12.assumptions(self) + ["'decodes successfully' = Decode returned a message (possibly with a non-fatal error); for sFlow, SFDecode returned without error"]


PROP = P()
