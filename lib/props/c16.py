# C16 — mirrored datagrams reach the third-party collector unchanged.
# The REAL mirrorIPFIX / mirrorSFlow goroutines (in-package verif driver) send through their own raw
# socket; a SOCK_RAW/IPPROTO_UDP receive socket observes the complete packets on the loopback.
import vf
from props.common import hx


class P:
    id = "C16"

    def __init__(self):
        self.cj = {}

    def budget(self, tier):
        return 16 if tier == "quick" else 300

    def cases(self, tier, rng, budget):
        out = []
        for i in range(budget):
            proto = ["ipfix", "sflow"][i % 2]
            mx = rng.choice([512, 1500, 1500, 9000])
            port = rng.randrange(20000, 60000)
            lens = [0, 1, mx - 29, mx - 28, mx - 27, mx - 1, mx] + [rng.randrange(0, mx + 1) for _ in range(6)]
            rng.shuffle(lens)
            # consecutive datagrams of equal length from different exporters, too
            lens += [100, 100, 100, mx, mx]
            dg = []
            for n in lens:
                a4 = bytes([rng.choice([10, 172, 192, 198]), rng.randrange(256), rng.randrange(256), rng.randrange(1, 255)])
                src = a4 if rng.random() < 0.5 else bytes(10) + b"\xff\xff" + a4
                dg.append((src, bytes(rng.randrange(256) for _ in range(n))))
            dst = bytes([127, 0, 0, 1])
            line = "mirror %s %d %s %d %s" % (proto, mx, hx(dst), port, " ".join("%s %s" % (hx(s), hx(p)) for s, p in dg))
            self.cj[line] = {"cmd": "mirror", "proto": proto, "udpsize": mx, "dst": "127.0.0.1", "port": port,
                             "dgrams": [[s.hex(), p.hex()] for s, p in dg]}
            out.append(line)
        return out

    def run_impl(self, lines):
        res = vf.run_driver([self.cj[l] for l in lines], timeout=1800)
        out = []
        for r in res:
            if "error" in r:
                out.append("DRIVER-ERROR " + r["error"][:200]); continue
            items = []
            for o in r["results"]:
                if o["status"] == "OK":
                    b = bytearray.fromhex(o["packet"])
                    b[4:6] = b"\0\0"; b[10:12] = b"\0\0"     # identification and header checksum are filled in by the kernel
                    items.append("x" + b.hex())
                else:
                    items.append(o["status"] + ("(%s)" % o.get("detail", "")[:60].replace(" ", "_") if o.get("detail") else ""))
            out.append(" ".join(items) + (" FOREIGN-BUFFERS=%d" % r["foreign_buffers"] if r.get("foreign_buffers") else ""))
        return out

    def judge(self, line, impl, model):
        if impl.startswith("DRIVER-ERROR"):
            return impl
        c = self.cj[line]
        if " FOREIGN-BUFFERS=" in impl:
            return "mirroring returned %s receive buffer(s) to the pool of another protocol (buffers of the wrong size then reach that protocol's receive loop)" % impl.rsplit("=", 1)[1]
        got, want = impl.split(" "), model.split(" ")
        for k, (g, w, d) in enumerate(zip(got, want, c["dgrams"])):
            src, payload = bytes.fromhex(d[0]), bytes.fromhex(d[1])
            if g.startswith("PANIC"):
                return "mirroring datagram %d (%d octets, max-udp-size %d, %d-byte source address) panics: %s" % (k, len(payload), c["udpsize"], len(src), g)
            if g == "NONE":
                return "datagram %d (%d octets) was not re-emitted towards the mirror target" % (k, len(payload))
            p = bytes.fromhex(g[1:])
            # the property, directly
            if p[12:16] != src[-4:]:
                return "datagram %d: IP source %s is not the exporter %s" % (k, p[12:16].hex(), src[-4:].hex())
            if p[16:20] != bytes([127, 0, 0, 1]) or int.from_bytes(p[22:24], "big") != c["port"]:
                return "datagram %d: wrong destination %s:%d" % (k, p[16:20].hex(), int.from_bytes(p[22:24], "big"))
            if int.from_bytes(p[2:4], "big") != 28 + len(payload) or int.from_bytes(p[24:26], "big") != 8 + len(payload):
                return "datagram %d: IP/UDP length fields %d/%d inconsistent with a payload of %d octets" % (k, int.from_bytes(p[2:4], "big"), int.from_bytes(p[24:26], "big"), len(payload))
            if p[28:] != payload:
                return "datagram %d: payload altered (%d octets sent, %d received)" % (k, len(payload), len(p) - 28)
            if g != w:
                return "model/implementation disagreement on datagram %d: impl %s model %s" % (k, g[:80], w[:80])
        if len(got) != len(want):
            return "%d datagrams mirrored, %d expected" % (len(got), len(want))
        return None

    def classify(self, line, impl, model):
        c = self.cj[line]
        return ("%s max=%d" % (c["proto"], c["udpsize"]), line)

    def tie_obligations(self):
        return 0

    def rule(self):
        return ("per case (IPFIX and sFlow mirror functions alternately; max-udp-size 512/1500/9000; random target port): 18 datagrams with "
                "payload lengths 0, 1, max-29..max, random, and runs of equal length from different exporters; source addresses in 4-byte "
                "and IPv4-mapped 16-byte form; every octet of the packet seen on the wire is compared except IP identification and header "
                "checksum (filled in by the kernel for IPPROTO_RAW senders). every case is distinct")

    def trusted_base(self):
        return ["Coq 8.16.1 kernel",
                "hand model coq/Model/Mirror.v of mirrorIPFIX/mirrorSFlow + mirror/{ipv4,udp}.go, tied by this run",
                "in-package verif driver vflow/verif_mirror_test.go (runs the real mirror goroutine; observes the loopback with a raw receive socket; needs CAP_NET_RAW)",
                "the Linux kernel's raw-socket send path (fills identification, checksum, total length)"]

    def assumptions(self):
        return ["partial: delivery by the kernel / network is outside the model; 'never changes what is decoded and published' is C12 (the mirror copy is made before decoding)",
                "IPv6 mirror targets are not modelled"]


PROP = P()
