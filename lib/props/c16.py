# C16 — mirrored datagrams reach the third-party collector unchanged.
# The REAL mirrorIPFIX / mirrorSFlow goroutines (in-package verif driver) send through their own raw
# socket; a SOCK_RAW/IPPROTO_UDP receive socket observes the complete packets on the loopback.
import json, os
import vf
from props.common import hx


class P:
    id = "C16"

    def __init__(self):
        self.cj = {}
        self.off = {}

    def budget(self, tier):
        return 16 if tier == "quick" else 300

    def cases(self, tier, rng, budget):
        out = []
        for i in range(budget):
            proto = ["ipfix", "sflow"][i % 2]
            mx = rng.choice([512, 1500, 1500, 9000])
            # (the target port also depends on the process: the observer is a raw socket that sees every UDP packet on the host, and two
            # runs of this check at the same time with the same seed would otherwise watch each other's packets)
            port = 20000 + (rng.randrange(40000) + os.getpid() * 7919) % 40000
            lens = [0, 1, mx - 29, mx - 28, mx - 27, mx - 1, mx] + [rng.randrange(0, mx + 1) for _ in range(6)]
            # where an IP layer with a 1500-octet MTU cuts (max-udp-size above it only): payloads that end exactly at, one before and one
            # after a fragment boundary (28 + n = 20 + k * 1480), and at the largest unfragmented size
            lens += [n for k in range(1, 7) for n in (k * 1480 - 9, k * 1480 - 8, k * 1480 - 7) if 0 <= n <= mx and (k < 3 or rng.random() < 0.5)]
            rng.shuffle(lens)
            # consecutive datagrams of equal length from different exporters, too
            lens += [100, 100, 100, mx, mx]
            dg = []
            for n in lens:
                a4 = bytes([rng.choice([10, 172, 192, 198]), rng.randrange(256), rng.randrange(256), rng.randrange(1, 255)])
                src = a4 if rng.random() < 0.5 else bytes(10) + b"\xff\xff" + a4
                dg.append((src, bytes(rng.randrange(256) for _ in range(n))))
            # ... and runs of equal length from exporters whose addresses agree in all but ONE octet (each position in turn), in both
            # address forms: whatever is remembered from the previous datagram under a key made of part of the address shows here
            base = bytes([rng.choice([10, 172, 192]), rng.randrange(1, 255), rng.randrange(1, 255), rng.randrange(1, 255)])
            n = rng.choice([1, 64, 100, mx])
            for k in (0, 1, 2, 3, 0, 3):
                v = bytearray(base); v[k] = (v[k] + rng.randrange(1, 200)) % 256 or 1
                for a4 in (base, bytes(v)):
                    src = a4 if rng.random() < 0.5 else bytes(10) + b"\xff\xff" + a4
                    dg.append((src, bytes(rng.randrange(256) for _ in range(n))))
            dst = bytes([127, 0, 0, 1])
            line = "mirror %s %d %s %d %s" % (proto, mx, hx(dst), port, " ".join("%s %s" % (hx(s), hx(p)) for s, p in dg))
            self.cj[line] = {"cmd": "mirror", "proto": proto, "udpsize": mx, "dst": "127.0.0.1", "port": port,
                             "dgrams": [[s.hex(), p.hex()] for s, p in dg]}
            # every third case: the datagrams reach the mirror goroutine in BURSTS (3 or 8 are in its queue before it runs): each is
            # still re-emitted with its own source, lengths and payload, in order
            if i % 3 == 2:
                self.cj[line]["burst"] = rng.choice([3, 8])
            # every fourth case goes through the real mirror DISPATCHER (the goroutine between the workers' mirror queue and the mirror
            # workers), exporters in 4-octet and 16-octet form alike
            if i % 4 in (1, 2):       # (one sFlow, one IPFIX case out of four)
                self.cj[line]["dispatch"] = True
                # ... and the exporters send from all kinds of UDP source ports (the ports the mirror itself sends from among them: an
                # exporter may use any ephemeral port)
                ports = [55117, 55118, 0, 1, 1024, 4739, 6343, 65535, 40000]
                self.cj[line]["dgrams"] = [x + [str(ports[k % len(ports)])] for k, x in enumerate(self.cj[line]["dgrams"])]
            out.append(line)
        # the copy the WORKER makes for the mirror goroutine (vflow/ipfix.go, vflow/sflow.go): real workers with mirroring on, the
        # mirror queue read only after all datagrams were processed (an aliased or reused buffer is then visibly overwritten)
        for i in range(max(4, budget // 2)):
            proto = ["ipfix", "sflow"][i % 2]
            mx = rng.choice([512, 1500, 9000])
            workers = rng.choice([1, 1, 2, 4])
            dg = []
            for _ in range(rng.choice([2, 5, 40, 200])):
                n = rng.choice([0, 1, 20, 100, 100, mx // 2, mx - 1, mx, rng.randrange(0, mx + 1)])
                a4 = bytes([rng.choice([10, 172, 192, 198]), rng.randrange(256), rng.randrange(256), rng.randrange(1, 255)])
                src = a4 if rng.random() < 0.5 else bytes(10) + b"\xff\xff" + a4
                dg.append((src, bytes(rng.randrange(256) for _ in range(n))))
            line = "pmirror %s %d w%d %s" % (proto, mx, workers, " ".join("%s %s" % (hx(s), hx(p)) for s, p in dg))
            self.cj[line] = {"cmd": "pipeline", "proto": proto, "workers": workers, "udpsize": mx, "mirror": True, "pre": [], "filter": [],
                             "ext_elements": [], "dgrams": [[s.hex(), p.hex()] for s, p in dg]}
            out.append(line)
        # 'mirroring never changes what is decoded and published': the same datagrams through the real workers with mirroring ON and
        # OFF must publish the same messages and count the same; including more datagrams than the mirror queue holds (1000; nothing
        # drains it here), short ones first and long ones afterwards
        from props import sfgen
        from props.flowgen import Gen
        from props.flowprop import go_model
        g = Gen("ipfix", go_model(), rng)
        for proto in ("ipfix", "sflow"):
            for overflow in ([False, True] if tier == "quick" else [False, True, True, False, True]):
                dg = []
                a = bytes([192, 0, 2, 9])
                if proto == "sflow":
                    quiet = sfgen.gen_datagram(rng, kinds=["unknown"])[0]
                    mk = lambda: sfgen.gen_datagram(rng, kinds=[rng.choice(["flow", "counter"]) for _ in range(rng.choice([1, 3, 6]))])[0]
                    pre = []
                else:
                    t, o = g.rand_tpl(tid=256, allow_var=False)
                    pre = [[a.hex(), g.enc_msg([g.enc_set(g.tpl_set_id(o), g.enc_tpl(t, o))]).hex()]]
                    quiet = g.enc_msg([g.enc_set(7777, bytes(16))])
                    mk = lambda: g.enc_msg([g.enc_set(256, b"".join(g.rand_record(t)[0] for _ in range(rng.choice([1, 4, 12]))))])
                n_quiet = rng.choice([1005, 1100]) if overflow else rng.choice([3, 40])
                dg = [(a, quiet)] * n_quiet + [(a, p) for p in (mk() for _ in range(40)) if len(p) <= 1400]
                if overflow:
                    # ... and once the queue is full: short ones and long ones in alternation
                    dg += [(a, quiet if i % 2 == 0 else mk()[:1400]) for i in range(30)]
                line = "pmirror-onoff %s %d %s" % (proto, len(dg), "overflow" if overflow else "room")
                base = {"cmd": "pipeline", "proto": proto, "workers": 1, "udpsize": 1500, "pre": pre, "filter": [], "procs": 1,
                        "ext_elements": [], "dgrams": [[s.hex(), p.hex()] for s, p in dg]}
                self.cj[line] = dict(base, mirror=True)
                self.off[line] = dict(base, mirror=False)
                out.append(line)
        return out

    def post(self, lines, impl, model):
        return impl, [("-" if l.startswith("pmirror") else m) for l, m in zip(lines, model)]

    def run_impl(self, lines):
        import re
        res = vf.run_driver([self.cj[l] for l in lines], timeout=1800)
        onoff = [l for l in lines if l in self.off]
        res_off = dict(zip(onoff, vf.run_driver([self.off[l] for l in onoff], timeout=1800))) if onoff else {}
        out = []
        for l, r in zip(lines, res):
            if "error" in r and r["error"]:
                out.append("DRIVER-ERROR " + r["error"][:200]); continue
            if l in self.off:
                r0 = res_off[l]
                if r0.get("error"):
                    out.append("DRIVER-ERROR " + r0["error"][:200]); continue
                norm = lambda r_: [re.sub(rb'"ColTime":\d+\}$', b'"ColTime":0}', bytes.fromhex(x)).hex() for x in (r_.get("published") or [])]
                out.append("ONOFF " + json.dumps({"on": [norm(r), r["udp_count"], r["decoded_count"], r.get("short_buffers", 0)],
                                                  "off": [norm(r0), r0["udp_count"], r0["decoded_count"], r0.get("short_buffers", 0)]}))
                continue
            if l.startswith("pmirror"):
                out.append("Q " + " ".join("%s/%s" % (a, b) for a, b in (r.get("mirrored_msgs") or [])))
                continue
            items = []
            for o in r["results"]:
                if o["status"] == "OK":
                    b = bytearray.fromhex(o["packet"])
                    b[4:6] = b"\0\0"; b[10:12] = b"\0\0"     # identification and header checksum are filled in by the kernel
                    items.append("x" + b.hex())
                else:
                    items.append(o["status"] + ("(%s)" % o.get("detail", "")[:60].replace(" ", "_") if o.get("detail") else ""))
            out.append(" ".join(items) + (" FOREIGN-BUFFERS=%d" % r["foreign_buffers"] if r.get("foreign_buffers") else ""))
        return out

    def judge(self, line, impl, model):
        if impl.startswith("DRIVER-ERROR"):
            return impl
        c = self.cj[line]
        if impl.startswith("ONOFF "):
            d = json.loads(impl[6:])
            (pon, uon, don, son), (poff, uoff, doff, soff) = d["on"], d["off"]
            if pon != poff:
                k = next((i for i, (x, y) in enumerate(zip(pon, poff)) if x != y), min(len(pon), len(poff)))
                return ("mirroring changes what is published: the same %d %s datagrams publish %d messages with mirroring on and %d with mirroring off "
                        "(first difference at message %d: on %r / off %r)" % (len(c["dgrams"]), c["proto"], len(pon), len(poff), k + 1,
                        bytes.fromhex(pon[k])[:120] if k < len(pon) else None, bytes.fromhex(poff[k])[:120] if k < len(poff) else None))
            if (uon, don) != (uoff, doff):
                return "mirroring changes the counters: UDPCount/DecodedCount %d/%d with mirroring on, %d/%d off" % (uon, don, uoff, doff)
            if son and not soff:
                return ("with mirroring on, %d receive buffer(s) shorter than max-udp-size are left in the pool (none with mirroring off): the next longer "
                        "datagrams are truncated on receipt, so what is decoded, published and mirrored changes" % son)
            return None
        if line.startswith("pmirror"):
            import collections
            got = [tuple(x.split("/")) for x in impl[2:].split(" ") if x]
            want = [(a, b) for a, b in c["dgrams"]]
            if c["workers"] == 1 and got != want or collections.Counter(got) != collections.Counter(want):
                bad = [g for g in got if g not in want]
                if bad:
                    return ("the %s worker queued for mirroring a datagram that was never received (source %s, %d octets: %s...): the copy handed to "
                            "the mirror goroutine was overwritten or is not the received payload" % (c["proto"], bad[0][0], len(bad[0][1]) // 2, bad[0][1][:40]))
                return "the %s worker queued %d datagrams for mirroring, %d were received (queue capacity 1000)" % (c["proto"], len(got), len(want))
            return None
        if " FOREIGN-BUFFERS=" in impl:
            return "mirroring returned %s receive buffer(s) to the pool of another protocol (buffers of the wrong size then reach that protocol's receive loop)" % impl.rsplit("=", 1)[1]
        got, want = impl.split(" "), model.split(" ")
        for k, (g, w, d) in enumerate(zip(got, want, c["dgrams"])):
            src, payload = bytes.fromhex(d[0]), bytes.fromhex(d[1])
            if g.startswith("PANIC"):
                return "mirroring datagram %d (%d octets, max-udp-size %d, %d-byte source address) panics: %s" % (k, len(payload), c["udpsize"], len(src), g)
            if g == "NONE":
                return "datagram %d (%d octets) was not re-emitted towards the mirror target" % (k, len(payload))
            p = bytes.fromhex(g[1:])
            # the property, directly
            if p[12:16] != src[-4:]:
                return "datagram %d: IP source %s is not the exporter %s" % (k, p[12:16].hex(), src[-4:].hex())
            if p[16:20] != bytes([127, 0, 0, 1]) or int.from_bytes(p[22:24], "big") != c["port"]:
                return "datagram %d: wrong destination %s:%d" % (k, p[16:20].hex(), int.from_bytes(p[22:24], "big"))
            if int.from_bytes(p[2:4], "big") != 28 + len(payload) or int.from_bytes(p[24:26], "big") != 8 + len(payload):
                return "datagram %d: IP/UDP length fields %d/%d inconsistent with a payload of %d octets" % (k, int.from_bytes(p[2:4], "big"), int.from_bytes(p[24:26], "big"), len(payload))
            if p[28:] != payload:
                return "datagram %d: payload altered (%d octets sent, %d received)" % (k, len(payload), len(p) - 28)
            ck = int.from_bytes(p[26:28], "big")
            if ck != 0:
                # over IPv4 a UDP checksum of 0 means 'none'; any other value is verified by the receiving host, which drops the
                # datagram when it is wrong: it then does not reach the third-party collector
                seg = p[12:20] + bytes([0, 17]) + p[24:26] + p[20:26] + b"\0\0" + p[28:]
                seg += b"\0" * (len(seg) % 2)
                t = sum(int.from_bytes(seg[i:i + 2], "big") for i in range(0, len(seg), 2))
                while t >> 16:
                    t = (t & 0xffff) + (t >> 16)
                good = (~t) & 0xffff or 0xffff
                if ck != good:
                    return ("datagram %d (%d octets, after datagrams of %s octets): the UDP checksum on the wire is 0x%04x, the correct one is 0x%04x: the "
                            "mirror target's host discards the datagram" % (k, len(payload), [len(x[1]) // 2 for x in c["dgrams"][max(0, k - 3):k]], ck, good))
        if len(got) != len(want):
            return "%d datagrams mirrored, %d expected" % (len(got), len(want))
        # the property holds for every datagram of the case; only then: the correspondence with the model
        for k, (g, w) in enumerate(zip(got, want)):
            if g != w:
                return "model/implementation disagreement on datagram %d: impl %s model %s" % (k, g[:80], w[:80])
        return None

    def classify(self, line, impl, model):
        c = self.cj[line]
        return ("%s %s max=%d" % (line.split(" ", 1)[0], c["proto"], c["udpsize"]), line)

    def tie_obligations(self):
        return 0

    def rule(self):
        return ("per case (IPFIX and sFlow mirror functions alternately; max-udp-size 512/1500/9000; random target port): 18 datagrams with "
                "payload lengths 0, 1, max-29..max, random, and runs of equal length from different exporters; source addresses in 4-byte "
                "and IPv4-mapped 16-byte form; every octet of the packet seen on the wire is compared except IP identification and header "
                "checksum (filled in by the kernel for IPPROTO_RAW senders); a UDP checksum other than 0 must be the correct one. Plus 'pmirror' cases: the REAL ipfix/sflow workers with mirroring on "
                "(1/2/4 workers, 2-200 datagrams of mixed sizes), the mirror queue read only afterwards: what the worker queued must be exactly the "
                "received (source, payload) pairs. Plus 'pmirror-onoff': the same datagrams (incl. 1005-1100 short ones that overflow the 1000-entry mirror queue, then long "
                "ones) through the real worker with mirroring on and off: same published messages, same counters, no short buffers left in the pool. every case is distinct")

    def trusted_base(self):
        return ["Coq 8.16.1 kernel",
                "hand model coq/Model/Mirror.v of mirrorIPFIX/mirrorSFlow + mirror/{ipv4,udp}.go, tied by this run",
                "in-package verif driver vflow/verif_mirror_test.go (runs the real mirror goroutine; observes the loopback with a raw receive socket; needs CAP_NET_RAW)",
                "the Linux kernel's raw-socket send path (fills identification, checksum, total length)"]

    def assumptions(self):
        return ["partial: delivery by the kernel / network is outside the model; 'never changes what is decoded and published' is C12 (the mirror copy is made before decoding)",
                "IPv6 mirror targets are not modelled"]


PROP = P()
