# C16 — mirrored datagrams reach the third-party collector unchanged.
# The REAL mirrorIPFIX / mirrorSFlow goroutines (in-package verif driver) send through their own raw
# socket; a SOCK_RAW/IPPROTO_UDP receive socket observes the complete packets on the loopback.
import vf
from props.common import hx


class P:
    id = "C16"

    def __init__(self):
        self.cj = {}

    def budget(self, tier):
        return 16 if tier == "quick" else 300

    def cases(self, tier, rng, budget):
        out = []
        for i in range(budget):
            proto = ["ipfix", "sflow"][i % 2]
            mx = rng.choice([512, 1500, 1500, 9000])
            port = rng.randrange(20000, 60000)
            lens = [0, 1, mx - 29, mx - 28, mx - 27, mx - 1, mx] + [rng.randrange(0, mx + 1) for _ in range(6)]
            rng.shuffle(lens)
            # consecutive datagrams of equal length from different exporters, too
            lens += [100, 100, 100, mx, mx]
            dg = []
            for n in lens:
                a4 = bytes([rng.choice([10, 172, 192, 198]), rng.randrange(256), rng.randrange(256), rng.randrange(1, 255)])
                src = a4 if rng.random() < 0.5 else bytes(10) + b"\xff\xff" + a4
                dg.append((src, bytes(rng.randrange(256) for _ in range(n))))
            dst = bytes([127, 0, 0, 1])
            line = "mirror %s %d %s %d %s" % (proto, mx, hx(dst), port, " ".join("%s %s" % (hx(s), hx(p)) for s, p in dg))
            self.cj[line] = {"cmd": "mirror", "proto": proto, "udpsize": mx, "dst": "127.0.0.1", "port": port,
                             "dgrams": [[s.hex(), p.hex()] for s, p in dg]}
            out.append(line)
        # the copy the WORKER makes for the mirror goroutine (vflow/ipfix.go, vflow/sflow.go): real workers with mirroring on, the
        # mirror queue read only after all datagrams were processed (an aliased or reused buffer is then visibly overwritten)
        for i in range(max(4, budget // 2)):
            proto = ["ipfix", "sflow"][i % 2]
            mx = rng.choice([512, 1500, 9000])
            workers = rng.choice([1, 1, 2, 4])
            dg = []
            for _ in range(rng.choice([2, 5, 40, 200])):
                n = rng.choice([0, 1, 20, 100, 100, mx // 2, mx - 1, mx, rng.randrange(0, mx + 1)])
                a4 = bytes([rng.choice([10, 172, 192, 198]), rng.randrange(256), rng.randrange(256), rng.randrange(1, 255)])
                src = a4 if rng.random() < 0.5 else bytes(10) + b"\xff\xff" + a4
                dg.append((src, bytes(rng.randrange(256) for _ in range(n))))
            line = "pmirror %s %d w%d %s" % (proto, mx, workers, " ".join("%s %s" % (hx(s), hx(p)) for s, p in dg))
            self.cj[line] = {"cmd": "pipeline", "proto": proto, "workers": workers, "udpsize": mx, "mirror": True, "pre": [], "filter": [],
                             "ext_elements": [], "dgrams": [[s.hex(), p.hex()] for s, p in dg]}
            out.append(line)
        return out

    def post(self, lines, impl, model):
        return impl, [("-" if l.startswith("pmirror") else m) for l, m in zip(lines, model)]

    def run_impl(self, lines):
        res = vf.run_driver([self.cj[l] for l in lines], timeout=1800)
        out = []
        for l, r in zip(lines, res):
            if "error" in r and r["error"]:
                out.append("DRIVER-ERROR " + r["error"][:200]); continue
            if l.startswith("pmirror"):
                out.append("Q " + " ".join("%s/%s" % (a, b) for a, b in (r.get("mirrored_msgs") or [])))
                continue
            items = []
            for o in r["results"]:
                if o["status"] == "OK":
                    b = bytearray.fromhex(o["packet"])
                    b[4:6] = b"\0\0"; b[10:12] = b"\0\0"     # identification and header checksum are filled in by the kernel
                    items.append("x" + b.hex())
                else:
                    items.append(o["status"] + ("(%s)" % o.get("detail", "")[:60].replace(" ", "_") if o.get("detail") else ""))
            out.append(" ".join(items) + (" FOREIGN-BUFFERS=%d" % r["foreign_buffers"] if r.get("foreign_buffers") else ""))
        return out

    def judge(self, line, impl, model):
        if impl.startswith("DRIVER-ERROR"):
            return impl
        c = self.cj[line]
        if line.startswith("pmirror"):
            import collections
            got = [tuple(x.split("/")) for x in impl[2:].split(" ") if x]
            want = [(a, b) for a, b in c["dgrams"]]
            if c["workers"] == 1 and got != want or collections.Counter(got) != collections.Counter(want):
                bad = [g for g in got if g not in want]
                if bad:
                    return ("the %s worker queued for mirroring a datagram that was never received (source %s, %d octets: %s...): the copy handed to "
                            "the mirror goroutine was overwritten or is not the received payload" % (c["proto"], bad[0][0], len(bad[0][1]) // 2, bad[0][1][:40]))
                return "the %s worker queued %d datagrams for mirroring, %d were received (queue capacity 1000)" % (c["proto"], len(got), len(want))
            return None
        if " FOREIGN-BUFFERS=" in impl:
            return "mirroring returned %s receive buffer(s) to the pool of another protocol (buffers of the wrong size then reach that protocol's receive loop)" % impl.rsplit("=", 1)[1]
        got, want = impl.split(" "), model.split(" ")
        for k, (g, w, d) in enumerate(zip(got, want, c["dgrams"])):
            src, payload = bytes.fromhex(d[0]), bytes.fromhex(d[1])
            if g.startswith("PANIC"):
                return "mirroring datagram %d (%d octets, max-udp-size %d, %d-byte source address) panics: %s" % (k, len(payload), c["udpsize"], len(src), g)
            if g == "NONE":
                return "datagram %d (%d octets) was not re-emitted towards the mirror target" % (k, len(payload))
            p = bytes.fromhex(g[1:])
            # the property, directly
            if p[12:16] != src[-4:]:
                return "datagram %d: IP source %s is not the exporter %s" % (k, p[12:16].hex(), src[-4:].hex())
            if p[16:20] != bytes([127, 0, 0, 1]) or int.from_bytes(p[22:24], "big") != c["port"]:
                return "datagram %d: wrong destination %s:%d" % (k, p[16:20].hex(), int.from_bytes(p[22:24], "big"))
            if int.from_bytes(p[2:4], "big") != 28 + len(payload) or int.from_bytes(p[24:26], "big") != 8 + len(payload):
                return "datagram %d: IP/UDP length fields %d/%d inconsistent with a payload of %d octets" % (k, int.from_bytes(p[2:4], "big"), int.from_bytes(p[24:26], "big"), len(payload))
            if p[28:] != payload:
                return "datagram %d: payload altered (%d octets sent, %d received)" % (k, len(payload), len(p) - 28)
            if g != w:
                return "model/implementation disagreement on datagram %d: impl %s model %s" % (k, g[:80], w[:80])
        if len(got) != len(want):
            return "%d datagrams mirrored, %d expected" % (len(got), len(want))
        return None

    def classify(self, line, impl, model):
        c = self.cj[line]
        return ("%s %s max=%d" % (line.split(" ", 1)[0], c["proto"], c["udpsize"]), line)

    def tie_obligations(self):
        return 0

    def rule(self):
        return ("per case (IPFIX and sFlow mirror functions alternately; max-udp-size 512/1500/9000; random target port): 18 datagrams with "
                "payload lengths 0, 1, max-29..max, random, and runs of equal length from different exporters; source addresses in 4-byte "
                "and IPv4-mapped 16-byte form; every octet of the packet seen on the wire is compared except IP identification and header "
                "checksum (filled in by the kernel for IPPROTO_RAW senders). Plus 'pmirror' cases: the REAL ipfix/sflow workers with mirroring on "
                "(1/2/4 workers, 2-200 datagrams of mixed sizes), the mirror queue read only afterwards: what the worker queued must be exactly the "
                "received (source, payload) pairs. every case is distinct")

    def trusted_base(self):
        return ["Coq 8.16.1 kernel",
                "hand model coq/Model/Mirror.v of mirrorIPFIX/mirrorSFlow + mirror/{ipv4,udp}.go, tied by this run",
                "in-package verif driver vflow/verif_mirror_test.go (runs the real mirror goroutine; observes the loopback with a raw receive socket; needs CAP_NET_RAW)",
                "the Linux kernel's raw-socket send path (fills identification, checksum, total length)"]

    def assumptions(self):
        return ["partial: delivery by the kernel / network is outside the model; 'never changes what is decoded and published' is C12 (the mirror copy is made before decoding)",
                "IPv6 mirror targets are not modelled"]


PROP = P()
