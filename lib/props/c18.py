# C18 — the sFlow type filter removes exactly the listed sample types.
import json
import vf
from props.c07 import P as C07


class P(C07):
    id = "C18"
    filters = [(), (1,), (2,), (1, 2), (2, 1), (7,), (1, 7), (3, 1), (4, 2), (4095,),
               # unlisted look-alikes of the standard types: congruent to 1 / 2 modulo powers of two, vendor formats 1 / 2, all bits
               (65,), (66,), (129, 7), (33,), (34, 9), (257,), (258,), (4097,), (8194,), (65537,), (65538,), (2147483649,), (4294967295,),
               (9, 17), (3, 5, 6, 10, 18),
               # LONG lists (a list has no length limit): the type that matters at the 9th, 17th, 33rd, 65th place, after vendor formats
               # and duplicates; both types at the very end
               (3, 4, 18075649, 18075650, 36044801, 36044802, 23359489, 23359490, 2),
               (3, 3, 3, 3, 4, 4, 4, 4, 1),
               tuple(range(100, 116)) + (2,), tuple(range(100, 132)) + (1,), tuple(range(100, 164)) + (2, 1),
               tuple(range(5, 13)) + (1,) + tuple(range(13, 40)),
               # the same type listed TWICE (a list given in the file and again on the command line is appended to, never de-duplicated):
               # the other type is still delivered
               (2, 2), (1, 1), (7, 2, 2), (1, 1, 9), (2, 2, 2), (1, 2, 2), (2, 1, 1, 2)]

    def rule(self):
        return ("the C07 datagram stream, each datagram decoded under one of the filter lists %s (unsorted lists included); "
                "expected = the unfiltered expectation minus the samples of the listed types, everything else identical; filtered "
                "samples occur before and after unfiltered ones.  Plus: how the list the user writes becomes the list the decoder gets - "
                "the REAL flagSet is run with the types given as one comma list, as repeated -sflow-type-filter flags and in the "
                "configuration file; every type listed on the command line must be in the effective list and nothing else" % (self.filters,))

    def extra(self, tier, rng, known):
        """the filter list as the options code builds it (vflow/options.go arrUInt32Flags.Set + flagSet)"""
        cases, want = [], []
        lists = [[1], [2], [1, 2], [2, 1], [7, 1], [4, 2, 1], [4095], [1, 1001, 2], list(range(100, 120)) + [2, 1],
                 # entries of 4096 and more name vendor-specific structures (enterprise << 12 | format): they are taken as written
                 [4097], [8194, 4098], [65537, 2], [4294967295], [18075649]]
        if tier != "quick":
            lists += [[rng.randrange(1, 5000) for _ in range(rng.choice([2, 3, 5]))] for _ in range(40)]
        for l in lists:
            forms = [["-sflow-type-filter", ",".join(map(str, l))]]                          # one flag, comma separated
            if len(l) > 1:
                forms.append(sum((["-sflow-type-filter", str(x)] for x in l), []))            # one flag per type
                forms.append(["-sflow-type-filter", ",".join(map(str, l[:1])), "-sflow-type-filter", ",".join(map(str, l[1:]))])
            for args in forms:
                cases.append({"cmd": "options", "env": {}, "file": None, "args": args}); want.append((sorted(l), "command line " + " ".join(args)))
            cases.append({"cmd": "options", "env": {}, "file": "sflow-type-filter: [%s]\n" % ", ".join(map(str, l)), "args": []})
            want.append((sorted(l), "configuration file sflow-type-filter: %s" % l))
        cases.append({"cmd": "options", "env": {}, "file": None, "args": []}); want.append(([], "no filter given"))
        res = vf.run_driver(cases)
        viol = []
        for c, (w, how), r in zip(cases, want, res):
            if "error" in r:
                viol.append({"cases": [json.dumps(c)], "verdict": "options driver failed: " + str(r["error"])[:200]}); break
            got = r.get("SFlowTypeFilter")
            try:
                g = sorted(json.loads(got)) if got not in (None, "", "null") else []
            except Exception:
                g = None
            if g != w:
                viol.append({"cases": [json.dumps(c)], "verdict": "sample types listed in the sFlow type filter (%s) are %s, but the decoder is given %s: "
                             "the types missing from it are not omitted from the output" % (how, w, got)})
                break
        pv, pn = self.pipeline_filter(tier, rng)
        viol += pv
        return {"violations": viol, "coverage": {"option_forms": len(cases), "pipeline_filter_datagrams": pn},
                "notes": ["filter-list construction: %d option forms through the real flagSet" % len(cases),
                          "the filter inside the real sFlow worker (one worker, decoder state carried from datagram to datagram): %d datagrams" % pn]}

    def pipeline_filter(self, tier, rng):
        """the filter as the sFlow WORKER applies it, datagram after datagram: sequences in which filtered samples stand last / first /
        alone in a datagram and other datagrams follow; every published message must be its own datagram's unfiltered decode minus the
        listed types, in order (one worker)"""
        from props import sfgen
        from props.c07 import first_diff
        import re
        cases, metas = [], []
        for rep in range(6 if tier == "quick" else 60):
            filt = rng.choice([[1], [2], [2], [1, 2], [2, 65], [7, 1]])
            listed = {1: "flow", 2: "counter"}
            fk = [listed[x] for x in filt if x in listed]
            ok = [k for k in ("flow", "counter") if k not in fk]
            dg = []
            for _ in range(rng.choice([12, 30])):
                shape = rng.random()
                if shape < 0.35:      # filtered samples LAST
                    kinds = [rng.choice(ok + ["unknown"]) for _ in range(rng.choice([1, 2]))] + [rng.choice(fk) for _ in range(rng.choice([1, 2, 3]))]
                elif shape < 0.5:     # only filtered samples
                    kinds = [rng.choice(fk) for _ in range(rng.choice([1, 2]))]
                elif shape < 0.7:     # filtered samples FIRST / in between
                    kinds = [rng.choice(fk)] + [rng.choice(ok + fk + ["unknown-enterprise"]) for _ in range(rng.choice([1, 2, 3]))]
                else:
                    kinds = [rng.choice(ok + ["unknown"]) for _ in range(rng.choice([1, 2, 3]))] if ok else ["unknown"]
                # a third of the LISTED samples carry content the collector could not decode (they are skipped unread, so it can not matter)
                kinds = [(k + "-opaque") if (k in fk and rng.random() < 0.33) else k for k in kinds]
                p, hdr, samples = sfgen.gen_datagram(rng, kinds=kinds, small_header=(filt if rng.random() < 0.5 else None))
                if len(p) <= 1400:
                    dg.append((bytes([192, 0, 2, rng.randrange(1, 5)]), p, hdr, samples))
            cases.append({"cmd": "pipeline", "proto": "sflow", "workers": 1, "udpsize": 1500, "mirror": False, "ext_elements": [], "pre": [],
                          "dgrams": [[a.hex(), p.hex()] for a, p, _, _ in dg], "filter": filt})
            metas.append((filt, dg))
        res = vf.run_driver(cases)
        viol, n = [], 0
        for c, (filt, dg), r in zip(cases, metas, res):
            if r.get("error"):
                viol.append({"cases": [json.dumps(c)], "verdict": "pipeline driver failed: " + str(r["error"])[:200]}); break
            want = [w for w in (sfgen.expected_doc(hdr, samples, tuple(filt)) for _, _, hdr, samples in dg) if w is not None]
            got = []
            for x in r.get("published") or []:
                try:
                    d = json.loads(bytes.fromhex(x)); d["ColTime"] = 0; got.append(d)
                except Exception:
                    got.append({"unparseable": x[:60]})
            n += len(dg)
            bad = None
            if len(got) != len(want):
                k = next((i for i, (w, g) in enumerate(zip(want, got)) if first_diff(w, g)), min(len(want), len(got)))
                bad = "%d messages published for %d datagrams that have unfiltered samples (first difference at message %d)" % (len(got), len(want), k + 1)
            else:
                for i, (w, g) in enumerate(zip(want, got)):
                    d = first_diff(w, g)
                    if d:
                        bad = "message %d differs from its datagram's unfiltered decode minus the listed types at %s" % (i + 1, d); break
            if bad:
                viol.append({"cases": [json.dumps(c)], "verdict": "sFlow worker with type filter %s, %d datagrams in sequence: %s" % (filt, len(dg), bad)})
                break
        return viol, n


PROP = P()
