# C18 — the sFlow type filter removes exactly the listed sample types.
import json
import vf
from props.c07 import P as C07


class P(C07):
    id = "C18"
    filters = [(), (1,), (2,), (1, 2), (2, 1), (7,), (1, 7), (3, 1), (4, 2), (4095,)]

    def rule(self):
        return ("the C07 datagram stream, each datagram decoded under one of the filter lists %s (unsorted lists included); "
                "expected = the unfiltered expectation minus the samples of the listed types, everything else identical; filtered "
                "samples occur before and after unfiltered ones.  Plus: how the list the user writes becomes the list the decoder gets - "
                "the REAL flagSet is run with the types given as one comma list, as repeated -sflow-type-filter flags and in the "
                "configuration file; every type listed on the command line must be in the effective list and nothing else" % (self.filters,))

    def extra(self, tier, rng, known):
        """the filter list as the options code builds it (vflow/options.go arrUInt32Flags.Set + flagSet)"""
        cases, want = [], []
        lists = [[1], [2], [1, 2], [2, 1], [7, 1], [4, 2, 1], [4095], [1, 1001, 2]]
        if tier != "quick":
            lists += [[rng.randrange(1, 5000) for _ in range(rng.choice([2, 3, 5]))] for _ in range(40)]
        for l in lists:
            forms = [["-sflow-type-filter", ",".join(map(str, l))]]                          # one flag, comma separated
            if len(l) > 1:
                forms.append(sum((["-sflow-type-filter", str(x)] for x in l), []))            # one flag per type
                forms.append(["-sflow-type-filter", ",".join(map(str, l[:1])), "-sflow-type-filter", ",".join(map(str, l[1:]))])
            for args in forms:
                cases.append({"cmd": "options", "env": {}, "file": None, "args": args}); want.append((sorted(l), "command line " + " ".join(args)))
            cases.append({"cmd": "options", "env": {}, "file": "sflow-type-filter: [%s]\n" % ", ".join(map(str, l)), "args": []})
            want.append((sorted(l), "configuration file sflow-type-filter: %s" % l))
        cases.append({"cmd": "options", "env": {}, "file": None, "args": []}); want.append(([], "no filter given"))
        res = vf.run_driver(cases)
        viol = []
        for c, (w, how), r in zip(cases, want, res):
            if "error" in r:
                viol.append({"cases": [json.dumps(c)], "verdict": "options driver failed: " + str(r["error"])[:200]}); break
            got = r.get("SFlowTypeFilter")
            try:
                g = sorted(json.loads(got)) if got not in (None, "", "null") else []
            except Exception:
                g = None
            if g != w:
                viol.append({"cases": [json.dumps(c)], "verdict": "sample types listed in the sFlow type filter (%s) are %s, but the decoder is given %s: "
                             "the types missing from it are not omitted from the output" % (how, w, got)})
                break
        return {"violations": viol, "coverage": {"option_forms": len(cases)}, "notes": ["filter-list construction: %d option forms through the real flagSet" % len(cases)]}


PROP = P()
