# C18 — the sFlow type filter removes exactly the listed sample types.
from props.c07 import P as C07


class P(C07):
    id = "C18"
    filters = [(), (1,), (2,), (1, 2), (2, 1), (7,), (1, 7), (3, 1), (4, 2), (4095,)]

    def rule(self):
        return ("the C07 datagram stream, each datagram decoded under one of the filter lists %s (unsorted lists included); "
                "expected = the unfiltered expectation minus the samples of the listed types, everything else identical; filtered "
                "samples occur before and after unfiltered ones" % (self.filters,))


PROP = P()
