# C11 — template cache survives restart; any cache file content is safe to load.
import json, re, struct
import vf
from props.flowgen import Gen, Tpl
from props.flowprop import SEP, go_model
from props.c04 import fnv1_32
from props.c01 import mutate
from props.common import hx, rand_addr


def tpl_json(proto, t):
    def spec(s):
        d = {"ElementID": s[0], "Length": s[2]}
        if proto == "ipfix":
            d["EnterpriseNo"] = s[1]
        return d
    return {"TemplateID": t.tid, "FieldCount": len(t.fields) + (len(t.scope) if proto == "ipfix" else 0),
            "FieldSpecifiers": [spec(s) for s in t.fields] or None,
            "ScopeFieldCount": len(t.scope) if proto == "ipfix" else 0,
            "ScopeFieldSpecifiers": [spec(s) for s in t.scope] or None}


def tpl_tok(proto, t):
    fc = len(t.fields) + (len(t.scope) if proto == "ipfix" else 0)
    sc = len(t.scope) if proto == "ipfix" else 0
    b = struct.pack(">HHHHH", t.tid, fc, sc, len(t.scope), len(t.fields))
    for (eid, pen, ln) in t.scope + t.fields:
        b += struct.pack(">HHI", eid, ln, pen if proto == "ipfix" else 0)
    return hx(b)


class P:
    id = "C11"

    def __init__(self):
        self.saved = {}      # line -> set of "hexkey:tid" that the file legitimately contains

    def budget(self, tier):
        return 240 if tier == "quick" else 6000

    def hist(self, g, rng, proto, tpls_by_addr, force=False):
        """history used after the load: data for the saved templates, a fresh announcement + data, an unknown id"""
        toks = []
        for a, ts in tpls_by_addr.items():
            for t in (ts if force else ts[:2]):
                if g.min_rec_len(t) > 4 and (force or rng.random() < 0.8):
                    toks += [hx(a), hx(g.enc_msg([g.enc_set(t.tid, g.rand_record(t)[0])]))]
                    if rng.random() < 0.6:
                        # the same template once more with what real exporters append: several records, then padding of 1..8 zero
                        # octets, or the beginning of one more record (everything a decoder could derive from the template - record
                        # length, element look-ups - must survive the save and the load, not only the specifiers)
                        body = b"".join(g.rand_record(t)[0] for _ in range(rng.choice([1, 2, 3])))
                        one = g.rand_record(t)[0]
                        tail = rng.choice([bytes(rng.choice([1, 2, 3, 4, 5, 6, 7, 8])), one[:max(1, len(one) - 1)], one[:len(one) // 2], b""])
                        more = [g.enc_set(t.tid, g.rand_record(t)[0])] if rng.random() < 0.5 else []
                        toks += [hx(a), hx(g.enc_msg([g.enc_set(t.tid, body + tail)] + more))]
        for a0, ts in list(tpls_by_addr.items())[:1]:
            good = [t for t in ts if g.min_rec_len(t) > 4][:1]
            if good:
                d = lambda: g.enc_set(good[0].tid, g.rand_record(good[0])[0])
                toks += [hx(a0), hx(g.enc_msg([d(), g.enc_set(701, bytes(rng.randrange(256) for _ in range(12))), d()]))]
        a = rand_addr(rng)
        t, o = g.rand_tpl(tid=rng.choice([256, 700]), allow_var=False)
        while g.min_rec_len(t) <= 4:
            t, o = g.rand_tpl(tid=700, allow_var=False)
        toks += [hx(a), hx(g.enc_msg([g.enc_set(g.tpl_set_id(o), g.enc_tpl(t, o)), g.enc_set(t.tid, g.rand_record(t)[0])]))]
        toks += [hx(a), hx(g.enc_msg([g.enc_set(701, bytes(12))]))]
        return " ".join(toks)

    def sweep(self, g, rng, proto):
        """usability of EVERY shard: one exporter announces 200 one-field templates (ids 256..455 land in all 32 shards, whatever
        the hash, with probability > 0.99) and sends data for two of them"""
        a = rand_addr(rng)
        tp = [Tpl(256 + i, [], [(1, 0, 8)]) for i in range(200)]
        msg = g.enc_msg([g.enc_set(g.tpl_set_id(False), b"".join(g.enc_tpl(t, False) for t in tp[k:k + 50])) for k in range(0, 200, 50)])
        toks = [hx(a), hx(msg)]
        for t in (tp[0], tp[137]):
            toks += [hx(a), hx(g.enc_msg([g.enc_set(t.tid, bytes(rng.randrange(256) for _ in range(8)))]))]
        return " ".join(toks)

    def setup(self, g, rng, proto):
        tpls, toks = {}, []
        for _ in range(rng.choice([1, 2, 3])):
            a = rand_addr(rng)
            for _ in range(rng.choice([1, 2, 4])):
                t, o = g.rand_tpl(tid=rng.choice([256, 257, 300, 65535]), allow_var=(rng.random() < 0.3))
                tpls.setdefault(a, []).append(t)
                toks += [hx(a), hx(g.enc_msg([g.enc_set(g.tpl_set_id(o), g.enc_tpl(t, o))]))]
        if tpls and rng.random() < 0.5:
            # data for an id this exporter never announced, seen BEFORE the save (whatever the collector notes about it must not come
            # back from the file as a template); the history after the load has the same id between decodable sets
            a0 = next(iter(tpls))
            toks += [hx(a0), hx(g.enc_msg([g.enc_set(701, bytes(rng.randrange(256) for _ in range(rng.choice([8, 12, 20]))))]))]
        # keep the LAST definition per (addr, tid)
        for a in tpls:
            last = {}
            for t in tpls[a]:
                last[t.tid] = t
            tpls[a] = list(last.values())
        return " ".join(toks), tpls

    def doc_case(self, g, rng, proto, force_valid=False, forced=None):
        # ONE structural defect per document most of the time (a document with several defects is rejected for the first
        # one and tells nothing about the others); 'multi' keeps the old independent mix
        kinds5 = ["shardno", "nshards", "nullshard", "nullmap", "misplaced"]
        import itertools
        pairs = list(itertools.combinations(kinds5, 2))
        self.doc_i = getattr(self, "doc_i", 0) + 1
        if not hasattr(self, "countlie"):
            self.countlie, self.pending_ref = {}, []
        mode = "valid" if force_valid else ["valid", "one", "pair", "one", "one", "pair", "one", "multi", "pair", "one"][self.doc_i % 10]
        # defects and their parameters are enumerated, not drawn: every single defect and every PAIR of defects comes up regularly
        active = set() if mode == "valid" else {kinds5[(self.doc_i // 10) % 5]} if mode == "one" else set(pairs[(self.doc_i // 3) % len(pairs)]) if mode == "pair" else None
        if forced is not None:
            active, mode = set(forced[0]), "forced"
        has = lambda k: active is not None and k in active
        multi = active is None
        shardno = rng.choice([31, 33, 0, -1]) if has("shardno") else (rng.choice([32] * 6 + [31, 33, 0, -1]) if multi else 32)
        nsh = forced[1] if forced is not None and has("nshards") else [33, 31, 33, 0, 1][(self.doc_i // 7) % 5] if has("nshards") else (rng.choice([32] * 6 + [0, 1, 31, 33]) if multi else 32)
        one_bad = rng.randrange(max(1, nsh))
        one_bad2 = rng.randrange(max(1, nsh))
        defect = "multi" if multi else "+".join(sorted(active)) or "valid"
        shards_json, toks, saved, tpls = [], [], set(), {}
        entries = {}
        for _ in range(rng.choice([0, 1, 3, 6]) if not force_valid else rng.choice([2, 4])):
            a = rand_addr(rng)
            t, o = g.rand_tpl(tid=rng.choice([256, 257, 300]), allow_var=False)
            key = a + struct.pack(">H", t.tid)
            idx = fnv1_32(key) % 32 if not ((has("misplaced") or multi) and rng.random() < (0.5 if has("misplaced") else 0.1)) else rng.randrange(32)
            entries.setdefault(idx, []).append((key, t))
            if idx == fnv1_32(key) % 32:
                tpls.setdefault(a, []).append(t)
        kinds = []
        for i in range(nsh):
            k = rng.random()
            if multi:
                kind = "S" if k < 0.85 or i in entries else ("N" if k < 0.93 else "M")
                if rng.random() < 0.04:
                    kind = rng.choice(["N", "M"])
            elif has("nullshard") and i == one_bad:
                kind = "N"
            elif has("nullmap") and i == (one_bad2 if has("nullshard") and one_bad2 != one_bad else one_bad):
                kind = "M"
            else:
                kind = "S"
            if force_valid:
                kind = "S"
            kinds.append(kind)
            if kind == "N":
                shards_json.append(None); toks.append("N")
            elif kind == "M":
                shards_json.append({"Templates": None}); toks.append("M")
            else:
                m = {}
                toks.append("S")
                for key, t in entries.get(i, []):
                    if key.hex() in m:
                        continue
                    m[key.hex()] = {"Template": tpl_json(proto, t), "Timestamp": 1600000000}
                    toks += [hx(key), tpl_tok(proto, t)]
                    saved.add("%s:%d" % (key.hex(), t.tid))
                toks.append("E")
                shards_json.append({"Templates": m})
        docj = {"Cache": shards_json if not (nsh == 0 and rng.random() < 0.5) else None, "ShardNo": shardno}
        text = json.dumps(docj, separators=(",", ":")).encode()
        doctoks = "%d %s" % (shardno, " ".join(toks))
        if force_valid or (forced is None and rng.random() < 0.2):
            # well-formed JSON of the wrong type / range somewhere: json.Unmarshal reports an error, nothing may be used
            bad = rng.choice([(b'"Timestamp":1600000000', b'"Timestamp":"yesterday"'), (b'"Length":', b'"Length":7000000'),
                              (b'"TemplateID":', b'"TemplateID":-'), (b'{"Templates":{', b'{"Templates":"none","x":{'),
                              (b'"ShardNo":', b'"ShardNo":1e'), (b'"FieldCount":', b'"FieldCount":[],"y":')])
            if bad[0] in text:
                text = text.replace(bad[0], bad[1], 1)
                doctoks = "NONE"; saved = set(); tpls = {}
        elif saved and self.doc_i % 3 == 0:
            # a document that is complete and well-typed but whose template headers LIE about the number of specifiers that follow
            # (one digit changed by hand, a writer of another version): the file is accepted; using the template must be safe and
            # must go by the specifiers that are there
            import re as _re
            cnt = [m_ for m_ in _re.finditer(rb'"(FieldCount|ScopeFieldCount)":(\d+)', text)]
            if cnt:
                m_ = cnt[(self.doc_i // 3) % len(cnt)]
                v_ = int(m_.group(2))
                variant = (self.doc_i // 9) % 5
                lie = lambda v: [v + 1, v + 7, max(0, v - 1), 0, 65535][variant]
                new = lie(v_)
                text0 = text
                # the same lie in EVERY template header of the document (whichever template the later data uses, it is one that lies)
                text = _re.sub(rb'"' + m_.group(1) + rb'":(\d+)', lambda mm: b'"' + m_.group(1) + b'":' + str(lie(int(mm.group(1)))).encode(), text)
                if text != text0:
                    tail = "D %s H %s %s" % (doctoks, self.hist(g, rng, proto, tpls, force=True), self.sweep(g, rng, proto))
                    line0 = "cachedoc %s %s %s" % (proto, hx(text0), tail)
                    line = "cachedoc %s %s %s" % (proto, hx(text), tail)
                    self.saved[line0] = saved; self.saved[line] = saved
                    self.countlie[line] = (line0, m_.group(1).decode(), v_, new)
                    self.pending_ref.append(line0)
                    return line, text
        line = "cachedoc %s %s D %s H %s %s" % (proto, hx(text), doctoks, self.hist(g, rng, proto, tpls), self.sweep(g, rng, proto))
        self.saved[line] = saved
        return line, text

    def cases(self, tier, rng, budget):
        out = []
        import itertools
        for proto in ("ipfix", "nf9"):
            g = Gen(proto, go_model(), rng)
            # every PAIR of structural defects, with one shard too many and one too few where the shard count is part of it
            for pair in itertools.combinations(["shardno", "nshards", "nullshard", "nullmap", "misplaced"], 2):
                for nsh in ((33, 31) if "nshards" in pair else (32,)):
                    out.append(self.doc_case(g, rng, proto, forced=(pair, nsh))[0])
            # a LARGE reachable cache (1000 templates of 20 fields from one exporter: a file of well over a megabyte): the restart
            # is as transparent as with a small one (a file read through a limit or a fixed buffer comes back as a prefix)
            a = rand_addr(rng)
            # (when an obligation of this property is broken - failing-input search - the cache is six times as large: a file of ~8 MB)
            nfat = 6000 if getattr(self, "broken", None) else 1000
            fat = [Tpl(256 + i, [], [(1 + (i + j) % 30, 0, 4) for j in range(20)]) for i in range(nfat)]
            s = " ".join("%s %s" % (hx(a), hx(g.enc_msg([g.enc_set(g.tpl_set_id(False), b"".join(g.enc_tpl(t, False) for t in fat[k:k + 50]))])))
                         for k in range(0, nfat, 50))
            out.append("cachert %s FULL S %s H %s" % (proto, s, self.hist(g, rng, proto, {a: [fat[0], fat[nfat - 1], fat[500]]}, force=True)))
            n = budget // 2
            for i in range(n):
                k = i % 10
                if k < 3:       # save / load round trip of a reachable cache
                    s, tpls = self.setup(g, rng, proto)
                    out.append("cachert %s FULL S %s H %s" % (proto, s, self.hist(g, rng, proto, tpls)))
                elif k == 8 and i % 20 == 8:   # a smaller cache saved over a larger file
                    s1, _ = self.setup(g, rng, proto); s1b, _ = self.setup(g, rng, proto)
                    a = rand_addr(rng)
                    t, o = g.rand_tpl(tid=256, nfields=1, allow_var=False)
                    s2 = "%s %s" % (hx(a), hx(g.enc_msg([g.enc_set(g.tpl_set_id(o), g.enc_tpl(t, o))])))
                    out.append("cachert %s OVER S %s %s M %s H %s" % (proto, s1, s1b, s2, self.hist(g, rng, proto, {a: [t]})))
                elif k == 9 and i % 20 == 9:   # two generations: save, restart, ONE template re-announced differing in ONE respect (nothing
                    # else changes in that run), save, restart: the re-announced definition must be the one in force
                    s1, tpls = self.setup(g, rng, proto)
                    a = rand_addr(rng)
                    t = Tpl(300, [], [(2, 9 if proto == "ipfix" else 0, 4), (8, 0, 4), (1, 0, 8)])
                    s1 += " %s %s" % (hx(a), hx(g.enc_msg([g.enc_set(g.tpl_set_id(False), g.enc_tpl(t, False))])))
                    t2, o2 = g.mutate_tpl(t, False, kind=(i // 20) % 6)
                    mods = "%s %s" % (hx(a), hx(g.enc_msg([g.enc_set(g.tpl_set_id(o2), g.enc_tpl(t2, o2))])))
                    tpls2 = dict(tpls); tpls2[a] = [t2]
                    out.append("cachert %s GEN2 S %s M %s H %s" % (proto, s1, mods, self.hist(g, rng, proto, tpls2)))
                elif k == 3:    # every crash point of the non-atomic write: every proper prefix of the saved file
                    s, tpls = self.setup(g, rng, proto)
                    out.append("cachert %s PREFIXES S %s H %s" % (proto, s, self.hist(g, rng, proto, tpls)))
                elif k < 8:     # structurally (in)consistent documents; every fourth: a complete document with one type/range error
                    out.append(self.doc_case(g, rng, proto, force_valid=(i % 4 == 0))[0])
                elif k == 8 or (k == 9 and i % 20 == 19 and i % 40 == 19):    # byte-level corruption of a valid file
                    line, text = self.doc_case(g, rng, proto)
                    sv = self.saved[line]
                    for _ in range(rng.choice([1, 1, 2, 4])):
                        text = mutate(rng, text)
                    l2 = "cachebytes %s %s H %s" % (proto, hx(text), line.split(" H ", 1)[1])
                    self.saved[l2] = sv
                    out.append(l2)
                else:           # absent / empty / directory
                    kind = rng.choice(["ABSENT", "EMPTYFILE", "DIRECTORY"])
                    out.append("cachedoc %s %s D NONE H %s" % (proto, kind, self.hist(g, rng, proto, {})))
        out += [l for l in getattr(self, 'pending_ref', []) if l not in out]
        return out

    def post(self, lines, impl, model):
        self.impl_of = dict(zip(lines, impl))
        return impl, model

    def judge(self, line, impl, model):
        if line in self.countlie and "PANIC" not in impl:
            line0, what, v_, new = self.countlie[line]
            ref = getattr(self, "impl_of", {}).get(line0)
            strip = lambda o: re.sub(r"^T:[^|]*\| ", "", o)
            if ref is not None and strip(ref) != strip(impl):
                return ("a cache file in which one template header says %s %d while %d specifiers follow is accepted, but the collector then decodes the same datagrams "
                        "differently from the same file with the consistent header: %r vs %r" % (what, new, v_, strip(impl)[:200], strip(ref)[:200]))
        if "PANIC" in impl or "HANG" in impl or impl.startswith("CRASH"):
            return "loading or using this cache file crashes the collector: " + impl[-120:]
        if "DUMP-" in impl:
            return "the loaded cache can not be dumped: " + impl[:80]
        kind = line.split(" ", 1)[0]
        if " || XPROC " in impl:
            # the restart for real: another process loaded the saved file
            head, rest = impl.split(" || XPROC ", 1)
            xp, tail = rest.split(" || REF ", 1) if " || REF " in rest else (rest, "")
            if xp != head:
                if xp.startswith("XPROC-") or "PANIC" in xp:
                    return "loading the saved cache file in a new process fails: %s" % xp[:120]
                th, tx = head.split(" | ")[0], xp.split(" | ")[0]
                what = ("the templates it holds differ: same process %s, new process %s" % (th[:160], tx[:160])) if th != tx else \
                       ("the same datagrams decode differently: same process %r, new process %r" % (head[-200:], xp[-200:]))
                return "a cache file saved by one process does not give the same cache in ANOTHER process (a real restart) as in the process that saved it: %s" % what
            impl = head + (" || REF " + tail if tail else "")
        if " || REF " in impl:
            # relational oracle (implementation only): a restart on the saved file is transparent: the templates in force and
            # everything decoded afterwards are what the same collector shows when it never restarted
            impl, ref = impl.split(" || REF ", 1)
            if impl != ref:
                ti, tr = impl.split(" | ")[0], ref.split(" | ")[0]
                what = ("the templates in force differ: after the restart(s) %s, without restart %s" % (ti[:200], tr[:200])) if ti != tr else \
                       ("the same datagrams decode differently: after the restart(s) %r, without restart %r" % (impl[-200:], ref[-200:]))
                return "a restart on the saved cache file is not transparent (%s): %s" % (line.split(" ")[2], what)
        sv = self.saved.get(line)
        if sv is not None and impl.startswith("T:"):
            got = set(":".join(x.split(":")[:2]) for x in impl[2:].split(" | ")[0].split(",") if x)
            extra = got - sv
            if extra and kind == "cachedoc":
                return "the loaded cache contains templates that are not in the file: %s" % sorted(extra)[:3]
        if kind == "cachebytes":
            return None
        # (the digest lists the entries shard by shard; a document that carries one key in two shards has two entries that tie under the
        # digest's own sort: the ORDER of a listing is not an observable, so both listings are sorted here)
        def canon(o):
            if o.startswith("T:") and " | " in o:
                t, rest = o.split(" | ", 1)
                return "T:" + ",".join(sorted(x for x in t[2:].split(",") if x)) + " | " + rest
            return o
        i2 = re.sub(r" n=\d+$", "", impl)
        if canon(i2) != canon(model):
            return "model/implementation disagreement: impl %r model %r" % (i2[:300], model[:300])
        return None

    def classify(self, line, impl, model):
        t = line.split()
        kind = t[0] + ("-" + t[2] if t[0] == "cachert" else "")
        if t[0] == "cachedoc":
            kind += "-" + ("file" if t[2].startswith("x") else t[2])
            loaded = "loaded" if not impl.startswith("T: |") else "fresh"
            kind += "-" + loaded
        return (t[1] + " " + kind, line)

    def tie_obligations(self):
        return 0

    def rule(self):
        return ("per protocol: 30% save/load round trips of caches reached by decoding (several exporters, re-announcements), then "
                "decoding with the loaded cache; 10% EVERY proper prefix of such a saved file (complete per file); 40% structured "
                "documents generated from the document type (wrong ShardNo, 0/1/31/33 shards, null shards, null maps, misplaced and "
"valid entries; one defect per document in half of the documents, exactly two in three of ten, then a 200-template sweep that inserts into every shard); 10% byte-level mutations of valid files; 10% absent / empty / directory. After each load a template "
                "is announced and data decoded (usability), and the loaded contents are observed through Dump. every case is distinct")

    def trusted_base(self):
        return ["Coq 8.16.1 kernel",
                "hand model coq/Model/CacheFile.v of GetCache/Dump over the PARSED document, tied by this correspondence run",
                "encoding/json: marshal/unmarshal round trip of memCacheDisk and rejection of every proper prefix (validated here on every prefix of every sampled file)",
                "Go harness harness/cmd/impl/cachefile.go (observes the loaded cache through the exported Dump)"]

    def assumptions(self):
        return ["no proper prefix of json.Marshal's output for an object unmarshals without error (checked on every prefix of the sampled files)",
                "ioutil.WriteFile/ReadFile semantics (the file holds exactly a prefix of the bytes written after a crash)"]


PROP = P()
