# Seeded generators and the independent Python oracle for IPFIX (RFC 7011) and NetFlow v9 (RFC 3954)
# histories.  Used by C01 C02 C03 C04 C05 C06 C09 (and the pipeline properties).
import struct
from props.common import hx, rand_addr

# FieldType numbering of ipfix/rfc5102_model.go (checked against the evaluated Go table by C20)
U8, U16, U32, U64, I8, I16, I32, I64, F32, F64, BOOL, MAC, OCTETS, STRING, DTS, DTMS, DTUS, DTNS, IP4, IP6 = range(1, 21)
MINLEN = {0: 0, U8: 1, I8: 1, BOOL: 1, U16: 2, I16: 2, U32: 4, I32: 4, F32: 4, DTS: 4, U64: 8, I64: 8, F64: 8,
          DTMS: 8, DTUS: 8, DTNS: 8, MAC: 6, IP4: 4, IP6: 16, OCTETS: 0, STRING: 0}

TEST_EXT = {(9, 1): (1, STRING), (9, 2): (2, U32), (9, 3): (3, BOOL), (9, 4): (4, OCTETS), (29305, 0): (0, U16),
            (29305, 7): (7, F64), (4294967295, 32767): (32767, IP6),
            # the built-in table has no element of a signed or float32 type: without these Interpret's int8..int64 / float32 cases never run
            (9, 5): (5, I8), (9, 6): (6, I16), (9, 7): (7, I32), (9, 8): (8, I64), (9, 9): (9, F32),
            # the same under enterprise 0 (NetFlow v9 has no enterprise numbers)
            (0, 30001): (30001, I8), (0, 30002): (30002, I16), (0, 30003): (30003, I32), (0, 30004): (30004, I64), (0, 30005): (30005, F32)}


def load_model(dump):
    """(pen,id) -> (FieldID, type) from the evaluated Go InfoModel dump (harness `infomodel builtin`)."""
    m = {}
    for e in dump.split(";"):
        f = e.split(":")
        if len(f) == 5:
            m[(int(f[0]), int(f[1]))] = (int(f[2]), int(f[4]))
    m.update(TEST_EXT)
    return m


def interp(t, b):
    """RFC 7011 section 6.1 encodings, printed in the canonical value syntax of the drivers.
    Shorter than the type's size -> raw octets (the property's reduced-size clause)."""
    if len(b) < MINLEN.get(t, 0):
        return "raw:x" + b.hex()
    u = lambda n: int.from_bytes(b[:n], "big")
    s = lambda n: int.from_bytes(b[:n], "big", signed=True)
    if t == BOOL: return "b:%d" % (1 if b[0] == 1 else 0)
    if t == U8: return "u8:%d" % b[0]
    if t == U16: return "u16:%d" % u(2)
    if t == U32 or t == DTS: return "u32:%d" % u(4)
    if t in (U64, DTMS, DTUS, DTNS): return "u64:%d" % u(8)
    if t == I8: return "i8:%d" % s(1)
    if t == I16: return "i16:%d" % s(2)
    if t == I32: return "i32:%d" % s(4)
    if t == I64: return "i64:%d" % s(8)
    if t == F32: return "f32:%d" % u(4)
    if t == F64: return "f64:%d" % u(8)
    if t == MAC: return "mac:x" + b.hex()
    if t == STRING: return "s:x" + b.hex()
    if t in (IP4, IP6): return "ip:x" + b.hex()
    return "raw:x" + b.hex()


class Tpl:
    def __init__(self, tid, scope, fields):
        self.tid, self.scope, self.fields = tid, scope, fields   # lists of (eid, pen, length)

    def specs(self):
        return self.scope + self.fields


class Gen:
    def __init__(self, proto, model, rng):
        self.proto, self.model, self.rng = proto, model, rng
        self.by_type = {}
        for (pen, eid), (fid, t) in model.items():
            if proto == "nf9" and pen != 0:
                continue
            self.by_type.setdefault(t, []).append((pen, eid))
        self.keys = sorted(k for k in model if proto == "ipfix" or k[0] == 0)

    # ---------- wire encoding ----------
    def enc_spec(self, eid, pen, ln):
        if self.proto == "ipfix" and pen != 0:
            return struct.pack(">HHI", 0x8000 | eid, ln, pen)
        return struct.pack(">HH", eid, ln)

    def enc_tpl(self, t, opts):
        if self.proto == "ipfix":
            if opts:
                b = struct.pack(">HHH", t.tid, len(t.scope) + len(t.fields), len(t.scope))
            else:
                b = struct.pack(">HH", t.tid, len(t.fields))
        else:
            if opts:   # RFC 3954: option scope LENGTH and option LENGTH in octets
                b = struct.pack(">HHH", t.tid, 4 * len(t.scope), 4 * len(t.fields))
            else:
                b = struct.pack(">HH", t.tid, len(t.fields))
        for (eid, pen, ln) in t.specs():
            b += self.enc_spec(eid, pen, ln)
        return b

    def enc_set(self, sid, body, pad=0, length=None):
        ln = 4 + len(body) + pad if length is None else length
        return struct.pack(">HH", sid, ln & 0xffff) + body + bytes(pad)

    def enc_msg(self, sets, seq=None, length=None, version=None):
        rng = self.rng
        body = b"".join(sets)
        # observation domain / source id: a handful of small values recur (an exporter has one, or a few, and keeps them), the rest random;
        # templates are the exporter ADDRESS's: what the header says here has no part in it
        dom = rng.choice([0, 1, 2, 7]) if rng.random() < 0.7 else rng.randrange(2 ** 32)
        if self.proto == "ipfix":
            ln = (16 + len(body)) & 0xffff if length is None else length
            return struct.pack(">HHIII", 10 if version is None else version, ln, rng.randrange(2 ** 32),
                               rng.randrange(2 ** 32) if seq is None else seq, dom) + body
        return struct.pack(">HHIIII", 9 if version is None else version, rng.randrange(65536), rng.randrange(2 ** 32),
                           rng.randrange(2 ** 32), rng.randrange(2 ** 32) if seq is None else seq, dom) + body

    def tpl_set_id(self, opts):
        return (3 if opts else 2) if self.proto == "ipfix" else (1 if opts else 0)

    # ---------- random structure ----------
    def rand_spec(self, allow_var=True, allow_short=True, allow_missing=False):
        rng = self.rng
        if allow_missing and rng.random() < 0.5:
            if self.proto == "ipfix" and rng.random() < 0.4:
                # an ENTERPRISE element nobody knows whose id is a well-known IANA id (reverse elements of RFC 5103, PEN 29305, and
                # other enterprises): it is unknown all the same
                for _ in range(50):
                    k = (rng.choice([29305, 29305, 9, 4294967295, 1]), rng.choice([1, 2, 8, 12, 4, 7, 152, 27]))
                    if k not in self.model:
                        return (k[1], k[0], rng.choice([1, 2, 4, 8]))
            for _ in range(50):
                k = (0, rng.randrange(1, 32768))
                if k not in self.model:
                    return (k[1], 0, rng.choice([1, 2, 4, 8]))
        k = rng.random()
        if k < 0.3:
            t = rng.choice(sorted(self.by_type))
            pen, eid = rng.choice(self.by_type[t])
        else:
            pen, eid = rng.choice(self.keys)
        t = self.model[(pen, eid)][1]
        full = MINLEN.get(t, 0)
        if t in (STRING, OCTETS, 0):
            if self.proto == "ipfix" and t != 0 and allow_var and rng.random() < 0.5:
                ln = 65535
            else:
                ln = rng.choice([1, 2, 3, 5, 8, 16, 31])
        else:
            r = rng.random()
            if allow_short and r < 0.12 and full > 1:
                ln = rng.randint(1, full - 1)          # reduced-size encoding -> raw octets
            elif r < 0.17:
                ln = full + rng.randint(1, 4)          # longer than the type: leading octets interpreted
            else:
                ln = full
        return (eid, pen, ln)

    def rand_tpl(self, tid=None, opts=None, nfields=None, **kw):
        rng = self.rng
        tid = rng.choice([256, 257, 258, 300, 999, 65535, rng.randint(256, 65535)]) if tid is None else tid
        opts = (rng.random() < 0.3) if opts is None else opts
        n = rng.choice([1, 1, 2, 3, 4, 6, 10, 25]) if nfields is None else nfields
        specs = [self.rand_spec(**kw) for _ in range(n)]
        ns = rng.randint(1, n) if opts else 0
        if opts and self.proto == "ipfix" and ns == n and rng.random() < 0.5 and n > 1:
            ns = n - 1
        return Tpl(tid, specs[:ns], specs[ns:]), opts

    def mutate_tpl(self, t, opts, kind=None):
        """a re-announcement that differs from (t, opts) in ONE respect only: the enterprise number of a field, one field's
        element or length, the order of two neighbours, the scope/option split, or the template kind"""
        rng = self.rng
        scope, fields = list(t.scope), list(t.fields)
        allf = scope + fields
        for attempt in range(20):
            k = rng.randrange(7) if (kind is None or attempt > 5) else kind
            if k == 0 and self.proto == "ipfix":          # same element id, same length, other enterprise number
                cand = [(i, p2) for i, (eid, pen, ln) in enumerate(allf) for p2 in (0, 9, 29305) if p2 != pen and (p2, eid) in self.model and ln != 65535]
                if cand:
                    i, p2 = rng.choice(cand); e = allf[i]; allf[i] = (e[0], p2, e[2]); break
            elif k == 1:                                  # one element replaced by another of the same length
                i = rng.randrange(len(allf)); e = allf[i]
                if e[2] != 65535:
                    pen2, eid2 = rng.choice(self.keys)
                    if (eid2, pen2) != (e[0], e[1]):
                        allf[i] = (eid2, pen2, e[2]); break
            elif k == 2 and len(allf) >= 2:               # two neighbours swapped
                i = rng.randrange(len(allf) - 1)
                if allf[i] != allf[i + 1]:
                    allf[i], allf[i + 1] = allf[i + 1], allf[i]; break
            elif k == 3:                                  # one length changed
                i = rng.randrange(len(allf)); e = allf[i]
                if e[2] not in (65535, 0):
                    allf[i] = (e[0], e[1], e[2] + 1 if e[2] < 60 else e[2] - 1); break
            elif k == 4 and opts and len(allf) >= 2:      # the scope / option split moves
                ns = len(scope)
                ns2 = ns + 1 if ns < len(allf) - (1 if self.proto == "ipfix" else 0) else ns - 1
                if 1 <= ns2 <= len(allf) and ns2 != ns:
                    return Tpl(t.tid, allf[:ns2], allf[ns2:]), True
            elif k == 6:                                  # one element replaced by one that is MISSING from the model (same length): the
                i = rng.randrange(len(allf)); e = allf[i]  # id is now bound to a definition nothing can be decoded with
                if e[2] != 65535:
                    for _ in range(50):
                        eid2 = rng.randrange(1, 32768)
                        if (0, eid2) not in self.model:
                            break
                    else:
                        continue
                    allf[i] = (eid2, 0, e[2]); break
            elif k == 5:                                  # plain <-> options template with the same specifiers
                if opts:
                    return Tpl(t.tid, [], allf), False
                return Tpl(t.tid, allf[:1], allf[1:]), True
        ns = len(scope)
        return Tpl(t.tid, allf[:ns], allf[ns:]), opts

    def rand_value(self, eid, pen, ln):
        """octets of one field on the wire (with its length prefix when variable) and its content"""
        rng = self.rng
        t = self.model.get((pen, eid), (0, 0))[1]
        if ln == 65535:
            n = rng.choice([0, 1, 2, 7, 20, 254, 255, 256, 300]) if rng.random() < 0.2 else rng.randint(0, 24)
            content = self.rand_content(t, n)
            if n < 255 and rng.random() < 0.85:
                return bytes([n]) + content, content
            return b"\xff" + struct.pack(">H", n) + content, content
        content = self.rand_content(t, ln)
        return content, content

    def rand_content(self, t, n):
        rng = self.rng
        r = rng.random()
        if t == STRING and r < 0.5:
            pool = [b'"', b"\\", b"\n", b"\x00", b"\x1f", b"a", b"Z", b" ", b"\xc3\xa9", b"\xe2\x82\xac", b"\xf0\x9f\x98\x80",
                    b"\xff", b"\xc0", b"\xed\xa0\x80", b"/", b"<", b"\x7f", b"\xe2\x80\xa8"]
            out = b""
            while len(out) < n:
                out += rng.choice(pool)
            return out[:n]
        if t == IP6 and n == 16 and r < 0.35:
            # addresses whose TEXT form is special: IPv4-mapped (printed dotted by net.IP), IPv4-compatible, NAT64, unspecified,
            # loopback, zero runs at the start / in the middle / at the end / two runs of equal length
            v4 = bytes(rng.randrange(256) for _ in range(4))
            x = lambda k: bytes(rng.randrange(1, 256) for _ in range(k))
            return rng.choice([bytes(10) + b"\xff\xff" + v4, bytes(12) + v4, b"\x00\x64\xff\x9b" + bytes(8) + v4, bytes(16), bytes(15) + b"\x01",
                               bytes(8) + x(8), x(8) + bytes(8), x(2) + bytes(12) + x(2), x(2) + bytes(4) + x(4) + bytes(4) + x(2),
                               x(4) + bytes(2) + x(10), bytes(10) + b"\xff\xfe" + v4, bytes(9) + b"\x01\xff\xff" + v4])
        if r < 0.15:
            return bytes([rng.choice([0, 0xff, 0x7f, 0x80, 1])]) * n
        if t in (F32, F64) and r < 0.4:
            sp = rng.choice([b"\x7f\xc0\x00\x00", b"\x7f\x80\x00\x00", b"\xff\x80\x00\x00", b"\x00\x00\x00\x00", b"\x80\x00\x00\x00",
                             b"\x3f\x80\x00\x00", b"\x7f\xf8\x00\x00\x00\x00\x00\x00", b"\x7f\xf0\x00\x00\x00\x00\x00\x00",
                             b"\xff\xf0\x00\x00\x00\x00\x00\x00", b"\x3f\xf0\x00\x00\x00\x00\x00\x00", b"\x00\x00\x00\x00\x00\x00\x00\x01"])
            return (sp + bytes(n))[:n]
        return bytes(rng.randrange(256) for _ in range(n))

    def rand_record(self, tpl):
        wire, vals = b"", []
        for (eid, pen, ln) in tpl.specs():
            w, c = self.rand_value(eid, pen, ln)
            wire += w
            vals.append(c)
        return wire, vals

    def min_rec_len(self, tpl):
        return sum(1 if ln == 65535 else ln for (_, _, ln) in tpl.specs())


# ---------- the oracle: what RFC 7011 / RFC 3954 say a history decodes to ----------
class Oracle:
    """Tracks templates per (exporter address, template id) and computes, for a message given as its
    ABSTRACT structure, the records the property demands."""

    def __init__(self, proto, model):
        self.proto, self.model, self.tpls = proto, model, {}

    def expected_sets(self, addr, sets):
        """sets: list of ('tpl', [(Tpl,opts)]) | ('data', tid, [vals per record], wire_lens, pad) | ('raw', sid, body).
        Returns (records, nonfatal) with records in the drivers' canonical syntax."""
        out, nonfatal = [], 0
        for s in sets:
            if s[0] == "tpl":
                for t, _ in s[1]:
                    self.tpls[(addr, t.tid)] = t
            elif s[0] == "data":
                t = self.tpls.get((addr, s[1]))
                if t is None:
                    nonfatal += 1
                    continue
                if any((pen, eid) not in self.model for (eid, pen, _) in t.specs()):
                    nonfatal += 1
                    continue
                for vals in s[2]:
                    rec = []
                    for (eid, pen, ln), c in zip(t.specs(), vals):
                        fid, ty = self.model[(pen, eid)]
                        rec.append("%d/%d/%s" % (fid, pen if self.proto == "ipfix" else 0, interp(ty, c)))
                    out.append(",".join(rec))
            elif s[0] == "raw":
                sid = s[1]
                if sid > 255:
                    if (addr, sid) not in self.tpls:
                        nonfatal += 1
        return out, nonfatal
