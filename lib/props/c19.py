# C19 — byte reader: operation-sequence correspondence (Go reader.Reader vs Model/Reader.v).
import re

OPS = ["u8", "u16", "u32", "u64", "pu16", "len", "cnt", "r", "p"]


def py_oracle(buf, ops):
    """Independent statement of the property (not the model): expected result per op."""
    pos, out = 0, []
    i = 0
    while i < len(ops):
        o = ops[i]
        rem = len(buf) - pos
        if o in ("u8", "u16", "u32", "u64"):
            n = {"u8": 1, "u16": 2, "u32": 4, "u64": 8}[o]
            if rem >= n:
                res = str(int.from_bytes(buf[pos:pos + n], "big")); pos += n
            else:
                res = "E"
        elif o == "pu16":
            res = str(int.from_bytes(buf[pos:pos + 2], "big")) if rem >= 2 else "E"
        elif o == "len":
            res = str(rem)
        elif o == "cnt":
            res = str(pos)
        elif o in ("r", "p"):
            n = int(ops[i + 1]); i += 1
            if 0 <= n <= rem:
                res = "x" + buf[pos:pos + n].hex()
                if o == "r":
                    pos += n
            else:
                res = "E"
        else:
            i += 1
            continue
        out.append("%s/%d/%d" % (res, len(buf) - pos, pos))
        i += 1
    return " ".join(out)


class P:
    id = "C19"

    def budget(self, tier):
        return 3000 if tier == "quick" else 150000

    def gen_case(self, rng):
        n = rng.choice([0, 0, 1, 2, 3, 4, 5, 7, 8, 9, 15, 16, 17, rng.randint(0, 64), rng.randint(0, 300)])
        k = rng.random()
        if k < 0.7:
            buf = bytes(rng.randrange(256) for _ in range(n))
        elif k < 0.85:
            # values that are special as integers: all ones, all zeros, only the top bit, everything but the top bit - over the whole
            # buffer, so that every width at every position reads 2^w-1, 0, 2^(w-1) ... (a value must never be taken for a signal)
            buf = bytes([rng.choice([0xff, 0xff, 0x00, 0x80, 0x7f])]) * n
        else:
            # ... and runs of them inside random data
            b = bytearray(rng.randrange(256) for _ in range(n))
            for _ in range(rng.choice([1, 2])):
                if n:
                    i, m = rng.randrange(n), rng.choice([1, 2, 4, 8, 9, 16])
                    b[i:i + m] = bytes([rng.choice([0xff, 0x00])]) * len(b[i:i + m])
            buf = bytes(b)
        ops = []
        for _ in range(rng.randint(1, 24)):
            o = rng.choice(OPS)
            ops.append(o)
            if o in ("r", "p"):
                k = rng.random()
                if k < 0.55:
                    ops.append(str(rng.randint(0, max(0, n))))
                elif k < 0.75:
                    ops.append(str(rng.choice([n, n + 1, n - 1, 0, 1])))
                elif k < 0.9:
                    ops.append(str(rng.choice([-1, -2, -(2 ** 31), -(2 ** 59)])))
                else:
                    ops.append(str(rng.choice([2 ** 31, 2 ** 32 + 1, 2 ** 59, 65535, 65536])))
        return "reader x%s %s" % (buf.hex(), " ".join(ops))

    def long_case(self, rng):
        """buffers longer than a UDP datagram (the reader is a library type: 'every buffer'): positions and counts beyond
        2^16, reads that cross the 65535 / 65536 marks, a few large reads and many small ones around the marks"""
        n = rng.choice([65535, 65536, 65537, 65544, 70000, 131071, 131073, 200000])
        buf = bytes((i * 131 + (i >> 8) * 7 + (i >> 16) * 29) & 0xff for i in range(n))
        ops, pos = [], 0
        for _ in range(rng.randint(6, 18)):
            k = rng.random()
            rem = n - pos
            if k < 0.35 and rem > 0:
                # land just before / on / after a 2^16 multiple
                mark = rng.choice([65535, 65536, 131072])
                tgt = mark + rng.choice([-9, -8, -4, -2, -1, 0, 1, 7])
                step = tgt - pos
                if 0 < step <= rem:
                    ops += [rng.choice(["r", "r", "p"]), str(step)]
                    if ops[-2] == "r":
                        pos += step
                    continue
            if k < 0.6:
                o = rng.choice(["u8", "u16", "u32", "u64", "pu16"])
                ops.append(o)
                w = {"u8": 1, "u16": 2, "u32": 4, "u64": 8, "pu16": 0}[o]
                if rem >= w:
                    pos += w
            elif k < 0.8:
                ops.append(rng.choice(["len", "cnt"]))
            else:
                step = rng.choice([rem, rem + 1, rng.randint(0, max(0, rem)), 40000, 25600, 65536, 65535])
                ops += ["r", str(step)]
                if 0 <= step <= rem:
                    pos += step
        ops += ["cnt", "len"]
        return "reader x%s %s" % (buf.hex(), " ".join(ops))

    def cases(self, tier, rng, budget):
        out = [self.long_case(rng) for _ in range(10 if tier == "quick" else 150)]
        if tier == "thorough":
            # exhaustive: all buffers of length <= 3 over a 3-symbol alphabet x all op sequences of
            # length <= 3 with arguments in -1..4 (finite, complete)
            import itertools
            alpha = [0x00, 0x7f, 0xff]
            atoms = ["u8", "u16", "u32", "u64", "pu16", "len", "cnt"] + ["r %d" % k for k in range(-1, 5)] + ["p %d" % k for k in range(-1, 5)]
            for L in range(0, 4):
                for buf in itertools.product(alpha, repeat=L):
                    for k in range(1, 4):
                        for seq in itertools.product(atoms, repeat=k):
                            out.append("reader x%s %s" % (bytes(buf).hex(), " ".join(seq)))
            self.exhaustive_n = len(out)
        out += [self.gen_case(rng) for _ in range(budget)]
        return out

    def judge(self, line, impl, model):
        toks = line.split()
        buf = bytes.fromhex(toks[1][1:])
        want = py_oracle(buf, toks[2:])
        if impl != want:
            return "implementation differs from the property oracle: want %r got %r" % (want[:200], impl[:200])
        if model != want:
            return "MODEL differs from the property oracle (model defect): want %r model %r" % (want[:200], model[:200])
        return None

    def tags(self, line, impl, model, v):
        t = []
        if "PANIC" in impl and re.search(r" [rp] -\d+", line):
            # is the first divergence at a negative-length Read/Peek?
            toks = line.split()
            want = py_oracle(bytes.fromhex(toks[1][1:]), toks[2:]).split()
            got = impl.split()
            k = got.index("PANIC")
            # find the op index k in the op list
            ops, i = [], 2
            while i < len(toks):
                if toks[i] in ("r", "p"):
                    ops.append((toks[i], int(toks[i + 1]))); i += 2
                else:
                    ops.append((toks[i], None)); i += 1
            if k < len(ops) and ops[k][0] in ("r", "p") and ops[k][1] < 0 and got[:k] == want[:k]:
                t.append("reader-negative-length-panics")
        return t

    def classify(self, line, impl, model):
        kinds = set(re.findall(r" (u8|u16|u32|u64|pu16|len|cnt|r|p)\b", line))
        fails = model.count("E/")
        cls = "ops=%d fails=%s" % (min(len(model.split()), 30) // 5 * 5, "0" if fails == 0 else "1+")
        nontriv = line if (len(kinds) >= 2 and len(model.split()) >= 2) else None
        return (cls, nontriv)

    def shrink(self, l, i, m, v, vf):
        toks = l.split()
        head, ops = toks[:2], toks[2:]
        # group args with their op
        groups, k = [], 0
        while k < len(ops):
            if ops[k] in ("r", "p") and k + 1 < len(ops):
                groups.append(ops[k:k + 2]); k += 2
            else:
                groups.append(ops[k:k + 1]); k += 1
        changed = True
        while changed and len(groups) > 1:
            changed = False
            for j in range(len(groups)):
                cand = groups[:j] + groups[j + 1:]
                line = " ".join(head + [t for g in cand for t in g])
                ii = vf.run_impl([line], shards=1)[0]
                mm = vf.run_model([line])[0]
                vv = self.judge(line, ii, mm)
                if vv:
                    groups, l, i, m, v = cand, line, ii, mm, vv
                    changed = True
                    break
        return l, i, m, v

    def tie_obligations(self):
        return 0

    def rule(self):
        return ("seeded random operation sequences (1-24 ops over the 8 reader operations + Len + ReadCount; lengths in "
                "range, at the boundary +-1, negative, and huge) on random buffers of 0..300 octets placed inside a larger "
                "backing array; thorough adds the exhaustive space |buf|<=3 over {00,7f,ff} x op sequences <=3 with args -1..4. "
                "A case is non-trivial when it uses >= 2 distinct operation kinds and >= 2 operations; distinct = distinct case line.")

    def trusted_base(self):
        return ["Coq 8.16.1 kernel (coqc; vm_compute only in the non-vacuity Example)",
                "hand-written model coq/Model/Reader.v of reader/reader.go, tied by this correspondence run",
                "extraction (ExtrOcamlBasic directives only) + ocaml/driver.ml",
                "Go harness harness/cmd/impl/reader.go; Python oracle lib/props/c19.py"]

    def assumptions(self):
        return ["Go int is 64-bit; lengths beyond 2^59 are not exercised",
                "the model is a hand transcription of reader/reader.go (136 lines), validated by differential execution, not generated"]


PROP = P()
