# C05 — every published message is valid JSON that faithfully carries the decode.
# Cases: the structured IPFIX / v9 histories (hostile string contents, NaN/Inf, booleans, extremes)
# and v5 packets; oracle: Python's json parser + value-by-value comparison with the decoded records.
import json, re, struct, math
import vf
from props.c03 import FlowFidelity
from props.flowprop import SEP, go_model, parse_dgram, subst_floats, header_of
from props.flowgen import Gen
from props.common import go_ip_string, hx, rand_addr
from props import c08 as v5mod


def go_utf8_runes(b):
    """Go's `for _, r := range string(b)`: invalid or short sequences yield U+FFFD and consume ONE octet."""
    out, i, n = [], 0, len(b)
    while i < n:
        c = b[i]
        if c < 0x80:
            out.append(c); i += 1; continue
        if c < 0xC2 or c > 0xF4:
            out.append(0xFFFD); i += 1; continue
        size = 2 if c < 0xE0 else 3 if c < 0xF0 else 4
        lo, hi = 0x80, 0xBF
        if c == 0xE0: lo = 0xA0
        if c == 0xED: hi = 0x9F
        if c == 0xF0: lo = 0x90
        if c == 0xF4: hi = 0x8F
        if i + size > n or not (lo <= b[i + 1] <= hi) or any(not (0x80 <= x <= 0xBF) for x in b[i + 2:i + size]):
            out.append(0xFFFD); i += 1; continue
        out.append(ord(b[i:i + size].decode("utf-8"))); i += size
    return "".join(chr(x) for x in out)


def value_matches(canon, jv):
    """canon: the canonical decoded value (drivers' syntax); jv: the parsed JSON value"""
    kind, _, payload = canon.partition(":")
    if kind == "b":
        return jv is (payload == "1")
    if kind in ("u8", "u16", "u32", "u64", "i8", "i16", "i32", "i64"):
        return type(jv) is int and jv == int(payload)
    if kind in ("f32", "f64"):
        bits = int(payload)
        f = struct.unpack(">f", bits.to_bytes(4, "big"))[0] if kind == "f32" else struct.unpack(">d", bits.to_bytes(8, "big"))[0]
        if math.isnan(f):
            return jv == "NaN"
        if math.isinf(f):
            return jv == ("+Inf" if f > 0 else "-Inf")
        if not isinstance(jv, (int, float)) or isinstance(jv, bool):
            return False
        if kind == "f32":
            return struct.pack(">f", float(jv)) == struct.pack(">f", f)
        return float(jv) == f
    raw = bytes.fromhex(payload[1:])
    if kind == "mac":
        return jv == ":".join("%02x" % x for x in raw)
    if kind == "ip":
        return jv == go_ip_string(raw)
    if kind == "raw":
        return jv == "0x" + raw.hex()
    if kind == "s":
        return jv == go_utf8_runes(raw)
    return False


class P(FlowFidelity):
    def __init__(self):
        FlowFidelity.__init__(self, "C05", "ipfix")
        self.addr_of = {}

    def budget(self, tier):
        return 1500 if tier == "quick" else 60000

    def cases(self, tier, rng, budget):
        out = []
        for proto in ("ipfix", "nf9"):
            self.proto = proto
            self.cmd = "ipfixh" if proto == "ipfix" else "nf9h"
            g = Gen(proto, go_model(), rng)
            for _ in range(budget * 2 // 5):
                out.append(self.gen_case(g, rng))
        p5 = v5mod.PROP
        for _ in range(budget // 5):
            out.append(p5.gen_case(rng))
        return out

    def extra(self, tier, rng, known):
        """what is PUBLISHED is what the marshaller returned: the real workers (verbose logging on, one worker, then four) process
        histories of all four protocols, among them sFlow datagrams of many samples (documents of several kilobytes); every
        message taken off the outgoing queue must parse as one JSON document"""
        from props import c12
        p12 = c12.P()
        gens = {p: Gen(p, go_model(), rng) for p in ("ipfix", "nf9")}
        cases = []
        for proto in ("sflow", "ipfix", "nf9", "nf5") * (1 if tier == "quick" else 6):
            c = dict(p12.cj[p12.case(proto, gens.get(proto), rng)], verbose=True, mirror=False)
            if proto == "sflow":
                import props.sfgen as sfgen
                big = [sfgen.gen_datagram(rng, kinds=["flow"] * k)[0] for k in (4, 5, 6, 8, 4, 6)]
                c["dgrams"] = c["dgrams"][:60] + [[rand_addr(rng).hex(), q.hex()] for q in big if len(q) <= 8900]
                c["udpsize"], c["filter"] = 9000, []
            cases += [dict(c, workers=1, procs=1), dict(c, workers=4, procs=0)]
        res = vf.run_driver(cases, timeout=900)
        viol, n, longest = [], 0, 0
        for c, r in zip(cases, res):
            if r.get("error"):
                viol.append({"cases": [json.dumps(c)[:20000]], "verdict": "the %s pipeline failed on this history with verbose logging on: %s" % (c["proto"], r["error"][:300])})
                break
            for x in r.get("published") or []:
                b = bytes.fromhex(x)
                n += 1
                longest = max(longest, len(b))
                try:
                    json.loads(b.decode("utf-8"))
                except Exception as e:
                    viol.append({"cases": [json.dumps(c)[:20000]], "verdict": "a message published by the %s worker (verbose logging on, %d worker(s)) is not a JSON document: %s: %r"
                                 % (c["proto"], c["workers"], str(e)[:100], b[max(0, getattr(e, "pos", 0) - 60):getattr(e, "pos", 0) + 60])})
                    break
            if viol:
                break
        return {"violations": viol[:1], "coverage": {"pipeline_cases_verbose": len(cases), "published_messages_parsed": n, "longest_published_octets": longest},
                "notes": ["%d messages published by the real workers (verbose on) parsed as JSON; longest %d octets" % (n, longest)]}

    def check_flow_json(self, proto, addr, d):
        """d: parsed datagram output.  None if fine, else a description."""
        if d["json"] == "-":
            return None if d["n"] == 0 else "records were decoded but nothing is published"
        if d["json"] == "MARSHAL-ERROR":
            return "a decoded message could not be encoded (the message is lost)"
        raw = bytes.fromhex(d["json"][1:])
        try:
            txt = raw.decode("utf-8")
        except UnicodeDecodeError as e:
            return "published payload is not UTF-8 (%s): %r" % (e, raw[:120])
        try:
            js = json.loads(txt, parse_constant=lambda c: (_ for _ in ()).throw(ValueError("bare " + c)))
        except Exception as e:
            return "published payload is not a valid JSON document (%s): %r" % (e, txt[:200])
        if not isinstance(js, dict) or sorted(js) != ["AgentID", "DataSets", "Header"]:
            return "published document has the wrong members: %r" % (sorted(js) if isinstance(js, dict) else type(js))
        if js["AgentID"] != go_ip_string(addr):
            return "AgentID %r is not the canonical text of the exporter address %r" % (js["AgentID"], go_ip_string(addr))
        if js["Header"] != d["header"]:
            return "Header %r differs from the decoded header %r" % (js["Header"], d["header"])
        if len(js["DataSets"]) != len(d["recs"]):
            return "DataSets has %d records, %d were decoded" % (len(js["DataSets"]), len(d["recs"]))
        for jr, rec in zip(js["DataSets"], d["recs"]):
            fields = rec.split(",") if rec else []
            if len(jr) != len(fields):
                return "a record has %d fields in JSON, %d decoded" % (len(jr), len(fields))
            for jf, f in zip(jr, fields):
                fid, pen, val = f.split("/", 2)
                want_keys = ["I", "V"] + (["E"] if (int(pen) != 0 and proto == "ipfix") else [])
                if sorted(jf) != sorted(want_keys):
                    return "field members %r, want %r" % (sorted(jf), sorted(want_keys))
                if jf["I"] != int(fid) or ("E" in jf and jf["E"] != int(pen)):
                    return "field id/enterprise number differ: %r vs %s/%s" % (jf, fid, pen)
                if not value_matches(val, jf["V"]):
                    return "value %r is not carried faithfully: JSON has %r" % (val, jf["V"])
        return None

    def judge(self, line, impl, model):
        toks = line.split()
        if toks[0] == "nf5":
            v = v5mod.PROP.judge(line, impl, model)
            return v
        proto = "ipfix" if toks[0] == "ipfixh" else "nf9"
        if "PANIC" in impl or "HANG" in impl or impl.startswith("CRASH"):
            return "crashed: " + impl[-60:]
        addrs = [bytes.fromhex(t[1:]) for t in toks[1::2]]
        for k, (o, a) in enumerate(zip(impl.split(SEP), addrs)):
            d = parse_dgram(o)
            if d["kind"] != "MSG":
                continue
            bad = self.check_flow_json(proto, a, d)
            if bad:
                return "datagram %d: %s" % (k, bad)
        if impl != model:
            # find the first differing datagram and show the JSON texts
            for a, b in zip(impl.split(SEP), model.split(SEP)):
                if a != b:
                    da, db = parse_dgram(a), parse_dgram(b)
                    ja = bytes.fromhex(da["json"][1:]).decode("utf-8", "replace") if da.get("json", "-").startswith("x") else da.get("json")
                    jb = bytes.fromhex(db["json"][1:]).decode("utf-8", "replace") if db.get("json", "-").startswith("x") else db.get("json")
                    if ja != jb:
                        i = next((i for i, (x, y) in enumerate(zip(ja, jb)) if x != y), min(len(ja), len(jb)))
                        return "model/implementation disagreement in the JSON text at offset %d: impl ...%r model ...%r" % (i, ja[max(0, i - 30):i + 40], jb[max(0, i - 30):i + 40])
                    return "model/implementation disagreement: impl %r model %r" % (a[:300], b[:300])
        return None

    def tags(self, line, impl, model, v):
        return []

    def classify(self, line, impl, model):
        toks = line.split(" ", 1)
        kinds = set(re.findall(r"/(b|u8|u16|u32|u64|i8|i16|i32|i64|f32|f64|mac|s|ip|raw):", model))
        pub = model.count(" J:x") + (1 if " J:{" in model else 0)
        return ("%s published=%d kinds=%d" % (toks[0], min(pub, 2), min(len(kinds), 6) // 2 * 2), line if pub else None)

    def tie_obligations(self):
        return 7

    def rule(self):
        return ("40% IPFIX and 40% v9 structured histories (every element type; strings with quotes, backslashes, control, non-UTF-8 and "
                "multi-byte content; NaN/Inf/denormal floats; booleans; 64-bit extremes; 4-byte, v4-mapped and IPv6 agents), 20% v5 packets; "
                "each published payload is parsed with Python's json (bare NaN/Infinity rejected) and compared value by value with the "
                "decoded records, and byte for byte with the model's text. non-trivial = distinct case with >= 1 published message")

    def trusted_base(self):
        return FlowFidelity.trusted_base(self) + [
            "strconv.FormatFloat: the model emits a placeholder per IEEE bit pattern which is replaced by Go's own formatting; that the text is a JSON number carrying the value is checked here by parsing it back",
            "Go's UTF-8 range decoding is modelled in Base/Utf8.v (sampled here)"]

    def assumptions(self):
        return ["a string value's JSON text denotes the string after Go's UTF-8 sanitisation (invalid octets -> U+FFFD)",
                "sFlow output is produced by encoding/json (trusted); it is exercised under C07"]


PROP = P()
