# C08 — NetFlow v5: correspondence (Go netflow5.Decode + JSONMarshal vs extracted model) and an
# independent Python oracle written from Cisco's v5 format.
import json, struct
from props.common import go_ip_string, rand_addr, hx

HDR = [("Version", "H"), ("Count", "H"), ("SysUpTimeMSecs", "I"), ("UNIXSecs", "I"), ("UNIXNSecs", "I"),
       ("SeqNum", "I"), ("EngType", "B"), ("EngID", "B"), ("SmpInt", "H")]
REC = [("SrcAddr", "I"), ("DstAddr", "I"), ("NextHop", "I"), ("Input", "H"), ("Output", "H"), ("PktCount", "I"),
       ("L3Octets", "I"), ("StartTime", "I"), ("EndTime", "I"), ("SrcPort", "H"), ("DstPort", "H"), ("Padding1", "B"),
       ("TCPFlags", "B"), ("ProtType", "B"), ("Tos", "B"), ("SrcAsNum", "H"), ("DstAsNum", "H"), ("SrcMask", "B"),
       ("DstMask", "B"), ("Padding2", "H")]
HFMT = ">" + "".join(f for _, f in HDR)
RFMT = ">" + "".join(f for _, f in REC)
MAXV = {"B": 255, "H": 65535, "I": 2 ** 32 - 1}


def oracle(addr, p):
    """What the property demands, from the documented format alone."""
    if len(p) < 24:
        return {"flows": None}
    h = dict(zip([n for n, _ in HDR], struct.unpack(HFMT, p[:24])))
    if h["Version"] != 5 or not (1 <= h["Count"] <= 30) or len(p) - 24 < 48 * h["Count"]:
        return {"flows": None, "header": h}
    flows = []
    for i in range(h["Count"]):
        flows.append(dict(zip([n for n, _ in REC], struct.unpack(RFMT, p[24 + 48 * i:24 + 48 * (i + 1)]))))
    js = {"AgentID": go_ip_string(addr), "Header": h, "Flows": []}
    for f in flows:
        d = dict(f)
        for k in ("SrcAddr", "DstAddr", "NextHop"):
            d[k] = ".".join(str(x) for x in f[k].to_bytes(4, "big"))
        js["Flows"].append(d)
    return {"flows": flows, "header": h, "json": js}


def parse_out(o):
    if not o.startswith("OK "):
        return None
    try:
        return parse_out1(o)
    except Exception:
        return {"clean": "?", "header": {}, "n": -1, "flows": [], "json": "UNPARSEABLE"}


def parse_out1(o):
    head, j = o.split(" J:", 1)
    parts = head.split(" ")
    hdr = dict((kv.split("=")[0], int(kv.split("=")[1])) for kv in parts[2][2:].split(",") if kv)
    n = int(parts[3][2:])
    flows = []
    if len(parts) > 4 and parts[4]:
        for f in parts[4].split("|"):
            flows.append(dict((kv.split("=")[0], int(kv.split("=")[1])) for kv in f.split(",")))
    return {"clean": parts[1], "header": hdr, "n": n, "flows": flows, "json": j}


class P:
    id = "C08"

    def budget(self, tier):
        return 2500 if tier == "quick" else 120000

    def rand_val(self, rng, f):
        k = rng.random()
        if k < 0.2:
            return rng.choice([0, 1, MAXV[f], MAXV[f] - 1, MAXV[f] // 2 + 1])
        if k < 0.3:
            # round numbers and their neighbours (where the number of digits changes), powers of two likewise
            c = [v for e in range(1, 10) for v in (10 ** e - 1, 10 ** e, 10 ** e + 1)] + [v for e in range(1, 32) for v in (2 ** e - 1, 2 ** e)]
            return rng.choice([v for v in c if v <= MAXV[f]])
        return rng.randint(0, MAXV[f])

    def addr_family(self, rng):
        """a handful of addresses that collide pairwise under the usual multiplicative byte hashes (h = h*M + octet,
        M = 31 / 33 / 37 / 131 / 257): (.., c, d) and (.., c+1, d-M); (.., b, c, ..) and (.., b+1, c-M, ..). A memo of rendered
        addresses that is validated by such a hash confuses them within one datagram"""
        fam = []
        for _ in range(rng.choice([1, 2, 3])):
            m = rng.choice([31, 33, 37, 131, 31, 31])
            a, b = rng.randrange(256), rng.randrange(255)
            c, d = rng.randrange(m, 255) if m < 255 else 255, rng.randrange(m, 256) if m < 256 else 255
            if rng.random() < 0.6:
                c0 = rng.randrange(255)
                fam += [bytes([a, b, c0, d]), bytes([a, b, c0 + 1, d - m])]
            else:
                fam += [bytes([a, b, c, d]), bytes([a, b + 1, c - m, d])]
        return [int.from_bytes(x, "big") for x in fam]

    def packet(self, rng, count, version=5, nrec=None, distinct=False, family=None):
        hv = [self.rand_val(rng, f) for _, f in HDR]
        hv[0], hv[1] = version, count
        p = struct.pack(HFMT, *hv)
        nrec = count if nrec is None else nrec
        for i in range(nrec):
            if family:
                vals = [self.rand_val(rng, f) for _, f in REC]
                vals[0], vals[1], vals[2] = rng.choice(family), rng.choice(family), rng.choice(family)
            elif distinct:
                vals = [(17 + 31 * i + 7 * j) % (MAXV[f] + 1) for j, (_, f) in enumerate(REC)]
            else:
                vals = [self.rand_val(rng, f) for _, f in REC]
            p += struct.pack(RFMT, *vals)
        return p

    def gen_case(self, rng):
        k = rng.random()
        addr = rand_addr(rng)
        if k < 0.45:      # structured, well-formed, with/without trailing octets
            c = rng.randint(1, 30)
            p = self.packet(rng, c, distinct=rng.random() < 0.3, family=self.addr_family(rng) if rng.random() < 0.25 else None) + bytes(rng.randrange(256) for _ in range(rng.choice([0, 0, 1, 17, 47, 48, 49])))
        elif k < 0.5:     # several complete export packets back to back in ONE datagram (relays do that): only the first one's Count flows are announced
            c = rng.randint(1, 29)
            p = self.packet(rng, c, distinct=rng.random() < 0.5)
            for _ in range(rng.choice([1, 1, 2])):
                c2 = rng.randint(1, 30 - 0)
                p += self.packet(rng, c2, distinct=rng.random() < 0.5)[:rng.choice([24 + 48 * c2, 24 + 48 * c2, 24 + 48 * c2 - 1, 24])]
            p = p[:1400 + 24 + 48 * 30]
        elif k < 0.6:     # count / version variants
            c = rng.choice([0, 31, 32, 255, 65535, 1, 30])
            v = rng.choice([5, 5, 4, 6, 9, 10, 0, 65535])
            p = self.packet(rng, c, version=v, nrec=rng.randint(0, 31))
        elif k < 0.8:     # length variants around the boundary: 24+48k + {-1,0,+1,+17}, and nrec != count
            c = rng.randint(1, 30)
            p = self.packet(rng, c, nrec=rng.choice([c, c, max(0, c - 1), c + 1]))
            d = rng.choice([-49, -48, -47, -1, 0, 1, 17])
            p = p[:len(p) + d] if d < 0 else p + bytes(d)
        elif k < 0.92:    # truncation anywhere
            c = rng.randint(1, 30)
            p = self.packet(rng, c)
            p = p[:rng.randint(0, len(p))]
        else:             # arbitrary octets
            p = bytes(rng.randrange(256) for _ in range(rng.choice([0, 1, 23, 24, 25, 71, 72, 73, rng.randint(0, 1500)])))
        return "nf5 %s %s" % (hx(addr), hx(p))

    def cases(self, tier, rng, budget):
        out = []
        # directed: every count 0..31 at exact length, pairwise distinct field values (exposes swaps)
        for c in range(0, 32):
            out.append("nf5 %s %s" % (hx(bytes([192, 0, 2, c])), hx(self.packet(rng, c, distinct=True))))
        # counts ABOVE 255 with that many records really in the datagram (max-udp-size raised): the count is 16 bits wide, and
        # 257 is not 1 (low octet inside 1..30, zero, outside; up to what a UDP datagram can carry)
        for c in (256, 257, 270, 286, 287, 300, 512, 513, 542, 1025, 1054, 1364):
            out.append("nf5 %s %s" % (hx(rand_addr(rng)), hx(self.packet(rng, c, distinct=(c % 2 == 0)))))
        # the version is 16 bits wide: 0x0105, 0x0205 ... 0xff05 and 0x0500 are not version 5
        for v in (0x0105, 0x0205, 0x0505, 0x8005, 0xff05, 0x0500, 0x0050):
            out.append("nf5 %s %s" % (hx(rand_addr(rng)), hx(self.packet(rng, rng.randint(1, 30), version=v))))
        out += [self.gen_case(rng) for _ in range(budget)]
        # retention: several packets are decoded first and printed / encoded only afterwards (a decoded message must not live
        # in storage that a later decode reuses)
        self.seq = {}
        for _ in range(max(10, budget // 60)):
            singles = []
            for _ in range(rng.choice([2, 3, 5])):
                c = rng.randint(1, 30)
                singles.append("nf5 %s %s" % (hx(rand_addr(rng)), hx(self.packet(rng, c, distinct=rng.random() < 0.5))))
            if rng.random() < 0.5 and len(singles) >= 2:
                # the SAME datagram from the same agent again, at once and after others (replicators and relays do that): every
                # occurrence is decoded like the first
                a, b = singles[0], singles[1]
                singles = [a, b, a, a] + singles[2:] + [b, a]
            line = "nf5seq " + " ".join(x.split(" ", 1)[1] for x in singles)
            self.seq[line] = singles
            out.append(line)
        return out

    def post(self, lines, impl, model):
        import vf
        seq = getattr(self, "seq", {})
        need = [s1 for l in lines if l in seq for s1 in seq[l]]
        mo = dict(zip(need, vf.run_model(need))) if need else {}
        return impl, [(" ## ".join(mo[s1] for s1 in seq[l]) if l in seq else m) for l, m in zip(lines, model)]

    def judge(self, line, impl, model):
        seq = getattr(self, "seq", {})
        if line in seq:
            ip, mp = impl.split(" ## "), model.split(" ## ")
            if len(ip) != len(seq[line]):
                return "decoding %d packets and encoding them afterwards gave %d results: %s" % (len(seq[line]), len(ip), impl[:100])
            for k, (s1, i1, m1) in enumerate(zip(seq[line], ip, mp)):
                v = self.judge(s1, i1, m1)
                if v:
                    return "packet %d of %d, decoded first and printed after the later ones were decoded: %s" % (k + 1, len(ip), v)
            return None
        _, a, p = line.split()
        addr, p = bytes.fromhex(a[1:]), bytes.fromhex(p[1:])
        want = oracle(addr, p)
        got = parse_out(impl)
        if impl.startswith(("PANIC", "CRASH", "HANG")):
            return "decoder crashed: " + impl[:100]
        if want["flows"] is None:
            if got is not None and got["n"] != 0:
                return "packet with wrong version / count outside 1..30 / too few octets yielded %d flows" % got["n"]
            if got is not None and got["json"] != "-":
                return "a message was published for a packet that must yield no flows"
        else:
            if got is None:
                return "well-formed v5 packet with %d flows was rejected" % len(want["flows"])
            if got["header"] != want["header"]:
                return "header fields differ from the wire values: want %s got %s" % (want["header"], got["header"])
            if got["flows"] != want["flows"]:
                bad = [(i, k, w[k], g.get(k)) for i, (w, g) in enumerate(zip(want["flows"], got["flows"])) for k in w if g.get(k) != w[k]]
                return "flows differ from the wire values (count %d vs %d): first differences (flow, field, want, got) %s" % (len(want["flows"]), len(got["flows"]), bad[:4])
            try:
                js = json.loads(got["json"])
            except Exception as e:
                return "published JSON does not parse: %s" % e
            if js != want["json"]:
                return "published JSON does not carry the decoded values: want %s got %s" % (json.dumps(want["json"])[:300], got["json"][:300])
        if impl != model:
            return "model/implementation disagreement: impl %r model %r" % (impl[:300], model[:300])
        return None

    def classify(self, line, impl, model):
        if line in getattr(self, "seq", {}):
            return ("sequence decoded first, encoded afterwards", line)
        got = parse_out(model)
        if got is None:
            return ("rejected", "rej:" + str(len(line) % 64))
        if got["n"] == 0:
            return ("ok-noflows", "nf:" + str(len(line) % 64))
        return ("ok-flows-%02d" % (got["n"] // 5 * 5), line)

    def tie_obligations(self):
        return 5   # Proofs/Tie.v: 2 layouts + 3 JSON piece lists regenerated from the source

    def rule(self):
        return ("directed: every count 0..31 at the exact length with pairwise distinct field values; seeded: 45% well-formed "
                "(1..30 flows, boundary and random field values, a quarter with all addresses of the datagram drawn from a family colliding under multiplicative byte hashes, trailing octets), 15% version/count variants, 20% length "
                "variants around 24+48k, 12% truncations, 8% arbitrary octets; 4-byte, v4-mapped and IPv6 exporter addresses. "
                "non-trivial = distinct case line whose model outcome has >= 1 flow, plus one representative per (outcome class, size bucket)")

    def trusted_base(self):
        return ["Coq 8.16.1 kernel",
                "translator extract/layouts.go, extract/jsonpieces.go (field sequences and JSON pieces regenerated from netflow/v5/*.go; Proofs/Tie.v re-proves Gen = Pinned each run)",
                "hand-modelled control flow of Decode/decodeFlows/JSONMarshal in coq/Model/Nf5.v, tied by this correspondence run",
                "spec side Spec/Nf5Wire.v written from Cisco's v5 export format",
                "extraction (ExtrOcamlBasic) + ocaml/driver.ml; Go harness harness/cmd/impl/nf5.go; Python oracle lib/props/c08.py",
                "net.IP.String() modelled in Base/IPText.v (sampled here against Go and Python's ipaddress)"]

    def assumptions(self):
        return ["'yield no flows' includes the case where Decode returns a message with zero flows together with an error",
                "JSON numbers are compared as Python ints (exact)"]


PROP = P()
